import RbdlProofs.Lemmas.L05Vel
import RbdlProofs.Lemmas.Loop06
/-
  C05, workspace level: after `UpdateKinematics (Q, QDot, QDDot)` and after
  `UpdateKinematicsCustom (Q, QDot)` the workspace satisfies the kinematic recursions `KinWS`
  (`X_base i = X_λ i * X_base (λ i)`, `v i = X_λ i (v (λ i)) + v_J i`, `v_J i = Σ_c q̇ • S_{i,c}` with the
  *final* motion-subspace columns), and every joint has as many columns as degrees of freedom.
-/
namespace Rbdl.L05
open Lean.Grind Rbdl Rbdl.Loops
set_option linter.unusedSimpArgs false
set_option linter.unusedVariables false
set_option linter.unusedSectionVars false

section
variable {α : Type} [Field α]

/-- loop invariant indexed by the loop counter -/
theorem forUp_inv_idx {σ : Type} (Inv : Nat → σ → Prop) (body : Nat → σ → σ) (n lo : Nat)
    (h : ∀ i s, lo ≤ i → i < lo + n → Inv i s → Inv (i + 1) (body i s)) (s : σ) (h0 : Inv lo s) :
    Inv (lo + n) (forUp n lo body s) := by
  induction n generalizing lo s with
  | zero => exact h0
  | succ k ih =>
    rw [forUp]
    have := ih (lo + 1) (fun i s h1 h2 => h i s (by omega) (by omega)) (body lo s)
      (h lo s (Nat.le_refl _) (by omega) h0)
    have e : lo + 1 + k = lo + (k + 1) := by omega
    rw [e] at this
    exact this

/-! ### `jcalc`: `v_J = S q̇` with the columns it leaves in the workspace -/

/-- for every joint kind `jcalc` handles, on a workspace with the construction-time content
    `L06.JointWS`: `v_J[i] = Σ_c q̇[qIndex + c] • S_c` -/
theorem jcalc_v_J_cols (m : ModelS α) (w : WS α) (i : Nat) (st : QS α) (qd : VecN α)
    (hj : (m.joint i).jt.hasJcalc = true) (hws : L06.JointWS m w i) :
    (jcalc m w i st qd).v_J i
      = wsum (fun z => qd ((m.joint i).qIndex + z)) 0 ((jcalc m w i st qd).Scols m i) := by
  have h31 : ¬ (3 : Nat) = 1 := by decide
  cases h : (m.joint i).jt <;> simp only [h, JT.hasJcalc, Bool.false_eq_true] at hj
  case revoluteX =>
    simp only [L06.JointWS, h] at hws
    obtain ⟨hdof, h1, h2, h3, hS, hc⟩ := hws
    simp only [V3.ext_iff, alg] at h3
    simp only [WS.Scols, ModelS.arity, h, hdof, jcalc, upd_same, hS, reduceCtorEq, if_false,
      if_true, wsum, Nat.add_zero]
    ext <;> simp only [alg, sv6] <;> grind
  case revoluteY =>
    simp only [L06.JointWS, h] at hws
    obtain ⟨hdof, h1, h2, h3, hS, hc⟩ := hws
    simp only [V3.ext_iff, alg] at h3
    simp only [WS.Scols, ModelS.arity, h, hdof, jcalc, upd_same, hS, reduceCtorEq, if_false,
      if_true, wsum, Nat.add_zero]
    ext <;> simp only [alg, sv6] <;> grind
  case revoluteZ =>
    simp only [L06.JointWS, h] at hws
    obtain ⟨hdof, h1, h2, h3, hS, hc⟩ := hws
    simp only [V3.ext_iff, alg] at h3
    simp only [WS.Scols, ModelS.arity, h, hdof, jcalc, upd_same, hS, reduceCtorEq, if_false,
      if_true, wsum, Nat.add_zero]
    ext <;> simp only [alg, sv6] <;> grind
  case revolute =>
    simp only [L06.JointWS, h] at hws
    obtain ⟨hdof, hS, hc⟩ := hws
    simp only [WS.Scols, ModelS.arity, h, hdof, jcalc, upd_same, hS, reduceCtorEq, if_false,
      if_true, wsum, Nat.add_zero]
    ext <;> simp only [alg, sv6] <;> grind
  case prismatic =>
    simp only [L06.JointWS, h] at hws
    obtain ⟨hdof, hS, hc⟩ := hws
    simp only [WS.Scols, ModelS.arity, h, hdof, jcalc, upd_same, hS, reduceCtorEq, if_false,
      if_true, wsum, Nat.add_zero]
    ext <;> simp only [alg, sv6] <;> grind
  case helical =>
    simp only [L06.JointWS, h] at hws
    simp only [WS.Scols, ModelS.arity, h, hws, jcalc, upd_same, reduceCtorEq, if_false,
      if_true, wsum, Nat.add_zero]
    ext <;> simp only [alg, sv6] <;> grind
  case eulerZYX =>
    simp only [L06.JointWS, h, L06.vZero, V3.ext_iff, alg] at hws
    obtain ⟨hdof, ⟨⟨z1, z2, z3⟩, ⟨z4, z5, z6⟩, z7, z8, z9⟩, y1, y2, y3⟩ := hws
    simp only [WS.Scols, ModelS.arity, h, hdof, h31, jcalc, upd_same, reduceCtorEq, if_false,
      if_true, wsum, Nat.add_zero, M63.cols, Nat.zero_add, Nat.reduceAdd]
    ext <;> simp only [alg, sv6] <;> grind
  case eulerXYZ =>
    simp only [L06.JointWS, h, L06.vZero, V3.ext_iff, alg] at hws
    obtain ⟨hdof, ⟨⟨z1, z2, z3⟩, ⟨z4, z5, z6⟩, z7, z8, z9⟩, y1, y2, y3⟩ := hws
    simp only [WS.Scols, ModelS.arity, h, hdof, h31, jcalc, upd_same, reduceCtorEq, if_false,
      if_true, wsum, Nat.add_zero, M63.cols, Nat.zero_add, Nat.reduceAdd]
    ext <;> simp only [alg, sv6] <;> grind
  case eulerYXZ =>
    simp only [L06.JointWS, h, L06.vZero, V3.ext_iff, alg] at hws
    obtain ⟨hdof, ⟨⟨z1, z2, z3⟩, ⟨z4, z5, z6⟩, z7, z8, z9⟩, y1, y2, y3⟩ := hws
    simp only [WS.Scols, ModelS.arity, h, hdof, h31, jcalc, upd_same, reduceCtorEq, if_false,
      if_true, wsum, Nat.add_zero, M63.cols, Nat.zero_add, Nat.reduceAdd]
    ext <;> simp only [alg, sv6] <;> grind
  case eulerZXY =>
    simp only [L06.JointWS, h, L06.vZero, V3.ext_iff, alg] at hws
    obtain ⟨hdof, ⟨⟨z1, z2, z3⟩, ⟨z4, z5, z6⟩, z7, z8, z9⟩, y1, y2, y3⟩ := hws
    simp only [WS.Scols, ModelS.arity, h, hdof, h31, jcalc, upd_same, reduceCtorEq, if_false,
      if_true, wsum, Nat.add_zero, M63.cols, Nat.zero_add, Nat.reduceAdd]
    ext <;> simp only [alg, sv6] <;> grind
  case translationXYZ =>
    simp only [L06.JointWS, h, V3.ext_iff, alg] at hws
    obtain ⟨hdof, ⟨z1, z2, z3⟩, ⟨z4, z5, z6⟩, ⟨z7, z8, z9⟩, y1, y2, y3, y4, y5, y6⟩ := hws
    simp only [WS.Scols, ModelS.arity, h, hdof, h31, jcalc, upd_same, reduceCtorEq, if_false,
      if_true, wsum, Nat.add_zero, M63.cols, Nat.zero_add, Nat.reduceAdd]
    ext <;> simp only [alg, sv6] <;> grind
  case spherical =>
    simp only [L06.JointWS, h, L06.vZero, V3.ext_iff, alg] at hws
    obtain ⟨hdof, hc, ⟨⟨z1, z2, z3⟩, ⟨z4, z5, z6⟩, z7, z8, z9⟩, y1, y2, y3, y4, y5, y6⟩ := hws
    simp only [WS.Scols, ModelS.arity, h, hdof, h31, jcalc, upd_same, reduceCtorEq, if_false,
      if_true, wsum, Nat.add_zero, M63.cols, Nat.zero_add, Nat.reduceAdd]
    ext <;> simp only [alg, sv6, sphericalS, M63.setW] <;> grind
  case custom =>
    simp only [WS.Scols, ModelS.arity, h, jcalc, upd_same, if_true]
    rw [colsMul_eq_wsum]

/-- the construction-time content of the workspace survives `jcalc` -/
theorem JointWS_jcalc (m : ModelS α) (w : WS α) (i : Nat) (st : QS α) (qd : VecN α)
    (h : L06.JointWS m w i) : L06.JointWS m (jcalc m w i st qd) i := by
  unfold L06.JointWS at h ⊢
  cases hj : (m.joint i).jt <;> simp only [hj] at h ⊢ <;>
    first
    | exact h
    | (simp only [jcalc, hj, upd_same, L06.vZero, eulerZYX_S, eulerXYZ_S, eulerYXZ_S, eulerZXY_S,
        M63.setW, sphericalS, translationS] at h ⊢; exact h)

theorem jcalc_cS_other (m : ModelS α) (w : WS α) (i : Nat) (st : QS α) (qd : VecN α) (k : Nat)
    (h : (m.joint i).jt ≠ .custom ∨ (m.joint i).customIdx ≠ k) :
    (jcalc m w i st qd).cS k = w.cS k := by
  unfold jcalc
  dsimp only
  cases hj : (m.joint i).jt <;>
    first
    | rfl
    | (rcases h with h | h
       · exact absurd hj h
       · simp only [upd_other _ _ _ _ (Ne.symm h)])

theorem customCalc_cols_length (kind : CustomKind) (k : Nat) (st : QS α) (qd : VecN α) :
    (customCalc kind k st qd).2.1.length = kind.dof := by
  cases kind <;> rfl

theorem jcalc_cS_length (m : ModelS α) (w : WS α) (i : Nat) (st : QS α) (qd : VecN α)
    (h : (m.joint i).jt = .custom) :
    ((jcalc m w i st qd).cS (m.joint i).customIdx).length
      = (m.custom (m.joint i).customIdx).dof := by
  simp only [jcalc, h, upd_same]
  exact customCalc_cols_length _ _ _ _

/-- `Scols m i` reads `S[i]`, `multdof3_S[i]` and, for a custom joint, its column list -/
theorem Scols_congr (m : ModelS α) (w w' : WS α) (i : Nat) (h1 : w'.S i = w.S i)
    (h3 : w'.S3 i = w.S3 i)
    (hc : (m.joint i).jt = .custom →
      w'.cS (m.joint i).customIdx = w.cS (m.joint i).customIdx) :
    w'.Scols m i = w.Scols m i := by
  unfold WS.Scols ModelS.arity
  by_cases hcu : (m.joint i).jt = .custom
  · simp only [if_pos hcu]; exact hc hcu
  · simp only [if_neg hcu]
    by_cases d1 : (m.joint i).dof = 1
    · simp only [if_pos d1, h1]
    · by_cases d3 : (m.joint i).dof = 3
      · simp only [if_neg d1, if_pos d3, h3]
      · simp only [if_neg d1, if_neg d3]

/-- custom joints use pairwise different slots of the custom-joint arrays -/
def CustomInj (m : ModelS α) : Prop :=
  ∀ i j, 1 ≤ i → i < m.nBodies → 1 ≤ j → j < m.nBodies → (m.joint i).jt = .custom →
    (m.joint j).jt = .custom → (m.joint i).customIdx = (m.joint j).customIdx → i = j

/-! ### loop bodies that run `jcalc` and propagate the velocity -/

/-- what the velocity part of a loop body does (the fields the Jacobians and `v` depend on) -/
structure VelBody (m : ModelS α) (st : QS α) (qd : VecN α) (body : Nat → WS α → WS α) : Prop where
  X_lambda : ∀ i w, (body i w).X_lambda = (jcalc m w i st qd).X_lambda
  v : ∀ i w, (body i w).v = upd w.v i
    (if m.lam i ≠ 0 then
      ((jcalc m w i st qd).X_lambda i).apply (w.v (m.lam i)) + (jcalc m w i st qd).v_J i
     else (jcalc m w i st qd).v_J i)
  v_J : ∀ i w, (body i w).v_J = (jcalc m w i st qd).v_J
  c_J : ∀ i w, (body i w).c_J = (jcalc m w i st qd).c_J
  S : ∀ i w, (body i w).S = (jcalc m w i st qd).S
  S3 : ∀ i w, (body i w).S3 = (jcalc m w i st qd).S3
  cS : ∀ i w, (body i w).cS = (jcalc m w i st qd).cS

/-- the velocity facts of body `i` (the part of `KinAt` that does not mention `X_base`) -/
structure VelAt (m : ModelS α) (w : WS α) (qd : VecN α) (i : Nat) : Prop where
  v : w.v i = if m.lam i ≠ 0 then (w.X_lambda i).apply (w.v (m.lam i)) + w.v_J i else w.v_J i
  v_J : w.v_J i = wsum (fun z => qd ((m.joint i).qIndex + z)) 0 (w.Scols m i)
  cols : (m.joint i).jt = .custom →
    (w.cS (m.joint i).customIdx).length = (m.custom (m.joint i).customIdx).dof

theorem VelBody.Scols_other {m : ModelS α} {st : QS α} {qd : VecN α} {body : Nat → WS α → WS α}
    (hb : VelBody m st qd body) (hinj : CustomInj m) (k : Nat) (w : WS α) (i : Nat)
    (hk1 : 1 ≤ k) (hk : k < m.nBodies) (hi1 : 1 ≤ i) (hi : i < m.nBodies) (hne : i ≠ k) :
    (body k w).Scols m i = w.Scols m i ∧
    ((m.joint i).jt = .custom →
      (body k w).cS (m.joint i).customIdx = w.cS (m.joint i).customIdx) := by
  have hcs : (m.joint i).jt = .custom →
      (body k w).cS (m.joint i).customIdx = w.cS (m.joint i).customIdx := by
    intro hci
    rw [hb.cS]
    refine jcalc_cS_other m w k st qd _ ?_
    by_cases hck : (m.joint k).jt = .custom
    · exact Or.inr (fun e => hne (hinj i k hi1 hi hk1 hk hci hck e.symm))
    · exact Or.inl hck
  refine ⟨Scols_congr m w _ i ?_ ?_ hcs, hcs⟩
  · rw [hb.S, L06.jcalc_S_other _ _ _ _ _ _ hne]
  · rw [hb.S3, L06.jcalc_S3_other _ _ _ _ _ _ hne]

/-- **the velocity loop**: after `for i = 1 .. nBodies-1: body i`, every movable body satisfies the
    velocity recursion with the final workspace entries, and `X_lambda[i]` is what `jcalc` computes
    from joint `i` and the state -/
theorem velBody_loop (m : ModelS α) (st : QS α) (qd : VecN α) (body : Nat → WS α → WS α)
    (hb : VelBody m st qd body) (w0 : WS α) (htree : Tree m)
    (hjc : ∀ i, 1 ≤ i → i < m.nBodies → (m.joint i).jt.hasJcalc = true)
    (hws : ∀ i, 1 ≤ i → i < m.nBodies → L06.JointWS m w0 i) (hinj : CustomInj m) :
    ∀ i, 1 ≤ i → i < m.nBodies →
      VelAt m (forUp (m.nBodies - 1) 1 body w0) qd i ∧
      (forUp (m.nBodies - 1) 1 body w0).X_lambda i = jcalcX m i st (w0.X_lambda i) := by
  have key := forUp_inv_idx
    (fun k w =>
      (∀ i, 1 ≤ i → i < k → i < m.nBodies →
        VelAt m w qd i ∧ w.X_lambda i = jcalcX m i st (w0.X_lambda i)) ∧
      (∀ i, k ≤ i → i < m.nBodies → L06.JointWS m w i ∧ w.X_lambda i = w0.X_lambda i))
    body (m.nBodies - 1) 1 ?_ w0 ⟨fun i h1 h2 => by omega, fun i h1 h2 => ⟨hws i h1 h2, rfl⟩⟩
  · intro i h1 hi
    have := key.1 i h1 (by omega) hi
    exact this
  · intro k w hk1 hk2 ⟨hdone, htodo⟩
    have hk : k < m.nBodies := by omega
    have hltk := htree k hk1 hk
    obtain ⟨hJ, hXk⟩ := htodo k (Nat.le_refl _) hk
    have hXl : ∀ j, j ≠ k → (body k w).X_lambda j = w.X_lambda j := fun j hj => by
      rw [hb.X_lambda, jcalc_X_lambda, upd_other _ _ _ _ hj]
    have hvo : ∀ j, j ≠ k → (body k w).v j = w.v j := fun j hj => by
      rw [hb.v, upd_other _ _ _ _ hj]
    have hvJo : ∀ j, j ≠ k → (body k w).v_J j = w.v_J j := fun j hj => by
      rw [hb.v_J, L06.jcalc_v_J_other _ _ _ _ _ _ hj]
    refine ⟨fun i hi1 hik hi => ?_, fun i hki hi => ?_⟩
    · by_cases e : i = k
      · -- the entry written by this iteration
        subst e
        have hSc : (body i w).Scols m i = (jcalc m w i st qd).Scols m i :=
          Scols_congr m _ _ i (by rw [hb.S]) (by rw [hb.S3]) (fun _ => by rw [hb.cS])
        refine ⟨⟨?_, ?_, fun hci => ?_⟩, ?_⟩
        · rw [hb.v, upd_same, hb.X_lambda, hb.v_J]
          by_cases hl : m.lam i ≠ 0
          · rw [if_pos hl, if_pos hl, upd_other _ _ _ _ (by omega)]
          · rw [if_neg hl, if_neg hl]
        · rw [hb.v_J, hSc]
          exact jcalc_v_J_cols m w i st qd (hjc i hk1 hk) hJ
        · rw [hb.cS]; exact jcalc_cS_length m w i st qd hci
        · rw [hb.X_lambda, jcalc_X_lambda, upd_same, hXk]
      · -- earlier entries are not touched
        have hik' : i < k := by omega
        obtain ⟨hva, hxl⟩ := hdone i hi1 hik' hi
        have hlti := htree i hi1 hi
        obtain ⟨hSc, hcs⟩ := hb.Scols_other hinj k w i hk1 hk hi1 hi e
        refine ⟨⟨?_, ?_, fun hci => ?_⟩, ?_⟩
        · rw [hvo i e, hXl i e, hvJo i e, hvo (m.lam i) (by omega)]; exact hva.v
        · rw [hvJo i e, hSc]; exact hva.v_J
        · rw [hcs hci]; exact hva.cols hci
        · rw [hXl i e]; exact hxl
    · have e : i ≠ k := by omega
      obtain ⟨hJi, hXi⟩ := htodo i (by omega) hi
      refine ⟨L06.JointWS_congr m w _ i (hvJo i e) ?_ ?_ ?_ hJi, by rw [hXl i e]; exact hXi⟩
      · rw [hb.S, L06.jcalc_S_other _ _ _ _ _ _ e]
      · rw [hb.c_J, L06.jcalc_c_J_other _ _ _ _ _ _ e]
      · rw [hb.S3, L06.jcalc_S3_other _ _ _ _ _ _ e]

/-! ### `UpdateKinematics` -/

theorem ukBody_X_lambda (m : ModelS α) (st : QS α) (qd qdd : VecN α) (i : Nat) (w : WS α) :
    (L06.ukBody m st qd qdd i w).X_lambda = (jcalc m w i st qd).X_lambda := by
  by_cases hl : m.lam i ≠ 0
  · simp only [L06.ukBody, if_pos hl]
  · simp only [L06.ukBody, if_neg hl]

theorem ukBody_cS (m : ModelS α) (st : QS α) (qd qdd : VecN α) (i : Nat) (w : WS α) :
    (L06.ukBody m st qd qdd i w).cS = (jcalc m w i st qd).cS := by
  by_cases hl : m.lam i ≠ 0
  · simp only [L06.ukBody, if_pos hl]
  · simp only [L06.ukBody, if_neg hl]

theorem ukBody_v (m : ModelS α) (st : QS α) (qd qdd : VecN α) (i : Nat) (w : WS α) :
    (L06.ukBody m st qd qdd i w).v = upd w.v i
      (if m.lam i ≠ 0 then
        ((jcalc m w i st qd).X_lambda i).apply (w.v (m.lam i)) + (jcalc m w i st qd).v_J i
       else (jcalc m w i st qd).v_J i) := by
  by_cases hl : m.lam i ≠ 0
  · simp only [L06.ukBody, if_pos hl, L06.jcalc_v]
  · simp only [L06.ukBody, if_neg hl, L06.jcalc_v]

theorem velBody_ukBody (m : ModelS α) (st : QS α) (qd qdd : VecN α) :
    VelBody m st qd (L06.ukBody m st qd qdd) :=
  ⟨ukBody_X_lambda m st qd qdd, ukBody_v m st qd qdd, L06.ukBody_v_J m st qd qdd,
   L06.ukBody_c_J m st qd qdd, L06.ukBody_S m st qd qdd, L06.ukBody_S3 m st qd qdd,
   ukBody_cS m st qd qdd⟩

/-- the `X_base` recursion of body `i` -/
def XBaseAt (m : ModelS α) (w : WS α) (i : Nat) : Prop :=
  w.X_base i = if m.lam i ≠ 0 then w.X_lambda i * w.X_base (m.lam i) else w.X_lambda i

theorem uk_XBaseAt (m : ModelS α) (st : QS α) (qd qdd : VecN α) (w0 : WS α) (htree : Tree m) :
    ∀ i, 1 ≤ i → i < m.nBodies →
      XBaseAt m (forUp (m.nBodies - 1) 1 (L06.ukBody m st qd qdd) w0) i := by
  have key := forUp_inv_idx
    (fun k w => ∀ i, 1 ≤ i → i < k → i < m.nBodies → XBaseAt m w i)
    (L06.ukBody m st qd qdd) (m.nBodies - 1) 1 ?_ w0 (fun i h1 h2 => by omega)
  · intro i h1 hi
    exact key i h1 (by omega) hi
  · intro k w hk1 hk2 hdone i hi1 hik hi
    have hk : k < m.nBodies := by omega
    have hlti := htree i hi1 hi
    unfold XBaseAt
    by_cases e : i = k
    · subst e
      rw [L06.ukBody_X_base, ukBody_X_lambda,
        L06.ukBody_X_base_other m st qd qdd i w (m.lam i) (by omega)]
    · have := hdone i hi1 (by omega) hi
      unfold XBaseAt at this
      rw [L06.ukBody_X_base_other m st qd qdd k w i e,
        L06.ukBody_X_base_other m st qd qdd k w (m.lam i) (by omega),
        ukBody_X_lambda, jcalc_X_lambda, upd_other _ _ _ _ e]
      exact this

/-- hypotheses on model, state and initial workspace shared by the theorems below (as in C06) -/
structure KinHyp (m : ModelS α) (w : WS α) (st : QS α) : Prop where
  tree : Tree m
  jc : ∀ i, 1 ≤ i → i < m.nBodies → (m.joint i).jt.hasJcalc = true
  frame : ∀ i, 1 ≤ i → i < m.nBodies → (m.XT_ i).E.IsRot
  unit : ∀ i, 1 ≤ i → i < m.nBodies → m.jointUnit i st
  ws : ∀ i, 1 ≤ i → i < m.nBodies → L06.JointWS m w i
  inj : CustomInj m

theorem kinWS_of_parts {m : ModelS α} {w w0 : WS α} {st : QS α} {qd : VecN α}
    (hjc : ∀ i, 1 ≤ i → i < m.nBodies → (m.joint i).jt.hasJcalc = true)
    (hframe : ∀ i, 1 ≤ i → i < m.nBodies → (m.XT_ i).E.IsRot)
    (hunit : ∀ i, 1 ≤ i → i < m.nBodies → m.jointUnit i st)
    (hv : ∀ i, 1 ≤ i → i < m.nBodies →
      VelAt m w qd i ∧ w.X_lambda i = jcalcX m i st (w0.X_lambda i))
    (hx : ∀ i, 1 ≤ i → i < m.nBodies → XBaseAt m w i) : KinWS m w qd := by
  intro i h1 hi
  obtain ⟨hva, hxl⟩ := hv i h1 hi
  refine ⟨hx i h1 hi, hva.v, hva.v_J, ?_⟩
  rw [hxl]
  exact jcalcX_isRot m i st _ (hjc i h1 hi) (hframe i h1 hi) (hunit i h1 hi)

/-- the custom joints of a workspace carry as many columns as their kind has degrees of freedom -/
def CustomCols (m : ModelS α) (w : WS α) : Prop :=
  ∀ i, 1 ≤ i → i < m.nBodies → (m.joint i).jt = .custom →
    (w.cS (m.joint i).customIdx).length = (m.custom (m.joint i).customIdx).dof

/-- with the declared `dof` of a custom joint equal to that of its kind (`ModelS.jointOk`) -/
theorem colsOk_of_customCols {m : ModelS α} {w : WS α} (h : CustomCols m w)
    (hd : ∀ i, 1 ≤ i → i < m.nBodies → (m.joint i).jt = .custom →
      (m.joint i).dof = (m.custom (m.joint i).customIdx).dof) : ColsOk m w :=
  colsOk_of_custom m w (fun j h1 hj hc => by rw [h j h1 hj hc, hd j h1 hj hc]; exact Nat.le_refl _)

/-- **`UpdateKinematics`** leaves a workspace that satisfies the kinematic recursions -/
theorem kinWS_updateKinematics (m : ModelS α) (w : WS α) (st : QS α) (qd qdd : VecN α)
    (h : KinHyp m w st) :
    KinWS m (updateKinematics m w st qd qdd) qd ∧
    CustomCols m (updateKinematics m w st qd qdd) := by
  rw [L06.uk_eq_forUp]
  have hws' : ∀ i, 1 ≤ i → i < m.nBodies →
      L06.JointWS m { w with a := upd w.a 0 SV.zero } i :=
    fun i h1 hi => L06.JointWS_congr m w _ i rfl rfl rfl rfl (h.ws i h1 hi)
  have hv := velBody_loop m st qd _ (velBody_ukBody m st qd qdd) _ h.tree h.jc hws' h.inj
  exact ⟨kinWS_of_parts h.jc h.frame h.unit hv (uk_XBaseAt m st qd qdd _ h.tree),
    fun i h1 hi hc => (hv i h1 hi).1.cols hc⟩

/-! ### `UpdateKinematicsCustom (Q, QDot)` -/

/-- body of the velocity loop of `updateKinematicsCustom` -/
def ukcVBody (m : ModelS α) (st : QS α) (qd : VecN α) (i : Nat) (w : WS α) : WS α :=
  let lam := m.lam i
  let w := jcalc m w i st qd
  let w := if lam ≠ 0 then
      { w with v := upd w.v i ((w.X_lambda i).apply (w.v lam) + w.v_J i) }
    else { w with v := upd w.v i (w.v_J i) }
  { w with c := upd w.c i (w.c_J i + crossm (w.v i) (w.v_J i)) }

theorem ukc2_eq_forUp (m : ModelS α) (w : WS α) (st : QS α) (qd : VecN α) :
    updateKinematicsCustom m w (some st) (some qd) none
      = forUp (m.nBodies - 1) 1 (ukcVBody m st qd)
          (updateKinematicsCustom m w (some st) none none) := rfl

theorem velBody_ukcVBody (m : ModelS α) (st : QS α) (qd : VecN α) :
    VelBody m st qd (ukcVBody m st qd) := by
  refine ⟨?_, ?_, ?_, ?_, ?_, ?_, ?_⟩ <;> intro i w <;> by_cases hl : m.lam i ≠ 0
  all_goals
    first
    | (simp only [ukcVBody, if_pos hl, L06.jcalc_v]; done)
    | (simp only [ukcVBody, if_neg hl, L06.jcalc_v]; done)

theorem ukcVBody_X_base (m : ModelS α) (st : QS α) (qd : VecN α) (i : Nat) (w : WS α) :
    (ukcVBody m st qd i w).X_base = w.X_base := by
  by_cases hl : m.lam i ≠ 0
  · simp only [ukcVBody, if_pos hl, jcalc_X_base]
  · simp only [ukcVBody, if_neg hl, jcalc_X_base]

/-- `jcalc` recomputes the same `X_lambda[i]` -/
theorem jcalcX_idem (m : ModelS α) (i : Nat) (st : QS α) (old : XT α) :
    jcalcX m i st (jcalcX m i st old) = jcalcX m i st old := by
  unfold jcalcX
  dsimp only
  cases (m.joint i).jt <;> rfl

theorem ukcBody_fields (m : ModelS α) (st : QS α) (i : Nat) (w : WS α) :
    (ukcBody m st i w).v_J = (jcalc m w i st zeroVec).v_J ∧
    (ukcBody m st i w).S = (jcalc m w i st zeroVec).S ∧
    (ukcBody m st i w).c_J = (jcalc m w i st zeroVec).c_J ∧
    (ukcBody m st i w).S3 = (jcalc m w i st zeroVec).S3 := by
  unfold ukcBody
  dsimp only
  split <;> exact ⟨rfl, rfl, rfl, rfl⟩

/-- the position loop keeps the construction-time content of the workspace -/
theorem ukc_JointWS (m : ModelS α) (w : WS α) (st : QS α)
    (hws : ∀ i, 1 ≤ i → i < m.nBodies → L06.JointWS m w i) :
    ∀ i, 1 ≤ i → i < m.nBodies →
      L06.JointWS m (updateKinematicsCustom m w (some st) none none) i := by
  rw [ukc_eq_forUp]
  refine forUp_inv (fun w => ∀ i, 1 ≤ i → i < m.nBodies → L06.JointWS m w i) (ukcBody m st)
    (m.nBodies - 1) 1 ?_ w hws
  intro k w hk1 hk2 hall i h1 hi
  obtain ⟨e1, e2, e3, e4⟩ := ukcBody_fields m st k w
  by_cases e : i = k
  · subst e
    exact L06.JointWS_congr m (jcalc m w i st zeroVec) _ i (by rw [e1]) (by rw [e2]) (by rw [e3])
      (by rw [e4]) (JointWS_jcalc m w i st zeroVec (hall i h1 hi))
  · refine L06.JointWS_congr m w _ i ?_ ?_ ?_ ?_ (hall i h1 hi)
    · rw [e1, L06.jcalc_v_J_other _ _ _ _ _ _ e]
    · rw [e2, L06.jcalc_S_other _ _ _ _ _ _ e]
    · rw [e3, L06.jcalc_c_J_other _ _ _ _ _ _ e]
    · rw [e4, L06.jcalc_S3_other _ _ _ _ _ _ e]

/-- **`UpdateKinematicsCustom (Q, QDot)`** leaves a workspace that satisfies the kinematic
    recursions -/
theorem kinWS_updateKinematicsCustom (m : ModelS α) (w : WS α) (st : QS α) (qd : VecN α)
    (h : KinHyp m w st) :
    KinWS m (updateKinematicsCustom m w (some st) (some qd) none) qd ∧
    CustomCols m (updateKinematicsCustom m w (some st) (some qd) none) := by
  rw [ukc2_eq_forUp]
  have hv := velBody_loop m st qd _ (velBody_ukcVBody m st qd)
    (updateKinematicsCustom m w (some st) none none) h.tree h.jc (ukc_JointWS m w st h.ws) h.inj
  have hXb : (forUp (m.nBodies - 1) 1 (ukcVBody m st qd)
      (updateKinematicsCustom m w (some st) none none)).X_base
        = (updateKinematicsCustom m w (some st) none none).X_base :=
    forUp_keep (fun s => s.X_base) (ukcVBody m st qd) _ _
      (fun i s _ _ => ukcVBody_X_base m st qd i s) _
  have hXl : ∀ i, 1 ≤ i → i < m.nBodies →
      (forUp (m.nBodies - 1) 1 (ukcVBody m st qd)
        (updateKinematicsCustom m w (some st) none none)).X_lambda i
        = (updateKinematicsCustom m w (some st) none none).X_lambda i := fun i h1 hi => by
    rw [(hv i h1 hi).2, ukc_X_lambda m w st i h1 hi, jcalcX_idem]
  refine ⟨kinWS_of_parts h.jc h.frame h.unit hv (fun i h1 hi => ?_),
    fun i h1 hi hc => (hv i h1 hi).1.cols hc⟩
  unfold XBaseAt
  rw [hXb, hXl i h1 hi]
  exact ukc_X_base m w st h.tree i h1 hi

end
end Rbdl.L05
