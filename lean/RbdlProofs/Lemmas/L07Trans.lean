import RbdlProofs.Lemmas.L07EulerChain
/-
  C07: `TranslationXYZ` versus the chain of three prismatic joints along x, y, z.
-/
namespace Rbdl.L07
open Lean.Grind Rbdl Rbdl.Loops Rbdl.L01
set_option linter.unusedVariables false
set_option linter.unusedSimpArgs false

section
variable {α : Type} [Field α]

def ex : SV α := sv6 0 0 0 1 0 0
def ey : SV α := sv6 0 0 0 0 1 0
def ez : SV α := sv6 0 0 0 0 0 1

/-- `jcalc` for a prismatic joint -/
theorem jcalc_prism (m : ModelS α) (w : WS α) (i : Nat) (st : QS α) (qd : VecN α)
    (ht : (m.joint i).jt = .prismatic) (hw : FixedW m w i) :
    let ax := (m.joint i).axes.headD SV.zero
    (jcalc m w i st qd).X_lambda i = Xtrans (st.q (m.joint i).qIndex * ax.v) * m.XT_ i ∧
    (jcalc m w i st qd).S i = ax ∧
    (jcalc m w i st qd).v_J i = qd (m.joint i).qIndex * ax ∧
    (jcalc m w i st qd).c_J i = SV.zero := by
  intro ax
  unfold FixedW at hw
  rw [ht] at hw
  simp only [FixedAt] at hw
  obtain ⟨a1, a2⟩ := hw
  rw [L13.jcalc_eq]
  simp only [upd_same]
  unfold jcalcX L13.jcalcS L13.jcalcVJ L13.jcalcCJ jcalcXJ
  simp only [ht, a1, a2, ax, and_self]

theorem translationS_fixed (S : M63 α) (h : S3mask .translationXYZ S = M63.zero) :
    translationS S = translationS M63.zero := by
  obtain ⟨⟨⟨a0, a1, a2⟩, ⟨a3, a4, a5⟩⟩, ⟨⟨b0, b1, b2⟩, ⟨b3, b4, b5⟩⟩, ⟨⟨d0, d1, d2⟩, ⟨d3, d4, d5⟩⟩⟩ := S
  simp only [S3mask, M63.zero, SV.zero, V3.zero, M63.mk.injEq, SV.mk.injEq, V3.mk.injEq,
    translationS] at h ⊢
  grind

/-- `jcalc` for `TranslationXYZ` -/
theorem jcalc_trans (m : ModelS α) (w : WS α) (i : Nat) (st : QS α) (qd : VecN α)
    (ht : (m.joint i).jt = .translationXYZ) (hw : FixedW m w i) :
    let k := (m.joint i).qIndex
    (jcalc m w i st qd).X_lambda i
      = ⟨(m.XT_ i).E, (m.XT_ i).r + (m.XT_ i).E.tmulVec ⟨st.q k, st.q (k+1), st.q (k+2)⟩⟩ ∧
    (jcalc m w i st qd).S3 i = translationS M63.zero ∧
    (jcalc m w i st qd).v_J i = (translationS M63.zero).mulV3 ⟨qd k, qd (k+1), qd (k+2)⟩ ∧
    (jcalc m w i st qd).c_J i = SV.zero := by
  intro k
  unfold FixedW at hw
  rw [ht] at hw
  simp only [FixedAt] at hw
  have hS := translationS_fixed _ hw
  rw [L13.jcalc_eq]
  simp only [upd_same]
  unfold jcalcX L13.jcalcVJ L13.jcalcCJ L13.jcalcS3
  simp only [ht, hS, k, and_self]

/-- A (translation): `X_J` is the product of the three prismatic `X_J` -/
theorem transX_eq (X : XT α) (q0 q1 q2 : α) :
    (⟨X.E, X.r + X.E.tmulVec ⟨q0, q1, q2⟩⟩ : XT α)
      = Xtrans (q2 * (ez : SV α).v) * Xtrans (q1 * (ey : SV α).v) * (Xtrans (q0 * (ex : SV α).v) * X) := by
  simp only [ex, ey, ez, sv6]
  alg_ext

/-- A (translation): the columns of `multdof3_S` are the prismatic axes (a translation does not
    change a linear motion vector) -/
theorem transS_eq (r2 r3 : V3 α) :
    translationS (M63.zero : M63 α)
      = ⟨(Xtrans r3).apply ((Xtrans r2).apply ex), (Xtrans r3).apply ey, ez⟩ := by
  simp only [translationS, M63.zero, ex, ey, ez, sv6, M63.mk.injEq]
  refine ⟨?_, ?_, ?_⟩ <;> alg_ext

theorem transVJ_eq (r2 r3 : V3 α) (x0 x1 x2 : α) :
    (translationS (M63.zero : M63 α)).mulV3 ⟨x0, x1, x2⟩
      = chainVJ (Xtrans r2) (Xtrans r3) (x0 * (ex : SV α)) (x1 * (ey : SV α)) (x2 * (ez : SV α)) := by
  rw [transS_eq r2 r3]
  unfold chainVJ
  simp only [M63.mulV3, apply_smul]

/-- A (translation): the chain accumulates no velocity-product acceleration -/
theorem transCJ_eq (r2 r3 : V3 α) (x0 x1 x2 : α) :
    (SV.zero : SV α)
      = chainCJ (Xtrans r2) (Xtrans r3) (x0 * (ex : SV α)) SV.zero (x1 * (ey : SV α)) SV.zero
          (x2 * (ez : SV α)) SV.zero := by
  simp only [chainCJ, ex, ey, ez, sv6]
  alg_ext

theorem Xtrans_isRot (r : V3 α) : (Xtrans r).E.IsRot := M3.isRot_one

/-- Joint `i` of `mE` is `TranslationXYZ`; joints `i₁, i₂, i₃` of `mC` are prismatic joints along
    x, y, z on the same coordinates; the first carries the joint frame of `i`. -/
structure TransChain (mE : ModelS α) (i : Nat) (mC : ModelS α) (i1 i2 i3 : Nat) : Prop where
  trans : (mE.joint i).jt = .translationXYZ
  dof : (mE.joint i).dof = 3
  j1 : (mC.joint i1).jt = .prismatic
  j2 : (mC.joint i2).jt = .prismatic
  j3 : (mC.joint i3).jt = .prismatic
  ax1 : (mC.joint i1).axes.headD SV.zero = ex
  ax2 : (mC.joint i2).axes.headD SV.zero = ey
  ax3 : (mC.joint i3).axes.headD SV.zero = ez
  d1 : (mC.joint i1).dof = 1
  d2 : (mC.joint i2).dof = 1
  d3 : (mC.joint i3).dof = 1
  q1 : (mC.joint i1).qIndex = (mE.joint i).qIndex
  q2 : (mC.joint i2).qIndex = (mE.joint i).qIndex + 1
  q3 : (mC.joint i3).qIndex = (mE.joint i).qIndex + 2
  x1 : mC.XT_ i1 = mE.XT_ i
  x2 : mC.XT_ i2 = XT.id
  x3 : mC.XT_ i3 = XT.id

variable {mE mC : ModelS α} {i i1 i2 i3 : Nat}

theorem TransChain.arity (h : TransChain mE i mC i1 i2 i3) :
    mE.arity i = .three ∧ mC.arity i1 = .one ∧ mC.arity i2 = .one ∧ mC.arity i3 = .one :=
  ⟨L01.arity_of_dof3 _ _ (by rw [h.trans]; exact fun e => nomatch e) h.dof,
   L01.arity_of_dof1 _ _ (by rw [h.j1]; exact fun e => nomatch e) h.d1,
   L01.arity_of_dof1 _ _ (by rw [h.j2]; exact fun e => nomatch e) h.d2,
   L01.arity_of_dof1 _ _ (by rw [h.j3]; exact fun e => nomatch e) h.d3⟩

/-- **A** (`TranslationXYZ`) -/
theorem trans_jcalc (h : TransChain mE i mC i1 i2 i3) (wE w1 w2 w3 : WS α) (st : QS α)
    (qd : VecN α) (hE : FixedW mE wE i) (hw1 : FixedW mC w1 i1) (hw2 : FixedW mC w2 i2)
    (hw3 : FixedW mC w3 i3) :
    let X1 := (jcalc mC w1 i1 st qd).X_lambda i1
    let X2 := (jcalc mC w2 i2 st qd).X_lambda i2
    let X3 := (jcalc mC w3 i3 st qd).X_lambda i3
    (jcalc mE wE i st qd).X_lambda i = X3 * X2 * X1 ∧
    (jcalc mE wE i st qd).S3 i
      = ⟨X3.apply (X2.apply ((jcalc mC w1 i1 st qd).S i1)), X3.apply ((jcalc mC w2 i2 st qd).S i2),
         (jcalc mC w3 i3 st qd).S i3⟩ ∧
    (jcalc mE wE i st qd).v_J i
      = chainVJ X2 X3 ((jcalc mC w1 i1 st qd).v_J i1) ((jcalc mC w2 i2 st qd).v_J i2)
          ((jcalc mC w3 i3 st qd).v_J i3) ∧
    (jcalc mE wE i st qd).c_J i
      = chainCJ X2 X3 ((jcalc mC w1 i1 st qd).v_J i1) ((jcalc mC w1 i1 st qd).c_J i1)
          ((jcalc mC w2 i2 st qd).v_J i2) ((jcalc mC w2 i2 st qd).c_J i2)
          ((jcalc mC w3 i3 st qd).v_J i3) ((jcalc mC w3 i3 st qd).c_J i3) := by
  intro X1 X2 X3
  obtain ⟨a1, a2, a3, a4⟩ := jcalc_prism mC w1 i1 st qd h.j1 hw1
  obtain ⟨b1, b2, b3, b4⟩ := jcalc_prism mC w2 i2 st qd h.j2 hw2
  obtain ⟨c1, c2, c3, c4⟩ := jcalc_prism mC w3 i3 st qd h.j3 hw3
  obtain ⟨e1, e2, e3, e4⟩ := jcalc_trans mE wE i st qd h.trans hE
  simp only [h.ax1, h.ax2, h.ax3, h.q1, h.q2, h.q3, h.x1, h.x2, h.x3, C16.mul_id] at a1 a2 a3 b1 b2 b3 c1 c2 c3
  have hX2 : X2 = Xtrans (st.q ((mE.joint i).qIndex + 1) * (ey : SV α).v) := b1
  have hX3 : X3 = Xtrans (st.q ((mE.joint i).qIndex + 2) * (ez : SV α).v) := c1
  have hX1 : X1 = Xtrans (st.q (mE.joint i).qIndex * (ex : SV α).v) * mE.XT_ i := a1
  refine ⟨?_, ?_, ?_, ?_⟩
  · rw [e1, transX_eq, hX1, hX2, hX3]
  · rw [e2, hX2, hX3, a2, b2, c2]; exact transS_eq _ _
  · rw [e3, hX2, hX3, a3, b3, c3]; exact transVJ_eq _ _ _ _ _
  · rw [e4, hX2, hX3, a3, b3, c3, a4, b4, c4]; exact transCJ_eq _ _ _ _ _

/-- **B** (`TranslationXYZ`): one step of the `UpdateKinematics` loop over the 3-DoF joint leaves
    the same `X_base`, `v`, `a` as three steps over the prismatic chain (joint frame a rotation) -/
theorem trans_ukBody (h : TransChain mE i mC i1 i2 i3) (wE wC : WS α) (st : QS α)
    (qd qdd : VecN α) (hE : FixedW mE wE i) (hw1 : FixedW mC wC i1) (hw2 : FixedW mC wC i2)
    (hw3 : FixedW mC wC i3)
    (h12 : i1 ≠ i2) (h13 : i1 ≠ i3) (h23 : i2 ≠ i3) (n1 : i1 ≠ 0) (n2 : i2 ≠ 0)
    (l2 : mC.lam i2 = i1) (l3 : mC.lam i3 = i2)
    (hrot : (mE.XT_ i).E.IsRot)
    (hp : parentKin mE wE i = parentKin mC wC i1) :
    kinOf (L06.ukBody mE st qd qdd i wE) i
      = kinOf (L06.ukBody mC st qd qdd i3 (L06.ukBody mC st qd qdd i2
          (L06.ukBody mC st qd qdd i1 wC))) i3 := by
  obtain ⟨aE, a1, a2, a3⟩ := h.arity
  obtain ⟨e1, e2, e3, e4⟩ := trans_jcalc h wE wC wC wC st qd hE hw1 hw2 hw3
  rw [ukBody_kin _ _ _ _ _ _ (by rw [aE]; exact fun e => nomatch e),
    ukBody3_kin mC st qd qdd i1 i2 i3 wC h12 h13 h23 n1 n2 l2 l3
      (by rw [a1]; exact fun e => nomatch e) (by rw [a2]; exact fun e => nomatch e)
      (by rw [a3]; exact fun e => nomatch e) (by rw [h.j2]; exact fun e => nomatch e)
      (by rw [h.j3]; exact fun e => nomatch e)]
  have R1 : ((jcalc mC wC i1 st qd).X_lambda i1).E.IsRot := by
    rw [(jcalc_prism mC wC i1 st qd h.j1 hw1).1, h.x1]
    exact (Xtrans_isRot _).mul hrot
  have R2 : ((jcalc mC wC i2 st qd).X_lambda i2).E.IsRot := by
    rw [(jcalc_prism mC wC i2 st qd h.j2 hw2).1, h.x2, C16.mul_id]; exact Xtrans_isRot _
  have R3 : ((jcalc mC wC i3 st qd).X_lambda i3).E.IsRot := by
    rw [(jcalc_prism mC wC i3 st qd h.j3 hw3).1, h.x3, C16.mul_id]; exact Xtrans_isRot _
  rw [kstep3 _ _ _ R2 R3 (mul_apply3_rot _ _ _ R1 R2), e1, e3, e4, hp,
    Sqdd_three _ _ _ _ aE, Sqdd_one _ _ _ _ a1, Sqdd_one _ _ _ _ a2, Sqdd_one _ _ _ _ a3, e2,
    h.q1, h.q2, h.q3]
  simp only [M63.mulV3, apply_smul]

/-- **C** (`TranslationXYZ`) -/
theorem trans_chain_tau (h : TransChain mE i mC i1 i2 i3) (hwf : mC.WF) (hc : CustomInj mC)
    (harity : ∀ j, 1 ≤ j → j < mC.nBodies → mC.arity j ≠ .other)
    (wE w : WS α) (st : QS α) (qd qdd tau : VecN α) (fext : Option (Nat → SV α))
    (hE : FixedW mE wE i) (hw1 : FixedW mC w i1) (hw2 : FixedW mC w i2) (hw3 : FixedW mC w i3)
    (b1 : 1 ≤ i1 ∧ i1 < mC.nBodies) (b2 : 1 ≤ i2 ∧ i2 < mC.nBodies)
    (b3 : 1 ≤ i3 ∧ i3 < mC.nBodies)
    (m1 : (mC.body i1).isVirtual = true ∨ mC.rbi i1 = RBI.zero)
    (m2 : (mC.body i2).isVirtual = true ∨ mC.rbi i2 = RBI.zero)
    (fe : ∀ g, fext = some g → g i1 = SV.zero ∧ g i2 = SV.zero)
    (ch1 : childrenOf mC.lam (mC.nBodies - 1) i1 = [i2])
    (ch2 : childrenOf mC.lam (mC.nBodies - 1) i2 = [i3]) :
    let k := (mE.joint i).qIndex
    (⟨(inverseDynamics mC w st qd qdd tau fext).2 k,
      (inverseDynamics mC w st qd qdd tau fext).2 (k + 1),
      (inverseDynamics mC w st qd qdd tau fext).2 (k + 2)⟩ : V3 α)
      = ((jcalc mE wE i st qd).S3 i).tmulSV
          (rneaFtot mC (idForward mC w st qd qdd fext) i3) := by
  intro k
  obtain ⟨hF, hfc, _⟩ := idForward_closed mC hc hwf.lam_lt w st qd qdd fext
  have hlen := scols_length_closed mC hwf st qd qdd w _ hF harity
  have hdisj := owns_disjoint_of_WF mC _ hwf hlen
  obtain ⟨_, a1, a2, a3⟩ := h.arity
  have f1 := massless_f mC hc hwf.lam_lt w st qd qdd fext i1 b1 m1 (fun g hg => (fe g hg).1)
  have f2 := massless_f mC hc hwf.lam_lt w st qd qdd fext i2 b2 m2 (fun g hg => (fe g hg).2)
  have key := chain_tau mC hwf.lam_lt _ tau hdisj i1 i2 i3 b1 b2 b3 a1 a2 a3 f1 f2 ch1 ch2
  rw [← inverseDynamics_eq, h.q1, h.q2, h.q3] at key
  rw [key, hF.jX i2 b2.1 b2.2, hF.jX i3 b3.1 b3.2, hF.jS i1 b1.1 b1.2, hF.jS i2 b2.1 b2.2,
    hF.jS i3 b3.1 b3.2, (trans_jcalc h wE w w w st qd hE hw1 hw2 hw3).2.1]

end
end Rbdl.L07
