import RbdlProofs.Lemmas.L18CInv
/-
  C18 at curve level, part 11: the corner construction produces admissible sections; plumbing for the
  `Option` do-blocks of the factories; well-formedness of curves made of one or two sections.
-/
set_option linter.unusedSectionVars false
namespace Rbdl.L18C
open Lean.Grind Std Rbdl.Geom Rbdl.L18

/-! ### plumbing for the do-blocks -/
theorem guard_none {β : Type} (P : Prop) [Decidable P] (r : Option β) (c : β)
    (h : (if (!decide P) = true then (do none; r) else r) = some c) : P ∧ r = some c := by
  by_cases hp : P
  · simp only [hp, decide_true, Bool.not_true, Bool.false_eq_true, if_false] at h; exact ⟨hp, h⟩
  · simp [hp] at h

theorem guard_none' {β : Type} (P : Prop) [Decidable P] (r : Option β) (c : β)
    (h : (if P then (do none; r) else r) = some c) : ¬ P ∧ r = some c := by
  by_cases hp : P
  · simp [hp] at h
  · simp only [hp, if_false] at h; exact ⟨hp, h⟩

theorem bind_some {β γ : Type} (x : Option β) (f : β → Option γ) (c : γ) (h : (x >>= f) = some c) :
    ∃ p, x = some p ∧ f p = some c := by
  cases x with
  | none => simp at h
  | some p => exact ⟨p, rfl, by simpa using h⟩

theorem or_and_of_imp {A B C : Prop} (h : A ∨ B → C) (hb : ¬ A → B) : (A ∨ B) ∧ C := by
  by_cases a : A
  · exact ⟨Or.inl a, h (Or.inl a)⟩
  · exact ⟨Or.inr (hb a), h (Or.inr (hb a))⟩

section order
variable {α : Type} [Field α] [Inhabited α] [LE α] [LT α] [LawfulOrderLT α] [IsLinearOrder α]
  [OrderedRing α] [DecidableLT α] [DecidableLE α] [DecidableEq α]

theorem rootEPS_pos : (0 : α) < rootEPS := by simp only [rootEPS]; grind

theorem absα_nonneg (a : α) : 0 ≤ absα a := by simp only [absα]; split <;> grind
theorem absα_cases (a : α) : (a < 0 ∧ absα a = -a) ∨ (0 ≤ a ∧ absα a = a) := by
  simp only [absα]; split <;> grind
theorem minα_cases (a b : α) : (b < a ∧ minα a b = b) ∨ (a ≤ b ∧ minα a b = a) := by
  simp only [minα]; split <;> grind

theorem scaleCurviness_bounds (cu : α) (h0 : 0 ≤ cu) (h1 : cu ≤ 1) :
    0 < scaleCurviness cu ∧ scaleCurviness cu < 1 := by
  simp only [scaleCurviness]; constructor <;> grind

/-- what a successful call of `calcQuinticBezierCornerControlPoints` returns -/
theorem cornerCP_some (x0 y0 m0 x1 y1 m1 cv : α) (S : P6 α × P6 α)
    (h : cornerCP x0 y0 m0 x1 y1 m1 cv = some S) :
    S = cornerPts (cornerXC x0 y0 m0 x1 y1 m1) x0 y0 m0 x1 y1 m1 cv ∧
    (let xC := cornerXC x0 y0 m0 x1 y1 m1
     let yC := (xC-x1)*m1 + y1
     (x1-x0)*(x1-x0) + (y1-y0)*(y1-y0) > (xC-x0)*(xC-x0) + (yC-y0)*(yC-y0) ∧
     (x1-x0)*(x1-x0) + (y1-y0)*(y1-y0) > (xC-x1)*(xC-x1) + (yC-y1)*(yC-y1)) := by
  simp only [cornerCP] at h
  split at h
  · cases h
  · split at h
    · cases h
    · next hc =>
      simp only [Option.some.injEq] at h
      simp only [Bool.not_eq_eq_eq_not, Bool.not_true, decide_eq_false_iff_not,
        Classical.not_not] at hc
      exact ⟨h.symm, hc⟩

/-- the corner abscissa in the non-degenerate branch -/
theorem cornerXC_nondeg (x0 y0 m0 x1 y1 m1 : α) (h : absα (m0 - m1) > rootEPS) :
    cornerXC x0 y0 m0 x1 y1 m1 = (y1-y0-x1*m1+x0*m0)/(m0-m1) ∧ m0 ≠ m1 := by
  simp only [cornerXC, h, if_true]
  refine ⟨trivial, ?_⟩
  intro e
  have := rootEPS_pos (α := α)
  rcases absα_cases (m0 - m1) with ⟨a, b⟩ | ⟨a, b⟩ <;> grind

theorem cornerXC_deg (x0 y0 m0 x1 y1 m1 : α) (h : ¬ absα (m0 - m1) > rootEPS) :
    cornerXC x0 y0 m0 x1 y1 m1 = (x1+x0)/2 := by
  simp only [cornerXC, h, if_false]

/-- the intersection of the end tangents lies strictly between the knots when the chord slope lies
    strictly between the end slopes -/
theorem xC_between (x0 y0 m0 x1 y1 m1 : α) (hx : x0 < x1) (hm : m0 ≠ m1)
    (hs : (m0 * (x1 - x0) < y1 - y0 ∧ y1 - y0 < m1 * (x1 - x0)) ∨
          (m1 * (x1 - x0) < y1 - y0 ∧ y1 - y0 < m0 * (x1 - x0))) :
    x0 < (y1-y0-x1*m1+x0*m0)/(m0-m1) ∧ (y1-y0-x1*m1+x0*m0)/(m0-m1) < x1 := by
  have hd : m0 - m1 ≠ 0 := by grind
  have e : (y1-y0-x1*m1+x0*m0)/(m0-m1) * (m0 - m1) = y1-y0-x1*m1+x0*m0 := by grind
  generalize (y1-y0-x1*m1+x0*m0)/(m0-m1) = q at e
  rcases hs with ⟨a, b⟩ | ⟨a, b⟩
  · have hn : m0 - m1 < 0 := by
      have : m0 * (x1 - x0) < m1 * (x1 - x0) := by grind
      have := (Field.IsOrdered.mul_lt_mul_iff_of_pos_right (show 0 < x1 - x0 by grind)).mp this
      grind
    constructor
    · by_cases c : x0 < q
      · exact c
      · have := OrderedRing.mul_le_mul_of_nonpos_right (show q ≤ x0 by grind) (show m0 - m1 ≤ 0 by grind)
        grind
    · by_cases c : q < x1
      · exact c
      · have := OrderedRing.mul_le_mul_of_nonpos_right (show x1 ≤ q by grind) (show m0 - m1 ≤ 0 by grind)
        grind
  · have hn : 0 < m0 - m1 := by
      have : m1 * (x1 - x0) < m0 * (x1 - x0) := by grind
      have := (Field.IsOrdered.mul_lt_mul_iff_of_pos_right (show 0 < x1 - x0 by grind)).mp this
      grind
    constructor
    · by_cases c : x0 < q
      · exact c
      · have := OrderedRing.mul_le_mul_of_nonneg_right (show q ≤ x0 by grind) (show 0 ≤ m0 - m1 by grind)
        grind
    · by_cases c : q < x1
      · exact c
      · have := OrderedRing.mul_le_mul_of_nonneg_right (show x1 ≤ q by grind) (show 0 ≤ m0 - m1 by grind)
        grind

/-- a corner section with the corner strictly between the knots: strictly increasing x polygon, the
    requested end points, the requested end slope, and the requested start slope when the corner lies
    on the start tangent -/
theorem cornerPts_ok (xC x0 y0 m0 x1 y1 m1 cv : α) (h0 : x0 < xC) (h1 : xC < x1) (c0 : 0 < cv) (c1 : cv < 1) :
    (cornerPts xC x0 y0 m0 x1 y1 m1 cv).1.StrictIncr ∧
    (cornerPts xC x0 y0 m0 x1 y1 m1 cv).1.p0 = x0 ∧ (cornerPts xC x0 y0 m0 x1 y1 m1 cv).1.p5 = x1 ∧
    (cornerPts xC x0 y0 m0 x1 y1 m1 cv).2.p0 = y0 ∧ (cornerPts xC x0 y0 m0 x1 y1 m1 cv).2.p5 = y1 ∧
    derivDYDX 1 (cornerPts xC x0 y0 m0 x1 y1 m1 cv).1 (cornerPts xC x0 y0 m0 x1 y1 m1 cv).2 1 = m1 ∧
    ((xC - x1)*m1 + y1 = y0 + m0*(xC - x0) →
      derivDYDX 0 (cornerPts xC x0 y0 m0 x1 y1 m1 cv).1 (cornerPts xC x0 y0 m0 x1 y1 m1 cv).2 1 = m0) := by
  have p1 := OrderedRing.mul_pos c0 (show 0 < xC - x0 by grind)
  have p2 := OrderedRing.mul_pos (show 0 < 1 - cv by grind) (show 0 < xC - x0 by grind)
  have p3 := OrderedRing.mul_pos c0 (show 0 < x1 - xC by grind)
  have p4 := OrderedRing.mul_pos (show 0 < 1 - cv by grind) (show 0 < x1 - xC by grind)
  have n0 : cv * (xC - x0) ≠ 0 := by grind
  have n1 : cv * (xC - x1) ≠ 0 := by grind
  refine ⟨?_, rfl, rfl, rfl, rfl, (corner_end_code xC x0 y0 m0 x1 y1 m1 cv n1).2.2.1, ?_⟩
  · simp only [P6.StrictIncr, cornerPts]
    refine ⟨?_, ?_, ?_, ?_, ?_⟩ <;> grind
  · intro hC; exact (corner_start_code xC x0 y0 m0 x1 y1 m1 cv hC n0).2.2.1

/-! ### curves of one and two sections -/
theorem WF_one (S : P6 α × P6 α) (x0 x1 y0 y1 d0 d1 : α) (hI : S.1.StrictIncr)
    (e0 : S.1.p0 = x0) (e1 : S.1.p5 = x1) (f0 : S.2.p0 = y0) (f1 : S.2.p5 = y1)
    (g0 : derivDYDX 0 S.1 S.2 1 = d0) (g1 : derivDYDX 1 S.1 S.2 1 = d1) :
    (Curve.ofSections [S] x0 x1 y0 y1 d0 d1).WF := by
  refine ⟨rfl, by simp [Curve.nseg, Curve.ofSections], ?_, ?_, ?_, ?_, ?_, ?_, ?_, ?_, ?_⟩
  · intro i hi
    have : i = 0 := by simp [Curve.nseg, Curve.ofSections] at hi; omega
    subst this; exact hI
  · intro i hi; simp [Curve.nseg, Curve.ofSections] at hi
  · intro i hi; simp [Curve.nseg, Curve.ofSections] at hi
  · exact e0.symm
  · exact e1.symm
  · exact f0.symm
  · exact f1.symm
  · exact g0.symm
  · exact g1.symm

theorem WF_two (S T : P6 α × P6 α) (x0 x1 y0 y1 d0 d1 : α) (hS : S.1.StrictIncr) (hT : T.1.StrictIncr)
    (e0 : S.1.p0 = x0) (e1 : T.1.p5 = x1) (f0 : S.2.p0 = y0) (f1 : T.2.p5 = y1)
    (jx : S.1.p5 = T.1.p0) (jy : S.2.p5 = T.2.p0)
    (g0 : derivDYDX 0 S.1 S.2 1 = d0) (g1 : derivDYDX 1 T.1 T.2 1 = d1) :
    (Curve.ofSections [S, T] x0 x1 y0 y1 d0 d1).WF := by
  refine ⟨rfl, by simp [Curve.nseg, Curve.ofSections], ?_, ?_, ?_, ?_, ?_, ?_, ?_, ?_, ?_⟩
  · intro i hi
    have : i = 0 ∨ i = 1 := by simp [Curve.nseg, Curve.ofSections] at hi; omega
    rcases this with e | e <;> subst e
    · exact hS
    · exact hT
  · intro i hi
    have : i = 0 := by simp [Curve.nseg, Curve.ofSections] at hi; omega
    subst this; exact jx
  · intro i hi
    have : i = 0 := by simp [Curve.nseg, Curve.ofSections] at hi; omega
    subst this; exact jy
  · exact e0.symm
  · exact e1.symm
  · exact f0.symm
  · exact f1.symm
  · exact g0.symm
  · exact g1.symm
/-! ### corner sections in the sense of `Curve.CornerBuilt` -/

/-- a successfully built section with strictly increasing x polygon, in the non-degenerate branch or
    with the midpoint corner on the start tangent, satisfies the hypotheses of `C18.assemble_C2` -/
theorem isCorner_of_sec (x0 y0 m0 x1 y1 m1 cv : α) (p : P6 α × P6 α)
    (h : cornerCP x0 y0 m0 x1 y1 m1 cv = some p) (hS : p.1.StrictIncr)
    (hn : absα (m0 - m1) > rootEPS ∨ ((x1+x0)/2 - x1)*m1 + y1 = y0 + m0*((x1+x0)/2 - x0)) :
    ∃ xC cv' : α, p.1 = (cornerPts xC x0 y0 m0 x1 y1 m1 cv').1 ∧ p.2 = (cornerPts xC x0 y0 m0 x1 y1 m1 cv').2 ∧
      (xC - x1)*m1 + y1 = y0 + m0*(xC - x0) ∧ cv' * (xC - x0) ≠ 0 ∧ cv' * (xC - x1) ≠ 0 := by
  obtain ⟨hp, _⟩ := cornerCP_some _ _ _ _ _ _ _ _ h
  refine ⟨cornerXC x0 y0 m0 x1 y1 m1, cv, by rw [hp], by rw [hp], ?_, ?_, ?_⟩
  · by_cases hd : absα (m0 - m1) > rootEPS
    · obtain ⟨e, hm⟩ := cornerXC_nondeg x0 y0 m0 x1 y1 m1 hd
      rw [e]; exact C18.cornerXC_on_tangents x0 y0 m0 x1 y1 m1 hm
    · rw [cornerXC_deg x0 y0 m0 x1 y1 m1 hd]
      rcases hn with hn | hn
      · exact absurd hn hd
      · exact hn
  · rw [hp] at hS
    simp only [P6.StrictIncr, cornerPts] at hS
    obtain ⟨a, _⟩ := hS
    generalize cornerXC x0 y0 m0 x1 y1 m1 = xC at a
    grind
  · rw [hp] at hS
    simp only [P6.StrictIncr, cornerPts] at hS
    obtain ⟨_, _, _, _, a⟩ := hS
    generalize cornerXC x0 y0 m0 x1 y1 m1 = xC at a
    grind

theorem cornerBuilt_one (p : P6 α × P6 α) (x0 y0 m0 x1 y1 m1 cv : α)
    (hp : cornerCP x0 y0 m0 x1 y1 m1 cv = some p) (hS : p.1.StrictIncr)
    (hn : absα (m0 - m1) > rootEPS ∨ ((x1+x0)/2 - x1)*m1 + y1 = y0 + m0*((x1+x0)/2 - x0)) :
    (Curve.ofSections [p] x0 x1 y0 y1 m0 m1).CornerBuilt
      (fun i => [x0, x1].getD i 0) (fun i => [y0, y1].getD i 0) (fun i => [m0, m1].getD i 0) := by
  intro i hi
  have : i = 0 := by simp [Curve.nseg, Curve.ofSections] at hi; omega
  subst this
  exact isCorner_of_sec x0 y0 m0 x1 y1 m1 cv p hp hS hn

theorem cornerBuilt_two (p0 p1 : P6 α × P6 α) (x0 y0 m0 xm ym mm x1 y1 m1 cv : α)
    (hp0 : cornerCP x0 y0 m0 xm ym mm cv = some p0) (hp1 : cornerCP xm ym mm x1 y1 m1 cv = some p1)
    (hS0 : p0.1.StrictIncr) (hS1 : p1.1.StrictIncr)
    (hn0 : absα (m0 - mm) > rootEPS ∨ ((xm+x0)/2 - xm)*mm + ym = y0 + m0*((xm+x0)/2 - x0))
    (hn1 : absα (mm - m1) > rootEPS ∨ ((x1+xm)/2 - x1)*m1 + y1 = ym + mm*((x1+xm)/2 - xm)) :
    (Curve.ofSections [p0, p1] x0 x1 y0 y1 m0 m1).CornerBuilt
      (fun i => [x0, xm, x1].getD i 0) (fun i => [y0, ym, y1].getD i 0) (fun i => [m0, mm, m1].getD i 0) := by
  intro i hi
  have : i = 0 ∨ i = 1 := by simp [Curve.nseg, Curve.ofSections] at hi; omega
  rcases this with e | e <;> subst e
  · exact isCorner_of_sec x0 y0 m0 xm ym mm cv p0 hp0 hS0 hn0
  · exact isCorner_of_sec xm ym mm x1 y1 m1 cv p1 hp1 hS1 hn1
end order
end Rbdl.L18C
