import RbdlProofs.Lemmas.LCapMultiAdd
import RbdlProofs.Lemmas.LCapMultiEqv
/-
  Multi-DoF capstone, part 4: the normal form `normJ` of a position-level joint definition (a helical
  joint with zero pitch *is* a revolute joint), and its interplay with the specification builder:
  `Spec.SB.add`, `chainGo` and `SModel.finalize` commute with the normalisation of the model built so far.

  This resolves the syntactic mismatch between the two descriptions of an emulated multi-DoF joint: for
  the axis `a` the construction code stores `Joint(a)` (`Joint.ofAxis`: type `helical` unless `a` is a
  coordinate axis or a pure translation; `ModelS.sjoint` reads it as `.helical a.w a.v`), the
  specification takes `Spec.axisJoint a` (`.revolute a.w` for a pure rotation).  For every axis,
  `normJ (jointSj (Joint.ofAxis a)) = axisJoint a`.
-/
namespace Rbdl.LCapMulti
open Lean.Grind Rbdl Rbdl.Spec Rbdl.L06 Rbdl.L01 Rbdl.L01Cap Rbdl.Loops
set_option linter.unusedSimpArgs false
set_option linter.unusedVariables false
set_option linter.unusedSectionVars false

section
variable {α : Type} [Field α] [DecidableEq α]

/-- normal form: a helical joint with zero pitch is a revolute joint -/
def normJ : SJoint α → SJoint α
  | .helical w v => if v = V3.zero then .revolute w else .helical w v
  | j => j

theorem v3_smul_lift_zero {β : Type} [CommRing β] (lift : α → β) (h0 : lift 0 = 0) (q : β) :
    q * (⟨lift (V3.zero : V3 α).x, lift (V3.zero : V3 α).y, lift (V3.zero : V3 α).z⟩ : V3 β)
      = V3.zero := by
  show q * (⟨lift 0, lift 0, lift 0⟩ : V3 β) = _
  rw [h0]
  ext <;> simp only [alg] <;> grind

/-- **a joint and its normal form are observationally equal** -/
theorem normJ_eqv (j : SJoint α) : JointEqv (normJ j) j := by
  cases j with
  | helical w v =>
    by_cases hv : v = V3.zero
    · subst hv
      have e : normJ (.helical w V3.zero : SJoint α) = .revolute w := by simp [normJ]
      rw [e]
      refine ⟨rfl, rfl, fun lift h0 k wk cs => ?_⟩
      show (⟨_, V3.zero⟩ : Pose _) = ⟨_, _⟩
      rw [v3_smul_lift_zero lift h0]
    · have e : normJ (.helical w v : SJoint α) = .helical w v := by simp [normJ, hv]
      rw [e]; exact JointEqv.refl _
  | _ => exact JointEqv.refl _

theorem normJ_idem (j : SJoint α) : normJ (normJ j) = normJ j := by
  cases j with
  | helical w v =>
    by_cases hv : v = V3.zero
    · simp [normJ, hv]
    · simp [normJ, hv]
  | _ => rfl

/-- the position-level joint the code stores for the axis `a` of an emulated joint -/
def codeJoint (a : SV α) : SJoint α := jointSj (Joint.ofAxis a)

theorem one_ne_zero' : (1 : α) ≠ 0 := fun h => Field.zero_ne_one h.symm

theorem ofAxis_jt (a : SV α) : (Joint.ofAxis a).jt =
    if a = sv6 1 0 0 0 0 0 then .revoluteX
    else if a = sv6 0 1 0 0 0 0 then .revoluteY
    else if a = sv6 0 0 1 0 0 0 then .revoluteZ
    else if a.w.x = 0 ∧ a.w.y = 0 ∧ a.w.z = 0 then .prismatic
    else .helical := rfl
theorem ofAxis_axes (a : SV α) : (Joint.ofAxis a).axes = [a] := rfl
theorem ofAxis_dof (a : SV α) : (Joint.ofAxis a).dof = 1 := rfl

theorem w_zero_iff (a : SV α) : (a.w.x = 0 ∧ a.w.y = 0 ∧ a.w.z = 0) ↔ a.w = V3.zero := by
  obtain ⟨⟨wx, wy, wz⟩, v⟩ := a
  simp [V3.zero]

/-- the five cases of `Joint(axis)` -/
theorem ofAxis_cases (a : SV α) :
    (a = sv6 1 0 0 0 0 0 ∧ (Joint.ofAxis a).jt = .revoluteX) ∨
    (a = sv6 0 1 0 0 0 0 ∧ (Joint.ofAxis a).jt = .revoluteY) ∨
    (a = sv6 0 0 1 0 0 0 ∧ (Joint.ofAxis a).jt = .revoluteZ) ∨
    (a.w = V3.zero ∧ (Joint.ofAxis a).jt = .prismatic) ∨
    (a.w ≠ V3.zero ∧ (Joint.ofAxis a).jt = .helical) := by
  rw [ofAxis_jt]
  by_cases h1 : a = sv6 1 0 0 0 0 0
  · left; exact ⟨h1, if_pos h1⟩
  · rw [if_neg h1]
    by_cases h2 : a = sv6 0 1 0 0 0 0
    · right; left; exact ⟨h2, if_pos h2⟩
    · rw [if_neg h2]
      by_cases h3 : a = sv6 0 0 1 0 0 0
      · right; right; left; exact ⟨h3, if_pos h3⟩
      · rw [if_neg h3]
        by_cases h4 : a.w.x = 0 ∧ a.w.y = 0 ∧ a.w.z = 0
        · right; right; right; left; exact ⟨(w_zero_iff a).1 h4, if_pos h4⟩
        · right; right; right; right
          exact ⟨fun e => h4 ((w_zero_iff a).2 e), if_neg h4⟩

theorem codeJoint_cases (a : SV α) :
    (a = sv6 1 0 0 0 0 0 ∧ codeJoint a = .revolute ⟨1, 0, 0⟩) ∨
    (a = sv6 0 1 0 0 0 0 ∧ codeJoint a = .revolute ⟨0, 1, 0⟩) ∨
    (a = sv6 0 0 1 0 0 0 ∧ codeJoint a = .revolute ⟨0, 0, 1⟩) ∨
    (a.w = V3.zero ∧ codeJoint a = .prismatic a.v) ∨
    (a.w ≠ V3.zero ∧ codeJoint a = .helical a.w a.v) := by
  unfold codeJoint jointSj
  rcases ofAxis_cases a with ⟨h, hj⟩ | ⟨h, hj⟩ | ⟨h, hj⟩ | ⟨h, hj⟩ | ⟨h, hj⟩
  · left; refine ⟨h, ?_⟩; simp only [hj]
  · right; left; refine ⟨h, ?_⟩; simp only [hj]
  · right; right; left; refine ⟨h, ?_⟩; simp only [hj]
  · right; right; right; left; refine ⟨h, ?_⟩; simp only [hj, ofAxis_axes, List.headD_cons]
  · right; right; right; right; refine ⟨h, ?_⟩; simp only [hj, ofAxis_axes, List.headD_cons]

/-- **the specification's reading of an axis is the normal form of the code's reading** -/
theorem normJ_codeJoint (a : SV α) : normJ (codeJoint a) = axisJoint a := by
  have h10 : (⟨1, 0, 0⟩ : V3 α) ≠ V3.zero := by
    intro e; simp only [V3.zero, V3.mk.injEq] at e; exact one_ne_zero' e.1
  have h01 : (⟨0, 1, 0⟩ : V3 α) ≠ V3.zero := by
    intro e; simp only [V3.zero, V3.mk.injEq] at e; exact one_ne_zero' e.2.1
  have h00 : (⟨0, 0, 1⟩ : V3 α) ≠ V3.zero := by
    intro e; simp only [V3.zero, V3.mk.injEq] at e; exact one_ne_zero' e.2.2
  unfold axisJoint
  rcases codeJoint_cases a with ⟨h, hj⟩ | ⟨h, hj⟩ | ⟨h, hj⟩ | ⟨h, hj⟩ | ⟨h, hj⟩
  · rw [hj, h]
    show SJoint.revolute _ = if (⟨1, 0, 0⟩ : V3 α) = V3.zero then _ else
      if (⟨0, 0, 0⟩ : V3 α) = V3.zero then _ else _
    rw [if_neg h10, if_pos (show (⟨0, 0, 0⟩ : V3 α) = V3.zero from rfl)]
    rfl
  · rw [hj, h]
    show SJoint.revolute _ = if (⟨0, 1, 0⟩ : V3 α) = V3.zero then _ else
      if (⟨0, 0, 0⟩ : V3 α) = V3.zero then _ else _
    rw [if_neg h01, if_pos (show (⟨0, 0, 0⟩ : V3 α) = V3.zero from rfl)]
    rfl
  · rw [hj, h]
    show SJoint.revolute _ = if (⟨0, 0, 1⟩ : V3 α) = V3.zero then _ else
      if (⟨0, 0, 0⟩ : V3 α) = V3.zero then _ else _
    rw [if_neg h00, if_pos (show (⟨0, 0, 0⟩ : V3 α) = V3.zero from rfl)]
    rfl
  · rw [hj, if_pos h]; rfl
  · rw [hj, if_neg h]
    by_cases hv : a.v = V3.zero
    · rw [if_pos hv]; simp [normJ, hv]
    · rw [if_neg hv]; simp [normJ, hv]

theorem notFixed_axisJoint (a : SV α) : notFixed (axisJoint a) = true := by
  unfold axisJoint
  split
  · rfl
  · split <;> rfl

theorem normJ_axisJoint (a : SV α) : normJ (axisJoint a) = axisJoint a := by
  rw [← normJ_codeJoint, normJ_idem]

theorem notFixed_codeJoint (a : SV α) : notFixed (codeJoint a) = true := by
  rcases codeJoint_cases a with ⟨_, hj⟩ | ⟨_, hj⟩ | ⟨_, hj⟩ | ⟨_, hj⟩ | ⟨_, hj⟩ <;> rw [hj] <;> rfl

/-! ### what `expand` produces is in normal form -/

theorem expand_norm (d : JDesc α) (js : List (SJoint α)) (he : expand d = some js) :
    js.map normJ = js := by
  cases d with
  | typed t =>
    cases t <;> simp only [expand, Option.some.injEq, reduceCtorEq] at he <;> subst he <;> rfl
  | revolute a => simp only [expand, Option.some.injEq] at he; subst he; rfl
  | prismatic a => simp only [expand, Option.some.injEq] at he; subst he; rfl
  | axes l =>
    simp only [expand] at he
    split at he
    · cases he
    · have := Option.some.inj he
      subst this
      rw [List.map_map]
      exact List.map_congr_left (fun a _ => normJ_axisJoint a)
  | custom k =>
    cases k <;> simp only [expand, Option.some.injEq] at he <;> subst he <;> rfl
  | undefined => simp [expand] at he

theorem expand_fixed_or (d : JDesc α) (js : List (SJoint α)) (he : expand d = some js) :
    js = [.fixed] ∨ ∀ j ∈ js, notFixed j = true := by
  cases d with
  | typed t =>
    cases t <;> simp only [expand, Option.some.injEq, reduceCtorEq] at he <;> subst he <;>
      first
        | (left; rfl)
        | (right; intro j hj; simp only [List.mem_cons, List.mem_nil_iff, or_false] at hj;
           rcases hj with rfl | rfl <;> rfl)
        | (right; intro j hj; simp only [List.mem_cons, List.mem_nil_iff, or_false] at hj;
           subst hj; rfl)
  | revolute a =>
    simp only [expand, Option.some.injEq] at he; subst he
    right; intro j hj; simp only [List.mem_singleton] at hj; subst hj; rfl
  | prismatic a =>
    simp only [expand, Option.some.injEq] at he; subst he
    right; intro j hj; simp only [List.mem_singleton] at hj; subst hj; rfl
  | axes l =>
    simp only [expand] at he
    split at he
    · cases he
    · have := Option.some.inj he
      subst this
      right
      intro j hj
      obtain ⟨a, _, rfl⟩ := List.mem_map.1 hj
      exact notFixed_axisJoint a
  | custom k =>
    right
    cases k <;> simp only [expand, Option.some.injEq] at he <;> subst he <;>
      (intro j hj; simp only [List.mem_singleton] at hj; subst hj; rfl)
  | undefined => simp [expand] at he

/-! ### the normalised model / builder -/

def normNode (nd : SNode α) : SNode α := setJ (fun nd => normJ nd.joint) nd
def normM (M : SModel α) : SModel α := mapJ (fun nd => normJ nd.joint) M
def normSB (sb : SB α) : SB α := { sb with M := normM sb.M }
def normPB (p : PB α) : PB α := ⟨normSB p.sb, p.prev⟩

theorem normM_eqv (M : SModel α) :
    ∀ nd ∈ M.nodes, JointEqv ((fun nd : SNode α => normJ nd.joint) nd) nd.joint :=
  fun nd _ => normJ_eqv nd.joint

theorem normM_nv (M : SModel α) : (normM M).nv = M.nv := mapJ_nv _ M (normM_eqv M)

theorem normM_length (M : SModel α) : (normM M).nodes.length = M.nodes.length := by
  show (M.nodes.map _).length = _
  rw [List.length_map]

theorem normNode_nd0 : normNode (nd0 : SNode α) = nd0 := rfl

theorem normM_getD (M : SModel α) (n : Nat) :
    (normM M).nodes.getD n nd0 = normNode (M.nodes.getD n nd0) := by
  show (M.nodes.map normNode).getD n nd0 = _
  rw [List.getD_eq_getElem?_getD, List.getD_eq_getElem?_getD, List.getElem?_map]
  cases M.nodes[n]? <;> rfl

theorem normSB_nodeOf (sb : SB α) (id : Nat) : (normSB sb).nodeOf id = sb.nodeOf id := rfl

theorem normSB_pushMov (sb : SB α) (nd : SNode α) (f : Nat) :
    normSB (pushMov sb nd f) = pushMov (normSB sb) (normNode nd) f := by
  unfold normSB pushMov pushNode normM mapJ
  simp only [List.map_append, List.map_cons, List.map_nil, List.length_map]
  rfl

theorem normSB_pushFix (sb : SB α) (nd : SNode α) :
    normSB (pushFix sb nd) = pushFix (normSB sb) (normNode nd) := by
  unfold normSB pushFix pushNode normM mapJ
  simp only [List.map_append, List.map_cons, List.map_nil, List.length_map]
  rfl

theorem normNode_chainNode (n k : Nat) (E : M3 α) (r : V3 α) (mass : α) (com : V3 α)
    (inertia : M3 α) (sb : SB α) (pn : Nat) (sj : SJoint α) :
    normNode (chainNode n k E r mass com inertia sb pn sj)
      = chainNode n k E r mass com inertia (normSB sb) pn (normJ sj) := by
  unfold chainNode normNode setJ
  simp only
  rw [show (normSB sb).M.nv = sb.M.nv from normM_nv sb.M]
  rfl

/-- `chainGo` commutes with the normalisation -/
theorem normSB_chainGo (n : Nat) (E : M3 α) (r : V3 α) (mass : α) (com : V3 α) (inertia : M3 α)
    (first : Nat) : ∀ (js : List (SJoint α)) (k : Nat) (sb : SB α) (pn : Nat),
    normSB (chainGo n E r mass com inertia first js k sb pn)
      = chainGo n E r mass com inertia first (js.map normJ) k (normSB sb) pn := by
  intro js
  induction js with
  | nil => intro k sb pn; rfl
  | cons sj rest ih =>
    intro k sb pn
    simp only [chainGo, List.map_cons]
    rw [ih, normSB_pushMov, normNode_chainNode]
    rw [show (normSB sb).M.nodes.length = sb.M.nodes.length from normM_length sb.M]

/-- **`SB.add` commutes with the normalisation of the model built so far** (for every joint
    description: what `expand` produces is in normal form) -/
theorem normSB_add (sb : SB α) (parent : Nat) (E : M3 α) (r : V3 α) (d : JDesc α)
    (mass : α) (com : V3 α) (inertia : M3 α) :
    (normSB sb).add parent E r d mass com inertia
      = (normSB (sb.add parent E r d mass com inertia).1,
          (sb.add parent E r d mass com inertia).2) := by
  cases he : expand d with
  | none =>
    unfold SB.add
    rw [he]
  | some js =>
    rcases expand_fixed_or d js he with rfl | hnf
    · rw [add_fixed _ parent E r d mass com inertia he, add_fixed _ parent E r d mass com inertia he]
      show (_, _) = (_, _)
      rw [normSB_pushFix]
      congr 2
      unfold fixedNode normNode setJ
      rw [normSB_nodeOf]
      rw [show (normSB sb).M.nodes.getD (sb.nodeOf parent) nd0
        = normNode (sb.M.nodes.getD (sb.nodeOf parent) nd0) from normM_getD sb.M _]
      rfl
    · rw [add_chain _ parent E r d js mass com inertia he hnf,
        add_chain _ parent E r d js mass com inertia he hnf]
      show (_, _) = (_, _)
      rw [normSB_chainGo, expand_norm d js he, normSB_nodeOf,
        show (normSB sb).M.nodes.length = sb.M.nodes.length from normM_length sb.M]
      rfl

/-! ### `finalize` commutes with the normalisation -/

theorem isQuatNode_normNode (nd : SNode α) : isQuatNode (normNode nd) = isQuatNode nd := by
  rw [isQuatNode_eq, isQuatNode_eq]
  exact (normJ_eqv nd.joint).sph

theorem finNode_normNode (nv c : Nat) (nd : SNode α) :
    finNode nv c (normNode nd) = normNode (finNode nv c nd) := by
  unfold finNode
  rw [isQuatNode_normNode]
  split <;> rfl

theorem normM_finalize (M : SModel α) : (normM M).finalize = normM M.finalize := by
  obtain ⟨hl1, hn1⟩ := finalize_nodes M
  obtain ⟨hl2, hn2⟩ := finalize_nodes (normM M)
  have hnodes : (normM M).finalize.nodes = (normM M.finalize).nodes := by
    apply List.ext_getElem?
    intro i
    by_cases hi : i < M.nodes.length
    · have hget : M.nodes[i]? = some M.nodes[i] := List.getElem?_eq_getElem hi
      have hget' : (normM M).nodes[i]? = some (normNode M.nodes[i]) := by
        show (M.nodes.map normNode)[i]? = _
        rw [List.getElem?_map, hget]; rfl
      rw [hn2 i _ hget']
      show _ = (M.finalize.nodes.map normNode)[i]?
      rw [List.getElem?_map, hn1 i _ hget, normM_nv, finNode_normNode]
      have hc : ((normM M).nodes.take i).countP isQuatNode = (M.nodes.take i).countP isQuatNode := by
        show ((M.nodes.map normNode).take i).countP isQuatNode = _
        rw [← List.map_take, List.countP_map]
        congr 1
        funext nd
        exact isQuatNode_normNode nd
      rw [hc]
      rfl
    · rw [List.getElem?_eq_none (by rw [hl2, normM_length]; omega),
        List.getElem?_eq_none (by rw [normM_length, hl1]; omega)]
  have hg : (normM M).finalize.gravity = (normM M.finalize).gravity := rfl
  cases h1 : (normM M).finalize
  cases h2 : normM M.finalize
  rw [h1] at hnodes hg
  rw [h2] at hnodes hg
  simp only at hnodes hg
  rw [hnodes, hg]

end
end Rbdl.LCapMulti
