import RbdlProofs.Lemmas.L12
import RbdlProofs.Lemmas.Kin04Ex
import RbdlProofs.Props.C04
/-
  Concrete instances over `Rat` for the satisfiability examples of C12.
-/
namespace Rbdl.L12.Ex
open Lean.Grind Rbdl Rbdl.Loops

/-! ### vectors for the zero-moment-point algebra -/
def n : V3 Rat := ⟨1, 2, 2⟩
def p : V3 Rat := ⟨1, 1, -2⟩
def n0 : V3 Rat := ⟨2, 0, 1⟩
def f : V3 Rat := ⟨1, -1, 3⟩
/-- a force in the plane (`n·fBad = 0`) -/
def fBad : V3 Rat := ⟨2, -1, 0⟩
attribute [alg] n p n0 f fBad

theorem n_dot_f : n.dot f ≠ 0 := by simp only [alg]; grind
theorem n_dot_fBad : n.dot fBad = 0 := by simp only [alg]; grind

/-- gravity -/
def g : V3 Rat := ⟨0, -(981 : Rat) / 100, 0⟩

/-! ### point masses for the potential-energy identity -/
def pts : List (Rat × V3 Rat) := [(2, ⟨1, 0, 1/2⟩), (3, ⟨0, 1, 1⟩), (1/2, ⟨-1, 2, 0⟩)]
theorem pts_mass : massSum pts ≠ 0 := by
  simp only [pts, massSum]; grind

/-! ### a model with non-trivial inertias on the tree of `C04.Ex.m` -/

def I1 : RBI Rat := RBI.ofMassComInertiaC 2 ⟨1, 0, 1/2⟩ C16.Ex.Ic
def I2 : RBI Rat := RBI.ofMassComInertiaC 3 ⟨0, 1, 1⟩ C16.Ex.Ic
def I3 : RBI Rat := RBI.ofMassComInertiaC (1/2) ⟨-1, 2, 0⟩ M3.one
def I4 : RBI Rat := RBI.ofMassComInertiaC 1 ⟨1/3, 1/3, 1⟩ C16.Ex.Ic

/-- `C04.Ex.m` (revoluteZ / general revolute / spherical / custom cylindrical joints, branched) with
    inertias -/
def m : ModelS Rat := { C04.Ex.m with I := [RBI.zero, I1, I2, I3, I4] }

/-- a workspace with arbitrary velocities, positions updated for the state `C04.Ex.st` -/
def w : WS Rat :=
  updateKinematicsCustom m
    { C04.Ex.w with v := fun i => ⟨⟨1, (i : Rat), 2⟩, ⟨0, 1, (i : Rat) / 2⟩⟩ } (some C04.Ex.st) none none

theorem m_n : m.nBodies = 5 := rfl

theorem m_tree : ∀ i, 1 ≤ i → i < m.nBodies → m.lam i < i := by
  intro i h1 h2
  rw [m_n] at h2
  obtain rfl | rfl | rfl | rfl : i = 1 ∨ i = 2 ∨ i = 3 ∨ i = 4 := by omega
  all_goals decide

theorem m_hasJcalc : ∀ i, 1 ≤ i → i < m.nBodies → (m.joint i).jt.hasJcalc = true := by
  intro i h1 h2
  rw [m_n] at h2
  obtain rfl | rfl | rfl | rfl : i = 1 ∨ i = 2 ∨ i = 3 ∨ i = 4 := by omega
  all_goals rfl

theorem m_frames : ∀ i, 1 ≤ i → i < m.nBodies → (m.XT_ i).E.IsRot := by
  intro i h1 h2
  rw [m_n] at h2
  obtain rfl | rfl | rfl | rfl : i = 1 ∨ i = 2 ∨ i = 3 ∨ i = 4 := by omega
  · exact C16.Ex.X_isRot
  · exact C16.Ex.Y_isRot
  · exact C16.Ex.X_isRot
  · exact C16.Ex.Y_isRot

theorem m_unit : ∀ i, 1 ≤ i → i < m.nBodies → m.jointUnit i C04.Ex.st := by
  intro i h1 h2
  rw [m_n] at h2
  obtain rfl | rfl | rfl | rfl : i = 1 ∨ i = 2 ∨ i = 3 ∨ i = 4 := by omega
  · exact C16.Ex.cs_unit
  · exact ⟨C16.Ex.cs_unit, C16.Ex.ax_unit⟩
  · exact C16.Ex.p_unit
  · exact C16.Ex.cs_unit

/-- the updated workspace is kinematically consistent -/
theorem w_kinOK : KinOK m w := by
  have hs := C04.ukc_step m
    { C04.Ex.w with v := fun i => ⟨⟨1, (i : Rat), 2⟩, ⟨0, 1, (i : Rat) / 2⟩⟩ } C04.Ex.st m_tree
  have hr := C04.isRot_invariant m
    { C04.Ex.w with v := fun i => ⟨⟨1, (i : Rat), 2⟩, ⟨0, 1, (i : Rat) / 2⟩⟩ } C04.Ex.st m_tree
    m_hasJcalc m_frames m_unit M3.isRot_one
  constructor
  · intro i h1 h2; exact m_tree i h1 (by rw [m_n] at h2 ⊢; omega)
  · intro i h1 h2; exact (hs.1 i h1 (by rw [m_n] at h2 ⊢; omega)).2
  · intro i h1 h2; exact hr i (by rw [m_n] at h2 ⊢; omega)


/-! ### a one-body model with an explicit workspace (everything evaluates) -/

def b0 : Body Rat := ⟨1, ⟨0, 0, 0⟩, M3.one, false⟩
def m1 : ModelS Rat :=
  { (ModelS.init : ModelS Rat) with
    lambda := [0, 0]
    bodies := [b0, b0]
    I := [RBI.zero, I1]
    gravity := g }
def v1 : SV Rat := ⟨⟨1, 2, 0⟩, ⟨0, 1, 1⟩⟩
def a1 : SV Rat := ⟨⟨0, 1, 1⟩, ⟨1, 0, 2⟩⟩
def w1 : WS Rat :=
  { (default : WS Rat) with
    X_lambda := fun _ => C16.Ex.X
    X_base := fun _ => C16.Ex.X
    v := fun _ => v1
    a := fun _ => a1 }
attribute [alg] I1 v1 a1 g

theorem w1_kinOK : KinOK m1 w1 := by
  constructor
  · intro i h1 h2
    obtain rfl : i = 1 := by have : m1.nBodies = 2 := rfl; omega
    decide
  · intro i h1 h2
    obtain rfl : i = 1 := by have : m1.nBodies = 2 := rfl; omega
    rfl
  · intro i h1 h2; exact C16.Ex.X_isRot

end Rbdl.L12.Ex
