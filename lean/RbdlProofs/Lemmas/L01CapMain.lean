import RbdlProofs.Lemmas.L01CapFk
import RbdlProofs.Props.C14
import Rbdl.WSInv
/-
  C01 capstone, assembly: the relation `Refines` between a code-level model and a specification
  model, the hypothesis bundles `ModelOK` / `StateOK`, and the proof that `inverseDynamics` equals
  `Spec.newtonEulerTau` entry by entry.
-/
namespace Rbdl.L01Cap
open Lean.Grind Rbdl Rbdl.Spec Rbdl.L06 Rbdl.L01 Rbdl.Loops
set_option linter.unusedSimpArgs false
set_option linter.unusedVariables false
set_option linter.unusedSectionVars false

section
variable {α : Type} [Field α] [DecidableEq α]

/-! ### the relation between the two descriptions -/

/-- node `nd` of the specification describes movable body `i` of the model: same parent, same joint
    frame, the position-level definition of the same joint on the same coordinates, and — if it
    carries a body — mass, centre of mass and (symmetric) centroidal inertia that give the spatial
    inertia `I[i]` of the model; massless intermediate bodies of multi-DoF chains carry none. -/
structure NodeRefines (m : ModelS α) (i : Nat) (nd : SNode α) : Prop where
  parent : nd.parent = m.lam i
  E : nd.E = (m.XT_ i).E
  r : nd.r = (m.XT_ i).r
  joint : nd.joint = m.sjoint i
  qIdx : nd.qIdx = (m.joint i).qIndex
  wIdx : (m.joint i).jt = .spherical → nd.wIdx = m.w3 i
  apiId : nd.apiId = i
  movableId : nd.movableId = i
  virt : nd.hasBody = !(m.body i).isVirtual
  rbi : nd.hasBody = true → m.rbi i = RBI.ofMassComInertiaC nd.mass nd.com nd.inertia
  symm : nd.hasBody = true → nd.inertia.transpose = nd.inertia

/-- `M` describes the same mechanism as `m`, node `i` ↔ movable body `i` (no fixed bodies) -/
structure Refines (m : ModelS α) (M : SModel α) : Prop where
  len : M.nodes.length = m.nBodies
  gravity : M.gravity = m.gravity
  nv : M.nv = m.dofCount
  base : ∀ nd, M.nodes[0]? = some nd → nd.hasBody = false ∧ nd.apiId = 0 ∧ nd.joint = .fixed
  node : ∀ i nd, 1 ≤ i → M.nodes[i]? = some nd → NodeRefines m i nd

/-- what the construction code guarantees about a model (C14 invariant, declared joints,
    orthonormal joint frames, distinct slots for distinct custom joints) -/
structure ModelOK (m : ModelS α) : Prop where
  wf : m.WF
  cinj : L01.CustomInj m
  jc : ∀ i, 1 ≤ i → i < m.nBodies → (m.joint i).jt.hasJcalc = true
  decl : ∀ i, 1 ≤ i → i < m.nBodies → JointDecl (m.joint i)
  frame : ∀ i, 1 ≤ i → i < m.nBodies → (m.XT_ i).E.IsRot

/-- the state is admissible: `cos² + sin² = 1` for the angles, unit axes, unit quaternions -/
def StateOK (m : ModelS α) (st : QS α) : Prop :=
  ∀ i, 1 ≤ i → i < m.nBodies → m.jointUnit i st

/-- external forces as the specification takes them -/
def fextSpec (fext : Option (Nat → SV α)) : Nat → SV α :=
  match fext with
  | none => fun _ => SV.zero
  | some fe => fe

/-! ### consequences of `ModelOK` -/

theorem jointOK_of_decl (m : ModelS α) (i : Nat) (hj : (m.joint i).jt.hasJcalc = true)
    (hd : JointDecl (m.joint i)) : L01.JointOK m i := by
  unfold JointDecl at hd
  unfold L01.JointOK
  dsimp only at hd
  cases h : (m.joint i).jt <;> simp only [h, JT.hasJcalc, Bool.false_eq_true] at hj hd ⊢ <;>
    first | exact hd | exact hd.1 | trivial

theorem ModelOK.arity {m : ModelS α} (h : ModelOK m) :
    ∀ i, 1 ≤ i → i < m.nBodies → m.arity i ≠ .other :=
  fun i h1 h2 => (jointOK_of_decl m i (h.jc i h1 h2) (h.decl i h1 h2)).arity_ne_other

theorem ModelOK.dof_sph {m : ModelS α} (h : ModelOK m) (i : Nat) (h1 : 1 ≤ i) (h2 : i < m.nBodies)
    (hs : (m.joint i).jt = .spherical) : (m.joint i).dof = 3 := by
  have hd := h.decl i h1 h2
  unfold JointDecl at hd
  simp only [hs] at hd
  exact hd

theorem ModelOK.w3 {m : ModelS α} (h : ModelOK m) :
    ∀ i, 1 ≤ i → i < m.nBodies → (m.joint i).jt = .spherical →
      (m.joint i).qIndex + 2 < m.w3 i := by
  intro i h1 h2 hs
  have hr := C14.coord_ranges m h.wf i h2
  have := (hr.2 hs).1
  have := h.dof_sph i h1 h2 hs
  omega

theorem ModelOK.jointWS {m : ModelS α} (h : ModelOK m) {w : WS α} (hw : WSFixed m w) :
    ∀ i, 1 ≤ i → i < m.nBodies → JointWS m w i :=
  fun i h1 h2 => jointWS_of_fixed m w i (h.decl i h1 h2) (hw.2 i h1 h2)

/-! ### the coordinate jets of the whole model agree with those of each joint -/

theorem sjoint_spherical_iff (m : ModelS α) (i : Nat) :
    (match m.sjoint i with | .spherical => True | _ => False) ↔ (m.joint i).jt = .spherical := by
  unfold ModelS.sjoint
  dsimp only
  cases h : (m.joint i).jt <;> simp
  cases m.custom (m.joint i).customIdx <;> simp

theorem isQuatNode_iff (nd : SNode α) :
    isQuatNode nd = true ↔ (match nd.joint with | .spherical => True | _ => False) := by
  unfold isQuatNode
  cases nd.joint <;> simp

theorem isQuatNode_refines {m : ModelS α} {i : Nat} {nd : SNode α} (h : NodeRefines m i nd) :
    isQuatNode nd = true ↔ (m.joint i).jt = .spherical := by
  rw [isQuatNode_iff, h.joint, sjoint_spherical_iff]

/-- the entries of `q` joint `i` reads lie in its coordinate range, or are its quaternion `w` -/
theorem readsQ_range (m : ModelS α) (i : Nat) (hd : JointDecl (m.joint i))
    (hc : m.jointOk (m.joint i)) (n : Nat)
    (h : readsQ (m.sjoint i) (m.joint i).qIndex (m.w3 i) n) :
    ((m.joint i).qIndex ≤ n ∧ n < (m.joint i).qIndex + (m.joint i).dof) ∨
      ((m.joint i).jt = .spherical ∧ n = m.w3 i) := by
  unfold JointDecl at hd
  unfold ModelS.jointOk at hc
  unfold ModelS.sjoint at h
  dsimp only at hd h
  cases hj : (m.joint i).jt <;> simp only [hj, readsQ] at hd h hc
  case prismatic => left; omega
  case helical => left; omega
  case spherical =>
    rcases h with e | e | e | e
    · left; omega
    · left; omega
    · left; omega
    · right; exact ⟨rfl, e⟩
  case translationXYZ => left; omega
  case custom =>
    have hc2 := (hc trivial).2
    cases hk : m.custom (m.joint i).customIdx <;> simp only [hk, readsQ] at h hc2
    left
    simp only [CustomKind.dof] at hc2
    omega

/-- a spherical joint `j ≠ i` rewrites none of the entries joint `i` reads -/
theorem others_untouched {m : ModelS α} (hm : ModelOK m) (i j : Nat) (h1 : 1 ≤ i)
    (h2 : i < m.nBodies) (j1 : 1 ≤ j) (j2 : j < m.nBodies) (hij : i ≠ j) (nd' : SNode α)
    (hnd' : NodeRefines m j nd') (n : Nat)
    (hr : readsQ (m.sjoint i) (m.joint i).qIndex (m.w3 i) n) : ¬ touches nd' n := by
  intro ht
  obtain ⟨hq, hn⟩ := ht
  have hs : (m.joint j).jt = .spherical := (isQuatNode_refines hnd').1 hq
  rw [hnd'.qIdx, hnd'.wIdx hs] at hn
  have hdj := hm.dof_sph j j1 j2 hs
  have hrj := C14.coord_ranges m hm.wf j j2
  have hri := C14.coord_ranges m hm.wf i h2
  have hwj := hrj.2 hs
  have hR := readsQ_range m i (hm.decl i h1 h2) (hm.wf.custom_ok i h2) n hr
  rcases Nat.lt_or_gt_of_ne hij with hlt | hlt
  · have hmono := L01.qIndex_mono m hm.wf i j hlt j2
    rcases hR with hR | ⟨hsi, hR⟩
    · omega
    · have := (hri.2 hsi).2.2 j hlt j2 hs
      have := (hri.2 hsi).1
      omega
  · have hmono := L01.qIndex_mono m hm.wf j i hlt h2
    rcases hR with hR | ⟨hsi, hR⟩
    · omega
    · have := hwj.2.2 i hlt h2 hsi
      have := (hri.2 hsi).1
      omega

theorem jetStep_congr_node (st : State α) (cs : Coords (D2 α)) (nd nd' : SNode α)
    (hq : isQuatNode nd = isQuatNode nd') (hk : nd.qIdx = nd'.qIdx)
    (hw : isQuatNode nd = true → nd.wIdx = nd'.wIdx) :
    jetStep st cs nd = jetStep st cs nd' := by
  unfold jetStep
  by_cases h : isQuatNode nd = true
  · have h' : isQuatNode nd' = true := hq ▸ h
    simp only [h, h', if_true, hk, hw h]
  · have h' : ¬ isQuatNode nd' = true := hq ▸ h
    simp only [h, h', if_false, Bool.false_eq_true]

/-- **the joint pose of node `i` on the coordinate jets of the whole model is the pose jet of joint
    `i`** (the coordinate ranges of a well-formed model are disjoint) -/
theorem relPose_eq {m : ModelS α} {M : SModel α} (hm : ModelOK m) (hR : Refines m M) (st : QS α)
    (qd qdd : VecN α) (i : Nat) (h1 : 1 ≤ i) (h2 : i < m.nBodies) (nd : SNode α)
    (hnd : M.nodes[i]? = some nd) :
    relPose D2.const (coordJets M (stateOf st qd qdd)) nd
      = (framePoseJet m i).comp (jointPoseJet m i st qd qdd) := by
  have hN := hR.node i nd h1 hnd
  unfold relPose framePoseJet jointPoseJet
  rw [hN.E, hN.r, hN.joint, hN.qIdx]
  congr 1
  -- replace the quaternion index (read by spherical joints only)
  have hwk : jointPose D2.const (m.sjoint i) (m.joint i).qIndex nd.wIdx
        (coordJets M (stateOf st qd qdd))
      = jointPose D2.const (m.sjoint i) (m.joint i).qIndex (m.w3 i)
        (coordJets M (stateOf st qd qdd)) := by
    by_cases hs : (m.joint i).jt = .spherical
    · rw [hN.wIdx hs]
    · exact jointPose_wk _ _ _ _ _ _ (by
        have := fun h => hs ((sjoint_spherical_iff m i).1 h)
        revert this
        cases m.sjoint i <;> simp)
  rw [hwk]
  -- split the node list at `i`
  have hlen : i < M.nodes.length := by rw [hR.len]; exact h2
  have hsplit : M.nodes = M.nodes.take i ++ nd :: M.nodes.drop (i + 1) := by
    have hget : M.nodes[i] = nd := by
      rw [List.getElem?_eq_getElem hlen] at hnd
      exact Option.some.inj hnd
    rw [← hget]
    exact (List.take_append_drop i M.nodes).symm.trans (by rw [List.drop_eq_getElem_cons hlen])
  have hother : ∀ nd' ∈ M.nodes.take i ++ M.nodes.drop (i + 1), ∀ n,
      readsQ (m.sjoint i) (m.joint i).qIndex (m.w3 i) n → ¬ touches nd' n := by
    intro nd' hmem n hr
    rw [List.mem_append] at hmem
    have key : ∀ j, j ≠ i → M.nodes[j]? = some nd' → ¬ touches nd' n := by
      intro j hji hj
      by_cases hj0 : j = 0
      · subst hj0
        have hb := (hR.base nd' hj).2.2
        intro ht
        have := (isQuatNode_iff nd').1 ht.1
        rw [hb] at this
        exact this
      · have hjl : j < M.nodes.length := by
          rcases Nat.lt_or_ge j M.nodes.length with h | h
          · exact h
          · rw [List.getElem?_eq_none h] at hj; cases hj
        exact others_untouched hm i j h1 h2 (by omega) (by rw [← hR.len]; exact hjl)
          (fun e => hji e.symm) nd' (hR.node j nd' (by omega) hj) n hr
    rcases hmem with hmem | hmem
    · obtain ⟨j, hj, hjv⟩ := List.getElem_of_mem hmem
      rw [List.length_take] at hj
      have hjv' : M.nodes[j]? = some nd' := by
        rw [List.getElem_take] at hjv
        rw [List.getElem?_eq_getElem (by omega), hjv]
      exact key j (by omega) hjv'
    · obtain ⟨j, hj, hjv⟩ := List.getElem_of_mem hmem
      rw [List.length_drop] at hj
      have hjv' : M.nodes[i + 1 + j]? = some nd' := by
        rw [List.getElem_drop] at hjv
        rw [List.getElem?_eq_getElem (by omega), hjv]
      exact key (i + 1 + j) (by omega) hjv'
  -- the node of the model and the one-node mechanism of `jointCoordJets` agree
  have hstep : ∀ cs, jetStep (stateOf st qd qdd) cs nd
      = jetStep (stateOf st qd qdd) cs (nodeOfJoint m i) := by
    intro cs
    refine jetStep_congr_node _ _ _ _ ?_ hN.qIdx ?_
    · have e1 := isQuatNode_refines hN
      by_cases hs : (m.joint i).jt = .spherical
      · rw [e1.2 hs, isQuatNode_of_eq m i hs]
      · rw [isQuatNode_of_ne m i hs]
        cases hq : isQuatNode nd
        · rfl
        · exact absurd (e1.1 hq) hs
    · intro hq
      exact hN.wIdx ((isQuatNode_refines hN).1 hq)
  refine jointPose_congr _ _ _ _ _ _ ?_ ?_ ?_
  · rw [coordJets_eq_foldl, foldJets_c, jointCoordJets_eq, jetStep_c]
  · rw [coordJets_eq_foldl, foldJets_s, jointCoordJets_eq, jetStep_s]
  · intro n hr
    rw [coordJets_eq_foldl, jointCoordJets_eq, ← hstep]
    by_cases ht : touches nd n
    · rw [hsplit]
      exact foldJets_q_last _ _ _ nd _ _ n ht
        (fun nd' h' => hother nd' (List.mem_append_right _ h') n hr)
    · rw [foldJets_q_untouched _ _ _ n, jetStep_q_untouched _ _ _ n ht]
      intro nd' h'
      rw [hsplit, List.mem_append, List.mem_cons] at h'
      rcases h' with h' | h' | h'
      · exact hother nd' (List.mem_append_left _ h') n hr
      · rw [h']; exact ht
      · exact hother nd' (List.mem_append_right _ h') n hr

/-! ### the world pose jets of the specification -/

/-- world pose jet of node `i`: entry `i` of `Spec.fkTable` on the coordinate jets -/
def specPose (M : SModel α) (S : State α) (i : Nat) : Pose (D2 α) :=
  (fkTable D2.const M (coordJets M S)).getD i Pose.id

theorem nodes_ne_nil {m : ModelS α} {M : SModel α} (hm : ModelOK m) (hR : Refines m M) :
    M.nodes ≠ [] := by
  intro h
  have := hR.len
  rw [h] at this
  have := hm.wf.nb_pos
  simp at *
  omega

theorem node_exists {m : ModelS α} {M : SModel α} (hR : Refines m M) (i : Nat)
    (h2 : i < m.nBodies) : ∃ nd, M.nodes[i]? = some nd :=
  ⟨M.nodes[i]'(by rw [hR.len]; exact h2), List.getElem?_eq_getElem _⟩

theorem specPose_rec {m : ModelS α} {M : SModel α} (hm : ModelOK m) (hR : Refines m M)
    (st : QS α) (qd qdd : VecN α) :
    specPose M (stateOf st qd qdd) 0 = Pose.id ∧
    ∀ i, 1 ≤ i → i < m.nBodies →
      specPose M (stateOf st qd qdd) i = (specPose M (stateOf st qd qdd) (m.lam i)).comp
        ((framePoseJet m i).comp (jointPoseJet m i st qd qdd)) := by
  obtain ⟨_, h0, hrec⟩ := fkTable_spec D2.const M (coordJets M (stateOf st qd qdd))
    (nodes_ne_nil hm hR)
  refine ⟨h0, fun i h1 h2 => ?_⟩
  obtain ⟨nd, hnd⟩ := node_exists hR i h2
  have hN := hR.node i nd h1 hnd
  have hlt := hm.wf.lam_lt i h1 h2
  unfold specPose
  rw [hrec i nd h1 hnd (by rw [hN.parent]; exact hlt), hN.parent,
    relPose_eq hm hR st qd qdd i h1 h2 nd hnd]

/-- the value part (`X_base`) of the world poses does not depend on the velocities -/
theorem xtOfKin_indep (m : ModelS α)
    (htree : ∀ i, 1 ≤ i → i < m.nBodies → m.lam i < i)
    (hjc : ∀ i, 1 ≤ i → i < m.nBodies → (m.joint i).jt.hasJcalc = true)
    (w0 : WS α) (st : QS α) (qd qdd qd' qdd' : VecN α) (P P' : Nat → Pose (D2 α))
    (hP0 : P 0 = Pose.id) (hP'0 : P' 0 = Pose.id)
    (hP : ∀ i, 1 ≤ i → i < m.nBodies →
      P i = (P (m.lam i)).comp ((framePoseJet m i).comp (jointPoseJet m i st qd qdd)))
    (hP' : ∀ i, 1 ≤ i → i < m.nBodies →
      P' i = (P' (m.lam i)).comp ((framePoseJet m i).comp (jointPoseJet m i st qd' qdd'))) :
    ∀ i, i < m.nBodies →
      xtOfKin (NodeKin.ofPose (P i)) = xtOfKin (NodeKin.ofPose (P' i)) := by
  intro i
  induction i using Nat.strongRecOn with
  | _ i ih =>
    intro hi
    by_cases hz : i = 0
    · subst hz; rw [hP0, hP'0]
    · have h1 : 1 ≤ i := by omega
      have hlt := htree i h1 hi
      rw [hP i h1 hi, hP' i h1 hi]
      simp only [ofPose_comp, xtOfKin_compKin, xtOfKin_frame]
      rw [ih (m.lam i) hlt (by omega),
        ← jcalc_X_lambda_joint m w0 i st qd qd qdd (hjc i h1 hi),
        ← jcalc_X_lambda_joint m w0 i st qd qd' qdd' (hjc i h1 hi)]

/-- `X_base[i]` of the forward pass with external forces is the value part of the world pose -/
theorem xbase_eq (m : ModelS α)
    (htree : ∀ i, 1 ≤ i → i < m.nBodies → m.lam i < i)
    (hjc : ∀ i, 1 ≤ i → i < m.nBodies → (m.joint i).jt.hasJcalc = true)
    (w W : WS α) (st : QS α) (qd qdd : VecN α) (hF : FwdClosed m st qd qdd w W)
    (hxb : ∀ i, 1 ≤ i → i < m.nBodies → W.X_base i = W.X_lambda i * W.X_base (m.lam i))
    (hxb0 : W.X_base 0 = XT.id)
    (P : Nat → Pose (D2 α)) (hP0 : P 0 = Pose.id)
    (hP : ∀ i, 1 ≤ i → i < m.nBodies →
      P i = (P (m.lam i)).comp ((framePoseJet m i).comp (jointPoseJet m i st qd qdd))) :
    ∀ i, i < m.nBodies → W.X_base i = xtOfKin (NodeKin.ofPose (P i)) := by
  intro i
  induction i using Nat.strongRecOn with
  | _ i ih =>
    intro hi
    by_cases hz : i = 0
    · subst hz; rw [hP0, hxb0]; rfl
    · have h1 : 1 ≤ i := by omega
      have hlt := htree i h1 hi
      rw [hxb i h1 hi, hP i h1 hi, ih (m.lam i) hlt (by omega)]
      simp only [ofPose_comp, xtOfKin_compKin, xtOfKin_frame]
      rw [hF.jX i h1 hi, jcalc_X_lambda_joint m w i st qd qd qdd (hjc i h1 hi)]

/-! ### the folds of `Spec.newtonEulerTau` -/

/-- the step of the body fold of `Spec.newtonEulerTau` -/
def bodyStep (g : V3 α) (acc : α) (x : (SNode α × NodeKin α) × NodeKin α) : α :=
  let ((nd, k), kj) := x
  if !nd.hasBody then acc else
  let cdd := k.ptdd nd.com
  let Fb := nd.mass * (cdd - g)
  let Iw := k.R * nd.inertia * k.R.transpose
  let Iwd := k.Rd * nd.inertia * k.R.transpose + k.R * nd.inertia * k.Rd.transpose
  let Nb := Iwd * k.omega + Iw * k.omegaDot
  let dc := kj.ptd nd.com
  let dw := kj.omega
  acc + Fb.dot dc + Nb.dot dw

/-- the step of the external-force fold -/
def extStep (fext : Nat → SV α) (acc : α) (x : (SNode α × NodeKin α) × NodeKin α) : α :=
  let ((nd, k), kj) := x
  if nd.apiId ≠ nd.movableId ∨ nd.apiId = 0 then acc else
  let fe := fext nd.movableId
  let dw := kj.omega
  let dvO := kj.pd - dw.cross k.p
  acc + fe.w.dot dw + fe.v.dot dvO

theorem newtonEulerTau_getD (M : SModel α) (S : State α) (fext : Nat → SV α) (x : Nat)
    (hx : x < M.nv) :
    (newtonEulerTau M S fext).getD x 0
      = ((M.nodes.zip (kinTable M S)).zip (kinTable M (unitVel S x))).foldl (bodyStep M.gravity) 0
        - ((M.nodes.zip (kinTable M S)).zip (kinTable M (unitVel S x))).foldl (extStep fext) 0 := by
  unfold newtonEulerTau
  simp only [List.getD_eq_getElem?_getD, List.getElem?_map, List.getElem?_range hx, Option.map_some,
    Option.getD_some]
  rfl

/-- contribution of one node to the body fold -/
def bodyTerm (g : V3 α) (x : (SNode α × NodeKin α) × NodeKin α) : α :=
  if x.1.1.hasBody = true then
    (x.1.1.mass * (x.1.2.ptdd x.1.1.com - g)).dot (x.2.ptd x.1.1.com)
      + ((x.1.2.Rd * x.1.1.inertia * x.1.2.R.transpose
            + x.1.2.R * x.1.1.inertia * x.1.2.Rd.transpose) * x.1.2.omega
          + (x.1.2.R * x.1.1.inertia * x.1.2.R.transpose) * x.1.2.omegaDot).dot x.2.omega
  else 0

/-- contribution of one node to the external-force fold -/
def extTerm (fext : Nat → SV α) (x : (SNode α × NodeKin α) × NodeKin α) : α :=
  if x.1.1.apiId ≠ x.1.1.movableId ∨ x.1.1.apiId = 0 then 0
  else (fext x.1.1.movableId).w.dot x.2.omega
    + (fext x.1.1.movableId).v.dot (x.2.pd - x.2.omega.cross x.1.2.p)

theorem bodyStep_eq (g : V3 α) (acc : α) (x : (SNode α × NodeKin α) × NodeKin α) :
    bodyStep g acc x = acc + bodyTerm g x := by
  obtain ⟨⟨nd, k⟩, kj⟩ := x
  unfold bodyStep bodyTerm
  dsimp only
  cases nd.hasBody
  · simp only [Bool.not_false, if_true, Bool.false_eq_true, if_false]; grind
  · simp only [Bool.not_true, Bool.false_eq_true, if_false, if_true]; grind

theorem extStep_eq (fext : Nat → SV α) (acc : α) (x : (SNode α × NodeKin α) × NodeKin α) :
    extStep fext acc x = acc + extTerm fext x := by
  obtain ⟨⟨nd, k⟩, kj⟩ := x
  unfold extStep extTerm
  dsimp only
  split
  · grind
  · grind

end
end Rbdl.L01Cap
