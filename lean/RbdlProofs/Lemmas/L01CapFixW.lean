import RbdlProofs.Lemmas.L01CapFixOps
/-
  C01 capstone, Stages D + E: the quaternion indices.  `SimW`: the number of spherical nodes before
  the node of a movable body equals the number of spherical joints before that body — what makes
  `SModel.finalize` assign the indices `Model::AddBody` assigns.
-/
namespace Rbdl.L01Cap
open Lean.Grind Rbdl Rbdl.Spec Rbdl.L06 Rbdl.L01 Rbdl.Loops
set_option linter.unusedSimpArgs false
set_option linter.unusedVariables false
set_option linter.unusedSectionVars false

section
variable {α : Type} [Field α] [DecidableEq α]

structure SimW (m : ModelS α) (p : PB α) : Prop where
  wtotal : p.sb.M.nodes.countP isQuatNode = m.joints.countP isSph
  wcount : ∀ n nd, 1 ≤ n → p.sb.M.nodes[n]? = some nd → nd.apiId = nd.movableId →
    (p.sb.M.nodes.take n).countP isQuatNode = sphBefore m.joints nd.movableId

theorem simW_init : SimW (ModelS.init : ModelS α) PB.init := by
  refine ⟨by simp [PB.init, SB.init, ModelS.init, isQuatNode, isSph, Joint.root], ?_⟩
  intro n nd n1 h
  obtain ⟨k, rfl⟩ : ∃ k, n = k + 1 := ⟨n - 1, by omega⟩
  simp [PB.init, SB.init] at h

/-- one movable body appended on both sides -/
theorem simW_movable (m : ModelS α) (p : PB α) (hS : SimF m p) (hW : SimW m p) (parent : Nat)
    (frame : XT α) (j : Joint α) (b : Body α) (name : String) (nd : SNode α) (f prev : Nat)
    (hq : isQuatNode nd = isSph j) (hnm : nd.movableId = m.nBodies) :
    SimW (m.movableResult parent frame j b name) ⟨pushMov p.sb nd f, prev⟩ := by
  have hwf := hS.ok.wf
  have hjl := hwf.len_joints
  have hsp : isSph (m.newJoint j) = isSph j := rfl
  constructor
  · show (p.sb.M.nodes ++ [nd]).countP isQuatNode = (m.joints ++ [m.newJoint j]).countP isSph
    rw [List.countP_append, List.countP_append, hW.wtotal]
    simp only [List.countP_cons, List.countP_nil, hq, hsp]
  · intro n nd' n1 h hmv
    change (pushNode p.sb.M nd).nodes[n]? = some nd' at h
    show ((p.sb.M.nodes ++ [nd]).take n).countP isQuatNode
      = sphBefore (m.joints ++ [m.newJoint j]) nd'.movableId
    by_cases hn' : n < p.sb.M.nodes.length
    · rw [pushNode_get_old _ _ n hn'] at h
      have hbl := (hS.node n nd' n1 h).body_lt
      rw [List.take_append_of_le_length (by omega),
        sphBefore_append_le _ _ _ (by rw [hjl]; omega)]
      exact hW.wcount n nd' n1 h hmv
    · have hlt := lt_of_get h
      rw [pushNode_length] at hlt
      have hn'' : n = p.sb.M.nodes.length := by omega
      subst hn''
      rw [pushNode_get_new] at h
      have : nd = nd' := Option.some.inj h
      subst this
      rw [hnm, List.take_append_of_le_length (Nat.le_refl _), List.take_length,
        sphBefore_append_le _ _ _ (by rw [hjl]; omega), sphBefore_all _ _ (by rw [hjl]; omega)]
      exact hW.wtotal

/-- one fixed body added on both sides -/
theorem simW_fixed (m : ModelS α) (p : PB α) (hS : SimF m p) (hW : SimW m p) (parent : Nat)
    (frame : XT α) (b : Body α) (name : String) (pb : Body α) (nd : SNode α) (prev : Nat)
    (hnj : nd.joint = .fixed) (hne : nd.apiId ≠ nd.movableId) :
    SimW (m.fixedResult parent frame b name pb) ⟨pushFix p.sb nd, prev⟩ := by
  have hq : isQuatNode nd = false := isQuat_fixed nd hnj
  constructor
  · show (p.sb.M.nodes ++ [nd]).countP isQuatNode = m.joints.countP isSph
    rw [List.countP_append, hW.wtotal]
    simp [hq]
  · intro n nd' n1 h hmv
    change (pushNode p.sb.M nd).nodes[n]? = some nd' at h
    show ((p.sb.M.nodes ++ [nd]).take n).countP isQuatNode = sphBefore m.joints nd'.movableId
    by_cases hn' : n < p.sb.M.nodes.length
    · rw [pushNode_get_old _ _ n hn'] at h
      rw [List.take_append_of_le_length (by omega)]
      exact hW.wcount n nd' n1 h hmv
    · have hlt := lt_of_get h
      rw [pushNode_length] at hlt
      have hn'' : n = p.sb.M.nodes.length := by omega
      subst hn''
      rw [pushNode_get_new] at h
      have : nd = nd' := Option.some.inj h
      subst this
      exact absurd hmv hne

theorem simW_withCustom (m : ModelS α) (p : PB α) (hW : SimW m p) (k : CustomKind) :
    SimW (m.withCustom k) p := ⟨hW.wtotal, hW.wcount⟩

theorem isQuat_jointSj (j : Joint α) (nd : SNode α) (h : nd.joint = jointSj j) :
    isQuatNode nd = isSph j := by
  unfold isQuatNode isSph jointSj at *
  rw [h]
  cases hj : j.jt <;> simp

end
end Rbdl.L01Cap
