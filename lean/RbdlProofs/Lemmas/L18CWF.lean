import RbdlProofs.Lemmas.L18CBasic
/-
  C18 at curve level, part 2: `shift` and `scale` (either sign of the x factor) preserve `Curve.WF`.
-/
set_option linter.unusedSectionVars false
namespace Rbdl.L18C
open Lean.Grind Std Rbdl.Geom Rbdl.L18

section ring
variable {α : Type} [CommRing α]
theorem derivU1_rev (u : α) (p : P6 α) : derivU (1 - u) p.rev 1 = - derivU u p 1 := by
  simp only [derivU, derivU1, P6.rev]; grind
theorem derivU2_rev (u : α) (p : P6 α) : derivU (1 - u) p.rev 2 = derivU u p 2 := by
  simp only [derivU, derivU2, P6.rev]; grind
theorem derivU1_zero (p : P6 α) : derivU 0 p 1 = 5 * (p.p1 - p.p0) := by
  simp only [derivU, derivU1]; grind
theorem derivU1_one (p : P6 α) : derivU 1 p 1 = 5 * (p.p5 - p.p4) := by
  simp only [derivU, derivU1]; grind
theorem bezVal_zero (p : P6 α) : bezVal 0 p = p.p0 := by simp only [bezVal]; grind
theorem bezVal_one (p : P6 α) : bezVal 1 p = p.p5 := by simp only [bezVal]; grind
end ring

section field
variable {α : Type} [Field α]
/-- dy/dx and d2y/dx2 do not depend on the direction in which the section is traversed -/
theorem derivDYDX1_rev (u : α) (X Y : P6 α) :
    derivDYDX (1 - u) X.rev Y.rev 1 = derivDYDX u X Y 1 := by
  simp only [derivDYDX, derivDYDX1, derivU1_rev]
  generalize derivU u X 1 = a
  generalize derivU u Y 1 = b
  grind
theorem derivDYDX2_rev (u : α) (X Y : P6 α) :
    derivDYDX (1 - u) X.rev Y.rev 2 = derivDYDX u X Y 2 := by
  simp only [derivDYDX, derivDYDX2, derivU1_rev, derivU2_rev]
  generalize derivU u X 1 = a
  generalize derivU u Y 1 = b
  generalize derivU u X 2 = a2
  generalize derivU u Y 2 = b2
  by_cases ha : a = 0
  · subst ha; grind
  · grind
theorem derivDYDX1_rev' (u : α) (X Y : P6 α) :
    derivDYDX u X.rev Y.rev 1 = derivDYDX (1 - u) X Y 1 := by
  have := derivDYDX1_rev (1 - u) X Y
  rw [show (1 : α) - (1 - u) = u by grind] at this; exact this
theorem derivDYDX2_rev' (u : α) (X Y : P6 α) :
    derivDYDX u X.rev Y.rev 2 = derivDYDX (1 - u) X Y 2 := by
  have := derivDYDX2_rev (1 - u) X Y
  rw [show (1 : α) - (1 - u) = u by grind] at this; exact this
end field

section order
variable {α : Type} [Field α] [LE α] [LT α] [LawfulOrderLT α] [IsLinearOrder α] [OrderedRing α]

theorem strictIncr_shift (p : P6 α) (d : α) (h : p.StrictIncr) : (p.map (· + d)).StrictIncr := by
  simp only [P6.StrictIncr, P6.map] at h ⊢; grind
theorem strictIncr_scale_pos (p : P6 α) (s : α) (hs : 0 < s) (h : p.StrictIncr) :
    (p.map (· * s)).StrictIncr := by
  simp only [P6.StrictIncr, P6.map] at h ⊢
  obtain ⟨h0, h1, h2, h3, h4⟩ := h
  have m := @OrderedRing.mul_lt_mul_of_pos_right α _ _ _ _ _
  exact ⟨m h0 hs, m h1 hs, m h2 hs, m h3 hs, m h4 hs⟩
theorem strictIncr_scale_neg (p : P6 α) (s : α) (hs : s < 0) (h : p.StrictIncr) :
    (p.map (· * s)).rev.StrictIncr := by
  simp only [P6.StrictIncr, P6.map, P6.rev] at h ⊢
  obtain ⟨h0, h1, h2, h3, h4⟩ := h
  have m := @OrderedRing.mul_lt_mul_of_neg_right α _ _ _ _ _ _
  exact ⟨m h4 hs, m h3 hs, m h2 hs, m h1 hs, m h0 hs⟩

theorem strictIncr_derivU0_ne (p : P6 α) (h : p.StrictIncr) : derivU 0 p 1 ≠ 0 := by
  rw [derivU1_zero]; obtain ⟨h0, _⟩ := h; grind
theorem strictIncr_derivU1_ne (p : P6 α) (h : p.StrictIncr) : derivU 1 p 1 ≠ 0 := by
  rw [derivU1_one]; obtain ⟨_, _, _, _, h4⟩ := h; grind
end order

section curve
variable {α : Type} [Field α] [Inhabited α] [LE α] [LT α] [LawfulOrderLT α] [IsLinearOrder α]
  [OrderedRing α]

/-- `shift` preserves well-formedness -/
theorem WF_shift (c : Curve α) (dx dy : α) (h : c.WF) : (c.shift dx dy).WF := by
  have hn : c.nseg - 1 < c.nseg := by have := h.pos; omega
  have hnY : c.nseg - 1 < c.mY.length := by rw [h.lenY]; exact hn
  have h0Y : 0 < c.mY.length := by rw [h.lenY]; exact h.pos
  refine ⟨?_, ?_, ?_, ?_, ?_, ?_, ?_, ?_, ?_, ?_, ?_⟩
  · simp [Curve.shift, h.lenY]
  · rw [nseg_shift]; exact h.pos
  · intro i hi; rw [nseg_shift] at hi; rw [segX_shift _ _ _ _ hi]
    exact strictIncr_shift _ _ (h.incr i hi)
  · intro i hi; rw [nseg_shift] at hi
    rw [segX_shift _ _ _ _ (by omega), segX_shift _ _ _ _ hi]
    simp only [P6.map, h.joinX i hi]
  · intro i hi; rw [nseg_shift] at hi
    rw [segY_shift _ _ _ _ (by rw [h.lenY]; show i < c.nseg; omega),
        segY_shift _ _ _ _ (by rw [h.lenY]; exact hi)]
    simp only [P6.map, h.joinY i hi]
  · rw [segX_shift _ _ _ _ h.pos]; simp only [Curve.shift, P6.map, h.hx0]
  · rw [nseg_shift, segX_shift _ _ _ _ hn]; simp only [Curve.shift, P6.map, h.hx1]
  · rw [segY_shift _ _ _ _ h0Y]; simp only [Curve.shift, P6.map, h.hy0]
  · rw [nseg_shift, segY_shift _ _ _ _ hnY]; simp only [Curve.shift, P6.map, h.hy1]
  · rw [segX_shift _ _ _ _ h.pos, segY_shift _ _ _ _ h0Y, (C18.derivDYDX_shift _ _ _ _ _).1]
    exact h.hd0
  · rw [nseg_shift, segX_shift _ _ _ _ hn, segY_shift _ _ _ _ hnY, (C18.derivDYDX_shift _ _ _ _ _).1]
    exact h.hd1

/-- the first half of `scale` preserves well-formedness for a positive x factor -/
theorem WF_scaleRaw_pos (c : Curve α) (sx sy : α) (hs : 0 < sx) (h : c.WF) : (c.scaleRaw sx sy).WF := by
  have hn : c.nseg - 1 < c.nseg := by have := h.pos; omega
  have hnY : c.nseg - 1 < c.mY.length := by rw [h.lenY]; exact hn
  have h0Y : 0 < c.mY.length := by rw [h.lenY]; exact h.pos
  have hs0 : sx ≠ 0 := by grind
  refine ⟨?_, ?_, ?_, ?_, ?_, ?_, ?_, ?_, ?_, ?_, ?_⟩
  · simp [Curve.scaleRaw, h.lenY]
  · rw [nseg_scaleRaw]; exact h.pos
  · intro i hi; rw [nseg_scaleRaw] at hi; rw [segX_scaleRaw _ _ _ _ hi]
    exact strictIncr_scale_pos _ _ hs (h.incr i hi)
  · intro i hi; rw [nseg_scaleRaw] at hi
    rw [segX_scaleRaw _ _ _ _ (by omega), segX_scaleRaw _ _ _ _ hi]
    simp only [P6.map, h.joinX i hi]
  · intro i hi; rw [nseg_scaleRaw] at hi
    rw [segY_scaleRaw _ _ _ _ (by rw [h.lenY]; show i < c.nseg; omega),
        segY_scaleRaw _ _ _ _ (by rw [h.lenY]; exact hi)]
    simp only [P6.map, h.joinY i hi]
  · rw [segX_scaleRaw _ _ _ _ h.pos]; simp only [Curve.scaleRaw, P6.map, h.hx0]
  · rw [nseg_scaleRaw, segX_scaleRaw _ _ _ _ hn]; simp only [Curve.scaleRaw, P6.map, h.hx1]
  · rw [segY_scaleRaw _ _ _ _ h0Y]; simp only [Curve.scaleRaw, P6.map, h.hy0]
  · rw [nseg_scaleRaw, segY_scaleRaw _ _ _ _ hnY]; simp only [Curve.scaleRaw, P6.map, h.hy1]
  · rw [segX_scaleRaw _ _ _ _ h.pos, segY_scaleRaw _ _ _ _ h0Y,
        (C18.derivDYDX_scale _ _ _ _ _ hs0 (strictIncr_derivU0_ne _ (h.incr 0 h.pos))).1]
    simp only [Curve.scaleRaw, h.hd0]
  · rw [nseg_scaleRaw, segX_scaleRaw _ _ _ _ hn, segY_scaleRaw _ _ _ _ hnY,
        (C18.derivDYDX_scale _ _ _ _ _ hs0 (strictIncr_derivU1_ne _ (h.incr _ hn))).1]
    simp only [Curve.scaleRaw, h.hd1]

/-- both halves of `scale` together preserve well-formedness for a negative x factor -/
theorem WF_mirror_scaleRaw_neg (c : Curve α) (sx sy : α) (hs : sx < 0) (h : c.WF) :
    (c.scaleRaw sx sy).mirror.WF := by
  have hp := h.pos
  have hn : c.nseg - 1 < c.nseg := by omega
  have hlen : c.mY.length = c.nseg := h.lenY
  have hs0 : sx ≠ 0 := by grind
  have hlenS : (c.scaleRaw sx sy).mY.length = c.nseg := by simp [Curve.scaleRaw, hlen]
  have sX : ∀ i, i < c.nseg → (c.scaleRaw sx sy).mirror.segX i = ((c.segX (c.nseg - 1 - i)).map (· * sx)).rev := by
    intro i hi
    rw [segX_mirror _ _ (by rw [nseg_scaleRaw]; exact hi), nseg_scaleRaw, segX_scaleRaw _ _ _ _ (by omega)]
  have sY : ∀ i, i < c.nseg → (c.scaleRaw sx sy).mirror.segY i = ((c.segY (c.nseg - 1 - i)).map (· * sy)).rev := by
    intro i hi
    rw [segY_mirror _ _ (by rw [hlenS]; exact hi), hlenS, segY_scaleRaw _ _ _ _ (by omega)]
  refine ⟨?_, ?_, ?_, ?_, ?_, ?_, ?_, ?_, ?_, ?_, ?_⟩
  · simp [Curve.scaleRaw, Curve.mirror, h.lenY]
  · rw [nseg_mirror, nseg_scaleRaw]; exact hp
  · intro i hi; rw [nseg_mirror, nseg_scaleRaw] at hi; rw [sX i hi]
    exact strictIncr_scale_neg _ _ hs (h.incr _ (by omega))
  · intro i hi; rw [nseg_mirror, nseg_scaleRaw] at hi
    rw [sX i (by omega), sX (i+1) hi]
    have := h.joinX (c.nseg - 1 - (i+1)) (by omega)
    rw [show c.nseg - 1 - (i+1) + 1 = c.nseg - 1 - i by omega] at this
    simp only [P6.map, P6.rev, this]
  · intro i hi; rw [nseg_mirror, nseg_scaleRaw] at hi
    rw [sY i (by omega), sY (i+1) hi]
    have := h.joinY (c.nseg - 1 - (i+1)) (by omega)
    rw [show c.nseg - 1 - (i+1) + 1 = c.nseg - 1 - i by omega] at this
    simp only [P6.map, P6.rev, this]
  · rw [sX 0 hp]; simp only [Curve.scaleRaw, Curve.mirror, P6.map, P6.rev, h.hx1, Nat.sub_zero]
  · rw [nseg_mirror, nseg_scaleRaw, sX _ hn, show c.nseg - 1 - (c.nseg - 1) = 0 by omega]
    simp only [Curve.scaleRaw, Curve.mirror, P6.map, P6.rev, h.hx0]
  · rw [sY 0 hp]; simp only [Curve.scaleRaw, Curve.mirror, P6.map, P6.rev, h.hy1, Nat.sub_zero]
  · rw [nseg_mirror, nseg_scaleRaw, sY _ hn, show c.nseg - 1 - (c.nseg - 1) = 0 by omega]
    simp only [Curve.scaleRaw, Curve.mirror, P6.map, P6.rev, h.hy0]
  · rw [sX 0 hp, sY 0 hp, Nat.sub_zero, derivDYDX1_rev', show (1:α) - 0 = 1 by grind,
        (C18.derivDYDX_scale _ _ _ _ _ hs0 (strictIncr_derivU1_ne _ (h.incr _ hn))).1]
    simp only [Curve.scaleRaw, Curve.mirror, h.hd1]
  · rw [nseg_mirror, nseg_scaleRaw, sX _ hn, sY _ hn, show c.nseg - 1 - (c.nseg - 1) = 0 by omega,
        derivDYDX1_rev', show (1:α) - 1 = 0 by grind,
        (C18.derivDYDX_scale _ _ _ _ _ hs0 (strictIncr_derivU0_ne _ (h.incr 0 hp))).1]
    simp only [Curve.scaleRaw, Curve.mirror, h.hd0]
end curve
end Rbdl.L18C
