import RbdlProofs.Lemmas.LCapMultiCore
import RbdlProofs.Lemmas.LCapMultiN
import RbdlProofs.Lemmas.LDynCapEx2
import RbdlProofs.Lemmas.L01CapFixEx
/-
  Multi-DoF capstone: concrete instances over `Rat`.

  `ExM`: a 3-axis rotational emulated joint at the root (`Joint(a0, a1, a2)`: rotation about the unit
  axis (2,1,2)/3, about the coordinate axis y, about the unit axis (3,0,4)/5 — the code stores two
  zero-pitch helical joints and one `RevoluteY` through two massless virtual bodies), carrying a
  "trunk", a child on a revolute joint and a fixed "sensor" attached to the trunk.
  `Ex6`: a 6-axis emulated joint (translations along x, along the unit axis (1,2,2)/3, along z; rotations
  about z, about (2,1,2)/3, about y) carrying one body, with a child on a prismatic joint.
-/
namespace Rbdl.LCapMulti.ExM
open Lean.Grind Rbdl Rbdl.Spec Rbdl.L01Cap Rbdl.LCapMulti

def ax2 : V3 Rat := ⟨3/5, 0, 4/5⟩
def j3 : Joint Rat :=
  Joint.ofAxes [⟨C16.Ex.ax, V3.zero⟩, sv6 0 1 0 0 0 0, ⟨ax2, V3.zero⟩]

def ops : List (Op Rat) :=
  [ .addBody 0 C16.Ex.X j3 Ex.b1 "trunk",
    .appendBody C16.Ex.Y Ex.jRev Ex.b2 "arm",
    .addBody 3 C16.Ex.X ExF.jFix Ex.b3 "sensor" ]

def m : ModelS Rat := ModelS.init.run ops
def M : SModel Rat := specOfM ops

theorem ops_good : goodRunMF (ModelS.init : ModelS Rat) ops := by
  refine ⟨by decide +kernel, Or.inr ⟨C16.Ex.X_isRot, rfl, rfl, rfl, by decide⟩, ⟨3, by decide +kernel⟩,
    by decide +kernel, by decide +kernel, ?_⟩
  refine ⟨by decide +kernel, Or.inl ⟨C16.Ex.Y_isRot, rfl, Or.inl ⟨Ex.good_jRev, rfl⟩⟩,
    ⟨4, by decide +kernel⟩, by decide +kernel, by decide +kernel, ?_⟩
  refine ⟨by decide +kernel, Or.inl ⟨C16.Ex.X_isRot, rfl, Or.inr (Or.inl rfl)⟩,
    ⟨fixedDisc, by decide +kernel⟩, by decide +kernel, by decide +kernel, trivial⟩

theorem m_ok : ModelOK m := (refinesFW_by_construction ops ops_good).1
theorem m_refines : RefinesFW m M (offOf m (runM (PB.init : PB Rat) ops).sb.M)
    (lookupNode (runM (PB.init : PB Rat) ops).sb.idMap) := (refinesFW_by_construction ops ops_good).2

theorem m_n : m.nBodies = 5 := by decide +kernel
theorem m_dof : m.dofCount = 4 := by decide +kernel
theorem m_fixed : m.fixedBodies.length = 1 := by decide +kernel
theorem M_nodes : M.nodes.length = 6 := by decide +kernel

/-- the mismatch the normal form resolves: the code stores a zero-pitch helical joint for the first
    axis, the specification a revolute joint -/
theorem jt1 : (m.joint 1).jt = .helical := by decide +kernel
theorem jt2 : (m.joint 2).jt = .revoluteY := by decide +kernel
theorem jt3 : (m.joint 3).jt = .helical := by decide +kernel
theorem jt4 : (m.joint 4).jt = .revolute := by decide +kernel

def st : QS Rat := { q := fun _ => 1/2, c := fun _ => 4/5, s := fun _ => 3/5 }

theorem ax2_unit : ax2.nrm2 = 1 := by simp only [alg, ax2]; grind

theorem st_ok : StateOK m st := by
  intro i h1 h2
  rw [m_n] at h2
  obtain rfl | rfl | rfl | rfl : i = 1 ∨ i = 2 ∨ i = 3 ∨ i = 4 := by omega
  · unfold ModelS.jointUnit; simp only [jt1]
    exact ⟨C16.Ex.cs_unit, by decide +kernel⟩
  · unfold ModelS.jointUnit; simp only [jt2]
    exact C16.Ex.cs_unit
  · unfold ModelS.jointUnit; simp only [jt3]
    exact ⟨C16.Ex.cs_unit, by decide +kernel⟩
  · unfold ModelS.jointUnit; simp only [jt4]
    exact ⟨C16.Ex.cs_unit, by decide +kernel⟩

theorem m_axes : L13.AxesOK m := by
  intro i h1 h2
  rw [m_n] at h2
  obtain rfl | rfl | rfl | rfl : i = 1 ∨ i = 2 ∨ i = 3 ∨ i = 4 := by omega
  · exact ⟨fun h => absurd h (by decide +kernel), fun h => absurd h (by decide +kernel),
      fun h => absurd h (by decide +kernel)⟩
  · exact ⟨fun h => absurd h (by decide +kernel), fun _ => by decide +kernel,
      fun h => absurd h (by decide +kernel)⟩
  · exact ⟨fun h => absurd h (by decide +kernel), fun h => absurd h (by decide +kernel),
      fun h => absurd h (by decide +kernel)⟩
  · exact ⟨fun h => absurd h (by decide +kernel), fun h => absurd h (by decide +kernel),
      fun h => absurd h (by decide +kernel)⟩

def w0 : WS Rat := initWS m
def w1 : WS Rat := poison m w0 11
theorem w0_fixed : WSFixed m w0 := L13.wsfixed_initWS m m_axes
theorem w1_fixed : WSFixed m w1 := L13.wsfixed_poison m _ 11 w0_fixed

/-- the hypotheses of the C02 capstones: 1-DoF joints only, invertible pivots (the massless links carry
    the bodies behind them) -/
theorem m_ar : ∀ i, 1 ≤ i → i < m.nBodies → m.arity i = .one ∨ m.arity i = .three := by
  intro i h1 h2
  rw [m_n] at h2
  obtain rfl | rfl | rfl | rfl : i = 1 ∨ i = 2 ∨ i = 3 ∨ i = 4 := by omega
  all_goals decide +kernel

theorem m_piv : ∀ i, 1 ≤ i → i < m.nBodies →
    L02.pivotOk m (forwardDynamics m w1 st Ex.qd LDynCap.exTau Ex.qdd (some Ex.fe)).1 i := by
  intro i h1 h2
  rw [m_n] at h2
  obtain rfl | rfl | rfl | rfl : i = 1 ∨ i = 2 ∨ i = 3 ∨ i = 4 := by omega
  · exact L02.pivotOk_one _ _ 1 (by decide +kernel) (by decide +kernel)
  · exact L02.pivotOk_one _ _ 2 (by decide +kernel) (by decide +kernel)
  · exact L02.pivotOk_one _ _ 3 (by decide +kernel) (by decide +kernel)
  · exact L02.pivotOk_one _ _ 4 (by decide +kernel) (by decide +kernel)

theorem m_piv_cmt : ∀ i, 1 ≤ i → i < m.nBodies →
    L02.pivotOk m (calcMInvTimesTau m w1 st LDynCap.exTau Ex.qdd true).1 i := by
  intro i h1 h2
  rw [m_n] at h2
  obtain rfl | rfl | rfl | rfl : i = 1 ∨ i = 2 ∨ i = 3 ∨ i = 4 := by omega
  · exact L02.pivotOk_one _ _ 1 (by decide +kernel) (by decide +kernel)
  · exact L02.pivotOk_one _ _ 2 (by decide +kernel) (by decide +kernel)
  · exact L02.pivotOk_one _ _ 3 (by decide +kernel) (by decide +kernel)
  · exact L02.pivotOk_one _ _ 4 (by decide +kernel) (by decide +kernel)

end Rbdl.LCapMulti.ExM

namespace Rbdl.LCapMulti.Ex6
open Lean.Grind Rbdl Rbdl.Spec Rbdl.L01Cap Rbdl.LCapMulti

def tr : V3 Rat := ⟨1/3, 2/3, 2/3⟩
def j6 : Joint Rat :=
  Joint.ofAxes [sv6 0 0 0 1 0 0, ⟨V3.zero, tr⟩, sv6 0 0 0 0 0 1,
    sv6 0 0 1 0 0 0, ⟨C16.Ex.ax, V3.zero⟩, sv6 0 1 0 0 0 0]

def ops : List (Op Rat) :=
  [ .addBody 0 C16.Ex.Y j6 Ex.b4 "free",
    .appendBody C16.Ex.X Ex.jPris Ex.b5 "slider" ]

def m : ModelS Rat := ModelS.init.run ops
def M : SModel Rat := specOfM ops

theorem ops_good : goodRunMF (ModelS.init : ModelS Rat) ops := by
  refine ⟨by decide +kernel, Or.inr ⟨C16.Ex.Y_isRot, rfl, rfl, rfl, by decide⟩, ⟨6, by decide +kernel⟩,
    by decide +kernel, by decide +kernel, ?_⟩
  refine ⟨by decide +kernel, Or.inl ⟨C16.Ex.X_isRot, rfl, Or.inl ⟨Ex.good_jPris, rfl⟩⟩,
    ⟨7, by decide +kernel⟩, by decide +kernel, by decide +kernel, trivial⟩

/-- … and without the bound on the number of bodies (no fixed bodies in this sequence) -/
theorem ops_goodM : goodRunM (ModelS.init : ModelS Rat) ops := by
  refine ⟨by decide +kernel, Or.inr ⟨C16.Ex.Y_isRot, rfl, rfl, rfl, by decide⟩, ⟨6, by decide +kernel⟩,
    ?_⟩
  exact ⟨by decide +kernel, Or.inl ⟨C16.Ex.X_isRot, Ex.good_jPris, Ex.good_b5⟩,
    ⟨7, by decide +kernel⟩, trivial⟩

theorem m_ok : ModelOK m := (refinesFW_by_construction ops ops_good).1
theorem m_refinesW : RefinesW m M := (refinesW_by_construction ops ops_goodM).2.2.2

theorem m_n : m.nBodies = 8 := by decide +kernel
theorem m_dof : m.dofCount = 7 := by decide +kernel
theorem M_nodes : M.nodes.length = 8 := by decide +kernel

theorem jt1 : (m.joint 1).jt = .prismatic := by decide +kernel
theorem jt2 : (m.joint 2).jt = .prismatic := by decide +kernel
theorem jt3 : (m.joint 3).jt = .prismatic := by decide +kernel
theorem jt4 : (m.joint 4).jt = .revoluteZ := by decide +kernel
theorem jt5 : (m.joint 5).jt = .helical := by decide +kernel
theorem jt6 : (m.joint 6).jt = .revoluteY := by decide +kernel
theorem jt7 : (m.joint 7).jt = .prismatic := by decide +kernel

theorem st_ok : StateOK m ExM.st := by
  intro i h1 h2
  rw [m_n] at h2
  obtain rfl | rfl | rfl | rfl | rfl | rfl | rfl :
    i = 1 ∨ i = 2 ∨ i = 3 ∨ i = 4 ∨ i = 5 ∨ i = 6 ∨ i = 7 := by omega
  · unfold ModelS.jointUnit; simp only [jt1]
  · unfold ModelS.jointUnit; simp only [jt2]
  · unfold ModelS.jointUnit; simp only [jt3]
  · unfold ModelS.jointUnit; simp only [jt4]; exact C16.Ex.cs_unit
  · unfold ModelS.jointUnit; simp only [jt5]; exact ⟨C16.Ex.cs_unit, by decide +kernel⟩
  · unfold ModelS.jointUnit; simp only [jt6]; exact C16.Ex.cs_unit
  · unfold ModelS.jointUnit; simp only [jt7]

theorem m_axes : L13.AxesOK m := by
  intro i h1 h2
  rw [m_n] at h2
  obtain rfl | rfl | rfl | rfl | rfl | rfl | rfl :
    i = 1 ∨ i = 2 ∨ i = 3 ∨ i = 4 ∨ i = 5 ∨ i = 6 ∨ i = 7 := by omega
  · exact ⟨fun h => absurd h (by decide +kernel), fun h => absurd h (by decide +kernel),
      fun h => absurd h (by decide +kernel)⟩
  · exact ⟨fun h => absurd h (by decide +kernel), fun h => absurd h (by decide +kernel),
      fun h => absurd h (by decide +kernel)⟩
  · exact ⟨fun h => absurd h (by decide +kernel), fun h => absurd h (by decide +kernel),
      fun h => absurd h (by decide +kernel)⟩
  · exact ⟨fun h => absurd h (by decide +kernel), fun h => absurd h (by decide +kernel),
      fun _ => by decide +kernel⟩
  · exact ⟨fun h => absurd h (by decide +kernel), fun h => absurd h (by decide +kernel),
      fun h => absurd h (by decide +kernel)⟩
  · exact ⟨fun h => absurd h (by decide +kernel), fun _ => by decide +kernel,
      fun h => absurd h (by decide +kernel)⟩
  · exact ⟨fun h => absurd h (by decide +kernel), fun h => absurd h (by decide +kernel),
      fun h => absurd h (by decide +kernel)⟩

def w0 : WS Rat := initWS m
def w1 : WS Rat := poison m w0 13
theorem w0_fixed : WSFixed m w0 := L13.wsfixed_initWS m m_axes
theorem w1_fixed : WSFixed m w1 := L13.wsfixed_poison m _ 13 w0_fixed

theorem m_ar : ∀ i, 1 ≤ i → i < m.nBodies → m.arity i = .one ∨ m.arity i = .three := by
  intro i h1 h2
  rw [m_n] at h2
  obtain rfl | rfl | rfl | rfl | rfl | rfl | rfl :
    i = 1 ∨ i = 2 ∨ i = 3 ∨ i = 4 ∨ i = 5 ∨ i = 6 ∨ i = 7 := by omega
  all_goals decide +kernel

theorem m_piv : ∀ i, 1 ≤ i → i < m.nBodies →
    L02.pivotOk m (forwardDynamics m w1 ExM.st Ex.qd LDynCap.exTau Ex.qdd (some Ex.fe)).1 i := by
  intro i h1 h2
  rw [m_n] at h2
  obtain rfl | rfl | rfl | rfl | rfl | rfl | rfl :
    i = 1 ∨ i = 2 ∨ i = 3 ∨ i = 4 ∨ i = 5 ∨ i = 6 ∨ i = 7 := by omega
  · exact L02.pivotOk_one _ _ 1 (by decide +kernel) (by decide +kernel)
  · exact L02.pivotOk_one _ _ 2 (by decide +kernel) (by decide +kernel)
  · exact L02.pivotOk_one _ _ 3 (by decide +kernel) (by decide +kernel)
  · exact L02.pivotOk_one _ _ 4 (by decide +kernel) (by decide +kernel)
  · exact L02.pivotOk_one _ _ 5 (by decide +kernel) (by decide +kernel)
  · exact L02.pivotOk_one _ _ 6 (by decide +kernel) (by decide +kernel)
  · exact L02.pivotOk_one _ _ 7 (by decide +kernel) (by decide +kernel)

end Rbdl.LCapMulti.Ex6
