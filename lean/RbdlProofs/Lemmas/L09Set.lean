import Rbdl.Constr
/-
  C09, part 1: bookkeeping of `CSet.addContact` / `CSet.addLoop` (grouping rule, rows, flag lists),
  the row-writing folds (`setRow` / `upd` over `zipIdx c.T`) and the Baumgarte term.
  Nothing here depends on the kinematics.
-/
set_option linter.unusedSectionVars false
namespace Rbdl.L09
open Lean.Grind Rbdl

section
variable {α : Type} [Field α] [DecidableEq α]

/-! ### number of rows -/

/-- total number of axes (rows) of a list of constraints -/
def rowsOf : List (Constr α) → Nat
  | [] => 0
  | c :: cs => c.T.length + rowsOf cs

theorem rowsOf_append (l1 l2 : List (Constr α)) : rowsOf (l1 ++ l2) = rowsOf l1 + rowsOf l2 := by
  induction l1 with
  | nil => simp [rowsOf]
  | cons c cs ih => simp only [List.cons_append, rowsOf, ih]; omega

theorem rowsOf_single (c : Constr α) : rowsOf [c] = c.T.length := by simp [rowsOf]

/-- replacing entry `k` by one with one more axis adds one row -/
theorem rowsOf_set (cs : List (Constr α)) (k : Nat) (c c' : Constr α) (hk : cs[k]? = some c)
    (hT : c'.T.length = c.T.length + 1) : rowsOf (cs.set k c') = rowsOf cs + 1 := by
  induction cs generalizing k with
  | nil => simp at hk
  | cons d ds ih =>
    cases k with
    | zero =>
      simp only [List.getElem?_cons_zero, Option.some.injEq] at hk
      subst hk
      simp only [List.set_cons_zero, rowsOf, hT]; omega
    | succ j =>
      simp only [List.getElem?_cons_succ] at hk
      simp only [List.set_cons_succ, rowsOf, ih j hk]; omega

theorem take_set_of_le (cs : List (Constr α)) (k i : Nat) (c' : Constr α) (h : i ≤ k) :
    (cs.set k c').take i = cs.take i := by
  induction cs generalizing k i with
  | nil => simp
  | cons d ds ih =>
    cases i with
    | zero => simp
    | succ i' =>
      cases k with
      | zero => omega
      | succ k' => simp only [List.set_cons_succ, List.take_succ_cons, ih k' i' (by omega)]

/-! ### the shape of one constraint -/

/-- the flag lists have the length of the axis list; contacts: all position flags `false`
    (zero position error as documented), loops: all `true`; all velocity flags `true`;
    a contact stores its point as the frame `(1, point)` and its normals as `(0, n)` -/
structure Shape (c : Constr α) : Prop where
  ne : c.T ≠ []
  pos : c.posC.length = c.T.length
  vel : c.velC.length = c.T.length
  posAll : ∀ b ∈ c.posC, b = (c.ctype == .loop)
  velAll : ∀ b ∈ c.velC, b = true
  contactE : c.ctype = .contact → c.XP.E = M3.one ∧ c.bodyS = 0 ∧ c.baumgarte = false
  contactT : c.ctype = .contact → ∀ t ∈ c.T, t.w = V3.zero

theorem Shape.posC_getD {c : Constr α} (h : Shape c) (i : Nat) (hi : i < c.T.length) :
    c.posC.getD i false = (c.ctype == .loop) := by
  have hl : i < c.posC.length := by rw [h.pos]; exact hi
  rw [List.getD_eq_getElem?_getD, List.getElem?_eq_getElem hl, Option.getD_some]
  exact h.posAll _ (List.getElem_mem hl)

theorem Shape.velC_getD {c : Constr α} (h : Shape c) (i : Nat) (hi : i < c.T.length) :
    c.velC.getD i false = true := by
  have hl : i < c.velC.length := by rw [h.vel]; exact hi
  rw [List.getD_eq_getElem?_getD, List.getElem?_eq_getElem hl, Option.getD_some]
  exact h.velAll _ (List.getElem_mem hl)

/-- the constraint `c` with one more axis -/
def extend (c : Constr α) (t : SV α) (p : Bool) : Constr α :=
  { c with T := c.T ++ [t], posC := c.posC ++ [p], velC := c.velC ++ [true] }

theorem extend_len (c : Constr α) (t : SV α) (p : Bool) :
    (extend c t p).T.length = c.T.length + 1 := by simp [extend]

theorem Shape.extend {c : Constr α} (h : Shape c) (t : SV α)
    (ht : c.ctype = .contact → t.w = V3.zero) : Shape (extend c t (c.ctype == .loop)) := by
  refine ⟨?_, ?_, ?_, ?_, ?_, h.contactE, ?_⟩
  · simp [L09.extend]
  · simp [L09.extend, h.pos]
  · simp [L09.extend, h.vel]
  · intro b hb
    simp only [L09.extend, List.mem_append, List.mem_singleton] at hb
    rcases hb with hb | hb
    · exact h.posAll b hb
    · exact hb
  · intro b hb
    simp only [L09.extend, List.mem_append, List.mem_singleton] at hb
    rcases hb with hb | hb
    · exact h.velAll b hb
    · exact hb
  · intro hc t' ht'
    simp only [L09.extend, List.mem_append, List.mem_singleton] at ht'
    rcases ht' with ht' | ht'
    · exact h.contactT hc t' ht'
    · subst ht'; exact ht hc

/-! ### `lastOf` -/

theorem lastOf_fold (t : CType) (l : List (Constr α)) (s : Nat) (acc : Option Nat) (k : Nat)
    (h : (l.zip (List.range' s l.length)).foldl
          (fun (acc : Option Nat) (p : Constr α × Nat) => if p.1.ctype = t then some p.2 else acc) acc
        = some k) :
    (acc = some k ∧ ∀ (j : Nat) (c : Constr α), l[j]? = some c → c.ctype ≠ t) ∨
    (∃ c, s ≤ k ∧ l[k - s]? = some c ∧ c.ctype = t ∧
      ∀ (j : Nat) (c' : Constr α), k - s < j → l[j]? = some c' → c'.ctype ≠ t) := by
  induction l generalizing s acc with
  | nil =>
    left
    exact ⟨h, fun j c hj => by simp at hj⟩
  | cons d ds ih =>
    simp only [List.length_cons, List.range'_succ, List.zip_cons_cons, List.foldl_cons] at h
    rcases ih (s + 1) _ h with ⟨h1, h2⟩ | ⟨c, hs, hc, hct, hlast⟩
    · by_cases hd : d.ctype = t
      · rw [if_pos hd] at h1
        right
        have hk : s = k := Option.some.inj h1
        refine ⟨d, by omega, ?_, hd, ?_⟩
        · rw [← hk, Nat.sub_self]; rfl
        · intro j c' hj hc'
          obtain ⟨j', rfl⟩ : ∃ j', j = j' + 1 := ⟨j - 1, by omega⟩
          rw [List.getElem?_cons_succ] at hc'
          exact h2 j' c' hc'
      · rw [if_neg hd] at h1
        left
        refine ⟨h1, fun j c hj => ?_⟩
        cases j with
        | zero =>
          simp only [List.getElem?_cons_zero, Option.some.injEq] at hj
          subst hj; exact hd
        | succ j' => exact h2 j' c hj
    · right
      refine ⟨c, by omega, ?_, hct, ?_⟩
      · have e : k - s = (k - (s + 1)) + 1 := by omega
        rw [e, List.getElem?_cons_succ]; exact hc
      · intro j c' hj hc'
        obtain ⟨j', rfl⟩ : ∃ j', j = j' + 1 := ⟨j - 1, by omega⟩
        rw [List.getElem?_cons_succ] at hc'
        exact hlast j' c' (by omega) hc'

/-- `lastOf` returns the index of the last constraint of the type -/
theorem lastOf_some (C : CSet α) (t : CType) (k : Nat) (h : C.lastOf t = some k) :
    ∃ c, C.cs[k]? = some c ∧ c.ctype = t ∧
      ∀ (j : Nat) (c' : Constr α), k < j → C.cs[j]? = some c' → c'.ctype ≠ t := by
  unfold CSet.lastOf zipIdx at h
  rw [List.range_eq_range'] at h
  rcases lastOf_fold t C.cs 0 none k h with ⟨h1, _⟩ | ⟨c, _, hc, hct, hl⟩
  · cases h1
  · exact ⟨c, by simpa using hc, hct, by simpa using hl⟩

theorem getD_of_getElem? (cs : List (Constr α)) (k : Nat) (c d : Constr α) (h : cs[k]? = some c) :
    cs.getD k d = c := by
  rw [List.getD_eq_getElem?_getD, h]; rfl

/-! ### the two additions, by cases -/

/-- the constraint `AddContactConstraint` creates -/
def freshContact (row body : Nat) (point normal : V3 α) (userId : Nat) : Constr α :=
  ⟨.contact, body, 0, ⟨M3.one, point⟩, ⟨M3.one, V3.zero⟩, [⟨V3.zero, normal⟩], row, false, 10, 10,
   [false], [true], userId⟩

/-- the constraint `AddLoopConstraint` creates -/
def freshLoop (row idP idS : Nat) (XP XS : XT α) (axis : SV α) (baumgarte : Bool) (tStabInv : α)
    (userId : Nat) : Constr α :=
  ⟨.loop, idP, idS, XP, XS, [axis], row, baumgarte, tStabInv, tStabInv, [true], [true], userId⟩

theorem shape_freshContact (row body : Nat) (point normal : V3 α) (userId : Nat) :
    Shape (freshContact row body point normal userId) := by
  refine ⟨by simp [freshContact], rfl, rfl, ?_, ?_, fun _ => ⟨rfl, rfl, rfl⟩, ?_⟩
  · intro b hb; simp only [freshContact, List.mem_singleton] at hb; subst hb; rfl
  · intro b hb; simp only [freshContact, List.mem_singleton] at hb; subst hb; rfl
  · intro _ t ht; simp only [freshContact, List.mem_singleton] at ht; subst ht; rfl

theorem shape_freshLoop (row idP idS : Nat) (XP XS : XT α) (axis : SV α) (bg : Bool) (ts : α)
    (userId : Nat) : Shape (freshLoop row idP idS XP XS axis bg ts userId) := by
  refine ⟨by simp [freshLoop], rfl, rfl, ?_, ?_, fun h => (by cases h), fun h => (by cases h)⟩
  · intro b hb; simp only [freshLoop, List.mem_singleton] at hb; subst hb; rfl
  · intro b hb; simp only [freshLoop, List.mem_singleton] at hb; subst hb; rfl

/-- `AddContactConstraint` either appends a fresh one-axis contact constraint at row `size`, or adds
    the normal to the last contact constraint of the list (same body, point, user id) **whose rows
    are the last rows of the system** -/
theorem addContact_cases (C : CSet α) (body : Nat) (point normal : V3 α) (userId : Nat) :
    C.addContact body point normal userId
        = ⟨C.cs ++ [freshContact C.size body point normal userId], C.size + 1⟩ ∨
    ∃ k c, C.lastOf .contact = some k ∧ C.cs[k]? = some c ∧ c.ctype = .contact ∧
      c.bodyP = body ∧ c.XP.r = point ∧ c.userId = userId ∧ c.row + c.T.length = C.size ∧
      C.addContact body point normal userId
        = ⟨C.cs.set k (extend c ⟨V3.zero, normal⟩ false), C.size + 1⟩ := by
  unfold CSet.addContact
  dsimp only
  cases hl : C.lastOf .contact with
  | none => left; rfl
  | some k =>
    obtain ⟨c, hc, hct, _⟩ := lastOf_some C .contact k hl
    dsimp only
    rw [getD_of_getElem? C.cs k c _ hc]
    split
    · rename_i hm
      right
      exact ⟨k, c, rfl, hc, hct, hm.1, hm.2.1, hm.2.2.1, hm.2.2.2, rfl⟩
    · left; rfl

/-- `AddLoopConstraint` likewise (same bodies, frames, user id) -/
theorem addLoop_cases (C : CSet α) (idP idS : Nat) (XP XS : XT α) (axis : SV α) (bg : Bool)
    (ts : α) (userId : Nat) :
    C.addLoop idP idS XP XS axis bg ts userId
        = ⟨C.cs ++ [freshLoop C.size idP idS XP XS axis bg ts userId], C.size + 1⟩ ∨
    ∃ k c, C.lastOf .loop = some k ∧ C.cs[k]? = some c ∧ c.ctype = .loop ∧
      c.bodyP = idP ∧ c.bodyS = idS ∧ c.XP = XP ∧ c.XS = XS ∧ c.userId = userId ∧
      c.row + c.T.length = C.size ∧
      C.addLoop idP idS XP XS axis bg ts userId
        = ⟨C.cs.set k (extend c axis true), C.size + 1⟩ := by
  unfold CSet.addLoop
  dsimp only
  cases hl : C.lastOf .loop with
  | none => left; rfl
  | some k =>
    obtain ⟨c, hc, hct, _⟩ := lastOf_some C .loop k hl
    dsimp only
    rw [getD_of_getElem? C.cs k c _ hc]
    split
    · rename_i hm
      right
      exact ⟨k, c, rfl, hc, hct, hm.1, hm.2.1, hm.2.2.1, hm.2.2.2.1, hm.2.2.2.2.1, hm.2.2.2.2.2, rfl⟩
    · left; rfl

/-! ### the invariants -/

/-- holds after **any** sequence of additions -/
structure Inv (C : CSet α) : Prop where
  size : C.size = rowsOf C.cs
  shape : ∀ c ∈ C.cs, Shape c

/-- rows are contiguous: constraint `i` starts at the number of rows before it -/
def Contig (C : CSet α) : Prop := ∀ i c, C.cs[i]? = some c → c.row = rowsOf (C.cs.take i)

theorem inv_empty : Inv (CSet.empty : CSet α) := ⟨rfl, fun c hc => by simp [CSet.empty] at hc⟩
theorem contig_empty : Contig (CSet.empty : CSet α) := fun i c h => by simp [CSet.empty] at h

theorem inv_append {C : CSet α} (h : Inv C) (f : Constr α) (hf : Shape f) (h1 : f.T.length = 1) :
    Inv ⟨C.cs ++ [f], C.size + 1⟩ := by
  refine ⟨?_, ?_⟩
  · show C.size + 1 = rowsOf (C.cs ++ [f])
    rw [rowsOf_append, rowsOf_single, h1, h.size]
  · intro c hc
    show Shape c
    have hc' : c ∈ C.cs ++ [f] := hc
    rw [List.mem_append, List.mem_singleton] at hc'
    rcases hc' with hc' | hc'
    · exact h.shape c hc'
    · subst hc'; exact hf

theorem inv_set {C : CSet α} (h : Inv C) (k : Nat) (c c' : Constr α) (hk : C.cs[k]? = some c)
    (hs : Shape c') (hT : c'.T.length = c.T.length + 1) : Inv ⟨C.cs.set k c', C.size + 1⟩ := by
  refine ⟨?_, ?_⟩
  · show C.size + 1 = rowsOf (C.cs.set k c')
    rw [rowsOf_set C.cs k c c' hk hT, h.size]
  · intro d hd
    have hd' : d ∈ C.cs.set k c' := hd
    rcases List.mem_or_eq_of_mem_set hd' with hd' | hd'
    · exact h.shape d hd'
    · subst hd'; exact hs

theorem contig_append {C : CSet α} (hI : Inv C) (h : Contig C) (f : Constr α)
    (hrow : f.row = C.size) : Contig ⟨C.cs ++ [f], C.size + 1⟩ := by
  intro i c hc
  have hc' : (C.cs ++ [f])[i]? = some c := hc
  show c.row = rowsOf ((C.cs ++ [f]).take i)
  by_cases hi : i < C.cs.length
  · rw [List.getElem?_append_left hi] at hc'
    rw [List.take_append_of_le_length (by omega)]
    exact h i c hc'
  · rw [List.getElem?_append_right (by omega)] at hc'
    have hi0 : i - C.cs.length = 0 := by
      rcases Nat.eq_zero_or_pos (i - C.cs.length) with h0 | h0
      · exact h0
      · obtain ⟨j, hj⟩ : ∃ j, i - C.cs.length = j + 1 := ⟨i - C.cs.length - 1, by omega⟩
        rw [hj] at hc'; simp at hc'
    rw [hi0] at hc'
    simp only [List.getElem?_cons_zero, Option.some.injEq] at hc'
    subst hc'
    have hi' : i = C.cs.length := by omega
    rw [hi', List.take_append_of_le_length (Nat.le_refl _), List.take_length, hrow, hI.size]

/-- merging into the **last** constraint of the list keeps the rows contiguous -/
theorem contig_set_last {C : CSet α} (h : Contig C) (k : Nat) (c c' : Constr α)
    (hk : C.cs[k]? = some c) (hlast : k + 1 = C.cs.length) (hrow : c'.row = c.row) :
    Contig ⟨C.cs.set k c', C.size + 1⟩ := by
  intro i d hd
  have hd' : (C.cs.set k c')[i]? = some d := hd
  show d.row = rowsOf ((C.cs.set k c').take i)
  have hik : i ≤ k := by
    have := (List.getElem?_eq_some_iff.mp hd').1
    rw [List.length_set] at this; omega
  rw [take_set_of_le C.cs k i c' hik]
  by_cases hik' : i = k
  · subst hik'
    rw [List.getElem?_set_self (by omega)] at hd'
    cases hd'
    rw [hrow]; exact h i c hk
  · rw [List.getElem?_set_ne (by omega)] at hd'
    exact h i d hd'

theorem rowsOf_take_succ (cs : List (Constr α)) (i : Nat) (c : Constr α) (h : cs[i]? = some c) :
    rowsOf (cs.take (i + 1)) = rowsOf (cs.take i) + c.T.length := by
  induction cs generalizing i with
  | nil => simp at h
  | cons d ds ih =>
    cases i with
    | zero =>
      simp only [List.getElem?_cons_zero, Option.some.injEq] at h
      subst h
      simp [rowsOf]
    | succ j =>
      simp only [List.getElem?_cons_succ] at h
      simp only [List.take_succ_cons, rowsOf, ih j h]; omega

theorem rowsOf_take_mono (cs : List (Constr α)) (i j : Nat) (h : i ≤ j) :
    rowsOf (cs.take i) ≤ rowsOf (cs.take j) := by
  induction cs generalizing i j with
  | nil => simp [rowsOf]
  | cons d ds ih =>
    cases i with
    | zero => simp [rowsOf]
    | succ i' =>
      cases j with
      | zero => omega
      | succ j' =>
        simp only [List.take_succ_cons, rowsOf]
        have := ih i' j' (by omega); omega

theorem rowsOf_take_le (cs : List (Constr α)) (i : Nat) : rowsOf (cs.take i) ≤ rowsOf cs := by
  by_cases h : i ≤ cs.length
  · have := rowsOf_take_mono cs i cs.length h
    rwa [List.take_length] at this
  · rw [List.take_of_length_le (by omega)]
    exact Nat.le_refl _

/-- with contiguous rows the row ranges of different constraints are disjoint and lie below `size` -/
theorem Contig.disjoint {C : CSet α} (h : Contig C) (hI : Inv C) (i j : Nat) (ci cj : Constr α)
    (hi : C.cs[i]? = some ci) (hj : C.cs[j]? = some cj) (hij : i < j) :
    ci.row + ci.T.length ≤ cj.row ∧ cj.row + cj.T.length ≤ C.size := by
  rw [h i ci hi, h j cj hj, ← rowsOf_take_succ C.cs i ci hi, ← rowsOf_take_succ C.cs j cj hj, hI.size]
  exact ⟨rowsOf_take_mono C.cs (i + 1) j (by omega), rowsOf_take_le C.cs (j + 1)⟩

/-! ### sequences of additions -/

/-- one call of `AddContactConstraint` / `AddLoopConstraint` -/
inductive Op (α : Type) where
  | contact (body : Nat) (point normal : V3 α) (userId : Nat)
  | loop (idP idS : Nat) (XP XS : XT α) (axis : SV α) (baumgarte : Bool) (tStabInv : α)
      (userId : Nat)

def step (C : CSet α) : Op α → CSet α
  | .contact b p n u => C.addContact b p n u
  | .loop i j XP XS a bg ts u => C.addLoop i j XP XS a bg ts u

/-- the constraint set after the calls `ops`, from the empty set -/
def run (ops : List (Op α)) : CSet α := ops.foldl step CSet.empty

theorem inv_step {C : CSet α} (h : Inv C) (op : Op α) : Inv (step C op) := by
  cases op with
  | contact b p n u =>
    show Inv (C.addContact b p n u)
    rcases addContact_cases C b p n u with e | ⟨k, c, _, hc, hct, _, _, _, _, e⟩
    · rw [e]; exact inv_append h _ (shape_freshContact _ _ _ _ _) rfl
    · rw [e]
      have hs := h.shape c (List.mem_of_getElem? hc)
      have hs' := hs.extend ⟨V3.zero, n⟩ (fun _ => rfl)
      rw [hct] at hs'
      exact inv_set h k c _ hc hs' (extend_len _ _ _)
  | loop i j XP XS a bg ts u =>
    show Inv (C.addLoop i j XP XS a bg ts u)
    rcases addLoop_cases C i j XP XS a bg ts u with e | ⟨k, c, _, hc, hct, _, _, _, _, _, _, e⟩
    · rw [e]; exact inv_append h _ (shape_freshLoop _ _ _ _ _ _ _ _ _) rfl
    · rw [e]
      have hs := h.shape c (List.mem_of_getElem? hc)
      have hs' := hs.extend a (fun hcc => by rw [hct] at hcc; cases hcc)
      rw [hct] at hs'
      exact inv_set h k c _ hc hs' (extend_len _ _ _)

theorem inv_foldl (ops : List (Op α)) (C : CSet α) (h : Inv C) : Inv (ops.foldl step C) := by
  induction ops generalizing C with
  | nil => exact h
  | cons op ops ih => exact ih _ (inv_step h op)

theorem size_step (C : CSet α) (op : Op α) : (step C op).size = C.size + 1 := by
  cases op with
  | contact b p n u =>
    show (C.addContact b p n u).size = _
    rcases addContact_cases C b p n u with e | ⟨k, c, _, _, _, _, _, _, _, e⟩ <;> rw [e]
  | loop i j XP XS a bg ts u =>
    show (C.addLoop i j XP XS a bg ts u).size = _
    rcases addLoop_cases C i j XP XS a bg ts u with e | ⟨k, c, _, _, _, _, _, _, _, _, _, e⟩ <;> rw [e]

theorem size_foldl (ops : List (Op α)) (C : CSet α) :
    (ops.foldl step C).size = C.size + ops.length := by
  induction ops generalizing C with
  | nil => rfl
  | cons op ops ih => rw [List.foldl_cons, ih, size_step, List.length_cons]; omega

theorem rowsOf_take_add_drop (cs : List (Constr α)) (i : Nat) :
    rowsOf cs = rowsOf (cs.take i) + rowsOf (cs.drop i) := by
  rw [← rowsOf_append, List.take_append_drop]

theorem rowsOf_pos (cs : List (Constr α)) (hne : ∀ c ∈ cs, c.T ≠ []) (h : cs ≠ []) :
    0 < rowsOf cs := by
  cases cs with
  | nil => exact absurd rfl h
  | cons d ds =>
    have := List.length_pos_iff.mpr (hne d List.mem_cons_self)
    simp only [rowsOf]; omega

/-- a constraint whose rows end at `size` is the last of the list -/
theorem last_of_rows_end {C : CSet α} (hI : Inv C) (h : Contig C) (k : Nat) (c : Constr α)
    (hk : C.cs[k]? = some c) (hend : c.row + c.T.length = C.size) : k + 1 = C.cs.length := by
  have hlt : k < C.cs.length := (List.getElem?_eq_some_iff.mp hk).1
  have e1 := rowsOf_take_succ C.cs k c hk
  have e2 := rowsOf_take_add_drop C.cs (k + 1)
  rw [h k c hk, hI.size] at hend
  have hz : rowsOf (C.cs.drop (k + 1)) = 0 := by omega
  by_cases hd : C.cs.drop (k + 1) = []
  · have := List.drop_eq_nil_iff.mp hd
    omega
  · have := rowsOf_pos (C.cs.drop (k + 1))
      (fun d hdm => (hI.shape d (List.mem_of_mem_drop hdm)).ne) hd
    omega

/-- contiguity is kept by every addition: a call is merged only into a constraint whose rows end at
    `size`, and such a constraint is the last of the list -/
theorem contig_step {C : CSet α} (hI : Inv C) (h : Contig C) (op : Op α) : Contig (step C op) := by
  cases op with
  | contact b p n u =>
    show Contig (C.addContact b p n u)
    rcases addContact_cases C b p n u with e | ⟨k, c, _, hc, _, _, _, _, hend, e⟩
    · rw [e]; exact contig_append hI h _ rfl
    · rw [e]
      exact contig_set_last h k c _ hc (last_of_rows_end hI h k c hc hend) rfl
  | loop i j XP XS a bg ts u =>
    show Contig (C.addLoop i j XP XS a bg ts u)
    rcases addLoop_cases C i j XP XS a bg ts u with e | ⟨k, c, _, hc, _, _, _, _, _, _, hend, e⟩
    · rw [e]; exact contig_append hI h _ rfl
    · rw [e]
      exact contig_set_last h k c _ hc (last_of_rows_end hI h k c hc hend) rfl

theorem contig_foldl (ops : List (Op α)) (C : CSet α) (hI : Inv C) (h : Contig C) :
    Contig (ops.foldl step C) := by
  induction ops generalizing C with
  | nil => exact h
  | cons op ops ih => exact ih _ (inv_step hI op) (contig_step hI h op)

/-- every row below the total belongs to (exactly one, by `Contig.disjoint`) constraint -/
theorem rows_cover (cs : List (Constr α)) (r : Nat) (hr : r < rowsOf cs) :
    ∃ i c, cs[i]? = some c ∧ rowsOf (cs.take i) ≤ r ∧ r < rowsOf (cs.take i) + c.T.length := by
  induction cs generalizing r with
  | nil => simp [rowsOf] at hr
  | cons d ds ih =>
    by_cases h : r < d.T.length
    · exact ⟨0, d, rfl, by simp [rowsOf], by simpa [rowsOf] using h⟩
    · simp only [rowsOf] at hr
      obtain ⟨i, c, hc, h1, h2⟩ := ih (r - d.T.length) (by omega)
      refine ⟨i + 1, c, by simpa using hc, ?_, ?_⟩
      · simp only [List.take_succ_cons, rowsOf]; omega
      · simp only [List.take_succ_cons, rowsOf]; omega

theorem Contig.cover {C : CSet α} (h : Contig C) (hI : Inv C) (r : Nat) (hr : r < C.size) :
    ∃ c ∈ C.cs, c.row ≤ r ∧ r < c.row + c.T.length := by
  rw [hI.size] at hr
  obtain ⟨i, c, hc, h1, h2⟩ := rows_cover C.cs r hr
  exact ⟨c, List.mem_of_getElem? hc, by rw [h i c hc]; exact h1, by rw [h i c hc]; exact h2⟩

/-! ### the row-writing folds -/

/-- the fold `for k < T.size(): e[row + k] = val k T[k]` over a vector -/
theorem updFold_get {β : Type} (T : List β) (s row : Nat) (val : β → Nat → α) (e : VecN α) (r : Nat) :
    (T.zip (List.range' s T.length)).foldl (fun e q => upd e (row + q.2) (val q.1 q.2)) e r
      = if h : row + s ≤ r ∧ r < row + s + T.length then val (T[r - row - s]'(by omega)) (r - row)
        else e r := by
  induction T generalizing s e with
  | nil =>
    simp only [List.length_nil, List.zip_nil_left, List.foldl_nil]
    rw [dif_neg (by omega)]
  | cons t ts ih =>
    simp only [List.length_cons, List.range'_succ, List.zip_cons_cons, List.foldl_cons]
    rw [ih]
    by_cases h1 : row + (s + 1) ≤ r ∧ r < row + (s + 1) + ts.length
    · rw [dif_pos h1, dif_pos (by omega)]
      congr 1
      have e1 : r - row - s = (r - row - (s + 1)) + 1 := by omega
      simp only [e1, List.getElem_cons_succ]
    · rw [dif_neg h1]
      by_cases h2 : r = row + s
      · subst h2
        rw [upd_same, dif_pos (by omega)]
        have e1 : row + s - row = s := by omega
        simp only [e1, Nat.sub_self, List.getElem_cons_zero]
      · rw [upd_other _ _ _ _ h2, dif_neg (by omega)]

/-- rows written by `for k: e[row + k] = val T[k] k` (as `zipIdx`) -/
theorem updRows_get {β : Type} (T : List β) (row : Nat) (val : β → Nat → α) (e : VecN α) (r : Nat) :
    (zipIdx T).foldl (fun e q => upd e (row + q.2) (val q.1 q.2)) e r
      = if h : row ≤ r ∧ r < row + T.length then val (T[r - row]'(by omega)) (r - row) else e r := by
  unfold zipIdx
  rw [List.range_eq_range', updFold_get]
  simp only [Nat.add_zero, Nat.sub_zero]

theorem setRowFold_get {β : Type} (T : List β) (s row nv : Nat) (val : β → Nat → Nat → α)
    (G : MatN α) (r col : Nat) :
    (T.zip (List.range' s T.length)).foldl
        (fun G q => setRow G (row + q.2) nv (val q.1 q.2)) G r col
      = if h : (row + s ≤ r ∧ r < row + s + T.length) ∧ col < nv
        then val (T[r - row - s]'(by omega)) (r - row) col else G r col := by
  induction T generalizing s G with
  | nil =>
    simp only [List.length_nil, List.zip_nil_left, List.foldl_nil]
    rw [dif_neg (by omega)]
  | cons t ts ih =>
    simp only [List.length_cons, List.range'_succ, List.zip_cons_cons, List.foldl_cons]
    rw [ih]
    by_cases h1 : (row + (s + 1) ≤ r ∧ r < row + (s + 1) + ts.length) ∧ col < nv
    · rw [dif_pos h1, dif_pos ⟨by omega, h1.2⟩]
      have e1 : r - row - s = (r - row - (s + 1)) + 1 := by omega
      simp only [e1, List.getElem_cons_succ]
    · rw [dif_neg h1]
      by_cases h2 : r = row + s ∧ col < nv
      · obtain ⟨h2, h3⟩ := h2
        subst h2
        rw [dif_pos ⟨by omega, h3⟩]
        have e1 : row + s - row = s := by omega
        simp only [setRow, h3, and_self, if_true, e1, Nat.sub_self, List.getElem_cons_zero]
      · rw [dif_neg (by omega)]
        unfold setRow
        rw [if_neg h2]

/-- rows written by `for k: G.row(row + k) = val T[k] k` -/
theorem setRows_get {β : Type} (T : List β) (row nv : Nat) (val : β → Nat → Nat → α)
    (G : MatN α) (r col : Nat) :
    (zipIdx T).foldl (fun G q => setRow G (row + q.2) nv (val q.1 q.2)) G r col
      = if h : (row ≤ r ∧ r < row + T.length) ∧ col < nv
        then val (T[r - row]'(by omega)) (r - row) col else G r col := by
  unfold zipIdx
  rw [List.range_eq_range', setRowFold_get]
  simp only [Nat.add_zero, Nat.sub_zero]

/-! ### Baumgarte -/

theorem bgFold_get (row : Nat) (f : Nat → α) (s n : Nat) (g : VecN α) (r : Nat) :
    (List.range' s n).foldl (fun g i => upd g (row + i) (g (row + i) + f (row + i))) g r
      = if row + s ≤ r ∧ r < row + s + n then g r + f r else g r := by
  induction n generalizing s g with
  | zero =>
    simp only [List.range'_zero, List.foldl_nil]
    rw [if_neg (by omega)]
  | succ n ih =>
    simp only [List.range'_succ, List.foldl_cons]
    rw [ih]
    by_cases h1 : row + (s + 1) ≤ r ∧ r < row + (s + 1) + n
    · rw [if_pos h1, if_pos (by omega), upd_other _ _ _ _ (by omega)]
    · rw [if_neg h1]
      by_cases h2 : r = row + s
      · subst h2; rw [upd_same, if_pos (by omega)]
      · rw [upd_other _ _ _ _ h2, if_neg (by omega)]

/-- `addInBaumgarteStabilizationForces`: on the constraint's own rows `−2 a errd − b² err` is added,
    every other row is unchanged; nothing happens when stabilisation is off -/
theorem addBaumgarte_get (c : Constr α) (err errd gam : VecN α) (r : Nat) :
    c.addBaumgarte err errd gam r
      = if c.baumgarte = true ∧ c.row ≤ r ∧ r < c.row + c.T.length
        then gam r + (-(2 * c.bgA * errd r) - c.bgB * c.bgB * err r) else gam r := by
  unfold Constr.addBaumgarte
  by_cases hb : c.baumgarte = true
  · rw [if_pos hb, List.range_eq_range',
      bgFold_get c.row (fun i => -(2 * c.bgA * errd i) - c.bgB * c.bgB * err i)]
    simp only [hb, true_and, Nat.add_zero]
  · rw [if_neg hb, if_neg (fun h => hb h.1)]

end
end Rbdl.L09
