import RbdlProofs.Lemmas.Kkt
import Mathlib.LinearAlgebra.Matrix.Notation
import Mathlib.Algebra.Order.Field.Rat
import Mathlib.Algebra.BigOperators.Fin
import Mathlib.Tactic.NormNum
import Mathlib.Tactic.FinCases
/-
  A concrete 3-dof / 2-constraint instance over ℚ used by the non-vacuity examples of C08 / C10 / C11.
-/
namespace Rbdl.Kkt.Ex
open Matrix

/-- joint-space inertia: symmetric positive definite, not diagonal -/
def H : Matrix (Fin 3) (Fin 3) ℚ := !![2, 1, 0; 1, 2, 0; 0, 0, 1]
def Hinv : Matrix (Fin 3) (Fin 3) ℚ := !![2/3, -1/3, 0; -1/3, 2/3, 0; 0, 0, 1]
/-- two independent constraints -/
def G : Matrix (Fin 2) (Fin 3) ℚ := !![1, 0, 0; 1, 1, 0]
def Y : Matrix (Fin 3) (Fin 2) ℚ := !![1, 0; 0, 1; 0, 0]
def Z : Matrix (Fin 3) (Fin 1) ℚ := !![0; 0; 1]
def N : Fin 3 → ℚ := ![1, 1, 0]
def tau : Fin 3 → ℚ := ![1, 1, 1]
def c : Fin 3 → ℚ := ![0, 0, 1]
def gamma : Fin 2 → ℚ := ![1, 0]
def qdd : Fin 3 → ℚ := ![1, -1, 1]
def lam : Fin 2 → ℚ := ![2, -1]
def qy : Fin 2 → ℚ := ![1, -1]
def qz : Fin 1 → ℚ := ![1]
/-- multiplier produced by the defective null-space formula (no transpose) -/
def lamBad : Fin 2 → ℚ := ![1, -2]

/-- a rational `L` (for the `LᵀL` form of the range-space method) and its inverse -/
def L : Matrix (Fin 3) (Fin 3) ℚ := !![1, 0, 0; 1, 1, 0; 0, 0, 1]
def Li : Matrix (Fin 3) (Fin 3) ℚ := !![1, 0, 0; -1, 1, 0; 0, 0, 1]
def lamL : Fin 2 → ℚ := ![1, 0]

/-- impulse data: `qm` violates the constraints, `qp` is the post-impact velocity -/
def qm : Fin 3 → ℚ := ![1, 1, 1]
def qp : Fin 3 → ℚ := ![0, 0, 1]
def Limp : Fin 2 → ℚ := ![0, 3]

/-- inverse dynamics data: coordinates 0 and 2 actuated, 1 passive, one constraint -/
def act : Fin 3 → Bool := ![true, false, true]
def S : Matrix (Fin 2) (Fin 3) ℚ := !![1, 0, 0; 0, 0, 1]
def P : Matrix (Fin 1) (Fin 3) ℚ := !![0, 1, 0]
def G1 : Matrix (Fin 1) (Fin 3) ℚ := !![1, 1, 0]
def N1 : Fin 3 → ℚ := ![1, 3, 0]
def qddDes : Fin 3 → ℚ := ![1, 5, 1]
def uu : Fin 2 → ℚ := ![1, 1]
def vv : Fin 1 → ℚ := ![-1]
def gamma1 : Fin 1 → ℚ := ![0]
def lam1 : Fin 1 → ℚ := ![2]
def f0 : Fin 1 → ℚ := ![-2]
def tau1 : Fin 3 → ℚ := ![0, 0, 1]

set_option linter.unnecessarySeqFocus false
set_option linter.unusedSimpArgs false

/-- evaluate a vector identity over `Fin 1/2/3` componentwise -/
macro "vec_eval" : tactic => `(tactic|
  (funext i; fin_cases i <;>
    simp only [Matrix.mulVec, Matrix.vecMul, dotProduct, Matrix.mul_apply, Matrix.transpose_apply,
      Fin.sum_univ_succ, Fin.sum_univ_zero, Pi.add_apply, Pi.sub_apply, Pi.neg_apply,
      Pi.zero_apply] <;>
    simp [H, Hinv, G, Y, Z, N, tau, c, gamma, qdd, lam, qy, qz, lamBad, L, Li, lamL, qm, qp, Limp,
      S, P, G1, N1, qddDes, uu, vv, gamma1, lam1, f0, tau1] <;> norm_num))

/-- evaluate a matrix identity over `Fin 1/2/3` entrywise -/
macro "mat_eval" : tactic => `(tactic|
  (ext i j; fin_cases i <;> fin_cases j <;>
    simp only [Matrix.mul_apply, Matrix.transpose_apply, Matrix.add_apply, Fin.sum_univ_succ,
      Fin.sum_univ_zero] <;>
    simp [H, Hinv, G, Y, Z, L, Li, S, P, G1] <;> norm_num))

theorem H_symm : H.IsSymm := by
  ext i j; fin_cases i <;> fin_cases j <;> simp [H]

theorem H_quad (x : Fin 3 → ℚ) :
    x ⬝ᵥ H *ᵥ x = x 0 ^ 2 + x 1 ^ 2 + (x 0 + x 1) ^ 2 + x 2 ^ 2 := by
  simp [H, Matrix.mulVec, dotProduct, Fin.sum_univ_succ]; ring

theorem H_pd : ∀ x : Fin 3 → ℚ, x ≠ 0 → 0 < x ⬝ᵥ H *ᵥ x := by
  intro x hx
  rw [H_quad]
  by_contra hle
  apply hx
  have h0 : x 0 = 0 := by nlinarith [sq_nonneg (x 0), sq_nonneg (x 1), sq_nonneg (x 0 + x 1), sq_nonneg (x 2)]
  have h1 : x 1 = 0 := by nlinarith [sq_nonneg (x 0), sq_nonneg (x 1), sq_nonneg (x 0 + x 1), sq_nonneg (x 2)]
  have h2 : x 2 = 0 := by nlinarith [sq_nonneg (x 0), sq_nonneg (x 1), sq_nonneg (x 0 + x 1), sq_nonneg (x 2)]
  funext i; fin_cases i <;> simp [h0, h1, h2]

theorem H_psd : ∀ x : Fin 3 → ℚ, 0 ≤ x ⬝ᵥ H *ᵥ x := by
  intro x; rw [H_quad]; positivity

theorem H_Hinv : H * Hinv = 1 := by
  ext i j; fin_cases i <;> fin_cases j <;> simp [H, Hinv, Matrix.mul_apply, Fin.sum_univ_succ] <;> norm_num

theorem G_inj : ∀ y : Fin 2 → ℚ, Gᵀ *ᵥ y = 0 → y = 0 := by
  intro y hy
  have e0 := congrFun hy 0
  have e1 := congrFun hy 1
  simp [G, Matrix.mulVec, dotProduct, Fin.sum_univ_succ] at e0 e1
  funext i; fin_cases i
  · simpa [e1] using e0
  · simpa using e1

theorem c_eq : c = tau - N := by
  funext i; fin_cases i <;> simp [c, tau, N]

theorem sol1 : H *ᵥ qdd + N = tau + Gᵀ *ᵥ lam := by
  funext i; fin_cases i <;> simp [H, G, N, tau, qdd, lam, Matrix.mulVec, dotProduct, Fin.sum_univ_succ] <;> norm_num

theorem sol1c : H *ᵥ qdd = c + Gᵀ *ᵥ lam := by
  funext i; fin_cases i <;> simp [H, G, c, qdd, lam, Matrix.mulVec, dotProduct, Fin.sum_univ_succ] <;> norm_num

theorem sol2 : G *ᵥ qdd = gamma := by
  funext i; fin_cases i <;> simp [G, gamma, qdd, Matrix.mulVec, dotProduct, Fin.sum_univ_succ]

/-! range-space data -/
theorem range_lam : (G * Hinv * Gᵀ) *ᵥ lam = gamma - G *ᵥ (Hinv *ᵥ c) := by vec_eval
theorem range_qdd : qdd = Hinv *ᵥ (c + Gᵀ *ᵥ lam) := by vec_eval
theorem L_Li : L * Li = 1 := by mat_eval
theorem Li_L : Li * L = 1 := by mat_eval
theorem ltl_lam :
    ((Liᵀ * Gᵀ)ᵀ * (Liᵀ * Gᵀ)) *ᵥ lamL = gamma - (Liᵀ * Gᵀ)ᵀ *ᵥ (Liᵀ *ᵥ c) := by vec_eval

/-! null-space data -/
theorem GZ : G * Z = 0 := by mat_eval
theorem YZ_inj : ∀ r : Fin 3 → ℚ, Yᵀ *ᵥ r = 0 → Zᵀ *ᵥ r = 0 → r = 0 := by
  intro r hY hZ
  have e0 := congrFun hY 0
  have e1 := congrFun hY 1
  have e2 := congrFun hZ 0
  simp [Y, Z, Matrix.mulVec, dotProduct, Fin.sum_univ_succ] at e0 e1 e2
  funext i; fin_cases i <;> simp [e0, e1, e2]
theorem Z_inj : ∀ w : Fin 1 → ℚ, Z *ᵥ w = 0 → w = 0 := by
  intro w hw
  have e2 := congrFun hw 2
  simp [Z, Matrix.mulVec, dotProduct] at e2
  funext i; fin_cases i; simpa using e2
theorem ns_qy : (G * Y) *ᵥ qy = gamma := by vec_eval
theorem ns_qz : (Zᵀ * H * Z) *ᵥ qz = Zᵀ *ᵥ (c - H *ᵥ (Y *ᵥ qy)) := by vec_eval
theorem ns_qdd : qdd = Y *ᵥ qy + Z *ᵥ qz := by vec_eval
theorem ns_lam : (G * Y)ᵀ *ᵥ lam = Yᵀ *ᵥ (H *ᵥ qdd - c) := by vec_eval
theorem ns_lamBad : (G * Y) *ᵥ lamBad = Yᵀ *ᵥ (H *ᵥ qdd - c) := by vec_eval
theorem bad_fails : H *ᵥ qdd ≠ c + Gᵀ *ᵥ lamBad := by
  intro h
  have e0 := congrFun h 0
  simp [H, G, c, qdd, lamBad, Matrix.mulVec, dotProduct, Fin.sum_univ_succ] at e0
  norm_num at e0

/-! impulse data -/
theorem imp_rel : H *ᵥ (qp - qm) + Gᵀ *ᵥ Limp = 0 := by vec_eval
theorem imp_G : G *ᵥ qp = 0 := by vec_eval

/-! inverse-dynamics data -/
theorem SP_part : Sᵀ * S + Pᵀ * P = 1 := by mat_eval
theorem S_St : S * Sᵀ = 1 := by mat_eval
theorem P_Pt : P * Pᵀ = 1 := by mat_eval
theorem S_Pt : S * Pᵀ = 0 := by mat_eval
theorem idc_u : uu = S *ᵥ qddDes := by vec_eval
theorem idc_v : (G1 * Pᵀ) *ᵥ vv = gamma1 - (G1 * Sᵀ) *ᵥ uu := by vec_eval
theorem idc_qdd : qdd = Sᵀ *ᵥ uu + Pᵀ *ᵥ vv := by vec_eval
theorem idc_lam : (P * G1ᵀ) *ᵥ lam1 = P *ᵥ (H *ᵥ qdd + N1) := by vec_eval
theorem idc_tau : tau1 = Sᵀ *ᵥ (S *ᵥ (H *ᵥ qdd + N1 - G1ᵀ *ᵥ lam1)) := by vec_eval
theorem idc_v_code : (P * G1ᵀ)ᵀ *ᵥ vv = gamma1 - (S * G1ᵀ)ᵀ *ᵥ uu := by vec_eval
theorem idc_f0 :
    (P * G1ᵀ) *ᵥ f0 = -(P *ᵥ N1) - (P * H * Sᵀ) *ᵥ uu - (P * H * Pᵀ) *ᵥ vv := by vec_eval
theorem idc_force : lam1 = -f0 := by vec_eval
theorem idc_tau_code : tau1 = -(Sᵀ *ᵥ (-(S *ᵥ N1) -
    ((S * H * Sᵀ) *ᵥ uu + (S * H * Pᵀ) *ᵥ vv - (S * G1ᵀ) *ᵥ lam1))) := by vec_eval
theorem card_act_true : (actSet act true).card = 2 := by decide
theorem card_act_false : (actSet act false).card = 1 := by decide
theorem GPt_inj : ∀ v : Fin 1 → ℚ, (G1 * Pᵀ) *ᵥ v = 0 → v = 0 := by
  intro v hv
  have e0 := congrFun hv 0
  simp [G1, P, Matrix.mulVec, dotProduct, Matrix.mul_apply, Fin.sum_univ_succ] at e0
  funext i; fin_cases i; simpa using e0

end Rbdl.Kkt.Ex
