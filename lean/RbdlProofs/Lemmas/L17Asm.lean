import RbdlProofs.Lemmas.L17
/-
  C17 helper lemmas, part 3 (core Lean only): `CalcAssemblyQ` — one pass as a case distinction, the
  error stored in the state is the error recomputed at the stored configuration, sizes, and the
  renormalised quaternions of the spherical joints.
-/
namespace Rbdl.L17
open Lean.Grind Rbdl Rbdl.Iter
set_option linter.unusedSectionVars false

/-! ### `forUp` -/

section forup
variable {σ : Type}

theorem forUp_inv_range (P : σ → Prop) (body : Nat → σ → σ) (n lo : Nat) (s : σ)
    (h : ∀ i s, lo ≤ i → i < lo + n → P s → P (body i s)) (h0 : P s) : P (forUp n lo body s) := by
  induction n generalizing lo s with
  | zero => exact h0
  | succ k ih =>
    simp only [forUp]
    exact ih (lo+1) (body lo s) (fun i s hi1 hi2 => h i s (by omega) (by omega))
      (h lo s (Nat.le_refl _) (by omega) h0)

theorem forUp_split (body : Nat → σ → σ) (a b lo : Nat) (s : σ) :
    forUp (a + b) lo body s = forUp b (lo + a) body (forUp a lo body s) := by
  induction a generalizing lo s with
  | zero => simp [forUp]
  | succ k ih =>
    have e : k + 1 + b = (k + b) + 1 := by omega
    rw [e]
    simp only [forUp]
    rw [ih (lo+1) (body lo s)]
    have e2 : lo + 1 + k = lo + (k + 1) := by omega
    rw [e2]

end forup

section asm
variable {α : Type} [Field α] [DecidableEq α] [LT α] [DecidableLT α]

/-! ### one pass of `CalcAssemblyQ` -/

/-- `CalcConstraintsJacobian (model, QInit, cs, constraintJac)` in state `s`: (workspace, `G`) -/
def asmG (trig : α → α × α) (m : ModelS α) (C : CSet α) (s : AsmState α) : WS α × MatN α :=
  calcConstraintsJacobian m s.w (mkQS trig (vecOf s.Q)) C (fun _ _ => 0) true

/-- the step `d`: first `dof_count` entries of the black-box solution of `A x = [0; -e]` -/
def asmD (solve : Solver α) (trig : α → α × α) (m : ModelS α) (C : CSet α) (wts : VecN α)
    (s : AsmState α) : VecN α :=
  let nv := m.dofCount
  let x := vecOf (solve (nv + C.size) (kktMatrix nv wts (asmG trig m C s).2)
    (fun r => if r < nv then 0 else -(s.e (r - nv))))
  fun i => if i < nv then x i else 0

/-- the updated configuration -/
def asmQ' (solve : Solver α) (sqrt : α → α) (trig : α → α × α) (m : ModelS α) (C : CSet α)
    (wts : VecN α) (s : AsmState α) : List α :=
  assemblyUpdate sqrt m (asmD solve trig m C wts s) s.Q

/-- the workspace in which the error is re-evaluated -/
def asmW' (trig : α → α × α) (m : ModelS α) (C : CSet α) (s : AsmState α) : WS α := (asmG trig m C s).1

theorem asmBody_eq (solve : Solver α) (sqrt : α → α) (trig : α → α × α) (m : ModelS α) (C : CSet α)
    (wts : VecN α) (tol : α) (s : AsmState α) :
    asmBody solve sqrt trig m C wts tol s =
      let Q' := asmQ' solve sqrt trig m C wts s
      let d := asmD solve trig m C wts s
      let we := calcConstraintsPositionError m (asmW' trig m C s) (mkQS trig (vecOf Q')) C s.e true
      if normLt (sqNorm C.size (asmError trig m (asmW' trig m C s) C s.e Q')) tol ∧
         normLt (sqNorm m.dofCount d) tol then .done ⟨we.1, Q', asmError trig m (asmW' trig m C s) C s.e Q', d⟩
      else .next ⟨we.1, Q', asmError trig m (asmW' trig m C s) C s.e Q', d⟩ := rfl

/-- after every pass (whichever way it ends) the stored error is the error recomputed at the stored
    configuration, and the stored configuration is the update of the previous one -/
theorem asmBody_state (solve : Solver α) (sqrt : α → α) (trig : α → α × α) (m : ModelS α) (C : CSet α)
    (wts : VecN α) (tol : α) (s s' : AsmState α)
    (h : asmBody solve sqrt trig m C wts tol s = .done s' ∨ asmBody solve sqrt trig m C wts tol s = .next s') :
    s'.Q = asmQ' solve sqrt trig m C wts s ∧
    s'.e = asmError trig m (asmW' trig m C s) C s.e s'.Q ∧
    s'.d = asmD solve trig m C wts s := by
  rw [asmBody_eq] at h
  simp only at h
  split at h
  · rcases h with h | h
    · cases h; exact ⟨rfl, rfl, rfl⟩
    · cases h
  · rcases h with h | h
    · cases h
    · cases h; exact ⟨rfl, rfl, rfl⟩

theorem asmBody_done (solve : Solver α) (sqrt : α → α) (trig : α → α × α) (m : ModelS α) (C : CSet α)
    (wts : VecN α) (tol : α) (s s' : AsmState α)
    (h : asmBody solve sqrt trig m C wts tol s = .done s') :
    normLt (sqNorm C.size s'.e) tol ∧ normLt (sqNorm m.dofCount s'.d) tol := by
  rw [asmBody_eq] at h
  simp only at h
  split at h
  · next h1 => cases h; exact h1
  · cases h

theorem asmBody_next (solve : Solver α) (sqrt : α → α) (trig : α → α × α) (m : ModelS α) (C : CSet α)
    (wts : VecN α) (tol : α) (s s' : AsmState α)
    (h : asmBody solve sqrt trig m C wts tol s = .next s') :
    ¬ (normLt (sqNorm C.size s'.e) tol ∧ normLt (sqNorm m.dofCount s'.d) tol) := by
  rw [asmBody_eq] at h
  simp only at h
  split at h
  · cases h
  · next h1 => cases h; exact h1

/-! ### sizes -/

theorem assemblyJointUpdate_length (sqrt : α → α) (m : ModelS α) (d : VecN α) (i : Nat) (Q : List α) :
    (assemblyJointUpdate sqrt m d i Q).length = Q.length := by
  unfold assemblyJointUpdate
  simp only
  split
  · simp [setQuaternionL]
  · apply forUp_inv_range (fun (Q' : List α) => Q'.length = Q.length)
    · intro z Q' _ _ hq
      show (List.set _ _ _).length = _
      rw [List.length_set]; exact hq
    · rfl

theorem assemblyUpdate_length (sqrt : α → α) (m : ModelS α) (d : VecN α) (Q : List α) :
    (assemblyUpdate sqrt m d Q).length = Q.length := by
  unfold assemblyUpdate
  apply forUp_inv_range (fun (Q' : List α) => Q'.length = Q.length)
  · intro i Q' _ _ hq
    show (assemblyJointUpdate sqrt m d i Q').length = _
    rw [assemblyJointUpdate_length]; exact hq
  · rfl

/-! ### the quaternion update -/

/-- `quat + quat.omegaToQDot(omega)`, the quaternion before normalisation -/
def quatPre (quat : Quat α) (omega : V3 α) : Quat α :=
  let dq := quat.omegaToQDot omega
  ⟨quat.x + dq.x, quat.y + dq.y, quat.z + dq.z, quat.w + dq.w⟩

theorem quatStep_eq (sqrt : α → α) (quat : Quat α) (omega : V3 α) :
    quatStep sqrt quat omega =
      ⟨(quatPre quat omega).x / sqrt (quatPre quat omega).nrm2,
       (quatPre quat omega).y / sqrt (quatPre quat omega).nrm2,
       (quatPre quat omega).z / sqrt (quatPre quat omega).nrm2,
       (quatPre quat omega).w / sqrt (quatPre quat omega).nrm2⟩ := rfl

/-- dividing by a non-zero root of the squared norm gives a unit quaternion -/
theorem nrm2_div_root (p : Quat α) (r : α) (hr : r * r = p.nrm2) (h0 : r ≠ 0) :
    (⟨p.x / r, p.y / r, p.z / r, p.w / r⟩ : Quat α).nrm2 = 1 := by
  simp only [Quat.nrm2] at *
  have h2 : r * r ≠ 0 := by
    intro h
    have := Field.mul_inv_cancel h0
    grind
  grind

/-- the normalisation step of `CalcAssemblyQ` returns a unit quaternion PROVIDED the square root it
    divides by is a non-zero root of the squared norm at that argument -/
theorem quatStep_unit (sqrt : α → α) (quat : Quat α) (omega : V3 α)
    (hr : sqrt (quatPre quat omega).nrm2 * sqrt (quatPre quat omega).nrm2 = (quatPre quat omega).nrm2)
    (h0 : sqrt (quatPre quat omega).nrm2 ≠ 0) : (quatStep sqrt quat omega).nrm2 = 1 := by
  rw [quatStep_eq]; exact nrm2_div_root _ _ hr h0

/-! ### the quaternions inside the configuration vector -/

/-- the entries of the configuration vector that the update of joint `j` writes -/
def slots (m : ModelS α) (j : Nat) : List Nat :=
  if (m.joint j).jt = .spherical then
    [(m.joint j).qIndex, (m.joint j).qIndex + 1, (m.joint j).qIndex + 2, m.w3 j]
  else (List.range (m.joint j).dof).map (fun z => (m.joint j).qIndex + z)

theorem getD_set_ne (l : List α) (i a : Nat) (x : α) (h : a ≠ i) : (l.set i x).getD a 0 = l.getD a 0 := by
  simp [List.getD_eq_getElem?_getD, Ne.symm h]

theorem getD_set_eq (l : List α) (i : Nat) (x : α) (h : i < l.length) : (l.set i x).getD i 0 = x := by
  simp [List.getD_eq_getElem?_getD, h]

/-- the update of joint `j` leaves every entry outside its slots alone -/
theorem jointUpdate_other (sqrt : α → α) (m : ModelS α) (d : VecN α) (j : Nat) (Q : List α) (a : Nat)
    (ha : a ∉ slots m j) : (assemblyJointUpdate sqrt m d j Q).getD a 0 = Q.getD a 0 := by
  unfold slots at ha
  unfold assemblyJointUpdate
  simp only
  split
  · next hs =>
    rw [if_pos hs] at ha
    simp only [List.mem_cons, List.not_mem_nil, or_false, _root_.not_or] at ha
    obtain ⟨h0, h1, h2, h3⟩ := ha
    simp only [setQuaternionL]
    rw [getD_set_ne _ _ _ _ h3, getD_set_ne _ _ _ _ h2, getD_set_ne _ _ _ _ h1, getD_set_ne _ _ _ _ h0]
  · next hs =>
    rw [if_neg hs] at ha
    apply forUp_inv_range (fun (Q' : List α) => Q'.getD a 0 = Q.getD a 0)
    · intro z Q' _ hz hq
      show (List.set _ _ _).getD a 0 = _
      rw [getD_set_ne _ _ _ _ (by
        intro e; apply ha; rw [e]
        exact List.mem_map.mpr ⟨z, List.mem_range.mpr (by omega), rfl⟩)]
      exact hq
    · rfl

/-- the update of a spherical joint replaces its quaternion by `quatStep` of it -/
theorem jointUpdate_quat (sqrt : α → α) (m : ModelS α) (d : VecN α) (i : Nat) (Q : List α)
    (hs : (m.joint i).jt = .spherical)
    (hlen : ∀ a ∈ slots m i, a < Q.length)
    (hw : m.w3 i ≠ (m.joint i).qIndex ∧ m.w3 i ≠ (m.joint i).qIndex + 1 ∧ m.w3 i ≠ (m.joint i).qIndex + 2) :
    getQuaternionL m i (assemblyJointUpdate sqrt m d i Q) =
      quatStep sqrt (getQuaternionL m i Q)
        ⟨d (m.joint i).qIndex, d ((m.joint i).qIndex + 1), d ((m.joint i).qIndex + 2)⟩ := by
  unfold slots at hlen
  rw [if_pos hs] at hlen
  have l0 := hlen (m.joint i).qIndex (by simp)
  have l1 := hlen ((m.joint i).qIndex + 1) (by simp)
  have l2 := hlen ((m.joint i).qIndex + 2) (by simp)
  have l3 := hlen (m.w3 i) (by simp)
  obtain ⟨w0, w1, w2⟩ := hw
  unfold assemblyJointUpdate
  simp only [if_pos hs]
  generalize quatStep sqrt (getQuaternionL m i Q) _ = p
  simp only [getQuaternionL, setQuaternionL]
  have ex : ((((Q.set (m.joint i).qIndex p.x).set ((m.joint i).qIndex + 1) p.y).set ((m.joint i).qIndex + 2) p.z).set
      (m.w3 i) p.w).getD (m.joint i).qIndex 0 = p.x := by
    rw [getD_set_ne _ _ _ _ (Ne.symm w0), getD_set_ne _ _ _ _ (by omega), getD_set_ne _ _ _ _ (by omega),
      getD_set_eq _ _ _ l0]
  have ey : ((((Q.set (m.joint i).qIndex p.x).set ((m.joint i).qIndex + 1) p.y).set ((m.joint i).qIndex + 2) p.z).set
      (m.w3 i) p.w).getD ((m.joint i).qIndex + 1) 0 = p.y := by
    rw [getD_set_ne _ _ _ _ (Ne.symm w1), getD_set_ne _ _ _ _ (by omega),
      getD_set_eq _ _ _ (by simpa using l1)]
  have ez : ((((Q.set (m.joint i).qIndex p.x).set ((m.joint i).qIndex + 1) p.y).set ((m.joint i).qIndex + 2) p.z).set
      (m.w3 i) p.w).getD ((m.joint i).qIndex + 2) 0 = p.z := by
    rw [getD_set_ne _ _ _ _ (Ne.symm w2), getD_set_eq _ _ _ (by simpa using l2)]
  have ew : ((((Q.set (m.joint i).qIndex p.x).set ((m.joint i).qIndex + 1) p.y).set ((m.joint i).qIndex + 2) p.z).set
      (m.w3 i) p.w).getD (m.w3 i) 0 = p.w := by
    rw [getD_set_eq _ _ _ (by simpa using l3)]
  rw [ex, ey, ez, ew]

/-- `GetQuaternion` of a spherical joint reads its four slots and nothing else -/
theorem getQuaternionL_congr (m : ModelS α) (i : Nat) (Q Q' : List α) (hs : (m.joint i).jt = .spherical)
    (h : ∀ a ∈ slots m i, Q'.getD a 0 = Q.getD a 0) : getQuaternionL m i Q' = getQuaternionL m i Q := by
  unfold slots at h
  rw [if_pos hs] at h
  simp only [getQuaternionL]
  rw [h _ (by simp), h ((m.joint i).qIndex + 1) (by simp), h ((m.joint i).qIndex + 2) (by simp),
    h (m.w3 i) (by simp)]

/-- "Update solution" (all joints, in order): the quaternion of the spherical joint `i` is replaced by
    `quatStep` of it, provided the slots of joint `i` are four different entries of the vector and no
    other joint writes to them (both follow from the structural invariant of `Model`; they are stated
    here as they are used) -/
theorem assemblyUpdate_quat (sqrt : α → α) (m : ModelS α) (d : VecN α) (i : Nat) (Q : List α)
    (hi : i < m.joints.length) (hs : (m.joint i).jt = .spherical)
    (hlen : ∀ a ∈ slots m i, a < Q.length)
    (hw : m.w3 i ≠ (m.joint i).qIndex ∧ m.w3 i ≠ (m.joint i).qIndex + 1 ∧ m.w3 i ≠ (m.joint i).qIndex + 2)
    (hdisj : ∀ j, j < m.joints.length → j ≠ i → ∀ a ∈ slots m i, a ∉ slots m j) :
    getQuaternionL m i (assemblyUpdate sqrt m d Q) =
      quatStep sqrt (getQuaternionL m i Q)
        ⟨d (m.joint i).qIndex, d ((m.joint i).qIndex + 1), d ((m.joint i).qIndex + 2)⟩ := by
  unfold assemblyUpdate
  have e : m.joints.length = i + (1 + (m.joints.length - i - 1)) := by omega
  rw [e, forUp_split, forUp_split]
  -- the joints before `i`
  have hQ1 : (∀ a ∈ slots m i, (forUp i 0 (assemblyJointUpdate sqrt m d) Q).getD a 0 = Q.getD a 0) ∧
      (forUp i 0 (assemblyJointUpdate sqrt m d) Q).length = Q.length := by
    apply forUp_inv_range (fun (Q' : List α) => (∀ a ∈ slots m i, Q'.getD a 0 = Q.getD a 0) ∧ Q'.length = Q.length)
    · intro j Q' _ hj hq
      refine ⟨fun a ha => ?_, ?_⟩
      · show (assemblyJointUpdate sqrt m d j Q').getD a 0 = _
        rw [jointUpdate_other sqrt m d j Q' a (hdisj j (by omega) (by omega) a ha)]
        exact hq.1 a ha
      · show (assemblyJointUpdate sqrt m d j Q').length = _
        rw [assemblyJointUpdate_length]; exact hq.2
    · exact ⟨fun _ _ => rfl, rfl⟩
  generalize forUp i 0 (assemblyJointUpdate sqrt m d) Q = Q1 at hQ1
  -- joint `i`
  have hQ2 : getQuaternionL m i (forUp 1 (0 + i) (assemblyJointUpdate sqrt m d) Q1) =
      quatStep sqrt (getQuaternionL m i Q)
        ⟨d (m.joint i).qIndex, d ((m.joint i).qIndex + 1), d ((m.joint i).qIndex + 2)⟩ := by
    simp only [forUp, Nat.zero_add]
    rw [jointUpdate_quat sqrt m d i Q1 hs (fun a ha => by rw [hQ1.2]; exact hlen a ha) hw,
      getQuaternionL_congr m i Q Q1 hs hQ1.1]
  generalize forUp 1 (0 + i) (assemblyJointUpdate sqrt m d) Q1 = Q2 at hQ2
  -- the joints after `i`
  rw [← hQ2]
  apply getQuaternionL_congr m i Q2 _ hs
  apply forUp_inv_range (fun (Q' : List α) => ∀ a ∈ slots m i, Q'.getD a 0 = Q2.getD a 0)
  · intro j Q' hj1 hj2 hq a ha
    show (assemblyJointUpdate sqrt m d j Q').getD a 0 = _
    rw [jointUpdate_other sqrt m d j Q' a (hdisj j (by omega) (by omega) a ha)]
    exact hq a ha
  · exact fun _ _ => rfl

/-- … hence a unit quaternion after the update, under the square-root hypothesis at that argument -/
theorem assemblyUpdate_unit (sqrt : α → α) (m : ModelS α) (d : VecN α) (i : Nat) (Q : List α)
    (hi : i < m.joints.length) (hs : (m.joint i).jt = .spherical)
    (hlen : ∀ a ∈ slots m i, a < Q.length)
    (hw : m.w3 i ≠ (m.joint i).qIndex ∧ m.w3 i ≠ (m.joint i).qIndex + 1 ∧ m.w3 i ≠ (m.joint i).qIndex + 2)
    (hdisj : ∀ j, j < m.joints.length → j ≠ i → ∀ a ∈ slots m i, a ∉ slots m j)
    (p : Quat α)
    (hp : p = quatPre (getQuaternionL m i Q)
      ⟨d (m.joint i).qIndex, d ((m.joint i).qIndex + 1), d ((m.joint i).qIndex + 2)⟩)
    (hr : sqrt p.nrm2 * sqrt p.nrm2 = p.nrm2) (h0 : sqrt p.nrm2 ≠ 0) :
    (getQuaternionL m i (assemblyUpdate sqrt m d Q)).nrm2 = 1 := by
  subst hp
  rw [assemblyUpdate_quat sqrt m d i Q hi hs hlen hw hdisj]
  exact quatStep_unit sqrt _ _ hr h0

end asm
end Rbdl.L17
