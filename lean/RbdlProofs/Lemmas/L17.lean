import Rbdl.Iter
/-
  C17 helper lemmas, part 1 (core Lean only): the generic loop `runLoop`, the squared-norm test
  `normLt`, and the bodies of the four modelled solvers.
-/
namespace Rbdl.L17
open Lean.Grind Rbdl Rbdl.Iter

/-! ### `runLoop` -/

section loop
variable {σ : Type}

/-- `Reach body k it s s'`: `k` consecutive passes starting with pass number `it` in state `s` all fall
    through (`Exit.next`) and leave the state `s'`. -/
inductive Reach (body : Nat → σ → Exit σ) : Nat → Nat → σ → σ → Prop where
  | zero (it : Nat) (s : σ) : Reach body 0 it s s
  | succ {k it : Nat} {s s1 s' : σ} : body it s = .next s1 → Reach body k (it+1) s1 s' →
      Reach body (k+1) it s s'

theorem runLoop_zero (body : Nat → σ → Exit σ) (it : Nat) (s : σ) :
    runLoop body 0 it s = (false, it, s) := rfl

theorem runLoop_done (body : Nat → σ → Exit σ) (f it : Nat) (s s' : σ) (h : body it s = .done s') :
    runLoop body (f+1) it s = (true, it, s') := by
  simp [runLoop, h]

theorem runLoop_next (body : Nat → σ → Exit σ) (f it : Nat) (s s' : σ) (h : body it s = .next s') :
    runLoop body (f+1) it s = runLoop body f (it+1) s' := by
  simp [runLoop, h]

/-- success: after `n - it` passes that fell through, pass number `n < it + fuel` left by `return true` -/
theorem runLoop_true (body : Nat → σ → Exit σ) (fuel it : Nat) (s : σ) (n : Nat) (s' : σ)
    (h : runLoop body fuel it s = (true, n, s')) :
    it ≤ n ∧ n < it + fuel ∧ ∃ sp, Reach body (n - it) it s sp ∧ body n sp = .done s' := by
  induction fuel generalizing it s with
  | zero => simp [runLoop] at h
  | succ f ih =>
    cases hb : body it s with
    | done s1 =>
      rw [runLoop_done body f it s s1 hb] at h
      simp only [Prod.mk.injEq, true_and] at h
      obtain ⟨rfl, rfl⟩ := h
      refine ⟨Nat.le_refl _, by omega, s, ?_, hb⟩
      rw [Nat.sub_self]; exact Reach.zero _ _
    | next s1 =>
      rw [runLoop_next body f it s s1 hb] at h
      obtain ⟨h1, h2, sp, hr, hd⟩ := ih (it+1) s1 h
      refine ⟨by omega, by omega, sp, ?_, hd⟩
      have e : n - it = (n - (it+1)) + 1 := by omega
      rw [e]; exact Reach.succ hb hr

/-- failure: all `fuel` passes fell through; the returned state is the last iterate -/
theorem runLoop_false (body : Nat → σ → Exit σ) (fuel it : Nat) (s : σ) (n : Nat) (s' : σ)
    (h : runLoop body fuel it s = (false, n, s')) :
    n = it + fuel ∧ Reach body fuel it s s' := by
  induction fuel generalizing it s with
  | zero =>
    simp only [runLoop, Prod.mk.injEq, true_and] at h
    obtain ⟨rfl, rfl⟩ := h
    exact ⟨rfl, Reach.zero _ _⟩
  | succ f ih =>
    cases hb : body it s with
    | done s1 => rw [runLoop_done body f it s s1 hb] at h; simp at h
    | next s1 =>
      rw [runLoop_next body f it s s1 hb] at h
      obtain ⟨h1, hr⟩ := ih (it+1) s1 h
      exact ⟨by omega, Reach.succ hb hr⟩

/-- an invariant of the fall-through transitions holds along `Reach` -/
theorem Reach.inv {body : Nat → σ → Exit σ} (P : σ → Prop)
    (hstep : ∀ it s s1, P s → body it s = .next s1 → P s1)
    {k it : Nat} {s s' : σ} (hr : Reach body k it s s') (h0 : P s) : P s' := by
  induction hr with
  | zero => exact h0
  | succ hb _ ih => exact ih (hstep _ _ _ h0 hb)

/-- whatever the loop returns satisfies every invariant that both kinds of transition preserve -/
theorem runLoop_inv (body : Nat → σ → Exit σ) (P : σ → Prop)
    (hnext : ∀ it s s1, P s → body it s = .next s1 → P s1)
    (hdone : ∀ it s s1, P s → body it s = .done s1 → P s1)
    (fuel it : Nat) (s : σ) (h0 : P s) : P (runLoop body fuel it s).2.2 := by
  induction fuel generalizing it s with
  | zero => exact h0
  | succ f ih =>
    cases hb : body it s with
    | done s1 => rw [runLoop_done body f it s s1 hb]; exact hdone _ _ _ h0 hb
    | next s1 => rw [runLoop_next body f it s s1 hb]; exact ih (it+1) s1 (hnext _ _ _ h0 hb)

/-- the last of `k+1` fall-through passes -/
theorem Reach.last {body : Nat → σ → Exit σ} {k it : Nat} {s s' : σ} (hr : Reach body (k+1) it s s') :
    ∃ sp, Reach body k it s sp ∧ body (it + k) sp = .next s' := by
  induction k generalizing it s with
  | zero =>
    cases hr with
    | succ hb hr' => cases hr'; exact ⟨s, Reach.zero _ _, hb⟩
  | succ j ih =>
    cases hr with
    | succ hb hr' =>
      obtain ⟨sp, h1, h2⟩ := ih hr'
      refine ⟨sp, Reach.succ hb h1, ?_⟩
      have e : it + (j + 1) = it + 1 + j := by omega
      rw [e]; exact h2

/-- `b'` leaves whenever `b` leaves, and where `b` falls through `b'` either leaves or falls through to
    the same state -/
def Dominates (b b' : Nat → σ → Exit σ) : Prop :=
  ∀ it s, (∀ s1, b it s = .done s1 → ∃ s2, b' it s = .done s2) ∧
          (∀ s1, b it s = .next s1 → b' it s = .next s1 ∨ ∃ s2, b' it s = .done s2)

/-- if the loop with body `b` succeeds in pass `n`, the loop with a dominating body succeeds in a pass
    `n' ≤ n` -/
theorem runLoop_dominates (b b' : Nat → σ → Exit σ) (hd : Dominates b b') (fuel it : Nat) (s : σ)
    (n : Nat) (s' : σ) (h : runLoop b fuel it s = (true, n, s')) :
    ∃ n' s'', n' ≤ n ∧ runLoop b' fuel it s = (true, n', s'') := by
  induction fuel generalizing it s with
  | zero => simp [runLoop] at h
  | succ f ih =>
    have hle := (runLoop_true b (f+1) it s n s' h).1
    cases hb : b it s with
    | done s1 =>
      obtain ⟨s2, h2⟩ := (hd it s).1 s1 hb
      exact ⟨it, s2, hle, runLoop_done b' f it s s2 h2⟩
    | next s1 =>
      rw [runLoop_next b f it s s1 hb] at h
      rcases (hd it s).2 s1 hb with h2 | ⟨s2, h2⟩
      · obtain ⟨n', s'', hn, hr⟩ := ih (it+1) s1 h
        exact ⟨n', s'', hn, by rw [runLoop_next b' f it s s1 h2]; exact hr⟩
      · exact ⟨it, s2, hle, runLoop_done b' f it s s2 h2⟩

end loop

/-! ### the norm test on squared norms -/

section order
open Std
variable {α : Type} [Field α] [LE α] [LT α] [LawfulOrderLT α] [IsLinearOrder α] [OrderedRing α]

theorem mul_self_le_mul_self {a b : α} (ha : 0 ≤ a) (hab : a ≤ b) : a * a ≤ b * b := by
  have mn := @OrderedRing.mul_nonneg α _ _ _ _ _
  have h1 := mn ha (show 0 ≤ b - a by grind)
  have h2 := mn (show 0 ≤ b - a by grind) (show 0 ≤ b by grind)
  grind

theorem mul_self_lt_mul_self {a b : α} (ha : 0 ≤ a) (hab : a < b) : a * a < b * b := by
  have mn := @OrderedRing.mul_nonneg α _ _ _ _ _
  have mp := @OrderedRing.mul_pos α _ _ _ _ _
  have h1 := mn ha (show 0 ≤ b - a by grind)
  have h2 := mp (show 0 < b - a by grind) (show 0 < b by grind)
  grind

/-- the modelled test is the C++ test: for a non-negative root `r` of the squared norm,
    `normLt (r²) tol ↔ r < tol` (for every `tol`, also non-positive ones) -/
theorem normLt_iff_root (s2 r tol : α) (hr : 0 ≤ r) (hs : r * r = s2) : normLt s2 tol ↔ r < tol := by
  unfold normLt
  constructor
  · rintro ⟨h0, h1⟩
    apply Classical.byContradiction
    intro hn
    have := mul_self_le_mul_self (a := tol) (b := r) (by grind) (by grind)
    grind
  · intro h
    have := mul_self_lt_mul_self hr h
    exact ⟨by grind, by grind⟩

/-- the test is monotone in the tolerance -/
theorem normLt_mono (s2 t t' : α) (htt : t ≤ t') (h : normLt s2 t) : normLt s2 t' := by
  unfold normLt at *
  have := mul_self_le_mul_self (a := t) (b := t') (by grind) htt
  exact ⟨by grind, by grind⟩

/-- a squared norm is non-negative … -/
theorem sqNorm_nonneg (n : Nat) (v : VecN α) : 0 ≤ sqNorm n v := by
  unfold sqNorm
  induction n with
  | zero => simp [sumTo]
  | succ k ih =>
    have mn := @OrderedRing.mul_nonneg α _ _ _ _ _
    rcases (show 0 ≤ v k ∨ 0 ≤ -(v k) by grind) with h | h
    · have := mn h h
      simp only [sumTo]; grind
    · have := mn h h
      simp only [sumTo]; grind

/-- … so a passed test bounds every component: `vᵢ² < tol²` -/
theorem sqNorm_component (n : Nat) (v : VecN α) (i : Nat) (hi : i < n) : v i * v i ≤ sqNorm n v := by
  induction n with
  | zero => omega
  | succ k ih =>
    have mn := @OrderedRing.mul_nonneg α _ _ _ _ _
    have hk : 0 ≤ v k * v k := by
      rcases (show 0 ≤ v k ∨ 0 ≤ -(v k) by grind) with h | h
      · exact mn h h
      · have := mn h h; grind
    have h0 := sqNorm_nonneg k v
    unfold sqNorm at *
    simp only [sumTo]
    by_cases hik : i = k
    · subst hik; grind
    · have := ih (by omega); grind

end order

end Rbdl.L17
