import RbdlProofs.Lemmas.L03
/-
  Helper lemmas for C03, part 3: the entries of the joint-space inertia matrix written by `crba`
  (ancestor paths, membership in the write lists, frame and value lemmas for one iteration and for
  the whole loop).
-/
namespace Rbdl.L03
open Lean.Grind Rbdl Rbdl.Loops
set_option linter.unusedSectionVars false
set_option linter.unusedSimpArgs false

/-! ### ancestors -/

/-- the `k`-th ancestor of body `i` -/
def ancK (lam : Nat → Nat) : Nat → Nat → Nat
  | 0, i => i
  | k+1, i => ancK lam k (lam i)

/-- the first `k` ancestors of `i` (and `i` itself) are movable bodies -/
def PathOK (lam : Nat → Nat) (k i : Nat) : Prop := ∀ k', k' ≤ k → ancK lam k' i ≠ 0

theorem pathOK_succ (lam : Nat → Nat) (k i : Nat) :
    PathOK lam (k + 1) i ↔ i ≠ 0 ∧ PathOK lam k (lam i) := by
  constructor
  · intro h
    exact ⟨h 0 (by omega), fun k' hk' => h (k' + 1) (by omega)⟩
  · intro ⟨h0, h⟩ k' hk'
    cases k' with
    | zero => exact h0
    | succ k' => exact h k' (by omega)

theorem pathOK_zero (lam : Nat → Nat) (i : Nat) : PathOK lam 0 i ↔ i ≠ 0 := by
  constructor
  · intro h; exact h 0 (Nat.le_refl _)
  · intro h k' hk'
    have : k' = 0 := by omega
    subst this; exact h

theorem ancK_add (lam : Nat → Nat) (a b i : Nat) : ancK lam (a + b) i = ancK lam a (ancK lam b i) := by
  induction b generalizing i with
  | zero => rfl
  | succ b ih => rw [← Nat.add_assoc, ancK, ih, ancK]

/-- along a path of movable bodies in tree order the ancestors decrease -/
theorem ancK_le (lam : Nat → Nat) (n : Nat) (htree : ∀ c, 1 ≤ c → c ≤ n → lam c < c)
    (k i : Nat) (hi : i ≤ n) (hp : PathOK lam k i) : ancK lam k i + k ≤ i := by
  induction k generalizing i with
  | zero => exact Nat.le_refl _
  | succ k ih =>
    obtain ⟨h0, hp'⟩ := (pathOK_succ lam k i).1 hp
    have hl := htree i (by omega) hi
    have := ih (lam i) (by omega) hp'
    rw [ancK]; omega

theorem pathOK_anc (lam : Nat → Nat) (a b i : Nat) (hp : PathOK lam (a + b) i) :
    PathOK lam a (ancK lam b i) := by
  intro k' hk'
  rw [← ancK_add]
  exact hp _ (by omega)

theorem pathOK_mono (lam : Nat → Nat) (k k' i : Nat) (h : k' ≤ k) (hp : PathOK lam k i) :
    PathOK lam k' i := fun k'' hk'' => hp k'' (by omega)

/-- the ancestors along a path are pairwise distinct -/
theorem ancK_inj (lam : Nat → Nat) (n : Nat) (htree : ∀ c, 1 ≤ c → c ≤ n → lam c < c)
    (i : Nat) (hi : i ≤ n) (k k' : Nat) (hp : PathOK lam k i) (hp' : PathOK lam k' i)
    (e : ancK lam k i = ancK lam k' i) : k = k' := by
  have key : ∀ a b, PathOK lam (a + b) i → ancK lam (a + b) i + a ≤ ancK lam b i := by
    intro a b h
    rw [ancK_add]
    have hb := ancK_le lam n htree b i hi (pathOK_mono lam _ b i (by omega) h)
    exact ancK_le lam n htree a _ (by omega) (pathOK_anc lam a b i h)
  rcases Nat.lt_trichotomy k k' with h | h | h
  · have := key (k' - k) k (by rw [Nat.sub_add_cancel (by omega)]; exact hp')
    rw [Nat.sub_add_cancel (by omega)] at this
    omega
  · exact h
  · have := key (k - k') k' (by rw [Nat.sub_add_cancel (by omega)]; exact hp)
    rw [Nat.sub_add_cancel (by omega)] at this
    omega

section
variable {α : Type} [Field α]

/-- transport of a force vector from body `i` up `k` levels: `X_λ[i]ᵀ`, then `X_λ[λ i]ᵀ`, … -/
def upT (lam : Nat → Nat) (Xl : Nat → XT α) : Nat → Nat → SV α → SV α
  | 0, _, x => x
  | k+1, i, x => upT lam Xl k (lam i) ((Xl i).applyTranspose x)

/-- column `a` of the motion subspace of joint `i` -/
def Scol (w : WS α) (m : ModelS α) (i a : Nat) : SV α := (w.Scols m i).getD a SV.zero
/-- number of columns of the motion subspace of joint `i` -/
def nS (w : WS α) (m : ModelS α) (i : Nat) : Nat := (w.Scols m i).length

/-- `F`-lists of `crba`: the columns of `S_i` with a map applied, tagged with their index -/
def mkF (g : SV α → SV α) (cols : List (SV α)) : List (SV α × Nat) :=
  (zipIdx cols).map (fun p => (g p.1, p.2))

theorem mem_mkF (g : SV α → SV α) (cols : List (SV α)) (p : SV α × Nat) :
    p ∈ mkF g cols ↔ p.2 < cols.length ∧ p.1 = g (cols.getD p.2 SV.zero) := by
  unfold mkF
  simp only [List.mem_map, mem_zipIdx_iff]
  constructor
  · rintro ⟨q, ⟨h1, h2⟩, rfl⟩
    exact ⟨h1, by rw [h2]⟩
  · rintro ⟨h1, h2⟩
    exact ⟨(cols.getD p.2 SV.zero, p.2), ⟨h1, rfl⟩, by rw [← h2]⟩

theorem mkF_map (g h : SV α → SV α) (cols : List (SV α)) :
    (mkF g cols).map (fun p => (h p.1, p.2)) = mkF (fun x => h (g x)) cols := by
  unfold mkF; rw [List.map_map]; rfl

theorem mem_stepW (ki kj : Nat) (F Sj : List (SV α × Nat)) (t : Nat × Nat × α) :
    t ∈ stepW ki kj F Sj ↔ ∃ p ∈ F, ∃ q ∈ Sj,
      t = (ki + p.2, kj + q.2, p.1.dot q.1) ∨ t = (kj + q.2, ki + p.2, p.1.dot q.1) := by
  unfold stepW
  simp only [List.mem_flatMap, List.mem_cons, List.mem_nil_iff, or_false]


/-- the write `t` puts `x` at position `(ki + a, kj + b)` or at the transposed position -/
def IsEntry (ki kj a b : Nat) (x : α) (t : Nat × Nat × α) : Prop :=
  t = (ki + a, kj + b, x) ∨ t = (kj + b, ki + a, x)

theorem walkW_succ (m : ModelS α) (w : WS α) (ki f j : Nat) (g : SV α → SV α)
    (cols : List (SV α)) (hj : j ≠ 0) (hl : m.lam j ≠ 0) :
    walkW m w ki (f + 1) j (mkF g cols)
      = stepW ki (m.joint (m.lam j)).qIndex
          (mkF (fun x => (w.X_lambda j).applyTranspose (g x)) cols) (zipIdx (w.Scols m (m.lam j)))
        ++ walkW m w ki f (m.lam j) (mkF (fun x => (w.X_lambda j).applyTranspose (g x)) cols) := by
  rw [walkW, if_neg hj, if_neg hl, mkF_map]

/-- every write of the walk addresses a block `(i, ancestor)` with the transported value -/
theorem mem_walkW_sound (m : ModelS α) (w : WS α) (ki fuel j : Nat) (g : SV α → SV α)
    (cols : List (SV α)) (t : Nat × Nat × α) (ht : t ∈ walkW m w ki fuel j (mkF g cols)) :
    ∃ k a b, PathOK m.lam (k + 1) j ∧ a < cols.length ∧ b < nS w m (ancK m.lam (k + 1) j) ∧
      IsEntry ki (m.joint (ancK m.lam (k + 1) j)).qIndex a b
        ((upT m.lam w.X_lambda (k + 1) j (g (cols.getD a SV.zero))).dot
          (Scol w m (ancK m.lam (k + 1) j) b)) t := by
  induction fuel generalizing j g with
  | zero => simp [walkW] at ht
  | succ f ih =>
    by_cases hj : j = 0
    · simp [walkW, hj] at ht
    by_cases hl : m.lam j = 0
    · simp [walkW, hj, hl] at ht
    rw [walkW_succ m w ki f j g cols hj hl, List.mem_append] at ht
    rcases ht with ht | ht
    · obtain ⟨p, hp, q, hq, ht⟩ := (mem_stepW ..).1 ht
      obtain ⟨hp1, hp2⟩ := (mem_mkF ..).1 hp
      obtain ⟨hq1, hq2⟩ := (mem_zipIdx_iff ..).1 hq
      refine ⟨0, p.2, q.2, ?_, hp1, hq1, ?_⟩
      · exact (pathOK_succ ..).2 ⟨hj, (pathOK_zero ..).2 hl⟩
      · show IsEntry ki (m.joint (m.lam j)).qIndex p.2 q.2
          (((w.X_lambda j).applyTranspose (g (cols.getD p.2 SV.zero))).dot
            ((w.Scols m (m.lam j)).getD q.2 SV.zero)) t
        rw [← hp2, hq2]; exact ht
    · obtain ⟨k, a, b, hp, ha, hb, he⟩ := ih _ _ ht
      exact ⟨k + 1, a, b, (pathOK_succ ..).2 ⟨hj, hp⟩, ha, hb, he⟩

/-- … and every such block is written (tree order, enough fuel) -/
theorem mem_walkW_complete (m : ModelS α) (w : WS α) (ki n : Nat)
    (htree : ∀ c, 1 ≤ c → c ≤ n → m.lam c < c) (fuel j : Nat) (hjf : j ≤ fuel) (hjn : j ≤ n)
    (g : SV α → SV α) (cols : List (SV α)) (k a b : Nat) (hp : PathOK m.lam (k + 1) j)
    (ha : a < cols.length) (hb : b < nS w m (ancK m.lam (k + 1) j)) (t : Nat × Nat × α)
    (ht : IsEntry ki (m.joint (ancK m.lam (k + 1) j)).qIndex a b
        ((upT m.lam w.X_lambda (k + 1) j (g (cols.getD a SV.zero))).dot
          (Scol w m (ancK m.lam (k + 1) j) b)) t) :
    t ∈ walkW m w ki fuel j (mkF g cols) := by
  induction fuel generalizing j g k with
  | zero =>
    have := hp 0 (by omega)
    simp only [ancK] at this; omega
  | succ f ih =>
    obtain ⟨hj, hp'⟩ := (pathOK_succ ..).1 hp
    have hl : m.lam j ≠ 0 := hp' 0 (by omega)
    have hlt := htree j (by omega) hjn
    rw [walkW_succ m w ki f j g cols hj hl, List.mem_append]
    cases k with
    | zero =>
      left
      refine (mem_stepW ..).2 ⟨((w.X_lambda j).applyTranspose (g (cols.getD a SV.zero)), a),
        (mem_mkF ..).2 ⟨ha, rfl⟩, ((w.Scols m (m.lam j)).getD b SV.zero, b),
        mk_mem_zipIdx _ _ hb, ht⟩
    | succ k =>
      right
      exact ih (m.lam j) (by omega) (by omega) _ k hp' hb ht


/-! ### one iteration of the second loop of `crba` -/

/-- all `H` writes of iteration `i` -/
def iterW (m : ModelS α) (w : WS α) (i : Nat) : List (Nat × Nat × α) :=
  diagW (m.joint i).qIndex (zipIdx (w.Scols m i)) (w.Ic i)
    ++ walkW m w (m.joint i).qIndex m.nBodies i (mkF (fun x => w.Ic i * x) (w.Scols m i))

theorem crbaStepH_iterW (m : ModelS α) (w : WS α) (i : Nat) (H : MatN α) :
    crbaStepH m w i H = applyW H (iterW m w i) := by
  rw [crbaStepH_eq, iterW, applyW_append]; rfl

/-- the value `crba` writes at `(q_i + a, q_j + b)`, `j` the `k`-th ancestor of `i`:
    `(X_λ[..]ᵀ ⋯ X_λ[i]ᵀ (Ic_i S_i,a)) · S_j,b` -/
def crbaVal (m : ModelS α) (w : WS α) (i k a b : Nat) : α :=
  (upT m.lam w.X_lambda k i (w.Ic i * Scol w m i a)).dot (Scol w m (ancK m.lam k i) b)

theorem crbaVal_zero (m : ModelS α) (w : WS α) (i a b : Nat) :
    crbaVal m w i 0 a b = (Scol w m i a).dot (w.Ic i * Scol w m i b) := by
  show (w.Ic i * Scol w m i a).dot (Scol w m i b) = _
  rw [sv_dot_comm, rbi_dot_symm]

theorem crbaVal_zero_symm (m : ModelS α) (w : WS α) (i a b : Nat) :
    crbaVal m w i 0 a b = crbaVal m w i 0 b a := by
  rw [crbaVal_zero, crbaVal_zero, rbi_dot_symm]

/-- `(r, c)` lies in a block `(i, ancestor of i)` or its transpose -/
def OnPath (m : ModelS α) (w : WS α) (i r c : Nat) : Prop :=
  ∃ k a b, PathOK m.lam k i ∧ a < nS w m i ∧ b < nS w m (ancK m.lam k i) ∧
    ((r = (m.joint i).qIndex + a ∧ c = (m.joint (ancK m.lam k i)).qIndex + b) ∨
     (r = (m.joint (ancK m.lam k i)).qIndex + b ∧ c = (m.joint i).qIndex + a))

theorem mem_iterW_sound (m : ModelS α) (w : WS α) (i : Nat) (hi : i ≠ 0) (t : Nat × Nat × α)
    (ht : t ∈ iterW m w i) :
    ∃ k a b, PathOK m.lam k i ∧ a < nS w m i ∧ b < nS w m (ancK m.lam k i) ∧
      IsEntry (m.joint i).qIndex (m.joint (ancK m.lam k i)).qIndex a b (crbaVal m w i k a b) t := by
  rw [iterW, List.mem_append] at ht
  rcases ht with ht | ht
  · obtain ⟨a, b, ha, hb, rfl⟩ := (mem_diagW ..).1 ht
    exact ⟨0, a, b, (pathOK_zero ..).2 hi, ha, hb, Or.inl (by rw [crbaVal_zero]; rfl)⟩
  · obtain ⟨k, a, b, hp, ha, hb, he⟩ := mem_walkW_sound m w _ _ _ _ _ t ht
    exact ⟨k + 1, a, b, hp, ha, hb, he⟩

theorem mem_iterW_complete (m : ModelS α) (w : WS α)
    (htree : ∀ c, 1 ≤ c → c ≤ m.nBodies - 1 → m.lam c < c) (i : Nat)
    (hin : i ≤ m.nBodies - 1) (k a b : Nat) (hp : PathOK m.lam k i) (ha : a < nS w m i)
    (hb : b < nS w m (ancK m.lam k i)) (t : Nat × Nat × α)
    (ht : IsEntry (m.joint i).qIndex (m.joint (ancK m.lam k i)).qIndex a b
      (crbaVal m w i k a b) t) : t ∈ iterW m w i := by
  rw [iterW, List.mem_append]
  cases k with
  | zero =>
    left
    rcases ht with rfl | rfl
    · exact (mem_diagW ..).2 ⟨a, b, ha, hb, by rw [crbaVal_zero]; rfl⟩
    · exact (mem_diagW ..).2 ⟨b, a, hb, ha, by rw [crbaVal_zero_symm, crbaVal_zero]; rfl⟩
  | succ k =>
    right
    exact mem_walkW_complete m w _ _ htree _ i (by omega) hin _ _ k a b hp ha hb t ht

/-- writes of iteration `i` stay inside the blocks `(i, ancestor)` and their transposes -/
theorem iter_frame (m : ModelS α) (w : WS α) (i : Nat) (hi : i ≠ 0) (H : MatN α) (r c : Nat)
    (h : ¬ OnPath m w i r c) : applyW H (iterW m w i) r c = H r c := by
  refine applyW_nomem _ _ _ _ (fun t ht e => h ?_)
  obtain ⟨k, a, b, hp, ha, hb, he⟩ := mem_iterW_sound m w i hi t ht
  refine ⟨k, a, b, hp, ha, hb, ?_⟩
  rcases he with rfl | rfl
  · exact Or.inl ⟨e.1.symm, e.2.symm⟩
  · exact Or.inr ⟨e.1.symm, e.2.symm⟩

/-- the coordinate ranges of different joints do not overlap -/
def Disj (m : ModelS α) (w : WS α) : Prop :=
  ∀ i i' a b, 1 ≤ i → i ≤ m.nBodies - 1 → 1 ≤ i' → i' ≤ m.nBodies - 1 → a < nS w m i →
    b < nS w m i' → (m.joint i).qIndex + a = (m.joint i').qIndex + b → i = i'

/-- two writes of iteration `i` to the same position carry the same value -/
theorem entry_val_unique (m : ModelS α) (w : WS α)
    (htree : ∀ c, 1 ≤ c → c ≤ m.nBodies - 1 → m.lam c < c) (hd : Disj m w) (i : Nat)
    (hi1 : 1 ≤ i) (hin : i ≤ m.nBodies - 1) (k a b k' a' b' : Nat)
    (hp : PathOK m.lam k i) (ha : a < nS w m i) (hb : b < nS w m (ancK m.lam k i))
    (hp' : PathOK m.lam k' i) (ha' : a' < nS w m i) (hb' : b' < nS w m (ancK m.lam k' i))
    (t t' : Nat × Nat × α)
    (ht : IsEntry (m.joint i).qIndex (m.joint (ancK m.lam k i)).qIndex a b
      (crbaVal m w i k a b) t)
    (ht' : IsEntry (m.joint i).qIndex (m.joint (ancK m.lam k' i)).qIndex a' b'
      (crbaVal m w i k' a' b') t')
    (e1 : t'.1 = t.1) (e2 : t'.2.1 = t.2.1) : t'.2.2 = t.2.2 := by
  have hA := ancK_le m.lam _ htree k i hin hp
  have hA' := ancK_le m.lam _ htree k' i hin hp'
  have h0 := hp k (Nat.le_refl _)
  have h0' := hp' k' (Nat.le_refl _)
  have inj := ancK_inj m.lam _ htree i hin
  rcases ht with rfl | rfl <;> rcases ht' with rfl | rfl <;> simp only at e1 e2 ⊢
  · have : a' = a := by omega
    subst this
    have hj := hd _ _ _ _ (by omega) (by omega) (by omega) (by omega) hb' hb e2
    have hk := inj k' k hp' hp hj
    subst hk
    have : b' = b := by omega
    subst this; rfl
  · have hj := hd _ _ _ _ (by omega) (by omega) hi1 hin hb' ha e1
    have hk' := inj k' 0 hp' ((pathOK_zero ..).2 (by omega)) hj
    subst hk'
    have hj2 := hd _ _ _ _ hi1 hin (by omega) (by omega) ha' hb e2
    have hk := inj 0 k ((pathOK_zero ..).2 (by omega)) hp hj2
    subst hk
    simp only [ancK] at e1 e2
    have : b' = a := by omega
    subst this
    have : a' = b := by omega
    subst this
    exact crbaVal_zero_symm ..
  · have hj := hd _ _ _ _ hi1 hin (by omega) (by omega) ha' hb e1
    have hk := inj 0 k ((pathOK_zero ..).2 (by omega)) hp hj
    subst hk
    have hj2 := hd _ _ _ _ (by omega) (by omega) hi1 hin hb' ha e2
    have hk' := inj k' 0 hp' ((pathOK_zero ..).2 (by omega)) hj2
    subst hk'
    simp only [ancK] at e1 e2
    have : a' = b := by omega
    subst this
    have : b' = a := by omega
    subst this
    exact crbaVal_zero_symm ..
  · have : a' = a := by omega
    subst this
    have hj := hd _ _ _ _ (by omega) (by omega) (by omega) (by omega) hb' hb e1
    have hk := inj k' k hp' hp hj
    subst hk
    have : b' = b := by omega
    subst this; rfl

/-- after iteration `i` the blocks `(i, ancestor)` hold the transported values -/
theorem iter_val (m : ModelS α) (w : WS α)
    (htree : ∀ c, 1 ≤ c → c ≤ m.nBodies - 1 → m.lam c < c) (hd : Disj m w) (i : Nat)
    (hi1 : 1 ≤ i) (hin : i ≤ m.nBodies - 1) (H : MatN α) (k a b : Nat)
    (hp : PathOK m.lam k i) (ha : a < nS w m i) (hb : b < nS w m (ancK m.lam k i)) :
    applyW H (iterW m w i) ((m.joint i).qIndex + a) ((m.joint (ancK m.lam k i)).qIndex + b)
      = crbaVal m w i k a b ∧
    applyW H (iterW m w i) ((m.joint (ancK m.lam k i)).qIndex + b) ((m.joint i).qIndex + a)
      = crbaVal m w i k a b := by
  constructor
  · refine applyW_mem _ _ _ _ _
      (mem_iterW_complete m w htree i hin k a b hp ha hb _ (Or.inl rfl)) ?_
    intro t' ht' e1 e2
    obtain ⟨k', a', b', hp', ha', hb', he'⟩ := mem_iterW_sound m w i (by omega) t' ht'
    exact entry_val_unique m w htree hd i hi1 hin k a b k' a' b' hp ha hb hp' ha' hb' _ t'
      (Or.inl rfl) he' e1 e2
  · refine applyW_mem _ _ _ _ _
      (mem_iterW_complete m w htree i hin k a b hp ha hb _ (Or.inr rfl)) ?_
    intro t' ht' e1 e2
    obtain ⟨k', a', b', hp', ha', hb', he'⟩ := mem_iterW_sound m w i (by omega) t' ht'
    exact entry_val_unique m w htree hd i hi1 hin k a b k' a' b' hp ha hb hp' ha' hb' _ t'
      (Or.inr rfl) he' e1 e2


/-! ### the whole second loop: state `(Ic, H)` over a fixed workspace -/

/-- the workspace with the composite-inertia array replaced -/
def setIc (w : WS α) (Ic : Nat → RBI α) : WS α := { w with Ic := Ic }

/-- body of the second loop of `crba` on the pair `(Ic, H)` -/
def crbaBody2 (m : ModelS α) (w : WS α) (i : Nat) (s : (Nat → RBI α) × MatN α) :
    (Nat → RBI α) × MatN α :=
  (bwdBody m.lam (fun c a x => a + L12.TI w.X_lambda c x) i s.1,
   applyW s.2 (iterW m (setIc w (bwdBody m.lam (fun c a x => a + L12.TI w.X_lambda c x) i s.1)) i))

theorem crbaBody_setIc (m : ModelS α) (w : WS α) (i : Nat) (s : (Nat → RBI α) × MatN α) :
    crbaBody m i (setIc w s.1, s.2)
      = (setIc w (crbaBody2 m w i s).1, (crbaBody2 m w i s).2) := by
  have e : crbaIc m i (setIc w s.1)
      = setIc w (bwdBody m.lam (fun c a x => a + L12.TI w.X_lambda c x) i s.1) := by
    unfold crbaIc bwdBody setIc L12.TI; split <;> rfl
  unfold crbaBody crbaBody2
  rw [e, crbaStepH_iterW]

theorem crbaLoop_setIc (m : ModelS α) (w : WS α) (cnt hi : Nat) (s : (Nat → RBI α) × MatN α) :
    forDown cnt hi (crbaBody m) (setIc w s.1, s.2)
      = (setIc w (forDown cnt hi (crbaBody2 m w) s).1, (forDown cnt hi (crbaBody2 m w) s).2) :=
  forDown_sim (fun (a : WS α × MatN α) (b : (Nat → RBI α) × MatN α) => a = (setIc w b.1, b.2))
    (crbaBody m) (crbaBody2 m w) cnt hi
    (fun i a b _ _ h => by rw [h, crbaBody_setIc]) _ s rfl

theorem crbaLoop2_fst (m : ModelS α) (w : WS α) (cnt hi : Nat) (s : (Nat → RBI α) × MatN α) :
    (forDown cnt hi (crbaBody2 m w) s).1
      = forDown cnt hi (bwdBody m.lam (fun c a x => a + L12.TI w.X_lambda c x)) s.1 :=
  forDown_sim (fun (a : (Nat → RBI α) × MatN α) b => a.1 = b) (crbaBody2 m w) _ cnt hi
    (fun i a b _ _ h => by subst h; rfl) s s.1 rfl

theorem crbaVal_congr_Ic (m : ModelS α) (w : WS α) (Ic Ic' : Nat → RBI α) (i k a b : Nat)
    (h : Ic i = Ic' i) : crbaVal m (setIc w Ic) i k a b = crbaVal m (setIc w Ic') i k a b := by
  show (upT m.lam w.X_lambda k i (Ic i * Scol w m i a)).dot _
    = (upT m.lam w.X_lambda k i (Ic' i * Scol w m i a)).dot _
  rw [h]; rfl

theorem onPath_symm (m : ModelS α) (w : WS α) (i r c : Nat) (h : OnPath m w i r c) :
    OnPath m w i c r := by
  obtain ⟨k, a, b, hp, ha, hb, h⟩ := h
  refine ⟨k, a, b, hp, ha, hb, ?_⟩
  rcases h with ⟨e1, e2⟩ | ⟨e1, e2⟩
  · exact Or.inr ⟨e2, e1⟩
  · exact Or.inl ⟨e2, e1⟩

/-- a block `(i, ancestor of i)` is not addressed by an iteration `i' < i` -/
theorem onPath_lt_absurd (m : ModelS α) (w : WS α)
    (htree : ∀ c, 1 ≤ c → c ≤ m.nBodies - 1 → m.lam c < c) (hd : Disj m w) (i : Nat)
    (hi1 : 1 ≤ i) (hin : i ≤ m.nBodies - 1) (a : Nat)
    (ha : a < nS w m i) (i' : Nat) (h1 : 1 ≤ i') (hlt : i' < i) (c : Nat)
    (h : OnPath m w i' ((m.joint i).qIndex + a) c) :
    False := by
  obtain ⟨k', a', b', hp', ha', hb', h⟩ := h
  have hA' := ancK_le m.lam _ htree k' i' (by omega) hp'
  have h0' := hp' k' (Nat.le_refl _)
  rcases h with ⟨e1, _⟩ | ⟨e1, _⟩
  · have := hd _ _ _ _ hi1 hin h1 (by omega) ha ha' e1
    omega
  · have := hd _ _ _ _ hi1 hin (by omega) (by omega) ha hb' e1
    omega

/-- entries outside the blocks of the iterations run are unchanged -/
theorem loop_frame (m : ModelS α) (w : WS α) (cnt hi : Nat) (hc : cnt ≤ hi)
    (s : (Nat → RBI α) × MatN α) (r c : Nat)
    (h : ∀ i, hi < i + cnt → i ≤ hi → ¬ OnPath m w i r c) :
    (forDown cnt hi (crbaBody2 m w) s).2 r c = s.2 r c := by
  induction cnt generalizing hi s with
  | zero => rfl
  | succ k ih =>
    rw [forDown, ih (hi - 1) (by omega) _ (fun i h1 h2 => h i (by omega) (by omega))]
    exact iter_frame m _ hi (by omega) _ r c (h hi (by omega) (Nat.le_refl _))

/-- after the loop the blocks `(i, ancestor)` of all iterations run hold the transported values
    (computed with the final composite inertias) -/
theorem loop_val (m : ModelS α) (w : WS α)
    (htree : ∀ c, 1 ≤ c → c ≤ m.nBodies - 1 → m.lam c < c) (hd : Disj m w)
    (cnt hi : Nat) (hc : cnt ≤ hi) (hn : hi ≤ m.nBodies - 1) (s : (Nat → RBI α) × MatN α)
    (i : Nat) (hi1 : hi < i + cnt) (hi2 : i ≤ hi) (k a b : Nat) (hp : PathOK m.lam k i)
    (ha : a < nS w m i) (hb : b < nS w m (ancK m.lam k i)) :
    (forDown cnt hi (crbaBody2 m w) s).2 ((m.joint i).qIndex + a)
        ((m.joint (ancK m.lam k i)).qIndex + b)
      = crbaVal m (setIc w (forDown cnt hi (crbaBody2 m w) s).1) i k a b ∧
    (forDown cnt hi (crbaBody2 m w) s).2 ((m.joint (ancK m.lam k i)).qIndex + b)
        ((m.joint i).qIndex + a)
      = crbaVal m (setIc w (forDown cnt hi (crbaBody2 m w) s).1) i k a b := by
  induction cnt generalizing hi s with
  | zero => omega
  | succ n ih =>
    rw [forDown]
    by_cases e : i = hi
    · subst e
      have hi0 : 1 ≤ i := by omega
      have hnot : ∀ i', i - 1 < i' + n → i' ≤ i - 1 →
          ¬ OnPath m w i' ((m.joint i).qIndex + a) ((m.joint (ancK m.lam k i)).qIndex + b) :=
        fun i' h1 h2 h => onPath_lt_absurd m w htree hd i hi0 hn a ha i' (by omega)
          (by omega) _ h
      rw [loop_frame m w n (i - 1) (by omega) _ _ _ hnot,
        loop_frame m w n (i - 1) (by omega) _ _ _ (fun i' h1 h2 h => hnot i' h1 h2
          (onPath_symm m w i' _ _ h))]
      have hIc : (forDown n (i - 1) (crbaBody2 m w) (crbaBody2 m w i s)).1 i
          = (crbaBody2 m w i s).1 i := by
        rw [crbaLoop2_fst]
        exact bwd_outside m.lam _ n (i - 1) (by omega)
          (fun c h1 h2 => htree c h1 (by omega)) _ i (Or.inr (by omega))
      rw [crbaVal_congr_Ic m w _ _ i k a b hIc]
      exact iter_val m (setIc w (crbaBody2 m w i s).1) htree hd i hi0 hn s.2 k a b hp ha hb
    · exact ih (hi - 1) (by omega) (by omega) _ (by omega) (by omega)


/-- `crba` as the `(Ic, H)` loop over the workspace after the first loop -/
theorem crba_state (m : ModelS α) (w : WS α) (st : QS α) (H0 : MatN α) (update : Bool) :
    crba m w st H0 update
      = (setIc (crbaInit m w st update)
          (forDown (m.nBodies - 1) (m.nBodies - 1) (crbaBody2 m (crbaInit m w st update))
            ((crbaInit m w st update).Ic, H0)).1,
         (forDown (m.nBodies - 1) (m.nBodies - 1) (crbaBody2 m (crbaInit m w st update))
            ((crbaInit m w st update).Ic, H0)).2) := by
  rw [crba_eq]
  exact crbaLoop_setIc m (crbaInit m w st update) _ _ ((crbaInit m w st update).Ic, H0)


/-- entries of `H` after `crba` (lemma form of `C03.crba_entries`) -/
theorem crba_entries_l (m : ModelS α) (w : WS α) (st : QS α) (H0 : MatN α) (update : Bool)
    (htree : ∀ c, 1 ≤ c → c ≤ m.nBodies - 1 → m.lam c < c)
    (hd : Disj m (crba m w st H0 update).1)
    (i : Nat) (hi1 : 1 ≤ i) (hin : i ≤ m.nBodies - 1) (k a b : Nat) (hp : PathOK m.lam k i)
    (ha : a < nS (crba m w st H0 update).1 m i)
    (hb : b < nS (crba m w st H0 update).1 m (ancK m.lam k i)) :
    (crba m w st H0 update).2 ((m.joint i).qIndex + a) ((m.joint (ancK m.lam k i)).qIndex + b)
      = crbaVal m (crba m w st H0 update).1 i k a b ∧
    (crba m w st H0 update).2 ((m.joint (ancK m.lam k i)).qIndex + b) ((m.joint i).qIndex + a)
      = crbaVal m (crba m w st H0 update).1 i k a b := by
  rw [crba_state] at hd ha hb ⊢
  exact loop_val m (crbaInit m w st update) htree hd _ _ (Nat.le_refl _) (Nat.le_refl _) _ i
    (by omega) hin k a b hp ha hb

theorem crba_offpath_l (m : ModelS α) (w : WS α) (st : QS α) (H0 : MatN α) (update : Bool)
    (r c : Nat)
    (h : ∀ i, 1 ≤ i → i ≤ m.nBodies - 1 → ¬ OnPath m (crba m w st H0 update).1 i r c) :
    (crba m w st H0 update).2 r c = H0 r c := by
  rw [crba_state] at h ⊢
  exact loop_frame m (crbaInit m w st update) _ _ (Nat.le_refl _) _ r c
    (fun i h1 h2 => h i (by omega) h2)

end
end Rbdl.L03
