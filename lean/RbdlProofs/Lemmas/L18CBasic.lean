import RbdlProofs.Props.C18
/-
  C18 at curve level, part 1: definitions (`P6.StrictIncr`, `Curve.WF`, `Curve.eval`, `Curve.evalD`,
  the two halves of `scale`), list plumbing and the section look-up of shifted / scaled curves.
-/
set_option linter.unusedSectionVars false
namespace Rbdl.Geom
open Lean.Grind Std

namespace P6
variable {α : Type}
/-- strictly increasing control polygon -/
def StrictIncr [LT α] (p : P6 α) : Prop :=
  p.p0 < p.p1 ∧ p.p1 < p.p2 ∧ p.p2 < p.p3 ∧ p.p3 < p.p4 ∧ p.p4 < p.p5
/-- non-decreasing control polygon -/
def Mono [LE α] (p : P6 α) : Prop :=
  p.p0 ≤ p.p1 ∧ p.p1 ≤ p.p2 ∧ p.p2 ≤ p.p3 ∧ p.p3 ≤ p.p4 ∧ p.p4 ≤ p.p5
end P6

namespace Curve
section defs
variable {α : Type} [Field α] [Inhabited α] [LT α] [LE α]

/-- well-formed smooth segmented function: at least one section, x control polygons strictly
    increasing, consecutive sections share their end points, and the six end data are the end
    points / end slopes of the first and last section -/
structure WF (c : Curve α) : Prop where
  lenY : c.mY.length = c.mX.length
  pos : 0 < c.nseg
  incr : ∀ i, i < c.nseg → (c.segX i).StrictIncr
  joinX : ∀ i, i + 1 < c.nseg → (c.segX i).p5 = (c.segX (i+1)).p0
  joinY : ∀ i, i + 1 < c.nseg → (c.segY i).p5 = (c.segY (i+1)).p0
  hx0 : c.x0 = (c.segX 0).p0
  hx1 : c.x1 = (c.segX (c.nseg - 1)).p5
  hy0 : c.y0 = (c.segY 0).p0
  hy1 : c.y1 = (c.segY (c.nseg - 1)).p5
  hd0 : c.dydx0 = derivDYDX 0 (c.segX 0) (c.segY 0) 1
  hd1 : c.dydx1 = derivDYDX 1 (c.segX (c.nseg - 1)) (c.segY (c.nseg - 1)) 1

/-- the first half of `scale`: every stored number multiplied by its factor -/
def scaleRaw (c : Curve α) (xScale yScale : α) : Curve α :=
  { x0 := c.x0 * xScale, x1 := c.x1 * xScale, y0 := c.y0 * yScale, y1 := c.y1 * yScale,
    dydx0 := c.dydx0 * (yScale/xScale), dydx1 := c.dydx1 * (yScale/xScale),
    mX := c.mX.map (P6.map (· * xScale)), mY := c.mY.map (P6.map (· * yScale)) }

/-- the second half of `scale` for a negative x factor: end data swapped, sections reversed, control
    points of every section reversed -/
def mirror (s : Curve α) : Curve α :=
  { x0 := s.x1, x1 := s.x0, y0 := s.y1, y1 := s.y0, dydx0 := s.dydx1, dydx1 := s.dydx0,
    mX := s.mX.reverse.map P6.rev, mY := s.mY.reverse.map P6.rev }

variable [DecidableLT α] [DecidableLE α] [DecidableEq α]

/-- the section index used by `calcValue` / `calcDerivative`: `calcIndex` inside `[x0, x1]`
    (`none` = `calcIndex` throws), irrelevant (0) in the two linear regions -/
def idxAt (c : Curve α) (x : α) : Option Nat :=
  match c.region x with
  | .mid => c.calcIndex x
  | _ => some 0

/-- `calcValue(x)` given the root `u` of x(u) = x in the section selected by `calcIndex`
    (`none` = `calcIndex` throws) -/
def eval (c : Curve α) (x u : α) : Option α := (c.idxAt x).map fun i => c.valueAt x i u

/-- `calcDerivative(x, order)` given the root `u` -/
def evalD (c : Curve α) (x u : α) (order : Nat) : Option α :=
  (c.idxAt x).map fun i => c.derivAt x i u order

/-- `u` is an admissible result of `calcU(x, mX[idx])` for the section `idx = calcIndex(x)` -/
def RootAt (c : Curve α) (x : α) (i : Nat) (u : α) : Prop :=
  c.calcIndex x = some i ∧ 0 ≤ u ∧ u ≤ 1 ∧ bezVal u (c.segX i) = x

/-- `u` is an admissible result of `calcU` whenever `calcValue(x)` / `calcDerivative(x, ·)` call it
    (only inside `[x0, x1]`, for the section found by `calcIndex`) -/
def IsRoot (c : Curve α) (x u : α) : Prop :=
  c.region x = .mid → ∀ i, c.calcIndex x = some i → 0 ≤ u ∧ u ≤ 1 ∧ bezVal u (c.segX i) = x

/-- `calcInverseValue(y, xGuess)` given the root `u` of y(u) = y in the selected section
    (`none` = signaling NaN) -/
def inverse (c : Curve α) (y xGuess u : α) : Option α :=
  match c.invSection y xGuess with
  | some i => some (bezVal u (c.segX i))
  | none => c.invLinear y
end defs
end Curve
end Rbdl.Geom

namespace Rbdl.L18C
open Lean.Grind Std Rbdl.Geom Rbdl.L18

/-! ### lists -/
theorem getD_map {β γ : Type} (l : List β) (f : β → γ) (i : Nat) (d : β) (d' : γ) (h : i < l.length) :
    (l.map f).getD i d' = f (l.getD i d) := by
  simp [List.getD_eq_getElem?_getD, h]

theorem getD_reverse {β : Type} (l : List β) (i : Nat) (d : β) (h : i < l.length) :
    l.reverse.getD i d = l.getD (l.length - 1 - i) d := by
  have h2 : l.length - 1 - i < l.length := by omega
  simp [List.getD_eq_getElem?_getD, h, h2]

theorem find?_congr {β : Type} (l : List β) (p q : β → Bool) (h : ∀ x, x ∈ l → p x = q x) :
    l.find? p = l.find? q := by
  induction l with
  | nil => rfl
  | cons a t ih =>
    have ha := h a (by simp)
    have ht := ih (fun x hx => h x (by simp [hx]))
    simp only [List.find?_cons, ha, ht]

theorem P6.map_rev {β γ : Type} (f : β → γ) (p : P6 β) : (p.map f).rev = p.rev.map f := rfl
theorem P6.rev_rev {β : Type} (p : P6 β) : p.rev.rev = p := rfl

section curve
variable {α : Type} [Field α] [Inhabited α]

/-! ### sections of a shifted / scaled / mirrored curve -/
@[simp] theorem nseg_shift (c : Curve α) (dx dy : α) : (c.shift dx dy).nseg = c.nseg := by
  simp [Curve.nseg, Curve.shift]
@[simp] theorem nseg_scaleRaw (c : Curve α) (sx sy : α) : (c.scaleRaw sx sy).nseg = c.nseg := by
  simp [Curve.nseg, Curve.scaleRaw]
@[simp] theorem nseg_mirror (c : Curve α) : c.mirror.nseg = c.nseg := by
  simp [Curve.nseg, Curve.mirror]

theorem segX_shift (c : Curve α) (dx dy : α) (i : Nat) (h : i < c.nseg) :
    (c.shift dx dy).segX i = (c.segX i).map (· + dx) := by
  simp only [Curve.segX, Curve.shift]; exact getD_map _ _ _ _ _ h
theorem segY_shift (c : Curve α) (dx dy : α) (i : Nat) (h : i < c.mY.length) :
    (c.shift dx dy).segY i = (c.segY i).map (· + dy) := by
  simp only [Curve.segY, Curve.shift]; exact getD_map _ _ _ _ _ h
theorem segX_scaleRaw (c : Curve α) (sx sy : α) (i : Nat) (h : i < c.nseg) :
    (c.scaleRaw sx sy).segX i = (c.segX i).map (· * sx) := by
  simp only [Curve.segX, Curve.scaleRaw]; exact getD_map _ _ _ _ _ h
theorem segY_scaleRaw (c : Curve α) (sx sy : α) (i : Nat) (h : i < c.mY.length) :
    (c.scaleRaw sx sy).segY i = (c.segY i).map (· * sy) := by
  simp only [Curve.segY, Curve.scaleRaw]; exact getD_map _ _ _ _ _ h
theorem segX_mirror (c : Curve α) (i : Nat) (h : i < c.nseg) :
    c.mirror.segX i = (c.segX (c.nseg - 1 - i)).rev := by
  simp only [Curve.segX, Curve.mirror, Curve.nseg] at h ⊢
  rw [getD_map _ _ _ default _ (by simpa using h), getD_reverse _ _ _ h]
theorem segY_mirror (c : Curve α) (i : Nat) (h : i < c.mY.length) :
    c.mirror.segY i = (c.segY (c.mY.length - 1 - i)).rev := by
  simp only [Curve.segY, Curve.mirror]
  rw [getD_map _ _ _ default _ (by simpa using h), getD_reverse _ _ _ h]

section dec
variable [LT α] [LE α] [DecidableLT α] [DecidableLE α] [DecidableEq α]
/-- `scale` for a positive factor is `scaleRaw` -/
theorem scale_pos_eq (c c' : Curve α) (sx sy : α) (h : c.scale sx sy = some c') (hs : ¬ sx < 0) :
    c' = c.scaleRaw sx sy := by
  unfold Curve.scale at h
  by_cases h1 : absα sx ≤ rootEPS
  · rw [if_pos h1] at h; cases h
  · rw [if_neg h1] at h; simp only [if_neg hs, Option.some.injEq] at h
    rw [← h]; rfl
/-- `scale` for a negative factor is `scaleRaw` followed by `mirror` -/
theorem scale_neg_eq (c c' : Curve α) (sx sy : α) (h : c.scale sx sy = some c') (hs : sx < 0) :
    c' = (c.scaleRaw sx sy).mirror := by
  unfold Curve.scale at h
  by_cases h1 : absα sx ≤ rootEPS
  · rw [if_pos h1] at h; cases h
  · rw [if_neg h1] at h; simp only [if_pos hs, Option.some.injEq] at h
    rw [← h]; rfl
end dec
end curve
end Rbdl.L18C
