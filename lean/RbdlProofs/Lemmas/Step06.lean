import RbdlProofs.Lemmas.Joint06
/-
  C06, model level: `jcalc` writes the spatial velocity / acceleration of the joint's pose jet
  (`v_J`, `S q̈ + c_J`), and one step of the `UpdateKinematics` loop.
-/
namespace Rbdl.L06
open Lean.Grind Rbdl Rbdl.Spec
set_option linter.unusedSimpArgs false
set_option linter.unusedVariables false
set_option linter.unusedSectionVars false

section
variable {α : Type} [Field α]

theorem BodyForm.congr {k : NodeKin α} {V V' A A' : SV α} (h : BodyForm k V A) (hV : V = V')
    (hA : A = A') : BodyForm k V' A' := hV ▸ hA ▸ h

/-! ### the coordinate jets of one joint -/

theorem jointCoordJets_eq (m : ModelS α) (i : Nat) (st : QS α) (qd qdd : VecN α) :
    jointCoordJets m i st qd qdd
      = jetStep (stateOf st qd qdd) (baseJets (stateOf st qd qdd)) (nodeOfJoint m i) := rfl

theorem isQuatNode_of_ne (m : ModelS α) (i : Nat) (h : (m.joint i).jt ≠ .spherical) :
    isQuatNode (nodeOfJoint m i) = false := by
  unfold isQuatNode nodeOfJoint ModelS.sjoint
  dsimp only
  cases hj : (m.joint i).jt <;>
    first
    | rfl
    | exact absurd hj h
    | (cases m.custom (m.joint i).customIdx <;> rfl)

theorem isQuatNode_of_eq (m : ModelS α) (i : Nat) (h : (m.joint i).jt = .spherical) :
    isQuatNode (nodeOfJoint m i) = true := by
  unfold isQuatNode nodeOfJoint ModelS.sjoint
  dsimp only
  rw [h]

theorem jointCoordJets_nonquat (m : ModelS α) (i : Nat) (st : QS α) (qd qdd : VecN α)
    (h : (m.joint i).jt ≠ .spherical) :
    jointCoordJets m i st qd qdd = baseJets (stateOf st qd qdd) := by
  rw [jointCoordJets_eq]
  unfold jetStep
  rw [isQuatNode_of_ne m i h]
  simp only [Bool.false_eq_true, if_false]

/-! ### `Σ x_k col_k` for short column lists -/

theorem colsMul_one (c0 : SV α) (x : Nat → α) : colsMul [c0] x = SV.zero + x 0 * c0 := rfl
theorem colsMul_two (c0 c1 : SV α) (x : Nat → α) :
    colsMul [c0, c1] x = SV.zero + x 0 * c0 + x 1 * c1 := rfl
theorem colsMul_three (c0 c1 c2 : SV α) (x : Nat → α) :
    colsMul [c0, c1, c2] x = SV.zero + x 0 * c0 + x 1 * c1 + x 2 * c2 := rfl

/-! ### the workspace invariant `jcalc` relies on -/

/-- the translational rows of a `Matrix63` vanish -/
def vZero (S : M63 α) : Prop := S.c0.v = V3.zero ∧ S.c1.v = V3.zero ∧ S.c2.v = V3.zero

/-- Construction-time content of the workspace entries of joint `i` that `jcalc` reads or leaves
    untouched (established by `Model::AddBody`, never written afterwards), together with the
    number of degrees of freedom the joint was declared with:
    * revoluteX/Y/Z: the inactive components of `v_J[i]` are 0, `S[i]` is the unit axis, `c_J[i] = 0`;
    * revolute / prismatic: `S[i]` is the joint axis (purely angular / purely linear), `c_J[i] = 0`;
    * spherical: `c_J[i] = 0` and the entries of `multdof3_S[i]` outside the diagonal of the angular
      block are 0;  Euler / translationXYZ: the entries of `multdof3_S[i]` that `jcalc` does not
      write are 0. -/
def JointWS (m : ModelS α) (w : WS α) (i : Nat) : Prop :=
  let j := m.joint i
  let ax := j.axes.headD SV.zero
  let S := w.S3 i
  match j.jt with
  | .revoluteX => j.dof = 1 ∧ (w.v_J i).w.y = 0 ∧ (w.v_J i).w.z = 0 ∧ (w.v_J i).v = V3.zero ∧
      w.S i = sv6 1 0 0 0 0 0 ∧ w.c_J i = SV.zero
  | .revoluteY => j.dof = 1 ∧ (w.v_J i).w.x = 0 ∧ (w.v_J i).w.z = 0 ∧ (w.v_J i).v = V3.zero ∧
      w.S i = sv6 0 1 0 0 0 0 ∧ w.c_J i = SV.zero
  | .revoluteZ => j.dof = 1 ∧ (w.v_J i).w.x = 0 ∧ (w.v_J i).w.y = 0 ∧ (w.v_J i).v = V3.zero ∧
      w.S i = sv6 0 0 1 0 0 0 ∧ w.c_J i = SV.zero
  | .revolute => j.dof = 1 ∧ w.S i = ⟨ax.w, V3.zero⟩ ∧ w.c_J i = SV.zero
  | .prismatic => j.dof = 1 ∧ w.S i = ⟨V3.zero, ax.v⟩ ∧ w.c_J i = SV.zero
  | .helical => j.dof = 1
  | .spherical => j.dof = 3 ∧ w.c_J i = SV.zero ∧ vZero S ∧
      S.c0.w.y = 0 ∧ S.c0.w.z = 0 ∧ S.c1.w.x = 0 ∧ S.c1.w.z = 0 ∧ S.c2.w.x = 0 ∧ S.c2.w.y = 0
  | .eulerZYX => j.dof = 3 ∧ vZero S ∧ S.c1.w.x = 0 ∧ S.c2.w.y = 0 ∧ S.c2.w.z = 0
  | .eulerXYZ => j.dof = 3 ∧ vZero S ∧ S.c1.w.z = 0 ∧ S.c2.w.x = 0 ∧ S.c2.w.y = 0
  | .eulerYXZ => j.dof = 3 ∧ vZero S ∧ S.c1.w.z = 0 ∧ S.c2.w.x = 0 ∧ S.c2.w.y = 0
  | .eulerZXY => j.dof = 3 ∧ vZero S ∧ S.c1.w.y = 0 ∧ S.c2.w.x = 0 ∧ S.c2.w.z = 0
  | .translationXYZ => j.dof = 3 ∧ S.c0.w = V3.zero ∧ S.c1.w = V3.zero ∧ S.c2.w = V3.zero ∧
      S.c0.v.y = 0 ∧ S.c0.v.z = 0 ∧ S.c1.v.x = 0 ∧ S.c1.v.z = 0 ∧ S.c2.v.x = 0 ∧ S.c2.v.y = 0
  | _ => True

/-- "joint `i` moves as `jcalc` says": the pose jet prescribed by the joint *definition* has
    body-frame spatial velocity `v_J[i]` and spatial acceleration `S_i q̈ + c_J[i]` -/
def JointMotion (m : ModelS α) (w : WS α) (i : Nat) (st : QS α) (qd qdd : VecN α) : Prop :=
  BodyForm (NodeKin.ofPose (jointPoseJet m i st qd qdd)) ((jcalc m w i st qd).v_J i)
    (WS.Sqdd (jcalc m w i st qd) m i qdd + (jcalc m w i st qd).c_J i)

/-! ### one theorem per joint kind -/

theorem jm_revoluteX (m : ModelS α) (w : WS α) (i : Nat) (st : QS α) (qd qdd : VecN α)
    (h : (m.joint i).jt = .revoluteX)
    (hcs : st.c (m.joint i).qIndex * st.c (m.joint i).qIndex
      + st.s (m.joint i).qIndex * st.s (m.joint i).qIndex = 1)
    (hws : JointWS m w i) : JointMotion m w i st qd qdd := by
  simp only [JointWS, h] at hws
  obtain ⟨hdof, h1, h2, h3, hS, hc⟩ := hws
  simp only [V3.ext_iff, alg] at h3
  have hp : jointPoseJet m i st qd qdd = ⟨rodrigues
      (D2.cosJ (st.c (m.joint i).qIndex) (st.s (m.joint i).qIndex) (qd (m.joint i).qIndex)
        (qdd (m.joint i).qIndex))
      (D2.sinJ (st.c (m.joint i).qIndex) (st.s (m.joint i).qIndex) (qd (m.joint i).qIndex)
        (qdd (m.joint i).qIndex)) (constV ⟨1, 0, 0⟩), V3.zero⟩ := by
    simp only [jointPoseJet, jointCoordJets_nonquat m i st qd qdd (by rw [h]; decide),
      ModelS.sjoint, h, jointPose, baseJets, stateOf, constV]
  unfold JointMotion
  rw [hp]
  refine (bf_revolute _ _ _ _ ⟨1, 0, 0⟩ hcs (by simp only [alg]; grind)).congr ?_ ?_
  · simp only [jcalc, h, upd_same]
    ext <;> simp only [alg] <;> grind
  · simp only [WS.Sqdd, ModelS.arity, h, hdof, jcalc, upd_same, hS, hc, reduceCtorEq, if_false,
      if_true]
    ext <;> simp only [alg, sv6] <;> grind


theorem jm_revoluteY (m : ModelS α) (w : WS α) (i : Nat) (st : QS α) (qd qdd : VecN α)
    (h : (m.joint i).jt = .revoluteY)
    (hcs : st.c (m.joint i).qIndex * st.c (m.joint i).qIndex
      + st.s (m.joint i).qIndex * st.s (m.joint i).qIndex = 1)
    (hws : JointWS m w i) : JointMotion m w i st qd qdd := by
  simp only [JointWS, h] at hws
  obtain ⟨hdof, h1, h2, h3, hS, hc⟩ := hws
  simp only [V3.ext_iff, alg] at h3
  unfold JointMotion
  simp only [jointPoseJet, jointCoordJets_nonquat m i st qd qdd (by rw [h]; decide),
    ModelS.sjoint, h, jointPose, baseJets, stateOf]
  refine (bf_revolute _ _ _ _ ⟨0, 1, 0⟩ hcs (by simp only [alg]; grind)).congr ?_ ?_
  · simp only [jcalc, h, upd_same]
    ext <;> simp only [alg] <;> grind
  · simp only [WS.Sqdd, ModelS.arity, h, hdof, jcalc, upd_same, hS, hc, reduceCtorEq, if_false,
      if_true]
    ext <;> simp only [alg, sv6] <;> grind

theorem jm_revoluteZ (m : ModelS α) (w : WS α) (i : Nat) (st : QS α) (qd qdd : VecN α)
    (h : (m.joint i).jt = .revoluteZ)
    (hcs : st.c (m.joint i).qIndex * st.c (m.joint i).qIndex
      + st.s (m.joint i).qIndex * st.s (m.joint i).qIndex = 1)
    (hws : JointWS m w i) : JointMotion m w i st qd qdd := by
  simp only [JointWS, h] at hws
  obtain ⟨hdof, h1, h2, h3, hS, hc⟩ := hws
  simp only [V3.ext_iff, alg] at h3
  unfold JointMotion
  simp only [jointPoseJet, jointCoordJets_nonquat m i st qd qdd (by rw [h]; decide),
    ModelS.sjoint, h, jointPose, baseJets, stateOf]
  refine (bf_revolute _ _ _ _ ⟨0, 0, 1⟩ hcs (by simp only [alg]; grind)).congr ?_ ?_
  · simp only [jcalc, h, upd_same]
    ext <;> simp only [alg] <;> grind
  · simp only [WS.Sqdd, ModelS.arity, h, hdof, jcalc, upd_same, hS, hc, reduceCtorEq, if_false,
      if_true]
    ext <;> simp only [alg, sv6] <;> grind

/-- revolute joint about a unit axis -/
theorem jm_revolute (m : ModelS α) (w : WS α) (i : Nat) (st : QS α) (qd qdd : VecN α)
    (h : (m.joint i).jt = .revolute)
    (hcs : st.c (m.joint i).qIndex * st.c (m.joint i).qIndex
      + st.s (m.joint i).qIndex * st.s (m.joint i).qIndex = 1)
    (hax : ((m.joint i).axes.headD SV.zero).w.nrm2 = 1)
    (hws : JointWS m w i) : JointMotion m w i st qd qdd := by
  simp only [JointWS, h] at hws
  obtain ⟨hdof, hS, hc⟩ := hws
  unfold JointMotion
  simp only [jointPoseJet, jointCoordJets_nonquat m i st qd qdd (by rw [h]; decide),
    ModelS.sjoint, h, jointPose, baseJets, stateOf]
  refine (bf_revolute _ _ _ _ _ hcs hax).congr ?_ ?_
  · simp only [jcalc, h, upd_same, hS]
    ext <;> simp only [alg] <;> grind
  · simp only [WS.Sqdd, ModelS.arity, h, hdof, jcalc, upd_same, hS, hc, reduceCtorEq, if_false,
      if_true]
    ext <;> simp only [alg] <;> grind

theorem jm_prismatic (m : ModelS α) (w : WS α) (i : Nat) (st : QS α) (qd qdd : VecN α)
    (h : (m.joint i).jt = .prismatic)
    (hws : JointWS m w i) : JointMotion m w i st qd qdd := by
  simp only [JointWS, h] at hws
  obtain ⟨hdof, hS, hc⟩ := hws
  unfold JointMotion
  simp only [jointPoseJet, jointCoordJets_nonquat m i st qd qdd (by rw [h]; decide),
    ModelS.sjoint, h, jointPose, baseJets, stateOf]
  refine (bf_prismatic _ _ _ _).congr ?_ ?_
  · simp only [jcalc, h, upd_same, hS]
    ext <;> simp only [alg] <;> grind
  · simp only [WS.Sqdd, ModelS.arity, h, hdof, jcalc, upd_same, hS, hc, reduceCtorEq, if_false,
      if_true]
    ext <;> simp only [alg] <;> grind

theorem jm_helical (m : ModelS α) (w : WS α) (i : Nat) (st : QS α) (qd qdd : VecN α)
    (h : (m.joint i).jt = .helical)
    (hcs : st.c (m.joint i).qIndex * st.c (m.joint i).qIndex
      + st.s (m.joint i).qIndex * st.s (m.joint i).qIndex = 1)
    (hax : ((m.joint i).axes.headD SV.zero).w.nrm2 = 1)
    (hws : JointWS m w i) : JointMotion m w i st qd qdd := by
  simp only [JointWS, h] at hws
  unfold JointMotion
  simp only [jointPoseJet, jointCoordJets_nonquat m i st qd qdd (by rw [h]; decide),
    ModelS.sjoint, h, jointPose, baseJets, stateOf]
  refine (bf_helical _ _ _ _ _ _ _ hcs hax).congr ?_ ?_
  · simp only [jcalc, jcalcXJ, h, upd_same]
    ext <;> simp only [alg] <;> grind
  · simp only [WS.Sqdd, ModelS.arity, h, hws, jcalc, jcalcXJ, upd_same, reduceCtorEq, if_false,
      if_true]
    ext <;> simp only [alg] <;> grind

/-! Euler-angle joints -/

theorem jm_eulerZYX (m : ModelS α) (w : WS α) (i : Nat) (st : QS α) (qd qdd : VecN α)
    (h : (m.joint i).jt = .eulerZYX)
    (h0 : st.c (m.joint i).qIndex * st.c (m.joint i).qIndex
      + st.s (m.joint i).qIndex * st.s (m.joint i).qIndex = 1)
    (h1 : st.c ((m.joint i).qIndex + 1) * st.c ((m.joint i).qIndex + 1)
      + st.s ((m.joint i).qIndex + 1) * st.s ((m.joint i).qIndex + 1) = 1)
    (h2 : st.c ((m.joint i).qIndex + 2) * st.c ((m.joint i).qIndex + 2)
      + st.s ((m.joint i).qIndex + 2) * st.s ((m.joint i).qIndex + 2) = 1)
    (hws : JointWS m w i) : JointMotion m w i st qd qdd := by
  simp only [JointWS, h, vZero, V3.ext_iff, alg] at hws
  obtain ⟨hdof, ⟨⟨z1, z2, z3⟩, ⟨z4, z5, z6⟩, z7, z8, z9⟩, y1, y2, y3⟩ := hws
  unfold JointMotion
  simp only [jointPoseJet, jointCoordJets_nonquat m i st qd qdd (by rw [h]; decide),
    ModelS.sjoint, h, jointPose, baseJets, stateOf]
  refine (bf_eulerZYX _ _ _ _ _ _ _ _ _ _ _ _ h0 h1 h2).congr ?_ ?_
  · simp only [jcalc, h, upd_same]
    ext <;> simp only [alg, eulerZYX_S, M63.setW] <;> grind
  · simp only [WS.Sqdd, ModelS.arity, h, hdof, jcalc, upd_same, reduceCtorEq, if_false, if_true]
    ext <;> simp only [alg, eulerZYX_S, M63.setW, eulerZYX_cJ] <;> grind

theorem jm_eulerXYZ (m : ModelS α) (w : WS α) (i : Nat) (st : QS α) (qd qdd : VecN α)
    (h : (m.joint i).jt = .eulerXYZ)
    (h0 : st.c (m.joint i).qIndex * st.c (m.joint i).qIndex
      + st.s (m.joint i).qIndex * st.s (m.joint i).qIndex = 1)
    (h1 : st.c ((m.joint i).qIndex + 1) * st.c ((m.joint i).qIndex + 1)
      + st.s ((m.joint i).qIndex + 1) * st.s ((m.joint i).qIndex + 1) = 1)
    (h2 : st.c ((m.joint i).qIndex + 2) * st.c ((m.joint i).qIndex + 2)
      + st.s ((m.joint i).qIndex + 2) * st.s ((m.joint i).qIndex + 2) = 1)
    (hws : JointWS m w i) : JointMotion m w i st qd qdd := by
  simp only [JointWS, h, vZero, V3.ext_iff, alg] at hws
  obtain ⟨hdof, ⟨⟨z1, z2, z3⟩, ⟨z4, z5, z6⟩, z7, z8, z9⟩, y1, y2, y3⟩ := hws
  unfold JointMotion
  simp only [jointPoseJet, jointCoordJets_nonquat m i st qd qdd (by rw [h]; decide),
    ModelS.sjoint, h, jointPose, baseJets, stateOf]
  refine (bf_eulerXYZ _ _ _ _ _ _ _ _ _ _ _ _ h0 h1 h2).congr ?_ ?_
  · simp only [jcalc, h, upd_same]
    ext <;> simp only [alg, eulerXYZ_S, M63.setW] <;> grind
  · simp only [WS.Sqdd, ModelS.arity, h, hdof, jcalc, upd_same, reduceCtorEq, if_false, if_true]
    ext <;> simp only [alg, eulerXYZ_S, M63.setW, eulerXYZ_cJ] <;> grind

theorem jm_eulerYXZ (m : ModelS α) (w : WS α) (i : Nat) (st : QS α) (qd qdd : VecN α)
    (h : (m.joint i).jt = .eulerYXZ)
    (h0 : st.c (m.joint i).qIndex * st.c (m.joint i).qIndex
      + st.s (m.joint i).qIndex * st.s (m.joint i).qIndex = 1)
    (h1 : st.c ((m.joint i).qIndex + 1) * st.c ((m.joint i).qIndex + 1)
      + st.s ((m.joint i).qIndex + 1) * st.s ((m.joint i).qIndex + 1) = 1)
    (h2 : st.c ((m.joint i).qIndex + 2) * st.c ((m.joint i).qIndex + 2)
      + st.s ((m.joint i).qIndex + 2) * st.s ((m.joint i).qIndex + 2) = 1)
    (hws : JointWS m w i) : JointMotion m w i st qd qdd := by
  simp only [JointWS, h, vZero, V3.ext_iff, alg] at hws
  obtain ⟨hdof, ⟨⟨z1, z2, z3⟩, ⟨z4, z5, z6⟩, z7, z8, z9⟩, y1, y2, y3⟩ := hws
  unfold JointMotion
  simp only [jointPoseJet, jointCoordJets_nonquat m i st qd qdd (by rw [h]; decide),
    ModelS.sjoint, h, jointPose, baseJets, stateOf]
  refine (bf_eulerYXZ _ _ _ _ _ _ _ _ _ _ _ _ h0 h1 h2).congr ?_ ?_
  · simp only [jcalc, h, upd_same]
    ext <;> simp only [alg, eulerYXZ_S, M63.setW] <;> grind
  · simp only [WS.Sqdd, ModelS.arity, h, hdof, jcalc, upd_same, reduceCtorEq, if_false, if_true]
    ext <;> simp only [alg, eulerYXZ_S, M63.setW, eulerYXZ_cJ] <;> grind

theorem jm_eulerZXY (m : ModelS α) (w : WS α) (i : Nat) (st : QS α) (qd qdd : VecN α)
    (h : (m.joint i).jt = .eulerZXY)
    (h0 : st.c (m.joint i).qIndex * st.c (m.joint i).qIndex
      + st.s (m.joint i).qIndex * st.s (m.joint i).qIndex = 1)
    (h1 : st.c ((m.joint i).qIndex + 1) * st.c ((m.joint i).qIndex + 1)
      + st.s ((m.joint i).qIndex + 1) * st.s ((m.joint i).qIndex + 1) = 1)
    (h2 : st.c ((m.joint i).qIndex + 2) * st.c ((m.joint i).qIndex + 2)
      + st.s ((m.joint i).qIndex + 2) * st.s ((m.joint i).qIndex + 2) = 1)
    (hws : JointWS m w i) : JointMotion m w i st qd qdd := by
  simp only [JointWS, h, vZero, V3.ext_iff, alg] at hws
  obtain ⟨hdof, ⟨⟨z1, z2, z3⟩, ⟨z4, z5, z6⟩, z7, z8, z9⟩, y1, y2, y3⟩ := hws
  unfold JointMotion
  simp only [jointPoseJet, jointCoordJets_nonquat m i st qd qdd (by rw [h]; decide),
    ModelS.sjoint, h, jointPose, baseJets, stateOf]
  refine (bf_eulerZXY _ _ _ _ _ _ _ _ _ _ _ _ h0 h1 h2).congr ?_ ?_
  · simp only [jcalc, h, upd_same]
    ext <;> simp only [alg, eulerZXY_S, M63.setW] <;> grind
  · simp only [WS.Sqdd, ModelS.arity, h, hdof, jcalc, upd_same, reduceCtorEq, if_false, if_true]
    ext <;> simp only [alg, eulerZXY_S, M63.setW, eulerZXY_cJ] <;> grind

theorem jm_translationXYZ (m : ModelS α) (w : WS α) (i : Nat) (st : QS α) (qd qdd : VecN α)
    (h : (m.joint i).jt = .translationXYZ)
    (hws : JointWS m w i) : JointMotion m w i st qd qdd := by
  simp only [JointWS, h, V3.ext_iff, alg] at hws
  obtain ⟨hdof, ⟨z1, z2, z3⟩, ⟨z4, z5, z6⟩, ⟨z7, z8, z9⟩, y1, y2, y3, y4, y5, y6⟩ := hws
  unfold JointMotion
  simp only [jointPoseJet, jointCoordJets_nonquat m i st qd qdd (by rw [h]; decide),
    ModelS.sjoint, h, jointPose, baseJets, stateOf]
  refine (bf_translationXYZ _ _ _ _ _ _ _ _ _).congr ?_ ?_
  · simp only [jcalc, h, upd_same]
    ext <;> simp only [alg, translationS] <;> grind
  · simp only [WS.Sqdd, ModelS.arity, h, hdof, jcalc, upd_same, reduceCtorEq, if_false, if_true]
    ext <;> simp only [alg, translationS] <;> grind


/-! custom joints of the harness -/

theorem jm_custom_revX (m : ModelS α) (w : WS α) (i : Nat) (st : QS α) (qd qdd : VecN α)
    (h : (m.joint i).jt = .custom) (hc : m.custom (m.joint i).customIdx = .revX)
    (hcs : st.c (m.joint i).qIndex * st.c (m.joint i).qIndex
      + st.s (m.joint i).qIndex * st.s (m.joint i).qIndex = 1) :
    JointMotion m w i st qd qdd := by
  unfold JointMotion
  simp only [jointPoseJet, jointCoordJets_nonquat m i st qd qdd (by rw [h]; decide),
    ModelS.sjoint, h, hc, jointPose, baseJets, stateOf]
  refine (bf_revolute _ _ _ _ ⟨1, 0, 0⟩ hcs (by simp only [alg]; grind)).congr ?_ ?_
  · simp only [jcalc, h, hc, customCalc, upd_same, colsMul_one, Nat.add_zero]
    ext <;> simp only [alg, sv6] <;> grind
  · simp only [WS.Sqdd, ModelS.arity, h, hc, jcalc, customCalc, upd_same, colsMul_one,
      Nat.add_zero, if_true]
    ext <;> simp only [alg, sv6] <;> grind

theorem jm_custom_eulerZYX (m : ModelS α) (w : WS α) (i : Nat) (st : QS α) (qd qdd : VecN α)
    (h : (m.joint i).jt = .custom) (hc : m.custom (m.joint i).customIdx = .eulerZYX)
    (h0 : st.c (m.joint i).qIndex * st.c (m.joint i).qIndex
      + st.s (m.joint i).qIndex * st.s (m.joint i).qIndex = 1)
    (h1 : st.c ((m.joint i).qIndex + 1) * st.c ((m.joint i).qIndex + 1)
      + st.s ((m.joint i).qIndex + 1) * st.s ((m.joint i).qIndex + 1) = 1)
    (h2 : st.c ((m.joint i).qIndex + 2) * st.c ((m.joint i).qIndex + 2)
      + st.s ((m.joint i).qIndex + 2) * st.s ((m.joint i).qIndex + 2) = 1) :
    JointMotion m w i st qd qdd := by
  unfold JointMotion
  simp only [jointPoseJet, jointCoordJets_nonquat m i st qd qdd (by rw [h]; decide),
    ModelS.sjoint, h, hc, jointPose, baseJets, stateOf]
  refine (bf_eulerZYX _ _ _ _ _ _ _ _ _ _ _ _ h0 h1 h2).congr ?_ ?_
  · simp only [jcalc, h, hc, customCalc, upd_same, M63.cols, colsMul_three, Nat.add_zero]
    ext <;> simp only [alg, eulerZYX_S, M63.setW] <;> grind
  · simp only [WS.Sqdd, ModelS.arity, h, hc, jcalc, customCalc, upd_same, M63.cols, colsMul_three,
      Nat.add_zero, if_true]
    ext <;> simp only [alg, eulerZYX_S, M63.setW, eulerZYX_cJ] <;> grind

theorem jm_custom_cyl (m : ModelS α) (w : WS α) (i : Nat) (st : QS α) (qd qdd : VecN α)
    (h : (m.joint i).jt = .custom) (hc : m.custom (m.joint i).customIdx = .cyl)
    (hcs : st.c (m.joint i).qIndex * st.c (m.joint i).qIndex
      + st.s (m.joint i).qIndex * st.s (m.joint i).qIndex = 1) :
    JointMotion m w i st qd qdd := by
  unfold JointMotion
  simp only [jointPoseJet, jointCoordJets_nonquat m i st qd qdd (by rw [h]; decide),
    ModelS.sjoint, h, hc, jointPose, baseJets, stateOf]
  refine (bf_cylZ _ _ _ _ _ _ _ hcs).congr ?_ ?_
  · simp only [jcalc, h, hc, customCalc, upd_same, colsMul_two, Nat.add_zero]
    ext <;> simp only [alg, sv6] <;> grind
  · simp only [WS.Sqdd, ModelS.arity, h, hc, jcalc, customCalc, upd_same, colsMul_two,
      Nat.add_zero, if_true]
    ext <;> simp only [alg, sv6] <;> grind

/-! spherical joint -/

/-- the quaternion jet of `Spec.coordJets` (`Q̇ = ½ Q ⊗ (ω,0)`, `Q̈ = ½ Q̇ ⊗ (ω,0) + ½ Q ⊗ (ω̇,0)`),
    with the factor `½` written as a multiplication by `h` -/
def sphJet (h : α) (Q : Quat α) (o od : V3 α) : Quat (D2 α) :=
  ⟨⟨Q.x, (quatDh h Q o).x, (quatDh h (quatDh h Q o) o).x + (quatDh h Q od).x⟩,
   ⟨Q.y, (quatDh h Q o).y, (quatDh h (quatDh h Q o) o).y + (quatDh h Q od).y⟩,
   ⟨Q.z, (quatDh h Q o).z, (quatDh h (quatDh h Q o) o).z + (quatDh h Q od).z⟩,
   ⟨Q.w, (quatDh h Q o).w, (quatDh h (quatDh h Q o) o).w + (quatDh h Q od).w⟩⟩

theorem bf_spherical (h2 : (2 : α) ≠ 0) (Q : Quat α) (hQ : Q.nrm2 = 1) (o od : V3 α) :
    BodyForm (NodeKin.ofPose
        ⟨quatRot (sphJet (2 : α)⁻¹ Q o od).x (sphJet (2 : α)⁻¹ Q o od).y
          (sphJet (2 : α)⁻¹ Q o od).z (sphJet (2 : α)⁻¹ Q o od).w, V3.zero⟩)
      ⟨o, V3.zero⟩ ⟨od, V3.zero⟩ :=
  bf_spherical_h _ (Field.mul_inv_cancel h2) Q hQ o od

theorem jointCoordJets_quat (m : ModelS α) (i : Nat) (st : QS α) (qd qdd : VecN α)
    (h : (m.joint i).jt = .spherical) (hw : (m.joint i).qIndex + 2 < m.w3 i) :
    (jointCoordJets m i st qd qdd).q (m.joint i).qIndex
      = (sphJet (2 : α)⁻¹ (getQuaternion m i st.q)
          ⟨qd (m.joint i).qIndex, qd ((m.joint i).qIndex + 1), qd ((m.joint i).qIndex + 2)⟩
          ⟨qdd (m.joint i).qIndex, qdd ((m.joint i).qIndex + 1), qdd ((m.joint i).qIndex + 2)⟩).x ∧
    (jointCoordJets m i st qd qdd).q ((m.joint i).qIndex + 1)
      = (sphJet (2 : α)⁻¹ (getQuaternion m i st.q)
          ⟨qd (m.joint i).qIndex, qd ((m.joint i).qIndex + 1), qd ((m.joint i).qIndex + 2)⟩
          ⟨qdd (m.joint i).qIndex, qdd ((m.joint i).qIndex + 1), qdd ((m.joint i).qIndex + 2)⟩).y ∧
    (jointCoordJets m i st qd qdd).q ((m.joint i).qIndex + 2)
      = (sphJet (2 : α)⁻¹ (getQuaternion m i st.q)
          ⟨qd (m.joint i).qIndex, qd ((m.joint i).qIndex + 1), qd ((m.joint i).qIndex + 2)⟩
          ⟨qdd (m.joint i).qIndex, qdd ((m.joint i).qIndex + 1), qdd ((m.joint i).qIndex + 2)⟩).z ∧
    (jointCoordJets m i st qd qdd).q (m.w3 i)
      = (sphJet (2 : α)⁻¹ (getQuaternion m i st.q)
          ⟨qd (m.joint i).qIndex, qd ((m.joint i).qIndex + 1), qd ((m.joint i).qIndex + 2)⟩
          ⟨qdd (m.joint i).qIndex, qdd ((m.joint i).qIndex + 1), qdd ((m.joint i).qIndex + 2)⟩).w := by
  have n1 : m.w3 i ≠ (m.joint i).qIndex := by omega
  have n2 : m.w3 i ≠ (m.joint i).qIndex + 1 := by omega
  have n3 : m.w3 i ≠ (m.joint i).qIndex + 2 := by omega
  rw [jointCoordJets_eq]
  unfold jetStep
  rw [isQuatNode_of_eq m i h]
  refine ⟨?_, ?_, ?_, ?_⟩ <;>
    simp [nodeOfJoint, stateOf, sphJet, quatDh, getQuaternion, Field.div_eq_mul_inv, n1, n2, n3]

theorem jm_spherical (m : ModelS α) (w : WS α) (i : Nat) (st : QS α) (qd qdd : VecN α)
    (h2 : (2 : α) ≠ 0)
    (h : (m.joint i).jt = .spherical) (hw : (m.joint i).qIndex + 2 < m.w3 i)
    (hQ : (getQuaternion m i st.q).nrm2 = 1)
    (hws : JointWS m w i) : JointMotion m w i st qd qdd := by
  simp only [JointWS, h, vZero, V3.ext_iff, alg] at hws
  obtain ⟨hdof, hc, ⟨⟨z1, z2, z3⟩, ⟨z4, z5, z6⟩, z7, z8, z9⟩, y1, y2, y3, y4, y5, y6⟩ := hws
  obtain ⟨e0, e1, e2, e3⟩ := jointCoordJets_quat m i st qd qdd h hw
  unfold JointMotion
  simp only [jointPoseJet, ModelS.sjoint, h, jointPose]
  rw [e0, e1, e2, e3]
  refine (bf_spherical h2 _ hQ _ _).congr ?_ ?_
  · simp only [jcalc, h, upd_same]
  · simp only [WS.Sqdd, ModelS.arity, h, hdof, jcalc, upd_same, hc, reduceCtorEq, if_false, if_true]
    ext <;> simp only [alg, sphericalS, M63.setW] <;> grind


/-! ### all joint kinds at once -/

/-- every joint type handled by `jcalc`: the pose jet of the joint definition has spatial velocity
    `v_J[i]` and spatial acceleration `S_i q̈ + c_J[i]` -/
theorem jointMotion (m : ModelS α) (w : WS α) (i : Nat) (st : QS α) (qd qdd : VecN α)
    (h2 : (2 : α) ≠ 0) (hj : (m.joint i).jt.hasJcalc = true) (hu : m.jointUnit i st)
    (hws : JointWS m w i)
    (hw3 : (m.joint i).jt = .spherical → (m.joint i).qIndex + 2 < m.w3 i) :
    JointMotion m w i st qd qdd := by
  unfold ModelS.jointUnit at hu
  dsimp only at hu
  cases h : (m.joint i).jt <;> simp only [h, JT.hasJcalc, Bool.false_eq_true] at hj <;>
    simp only [h] at hu
  case revoluteX => exact jm_revoluteX m w i st qd qdd h hu hws
  case revoluteY => exact jm_revoluteY m w i st qd qdd h hu hws
  case revoluteZ => exact jm_revoluteZ m w i st qd qdd h hu hws
  case revolute => exact jm_revolute m w i st qd qdd h hu.1 hu.2 hws
  case prismatic => exact jm_prismatic m w i st qd qdd h hws
  case helical => exact jm_helical m w i st qd qdd h hu.1 hu.2 hws
  case spherical => exact jm_spherical m w i st qd qdd h2 h (hw3 h) hu hws
  case eulerZYX => exact jm_eulerZYX m w i st qd qdd h hu.1 hu.2.1 hu.2.2 hws
  case eulerXYZ => exact jm_eulerXYZ m w i st qd qdd h hu.1 hu.2.1 hu.2.2 hws
  case eulerYXZ => exact jm_eulerYXZ m w i st qd qdd h hu.1 hu.2.1 hu.2.2 hws
  case eulerZXY => exact jm_eulerZXY m w i st qd qdd h hu.1 hu.2.1 hu.2.2 hws
  case translationXYZ => exact jm_translationXYZ m w i st qd qdd h hws
  case custom =>
    cases hc : m.custom (m.joint i).customIdx <;> simp only [hc] at hu
    · exact jm_custom_revX m w i st qd qdd h hc hu
    · exact jm_custom_eulerZYX m w i st qd qdd h hc hu.1 hu.2.1 hu.2.2
    · exact jm_custom_cyl m w i st qd qdd h hc hu

/-! ### the value part of the joint pose jet is the pose `jcalc` realises -/

/-- value part of a pose jet -/
def poseVal (P : Pose (D2 α)) : Pose α := ⟨M3.mapD2 (·.x) P.R, V3.mapD2 (·.x) P.p⟩

theorem poseOfXT_xtOfKin (P : Pose (D2 α)) :
    poseOfXT (xtOfKin (NodeKin.ofPose P)) = poseVal P := rfl

theorem jointPose_val (J : SJoint α) (k wk : Nat) (cs : Coords (D2 α)) :
    poseVal (jointPose D2.const J k wk cs)
      = jointPose id J k wk
          ⟨fun n => (cs.q n).x, fun n => (cs.c n).x, fun n => (cs.s n).x⟩ := by
  cases J with
  | euler o =>
    cases o <;>
      (ext <;> simp only [poseVal, jointPose, Pose.id, id] <;> (try jet06_simp) <;> (try grind))
  | _ => ext <;> simp only [poseVal, jointPose, Pose.id, id] <;> (try jet06_simp) <;> (try grind)

theorem jointCoordJets_val (m : ModelS α) (i : Nat) (st : QS α) (qd qdd : VecN α) :
    (⟨fun n => ((jointCoordJets m i st qd qdd).q n).x,
      fun n => ((jointCoordJets m i st qd qdd).c n).x,
      fun n => ((jointCoordJets m i st qd qdd).s n).x⟩ : Coords α) = coordsOf st := by
  rw [jointCoordJets_eq]
  unfold jetStep coordsOf
  split
  · simp only [baseJets, stateOf, D2.cosJ, D2.sinJ]
    congr 1
    funext n
    (repeat' split) <;> first | rfl | (subst_vars; rfl)
  · simp only [baseJets, stateOf, D2.cosJ, D2.sinJ]

theorem poseOfXT_inj {X Y : XT α} (h : poseOfXT X = poseOfXT Y) : X = Y := by
  have h1 : X.E.transpose = Y.E.transpose := congrArg Pose.R h
  have h2 : X.r = Y.r := congrArg Pose.p h
  have h3 : X.E = Y.E := congrArg M3.transpose h1
  cases X; cases Y; simp only at h2 h3; rw [h2, h3]

/-- `X_lambda[i]` after `jcalc` = (value part of the joint pose jet) ∘ (joint frame) -/
theorem jcalc_X_lambda_joint (m : ModelS α) (w : WS α) (i : Nat) (st : QS α) (qd qd' qdd : VecN α)
    (hj : (m.joint i).jt.hasJcalc = true) :
    (jcalc m w i st qd).X_lambda i
      = xtOfKin (NodeKin.ofPose (jointPoseJet m i st qd' qdd)) * m.XT_ i := by
  apply poseOfXT_inj
  rw [poseOfXT_mul', poseOfXT_xtOfKin, jcalc_X_lambda, upd_same, jcalcX_pose m i st _ hj,
    framePose_id]
  unfold jointPoseJet
  rw [jointPose_val, jointCoordJets_val]

/-! ### the constant joint frame -/

theorem bf_frame (m : ModelS α) (i : Nat) (hE : (m.XT_ i).E.IsRot) :
    BodyForm (NodeKin.ofPose (framePoseJet m i)) SV.zero SV.zero :=
  bodyForm_const (k := NodeKin.ofPose (framePoseJet m i)) hE.transpose rfl rfl rfl rfl

theorem xtOfKin_frame (m : ModelS α) (i : Nat) :
    xtOfKin (NodeKin.ofPose (framePoseJet m i)) = m.XT_ i := rfl

theorem xtOfKin_compKin (a b : NodeKin α) : xtOfKin (compKin a b) = xtOfKin b * xtOfKin a := by
  ext <;> simp only [xtOfKin, compKin, alg] <;> grind

/-! ### one iteration of the `UpdateKinematics` loop -/

/-- body of the loop of `updateKinematics` -/
def ukBody (m : ModelS α) (st : QS α) (qd qdd : VecN α) (i : Nat) (w : WS α) : WS α :=
  let lam := m.lam i
  let w := jcalc m w i st qd
  let w := if lam ≠ 0 then
      { w with X_base := upd w.X_base i (w.X_lambda i * w.X_base lam)
               v := upd w.v i ((w.X_lambda i).apply (w.v lam) + w.v_J i) }
    else
      { w with X_base := upd w.X_base i (w.X_lambda i)
               v := upd w.v i (w.v_J i) }
  let w := { w with c := upd w.c i (w.c_J i + crossm (w.v i) (w.v_J i)) }
  let a0 := (w.X_lambda i).apply (w.a lam) + w.c i
  let a1 := match m.arity i with
    | .other => a0
    | _ => a0 + w.Sqdd m i qdd
  { w with a := upd w.a i a1 }

theorem uk_eq_forUp (m : ModelS α) (w : WS α) (st : QS α) (qd qdd : VecN α) :
    updateKinematics m w st qd qdd
      = forUp (m.nBodies - 1) 1 (ukBody m st qd qdd) { w with a := upd w.a 0 SV.zero } := rfl

theorem jcalc_v (m : ModelS α) (w : WS α) (i : Nat) (st : QS α) (qd : VecN α) :
    (jcalc m w i st qd).v = w.v := by
  unfold jcalc
  dsimp only
  cases h : (m.joint i).jt <;> rfl

theorem jcalc_a (m : ModelS α) (w : WS α) (i : Nat) (st : QS α) (qd : VecN α) :
    (jcalc m w i st qd).a = w.a := by
  unfold jcalc
  dsimp only
  cases h : (m.joint i).jt <;> rfl

theorem sv_add_zero (x : SV α) : x + SV.zero = x := by alg_ext

/-- what one iteration writes into `v[i]` and `a[i]` -/
theorem ukBody_va (m : ModelS α) (st : QS α) (qd qdd : VecN α) (i : Nat) (w : WS α) :
    (ukBody m st qd qdd i w).v i
      = (if m.lam i ≠ 0 then
          ((jcalc m w i st qd).X_lambda i).apply (w.v (m.lam i)) + (jcalc m w i st qd).v_J i
        else (jcalc m w i st qd).v_J i) ∧
    (ukBody m st qd qdd i w).a i
      = ((jcalc m w i st qd).X_lambda i).apply (w.a (m.lam i))
        + ((jcalc m w i st qd).c_J i
            + crossm (if m.lam i ≠ 0 then
                ((jcalc m w i st qd).X_lambda i).apply (w.v (m.lam i)) + (jcalc m w i st qd).v_J i
              else (jcalc m w i st qd).v_J i) ((jcalc m w i st qd).v_J i))
        + WS.Sqdd (jcalc m w i st qd) m i qdd := by
  unfold ukBody
  by_cases hl : m.lam i ≠ 0
  · cases ha : m.arity i <;>
      simp only [if_pos hl, upd_same, jcalc_v, jcalc_a, WS.Sqdd, ha, sv_add_zero, and_self]
  · cases ha : m.arity i <;>
      simp only [if_neg hl, upd_same, jcalc_v, jcalc_a, WS.Sqdd, ha, sv_add_zero, and_self]

theorem sv_step_v (X XJ : XT α) (Vl vJ : SV α) :
    X.apply Vl + (XJ.apply SV.zero + vJ) = X.apply Vl + vJ := by alg_ext
theorem sv_step_v0 (X XJ : XT α) (vJ : SV α) :
    X.apply SV.zero + (XJ.apply SV.zero + vJ) = vJ := by alg_ext
theorem sv_step_a (X XJ : XT α) (Al vi vJ S cJ : SV α) :
    X.apply Al + (XJ.apply SV.zero + (S + cJ) + crossm (XJ.apply SV.zero + vJ) vJ)
        + crossm vi (XJ.apply SV.zero + vJ)
      = X.apply Al + (cJ + crossm vi vJ) + S := by alg_ext

/-- **one step of the loop, in body form**: if `(v[λ], a[λ])` are the spatial velocity /
    acceleration of the parent's pose jet `Pl` (for `λ = 0` the velocity of the base is taken to be
    0, as the code does), then the iteration writes those of the child's pose jet
    `Pl ∘ frame ∘ joint` into `(v[i], a[i])`. -/
theorem step_bodyForm (m : ModelS α) (w : WS α) (i : Nat) (st : QS α) (qd qdd : VecN α)
    (hj : (m.joint i).jt.hasJcalc = true) (hE : (m.XT_ i).E.IsRot)
    (hjm : JointMotion m w i st qd qdd) (Pl : Pose (D2 α))
    (hP : BodyForm (NodeKin.ofPose Pl) (if m.lam i ≠ 0 then w.v (m.lam i) else SV.zero)
      (w.a (m.lam i))) :
    BodyForm
      (NodeKin.ofPose (Pl.comp ((framePoseJet m i).comp (jointPoseJet m i st qd qdd))))
      ((ukBody m st qd qdd i w).v i) ((ukBody m st qd qdd i w).a i) := by
  have hall := hP.comp ((bf_frame m i hE).comp hjm)
  have hX : xtOfKin (compKin (NodeKin.ofPose (framePoseJet m i))
        (NodeKin.ofPose (jointPoseJet m i st qd qdd))) = (jcalc m w i st qd).X_lambda i := by
    rw [xtOfKin_compKin, xtOfKin_frame, ← jcalc_X_lambda_joint m w i st qd qd qdd hj]
  obtain ⟨ev, ea⟩ := ukBody_va m st qd qdd i w
  have hV : (xtOfKin (compKin (NodeKin.ofPose (framePoseJet m i))
        (NodeKin.ofPose (jointPoseJet m i st qd qdd)))).apply
          (if m.lam i ≠ 0 then w.v (m.lam i) else SV.zero)
        + ((xtOfKin (NodeKin.ofPose (jointPoseJet m i st qd qdd))).apply SV.zero
            + (jcalc m w i st qd).v_J i)
      = (ukBody m st qd qdd i w).v i := by
    rw [ev, hX]
    by_cases hl : m.lam i ≠ 0
    · simp only [if_pos hl]; exact sv_step_v _ _ _ _
    · simp only [if_neg hl]; exact sv_step_v0 _ _ _
  rw [ofPose_comp, ofPose_comp]
  refine hall.congr hV ?_
  rw [hV, ea, ← ev, hX]
  exact sv_step_a _ _ _ _ _ _ _


/-! ### `JointMotion` / the step in terms of `svOfKin`, `saOfKin`, `KinOk` -/

theorem JointMotion.spec {m : ModelS α} {w : WS α} {i : Nat} {st : QS α} {qd qdd : VecN α}
    (h : JointMotion m w i st qd qdd) :
    svOfKin (NodeKin.ofPose (jointPoseJet m i st qd qdd)) = (jcalc m w i st qd).v_J i ∧
    saOfKin (NodeKin.ofPose (jointPoseJet m i st qd qdd))
      = WS.Sqdd (jcalc m w i st qd) m i qdd + (jcalc m w i st qd).c_J i ∧
    KinOk (NodeKin.ofPose (jointPoseJet m i st qd qdd)) :=
  ⟨BodyForm.sv h, BodyForm.sa h, BodyForm.kinOk h⟩

theorem BodyForm.spec {k : NodeKin α} {V A : SV α} (h : BodyForm k V A) :
    V = svOfKin k ∧ A = saOfKin k ∧ KinOk k := ⟨h.sv.symm, h.sa.symm, h.kinOk⟩

/-- a pose jet with `KinOk` whose spatial velocity / acceleration are `V`, `A` is in body form -/
theorem bodyForm_of_kinOk (h2 : (2 : α) ≠ 0) {k : NodeKin α} (h : KinOk k) {V A : SV α}
    (hV : V = svOfKin k) (hA : A = saOfKin k) : BodyForm k V A :=
  (kinOk_bodyForm h2 h).congr hV.symm hA.symm

/-! ### velocity and acceleration of a body-fixed point -/

theorem point_velocity_bf {k : NodeKin α} {V A : SV α} (h : BodyForm k V A) (x : V3 α) :
    (⟨k.R, x⟩ : XT α).apply V = ⟨k.omega, k.ptd x⟩ := by
  obtain ⟨rot, rd, rdd, pd, pdd⟩ := h
  unfold NodeKin.omega NodeKin.ptd
  rw [rd, pd, vee_param rot]
  alg_ext

theorem point_acceleration_bf {k : NodeKin α} {V A : SV α} (h : BodyForm k V A) (x : V3 α) :
    (⟨k.R, x⟩ : XT α).apply A
        + ⟨V3.zero, ((⟨k.R, x⟩ : XT α).apply V).w.cross ((⟨k.R, x⟩ : XT α).apply V).v⟩
      = ⟨k.omegaDot, k.ptdd x⟩ := by
  obtain ⟨rot, rd, rdd, pd, pdd⟩ := h
  unfold NodeKin.omegaDot NodeKin.ptdd
  rw [rdd, rd, pdd, vee_param2 rot]
  rot_ext rot

/-- `CalcPointVelocity6D` (no kinematics update) on a movable body -/
theorem calcPointVelocity6D_eq (m : ModelS α) (w : WS α) (st : QS α) (qd : VecN α) (id : Nat)
    (p : V3 α) (hid : ¬ fixedDisc ≤ id) (hid0 : id ≠ 0) :
    (calcPointVelocity6D m w st qd id p false).2
      = (⟨(w.X_base id).E.transpose, p⟩ : XT α).apply (w.v id) := by
  have hf : m.isFixedBodyId id = false := by
    unfold ModelS.isFixedBodyId; simp [hid]
  simp only [calcPointVelocity6D, refPoint, hf, worldOrientation0, if_neg hid,
    Bool.false_eq_true, if_false, upd_other _ _ _ _ hid0]

/-- `CalcPointAcceleration6D` (no kinematics update) on a movable body -/
theorem calcPointAcceleration6D_eq (m : ModelS α) (w : WS α) (st : QS α) (qd qdd : VecN α)
    (id : Nat) (p : V3 α) (hid : ¬ fixedDisc ≤ id) (hid0 : id ≠ 0) :
    (calcPointAcceleration6D m w st qd qdd id p false).2
      = (⟨(w.X_base id).E.transpose, p⟩ : XT α).apply (w.a id)
        + ⟨V3.zero, ((⟨(w.X_base id).E.transpose, p⟩ : XT α).apply (w.v id)).w.cross
            ((⟨(w.X_base id).E.transpose, p⟩ : XT α).apply (w.v id)).v⟩ := by
  have hf : m.isFixedBodyId id = false := by
    unfold ModelS.isFixedBodyId; simp [hid]
  simp only [calcPointAcceleration6D, refPoint, hf, worldOrientation0, if_neg hid,
    Bool.false_eq_true, if_false, upd_other _ _ _ _ hid0]


/-! ### the workspace invariant holds after construction -/

/-- what the joint constructors (`Joint(JointType)`, `Joint(JointTypeRevolute, axis)`, …) guarantee
    about the declared number of degrees of freedom and the first axis -/
def JointDecl (j : Joint α) : Prop :=
  let ax := j.axes.headD SV.zero
  match j.jt with
  | .revoluteX => j.dof = 1 ∧ ax = sv6 1 0 0 0 0 0
  | .revoluteY => j.dof = 1 ∧ ax = sv6 0 1 0 0 0 0
  | .revoluteZ => j.dof = 1 ∧ ax = sv6 0 0 1 0 0 0
  | .revolute => j.dof = 1 ∧ ax.v = V3.zero
  | .prismatic => j.dof = 1 ∧ ax.w = V3.zero
  | .helical => j.dof = 1
  | .spherical | .eulerZYX | .eulerXYZ | .eulerYXZ | .eulerZXY | .translationXYZ => j.dof = 3
  | _ => True

/-- `JointWS` is established by the construction code: it holds for the workspace `initWS m` -/
theorem jointWS_initWS (m : ModelS α) (i : Nat) (hi : i ≠ 0) (hd : JointDecl (m.joint i)) :
    JointWS m (initWS m) i := by
  unfold JointDecl at hd
  unfold JointWS
  dsimp only at hd ⊢
  have z3 : vZero (M63.zero : M63 α) := And.intro rfl (And.intro rfl rfl)
  cases hj : (m.joint i).jt <;> simp only [hj] at hd <;>
    simp only [initWS, if_neg hi, and_true, true_and]
  case revoluteX => rw [hd.2]; exact ⟨hd.1, rfl, rfl, rfl, rfl⟩
  case revoluteY => rw [hd.2]; exact ⟨hd.1, rfl, rfl, rfl, rfl⟩
  case revoluteZ => rw [hd.2]; exact ⟨hd.1, rfl, rfl, rfl, rfl⟩
  case revolute => refine ⟨hd.1, ?_⟩; rw [← hd.2]
  case prismatic => refine ⟨hd.1, ?_⟩; rw [← hd.2]
  case helical => exact hd
  case spherical => exact ⟨hd, z3, rfl, rfl, rfl, rfl, rfl, rfl⟩
  case eulerZYX => exact ⟨hd, z3, rfl, rfl, rfl⟩
  case eulerXYZ => exact ⟨hd, z3, rfl, rfl, rfl⟩
  case eulerYXZ => exact ⟨hd, z3, rfl, rfl, rfl⟩
  case eulerZXY => exact ⟨hd, z3, rfl, rfl, rfl⟩
  case translationXYZ => exact ⟨hd, rfl, rfl, rfl, rfl, rfl, rfl, rfl, rfl, rfl⟩
end
end Rbdl.L06
