import RbdlProofs.Lemmas.L08PhysBridge
import RbdlProofs.Lemmas.L08PhysKktEx
import RbdlProofs.Props.C03
import RbdlProofs.Props.C08
import RbdlProofs.Props.C10
import RbdlProofs.Props.C11
/-
  C08 / C10 / C11 — the Mathlib-matrix theorems of `Props/C08.lean`, `C10.lean`, `C11.lean` applied to
  the arrays `H`, `C`, `G`, `gamma` that the code-shaped `calcConstrainedSystemVariables` returns
  (bridge: `Lemmas/L08PhysBridge.lean`, `toM` / `toV` / `ofV`).  The conclusions are in the entrywise
  form (`rowDot`, `colDot`, `sumTo`) that the physical readings of `Props/C08Phys.lean` take as
  hypotheses.  (Separate file: `C08Phys.lean` is core Lean and opens `Lean.Grind`, whose `Field`
  would clash with Mathlib's.)

  `K` is a Mathlib field; the model is instantiated at `K` through `Field.toGrindField`.
-/
set_option linter.unusedSectionVars false
namespace Rbdl.C08Phys
open Matrix Rbdl Rbdl.L09 Rbdl.L08Phys Rbdl.L08Phys.Bridge

variable {K : Type} [Field K] [DecidableEq K]

/-- **C11 on the code's matrices**: run the operator of `C11.idc_exact_sound_act` (selection matrices
    of an actuation map `act` over the `qdotSize` coordinates) on the matrices returned by
    `CalcConstrainedSystemVariables`.  Its output `(q̈, τ, λ)` satisfies, entrywise: `G q̈ = γ` on every
    row, `τ = 0` on the unactuated coordinates, `H q̈ + C = τ + Gᵀ λ`, and **tracking**: `q̈ = q̈_des` on
    the actuated coordinates — the hypotheses of `C08Phys.idc_solution_physical` -/
theorem idc_operator_on_code_matrices (m : ModelS K) (w : WS K) (st : QS K) (qd : VecN K)
    (C : CSet K) (update : Bool) (fext : Option (Nat → SV K)) (act : Fin m.qdotSize → Bool)
    (qdd_des qdd tau : Fin m.qdotSize → K) (lam : Fin C.size → K)
    (uu : Fin (Kkt.actSet act true).card → K) (v : Fin (Kkt.actSet act false).card → K)
    (hu : uu = Kkt.selS K act *ᵥ qdd_des)
    (hv : (toM C.size m.qdotSize (sysVars m w st qd C update fext).G * (Kkt.selP K act)ᵀ) *ᵥ v
      = toV C.size (sysVars m w st qd C update fext).gamma
        - (toM C.size m.qdotSize (sysVars m w st qd C update fext).G * (Kkt.selS K act)ᵀ) *ᵥ uu)
    (hqdd : qdd = (Kkt.selS K act)ᵀ *ᵥ uu + (Kkt.selP K act)ᵀ *ᵥ v)
    (hlam : (Kkt.selP K act * (toM C.size m.qdotSize (sysVars m w st qd C update fext).G)ᵀ) *ᵥ lam
      = Kkt.selP K act *ᵥ (toM m.qdotSize m.qdotSize (sysVars m w st qd C update fext).H *ᵥ qdd
          + toV m.qdotSize (sysVars m w st qd C update fext).C))
    (htau : tau = (Kkt.selS K act)ᵀ *ᵥ (Kkt.selS K act *ᵥ
      (toM m.qdotSize m.qdotSize (sysVars m w st qd C update fext).H *ᵥ qdd
        + toV m.qdotSize (sysVars m w st qd C update fext).C
        - (toM C.size m.qdotSize (sysVars m w st qd C update fext).G)ᵀ *ᵥ lam))) :
    (∀ r, r < C.size →
      rowDot (sysVars m w st qd C update fext).G m.qdotSize r (ofV qdd)
        = (sysVars m w st qd C update fext).gamma r) ∧
    (∀ i, act i = false → tau i = 0) ∧
    (∀ r, r < m.qdotSize →
      sumTo m.qdotSize (fun c => (sysVars m w st qd C update fext).H r c * ofV qdd c)
          + (sysVars m w st qd C update fext).C r
        = ofV tau r + colDot (sysVars m w st qd C update fext).G C.size r (ofV lam)) ∧
    (∀ i, act i = true → qdd i = qdd_des i) := by
  obtain ⟨h1, h2, h3, h4⟩ := C11.idc_exact_sound_act act _ _ _ qdd_des qdd tau _ lam uu v hu hv hqdd
    hlam htau
  refine ⟨?_, (selP_mulVec_eq_zero_iff act tau).mp h2, ?_, (selS_mulVec_eq_iff act qdd qdd_des).mp h4⟩
  · rw [← toV_ofV qdd] at h1
    exact (constraint_eq_iff _ _ _ _ _).mp h1
  · rw [← toV_ofV qdd, ← toV_ofV tau, ← toV_ofV lam] at h3
    exact (motion_eq_iff _ _ _ _ _ _ _ _).mp h3

/-- the joint-space inertia matrix returned by `CalcConstrainedSystemVariables` is symmetric (C03) -/
theorem csv_H_symm (m : ModelS K) (w : WS K) (st : QS K) (qd : VecN K) (C : CSet K)
    (update : Bool) (fext : Option (Nat → SV K)) :
    (toM m.qdotSize m.qdotSize (sysVars m w st qd C update fext).H).IsSymm := by
  ext i j
  exact C03.crba_symmetric_zero m _ st false j i

/-- on the tree `mD` with the constraint set `opsD` (3 rows), all 6 coordinates actuated, desired
    accelerations `qddD` (which satisfy `G q̈ = γ`), `v` and `λ` over empty / zero data -/
example := idc_operator_on_code_matrices L08Phys.Ex.mD L08Phys.Ex.wD L08Phys.Ex.stD
  L08Phys.Ex.qdD L08Phys.KktEx.CQ true (some L08Phys.Ex.feD) L08Phys.KktEx.act
  (toV _ L08Phys.Ex.qddD) _ _ (fun _ => 0) _ (fun _ => 0) rfl
  (hv_of_feasible L08Phys.KktEx.act _ _ _ _ L08Phys.KktEx.G_qddDes) rfl
  (eq_of_empty L08Phys.KktEx.act _ _) rfl

end Rbdl.C08Phys
