import RbdlProofs.Lemmas.L13Ex
/-
  C13 — results do not depend on the workspace.

  `WSFixed m w` (Rbdl/WSInv.lean): `X_base[0]` is the identity and every movable body still holds its
  construction-time values in the entries that no algorithm rewrites before reading them.
  Helper notions (RbdlProofs/Lemmas/L13*.lean):
  * `L13.AxesOK m`     — a joint of type revoluteX/Y/Z stores the axis its type names;
  * `L13.TreeOrder m`  — `λ(i) < i` for every movable body;
  * `L13.AllJcalc m`   — every movable body carries a joint of a type `jcalc` handles;
  * `L13.AllJointOK m` — ... and `mDoFCount` matches the joint type (1 for the 1-DoF types, 3 for
    spherical / Euler / translationXYZ);
  * `L13.xbIdx m id`, `L13.IdOK m id` — the movable body a body id refers to is a body of the model;
  * `L13.UOrderOK m` / `L13.UOrderPerm m` — `mJointUpdateOrder` (read by `NonlinearEffects` and
    `CalcMInvTimesTau`) lists exactly the movable bodies.

  Findings.
  * 3 (preservation) needs no hypothesis at all.
  * 4 as literally requested ("`WSFixed`, `WSFixed`, tree order ⊢ equal results") is false for
    arbitrary `ModelS` values: the joints must be of the types `jcalc` handles, `mDoFCount` must match
    the type, body ids must resolve, `mJointUpdateOrder` must cover the bodies.  Each of these
    hypotheses holds for models built by `AddBody`; a machine-checked counterexample for each is
    kept after section 4, and `wsfixed_needed` (section 6) shows that `WSFixed` itself cannot be
    dropped.  All results are equal as whole functions (not only below `dofCount`).
  * 5: the coordinate / Jacobian pairs hold by unfolding; the velocity / acceleration pairs need no
    hypothesis (clearing `v[0]`, `a[0]` commutes with the update); the `crba` pair needs `WSFixed`
    (counterexample kept).
  * The method (RbdlProofs/Lemmas/L13Agree.lean): `Agree m D w w'` — both workspaces reachable and
    equal on the set `D` of (field, body) entries; every primitive write has a lemma that extends `D`
    by the entry written provided the entries read are in `D`; loops are handled by the indexed
    simulation lemmas `forUp_simI` / `forDown_simI`.
-/
namespace Rbdl.C13
open Lean.Grind Rbdl Rbdl.L13
set_option linter.unusedSectionVars false

variable {α : Type} [Field α]

/-! ## 1. the workspace after construction is reachable -/

theorem wsfixed_init (m : ModelS α) (hax : AxesOK m) : WSFixed m (initWS m) :=
  wsfixed_initWS m hax
example : WSFixed Ex.m (initWS Ex.m) := wsfixed_init Ex.m Ex.m_axes

/-- the joints made by the `Joint` constructors satisfy `AxesOK` -/
theorem axes_ofType (t : JT) (j : Joint α) (h : Joint.ofType t = some j) :
    (j.jt = .revoluteX → j.axes.headD SV.zero = sv6 1 0 0 0 0 0) ∧
    (j.jt = .revoluteY → j.axes.headD SV.zero = sv6 0 1 0 0 0 0) ∧
    (j.jt = .revoluteZ → j.axes.headD SV.zero = sv6 0 0 1 0 0 0) := by
  cases t <;> simp only [Joint.ofType, Option.some.injEq, reduceCtorEq] at h <;> subst h <;>
    refine ⟨?_, ?_, ?_⟩ <;> intro h <;> first | rfl | cases h

theorem axes_ofAxis [DecidableEq α] (a : SV α) :
    ((Joint.ofAxis a).jt = .revoluteX → (Joint.ofAxis a).axes.headD SV.zero = sv6 1 0 0 0 0 0) ∧
    ((Joint.ofAxis a).jt = .revoluteY → (Joint.ofAxis a).axes.headD SV.zero = sv6 0 1 0 0 0 0) ∧
    ((Joint.ofAxis a).jt = .revoluteZ → (Joint.ofAxis a).axes.headD SV.zero = sv6 0 0 1 0 0 0) := by
  unfold Joint.ofAxis
  dsimp only [List.headD]
  refine ⟨?_, ?_, ?_⟩ <;> intro h <;> (repeat' split at h) <;> simp_all

/-! ## 2. poisoning the free entries stays inside the invariant -/

theorem wsfixed_poison (m : ModelS α) (w : WS α) (seed : Nat) (h : WSFixed m w) :
    WSFixed m (poison m w seed) := L13.wsfixed_poison m w seed h
example : WSFixed Ex.m (poison Ex.m Ex.w 7) := wsfixed_poison Ex.m Ex.w 7 Ex.w_fixed

/-! ## 3. every routine keeps the invariant (no hypothesis on the model or the arguments) -/
section preserved
variable (m : ModelS α) (w : WS α) (h : WSFixed m w)
include h

theorem wsfixed_preserved_jcalc (i : Nat) (st : QS α) (qd : VecN α) :
    WSFixed m (jcalc m w i st qd) := wsfixed_jcalc m w i st qd h
theorem wsfixed_preserved_jcalcXlambdaS (i : Nat) (st : QS α) :
    WSFixed m (jcalcXlambdaS m w i st) := wsfixed_jcalcXlambdaS m w i st h
theorem wsfixed_preserved_updateKinematics (st : QS α) (qd qdd : VecN α) :
    WSFixed m (updateKinematics m w st qd qdd) := wsfixed_updateKinematics m w st qd qdd h
theorem wsfixed_preserved_updateKinematicsCustom (st : Option (QS α)) (qd qdd : Option (VecN α)) :
    WSFixed m (updateKinematicsCustom m w st qd qdd) :=
  wsfixed_updateKinematicsCustom m w st qd qdd h
theorem wsfixed_preserved_inverseDynamics (st : QS α) (qd qdd tau : VecN α)
    (fext : Option (Nat → SV α)) : WSFixed m (inverseDynamics m w st qd qdd tau fext).1 :=
  wsfixed_inverseDynamics m w st qd qdd tau fext h
theorem wsfixed_preserved_nonlinearEffects [DecidableEq α] (st : QS α) (qd tau : VecN α)
    (fext : Option (Nat → SV α)) : WSFixed m (nonlinearEffects m w st qd tau fext).1 :=
  wsfixed_nonlinearEffects m w st qd tau fext h
theorem wsfixed_preserved_crba (st : QS α) (H : MatN α) (update : Bool) :
    WSFixed m (crba m w st H update).1 := wsfixed_crba m w st H update h
theorem wsfixed_preserved_forwardDynamics [DecidableEq α] (st : QS α) (qd tau qdd : VecN α)
    (fext : Option (Nat → SV α)) : WSFixed m (forwardDynamics m w st qd tau qdd fext).1 :=
  wsfixed_forwardDynamics m w st qd tau qdd fext h
/-- with `update = true` this routine sets `v_J[i] := 0`: still inside the invariant -/
theorem wsfixed_preserved_calcMInvTimesTau [DecidableEq α] (st : QS α) (tau qdd : VecN α) (update : Bool) :
    WSFixed m (calcMInvTimesTau m w st tau qdd update).1 :=
  wsfixed_calcMInvTimesTau m w st tau qdd update h
theorem wsfixed_preserved_calcCenterOfMass (st : QS α) (qd : VecN α) (qdd : Option (VecN α))
    (wantAcc update : Bool) : WSFixed m (calcCenterOfMass m w st qd qdd wantAcc update).1 :=
  wsfixed_calcCenterOfMass m w st qd qdd wantAcc update h
theorem wsfixed_preserved_calcZeroMomentPoint (st : QS α) (qd qdd : VecN α) (normal point : V3 α)
    (update : Bool) : WSFixed m (calcZeroMomentPoint m w st qd qdd normal point update).1 :=
  wsfixed_calcZeroMomentPoint m w st qd qdd normal point update h
theorem wsfixed_preserved_calcPotentialEnergy (st : QS α) (update : Bool) :
    WSFixed m (calcPotentialEnergy m w st update).1 := wsfixed_calcPotentialEnergy m w st update h
theorem wsfixed_preserved_calcKineticEnergy (st : QS α) (qd : VecN α) (update : Bool) :
    WSFixed m (calcKineticEnergy m w st qd update).1 :=
  wsfixed_calcKineticEnergy m w st qd update h
theorem wsfixed_preserved_calcBodyToBaseCoordinates (st : QS α) (id : Nat) (p : V3 α)
    (update : Bool) : WSFixed m (calcBodyToBaseCoordinates m w st id p update).1 :=
  wsfixed_calcBodyToBaseCoordinates m w st id p update h
theorem wsfixed_preserved_calcBaseToBodyCoordinates (st : QS α) (id : Nat) (p : V3 α)
    (update : Bool) : WSFixed m (calcBaseToBodyCoordinates m w st id p update).1 :=
  wsfixed_calcBaseToBodyCoordinates m w st id p update h
theorem wsfixed_preserved_calcBodyWorldOrientation (st : QS α) (id : Nat) (update : Bool) :
    WSFixed m (calcBodyWorldOrientation m w st id update).1 :=
  wsfixed_calcBodyWorldOrientation m w st id update h
theorem wsfixed_preserved_calcPointJacobian (st : QS α) (id : Nat) (p : V3 α) (G : MatN α)
    (update : Bool) : WSFixed m (calcPointJacobian m w st id p G update).1 :=
  wsfixed_calcPointJacobian m w st id p G update h
theorem wsfixed_preserved_calcPointJacobian6D (st : QS α) (id : Nat) (p : V3 α) (G : MatN α)
    (update : Bool) : WSFixed m (calcPointJacobian6D m w st id p G update).1 :=
  wsfixed_calcPointJacobian6D m w st id p G update h
theorem wsfixed_preserved_calcBodySpatialJacobian (st : QS α) (id : Nat) (G : MatN α)
    (update : Bool) : WSFixed m (calcBodySpatialJacobian m w st id G update).1 :=
  wsfixed_calcBodySpatialJacobian m w st id G update h
theorem wsfixed_preserved_calcPointVelocity6D (st : QS α) (qd : VecN α) (id : Nat) (p : V3 α)
    (update : Bool) : WSFixed m (calcPointVelocity6D m w st qd id p update).1 :=
  wsfixed_calcPointVelocity6D m w st qd id p update h
theorem wsfixed_preserved_calcPointVelocity (st : QS α) (qd : VecN α) (id : Nat) (p : V3 α)
    (update : Bool) : WSFixed m (calcPointVelocity m w st qd id p update).1 :=
  wsfixed_calcPointVelocity m w st qd id p update h
theorem wsfixed_preserved_calcPointAcceleration6D (st : QS α) (qd qdd : VecN α) (id : Nat)
    (p : V3 α) (update : Bool) : WSFixed m (calcPointAcceleration6D m w st qd qdd id p update).1 :=
  wsfixed_calcPointAcceleration6D m w st qd qdd id p update h
theorem wsfixed_preserved_calcPointAcceleration (st : QS α) (qd qdd : VecN α) (id : Nat)
    (p : V3 α) (update : Bool) : WSFixed m (calcPointAcceleration m w st qd qdd id p update).1 :=
  wsfixed_calcPointAcceleration m w st qd qdd id p update h

end preserved

example := wsfixed_preserved_forwardDynamics Ex.mU Ex.wU' Ex.wU'_fixed Ex.st Ex.qd Ex.qdd Ex.qdd none
example := wsfixed_preserved_calcMInvTimesTau Ex.mU Ex.wU' Ex.wU'_fixed Ex.st Ex.qd Ex.qdd true
example := wsfixed_preserved_calcPointAcceleration Ex.m Ex.w' Ex.w'_fixed Ex.st Ex.qd Ex.qdd
  Ex.fid ⟨1, 2, 3⟩ true

/-! ## 4. the results do not depend on the (reachable) workspace

  All statements are for the routines called with the full state (`update = true` where there is a
  flag).  Vector / matrix results are equal as whole functions (given the same in/out argument). -/
section independent
variable (m : ModelS α) {w w' : WS α} (hw : WSFixed m w) (hw' : WSFixed m w')
include hw hw'

theorem ws_independent_calcBodyToBaseCoordinates (htree : TreeOrder m) (hjc : AllJcalc m)
    (st : QS α) (id : Nat) (p : V3 α) (hid : xbIdx m id < m.nBodies) :
    (calcBodyToBaseCoordinates m w st id p true).2
      = (calcBodyToBaseCoordinates m w' st id p true).2 :=
  (updQ_sim m st htree hjc w w' hw hw').bodyToBase0 id p (Dpos_X_base m _ hid)

theorem ws_independent_calcBaseToBodyCoordinates (htree : TreeOrder m) (hjc : AllJcalc m)
    (st : QS α) (id : Nat) (p : V3 α) (hid : xbIdx m id < m.nBodies) :
    (calcBaseToBodyCoordinates m w st id p true).2
      = (calcBaseToBodyCoordinates m w' st id p true).2 :=
  (updQ_sim m st htree hjc w w' hw hw').baseToBody0 id p (Dpos_X_base m _ hid)

theorem ws_independent_calcBodyWorldOrientation (htree : TreeOrder m) (hjc : AllJcalc m)
    (st : QS α) (id : Nat) (hid : xbIdx m id < m.nBodies) :
    (calcBodyWorldOrientation m w st id true).2 = (calcBodyWorldOrientation m w' st id true).2 :=
  ((updQ_sim m st htree hjc w w' hw hw').worldOrientation0 id (Dpos_X_base m _ hid)).2

theorem ws_independent_calcPointVelocity6D (htree : TreeOrder m) (hjc : AllJcalc m)
    (st : QS α) (qd : VecN α) (id : Nat) (p : V3 α) (hid : IdOK m id) :
    (calcPointVelocity6D m w st qd id p true).2 = (calcPointVelocity6D m w' st qd id p true).2 :=
  pointVelocity6D_indep m st qd id p htree hjc hid w w' hw hw'

theorem ws_independent_calcPointVelocity (htree : TreeOrder m) (hjc : AllJcalc m)
    (st : QS α) (qd : VecN α) (id : Nat) (p : V3 α) (hid : IdOK m id) :
    (calcPointVelocity m w st qd id p true).2 = (calcPointVelocity m w' st qd id p true).2 :=
  congrArg SV.v (pointVelocity6D_indep m st qd id p htree hjc hid w w' hw hw')

theorem ws_independent_calcPointAcceleration6D (htree : TreeOrder m) (hok : AllJointOK m)
    (st : QS α) (qd qdd : VecN α) (id : Nat) (p : V3 α) (hid : IdOK m id) :
    (calcPointAcceleration6D m w st qd qdd id p true).2
      = (calcPointAcceleration6D m w' st qd qdd id p true).2 :=
  pointAcceleration6D_indep m st qd qdd id p htree hok hid w w' hw hw'

theorem ws_independent_calcPointAcceleration (htree : TreeOrder m) (hok : AllJointOK m)
    (st : QS α) (qd qdd : VecN α) (id : Nat) (p : V3 α) (hid : IdOK m id) :
    (calcPointAcceleration m w st qd qdd id p true).2
      = (calcPointAcceleration m w' st qd qdd id p true).2 :=
  congrArg SV.v (pointAcceleration6D_indep m st qd qdd id p htree hok hid w w' hw hw')

theorem ws_independent_calcPointJacobian (htree : TreeOrder m) (hok : AllJointOK m)
    (st : QS α) (id : Nat) (p : V3 α) (G : MatN α) (hid : IdOK m id) :
    (calcPointJacobian m w st id p G true).2 = (calcPointJacobian m w' st id p G true).2 :=
  pointJacobian_indep m st id p G htree hok hid w w' hw hw'

theorem ws_independent_calcPointJacobian6D (htree : TreeOrder m) (hok : AllJointOK m)
    (st : QS α) (id : Nat) (p : V3 α) (G : MatN α) (hid : IdOK m id) :
    (calcPointJacobian6D m w st id p G true).2 = (calcPointJacobian6D m w' st id p G true).2 :=
  pointJacobian6D_indep m st id p G htree hok hid w w' hw hw'

theorem ws_independent_calcBodySpatialJacobian (htree : TreeOrder m) (hok : AllJointOK m)
    (st : QS α) (id : Nat) (G : MatN α) (hid : IdOK m id) :
    (calcBodySpatialJacobian m w st id G true).2 = (calcBodySpatialJacobian m w' st id G true).2 :=
  bodySpatialJacobian_indep m st id G htree hok hid w w' hw hw'

theorem ws_independent_inverseDynamics (htree : TreeOrder m) (hok : AllJointOK m)
    (st : QS α) (qd qdd tau : VecN α) (fext : Option (Nat → SV α)) :
    (inverseDynamics m w st qd qdd tau fext).2 = (inverseDynamics m w' st qd qdd tau fext).2 :=
  id_indep m st qd qdd tau fext htree hok w w' hw hw'

theorem ws_independent_nonlinearEffects [DecidableEq α] (htree : TreeOrder m)
    (hok : AllJointOK m) (huo : UOrderOK m) (st : QS α) (qd tau : VecN α)
    (fext : Option (Nat → SV α)) :
    (nonlinearEffects m w st qd tau fext).2 = (nonlinearEffects m w' st qd tau fext).2 :=
  ne_indep m st qd tau fext htree hok huo w w' hw hw'

theorem ws_independent_crba (htree : TreeOrder m) (hok : AllJointOK m) (st : QS α)
    (H : MatN α) : (crba m w st H true).2 = (crba m w' st H true).2 :=
  crba_indep m st H htree hok w w' hw hw'

theorem ws_independent_forwardDynamics [DecidableEq α] (htree : TreeOrder m)
    (hok : AllJointOK m) (st : QS α) (qd tau qdd : VecN α) (fext : Option (Nat → SV α)) :
    (forwardDynamics m w st qd tau qdd fext).2 = (forwardDynamics m w' st qd tau qdd fext).2 :=
  fd_indep m st qd tau qdd fext htree hok w w' hw hw'

theorem ws_independent_calcMInvTimesTau [DecidableEq α] (htree : TreeOrder m)
    (hok : AllJointOK m) (huo : UOrderPerm m) (st : QS α) (tau qdd : VecN α) :
    (calcMInvTimesTau m w st tau qdd true).2 = (calcMInvTimesTau m w' st tau qdd true).2 :=
  mi_indep m st tau qdd htree hok huo w w' hw hw'

theorem ws_independent_calcCenterOfMass (htree : TreeOrder m) (hok : AllJointOK m)
    (st : QS α) (qd : VecN α) (qdd : Option (VecN α)) (wantAcc : Bool) :
    (calcCenterOfMass m w st qd qdd wantAcc true).2
      = (calcCenterOfMass m w' st qd qdd wantAcc true).2 :=
  com_indep m st qd qdd wantAcc htree hok w w' hw hw'

/-- (`hc`, which this routine accumulates without initialising it, does not enter the result) -/
theorem ws_independent_calcZeroMomentPoint (htree : TreeOrder m) (hok : AllJointOK m)
    (st : QS α) (qd qdd : VecN α) (normal point : V3 α) :
    (calcZeroMomentPoint m w st qd qdd normal point true).2
      = (calcZeroMomentPoint m w' st qd qdd normal point true).2 :=
  zmp_indep m st qd qdd normal point htree hok w w' hw hw'

theorem ws_independent_calcPotentialEnergy (htree : TreeOrder m) (hok : AllJointOK m)
    (st : QS α) : (calcPotentialEnergy m w st true).2 = (calcPotentialEnergy m w' st true).2 :=
  pe_indep m st htree hok w w' hw hw'

theorem ws_independent_calcKineticEnergy (htree : TreeOrder m) (hjc : AllJcalc m)
    (st : QS α) (qd : VecN α) :
    (calcKineticEnergy m w st qd true).2 = (calcKineticEnergy m w' st qd true).2 :=
  ke_indep m st qd htree hjc w w' hw hw'

end independent

/-! non-vacuity: the workspace after construction and its poisoned copy, on a branched model with a
    revoluteZ, a general revolute, a spherical and a custom joint and one fixed body -/
example := ws_independent_calcBodyToBaseCoordinates Ex.m Ex.w_fixed Ex.w'_fixed Ex.m_tree Ex.m_jcalc
  Ex.st Ex.fid ⟨1, 2, 3⟩ (by decide)
example := ws_independent_calcBaseToBodyCoordinates Ex.m Ex.w_fixed Ex.w'_fixed Ex.m_tree Ex.m_jcalc
  Ex.st 3 ⟨1, 2, 3⟩ (by decide)
example := ws_independent_calcBodyWorldOrientation Ex.m Ex.w_fixed Ex.w'_fixed Ex.m_tree Ex.m_jcalc
  Ex.st Ex.fid (by decide)
example := ws_independent_calcPointVelocity Ex.m Ex.w_fixed Ex.w'_fixed Ex.m_tree Ex.m_jcalc
  Ex.st Ex.qd Ex.fid ⟨1, 2, 3⟩ Ex.fid_ok
example := ws_independent_calcPointAcceleration Ex.m Ex.w_fixed Ex.w'_fixed Ex.m_tree Ex.m_ok
  Ex.st Ex.qd Ex.qdd 3 ⟨1, 2, 3⟩ Ex.id3_ok
example := ws_independent_calcPointJacobian Ex.m Ex.w_fixed Ex.w'_fixed Ex.m_tree Ex.m_ok
  Ex.st Ex.fid ⟨1, 2, 3⟩ (fun _ _ => 0) Ex.fid_ok
example := ws_independent_inverseDynamics Ex.m Ex.w_fixed Ex.w'_fixed Ex.m_tree Ex.m_ok
  Ex.st Ex.qd Ex.qdd (fun _ => 0) (some (fun i => ⟨⟨1, 0, (i : Rat)⟩, ⟨0, 2, 0⟩⟩))
example := ws_independent_nonlinearEffects Ex.mU Ex.wU_fixed Ex.wU'_fixed Ex.mU_tree Ex.mU_ok
  Ex.mU_uo Ex.st Ex.qd (fun _ => 0) none
example := ws_independent_crba Ex.m Ex.w_fixed Ex.w'_fixed Ex.m_tree Ex.m_ok Ex.st (fun _ _ => 0)
example := ws_independent_forwardDynamics Ex.m Ex.w_fixed Ex.w'_fixed Ex.m_tree Ex.m_ok
  Ex.st Ex.qd Ex.qdd (fun _ => 0) none
example := ws_independent_calcMInvTimesTau Ex.mU Ex.wU_fixed Ex.wU'_fixed Ex.mU_tree Ex.mU_ok
  Ex.mU_perm Ex.st Ex.qdd (fun _ => 0)
example := ws_independent_calcCenterOfMass Ex.m Ex.w_fixed Ex.w'_fixed Ex.m_tree Ex.m_ok
  Ex.st Ex.qd (some Ex.qdd) true
example := ws_independent_calcZeroMomentPoint Ex.m Ex.w_fixed Ex.w'_fixed Ex.m_tree Ex.m_ok
  Ex.st Ex.qd Ex.qdd ⟨0, 0, 1⟩ ⟨0, 0, 0⟩
example := ws_independent_calcKineticEnergy Ex.m Ex.w_fixed Ex.w'_fixed Ex.m_tree Ex.m_jcalc
  Ex.st Ex.qd

/-! ### the side hypotheses of 4 cannot be dropped

  The statement "`WSFixed m w → WSFixed m w' → tree order → equal results`" is false for arbitrary
  `ModelS` values; each of the following machine-checked instances violates exactly one of the side
  hypotheses used above (all of which hold for models built by `AddBody`). -/

/-- `AllJcalc`: a joint of a type `jcalc` ignores leaves `X_lambda[1]` unwritten -/
example : TreeOrder Ex.mBad ∧ WSFixed Ex.mBad Ex.wBad ∧ WSFixed Ex.mBad Ex.wBad' ∧
    xbIdx Ex.mBad 1 < Ex.mBad.nBodies ∧
    (calcBodyToBaseCoordinates Ex.mBad Ex.wBad Ex.st1 1 ⟨1, 2, 3⟩ true).2
      ≠ (calcBodyToBaseCoordinates Ex.mBad Ex.wBad' Ex.st1 1 ⟨1, 2, 3⟩ true).2 :=
  ⟨C04.Ex.mBad_tree, Ex.wBad_fixed, Ex.wBad'_fixed, by decide, by decide +kernel⟩

/-- `AllJointOK`: a revoluteX joint with `mDoFCount = 3` makes the algorithms read `multdof3_S` -/
example : TreeOrder Ex.m3 ∧ AllJcalc Ex.m3 ∧ WSFixed Ex.m3 Ex.w3 ∧ WSFixed Ex.m3 Ex.w3' ∧
    (inverseDynamics Ex.m3 Ex.w3 Ex.st1 zeroVec (fun _ => 1) zeroVec none).2 0
      ≠ (inverseDynamics Ex.m3 Ex.w3' Ex.st1 zeroVec (fun _ => 1) zeroVec none).2 0 :=
  ⟨Ex.m3_tree, Ex.m3_jcalc, Ex.w3_fixed, Ex.w3'_fixed, by decide +kernel⟩

/-- the body id must resolve to a body of the model -/
example : TreeOrder Ex.m2 ∧ AllJointOK Ex.m2 ∧ WSFixed Ex.m2 Ex.w2 ∧ WSFixed Ex.m2 Ex.w2'' ∧
    (calcBodyToBaseCoordinates Ex.m2 Ex.w2 Ex.st1 5 ⟨1, 2, 3⟩ true).2
      ≠ (calcBodyToBaseCoordinates Ex.m2 Ex.w2'' Ex.st1 5 ⟨1, 2, 3⟩ true).2 :=
  ⟨Ex.m2_tree, Ex.m2_ok, Ex.w2_fixed, Ex.w2''_fixed, by decide +kernel⟩

/-- `UOrderOK` / `UOrderPerm`: with an empty `mJointUpdateOrder` the `jcalc` passes of
    `NonlinearEffects` and `CalcMInvTimesTau` do nothing -/
example : TreeOrder Ex.m2 ∧ AllJointOK Ex.m2 ∧ WSFixed Ex.m2 Ex.w2 ∧ WSFixed Ex.m2 Ex.w2' ∧
    (nonlinearEffects Ex.m2 Ex.w2 Ex.st1 (fun _ => 1) zeroVec none).2 0
      ≠ (nonlinearEffects Ex.m2 Ex.w2' Ex.st1 (fun _ => 1) zeroVec none).2 0 ∧
    (calcMInvTimesTau Ex.m2 Ex.w2 Ex.st1 (fun _ => 1) zeroVec true).2 0
      ≠ (calcMInvTimesTau Ex.m2 Ex.w2' Ex.st1 (fun _ => 1) zeroVec true).2 0 :=
  ⟨Ex.m2_tree, Ex.m2_ok, Ex.w2_fixed, Ex.w2'_fixed, by decide +kernel, by decide +kernel⟩

/-! ## 5. the `update_kinematics = false` variants after the documented update call

  The coordinate and Jacobian routines with `update = true` *are* `UpdateKinematicsCustom(Q)` followed
  by the `update = false` variant (equal as pairs, by unfolding).  For the velocity / acceleration
  routines the update call and the clearing of `v[0]` / `a[0]` have to be commuted; no hypothesis is
  needed.  `crba` needs `S`, which `jcalc` does not write for the fixed-axis joints: this is where
  `WSFixed` is needed. -/

theorem flag_cleared_calcBodyToBaseCoordinates (m : ModelS α) (w : WS α) (st : QS α) (id : Nat)
    (p : V3 α) :
    calcBodyToBaseCoordinates m (updateKinematicsCustom m w (some st) none none) st id p false
      = calcBodyToBaseCoordinates m w st id p true := rfl

theorem flag_cleared_calcBaseToBodyCoordinates (m : ModelS α) (w : WS α) (st : QS α) (id : Nat)
    (p : V3 α) :
    calcBaseToBodyCoordinates m (updateKinematicsCustom m w (some st) none none) st id p false
      = calcBaseToBodyCoordinates m w st id p true := rfl

theorem flag_cleared_calcBodyWorldOrientation (m : ModelS α) (w : WS α) (st : QS α) (id : Nat) :
    calcBodyWorldOrientation m (updateKinematicsCustom m w (some st) none none) st id false
      = calcBodyWorldOrientation m w st id true := rfl

theorem flag_cleared_calcPointJacobian (m : ModelS α) (w : WS α) (st : QS α) (id : Nat)
    (p : V3 α) (G : MatN α) :
    calcPointJacobian m (updateKinematicsCustom m w (some st) none none) st id p G false
      = calcPointJacobian m w st id p G true := rfl

theorem flag_cleared_calcPointJacobian6D (m : ModelS α) (w : WS α) (st : QS α) (id : Nat)
    (p : V3 α) (G : MatN α) :
    calcPointJacobian6D m (updateKinematicsCustom m w (some st) none none) st id p G false
      = calcPointJacobian6D m w st id p G true := rfl

theorem flag_cleared_calcBodySpatialJacobian (m : ModelS α) (w : WS α) (st : QS α) (id : Nat)
    (G : MatN α) :
    calcBodySpatialJacobian m (updateKinematicsCustom m w (some st) none none) st id G false
      = calcBodySpatialJacobian m w st id G true := rfl

theorem flag_cleared_calcPointVelocity6D (m : ModelS α) (w : WS α) (st : QS α) (qd : VecN α)
    (id : Nat) (p : V3 α) :
    (calcPointVelocity6D m (updateKinematicsCustom m w (some st) (some qd) none) st qd id p
      false).2 = (calcPointVelocity6D m w st qd id p true).2 :=
  flag_pointVelocity6D m w st qd id p

theorem flag_cleared_calcPointVelocity (m : ModelS α) (w : WS α) (st : QS α) (qd : VecN α)
    (id : Nat) (p : V3 α) :
    (calcPointVelocity m (updateKinematicsCustom m w (some st) (some qd) none) st qd id p
      false).2 = (calcPointVelocity m w st qd id p true).2 :=
  congrArg SV.v (flag_pointVelocity6D m w st qd id p)

theorem flag_cleared_calcPointAcceleration6D (m : ModelS α) (w : WS α) (st : QS α)
    (qd qdd : VecN α) (id : Nat) (p : V3 α) :
    (calcPointAcceleration6D m (updateKinematics m w st qd qdd) st qd qdd id p false).2
      = (calcPointAcceleration6D m w st qd qdd id p true).2 :=
  flag_pointAcceleration6D m w st qd qdd id p

theorem flag_cleared_calcPointAcceleration (m : ModelS α) (w : WS α) (st : QS α)
    (qd qdd : VecN α) (id : Nat) (p : V3 α) :
    (calcPointAcceleration m (updateKinematics m w st qd qdd) st qd qdd id p false).2
      = (calcPointAcceleration m w st qd qdd id p true).2 :=
  congrArg SV.v (flag_pointAcceleration6D m w st qd qdd id p)

theorem flag_cleared_crba (m : ModelS α) (w : WS α) (hw : WSFixed m w) (htree : TreeOrder m)
    (hok : AllJointOK m) (st : QS α) (H : MatN α) :
    (crba m (updateKinematicsCustom m w (some st) none none) st H false).2
      = (crba m w st H true).2 :=
  flag_crba m st H htree hok w hw
example := flag_cleared_crba Ex.m Ex.w' Ex.w'_fixed Ex.m_tree Ex.m_ok Ex.st (fun _ _ => 0)

/-- `WSFixed` cannot be dropped from `flag_cleared_crba`: one revolute joint, `S[1]` overwritten -/
example : TreeOrder Ex.m1 ∧ AllJointOK Ex.m1 ∧ ¬ WSFixed Ex.m1 Ex.wB ∧
    (crba Ex.m1 (updateKinematicsCustom Ex.m1 Ex.wB (some Ex.st1) none none) Ex.st1
        (fun _ _ => 0) false).2 0 0
      ≠ (crba Ex.m1 Ex.wB Ex.st1 (fun _ _ => 0) true).2 0 0 :=
  ⟨Ex.m1_tree, Ex.m1_ok, Ex.wB_not_fixed, by decide +kernel⟩

/-! ## 6. the invariant cannot be dropped from 4 -/

/-- One body on a revolute joint about `z` (tree order and joint arities are fine): the workspace
    after construction and a copy whose `S[1]` — an entry that is written once at construction and
    only read afterwards — holds another value give different inverse-dynamics torques. -/
theorem wsfixed_needed :
    TreeOrder Ex.m1 ∧ AllJointOK Ex.m1 ∧ WSFixed Ex.m1 Ex.wA ∧ ¬ WSFixed Ex.m1 Ex.wB ∧
    (inverseDynamics Ex.m1 Ex.wA Ex.st1 zeroVec (fun _ => 1) zeroVec none).2 0
      ≠ (inverseDynamics Ex.m1 Ex.wB Ex.st1 zeroVec (fun _ => 1) zeroVec none).2 0 :=
  ⟨Ex.m1_tree, Ex.m1_ok, Ex.wA_fixed, Ex.wB_not_fixed, by decide +kernel⟩

/-- the same for `forwardDynamics` and `calcPointVelocity` -/
example :
    (forwardDynamics Ex.m1 Ex.wA Ex.st1 zeroVec (fun _ => 1) zeroVec none).2 0
      ≠ (forwardDynamics Ex.m1 Ex.wB Ex.st1 zeroVec (fun _ => 1) zeroVec none).2 0 := by
  decide +kernel
example :
    (calcPointVelocity Ex.m1 Ex.wA Ex.st1 (fun _ => 1) 1 ⟨1, 0, 0⟩ true).2
      ≠ (calcPointVelocity Ex.m1 Ex.wB Ex.st1 (fun _ => 1) 1 ⟨1, 0, 0⟩ true).2 := by
  decide +kernel

end Rbdl.C13
