import RbdlProofs.Lemmas.Model14
/-
  C14 — the construction state machine stays well-formed; rejected additions change nothing.

  `ModelS.WF`, `Op`, `Op.valid`, `ModelS.step`, `ModelS.run`, `ModelS.validRun` are defined in
  Rbdl/ModelWF.lean; helper lemmas are in RbdlProofs/Lemmas/Model14.lean.  Every theorem with
  hypotheses is followed by an `example` instantiating it on a concrete model over `Rat`
  (the data `Ex.*` are defined at the end of RbdlProofs/Lemmas/Model14.lean).
-/
namespace Rbdl.C14
open Lean.Grind Rbdl Rbdl.ModelS

section
variable {α : Type} [Field α] [DecidableEq α]

/-! ### 1–3: the invariant holds initially and is kept by every valid operation -/

omit [DecidableEq α] in
/-- 1. The freshly initialised model (base body only) is well-formed. -/
theorem wf_init : (ModelS.init : ModelS α).WF := by
  constructor
  case names_ok => intro p hp; simp [ModelS.init] at hp; subst hp; left; simp [nBodies, ModelS.init]
  case lam_lt => intro i h1 h2; simp [nBodies, ModelS.init] at h2; omega
  case q_contig => intro i h; simp [nBodies, ModelS.init] at h
  case w3_sph =>
    intro i h hs
    simp [nBodies, ModelS.init] at h; subst h
    simp [joint, ModelS.init, Joint.root] at hs
  case fixed_parent => intro k hk; simp [ModelS.init] at hk
  case custom_ok =>
    intro i h hc
    simp [nBodies, ModelS.init] at h; subst h
    simp [joint, ModelS.init, Joint.root] at hc
  case prev_ok => left; simp [nBodies, ModelS.init]
  case names_nodup => simp [ModelS.init]
  case qsize => simp [ModelS.init, sphBefore, nBodies, Joint.root]
  case mu_children =>
    intro p c
    have hnb : (ModelS.init : ModelS α).nBodies = 1 := rfl
    rw [hnb]
    have hmu : (ModelS.init : ModelS α).mu.getD p [] = [] := by
      cases p <;> simp [ModelS.init]
    rw [hmu]
    constructor
    · intro h; cases h
    · rintro ⟨h1, h2, -⟩; omega
  all_goals first | rfl | simp [nBodies, ModelS.init, fixedDisc]

/-- 2. Every valid operation keeps the invariant, whether the call succeeds or is rejected. -/
theorem wf_step (m : ModelS α) (op : Op α) (hwf : m.WF) (hv : op.valid m) :
    (m.step op).1.WF :=
  step_wf m hwf op hv

/-- 3. Any sequence of operations that are valid along the way keeps the invariant … -/
theorem wf_run_from (ops : List (Op α)) : ∀ (m : ModelS α), m.WF → m.validRun ops →
    (m.run ops).WF := by
  induction ops with
  | nil => intro m hwf _; exact hwf
  | cons op ops ih =>
    intro m hwf hv
    exact ih _ (wf_step m op hwf hv.1) hv.2

example : Ex.M.WF := wf_run_from Ex.ops _ wf_init Ex.validRun_ops

/-- 3'. … in particular every model reachable from the initial one is well-formed. -/
theorem wf_run (ops : List (Op α)) (hv : (ModelS.init : ModelS α).validRun ops) :
    ((ModelS.init : ModelS α).run ops).WF :=
  wf_run_from ops _ wf_init hv

example : Ex.M.WF := wf_run Ex.ops Ex.validRun_ops
example : Ex.M.nBodies = 8 ∧ Ex.M.fixedBodies.length = 1 ∧ Ex.M.dofCount = 14 ∧
    Ex.M.qSize = 16 ∧ Ex.M.lambda = [0, 0, 1, 2, 3, 3, 5, 2] := by decide +kernel

example : (Ex.M.step Ex.opChain).1.WF :=
  wf_step _ _ (wf_run_from _ _ wf_init Ex.validRun_ops) (by decide +kernel)
example : (Ex.M.step Ex.opDup).1.WF :=    -- a rejected call
  wf_step _ _ (wf_run_from _ _ wf_init Ex.validRun_ops) (by decide +kernel)

/-- The validity precondition cannot be dropped: a parent id that is not an id of the model
    breaks "parents precede children" … -/
example : ¬ ((ModelS.init : ModelS Rat).step (.addBody 99 Ex.frame Ex.jz Ex.body "b")).1.WF :=
  fun h => absurd (h.lam_lt 1 (by decide) (by decide +kernel)) (by decide +kernel)
/-- … and a hand-made `custom` joint without a registered custom joint breaks clause (g). -/
example : ¬ ((ModelS.init : ModelS Rat).step
    (.addBody 0 Ex.frame ⟨.custom, [], 1, 0, noCustom⟩ Ex.body "b")).1.WF :=
  fun h => absurd (h.custom_ok 1 (by decide +kernel) (by decide +kernel)).1 (by decide +kernel)

/-! ### 4, 6: rejected calls -/

/-- 4. A call rejected with a library error (any operation, any error, valid or not) leaves
    the model exactly as it was. -/
theorem reject_unchanged (m : ModelS α) (op : Op α) (e : Err)
    (h : (m.step op).2 = .error e) : (m.step op).1 = m := by
  have ho := step_outcome m op
  generalize m.step op = r at h ho
  cases ho with
  | dup => rfl
  | rejected => rfl
  | movable => cases h
  | fixed => cases h

example : (Ex.M.step Ex.opDup).1 = Ex.M :=
  reject_unchanged _ _ .duplicateName (by decide +kernel)
example : (Ex.M.step Ex.opBad).1 = Ex.M :=
  reject_unchanged _ _ .invalidJoint (by decide +kernel)
example : (Ex.M.step Ex.opZero).1 = Ex.M :=
  reject_unchanged _ _ .zeroMass (by decide +kernel)

/-- 6. A non-empty name that is already used is always rejected with `duplicateName`
    (and by 4. nothing changes). -/
theorem duplicate_rejected (m : ModelS α) (op : Op α) (hne : op.name ≠ "")
    (hdup : m.hasName op.name = true) : m.step op = (m, .error .duplicateName) := by
  have hd : op.name ≠ "" ∧ m.hasName op.name = true := ⟨hne, hdup⟩
  cases op with
  | addBody parent frame j b name => simp only [ModelS.step]; rw [addBody_eq]; exact if_pos hd
  | appendBody frame j b name =>
    simp only [ModelS.step, appendBody]; rw [addBody_eq]; exact if_pos hd
  | addBodyCustomJoint parent frame k b name =>
    simp only [ModelS.step]; rw [addBodyCustomJoint_eq]; exact if_pos hd

example : Ex.M.step Ex.opDup = (Ex.M, .error .duplicateName) :=
  duplicate_rejected _ _ (by decide) (by decide +kernel)

/-- 6'. Conversely `duplicateName` is reported only for a non-empty name already in use. -/
theorem duplicate_only_if (m : ModelS α) (op : Op α)
    (h : (m.step op).2 = .error .duplicateName) : op.name ≠ "" ∧ m.hasName op.name = true := by
  have ho := step_outcome m op
  generalize m.step op = r at h ho
  cases ho with
  | dup h1 h2 => exact ⟨h1, h2⟩
  | rejected e _ hne => simp at h; exact absurd h hne
  | movable => cases h
  | fixed => cases h

example : Ex.opDup.name ≠ "" ∧ Ex.M.hasName Ex.opDup.name = true :=
  duplicate_only_if _ _ (by decide +kernel)

/-! ### 5: the returned id -/

/-- 5. On success the returned id is
    * for a fixed joint: the new fixed-body id `fixedDisc + (old number of fixed bodies)`; one
      fixed body was added and no movable body;
    * otherwise: the new last movable body `old nBodies + k - 1` where `k ≥ 1` is the number of
      bodies of the chain (`Op.newBodies`); `k` movable bodies were added and no fixed body;
    it becomes the id `AppendBody` attaches to, and a non-empty name resolves to it. -/
theorem returned_id (m : ModelS α) (op : Op α) (id : Nat) (h : (m.step op).2 = .ok id) :
    (if op.isFixed then
        id = fixedDisc + m.fixedBodies.length ∧
        (m.step op).1.fixedBodies.length = m.fixedBodies.length + 1 ∧
        (m.step op).1.nBodies = m.nBodies
      else
        1 ≤ op.newBodies ∧ id = m.nBodies + op.newBodies - 1 ∧
        id = (m.step op).1.nBodies - 1 ∧
        (m.step op).1.nBodies = m.nBodies + op.newBodies ∧
        (m.step op).1.fixedBodies.length = m.fixedBodies.length) ∧
    (m.step op).1.prevBodyId = id ∧
    (op.name ≠ "" → (m.step op).1.getBodyId op.name = id ∧ (m.step op).1.hasName op.name = true) := by
  have ho := step_outcome m op
  generalize m.step op = r at h ho
  cases ho with
  | dup => cases h
  | rejected => cases h
  | movable m' hd hfx hk ha =>
    simp only [Except.ok.injEq] at h; subst h
    refine ⟨?_, ha.prev, fun hne => getBodyId_of_names m m' _ _ hne hd ha.names⟩
    rw [hfx]
    have hnb := ha.nb
    simp only [nBodies, ha.fixed, Bool.false_eq_true, if_false, and_true, true_and]
    omega
  | fixed m' hd hfx ha =>
    simp only [Except.ok.injEq] at h; subst h
    refine ⟨?_, ha.prev, fun hne => getBodyId_of_names m m' _ _ hne hd ha.names⟩
    obtain ⟨fb, hfb⟩ := ha.fixed
    rw [hfx]
    have hnb := ha.nb
    simp only [nBodies, hfb, if_true, List.length_append, List.length_cons,
      List.length_nil, true_and]
    omega

/-- a chain of 2 bodies on the 8-body model returns id 9 = 8 + 2 - 1, and "toe" resolves to it -/
example : (Ex.M.step Ex.opChain).1.nBodies = 10 ∧ (Ex.M.step Ex.opChain).1.prevBodyId = 9 ∧
    (Ex.M.step Ex.opChain).1.getBodyId "toe" = 9 := by
  have h := returned_id Ex.M Ex.opChain 9 (by decide +kernel)
  have e1 : Ex.opChain.isFixed = false := by decide
  have e2 : Ex.opChain.newBodies = 2 := by decide
  have e3 : Ex.M.nBodies = 8 := by decide +kernel
  rw [e1, e2, e3] at h
  exact ⟨h.1.2.2.2.1, h.2.1, (h.2.2 (by decide)).1⟩
/-- a fixed body on the model with one fixed body returns `fixedDisc + 1` -/
example : (Ex.M.step Ex.opFix).1.fixedBodies.length = 2 ∧
    (Ex.M.step Ex.opFix).1.getBodyId "imu" = fixedDisc + 1 := by
  have h := returned_id Ex.M Ex.opFix (fixedDisc + 1) (by decide +kernel)
  have e1 : Ex.opFix.isFixed = true := by decide
  have e3 : Ex.M.fixedBodies.length = 1 := by decide +kernel
  rw [e1, e3] at h
  exact ⟨h.1.2.1, (h.2.2 (by decide)).1⟩

/-- 5'. In a well-formed model the id returned by a valid operation is an id the model
    resolves (`isBodyId`); a fixed id is recognised by `isFixedBodyId` and resolves to a movable
    parent; a movable id is not mistaken for a fixed one as long as `nBodies ≤ fixedDisc`. -/
theorem returned_id_resolves (m : ModelS α) (op : Op α) (id : Nat) (hwf : m.WF)
    (hv : op.valid m) (h : (m.step op).2 = .ok id) :
    (m.step op).1.isBodyId id = true ∧
    (op.isFixed = true → (m.step op).1.isFixedBodyId id = true ∧
      ((m.step op).1.fixedBody (id - fixedDisc)).movableParent < (m.step op).1.nBodies ∧
      (m.step op).1.getParentBodyId id < (m.step op).1.nBodies) ∧
    (op.isFixed = false → (m.step op).1.nBodies ≤ fixedDisc →
      (m.step op).1.isFixedBodyId id = false) := by
  have hwf' := wf_step m op hwf hv
  obtain ⟨h1, h2, -⟩ := returned_id m op id h
  have hcap := hwf'.fixed_cap
  have hnb := hwf.nb_pos
  have hfd := fixedDisc_eq
  by_cases hfx : op.isFixed = true
  · rw [if_pos hfx] at h1
    have hfid : (m.step op).1.isFixedBodyId id = true := by
      rw [isFixedBodyId_iff]; omega
    have hpar := hwf'.fixed_parent (id - fixedDisc) (by omega)
    refine ⟨?_, ?_, ?_⟩
    · rw [isBodyId_iff]; right; exact hfid
    · intro _
      refine ⟨hfid, hpar, ?_⟩
      simp only [getParentBodyId]
      rw [if_pos (by omega)]; exact hpar
    · intro h; rw [h] at hfx; cases hfx
  · rw [if_neg hfx] at h1
    simp only [nBodies] at h1 hnb
    refine ⟨?_, ?_, ?_⟩
    · rw [isBodyId_iff]; left; omega
    · intro h; exact absurd h hfx
    · intro _ hle
      simp only [nBodies] at hle
      cases hh : (m.step op).1.isFixedBodyId id with
      | false => rfl
      | true => rw [isFixedBodyId_iff] at hh; omega

example : (Ex.M.step Ex.opFix).1.isFixedBodyId (fixedDisc + 1) = true ∧
    (Ex.M.step Ex.opFix).1.getParentBodyId (fixedDisc + 1) < (Ex.M.step Ex.opFix).1.nBodies :=
  have h := returned_id_resolves Ex.M Ex.opFix (fixedDisc + 1)
    (wf_run Ex.ops Ex.validRun_ops) (by decide +kernel) (by decide +kernel)
  ⟨(h.2.1 (by decide)).1, (h.2.1 (by decide)).2.2⟩
example : (Ex.M.step Ex.opChain).1.isBodyId 9 = true :=
  (returned_id_resolves Ex.M Ex.opChain 9 (wf_run Ex.ops Ex.validRun_ops) (by decide +kernel)
    (by decide +kernel)).1

/-! ### 7: existing bodies are untouched by a successful addition -/

/-- 7. Prefix property: a successful addition only appends to `lambda`, `lambdaQ`, `joints`,
    the joint frames, the name table, the fixed bodies and the custom joints. -/
theorem prev_ids_stable (m : ModelS α) (op : Op α) (id : Nat) (h : (m.step op).2 = .ok id) :
    m.lambda <+: (m.step op).1.lambda ∧ m.lambdaQ <+: (m.step op).1.lambdaQ ∧
    m.joints <+: (m.step op).1.joints ∧ m.xT <+: (m.step op).1.xT ∧
    m.names <+: (m.step op).1.names ∧ m.fixedBodies <+: (m.step op).1.fixedBodies ∧
    m.customJoints <+: (m.step op).1.customJoints := by
  have ho := step_outcome m op
  generalize m.step op = r at h ho
  cases ho with
  | dup => cases h
  | rejected => cases h
  | movable m' hd hfx hk ha =>
    refine ⟨ha.lambda, ha.lambdaQ, ha.joints, ha.xT, ?_, ?_, ha.custom⟩
    · rw [ha.names]; split
      · exact List.prefix_append _ _
      · exact List.prefix_refl _
    · rw [ha.fixed]; exact List.prefix_refl _
  | fixed m' hd hfx ha =>
    obtain ⟨fb, hfb⟩ := ha.fixed
    refine ⟨?_, ?_, ?_, ?_, ?_, ?_, ?_⟩
    · rw [ha.lambda]; exact List.prefix_refl _
    · rw [ha.lambdaQ]; exact List.prefix_refl _
    · rw [ha.joints]; exact List.prefix_refl _
    · rw [ha.xT]; exact List.prefix_refl _
    · rw [ha.names]; split
      · exact List.prefix_append _ _
      · exact List.prefix_refl _
    · rw [hfb]; exact List.prefix_append _ _
    · rw [ha.custom]; exact List.prefix_refl _

example : Ex.M.joints <+: (Ex.M.step Ex.opChain).1.joints :=
  (prev_ids_stable Ex.M Ex.opChain 9 (by decide +kernel)).2.2.1

/-- 7'. The same by index: parent, joint, joint frame of every existing body, every existing
    fixed body and every existing name are unchanged. -/
theorem prev_ids_stable_index (m : ModelS α) (op : Op α) (id : Nat) (hwf : m.WF)
    (h : (m.step op).2 = .ok id) :
    (∀ i, i < m.nBodies → (m.step op).1.lam i = m.lam i ∧ (m.step op).1.joint i = m.joint i ∧
      (m.step op).1.XT_ i = m.XT_ i) ∧
    (∀ k, k < m.fixedBodies.length → (m.step op).1.fixedBody k = m.fixedBody k) ∧
    (∀ p ∈ m.names, (m.step op).1.getBodyId p.1 = p.2 ∧ m.getBodyId p.1 = p.2) := by
  obtain ⟨h1, -, h3, h4, h5, h6, -⟩ := prev_ids_stable m op id h
  have hwf_names := hwf.names_nodup
  refine ⟨fun i hi => ⟨?_, ?_, ?_⟩, fun k hk => ?_, fun p hp => ⟨?_, ?_⟩⟩
  · exact prefix_getD h1 i (by rw [hwf.len_lambda]; exact hi) _
  · exact prefix_getD h3 i (by rw [hwf.len_joints]; exact hi) _
  · exact prefix_getD h4 i (by rw [hwf.len_xT]; exact hi) _
  · exact prefix_getD h6 k hk _
  · obtain ⟨t, ht⟩ := h5
    simp only [getBodyId, ← ht, List.find?_append, find?_of_pairwise _ hwf_names p hp]
    simp
  · simp only [getBodyId, find?_of_pairwise _ hwf_names p hp]

example : (Ex.M.step Ex.opFix).1.lam 4 = Ex.M.lam 4 ∧
    (Ex.M.step Ex.opFix).1.getBodyId "foot" = 6 :=
  have h := prev_ids_stable_index Ex.M Ex.opFix (fixedDisc + 1) (wf_run Ex.ops Ex.validRun_ops)
    (by decide +kernel)
  ⟨(h.1 4 (by decide +kernel)).1, (h.2.2 ("foot", 6) (by decide +kernel)).1⟩

omit [DecidableEq α] in
/-- Names and ids resolve to each other in a well-formed model: every recorded name resolves to
    its id, which is the base, a movable body or a recognised fixed body. -/
theorem names_resolve (m : ModelS α) (hwf : m.WF) (p : String × Nat) (hp : p ∈ m.names) :
    m.getBodyId p.1 = p.2 ∧ (p.2 = 0 ∨ m.isBodyId p.2 = true) := by
  refine ⟨?_, ?_⟩
  · simp only [getBodyId, find?_of_pairwise _ hwf.names_nodup p hp]
  · have hcap := hwf.fixed_cap
    rcases hwf.names_ok p hp with h | h
    · simp only [nBodies] at h
      by_cases h0 : p.2 = 0
      · left; exact h0
      · right; rw [isBodyId_iff]; left; omega
    · right
      have hfd := fixedDisc_eq
      rw [isBodyId_iff, isFixedBodyId_iff]; right; omega

example : Ex.M.getBodyId "sensor" = fixedDisc ∧
    (fixedDisc = 0 ∨ Ex.M.isBodyId fixedDisc = true) :=
  names_resolve Ex.M (wf_run Ex.ops Ex.validRun_ops) ("sensor", fixedDisc) (by decide +kernel)

/-! ### consequences of the invariant for the coordinate layout -/

omit [DecidableEq α] in
/-- In a well-formed model every joint's coordinates `[qIndex, qIndex + dof)` lie inside
    `[0, dofCount)`, and the extra `w` entries of the spherical joints lie in
    `[dofCount, qSize)`, after all others, strictly increasing in index order. -/
theorem coord_ranges (m : ModelS α) (hwf : m.WF) (i : Nat) (hi : i < m.nBodies) :
    (m.joint i).qIndex + (m.joint i).dof ≤ m.dofCount ∧
    ((m.joint i).jt = .spherical →
      m.dofCount ≤ m.w3 i ∧ m.w3 i < m.qSize ∧
      ∀ k, i < k → k < m.nBodies → (m.joint k).jt = .spherical → m.w3 i < m.w3 k) :=
  ⟨q_range_aux m hwf (m.nBodies - 1 - i) i (by omega),
   fun hs => ⟨(w3_range_aux m hwf i hi hs).1, (w3_range_aux m hwf i hi hs).2,
     fun k hik hk hsk => w3_strict_aux m hwf i k hik hk hs hsk⟩⟩

example : (Ex.M.joint 4).qIndex + (Ex.M.joint 4).dof ≤ Ex.M.dofCount ∧
    Ex.M.dofCount ≤ Ex.M.w3 2 ∧ Ex.M.w3 2 < Ex.M.w3 4 ∧ Ex.M.w3 4 < Ex.M.qSize :=
  have hwf := wf_run Ex.ops Ex.validRun_ops
  have h2 := (coord_ranges Ex.M hwf 2 (by decide +kernel)).2 (by decide +kernel)
  have h4 := (coord_ranges Ex.M hwf 4 (by decide +kernel)).2 (by decide +kernel)
  ⟨(coord_ranges Ex.M hwf 4 (by decide +kernel)).1, h2.1,
   h2.2.2 4 (by decide) (by decide +kernel) (by decide +kernel), h4.2.1⟩

end
end Rbdl.C14
