import RbdlProofs.Lemmas.Kkt
import RbdlProofs.Lemmas.KktEx
/-
  C10 — constraint impulses (Constraints.cc: `ComputeConstraintImpulsesDirect`,
  `…RangeSpaceSparse`, `…NullSpace`; all three report the impulse with the sign of the direct
  method).

  Specifying relation:   H (qp - qm) + Gᵀ L = 0,   G qp = vplus.
-/
namespace Rbdl.C10
open Matrix Rbdl.Kkt

variable {K : Type*} {m n : Type*} [Fintype m] [Fintype n]

/-- Energy balance without the factor `1/2` and for arbitrary `vplus` (any commutative ring):
`qm·H qm − qp·H qp = d·H d + 2 vplus·L`, `d = qp − qm`. -/
theorem impulse_energy_balance [CommRing K] (H : Matrix n n K) (hH : H.IsSymm) (G : Matrix m n K)
    (qm qp : n → K) (L vplus : m → K)
    (hrel : H *ᵥ (qp - qm) + Gᵀ *ᵥ L = 0) (hG : G *ᵥ qp = vplus) :
    qm ⬝ᵥ H *ᵥ qm - qp ⬝ᵥ H *ᵥ qp =
      (qp - qm) ⬝ᵥ H *ᵥ (qp - qm) + 2 * (vplus ⬝ᵥ L) :=
  impulse_energy_general hH G qm qp L vplus hrel hG

/-- **impulse_energy**: `H` symmetric, `vplus = 0` ⇒ the kinetic energy lost in the impact is the
kinetic energy of the velocity jump. -/
theorem impulse_energy [Field K] [LinearOrder K] [IsStrictOrderedRing K]
    (H : Matrix n n K) (hH : H.IsSymm) (G : Matrix m n K)
    (qm qp : n → K) (L : m → K)
    (hrel : H *ᵥ (qp - qm) + Gᵀ *ᵥ L = 0) (hG : G *ᵥ qp = 0) :
    1 / 2 * (qm ⬝ᵥ H *ᵥ qm) - 1 / 2 * (qp ⬝ᵥ H *ᵥ qp) =
      1 / 2 * ((qp - qm) ⬝ᵥ H *ᵥ (qp - qm)) := by
  have h := impulse_energy_general hH G qm qp L 0 hrel hG
  rw [zero_dotProduct, mul_zero, add_zero] at h
  rw [← mul_sub, h]

/-- … hence for positive semidefinite `H` the kinetic energy does not increase. -/
theorem impulse_energy_nonincreasing [Field K] [LinearOrder K] [IsStrictOrderedRing K]
    (H : Matrix n n K) (hH : H.IsSymm) (hpsd : ∀ x : n → K, 0 ≤ x ⬝ᵥ H *ᵥ x) (G : Matrix m n K)
    (qm qp : n → K) (L : m → K)
    (hrel : H *ᵥ (qp - qm) + Gᵀ *ᵥ L = 0) (hG : G *ᵥ qp = 0) :
    1 / 2 * (qp ⬝ᵥ H *ᵥ qp) ≤ 1 / 2 * (qm ⬝ᵥ H *ᵥ qm) := by
  have h := impulse_energy H hH G qm qp L hrel hG
  have hd := hpsd (qp - qm)
  have : 0 ≤ 1 / 2 * ((qp - qm) ⬝ᵥ H *ᵥ (qp - qm)) := mul_nonneg (by norm_num) hd
  linarith

example : 1 / 2 * (Ex.qm ⬝ᵥ Ex.H *ᵥ Ex.qm) - 1 / 2 * (Ex.qp ⬝ᵥ Ex.H *ᵥ Ex.qp) =
    1 / 2 * ((Ex.qp - Ex.qm) ⬝ᵥ Ex.H *ᵥ (Ex.qp - Ex.qm)) :=
  impulse_energy Ex.H Ex.H_symm Ex.G Ex.qm Ex.qp Ex.Limp Ex.imp_rel Ex.imp_G

example : 1 / 2 * (Ex.qp ⬝ᵥ Ex.H *ᵥ Ex.qp) ≤ 1 / 2 * (Ex.qm ⬝ᵥ Ex.H *ᵥ Ex.qm) :=
  impulse_energy_nonincreasing Ex.H Ex.H_symm Ex.H_psd Ex.G Ex.qm Ex.qp Ex.Limp Ex.imp_rel
    Ex.imp_G

/-- **impulse_unique** (same proof as C08 `kkt_unique`): positive definite `H`, full-row-rank `G`
⇒ the relation has at most one solution `(qp, L)`. -/
theorem impulse_unique [CommRing K] [PartialOrder K] (H : Matrix n n K) (G : Matrix m n K)
    (hpd : ∀ x : n → K, x ≠ 0 → 0 < x ⬝ᵥ H *ᵥ x)
    (hG : ∀ y : m → K, Gᵀ *ᵥ y = 0 → y = 0)
    (qm : n → K) (vplus : m → K) (qp qp' : n → K) (L L' : m → K)
    (h1 : H *ᵥ (qp - qm) + Gᵀ *ᵥ L = 0) (h2 : G *ᵥ qp = vplus)
    (h1' : H *ᵥ (qp' - qm) + Gᵀ *ᵥ L' = 0) (h2' : G *ᵥ qp' = vplus) :
    qp = qp' ∧ L = L' := by
  have e1 : H *ᵥ (qp - qm) = -(Gᵀ *ᵥ L) := eq_neg_of_add_eq_zero_left h1
  have e1' : H *ᵥ (qp' - qm) = -(Gᵀ *ᵥ L') := eq_neg_of_add_eq_zero_left h1'
  rw [mulVec_sub] at e1 e1'
  have h := kkt_unique_of_definite H G (definite_of_pos hpd) hG (c := H *ᵥ qm)
    (x := qp) (x' := qp') (l := -L) (l' := -L') (g := vplus)
    (by rw [mulVec_neg, ← e1]; abel) h2 (by rw [mulVec_neg, ← e1']; abel) h2'
  exact ⟨h.1, neg_injective h.2⟩

example : Ex.qp = Ex.qp ∧ Ex.Limp = Ex.Limp :=
  impulse_unique Ex.H Ex.G Ex.H_pd Ex.G_inj Ex.qm 0 Ex.qp Ex.qp Ex.Limp Ex.Limp
    Ex.imp_rel Ex.imp_G Ex.imp_rel Ex.imp_G

/-- **impulse_feasible_unchanged**, existence part: a velocity that already satisfies the
constraints is a solution with zero impulse. -/
theorem impulse_feasible_solution [CommRing K] (H : Matrix n n K) (G : Matrix m n K)
    (qm : n → K) (vplus : m → K) (hfeas : G *ᵥ qm = vplus) :
    H *ᵥ (qm - qm) + Gᵀ *ᵥ (0 : m → K) = 0 ∧ G *ᵥ qm = vplus := by
  refine ⟨?_, hfeas⟩
  rw [sub_self, mulVec_zero, mulVec_zero, add_zero]

/-- **impulse_feasible_unchanged**: with the uniqueness of `impulse_unique`, every solution is
`(qm, 0)`: a feasible velocity is not changed and the impulse vanishes. -/
theorem impulse_feasible_unchanged [CommRing K] [PartialOrder K] (H : Matrix n n K)
    (G : Matrix m n K)
    (hpd : ∀ x : n → K, x ≠ 0 → 0 < x ⬝ᵥ H *ᵥ x)
    (hG : ∀ y : m → K, Gᵀ *ᵥ y = 0 → y = 0)
    (qm : n → K) (vplus : m → K) (hfeas : G *ᵥ qm = vplus) (qp : n → K) (L : m → K)
    (h1 : H *ᵥ (qp - qm) + Gᵀ *ᵥ L = 0) (h2 : G *ᵥ qp = vplus) :
    qp = qm ∧ L = 0 :=
  impulse_unique H G hpd hG qm vplus qp qm L 0 h1 h2
    (impulse_feasible_solution H G qm vplus hfeas).1 hfeas

/-- non-vacuity: `Ex.qp` is feasible (`G qp = 0`), so restarting from it gives `(qp, 0)`. -/
example : Ex.qp = Ex.qp ∧ (0 : Fin 2 → ℚ) = 0 :=
  impulse_feasible_unchanged Ex.H Ex.G Ex.H_pd Ex.G_inj Ex.qp 0 Ex.imp_G Ex.qp 0
    (impulse_feasible_solution Ex.H Ex.G Ex.qp 0 Ex.imp_G).1 Ex.imp_G

/-- Sign conventions of the code, direct method: `ComputeConstraintImpulsesDirect` solves
`[[H, Gᵀ],[G, 0]] (qp, x) = (H qm, vplus)` and stores `impulse = x` (no negation): this is exactly
the relation. -/
theorem impulse_direct_sign [CommRing K] (H : Matrix n n K) (G : Matrix m n K) (qm qp : n → K)
    (vplus x : m → K) :
    fromBlocks H Gᵀ G 0 *ᵥ Sum.elim qp x = Sum.elim (H *ᵥ qm) vplus ↔
      H *ᵥ (qp - qm) + Gᵀ *ᵥ x = 0 ∧ G *ᵥ qp = vplus := by
  rw [direct_block, mulVec_neg, mulVec_sub]
  constructor
  · rintro ⟨h1, h2⟩
    exact ⟨by rw [h1]; abel, h2⟩
  · rintro ⟨h1, h2⟩
    refine ⟨?_, h2⟩
    have h := eq_neg_of_add_eq_zero_left h1
    rw [sub_eq_iff_eq_add] at h
    rw [h]; abel

/-- Sign conventions of the code, range-space and null-space methods: the solvers return `lam`
with `H qp = H qm + Gᵀ lam`, and the routines store `impulse = -lam`: again the relation. -/
theorem impulse_solver_sign [CommRing K] (H : Matrix n n K) (G : Matrix m n K) (qm qp : n → K)
    (lam L : m → K) (hL : L = -lam) :
    H *ᵥ qp = H *ᵥ qm + Gᵀ *ᵥ lam ↔ H *ᵥ (qp - qm) + Gᵀ *ᵥ L = 0 := by
  subst hL
  rw [mulVec_neg, mulVec_sub]
  constructor
  · intro h; rw [h]; abel
  · intro h
    have h' := eq_neg_of_add_eq_zero_left h
    rw [neg_neg, sub_eq_iff_eq_add] at h'
    rw [h']; abel

example : fromBlocks Ex.H Ex.Gᵀ Ex.G 0 *ᵥ Sum.elim Ex.qp Ex.Limp = Sum.elim (Ex.H *ᵥ Ex.qm) 0 :=
  (impulse_direct_sign Ex.H Ex.G Ex.qm Ex.qp 0 Ex.Limp).mpr ⟨Ex.imp_rel, Ex.imp_G⟩

example : Ex.H *ᵥ Ex.qp = Ex.H *ᵥ Ex.qm + Ex.Gᵀ *ᵥ (-Ex.Limp) :=
  (impulse_solver_sign Ex.H Ex.G Ex.qm Ex.qp (-Ex.Limp) Ex.Limp (neg_neg _).symm).mpr Ex.imp_rel

end Rbdl.C10
