import RbdlProofs.Props.C14
import RbdlProofs.Lemmas.L14QEx
/-
  C14 (query and fixed-body clauses) — what `GetParentBodyId`, `GetJointFrame`, `SetJointFrame`,
  `IsFixedBodyId`, `GetBodyId` / `GetBodyName` answer for the bodies of a model built by
  `AddBody` / `AppendBody` / `AddBodyCustomJoint`, and that the answers are stable.

  Definitions used in the statements (RbdlProofs/Lemmas/L14Q*.lean):
  * `m.mpOf parent`, `m.mpXOf parent`, `m.fpXOf parent X` (Lemmas/Model14.lean): how the C++
    resolves a parent id — a fixed id is replaced by its movable parent / its transform;
  * `parentIn m op`, `opFrame op`, `opBody op`: the parent id, joint frame and body of an operation;
  * `topOf m id`: the body whose joint frame `GetJointFrame` reports for `id` (top of the chain of
    virtual bodies of an emulated joint);
  * `devirt m op`, `keepsVirtual m ops`: see section 2;
  * `getBodyName`: the model of `GetBodyName` (the model library `Rbdl/` has none).

  Findings (machine-checked counterexamples below):
  * F1. `GetParentBodyId` / `GetJointFrame` return the supplied parent / frame only if the parent
    is not itself a *virtual* body; on a virtual parent they return the parent and the frame of
    the enclosing emulated joint.
  * F2. The answers are NOT stable under every later addition: a fixed-joint addition of a body
    with mass to a virtual body makes `Body::Join` rebuild that body with `mIsVirtual = false`,
    after which the queries of its descendants stop walking past it.
  * F3. `SetJointFrame` changes the frame reported for every body that shares the emulated-joint
    chain; `SetJointFrame (0, X)` is silently ignored.
  * F4. Ids of movable bodies and fixed bodies are only disjoint below `fixedDisc` bodies.
-/
namespace Rbdl.C14Q
open Lean.Grind Rbdl Rbdl.ModelS Rbdl.L14Q

section
variable {α : Type} [Field α] [DecidableEq α]

/-! ### 1. the queries for a body that was just added -/

/-- 1 (general form, every operation with a non-fixed joint: single, floating base, emulated
    multi-DoF, custom).  Let `p` be the resolved movable parent.  If `p` is not virtual the new
    body reports `p` and the composed frame; if `p` is virtual it reports what `p` reports
    (the queries walk past the virtual bodies). -/
theorem queries_added (m : ModelS α) (op : Op α) (id : Nat) (hwf : m.WF) (hv : op.valid m)
    (hnf : op.isFixed = false) (h : (m.step op).2 = .ok id)
    (hb : (m.step op).1.nBodies ≤ fixedDisc) :
    (m.step op).1.getParentBodyId id =
      (if (m.body (m.mpOf (parentIn m op))).isVirtual then
         m.getParentBodyId (m.mpOf (parentIn m op))
       else m.mpOf (parentIn m op)) ∧
    (m.step op).1.getJointFrame id =
      (if (m.body (m.mpOf (parentIn m op))).isVirtual then
         m.getJointFrame (m.mpOf (parentIn m op))
       else opFrame op * m.mpXOf (parentIn m op)) :=
  queries_of_addedQ (step_addedQ m hwf op hv hnf id h) hwf (valid_parentIn m hwf op hv) hb

example : (Ex.M.step Ex.opChain).1.getParentBodyId 11 = 5 ∧
    (Ex.M.step Ex.opChain).1.getJointFrame 11 = Ex.X3 := by
  have h := queries_added Ex.M Ex.opChain 11 Ex.wf_M (by decide +kernel) rfl (by decide +kernel)
    (by decide +kernel)
  have e1 : Ex.M.mpOf (parentIn Ex.M Ex.opChain) = 5 := by decide +kernel
  have e2 : (Ex.M.body 5).isVirtual = false := by decide +kernel
  have e3 : opFrame Ex.opChain * Ex.M.mpXOf (parentIn Ex.M Ex.opChain) = Ex.X3 := by
    decide +kernel
  rw [e1, e2, e3] at h
  exact h

/-- 1a. `getParentBodyId_added`: the parent is a movable body or the base, and not virtual —
    every joint kind except `fixed` (floating base: the query walks past the translational
    virtual body; emulated joints: past all virtual bodies of the chain; the supplied frame sits
    at the first body of the chain, which is the one `GetJointFrame` reports). -/
theorem getParentBodyId_added (m m' : ModelS α) (parent : Nat) (X : XT α) (j : Joint α)
    (b : Body α) (name : String) (id : Nat) (hwf : m.WF) (hj : m.jointOk j)
    (hp : parent < m.nBodies) (hnv : (m.body parent).isVirtual = false) (hnf : j.jt ≠ .fixed)
    (h : m.addBody parent X j b name = (m', .ok id)) (hb : m'.nBodies ≤ fixedDisc) :
    m'.getParentBodyId id = parent ∧ m'.getJointFrame id = X := by
  have ha := addBody_addedQ m hwf parent X j b name (Or.inl hp) hj hnf m' id h
  have hq := queries_of_addedQ ha hwf (Or.inl hp) hb
  have hnb := ha.ext.nb
  simp only [nBodies] at hp hb
  have hpf : parent < fixedDisc := by omega
  rw [mpOf_movable m parent hpf, mpXOf_movable m parent hpf, hnv, mul_id_right] at hq
  exact hq

/-- floating base on the base: two bodies, the query for body 2 walks past body 1 -/
example : Ex.M2.getParentBodyId 2 = 0 ∧ Ex.M2.getJointFrame 2 = Ex.X1 := by decide +kernel
/-- emulated 3-axis joint on the pelvis: bodies 3, 4 are virtual, body 5 reports the pelvis -/
example : Ex.M2.getParentBodyId 5 = 2 ∧ Ex.M2.getJointFrame 5 = Ex.X2 := by decide +kernel
/-- the hypotheses of 1a are satisfiable: a floating base and an emulated joint added to `M` -/
example : (Ex.M.addBody 2 Ex.X2 Ex.jfloat Ex.body "drone").1.getParentBodyId 10 = 2 ∧
    (Ex.M.addBody 2 Ex.X2 Ex.jfloat Ex.body "drone").1.getJointFrame 10 = Ex.X2 :=
  getParentBodyId_added Ex.M _ 2 Ex.X2 Ex.jfloat Ex.body "drone" 10 Ex.wf_M (by decide +kernel)
    (by decide +kernel) (by decide +kernel) (by decide) (Prod.ext rfl (by decide +kernel))
    (by decide +kernel)
example : (Ex.M.addBody 5 Ex.X3 Ex.j3 Ex.body "foot").1.getParentBodyId 11 = 5 ∧
    (Ex.M.addBody 5 Ex.X3 Ex.j3 Ex.body "foot").1.getJointFrame 11 = Ex.X3 :=
  getParentBodyId_added Ex.M _ 5 Ex.X3 Ex.j3 Ex.body "foot" 11 Ex.wf_M (by decide +kernel)
    (by decide +kernel) (by decide +kernel) (by decide) (Prod.ext rfl (by decide +kernel))
    (by decide +kernel)

/-- 1b. FIXED parent (documented behaviour, not claimed by the property): the new body reports
    the movable parent of the fixed body and the frame composed with the fixed body's transform
    (when that movable parent is not virtual). -/
theorem queries_added_fixed_parent (m m' : ModelS α) (parent : Nat) (X : XT α) (j : Joint α)
    (b : Body α) (name : String) (id : Nat) (hwf : m.WF) (hj : m.jointOk j)
    (hp : m.isFixedBodyId parent = true)
    (hnv : (m.body (m.getParentBodyId parent)).isVirtual = false) (hnf : j.jt ≠ .fixed)
    (h : m.addBody parent X j b name = (m', .ok id)) (hb : m'.nBodies ≤ fixedDisc) :
    m'.getParentBodyId id = m.getParentBodyId parent ∧
    m'.getJointFrame id = X * m.getJointFrame parent := by
  have ha := addBody_addedQ m hwf parent X j b name (Or.inr hp) hj hnf m' id h
  have hq := queries_of_addedQ ha hwf (Or.inr hp) hb
  rw [mpOf_of_fixed m parent hp, mpXOf_of_fixed m parent hp, hnv] at hq
  exact hq

/-- "shank" was attached to the fixed body "imu" (id `fixedDisc + 1`) with `X1` … -/
example : (Ex.M.step Ex.opOnFixed).1.getParentBodyId 9 = 5 ∧
    (Ex.M.step Ex.opOnFixed).1.getJointFrame 9 = Ex.X2 * (Ex.X2 * Ex.X3) := by
  have h := queries_added_fixed_parent Ex.M (Ex.M.step Ex.opOnFixed).1 (fixedDisc + 1) Ex.X2 Ex.jz
    Ex.body "probe" 9 Ex.wf_M (by decide +kernel) (by decide +kernel) (by decide +kernel)
    (by decide) (Prod.ext rfl (by decide +kernel)) (by decide +kernel)
  have e1 : Ex.M.getParentBodyId (fixedDisc + 1) = 5 := by decide +kernel
  have e2 : Ex.M.getJointFrame (fixedDisc + 1) = Ex.X2 * Ex.X3 := by decide +kernel
  rw [e1, e2] at h
  exact h
/-- … so the naive statement "the queries return what was supplied" is false for a fixed
    parent: body 6 reports parent 5 (not `fixedDisc + 1`) and a frame different from `X1`. -/
example : Ex.M.getParentBodyId 6 = 5 ∧ Ex.M.getParentBodyId 6 ≠ fixedDisc + 1 ∧
    Ex.M.getJointFrame 6 = Ex.X1 * (Ex.X2 * Ex.X3) ∧ Ex.M.getJointFrame 6 ≠ Ex.X1 := by
  decide +kernel

/-- 1c (F1). VIRTUAL movable parent (an intermediate body of an emulated joint, or a body the
    user flagged virtual): the new body reports what the virtual parent reports. -/
theorem queries_added_virtual_parent (m m' : ModelS α) (parent : Nat) (X : XT α) (j : Joint α)
    (b : Body α) (name : String) (id : Nat) (hwf : m.WF) (hj : m.jointOk j)
    (hp : parent < m.nBodies) (hvirt : (m.body parent).isVirtual = true) (hnf : j.jt ≠ .fixed)
    (h : m.addBody parent X j b name = (m', .ok id)) (hb : m'.nBodies ≤ fixedDisc) :
    m'.getParentBodyId id = m.getParentBodyId parent ∧
    m'.getJointFrame id = m.getJointFrame parent := by
  have ha := addBody_addedQ m hwf parent X j b name (Or.inl hp) hj hnf m' id h
  have hq := queries_of_addedQ ha hwf (Or.inl hp) hb
  have hnb := ha.ext.nb
  simp only [nBodies] at hp hb
  have hpf : parent < fixedDisc := by omega
  rw [mpOf_movable m parent hpf, hvirt] at hq
  exact hq

example : (Ex.M.step Ex.opOnVirtual).1.getParentBodyId 9 = Ex.M.getParentBodyId 4 ∧
    (Ex.M.step Ex.opOnVirtual).1.getJointFrame 9 = Ex.M.getJointFrame 4 :=
  queries_added_virtual_parent Ex.M _ 4 Ex.X1 Ex.jz Ex.body "spur" 9 Ex.wf_M (by decide +kernel)
    (by decide +kernel) (by decide +kernel) (by decide) (Prod.ext rfl (by decide +kernel))
    (by decide +kernel)
/-- counterexample to the naive statement without "not virtual": the body attached to the
    virtual body 4 with `X1` reports parent 2 and frame `X2` -/
example : (Ex.M.step Ex.opOnVirtual).2 = .ok 9 ∧
    (Ex.M.step Ex.opOnVirtual).1.getParentBodyId 9 = 2 ∧
    (Ex.M.step Ex.opOnVirtual).1.getJointFrame 9 = Ex.X2 ∧ Ex.X2 ≠ Ex.X1 := by decide +kernel

omit [DecidableEq α] in
/-- 1d. In every well-formed model whose base is not virtual, `GetParentBodyId` of a movable
    body returns a non-virtual body with a smaller id. -/
theorem getParentBodyId_lt (m : ModelS α) (hwf : m.WF) (h0 : (m.body 0).isVirtual = false)
    (id : Nat) (h1 : 1 ≤ id) (hfd : id < fixedDisc) :
    m.getParentBodyId id < id ∧ (m.body (m.getParentBodyId id)).isVirtual = false := by
  have hl := lamOK_of_wf hwf
  rw [getParentBodyId_movable _ _ hfd]
  have h2 := hl.lt id h1
  have h3 := nvAnc_le hl _ _ (Nat.le_refl (m.lam id))
  exact ⟨by omega, nvAnc_not_virtual hl h0 _ _ (Nat.le_refl _)⟩

/-- 1d'. The base of every model built from the initial one is not virtual. -/
theorem base_not_virtual (ops : List (Op α)) (hv : (ModelS.init : ModelS α).validRun ops) :
    (((ModelS.init : ModelS α).run ops).body 0).isVirtual = false :=
  run_base_not_virtual ops _ C14.wf_init hv rfl

example : Ex.M.getParentBodyId 5 < 5 ∧ (Ex.M.body (Ex.M.getParentBodyId 5)).isVirtual = false :=
  getParentBodyId_lt Ex.M Ex.wf_M (base_not_virtual Ex.ops Ex.validRun_ops) 5 (by decide)
    (by decide)

/-! ### 2. stability of the answers -/

/-- 2a. The answers for every existing movable body are unchanged by any later sequence of
    valid operations (successful or rejected) none of which devirtualises a body. -/
theorem queries_stable (m : ModelS α) (ops : List (Op α)) (hwf : m.WF) (hv : m.validRun ops)
    (hk : keepsVirtual m ops) (id : Nat) (hid : id < m.nBodies)
    (hb : (m.run ops).nBodies ≤ fixedDisc) :
    (m.run ops).getParentBodyId id = m.getParentBodyId id ∧
    (m.run ops).getJointFrame id = m.getJointFrame id := by
  obtain ⟨he, hwf'⟩ := run_qext ops m hwf hv hk
  have hnb := he.nb
  simp only [nBodies] at hid hb
  exact queries_ext (lamOK_of_wf hwf) (lamOK_of_wf hwf') he id hid (by omega)

/-- the queries for "thigh" (added second) after the five later additions -/
example : Ex.M.getParentBodyId 5 = Ex.M2.getParentBodyId 5 ∧
    Ex.M.getJointFrame 5 = Ex.M2.getJointFrame 5 :=
  queries_stable Ex.M2 (Ex.ops.drop 2) Ex.wf_M2 (by decide +kernel) (by decide +kernel) 5
    (by decide +kernel) (by decide +kernel)

/-- 2b. The answers for an existing fixed body are unchanged by every later sequence of
    operations whatsoever. -/
theorem queries_stable_fixed (m : ModelS α) (ops : List (Op α)) (id : Nat)
    (hfx : m.isFixedBodyId id = true) :
    (m.run ops).isFixedBodyId id = true ∧
    (m.run ops).getParentBodyId id = m.getParentBodyId id ∧
    (m.run ops).getJointFrame id = m.getJointFrame id := by
  obtain ⟨h1, h2, h3⟩ := (isFixedBodyId_iff m id).mp hfx
  have hp := (run_fixed_prefix ops m).1
  have hfb : (m.run ops).fixedBody (id - fixedDisc) = m.fixedBody (id - fixedDisc) :=
    prefix_getD hp _ h3 _
  refine ⟨?_, ?_, ?_⟩
  · rw [isFixedBodyId_iff]
    exact ⟨h1, h2, Nat.lt_of_lt_of_le h3 hp.length_le⟩
  · rw [getParentBodyId_fixed _ _ h1, getParentBodyId_fixed _ _ h1, hfb]
  · rw [getJointFrame_fixed _ _ h1, getJointFrame_fixed _ _ h1, hfb]

example : (Ex.M.run [Ex.opDevirt, Ex.opChain]).getJointFrame (fixedDisc + 1) =
    Ex.M.getJointFrame (fixedDisc + 1) :=
  (queries_stable_fixed Ex.M [Ex.opDevirt, Ex.opChain] (fixedDisc + 1) (by decide +kernel)).2.2

/-- 2c. A rejected addition changes no answer (it changes nothing at all: `C14.reject_unchanged`). -/
theorem queries_stable_rejected (m : ModelS α) (op : Op α) (e : Err)
    (h : (m.step op).2 = .error e) (id : Nat) :
    (m.step op).1.getParentBodyId id = m.getParentBodyId id ∧
    (m.step op).1.getJointFrame id = m.getJointFrame id ∧
    (m.step op).1.isFixedBodyId id = m.isFixedBodyId id := by
  rw [C14.reject_unchanged m op e h]
  exact ⟨rfl, rfl, rfl⟩

example : (Ex.M.step Ex.opDup).1.getParentBodyId 5 = Ex.M.getParentBodyId 5 :=
  (queries_stable_rejected Ex.M Ex.opDup .duplicateName (by decide +kernel) 5).1
example : (Ex.M.step Ex.opBad).1.getJointFrame 6 = Ex.M.getJointFrame 6 :=
  (queries_stable_rejected Ex.M Ex.opBad .invalidJoint (by decide +kernel) 6).2.1

/-- 2d. The two together: what `getParentBodyId_added` states keeps holding after every later
    sequence of valid, non-devirtualising operations. -/
theorem added_stable (m m' : ModelS α) (parent : Nat) (X : XT α) (j : Joint α)
    (b : Body α) (name : String) (id : Nat) (ops : List (Op α)) (hwf : m.WF) (hj : m.jointOk j)
    (hp : parent < m.nBodies) (hnv : (m.body parent).isVirtual = false) (hnf : j.jt ≠ .fixed)
    (h : m.addBody parent X j b name = (m', .ok id)) (hv : m'.validRun ops)
    (hk : keepsVirtual m' ops) (hb : (m'.run ops).nBodies ≤ fixedDisc) :
    (m'.run ops).getParentBodyId id = parent ∧ (m'.run ops).getJointFrame id = X := by
  have ha := addBody_addedQ m hwf parent X j b name (Or.inl hp) hj hnf m' id h
  have hle := (run_fixed_prefix ops m').2
  simp only [nBodies] at hb
  have hq := getParentBodyId_added m m' parent X j b name id hwf hj hp hnv hnf h
    (by simp only [nBodies]; omega)
  have hs := queries_stable m' ops ha.wf' hv hk id ha.id_lt hb
  rw [hs.1, hs.2]; exact hq

example : ((Ex.M.addBody 5 Ex.X3 Ex.j3 Ex.body "foot").1.run
      [Ex.opFixZero, Ex.opOnFixed, Ex.opDup]).getParentBodyId 11 = 5 ∧
    ((Ex.M.addBody 5 Ex.X3 Ex.j3 Ex.body "foot").1.run
      [Ex.opFixZero, Ex.opOnFixed, Ex.opDup]).getJointFrame 11 = Ex.X3 :=
  added_stable Ex.M _ 5 Ex.X3 Ex.j3 Ex.body "foot" 11 _ Ex.wf_M (by decide +kernel)
    (by decide +kernel) (by decide +kernel) (by decide) (Prod.ext rfl (by decide +kernel))
    (by decide +kernel) (by decide +kernel) (by decide +kernel)

/-- 2e (F2). The hypothesis `keepsVirtual` cannot be dropped: a devirtualising operation clears
    the virtual flag of the body it is merged into … -/
theorem devirt_changes (m : ModelS α) (op : Op α) (hwf : m.WF) (hv : op.valid m)
    (hd : devirt m op) :
    m.mpOf (parentIn m op) < m.nBodies ∧
    (m.body (m.mpOf (parentIn m op))).isVirtual = true ∧
    ((m.step op).1.body (m.mpOf (parentIn m op))).isVirtual = false :=
  devirt_clears m hwf op hv hd

example : (Ex.M.body 4).isVirtual = true ∧ ((Ex.M.step Ex.opDevirt).1.body 4).isVirtual = false :=
  have h := devirt_changes Ex.M Ex.opDevirt Ex.wf_M (by decide +kernel) (by decide +kernel)
  have e : Ex.M.mpOf (parentIn Ex.M Ex.opDevirt) = 4 := by decide +kernel
  ⟨e ▸ h.2.1, e ▸ h.2.2⟩
/-- … and the answers for "thigh" (body 5, below the virtual bodies 3, 4) change: the naive
    stability statement is false.  A massless fixed body on the same virtual body is harmless. -/
example : (Ex.M.step Ex.opDevirt).2 = .ok (fixedDisc + 2) ∧
    Ex.M.getParentBodyId 5 = 2 ∧ (Ex.M.step Ex.opDevirt).1.getParentBodyId 5 = 4 ∧
    Ex.M.getJointFrame 5 = Ex.X2 ∧ (Ex.M.step Ex.opDevirt).1.getJointFrame 5 = XT.id ∧
    (Ex.M.step Ex.opFixZero).1.getParentBodyId 5 = 2 := by decide +kernel

/-- 2f. Virtual flags of existing bodies are only ever cleared, never set. -/
theorem virtual_mono (m : ModelS α) (op : Op α) (hwf : m.WF) (hv : op.valid m) (i : Nat)
    (hi : i < m.nBodies) (h : ((m.step op).1.body i).isVirtual = true) :
    (m.body i).isVirtual = true :=
  step_virtual_mono m hwf op hv i hi h

example : (Ex.M.body 3).isVirtual = true :=
  virtual_mono Ex.M Ex.opDevirt Ex.wf_M (by decide +kernel) 3 (by decide +kernel)
    (by decide +kernel)

/-! ### 3. `SetJointFrame` -/

omit [DecidableEq α] in
/-- 3a. For a movable body (`1 ≤ id < nBodies`) `SetJointFrame` succeeds and replaces exactly
    one entry of the joint-frame array — that of `topOf m id`; every other field of the model
    is literally unchanged. -/
theorem setJointFrame_spec (m : ModelS α) (hwf : m.WF) (id : Nat) (X' : XT α) (h1 : 1 ≤ id)
    (hlt : id < m.nBodies) (hfd : id < fixedDisc) :
    m.setJointFrame id X' = ({ m with xT := m.xT.set (topOf m id) X' }, .ok ()) :=
  setJointFrame_movable m (lamOK_of_wf hwf) id X' h1 hlt hfd

example : Ex.M.setJointFrame 5 Ex.X1 = ({ Ex.M with xT := Ex.M.xT.set 3 Ex.X1 }, .ok ()) := by
  have h := setJointFrame_spec Ex.M Ex.wf_M 5 Ex.X1 (by decide) (by decide +kernel) (by decide)
  have e : topOf Ex.M 5 = 3 := by decide +kernel
  rw [e] at h; exact h

omit [DecidableEq α] in
/-- 3b. `setJointFrame_getJointFrame`: the query returns the frame that was set; the invariant
    is kept; no parent changes; the frame reported for another body `k` changes exactly when
    `k` shares the emulated-joint chain of `id`. -/
theorem setJointFrame_getJointFrame (m : ModelS α) (hwf : m.WF) (id : Nat) (X' : XT α)
    (h1 : 1 ≤ id) (hlt : id < m.nBodies) (hfd : id < fixedDisc) :
    (m.setJointFrame id X').1.getJointFrame id = X' ∧
    (m.setJointFrame id X').1.WF ∧
    (∀ k, (m.setJointFrame id X').1.getParentBodyId k = m.getParentBodyId k) ∧
    (∀ k, (m.setJointFrame id X').1.getJointFrame k =
      if k < fixedDisc ∧ topOf m k = topOf m id then X' else m.getJointFrame k) := by
  rw [setJointFrame_movable m (lamOK_of_wf hwf) id X' h1 hlt hfd]
  refine ⟨?_, wf_setResult m hwf id X', setResult_parent m id X',
    setResult_frame m hwf id X' hlt⟩
  rw [setResult_frame m hwf id X' hlt id, if_pos ⟨hfd, rfl⟩]

example : (Ex.M.setJointFrame 5 Ex.X1).1.getJointFrame 5 = Ex.X1 ∧
    (Ex.M.setJointFrame 5 Ex.X1).1.getParentBodyId 6 = 5 := by
  have h := setJointFrame_getJointFrame Ex.M Ex.wf_M 5 Ex.X1 (by decide) (by decide +kernel)
    (by decide)
  exact ⟨h.1, by rw [h.2.2.1 6]; decide +kernel⟩

omit [DecidableEq α] in
/-- 3c. In particular bodies on non-virtual parents do not influence each other. -/
theorem setJointFrame_other (m : ModelS α) (hwf : m.WF) (id k : Nat) (X' : XT α)
    (h1 : 1 ≤ id) (hlt : id < m.nBodies) (hfd : id < fixedDisc) (hk : k < m.nBodies)
    (hne : k ≠ id) (hvid : (m.body (m.lam id)).isVirtual = false)
    (hvk : (m.body (m.lam k)).isVirtual = false) :
    (m.setJointFrame id X').1.getJointFrame k = m.getJointFrame k := by
  have hl := lamOK_of_wf hwf
  rw [(setJointFrame_getJointFrame m hwf id X' h1 hlt hfd).2.2.2 k]
  have e1 : topOf m id = id := by rw [topOf_eq hl id hlt, hvid]; rfl
  have e2 : topOf m k = k := by rw [topOf_eq hl k hk, hvk]; rfl
  rw [e1, e2, if_neg (fun h => hne h.2)]

example : (Ex.M.setJointFrame 6 Ex.X2).1.getJointFrame 7 = Ex.M.getJointFrame 7 :=
  setJointFrame_other Ex.M Ex.wf_M 6 7 Ex.X2 (by decide) (by decide +kernel) (by decide)
    (by decide +kernel) (by decide) (by decide +kernel) (by decide +kernel)

/-- (F3) counterexample to "every other body's frame is unchanged": "spur" (body 9) hangs on the
    virtual body 4 of the emulated joint of "thigh" (body 5); setting the frame of the thigh
    changes the frame reported for the spur (and for the virtual bodies 3, 4) -/
example : (Ex.M.step Ex.opOnVirtual).1.getJointFrame 9 = Ex.X2 ∧
    ((Ex.M.step Ex.opOnVirtual).1.setJointFrame 5 Ex.X1).1.getJointFrame 9 = Ex.X1 ∧
    ((Ex.M.step Ex.opOnVirtual).1.setJointFrame 5 Ex.X1).1.getJointFrame 4 = Ex.X1 := by
  decide +kernel

omit [DecidableEq α] in
/-- 3d. Fixed bodies: rejected with a library error, nothing changes. -/
theorem setJointFrame_fixed_rejected (m : ModelS α) (id : Nat) (X' : XT α)
    (hfd : fixedDisc ≤ id) : m.setJointFrame id X' = (m, .error .fixedSetFrame) :=
  setJointFrame_fixed m id X' hfd

example : Ex.M.setJointFrame (fixedDisc + 1) Ex.X1 = (Ex.M, .error .fixedSetFrame) :=
  setJointFrame_fixed_rejected _ _ _ (by decide)

omit [DecidableEq α] in
/-- 3e (F3). The base: `SetJointFrame (0, X)` is silently ignored, so the set/get round trip
    fails for `id = 0` (the query is not defined there). -/
theorem setJointFrame_base_ignored (m : ModelS α) (hwf : m.WF)
    (h0 : (m.body 0).isVirtual = false) (X' : XT α) : m.setJointFrame 0 X' = (m, .ok ()) :=
  setJointFrame_base m (lamOK_of_wf hwf) X' h0

example : Ex.M.setJointFrame 0 Ex.X1 = (Ex.M, .ok ()) :=
  setJointFrame_base_ignored Ex.M Ex.wf_M (by decide +kernel) Ex.X1
example : (Ex.M.setJointFrame 0 Ex.X1).1.getJointFrame 0 ≠ Ex.X1 := by decide +kernel

/-! ### 4. fixed bodies -/

/-- 4a. A successful fixed-joint addition: the id is `fixedDisc + (old number of fixed bodies)`,
    recognised by `IsFixedBodyId`; no movable body is added; the recorded movable parent and
    transform follow the recursion over the chain of fixed parents
      parent fixed:    `movableParent id = movableParent parent`,
                       `parentTransform id = X * parentTransform parent`
      parent movable:  `movableParent id = parent`, `parentTransform id = X`
    (`GetParentBodyId` / `GetJointFrame` read these two fields for a fixed id). -/
theorem fixed_added (m : ModelS α) (op : Op α) (id : Nat) (hv : op.valid m)
    (hf : op.isFixed = true) (h : (m.step op).2 = .ok id) :
    id = fixedDisc + m.fixedBodies.length ∧
    (m.step op).1.isFixedBodyId id = true ∧
    (m.step op).1.nBodies = m.nBodies ∧
    (m.step op).1.fixedBodies.length = m.fixedBodies.length + 1 ∧
    (m.isFixedBodyId (parentIn m op) = true →
      (m.step op).1.getParentBodyId id = (m.step op).1.getParentBodyId (parentIn m op) ∧
      (m.step op).1.getJointFrame id =
        opFrame op * (m.step op).1.getJointFrame (parentIn m op) ∧
      (m.step op).1.getParentBodyId (parentIn m op) = m.getParentBodyId (parentIn m op) ∧
      (m.step op).1.getJointFrame (parentIn m op) = m.getJointFrame (parentIn m op)) ∧
    (m.isFixedBodyId (parentIn m op) = false →
      (m.step op).1.getParentBodyId id = parentIn m op ∧
      (m.step op).1.getJointFrame id = opFrame op) := by
  have ha := step_addedF m op hv hf id h
  refine ⟨by rw [ha.id_eq]; omega, ha.isFixed, ha.nb, ha.len, fun hp => ?_, fun hp => ?_⟩
  · obtain ⟨h1, h2, h3⟩ := (isFixedBodyId_iff m _).mp hp
    have hfb : (m.step op).1.fixedBody (parentIn m op - fixedDisc) =
        m.fixedBody (parentIn m op - fixedDisc) := prefix_getD ha.old _ h3 _
    have e1 : (m.step op).1.getParentBodyId (parentIn m op) = m.getParentBodyId (parentIn m op) := by
      rw [getParentBodyId_fixed _ _ h1, getParentBodyId_fixed _ _ h1, hfb]
    have e2 : (m.step op).1.getJointFrame (parentIn m op) = m.getJointFrame (parentIn m op) := by
      rw [getJointFrame_fixed _ _ h1, getJointFrame_fixed _ _ h1, hfb]
    refine ⟨?_, ?_, e1, e2⟩
    · rw [e1, ha.parentId, mpOf_of_fixed m _ hp]
    · rw [e2, ha.transform, fpXOf_of_fixed m _ _ hp]
  · exact ⟨by rw [ha.parentId, mpOf_of_not_fixed m _ hp],
      by rw [ha.transform, fpXOf_of_not_fixed m _ _ hp]⟩

/-- "gps" fixed on the fixed body "imu" (fixed on fixed on the thigh) -/
example : (Ex.M.step Ex.opFix).1.getParentBodyId (fixedDisc + 2) = 5 ∧
    (Ex.M.step Ex.opFix).1.getJointFrame (fixedDisc + 2) = Ex.X3 * (Ex.X2 * Ex.X3) := by
  have h := fixed_added Ex.M Ex.opFix (fixedDisc + 2) (by decide +kernel) rfl (by decide +kernel)
  obtain ⟨h1, h2, h3, h4⟩ := h.2.2.2.2.1 (by decide +kernel)
  have e1 : Ex.M.getParentBodyId (fixedDisc + 1) = 5 := by decide +kernel
  have e2 : Ex.M.getJointFrame (fixedDisc + 1) = Ex.X2 * Ex.X3 := by decide +kernel
  have p : parentIn Ex.M Ex.opFix = fixedDisc + 1 := rfl
  rw [p] at h1 h2 h3 h4
  rw [h3, e1] at h1
  rw [h4, e2] at h2
  exact ⟨h1, h2⟩
/-- a fixed body on a movable body: the second clause -/
example : (Ex.M.step Ex.opDevirt).1.getParentBodyId (fixedDisc + 2) = 4 ∧
    (Ex.M.step Ex.opDevirt).1.getJointFrame (fixedDisc + 2) = Ex.X1 :=
  (fixed_added Ex.M Ex.opDevirt (fixedDisc + 2) (by decide +kernel) rfl
    (by decide +kernel)).2.2.2.2.2 (by decide +kernel)

omit [DecidableEq α] in
/-- 4b. The movable parent of a fixed body is a movable body of the model, and — unless a
    massless fixed body was hung on a virtual body — one can test it with 1d. -/
theorem fixed_parent_movable (m : ModelS α) (hwf : m.WF) (id : Nat)
    (hfx : m.isFixedBodyId id = true) :
    m.getParentBodyId id < m.nBodies ∧ (m.nBodies ≤ fixedDisc →
      m.isFixedBodyId (m.getParentBodyId id) = false) := by
  obtain ⟨h1, h2, h3⟩ := (isFixedBodyId_iff m id).mp hfx
  rw [getParentBodyId_fixed _ _ h1]
  have := hwf.fixed_parent _ h3
  refine ⟨this, fun hb => not_fixed_of_lt m _ (by omega)⟩

example : Ex.M.getParentBodyId (fixedDisc + 1) < Ex.M.nBodies :=
  (fixed_parent_movable Ex.M Ex.wf_M (fixedDisc + 1) (by decide +kernel)).1

omit [Field α] [DecidableEq α] in
/-- 4c (F4). `IsFixedBodyId` is false for every movable id under the documented bound
    `nBodies ≤ fixedDisc` (without it the movable id `fixedDisc` would be taken for the first
    fixed body: the only criterion is `id ≥ fixedDisc`) … -/
theorem isFixedBodyId_movable_false (m : ModelS α) (hb : m.nBodies ≤ fixedDisc) (id : Nat)
    (hid : id < m.nBodies) : m.isFixedBodyId id = false :=
  not_fixed_of_lt m id (by omega)

omit [DecidableEq α] in
/-- … and true for the id of every fixed body of a well-formed model. -/
theorem isFixedBodyId_fixed_true (m : ModelS α) (hwf : m.WF) (k : Nat)
    (hk : k < m.fixedBodies.length) : m.isFixedBodyId (fixedDisc + k) = true := by
  have := hwf.fixed_cap
  have hfd := fixedDisc_eq
  rw [isFixedBodyId_iff]; omega

example : Ex.M.isFixedBodyId 8 = false :=
  isFixedBodyId_movable_false Ex.M (by decide +kernel) 8 (by decide +kernel)
example : Ex.M.isFixedBodyId (fixedDisc + 1) = true :=
  isFixedBodyId_fixed_true Ex.M Ex.wf_M 1 (by decide +kernel)

/-- 4d. Chains of fixed bodies of ANY length: a fixed body on the movable body (or base) `p0`
    with frame `X₁`, then `l.length` further fixed bodies each appended to the previous one with
    frames `X₂ … Xₙ`.  If all additions succeed, the last body has a fixed id, movable parent
    `p0` and transform `Xₙ * (… * (X₂ * X₁))`. -/
theorem fixed_chain (m : ModelS α) (p0 : Nat) (X1 : XT α) (b1 : Body α) (n1 : String)
    (l : List (XT α × Body α × String)) (hp0 : m.isFixedBodyId p0 = false)
    (hv : m.validRun (.addBody p0 X1 jfixed b1 n1 :: appendFixedOps l))
    (hok : allOk m (.addBody p0 X1 jfixed b1 n1 :: appendFixedOps l)) :
    (m.run (.addBody p0 X1 jfixed b1 n1 :: appendFixedOps l)).prevBodyId =
      fixedDisc + m.fixedBodies.length + l.length ∧
    (m.run (.addBody p0 X1 jfixed b1 n1 :: appendFixedOps l)).isFixedBodyId
      (fixedDisc + m.fixedBodies.length + l.length) = true ∧
    (m.run (.addBody p0 X1 jfixed b1 n1 :: appendFixedOps l)).getParentBodyId
      (fixedDisc + m.fixedBodies.length + l.length) = p0 ∧
    (m.run (.addBody p0 X1 jfixed b1 n1 :: appendFixedOps l)).getJointFrame
      (fixedDisc + m.fixedBodies.length + l.length) = composeOnto X1 (l.map (·.1)) := by
  obtain ⟨id, hid⟩ := (isOk_iff _).mp hok.1
  have ha := step_addedF m (.addBody p0 X1 jfixed b1 n1) hv.1 rfl id hid
  have hpi : parentIn m (.addBody p0 X1 jfixed b1 n1 : Op α) = p0 := rfl
  have hfr : opFrame (.addBody p0 X1 jfixed b1 n1 : Op α) = X1 := rfl
  rw [hpi, hfr] at ha
  have hprev := ha.prev
  obtain ⟨h1, h2, h3, h4, h5⟩ := chain_append l _ hv.2 hok.2 (by rw [hprev]; exact ha.isFixed)
  have hrun : m.run (.addBody p0 X1 jfixed b1 n1 :: appendFixedOps l) =
      (m.step (.addBody p0 X1 jfixed b1 n1)).1.run (appendFixedOps l) := rfl
  have hlast : ((m.step (.addBody p0 X1 jfixed b1 n1)).1.run (appendFixedOps l)).prevBodyId =
      fixedDisc + m.fixedBodies.length + l.length := by
    by_cases hl : l = []
    · subst hl
      show (m.step (.addBody p0 X1 jfixed b1 n1)).1.prevBodyId = _
      rw [hprev, ha.id_eq]; simp only [List.length_nil]; omega
    · rw [h5 hl, ha.len]
      have : 1 ≤ l.length := by
        cases l with
        | nil => exact absurd rfl hl
        | cons _ _ => simp
      omega
  rw [hrun, ← hlast]
  refine ⟨rfl, h1, ?_, ?_⟩
  · rw [h2, hprev, ha.parentId, mpOf_of_not_fixed m _ hp0]
  · rw [h3, hprev, ha.transform, fpXOf_of_not_fixed m _ _ hp0]

/-- a chain of three fixed bodies on "cyl" (body 7) of the example model -/
example : (Ex.M.run (.addBody 7 Ex.X1 jfixed Ex.body "f1" ::
      appendFixedOps [(Ex.X2, Ex.body, "f2"), (Ex.X3, Ex.body, "")])).getParentBodyId
      (fixedDisc + 4) = 7 ∧
    (Ex.M.run (.addBody 7 Ex.X1 jfixed Ex.body "f1" ::
      appendFixedOps [(Ex.X2, Ex.body, "f2"), (Ex.X3, Ex.body, "")])).getJointFrame
      (fixedDisc + 4) = Ex.X3 * (Ex.X2 * Ex.X1) := by
  have h := fixed_chain Ex.M 7 Ex.X1 Ex.body "f1" [(Ex.X2, Ex.body, "f2"), (Ex.X3, Ex.body, "")]
    (by decide +kernel) (by decide +kernel) (by decide +kernel)
  have e : Ex.M.fixedBodies.length = 2 := by decide +kernel
  rw [e] at h
  exact ⟨h.2.2.1, h.2.2.2⟩

/-- 4e. Names and ids resolve to each other (movable and fixed bodies alike) in every model
    built from the initial one that respects the bound on the number of bodies. -/
theorem name_roundtrip (ops : List (Op α)) (hv : (ModelS.init : ModelS α).validRun ops)
    (hb : ((ModelS.init : ModelS α).run ops).nBodies ≤ fixedDisc) (p : String × Nat)
    (hp : p ∈ ((ModelS.init : ModelS α).run ops).names) :
    ((ModelS.init : ModelS α).run ops).getBodyId p.1 = p.2 ∧
    getBodyName ((ModelS.init : ModelS α).run ops) p.2 = p.1 :=
  ⟨(C14.names_resolve _ (C14.wf_run ops hv) p hp).1,
   getBodyName_of_mem _ (run_idsDistinct ops _ C14.wf_init hv idsDistinct_init hb) p hp⟩

example : Ex.M.getBodyId "imu" = fixedDisc + 1 ∧ getBodyName Ex.M (fixedDisc + 1) = "imu" :=
  name_roundtrip Ex.ops Ex.validRun_ops (by decide +kernel) ("imu", fixedDisc + 1)
    (by decide +kernel)
example : getBodyName Ex.M 6 = "shank" ∧ getBodyName Ex.M 4 = "" ∧ Ex.M.getBodyId "nobody" =
    4294967295 := by decide +kernel

/-- 4f. The id returned by a successful named addition (fixed or movable) and the name resolve
    to each other; an unnamed new body has no name. -/
theorem added_name_roundtrip (m : ModelS α) (op : Op α) (id : Nat) (hwf : m.WF)
    (hd : idsDistinct m) (h : (m.step op).2 = .ok id)
    (hb : (m.step op).1.nBodies ≤ fixedDisc) :
    (op.name ≠ "" → (m.step op).1.getBodyId op.name = id ∧
      getBodyName (m.step op).1 id = op.name) ∧
    (op.name = "" → getBodyName (m.step op).1 id = "") := by
  have hfresh := step_id_fresh m hwf op id h hb
  have hnames := step_names m op id h
  refine ⟨fun hne => ⟨((C14.returned_id m op id h).2.2 hne).1, ?_⟩, fun he => ?_⟩
  · have hd' := step_idsDistinct m hwf op hd hb
    rw [if_pos hne] at hnames
    exact getBodyName_of_mem _ hd' (op.name, id) (by rw [hnames]; simp)
  · rw [if_neg (fun hne => hne he)] at hnames
    exact getBodyName_none _ id (by rw [hnames]; exact hfresh)

example : (Ex.M.step Ex.opFix).1.getBodyId "gps" = fixedDisc + 2 ∧
    getBodyName (Ex.M.step Ex.opFix).1 (fixedDisc + 2) = "gps" :=
  (added_name_roundtrip Ex.M Ex.opFix (fixedDisc + 2) Ex.wf_M
    (run_idsDistinct Ex.ops _ C14.wf_init Ex.validRun_ops idsDistinct_init (by decide +kernel))
    (by decide +kernel) (by decide +kernel)).1 (by decide)

/-- an unnamed addition (the two virtual bodies and the unnamed last fixed body of the chain) -/
example : getBodyName (Ex.M.step (.appendBody Ex.X1 Ex.jz Ex.body "")).1 9 = "" :=
  (added_name_roundtrip Ex.M (.appendBody Ex.X1 Ex.jz Ex.body "") 9 Ex.wf_M
    (run_idsDistinct Ex.ops _ C14.wf_init Ex.validRun_ops idsDistinct_init (by decide +kernel))
    (by decide +kernel) (by decide +kernel)).2 rfl

/-! ### 5. sizes -/

omit [DecidableEq α] in
/-- 5. Readable form of the size clauses of `WF`: `qdot_size = dof_count = Σ dof`,
    `q_size = dof_count + #spherical joints`, and the spherical joints in index order
    (`sphIds`) have the `w` indices `dof_count, dof_count + 1, …` — after all other coordinates
    (`C14.coord_ranges`: every joint's own coordinates end at or before `dof_count`). -/
theorem size_clauses (m : ModelS α) (hwf : m.WF) :
    m.qdotSize = m.dofCount ∧ m.dofCount = dofSum m.joints ∧
    m.qSize = m.dofCount + nSph m ∧ (sphIds m).length = nSph m ∧
    (sphIds m).map m.w3 = (List.range (nSph m)).map (m.dofCount + ·) ∧
    (∀ k (hk : k < (sphIds m).length), m.w3 (sphIds m)[k] = m.dofCount + k) ∧
    m.lambdaQ.length = m.dofCount + 1 := by
  have h1 := sphIds_length m hwf
  have h2 := nSph_eq m hwf
  have h3 := sphIds_w3 m hwf
  refine ⟨hwf.qdot, hwf.dof_sum, by rw [hwf.qsize, h2], by rw [h1, h2], by rw [h3, h1, h2],
    fun k hk => ?_, by rw [hwf.lambdaQ_eq]; simp⟩
  have := congrArg (fun l => l[k]?) h3
  simp only [List.getElem?_map, List.getElem?_eq_getElem hk, Option.map_some,
    List.getElem?_range hk] at this
  exact Option.some.inj this

example : Ex.M.qSize = 17 ∧ Ex.M.dofCount = 15 ∧ sphIds Ex.M = [2, 8] ∧
    Ex.M.w3 2 = 15 ∧ Ex.M.w3 8 = 16 := by decide +kernel
example : Ex.M.qSize = Ex.M.dofCount + nSph Ex.M ∧
    (sphIds Ex.M).map Ex.M.w3 = (List.range (nSph Ex.M)).map (Ex.M.dofCount + ·) :=
  have h := size_clauses Ex.M Ex.wf_M
  ⟨h.2.2.1, h.2.2.2.2.1⟩

end
end Rbdl.C14Q
