import RbdlProofs.Lemmas.Kkt
import RbdlProofs.Lemmas.KktEx
/-
  C08 — constrained forward dynamics (Constraints.cc: `ForwardDynamicsConstraintsDirect`,
  `…RangeSpaceSparse`, `…NullSpace`).

  Specifying relation:   H qdd + N = tau + Gᵀ lam,   G qdd = gamma        (c := tau - N).

  The dense solves are delegated to Eigen (checked at run time in certificate mode); the theorems
  below say what every solution of the systems that the three methods set up has.

  Scalars: the statements hold over any commutative ring `K` (with a partial order where positive
  definiteness is used), in particular over every linearly ordered field
  (`[Field K] [LinearOrder K] [IsStrictOrderedRing K]`) and over `ℚ`, `ℝ`.  Index types are arbitrary
  finite types (`Fin n`, `Fin m`, `Fin (n - m)` are instances).
-/
namespace Rbdl.C08
open Matrix Rbdl.Kkt

variable {K : Type*} {m n z : Type*} [Fintype m] [Fintype n] [Fintype z]

/-- **kkt_unique** ("all methods agree").  `H` positive definite, `Gᵀ` injective (full row rank)
⇒ the relation has at most one solution `(qdd, lam)`.
Symmetry of `H` is *not* needed (so the theorem is stated without it; a symmetric positive
definite `H` is a special case). -/
theorem kkt_unique [CommRing K] [PartialOrder K] (H : Matrix n n K) (G : Matrix m n K)
    (hpd : ∀ x : n → K, x ≠ 0 → 0 < x ⬝ᵥ H *ᵥ x)
    (hG : ∀ y : m → K, Gᵀ *ᵥ y = 0 → y = 0)
    (N tau : n → K) (gamma : m → K) (qdd qdd' : n → K) (lam lam' : m → K)
    (h1 : H *ᵥ qdd + N = tau + Gᵀ *ᵥ lam) (h2 : G *ᵥ qdd = gamma)
    (h1' : H *ᵥ qdd' + N = tau + Gᵀ *ᵥ lam') (h2' : G *ᵥ qdd' = gamma) :
    qdd = qdd' ∧ lam = lam' :=
  kkt_unique_of_definite H G (definite_of_pos hpd) hG (c := tau - N)
    (by rw [eq_sub_of_add_eq h1]; abel) h2 (by rw [eq_sub_of_add_eq h1']; abel) h2'

example : Ex.qdd = Ex.qdd ∧ Ex.lam = Ex.lam :=
  kkt_unique Ex.H Ex.G Ex.H_pd Ex.G_inj Ex.N Ex.tau Ex.gamma Ex.qdd Ex.qdd Ex.lam Ex.lam
    Ex.sol1 Ex.sol2 Ex.sol1 Ex.sol2

/-- `kkt_unique` literally in the requested form: linearly ordered field, `Fin` indices, `H`
symmetric positive definite (the symmetry hypothesis is accepted and not used). -/
theorem kkt_unique_spd {F : Type*} [Field F] [LinearOrder F] [IsStrictOrderedRing F] {n m : ℕ}
    (H : Matrix (Fin n) (Fin n) F) (G : Matrix (Fin m) (Fin n) F)
    (_hH : H.IsSymm) (hpd : ∀ x : Fin n → F, x ≠ 0 → 0 < x ⬝ᵥ H *ᵥ x)
    (hG : ∀ y : Fin m → F, Gᵀ *ᵥ y = 0 → y = 0)
    (N tau : Fin n → F) (gamma : Fin m → F) (qdd qdd' : Fin n → F) (lam lam' : Fin m → F)
    (h1 : H *ᵥ qdd + N = tau + Gᵀ *ᵥ lam) (h2 : G *ᵥ qdd = gamma)
    (h1' : H *ᵥ qdd' + N = tau + Gᵀ *ᵥ lam') (h2' : G *ᵥ qdd' = gamma) :
    qdd = qdd' ∧ lam = lam' :=
  kkt_unique H G hpd hG N tau gamma qdd qdd' lam lam' h1 h2 h1' h2'

example : Ex.qdd = Ex.qdd ∧ Ex.lam = Ex.lam :=
  kkt_unique_spd Ex.H Ex.G Ex.H_symm Ex.H_pd Ex.G_inj Ex.N Ex.tau Ex.gamma Ex.qdd Ex.qdd Ex.lam
    Ex.lam Ex.sol1 Ex.sol2 Ex.sol1 Ex.sol2

/-- **range_space_sound** — algebra of `SolveConstrainedSystemRangeSpaceSparse`.
Only `H * Hinv = 1` is used (for square matrices it is equivalent to a two-sided inverse). -/
theorem range_space_sound [CommRing K] [DecidableEq n] (H Hinv : Matrix n n K) (G : Matrix m n K)
    (hHinv : H * Hinv = 1) (c : n → K) (gamma lam : m → K) (Kmat : Matrix m m K) (a : m → K)
    (qdd : n → K)
    (hK : Kmat = G * Hinv * Gᵀ) (ha : a = gamma - G *ᵥ (Hinv *ᵥ c))
    (hlam : Kmat *ᵥ lam = a) (hqdd : qdd = Hinv *ᵥ (c + Gᵀ *ᵥ lam)) :
    H *ᵥ qdd = c + Gᵀ *ᵥ lam ∧ G *ᵥ qdd = gamma := by
  subst hK ha hqdd
  exact range_space H Hinv G hHinv c gamma lam hlam

example : Ex.H *ᵥ Ex.qdd = Ex.c + Ex.Gᵀ *ᵥ Ex.lam ∧ Ex.G *ᵥ Ex.qdd = Ex.gamma :=
  range_space_sound Ex.H Ex.Hinv Ex.G Ex.H_Hinv Ex.c Ex.gamma Ex.lam _ _ Ex.qdd rfl rfl
    Ex.range_lam Ex.range_qdd

/-- The same with the quantities of the code: `H = Lᵀ L` (`SparseFactorizeLTL`), `Li = L⁻¹`,
`Y = L⁻ᵀ Gᵀ`, `z = L⁻ᵀ c` (`SparseSolveLTx`), `K = Yᵀ Y`, `a = gamma - Yᵀ z`,
`qdd = L⁻¹ L⁻ᵀ (c + Gᵀ lam)` (`SparseSolveLTx` then `SparseSolveLx`). -/
theorem range_space_ltl_sound [CommRing K] [DecidableEq n] (L Li : Matrix n n K)
    (G : Matrix m n K) (hL1 : L * Li = 1) (hL2 : Li * L = 1)
    (c : n → K) (gamma lam : m → K) (Y : Matrix n m K) (zz : n → K) (Kmat : Matrix m m K)
    (a : m → K) (qdd : n → K)
    (hY : Y = Liᵀ * Gᵀ) (hz : zz = Liᵀ *ᵥ c) (hK : Kmat = Yᵀ * Y) (ha : a = gamma - Yᵀ *ᵥ zz)
    (hlam : Kmat *ᵥ lam = a) (hqdd : qdd = Li *ᵥ (Liᵀ *ᵥ (c + Gᵀ *ᵥ lam))) :
    (Lᵀ * L) *ᵥ qdd = c + Gᵀ *ᵥ lam ∧ G *ᵥ qdd = gamma := by
  subst hY hz hK ha hqdd
  rw [mulVec_mulVec (c + Gᵀ *ᵥ lam) Li Liᵀ]
  refine range_space (Lᵀ * L) (Li * Liᵀ) G (ltl_inverse L Li hL1 hL2) c gamma lam ?_
  have e1 : (Liᵀ * Gᵀ)ᵀ = G * Li := by
    rw [transpose_mul, transpose_transpose, transpose_transpose]
  rw [e1] at hlam
  rw [← mulVec_mulVec c Li Liᵀ, mulVec_mulVec (Liᵀ *ᵥ c) G Li, ← hlam]
  simp only [Matrix.mul_assoc]

example : (Ex.Lᵀ * Ex.L) *ᵥ (Ex.Li *ᵥ (Ex.Liᵀ *ᵥ (Ex.c + Ex.Gᵀ *ᵥ Ex.lamL))) =
      Ex.c + Ex.Gᵀ *ᵥ Ex.lamL ∧
    Ex.G *ᵥ (Ex.Li *ᵥ (Ex.Liᵀ *ᵥ (Ex.c + Ex.Gᵀ *ᵥ Ex.lamL))) = Ex.gamma :=
  range_space_ltl_sound Ex.L Ex.Li Ex.G Ex.L_Li Ex.Li_L Ex.c Ex.gamma Ex.lamL _ _ _ _ _
    rfl rfl rfl rfl Ex.ltl_lam rfl

/-- **null_space_sound** — algebra of `SolveConstrainedSystemNullSpace` (with the transpose in
the multiplier solve, i.e. the corrected code). `Z` may have any finite column index type. -/
theorem null_space_sound [CommRing K] (H : Matrix n n K) (G : Matrix m n K) (Y : Matrix n m K)
    (Z : Matrix n z K) (c : n → K) (gamma : m → K) (qy : m → K) (qz : z → K) (lam : m → K)
    (qdd : n → K)
    (hGZ : G * Z = 0)
    (hYZ : ∀ r : n → K, Yᵀ *ᵥ r = 0 → Zᵀ *ᵥ r = 0 → r = 0)
    (hy : (G * Y) *ᵥ qy = gamma)
    (hz : (Zᵀ * H * Z) *ᵥ qz = Zᵀ *ᵥ (c - H *ᵥ (Y *ᵥ qy)))
    (hqdd : qdd = Y *ᵥ qy + Z *ᵥ qz)
    (hl : (G * Y)ᵀ *ᵥ lam = Yᵀ *ᵥ (H *ᵥ qdd - c)) :
    H *ᵥ qdd = c + Gᵀ *ᵥ lam ∧ G *ᵥ qdd = gamma := by
  subst hqdd
  exact null_space H G Y Z c gamma qy qz lam hGZ hYZ hy hz hl

example : Ex.H *ᵥ Ex.qdd = Ex.c + Ex.Gᵀ *ᵥ Ex.lam ∧ Ex.G *ᵥ Ex.qdd = Ex.gamma :=
  null_space_sound Ex.H Ex.G Ex.Y Ex.Z Ex.c Ex.gamma Ex.qy Ex.qz Ex.lam Ex.qdd Ex.GZ Ex.YZ_inj
    Ex.ns_qy Ex.ns_qz Ex.ns_qdd Ex.ns_lam

/-- The defect that was fixed in `SolveConstrainedSystemNullSpace`: if the multiplier is obtained
from `(G Y) lam = Yᵀ (H qdd − c)` (no transpose) all other hypotheses of `null_space_sound` can
hold — even with `H` symmetric positive definite and `[Y Z]` the identity — while the conclusion
fails.  3 degrees of freedom, 2 constraints, over ℚ. -/
theorem null_space_defect_counterexample :
    ∃ (H : Matrix (Fin 3) (Fin 3) ℚ) (G : Matrix (Fin 2) (Fin 3) ℚ)
      (Y : Matrix (Fin 3) (Fin 2) ℚ) (Z : Matrix (Fin 3) (Fin 1) ℚ) (c : Fin 3 → ℚ)
      (gamma qy : Fin 2 → ℚ) (qz : Fin 1 → ℚ) (lam : Fin 2 → ℚ) (qdd : Fin 3 → ℚ),
      H.IsSymm ∧ (∀ x : Fin 3 → ℚ, x ≠ 0 → 0 < x ⬝ᵥ H *ᵥ x) ∧
      (∀ y : Fin 2 → ℚ, Gᵀ *ᵥ y = 0 → y = 0) ∧
      G * Z = 0 ∧ (∀ r : Fin 3 → ℚ, Yᵀ *ᵥ r = 0 → Zᵀ *ᵥ r = 0 → r = 0) ∧
      (G * Y) *ᵥ qy = gamma ∧
      (Zᵀ * H * Z) *ᵥ qz = Zᵀ *ᵥ (c - H *ᵥ (Y *ᵥ qy)) ∧
      qdd = Y *ᵥ qy + Z *ᵥ qz ∧
      (G * Y) *ᵥ lam = Yᵀ *ᵥ (H *ᵥ qdd - c) ∧
      ¬ (H *ᵥ qdd = c + Gᵀ *ᵥ lam ∧ G *ᵥ qdd = gamma) :=
  ⟨Ex.H, Ex.G, Ex.Y, Ex.Z, Ex.c, Ex.gamma, Ex.qy, Ex.qz, Ex.lamBad, Ex.qdd, Ex.H_symm, Ex.H_pd,
    Ex.G_inj, Ex.GZ, Ex.YZ_inj, Ex.ns_qy, Ex.ns_qz, Ex.ns_qdd, Ex.ns_lamBad,
    fun h => Ex.bad_fails h.1⟩

/-- **direct_sign** — `SolveConstrainedSystemDirect` solves `[[H, Gᵀ],[G, 0]] (qdd, x) = (c, gamma)`
and `ForwardDynamicsConstraintsDirect` reports `lam = -x`: this is exactly the relation
(an equivalence, stated with `c = tau - N` unfolded). -/
theorem direct_sign [CommRing K] (H : Matrix n n K) (G : Matrix m n K) (N tau qdd : n → K)
    (gamma x lam : m → K) (hlam : lam = -x) :
    fromBlocks H Gᵀ G 0 *ᵥ Sum.elim qdd x = Sum.elim (tau - N) gamma ↔
      H *ᵥ qdd + N = tau + Gᵀ *ᵥ lam ∧ G *ᵥ qdd = gamma := by
  subst hlam
  rw [direct_block]
  constructor
  · rintro ⟨h1, h2⟩; exact ⟨by rw [h1]; abel, h2⟩
  · rintro ⟨h1, h2⟩; exact ⟨by rw [eq_sub_of_add_eq h1]; abel, h2⟩

example : fromBlocks Ex.H Ex.Gᵀ Ex.G 0 *ᵥ Sum.elim Ex.qdd (-Ex.lam) =
    Sum.elim (Ex.tau - Ex.N) Ex.gamma :=
  (direct_sign Ex.H Ex.G Ex.N Ex.tau Ex.qdd Ex.gamma (-Ex.lam) Ex.lam (neg_neg _).symm).mpr
    ⟨Ex.sol1, Ex.sol2⟩

/-- **all methods agree**: for positive definite `H` and full-row-rank `G` the outputs of the
direct, the range-space and the null-space method coincide. -/
theorem methods_agree [CommRing K] [PartialOrder K] [DecidableEq n]
    (H Hinv : Matrix n n K) (G : Matrix m n K)
    (hpd : ∀ x : n → K, x ≠ 0 → 0 < x ⬝ᵥ H *ᵥ x)
    (hG : ∀ y : m → K, Gᵀ *ᵥ y = 0 → y = 0)
    (c : n → K) (gamma : m → K)
    -- direct
    (qddD : n → K) (x : m → K)
    (hD : fromBlocks H Gᵀ G 0 *ᵥ Sum.elim qddD x = Sum.elim c gamma)
    -- range space
    (hHinv : H * Hinv = 1) (lamR : m → K)
    (hR : (G * Hinv * Gᵀ) *ᵥ lamR = gamma - G *ᵥ (Hinv *ᵥ c))
    -- null space
    (Y : Matrix n m K) (Z : Matrix n z K) (qy : m → K) (qz : z → K) (lamN : m → K)
    (hGZ : G * Z = 0)
    (hYZ : ∀ r : n → K, Yᵀ *ᵥ r = 0 → Zᵀ *ᵥ r = 0 → r = 0)
    (hy : (G * Y) *ᵥ qy = gamma)
    (hz : (Zᵀ * H * Z) *ᵥ qz = Zᵀ *ᵥ (c - H *ᵥ (Y *ᵥ qy)))
    (hl : (G * Y)ᵀ *ᵥ lamN = Yᵀ *ᵥ (H *ᵥ (Y *ᵥ qy + Z *ᵥ qz) - c)) :
    (qddD = Hinv *ᵥ (c + Gᵀ *ᵥ lamR) ∧ -x = lamR) ∧
      (qddD = Y *ᵥ qy + Z *ᵥ qz ∧ -x = lamN) := by
  have hd := (direct_block H G c qddD gamma x).mp hD
  have hr := range_space H Hinv G hHinv c gamma lamR hR
  have hn := null_space H G Y Z c gamma qy qz lamN hGZ hYZ hy hz hl
  have hdef := definite_of_pos hpd
  exact ⟨kkt_unique_of_definite H G hdef hG hd.1 hd.2 hr.1 hr.2,
    kkt_unique_of_definite H G hdef hG hd.1 hd.2 hn.1 hn.2⟩

example : (Ex.qdd = Ex.Hinv *ᵥ (Ex.c + Ex.Gᵀ *ᵥ Ex.lam) ∧ - -Ex.lam = Ex.lam) ∧
    (Ex.qdd = Ex.Y *ᵥ Ex.qy + Ex.Z *ᵥ Ex.qz ∧ - -Ex.lam = Ex.lam) :=
  methods_agree Ex.H Ex.Hinv Ex.G Ex.H_pd Ex.G_inj Ex.c Ex.gamma Ex.qdd (-Ex.lam)
    ((direct_block Ex.H Ex.G Ex.c Ex.qdd Ex.gamma (-Ex.lam)).mpr
      ⟨by rw [neg_neg]; exact Ex.sol1c, Ex.sol2⟩)
    Ex.H_Hinv Ex.lam Ex.range_lam Ex.Y Ex.Z Ex.qy Ex.qz Ex.lam Ex.GZ Ex.YZ_inj Ex.ns_qy Ex.ns_qz
    (by rw [← Ex.ns_qdd]; exact Ex.ns_lam)

/-- The Schur complement `G H⁻¹ Gᵀ` and the reduced matrix `Zᵀ H Z` handed to `llt()` are positive
definite (so the Cholesky solves of the range-space and null-space methods are legitimate). -/
theorem schur_posdef [CommRing K] [PartialOrder K] [DecidableEq n] (H Hinv : Matrix n n K)
    (G : Matrix m n K) (hHinv : H * Hinv = 1)
    (hpd : ∀ x : n → K, x ≠ 0 → 0 < x ⬝ᵥ H *ᵥ x)
    (hG : ∀ y : m → K, Gᵀ *ᵥ y = 0 → y = 0) :
    ∀ y : m → K, y ≠ 0 → 0 < y ⬝ᵥ (G * Hinv * Gᵀ) *ᵥ y :=
  schur_pos G hHinv hpd hG

theorem reduced_posdef [CommRing K] [PartialOrder K] (H : Matrix n n K) (Z : Matrix n z K)
    (hpd : ∀ x : n → K, x ≠ 0 → 0 < x ⬝ᵥ H *ᵥ x)
    (hZ : ∀ w : z → K, Z *ᵥ w = 0 → w = 0) :
    ∀ w : z → K, w ≠ 0 → 0 < w ⬝ᵥ (Zᵀ * H * Z) *ᵥ w :=
  reduced_pos Z hpd hZ

example : ∀ y : Fin 2 → ℚ, y ≠ 0 → 0 < y ⬝ᵥ (Ex.G * Ex.Hinv * Ex.Gᵀ) *ᵥ y :=
  schur_posdef Ex.H Ex.Hinv Ex.G Ex.H_Hinv Ex.H_pd Ex.G_inj

example : ∀ w : Fin 1 → ℚ, w ≠ 0 → 0 < w ⬝ᵥ (Ex.Zᵀ * Ex.H * Ex.Z) *ᵥ w :=
  reduced_posdef Ex.H Ex.Z Ex.H_pd Ex.Z_inj

end Rbdl.C08
