import RbdlProofs.Lemmas.LKinCapBuild
import RbdlProofs.Lemmas.L01CapEx
import RbdlProofs.Lemmas.L01CapFixEx
import RbdlProofs.Props.C13
/-
  C04, capstone — **the coordinate queries equal first-principles forward kinematics.**

  "For every well-formed model, every admissible state, every workspace and every body id,
   `CalcBodyToBaseCoordinates`, `CalcBaseToBodyCoordinates` and `CalcBodyWorldOrientation`
   (`update_kinematics = true`) return what the specification obtains by composing the homogeneous
   poses of the joint *definitions* from the base outward."

  Code side: `Rbdl/Kin.lean` (spatial transforms `X_base`, fixed bodies resolved through the movable
  parent and `mParentTransform`).  Specification side: `Spec.bodyToBase`, `Spec.baseToBody`,
  `Spec.orientation` (`Rbdl/Spec/Mech.lean`): the node with the given id is looked up in
  `Spec.kinTable`, the table of world poses composed by `Spec.fkTable`; fixed bodies are nodes of their
  own.  The specification's state is `stateOf st qd qdd` for *arbitrary* `qd`, `qdd` (positions do not
  depend on them).

  Notions (besides those of `C01Cap`: `Refines`, `RefinesF`, `ModelOK`, `StateOK`, `WSFixed`, `goodRun`,
  `goodRunF`, `specOf`):
  * `LKinCap.FixedIds m M off`  the id bookkeeping that `RefinesF` does not record: node ids are unique,
                    and fixed body `k` of the model is a node with id `disc + k` that moves with
                    `mFixedBodies[k].mMovableParent` at the offset `mParentTransform`.  Established by
                    construction (`fixedIds_by_construction`), like `RefinesF`.
  * `m.validId id`  (`Rbdl/ModelWF.lean`) `id < nBodies` (base, movable bodies incl. virtual ones) or
                    `isFixedBodyId id`.
  * movable ids must lie below the fixed-body discriminator `disc = 2³¹ − 1` (`id < fixedDisc`, resp.
    `nBodies ≤ fixedDisc`): otherwise the code treats them as fixed-body ids.  For constructed models
    with `goodRunF` this is part of the construction invariant.

  `StateOK` (unit quaternions, `cos² + sin² = 1`, unit axes) is needed for `CalcBaseToBodyCoordinates` of
  a *fixed* body only (the code composes `E_T (−r_T − E_X (r_X − p))`, which is the inverse of the pose of
  the fixed body only if `E_X` is orthogonal; machine-checked counterexample at the end): all other
  queries are polynomial identities (C04).  No hypothesis `2 ≠ 0` is needed for C04.
-/
namespace Rbdl.C04Cap
open Lean.Grind Rbdl Rbdl.Spec Rbdl.L01Cap Rbdl.LKinCap
variable {α : Type} [Field α] [DecidableEq α]

/-! ### Stage A — models without fixed bodies (`Refines`): every movable body id and the base -/

theorem calcBodyToBaseCoordinates_eq_spec {m : ModelS α} {M : SModel α} (hm : ModelOK m)
    (hR : Refines m M) (w : WS α) (hw : WSFixed m w) (st : QS α) (qd qdd : VecN α) (id : Nat)
    (hid : id < m.nBodies) (hfd : id < fixedDisc) (p : V3 α) :
    (calcBodyToBaseCoordinates m w st id p true).2
      = Spec.bodyToBase M (stateOf st qd qdd) id p :=
  bodyToBase_core hm (resolvesR hm hR id hid hfd).1 (resolvesR hm hR id hid hfd).2 w hw st qd qdd p
example (p : V3 Rat) :=
  calcBodyToBaseCoordinates_eq_spec Ex.m_ok Ex.m_refines Ex.w1 Ex.w1_fixed Ex.st Ex.qd Ex.qdd 5
    (by decide +kernel) (by decide) p

theorem calcBaseToBodyCoordinates_eq_spec {m : ModelS α} {M : SModel α} (hm : ModelOK m)
    (hR : Refines m M) (w : WS α) (hw : WSFixed m w) (st : QS α) (qd qdd : VecN α) (id : Nat)
    (hid : id < m.nBodies) (hfd : id < fixedDisc) (p : V3 α) :
    (calcBaseToBodyCoordinates m w st id p true).2
      = Spec.baseToBody M (stateOf st qd qdd) id p :=
  baseToBody_core_movable hm (resolvesR hm hR id hid hfd).1 (resolvesR hm hR id hid hfd).2 w hw st
    qd qdd p
example (p : V3 Rat) :=
  calcBaseToBodyCoordinates_eq_spec Ex.m_ok Ex.m_refines Ex.w1 Ex.w1_fixed Ex.st Ex.qd Ex.qdd 3
    (by decide +kernel) (by decide) p

theorem calcBodyWorldOrientation_eq_spec {m : ModelS α} {M : SModel α} (hm : ModelOK m)
    (hR : Refines m M) (w : WS α) (hw : WSFixed m w) (st : QS α) (qd qdd : VecN α) (id : Nat)
    (hid : id < m.nBodies) (hfd : id < fixedDisc) :
    (calcBodyWorldOrientation m w st id true).2 = Spec.orientation M (stateOf st qd qdd) id :=
  orientation_core hm (resolvesR hm hR id hid hfd).1 (resolvesR hm hR id hid hfd).2 w hw st qd qdd
example :=
  calcBodyWorldOrientation_eq_spec Ex.m_ok Ex.m_refines Ex.w0 Ex.w0_fixed Ex.st Ex.qd Ex.qdd 4
    (by decide +kernel) (by decide)

/-! ### Stage D — models with fixed bodies (`RefinesF` + `FixedIds`): every valid body id -/

theorem calcBodyToBaseCoordinates_eq_spec_fixed {m : ModelS α} {M : SModel α} {off : Nat → XT α}
    {nodeOf : Nat → Nat} (hm : ModelOK m) (hR : RefinesF m M off nodeOf) (hI : FixedIds m M off)
    (hcap : m.nBodies ≤ fixedDisc) (w : WS α) (hw : WSFixed m w) (st : QS α) (qd qdd : VecN α)
    (id : Nat) (hid : m.validId id) (p : V3 α) :
    (calcBodyToBaseCoordinates m w st id p true).2
      = Spec.bodyToBase M (stateOf st qd qdd) id p := by
  obtain ⟨hT, b, T, hres⟩ := resolvesF hm hR hI hcap id hid
  exact bodyToBase_core hm hT hres w hw st qd qdd p

theorem calcBaseToBodyCoordinates_eq_spec_fixed {m : ModelS α} {M : SModel α} {off : Nat → XT α}
    {nodeOf : Nat → Nat} (hm : ModelOK m) (hR : RefinesF m M off nodeOf) (hI : FixedIds m M off)
    (hcap : m.nBodies ≤ fixedDisc) (w : WS α) (hw : WSFixed m w) (st : QS α) (hst : StateOK m st)
    (qd qdd : VecN α) (id : Nat) (hid : m.validId id) (p : V3 α) :
    (calcBaseToBodyCoordinates m w st id p true).2
      = Spec.baseToBody M (stateOf st qd qdd) id p := by
  obtain ⟨hT, b, T, hres⟩ := resolvesF hm hR hI hcap id hid
  exact baseToBody_core hm hT hres w hw st hst qd qdd p

theorem calcBodyWorldOrientation_eq_spec_fixed {m : ModelS α} {M : SModel α} {off : Nat → XT α}
    {nodeOf : Nat → Nat} (hm : ModelOK m) (hR : RefinesF m M off nodeOf) (hI : FixedIds m M off)
    (hcap : m.nBodies ≤ fixedDisc) (w : WS α) (hw : WSFixed m w) (st : QS α) (qd qdd : VecN α)
    (id : Nat) (hid : m.validId id) :
    (calcBodyWorldOrientation m w st id true).2 = Spec.orientation M (stateOf st qd qdd) id := by
  obtain ⟨hT, b, T, hres⟩ := resolvesF hm hR hI hcap id hid
  exact orientation_core hm hT hres w hw st qd qdd

/-- `FixedIds` (and the bound on the movable ids) is established by construction -/
theorem fixedIds_by_construction (ops : List (Op α))
    (hg : goodRunF (ModelS.init : ModelS α) ops) :
    FixedIds ((ModelS.init : ModelS α).run ops) (specOf ops)
      (offOf ((ModelS.init : ModelS α).run ops) ((PB.init : PB α).run ops).sb.M) ∧
    ((ModelS.init : ModelS α).run ops).nBodies ≤ fixedDisc :=
  LKinCap.fixedIds_by_construction ops hg
example := fixedIds_by_construction ExF.ops ExF.ops_good

/-- the model of `L01Cap.ExF` (floating base, revolute thigh, fixed sensor on the thigh, fixed imu on
    the sensor, Euler shank on the sensor, custom joint, fixed plate on the base): the imu
    (`disc + 1`, fixed on a fixed body), the plate (`disc + 2`, fixed on the base), the shank (movable
    body 4, attached to a fixed body), poisoned workspace -/
example (p : V3 Rat) :=
  calcBodyToBaseCoordinates_eq_spec_fixed ExF.m_ok ExF.m_refines
    (fixedIds_by_construction ExF.ops ExF.ops_good).1
    (fixedIds_by_construction ExF.ops ExF.ops_good).2 ExF.w1 ExF.w1_fixed ExF.st Ex.qd Ex.qdd
    (fixedDisc + 1) (Or.inr (by decide +kernel)) p
example (p : V3 Rat) :=
  calcBaseToBodyCoordinates_eq_spec_fixed ExF.m_ok ExF.m_refines
    (fixedIds_by_construction ExF.ops ExF.ops_good).1
    (fixedIds_by_construction ExF.ops ExF.ops_good).2 ExF.w1 ExF.w1_fixed ExF.st ExF.st_ok Ex.qd
    Ex.qdd (fixedDisc + 2) (Or.inr (by decide +kernel)) p
example :=
  calcBodyWorldOrientation_eq_spec_fixed ExF.m_ok ExF.m_refines
    (fixedIds_by_construction ExF.ops ExF.ops_good).1
    (fixedIds_by_construction ExF.ops ExF.ops_good).2 ExF.w1 ExF.w1_fixed ExF.st Ex.qd Ex.qdd
    4 (Or.inl (by decide +kernel))

/-! ### Stage E — end to end: construction calls in, coordinates out -/

/-- models built by `goodRun` (single-body joints, no fixed bodies) -/
theorem calcBodyToBaseCoordinates_eq_spec_constructed (ops : List (Op α))
    (hg : goodRun (ModelS.init : ModelS α) ops) (w : WS α)
    (hw : WSFixed ((ModelS.init : ModelS α).run ops) w) (st : QS α) (qd qdd : VecN α) (id : Nat)
    (hid : id < ((ModelS.init : ModelS α).run ops).nBodies) (hfd : id < fixedDisc) (p : V3 α) :
    (calcBodyToBaseCoordinates ((ModelS.init : ModelS α).run ops) w st id p true).2
      = Spec.bodyToBase (specOf ops) (stateOf st qd qdd) id p :=
  have h := L01Cap.refines_by_construction ops hg
  calcBodyToBaseCoordinates_eq_spec h.1 h.2 w hw st qd qdd id hid hfd p
example (p : V3 Rat) :=
  calcBodyToBaseCoordinates_eq_spec_constructed Ex.ops Ex.ops_good Ex.w1 Ex.w1_fixed Ex.st Ex.qd
    Ex.qdd 5 (by decide +kernel) (by decide) p

theorem calcBaseToBodyCoordinates_eq_spec_constructed (ops : List (Op α))
    (hg : goodRun (ModelS.init : ModelS α) ops) (w : WS α)
    (hw : WSFixed ((ModelS.init : ModelS α).run ops) w) (st : QS α) (qd qdd : VecN α) (id : Nat)
    (hid : id < ((ModelS.init : ModelS α).run ops).nBodies) (hfd : id < fixedDisc) (p : V3 α) :
    (calcBaseToBodyCoordinates ((ModelS.init : ModelS α).run ops) w st id p true).2
      = Spec.baseToBody (specOf ops) (stateOf st qd qdd) id p :=
  have h := L01Cap.refines_by_construction ops hg
  calcBaseToBodyCoordinates_eq_spec h.1 h.2 w hw st qd qdd id hid hfd p
example (p : V3 Rat) :=
  calcBaseToBodyCoordinates_eq_spec_constructed Ex.ops Ex.ops_good Ex.w1 Ex.w1_fixed Ex.st Ex.qd
    Ex.qdd 5 (by decide +kernel) (by decide) p

theorem calcBodyWorldOrientation_eq_spec_constructed (ops : List (Op α))
    (hg : goodRun (ModelS.init : ModelS α) ops) (w : WS α)
    (hw : WSFixed ((ModelS.init : ModelS α).run ops) w) (st : QS α) (qd qdd : VecN α) (id : Nat)
    (hid : id < ((ModelS.init : ModelS α).run ops).nBodies) (hfd : id < fixedDisc) :
    (calcBodyWorldOrientation ((ModelS.init : ModelS α).run ops) w st id true).2
      = Spec.orientation (specOf ops) (stateOf st qd qdd) id :=
  have h := L01Cap.refines_by_construction ops hg
  calcBodyWorldOrientation_eq_spec h.1 h.2 w hw st qd qdd id hid hfd
example :=
  calcBodyWorldOrientation_eq_spec_constructed Ex.ops Ex.ops_good Ex.w1 Ex.w1_fixed Ex.st Ex.qd
    Ex.qdd 5 (by decide +kernel) (by decide)

/-- **models built by `goodRunF`** (single-body joints, fixed joints, floating base, custom joints, any
    valid parent): every valid body id — the strongest statements of this file -/
theorem calcBodyToBaseCoordinates_eq_spec_constructedF (ops : List (Op α))
    (hg : goodRunF (ModelS.init : ModelS α) ops) (w : WS α)
    (hw : WSFixed ((ModelS.init : ModelS α).run ops) w) (st : QS α) (qd qdd : VecN α) (id : Nat)
    (hid : ((ModelS.init : ModelS α).run ops).validId id) (p : V3 α) :
    (calcBodyToBaseCoordinates ((ModelS.init : ModelS α).run ops) w st id p true).2
      = Spec.bodyToBase (specOf ops) (stateOf st qd qdd) id p :=
  have h := L01Cap.refinesF_by_construction ops hg
  have hI := LKinCap.fixedIds_by_construction ops hg
  calcBodyToBaseCoordinates_eq_spec_fixed h.1 h.2 hI.1 hI.2 w hw st qd qdd id hid p
example (p : V3 Rat) :=
  calcBodyToBaseCoordinates_eq_spec_constructedF ExF.ops ExF.ops_good ExF.w1 ExF.w1_fixed ExF.st
    Ex.qd Ex.qdd (fixedDisc + 1) (Or.inr (by decide +kernel)) p

theorem calcBaseToBodyCoordinates_eq_spec_constructedF (ops : List (Op α))
    (hg : goodRunF (ModelS.init : ModelS α) ops) (w : WS α)
    (hw : WSFixed ((ModelS.init : ModelS α).run ops) w) (st : QS α)
    (hst : StateOK ((ModelS.init : ModelS α).run ops) st) (qd qdd : VecN α) (id : Nat)
    (hid : ((ModelS.init : ModelS α).run ops).validId id) (p : V3 α) :
    (calcBaseToBodyCoordinates ((ModelS.init : ModelS α).run ops) w st id p true).2
      = Spec.baseToBody (specOf ops) (stateOf st qd qdd) id p :=
  have h := L01Cap.refinesF_by_construction ops hg
  have hI := LKinCap.fixedIds_by_construction ops hg
  calcBaseToBodyCoordinates_eq_spec_fixed h.1 h.2 hI.1 hI.2 w hw st hst qd qdd id hid p
example (p : V3 Rat) :=
  calcBaseToBodyCoordinates_eq_spec_constructedF ExF.ops ExF.ops_good ExF.w1 ExF.w1_fixed ExF.st
    ExF.st_ok Ex.qd Ex.qdd fixedDisc (Or.inr (by decide +kernel)) p

theorem calcBodyWorldOrientation_eq_spec_constructedF (ops : List (Op α))
    (hg : goodRunF (ModelS.init : ModelS α) ops) (w : WS α)
    (hw : WSFixed ((ModelS.init : ModelS α).run ops) w) (st : QS α) (qd qdd : VecN α) (id : Nat)
    (hid : ((ModelS.init : ModelS α).run ops).validId id) :
    (calcBodyWorldOrientation ((ModelS.init : ModelS α).run ops) w st id true).2
      = Spec.orientation (specOf ops) (stateOf st qd qdd) id :=
  have h := L01Cap.refinesF_by_construction ops hg
  have hI := LKinCap.fixedIds_by_construction ops hg
  calcBodyWorldOrientation_eq_spec_fixed h.1 h.2 hI.1 hI.2 w hw st qd qdd id hid
example :=
  calcBodyWorldOrientation_eq_spec_constructedF ExF.ops ExF.ops_good ExF.w1 ExF.w1_fixed ExF.st
    Ex.qd Ex.qdd (fixedDisc + 2) (Or.inr (by decide +kernel))

/-! ### the `update_kinematics = false` variants after `UpdateKinematicsCustom (Q)` (C13, by unfolding) -/

theorem calcBodyToBaseCoordinates_flagCleared_eq_spec {m : ModelS α} {M : SModel α}
    {off : Nat → XT α} {nodeOf : Nat → Nat} (hm : ModelOK m) (hR : RefinesF m M off nodeOf)
    (hI : FixedIds m M off) (hcap : m.nBodies ≤ fixedDisc) (w : WS α) (hw : WSFixed m w)
    (st : QS α) (qd qdd : VecN α) (id : Nat) (hid : m.validId id) (p : V3 α) :
    (calcBodyToBaseCoordinates m (updateKinematicsCustom m w (some st) none none) st id p false).2
      = Spec.bodyToBase M (stateOf st qd qdd) id p := by
  rw [C13.flag_cleared_calcBodyToBaseCoordinates]
  exact calcBodyToBaseCoordinates_eq_spec_fixed hm hR hI hcap w hw st qd qdd id hid p

theorem calcBaseToBodyCoordinates_flagCleared_eq_spec {m : ModelS α} {M : SModel α}
    {off : Nat → XT α} {nodeOf : Nat → Nat} (hm : ModelOK m) (hR : RefinesF m M off nodeOf)
    (hI : FixedIds m M off) (hcap : m.nBodies ≤ fixedDisc) (w : WS α) (hw : WSFixed m w)
    (st : QS α) (hst : StateOK m st) (qd qdd : VecN α) (id : Nat) (hid : m.validId id) (p : V3 α) :
    (calcBaseToBodyCoordinates m (updateKinematicsCustom m w (some st) none none) st id p false).2
      = Spec.baseToBody M (stateOf st qd qdd) id p := by
  rw [C13.flag_cleared_calcBaseToBodyCoordinates]
  exact calcBaseToBodyCoordinates_eq_spec_fixed hm hR hI hcap w hw st hst qd qdd id hid p

theorem calcBodyWorldOrientation_flagCleared_eq_spec {m : ModelS α} {M : SModel α}
    {off : Nat → XT α} {nodeOf : Nat → Nat} (hm : ModelOK m) (hR : RefinesF m M off nodeOf)
    (hI : FixedIds m M off) (hcap : m.nBodies ≤ fixedDisc) (w : WS α) (hw : WSFixed m w)
    (st : QS α) (qd qdd : VecN α) (id : Nat) (hid : m.validId id) :
    (calcBodyWorldOrientation m (updateKinematicsCustom m w (some st) none none) st id false).2
      = Spec.orientation M (stateOf st qd qdd) id := by
  rw [C13.flag_cleared_calcBodyWorldOrientation]
  exact calcBodyWorldOrientation_eq_spec_fixed hm hR hI hcap w hw st qd qdd id hid

example (p : V3 Rat) :=
  calcBodyToBaseCoordinates_flagCleared_eq_spec ExF.m_ok ExF.m_refines
    (fixedIds_by_construction ExF.ops ExF.ops_good).1
    (fixedIds_by_construction ExF.ops ExF.ops_good).2 ExF.w1 ExF.w1_fixed ExF.st Ex.qd Ex.qdd
    (fixedDisc + 1) (Or.inr (by decide +kernel)) p
example (p : V3 Rat) :=
  calcBaseToBodyCoordinates_flagCleared_eq_spec ExF.m_ok ExF.m_refines
    (fixedIds_by_construction ExF.ops ExF.ops_good).1
    (fixedIds_by_construction ExF.ops ExF.ops_good).2 ExF.w1 ExF.w1_fixed ExF.st ExF.st_ok Ex.qd
    Ex.qdd (fixedDisc + 1) (Or.inr (by decide +kernel)) p
example :=
  calcBodyWorldOrientation_flagCleared_eq_spec ExF.m_ok ExF.m_refines
    (fixedIds_by_construction ExF.ops ExF.ops_good).1
    (fixedIds_by_construction ExF.ops ExF.ops_good).2 ExF.w1 ExF.w1_fixed ExF.st Ex.qd Ex.qdd
    (fixedDisc + 1) (Or.inr (by decide +kernel))

/-! ### numerical sanity checks (kernel evaluation over `Rat`, both sides computed independently)

  The branched model `L01Cap.ExF` with three fixed bodies, poisoned workspace: the imu (fixed on the
  fixed sensor on the revolute thigh), the plate (fixed on the base), the shank (Euler joint attached to
  the fixed sensor) and the body on the custom joint. -/

example : (calcBodyToBaseCoordinates ExF.m ExF.w1 ExF.st (fixedDisc + 1) ⟨1, 2, 3⟩ true).2
    = Spec.bodyToBase ExF.M (stateOf ExF.st Ex.qd Ex.qdd) (fixedDisc + 1) ⟨1, 2, 3⟩ := by
  decide +kernel
example : (calcBodyToBaseCoordinates ExF.m ExF.w1 ExF.st (fixedDisc + 2) ⟨1, 2, 3⟩ true).2
    = Spec.bodyToBase ExF.M (stateOf ExF.st Ex.qd Ex.qdd) (fixedDisc + 2) ⟨1, 2, 3⟩ := by
  decide +kernel
example : (calcBodyToBaseCoordinates ExF.m ExF.w1 ExF.st 4 ⟨1, 2, 3⟩ true).2
    = Spec.bodyToBase ExF.M (stateOf ExF.st Ex.qd Ex.qdd) 4 ⟨1, 2, 3⟩ := by
  decide +kernel
example : (calcBaseToBodyCoordinates ExF.m ExF.w1 ExF.st (fixedDisc + 1) ⟨1, 2, 3⟩ true).2
    = Spec.baseToBody ExF.M (stateOf ExF.st Ex.qd Ex.qdd) (fixedDisc + 1) ⟨1, 2, 3⟩ := by
  decide +kernel
example : (calcBodyWorldOrientation ExF.m ExF.w1 ExF.st (fixedDisc + 1) true).2
    = Spec.orientation ExF.M (stateOf ExF.st Ex.qd Ex.qdd) (fixedDisc + 1) := by
  decide +kernel
example : (calcBodyWorldOrientation ExF.m ExF.w1 ExF.st 5 true).2
    = Spec.orientation ExF.M (stateOf ExF.st Ex.qd Ex.qdd) 5 := by
  decide +kernel
/-- `StateOK` cannot be dropped from `calcBaseToBodyCoordinates_eq_spec_fixed`: with (cos, sin) = (1, 1)
    for every angle (`cos² + sin² = 2`, everything else as before) the two sides differ for the fixed
    sensor on the revolute thigh -/
example : (calcBaseToBodyCoordinates ExF.m ExF.w1 ⟨ExF.st.q, fun _ => 1, fun _ => 1⟩ fixedDisc
      ⟨1, 2, 3⟩ true).2
    ≠ Spec.baseToBody ExF.M (stateOf ⟨ExF.st.q, fun _ => 1, fun _ => 1⟩ Ex.qd Ex.qdd) fixedDisc
      ⟨1, 2, 3⟩ := by decide +kernel
/-- … while the movable bodies do not need it -/
example : (calcBaseToBodyCoordinates ExF.m ExF.w1 ⟨ExF.st.q, fun _ => 1, fun _ => 1⟩ 4
      ⟨1, 2, 3⟩ true).2
    = Spec.baseToBody ExF.M (stateOf ⟨ExF.st.q, fun _ => 1, fun _ => 1⟩ Ex.qd Ex.qdd) 4
      ⟨1, 2, 3⟩ := by decide +kernel
/-- the value itself is not a trivial point -/
example : (calcBodyToBaseCoordinates ExF.m ExF.w1 ExF.st (fixedDisc + 1) ⟨1, 2, 3⟩ true).2
    ≠ ⟨1, 2, 3⟩ := by decide +kernel

end Rbdl.C04Cap
