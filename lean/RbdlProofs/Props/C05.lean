import RbdlProofs.Lemmas.L05Ex
import RbdlProofs.Props.C06
import RbdlProofs.Props.C04
/-
  C05 — Jacobians are the derivative of forward kinematics.

  For a zero-initialised matrix `G`: `G(q) q̇` is the corresponding velocity for every `q̇`; columns of
  DoFs that are not on the path from the body to the base stay as they were; the three Jacobians
  agree under the change of frame.

  Helper notions (`RbdlProofs/Lemmas/L05*.lean`, namespace `Rbdl.L05`):
  * `Tree m` — `λ i < i` for the movable bodies; `path m j = [j, λ j, λ λ j, …]` (root excluded);
  * `Layout m` — tree order, contiguous coordinate ranges `qIndex (i+1) = qIndex i + dof i`, all
    inside `[0, qdotSize)`: a consequence of `ModelS.WF` (`Layout.of_WF`);
  * `ColsOk m w` — joint `j` has at most `dof j` motion-subspace columns `w.Scols m j` (automatic
    except for custom joints, `colsOk_of_custom`); `inBlock m w j k` — column `k` lies in the block
    `[qIndex j, qIndex j + #Scols j)` of joint `j`;
  * `wsum x s cols = Σ_c x (s + c) • cols[c]` (the model's `colsMul cols x` is `wsum x 0 cols`);
    `pathSum m w q̇ g l = Σ_{j ∈ l} Σ_c q̇[qIndex j + c] • g j (S_{j,c})`;
  * `KinWS m w q̇` — the workspace satisfies, for every movable body `i`,
      `X_base i = X_λ i * X_base (λ i)`,  `v i = X_λ i (v (λ i)) + v_J i`,  `v_J i = Σ_c q̇ • S_{i,c}`,
    with rotations `X_λ i` (for `λ i = 0` the terms of the base are absent);
    `KinHyp m w st` — the hypotheses of C06 on model, state and construction-time workspace, plus
    `CustomInj m` (different custom joints use different slots of the custom-joint arrays);
    `JacHyp m w q̇ = Layout m ∧ ColsOk m w ∧ KinWS m w q̇`;
  * `colSV G k` — column `k` (rows 0..5) as a spatial vector; `mulVecSV G n x` / `mulVecV3 G n x` —
    the rows `0..5` / `0..2` of `G x`, each `sumTo n (fun k => G r k * x k)`; `zeroMat`;
  * `bsjT m w id` — the transform `CalcBodySpatialJacobian` uses (`X_base[id]`, for a fixed body
    `parentTransform * X_base[movable parent]`).

  Findings.
  * All statements are for all joint kinds `jcalc` handles (1-DoF, 3-DoF and the custom joints).
    For custom joints the proofs need `CustomInj m`: the workspace keeps one column list per
    custom-joint slot (`cS[customIdx]`), so two joints sharing a slot would read each other's columns
    (`AddBodyCustomJoint` always allocates a fresh slot; `ModelS.WF` does not record this).
  * The theorems of (3) are stated for `update_kinematics = false` in a workspace prepared by
    `UpdateKinematics` or `UpdateKinematicsCustom (Q, QDot)`; with the flag set the Jacobian routines
    first run `UpdateKinematicsCustom (Q)` (`update_flag`, by unfolding).
  * No model hypothesis is needed for the agreement of the three Jacobians (4): the three routines
    walk the same path and write the same columns; only `T_body.E` must be a rotation for (4b).
  * (5) is quantitative: with an arbitrary initial matrix the product is off by exactly the product of
    the off-path columns of the initial matrix with `q̇` (`garbage_mul`).
  * `DecidableEq α` is not needed.
-/
namespace Rbdl.C05
open Lean.Grind Rbdl Rbdl.L05 Rbdl.Spec
variable {α : Type} [Field α]

/-! ### 1. the walk to the root and the columns written by `jacFill` -/

/-- the path is defined by `path 0 = []`, `path j = j :: path (λ j)` -/
theorem path_recursion (m : ModelS α) (htree : Tree m) :
    path m 0 = [] ∧ ∀ j, 1 ≤ j → j < m.nBodies → path m j = j :: path m (m.lam j) :=
  ⟨path_zero m, path_unfold m htree⟩
example := path_recursion C04.Ex.m C04.Ex.m_tree

/-- `walkUp` reaches the root: in tree order any fuel `≥ j` — in particular `nBodies` — gives the
    complete walk `body (…) ∘ body (λ j) ∘ body j` along `path m j` -/
theorem walkUp_terminates {σ : Type} (m : ModelS α) (htree : Tree m) (j : Nat)
    (hj : j < m.nBodies) (fuel : Nat) (hf : j ≤ fuel) (body : Nat → σ → σ) (s : σ) :
    walkUp m fuel j body s = walkUp m m.nBodies j body s ∧
    walkUp m m.nBodies j body s = (path m j).foldl (fun s j => body j s) s := by
  refine ⟨walkUp_fuel m htree j hj fuel m.nBodies hf (by omega) body s, ?_⟩
  rw [walkUp_eq_foldl, pathList_eq_path m htree j hj _ (by omega)]
example (body : Nat → Nat → Nat) (s : Nat) :=
  walkUp_terminates C04.Ex.m C04.Ex.m_tree 3 (by decide) 3 (by decide) body s

/-- (1) after `jacFill m w T start sel G`: for every joint `j` on the path `start → root` and every
    column `c` of `w.Scols m j`, column `qIndex j + c` holds `sel (T (X_base[j]⁻¹ S_c))` (in the rows
    `sel` produces; any further rows keep the input) -/
theorem jacFill_columns (m : ModelS α) (w : WS α) (T : XT α) (start : Nat) (sel : SV α → List α)
    (G : MatN α) (hL : Layout m) (hc : ColsOk m w) (hs : start < m.nBodies) (j : Nat)
    (hj : j ∈ path m start) (c : Nat) (hcj : c < (w.Scols m j).length) (r : Nat) :
    jacFill m w T start sel G r ((m.joint j).qIndex + c)
      = if r < (sel (T.apply ((w.X_base j).inverse.apply ((w.Scols m j).getD c SV.zero)))).length
        then (sel (T.apply ((w.X_base j).inverse.apply ((w.Scols m j).getD c SV.zero)))).getD r 0
        else G r ((m.joint j).qIndex + c) :=
  jacFill_column m w T start sel G hL hc hs j hj c hcj r
/-- body 3 of `C04.Ex.m` (spherical, columns 2..4) on the path of body 3, column 1 of 3 -/
example (T : XT Rat) (G : MatN Rat) (r : Nat) :=
  jacFill_columns C04.Ex.m Ex.w1 T 3 SV.toList G Ex.m_layout Ex.w1_jacHyp.cols (by decide) 3
    (self_mem_path _ C04.Ex.m_tree 3 (by decide) (by decide)) 1 (by decide) r

/-- (1) for the 6-row fills (`sel = SV.toList`): the whole column is the spatial vector -/
theorem jacFill_columns6 (m : ModelS α) (w : WS α) (T : XT α) (start : Nat) (G : MatN α)
    (hL : Layout m) (hc : ColsOk m w) (hs : start < m.nBodies) (j : Nat)
    (hj : j ∈ path m start) (c : Nat) (hcj : c < (w.Scols m j).length) :
    colSV (jacFill m w T start SV.toList G) ((m.joint j).qIndex + c)
      = T.apply ((w.X_base j).inverse.apply ((w.Scols m j).getD c SV.zero)) := by
  simp only [colSV, jacFill_column m w T start SV.toList G hL hc hs j hj c hcj, SV.toList,
    List.length_cons, List.length_nil]
  rfl
/-- the column of the revoluteZ joint 1 in the fill started at body 3 -/
example (T : XT Rat) (G : MatN Rat) :=
  jacFill_columns6 C04.Ex.m Ex.w1 T 3 G Ex.m_layout Ex.w1_jacHyp.cols (by decide) 1
    (parent_path_subset _ C04.Ex.m_tree 3 (by decide) (by decide) 1
      (parent_path_subset _ C04.Ex.m_tree 2 (by decide) (by decide) 1
        (self_mem_path _ C04.Ex.m_tree 1 (by decide) (by decide)))) 0 (by decide)

/-- (1, 5) `offpath_untouched`: every column outside the blocks of the joints on the path keeps
    the value of the input matrix, in every row -/
theorem offpath_untouched (m : ModelS α) (w : WS α) (T : XT α) (start : Nat)
    (sel : SV α → List α) (G : MatN α) (htree : Tree m) (hs : start < m.nBodies) (k : Nat)
    (hk : ∀ j ∈ path m start, ¬ inBlock m w j k) (r : Nat) :
    jacFill m w T start sel G r k = G r k :=
  jacFill_offpath m w T start sel G htree hs k hk r
/-- in the fill started at body 1 of `C04.Ex.m` (block: column 0) column 5 is not touched -/
example (T : XT Rat) (G : MatN Rat) (r : Nat) :=
  offpath_untouched C04.Ex.m Ex.w1 T 1 SV.toList G C04.Ex.m_tree (by decide) 5
    (fun j hj hb => by
      rw [path_unfold _ C04.Ex.m_tree 1 (by decide) (by decide)] at hj
      have hl : C04.Ex.m.lam 1 = 0 := rfl
      rw [hl, path_zero, List.mem_singleton] at hj
      subst hj
      exact absurd hb.2 (by decide)) r

/-- in particular it is zero for a zero-initialised matrix -/
theorem offpath_zero (m : ModelS α) (w : WS α) (T : XT α) (start : Nat) (sel : SV α → List α)
    (htree : Tree m) (hs : start < m.nBodies) (k : Nat)
    (hk : ∀ j ∈ path m start, ¬ inBlock m w j k) (r : Nat) :
    jacFill m w T start sel zeroMat r k = 0 :=
  jacFill_offpath m w T start sel zeroMat htree hs k hk r

example (T : XT Rat) (r : Nat) :=
  offpath_zero C04.Ex.m Ex.w1 T 1 SV.toList C04.Ex.m_tree (by decide) 5
    (fun j hj hb => by
      rw [path_unfold _ C04.Ex.m_tree 1 (by decide) (by decide)] at hj
      have hl : C04.Ex.m.lam 1 = 0 := rfl
      rw [hl, path_zero, List.mem_singleton] at hj
      subst hj
      exact absurd hb.2 (by decide)) r

/-- the hypotheses `Layout m` (and the declared `dof` of custom joints) used below are part of the
    structural invariant `ModelS.WF` of C14 -/
theorem layout_of_WF (m : ModelS α) (hwf : m.WF) :
    Layout m ∧
    ∀ i, 1 ≤ i → i < m.nBodies → (m.joint i).jt = .custom →
      (m.joint i).dof = (m.custom (m.joint i).customIdx).dof :=
  ⟨Layout.of_WF m hwf, customDof_of_WF m hwf⟩
/-- the model built by the construction calls of C14 (floating base, revolute, fixed, spherical,
    2-axis chain, custom joint) -/
example := layout_of_WF C14.Ex.M (C14.wf_run C14.Ex.ops C14.Ex.validRun_ops)

/-! ### 2. the spatial velocity as a sum over the path -/

/-- `UpdateKinematics (Q, QDot, QDDot)` leaves a workspace that satisfies the kinematic recursions,
    in which every custom joint has as many columns as its kind has degrees of freedom -/
theorem updateKinematics_kinWS (m : ModelS α) (w : WS α) (st : QS α) (qd qdd : VecN α)
    (h : KinHyp m w st) :
    KinWS m (updateKinematics m w st qd qdd) qd ∧
    CustomCols m (updateKinematics m w st qd qdd) :=
  kinWS_updateKinematics m w st qd qdd h
example := updateKinematics_kinWS C04.Ex.m L06.Ex.w L06.Ex.st L06.Ex.qd L06.Ex.qdd Ex.m_kinHyp

/-- so does `UpdateKinematicsCustom (Q, QDot)` (the update `CalcPointVelocity6D` performs) -/
theorem updateKinematicsCustom_kinWS (m : ModelS α) (w : WS α) (st : QS α) (qd : VecN α)
    (h : KinHyp m w st) :
    KinWS m (updateKinematicsCustom m w (some st) (some qd) none) qd ∧
    CustomCols m (updateKinematicsCustom m w (some st) (some qd) none) :=
  kinWS_updateKinematicsCustom m w st qd h
example := updateKinematicsCustom_kinWS C04.Ex.m L06.Ex.w L06.Ex.st L06.Ex.qd Ex.m_kinHyp

/-- in such a workspace all `X_base[i].E` are rotations -/
theorem kinWS_rotations (m : ModelS α) (w : WS α) (qd : VecN α) (h : KinWS m w qd)
    (htree : Tree m) : ∀ i, 1 ≤ i → i < m.nBodies → (w.X_base i).E.IsRot :=
  h.rot_base htree
example := kinWS_rotations C04.Ex.m Ex.w1 L06.Ex.qd Ex.w1_jacHyp.kin C04.Ex.m_tree

/-- (2) `X_base[i]⁻¹ v[i] = Σ_{j on path(i)} Σ_c q̇[qIndex j + c] • X_base[j]⁻¹ S_{j,c}` -/
theorem spatial_velocity_as_sum (m : ModelS α) (w : WS α) (qd : VecN α) (h : KinWS m w qd)
    (htree : Tree m) (i : Nat) (h1 : 1 ≤ i) (hi : i < m.nBodies) :
    (w.X_base i).inverse.apply (w.v i)
      = pathSum m w qd (fun j => (w.X_base j).inverse.apply) (path m i) :=
  velocity_as_sum h htree i h1 hi
example := spatial_velocity_as_sum C04.Ex.m Ex.w1 L06.Ex.qd Ex.w1_jacHyp.kin C04.Ex.m_tree 3
  (by decide) (by decide)
example := spatial_velocity_as_sum C04.Ex.m Ex.w2 L06.Ex.qd Ex.w2_jacHyp.kin C04.Ex.m_tree 4
  (by decide) (by decide)

/-! ### 3. `G q̇` is the velocity -/

/-- (3, core) for a zero-initialised matrix, `G q̇` of the fill with transform `T` started at a
    movable body is `T` applied to the base-frame spatial velocity of that body -/
theorem jacFill_mul (m : ModelS α) (w : WS α) (qd : VecN α) (h : JacHyp m w qd) (T : XT α)
    (start : Nat) (h1 : 1 ≤ start) (hs : start < m.nBodies) :
    mulVecSV (jacFill m w T start SV.toList zeroMat) m.qdotSize qd
      = T.apply ((w.X_base start).inverse.apply (w.v start)) :=
  jacFill_mulVec h.layout h.cols h.kin T start h1 hs
example (T : XT Rat) := jacFill_mul C04.Ex.m Ex.w1 L06.Ex.qd Ex.w1_jacHyp T 3 (by decide) (by decide)

/-- (3) `bodySpatialJacobian_mul`: `G q̇ = v[id]`, the body-frame spatial velocity -/
theorem bodySpatialJacobian_mul (m : ModelS α) (w : WS α) (st : QS α) (qd : VecN α) (id : Nat)
    (h : JacHyp m w qd) (h1 : 1 ≤ id) (hi : id < m.nBodies) (hid : ¬ fixedDisc ≤ id) :
    mulVecSV (calcBodySpatialJacobian m w st id zeroMat false).2 m.qdotSize qd = w.v id :=
  bodySpatialJacobian_mul_movable m w st qd id h h1 hi hid
example := bodySpatialJacobian_mul C04.Ex.m Ex.w1 L06.Ex.st L06.Ex.qd 3 Ex.w1_jacHyp (by decide)
  (by decide) (by decide)

/-- (3) `pointJacobian6D_mul`: `G q̇ = CalcPointVelocity6D (…, update = false)` in the same workspace -/
theorem pointJacobian6D_mul (m : ModelS α) (w : WS α) (st : QS α) (qd : VecN α) (id : Nat)
    (p : V3 α) (h : JacHyp m w qd) (h1 : 1 ≤ id) (hi : id < m.nBodies) (hid : ¬ fixedDisc ≤ id) :
    mulVecSV (calcPointJacobian6D m w st id p zeroMat false).2 m.qdotSize qd
      = (calcPointVelocity6D m w st qd id p false).2 :=
  pointJacobian6D_mul_movable m w st qd id p h h1 hi hid
example (p : V3 Rat) := pointJacobian6D_mul C04.Ex.m Ex.w1 L06.Ex.st L06.Ex.qd 3 p Ex.w1_jacHyp
  (by decide) (by decide) (by decide)
example (p : V3 Rat) := pointJacobian6D_mul C04.Ex.m Ex.w2 L06.Ex.st L06.Ex.qd 4 p Ex.w2_jacHyp
  (by decide) (by decide) (by decide)

/-- the same, row by row, in the form `Σ_{k < qdotSize} G r k * q̇ k` -/
theorem pointJacobian6D_mul_rows (m : ModelS α) (w : WS α) (st : QS α) (qd : VecN α) (id : Nat)
    (p : V3 α) (h : JacHyp m w qd) (h1 : 1 ≤ id) (hi : id < m.nBodies) (hid : ¬ fixedDisc ≤ id)
    (r : Nat) (hr : r < 6) :
    sumTo m.qdotSize (fun k => (calcPointJacobian6D m w st id p zeroMat false).2 r k * qd k)
      = (SV.toList (calcPointVelocity6D m w st qd id p false).2).getD r 0 := by
  rw [← pointJacobian6D_mul m w st qd id p h h1 hi hid, mulVecSV_row _ _ _ r hr]
example (p : V3 Rat) := pointJacobian6D_mul_rows C04.Ex.m Ex.w1 L06.Ex.st L06.Ex.qd 3 p
  Ex.w1_jacHyp (by decide) (by decide) (by decide) 4 (by decide)

/-- (3) `pointJacobian_mul`: the 3-row version, `G q̇ = CalcPointVelocity` -/
theorem pointJacobian_mul (m : ModelS α) (w : WS α) (st : QS α) (qd : VecN α) (id : Nat)
    (p : V3 α) (h : JacHyp m w qd) (h1 : 1 ≤ id) (hi : id < m.nBodies) (hid : ¬ fixedDisc ≤ id) :
    mulVecV3 (calcPointJacobian m w st id p zeroMat false).2 m.qdotSize qd
      = (calcPointVelocity m w st qd id p false).2 :=
  pointJacobian_mul_movable m w st qd id p h h1 hi hid
example (p : V3 Rat) := pointJacobian_mul C04.Ex.m Ex.w1 L06.Ex.st L06.Ex.qd 3 p Ex.w1_jacHyp
  (by decide) (by decide) (by decide)

theorem pointJacobian_mul_rows (m : ModelS α) (w : WS α) (st : QS α) (qd : VecN α) (id : Nat)
    (p : V3 α) (h : JacHyp m w qd) (h1 : 1 ≤ id) (hi : id < m.nBodies) (hid : ¬ fixedDisc ≤ id)
    (r : Nat) (hr : r < 3) :
    sumTo m.qdotSize (fun k => (calcPointJacobian m w st id p zeroMat false).2 r k * qd k)
      = (V3.toList (calcPointVelocity m w st qd id p false).2).getD r 0 := by
  rw [← pointJacobian_mul m w st qd id p h h1 hi hid, mulVecV3_row _ _ _ r hr]
example (p : V3 Rat) := pointJacobian_mul_rows C04.Ex.m Ex.w1 L06.Ex.st L06.Ex.qd 3 p
  Ex.w1_jacHyp (by decide) (by decide) (by decide) 2 (by decide)

/-- (3) fixed body ids, through `refBody` / `refPoint` -/
theorem pointJacobian6D_mul_fixedBody (m : ModelS α) (w : WS α) (st : QS α) (qd : VecN α)
    (id : Nat) (p : V3 α) (h : JacHyp m w qd) (hf : m.isFixedBodyId id = true)
    (h1 : 1 ≤ m.refBody id) (hi : m.refBody id < m.nBodies) (hrb : ¬ fixedDisc ≤ m.refBody id) :
    mulVecSV (calcPointJacobian6D m w st id p zeroMat false).2 m.qdotSize qd
      = (calcPointVelocity6D m w st qd id p false).2 := by
  rw [refBody_fixed m id hf] at h1 hi hrb
  exact pointJacobian6D_mul_fixed m w st qd id p h hf h1 hi hrb
/-- the fixed body of `C04.Ex.m` (attached to body 2 with the frame `C16.Ex.Y`) -/
example (p : V3 Rat) := pointJacobian6D_mul_fixedBody C04.Ex.m Ex.w1 L06.Ex.st L06.Ex.qd fixedDisc p
  Ex.w1_jacHyp Ex.m_fixed (by decide) (by decide) (by decide)

theorem pointJacobian_mul_fixedBody (m : ModelS α) (w : WS α) (st : QS α) (qd : VecN α)
    (id : Nat) (p : V3 α) (h : JacHyp m w qd) (hf : m.isFixedBodyId id = true)
    (h1 : 1 ≤ m.refBody id) (hi : m.refBody id < m.nBodies) (hrb : ¬ fixedDisc ≤ m.refBody id) :
    mulVecV3 (calcPointJacobian m w st id p zeroMat false).2 m.qdotSize qd
      = (calcPointVelocity m w st qd id p false).2 := by
  rw [refBody_fixed m id hf] at h1 hi hrb
  exact pointJacobian_mul_fixed m w st qd id p h hf h1 hi hrb
example (p : V3 Rat) := pointJacobian_mul_fixedBody C04.Ex.m Ex.w1 L06.Ex.st L06.Ex.qd fixedDisc p
  Ex.w1_jacHyp Ex.m_fixed (by decide) (by decide) (by decide)

/-- for a fixed body `G q̇` of the body spatial Jacobian is the spatial velocity of the movable
    parent expressed in the frame of the fixed body -/
theorem bodySpatialJacobian_mul_fixedBody (m : ModelS α) (w : WS α) (st : QS α) (qd : VecN α)
    (id : Nat) (h : JacHyp m w qd) (hf : m.isFixedBodyId id = true)
    (h1 : 1 ≤ m.refBody id) (hi : m.refBody id < m.nBodies) :
    mulVecSV (calcBodySpatialJacobian m w st id zeroMat false).2 m.qdotSize qd
      = (m.fixedBody (id - fixedDisc)).parentTransform.apply (w.v (m.refBody id)) := by
  rw [refBody_fixed m id hf] at h1 hi ⊢
  exact bodySpatialJacobian_mul_fixed m w st qd id h hf h1 hi
example := bodySpatialJacobian_mul_fixedBody C04.Ex.m Ex.w1 L06.Ex.st L06.Ex.qd fixedDisc
  Ex.w1_jacHyp Ex.m_fixed (by decide) (by decide)

/-- (3 with C06) **the Jacobian is the derivative of forward kinematics**: after
    `UpdateKinematics`, the 6-D point Jacobian times `q̇` is `(ω, d/dt (p_id + R_id x))` of the world
    pose jet `P id` of the body, for every `q̇` (and `q̈`) -/
theorem pointJacobian6D_is_derivative (m : ModelS α) (w : WS α) (st : QS α) (qd qdd : VecN α)
    (h2 : (2 : α) ≠ 0) (hK : KinHyp m w st) (hL : Layout m)
    (hcd : ∀ i, 1 ≤ i → i < m.nBodies → (m.joint i).jt = .custom →
      (m.joint i).dof = (m.custom (m.joint i).customIdx).dof)
    (hw3 : ∀ i, 1 ≤ i → i < m.nBodies → (m.joint i).jt = .spherical →
      (m.joint i).qIndex + 2 < m.w3 i)
    (P : Nat → Pose (D2 α)) (hP0 : P 0 = Pose.id)
    (hP : ∀ i, 1 ≤ i → i < m.nBodies →
      P i = (P (m.lam i)).comp ((framePoseJet m i).comp (jointPoseJet m i st qd qdd)))
    (id : Nat) (h1 : 1 ≤ id) (hi : id < m.nBodies) (hid : ¬ fixedDisc ≤ id) (x : V3 α) :
    mulVecSV (calcPointJacobian6D m (updateKinematics m w st qd qdd) st id x zeroMat false).2
        m.qdotSize qd
      = ⟨(NodeKin.ofPose (P id)).omega, (NodeKin.ofPose (P id)).ptd x⟩ ∧
    mulVecV3 (calcPointJacobian m (updateKinematics m w st qd qdd) st id x zeroMat false).2
        m.qdotSize qd
      = (NodeKin.ofPose (P id)).ptd x := by
  have hk := kinWS_updateKinematics m w st qd qdd hK
  have hJ : JacHyp m (updateKinematics m w st qd qdd) qd :=
    ⟨hL, colsOk_of_customCols hk.2 hcd, hk.1⟩
  have hv := (C06.point_velocity_acceleration_after_update m w st qd qdd h2 hK.tree hK.jc hK.frame
    hK.unit hK.ws hw3 P hP0 hP id h1 hi hid x).1
  refine ⟨?_, ?_⟩
  · rw [pointJacobian6D_mul m _ st qd id x hJ h1 hi hid, hv]
  · rw [pointJacobian_mul m _ st qd id x hJ h1 hi hid]
    show (calcPointVelocity6D m _ st qd id x false).2.v = _
    rw [hv]
/-- a point of body 3 of `C04.Ex.m` (spherical joint, on the revolute joint 2, on the revoluteZ
    joint 1) -/
example (x : V3 Rat) :=
  pointJacobian6D_is_derivative C04.Ex.m L06.Ex.w L06.Ex.st L06.Ex.qd L06.Ex.qdd L06.Ex.two_ne
    Ex.m_kinHyp Ex.m_layout Ex.m_customDof L06.Ex.m_w3
    (bodyPoseJet C04.Ex.m L06.Ex.st L06.Ex.qd L06.Ex.qdd) rfl
    (C06.bodyPoseJet_recursion C04.Ex.m L06.Ex.st L06.Ex.qd L06.Ex.qdd C04.Ex.m_tree).2 3
    (by decide) (by decide) (by decide) x

/-- `update_kinematics = true` means: run `UpdateKinematicsCustom (Q)` first -/
theorem update_flag (m : ModelS α) (w : WS α) (st : QS α) (id : Nat) (p : V3 α) (G : MatN α) :
    calcPointJacobian m w st id p G true
      = calcPointJacobian m (updateKinematicsCustom m w (some st) none none) st id p G false ∧
    calcPointJacobian6D m w st id p G true
      = calcPointJacobian6D m (updateKinematicsCustom m w (some st) none none) st id p G false ∧
    calcBodySpatialJacobian m w st id G true
      = calcBodySpatialJacobian m (updateKinematicsCustom m w (some st) none none) st id G false :=
  ⟨rfl, rfl, rfl⟩

/-! ### 4. the three Jacobians agree under the change of frame -/

/-- (4a) rows 3..5 of the 6-D point Jacobian are the point Jacobian (for input matrices related in
    the same way, e.g. both zero; any `update` flag; no hypothesis on the model) -/
theorem jacobians_agree_rows (m : ModelS α) (w : WS α) (st : QS α) (id : Nat) (p : V3 α)
    (G3 G6 : MatN α) (update : Bool) (hG : ∀ r k, r < 3 → G3 r k = G6 (r + 3) k) :
    ∀ r k, r < 3 →
      (calcPointJacobian m w st id p G3 update).2 r k
        = (calcPointJacobian6D m w st id p G6 update).2 (r + 3) k :=
  pointJacobian_rows m w st id p G3 G6 update hG
example (p : V3 Rat) := jacobians_agree_rows C04.Ex.m L06.Ex.w L06.Ex.st 3 p zeroMat zeroMat true
  (fun _ _ _ => rfl)

/-- (4b) column by column, `PJ6 = ⟨1, p_world⟩ ∘ T_body⁻¹` applied to the body spatial Jacobian,
    where `T_body = bsjT` is the base → body transform the latter uses; `T_body.E` must be a
    rotation (input matrices related in the same way) -/
theorem jacobians_agree_frame (m : ModelS α) (w : WS α) (st : QS α) (id : Nat) (p : V3 α)
    (G6 GB : MatN α) (update : Bool)
    (hrot : (bsjT m (updQ m w st update) id).E.IsRot)
    (hG : ∀ k, colSV G6 k
      = (⟨M3.one, bodyToBase0 m (updQ m w st update) id p⟩ : XT α).apply
          ((bsjT m (updQ m w st update) id).inverse.apply (colSV GB k))) :
    ∀ k, colSV (calcPointJacobian6D m w st id p G6 update).2 k
      = (⟨M3.one, bodyToBase0 m (updQ m w st update) id p⟩ : XT α).apply
          ((bsjT m (updQ m w st update) id).inverse.apply
            (colSV (calcBodySpatialJacobian m w st id GB update).2 k)) :=
  pointJacobian6D_of_spatial m w st id p G6 GB update hrot hG

/-- the fixed body of `C04.Ex.m`: `T_body = parentTransform * X_base[2]` -/
example (p : V3 Rat) :=
  jacobians_agree_frame C04.Ex.m Ex.w1 L06.Ex.st fixedDisc p zeroMat zeroMat false
    (by
      rw [updQ_false, bsjT_fixed _ _ _ Ex.m_fixed, XT.mul_E]
      exact C04.Ex.m_fixedFrame.mul
        (Ex.w1_jacHyp.kin.rot_base C04.Ex.m_tree 2 (by decide) (by decide)))
    (fun k => zeroMat_related _ _ k)

/-- (4b) for zero-initialised matrices and a movable body: `T_body = X_base[id]` -/
theorem jacobians_agree_frame_zero (m : ModelS α) (w : WS α) (st : QS α) (id : Nat) (p : V3 α)
    (update : Bool) (hid : ¬ fixedDisc ≤ id) (hrot : ((updQ m w st update).X_base id).E.IsRot) :
    ∀ k, colSV (calcPointJacobian6D m w st id p zeroMat update).2 k
      = (⟨M3.one, bodyToBase0 m (updQ m w st update) id p⟩ : XT α).apply
          (((updQ m w st update).X_base id).inverse.apply
            (colSV (calcBodySpatialJacobian m w st id zeroMat update).2 k)) := by
  have e := bsjT_movable m (updQ m w st update) id hid
  have := jacobians_agree_frame m w st id p zeroMat zeroMat update (by rw [e]; exact hrot)
    (fun k => zeroMat_related _ _ k)
  rw [e] at this
  exact this
/-- with `update = true` on the workspace left by the construction code -/
example (p : V3 Rat) := jacobians_agree_frame_zero C04.Ex.m C04.Ex.w C04.Ex.st 3 p true (by decide)
  (C04.isRot_invariant C04.Ex.m C04.Ex.w C04.Ex.st C04.Ex.m_tree C04.Ex.m_hasJcalc C04.Ex.m_frames
    C04.Ex.m_unit C04.Ex.w_base0 3 (by decide))
/-- with `update = false` after `UpdateKinematicsCustom (Q, QDot)` -/
example (p : V3 Rat) := jacobians_agree_frame_zero C04.Ex.m Ex.w1 L06.Ex.st 3 p false (by decide)
  (kinWS_rotations C04.Ex.m Ex.w1 L06.Ex.qd Ex.w1_jacHyp.kin C04.Ex.m_tree 3 (by decide)
    (by decide))

/-! ### 5. a matrix that is not zero-initialised -/

/-- (5) `garbage_init`: with an arbitrary initial matrix exactly the off-path columns keep their
    initial values — the written rows of the on-path columns do not depend on the initial matrix,
    every other column is the column of the initial matrix -/
theorem garbage_init (m : ModelS α) (w : WS α) (T : XT α) (start : Nat) (sel : SV α → List α)
    (G G' : MatN α) (hL : Layout m) (hc : ColsOk m w) (hs : start < m.nBodies) :
    (∀ j ∈ path m start, ∀ c, c < (w.Scols m j).length → ∀ r,
      r < (sel (T.apply ((w.X_base j).inverse.apply ((w.Scols m j).getD c SV.zero)))).length →
      jacFill m w T start sel G r ((m.joint j).qIndex + c)
        = jacFill m w T start sel G' r ((m.joint j).qIndex + c)) ∧
    (∀ k, (∀ j ∈ path m start, ¬ inBlock m w j k) → ∀ r,
      jacFill m w T start sel G r k = G r k) := by
  refine ⟨fun j hj c hcj r hr => ?_, fun k hk r => jacFill_offpath m w T start sel G hL.tree hs k hk r⟩
  rw [jacFill_column m w T start sel G hL hc hs j hj c hcj r,
    jacFill_column m w T start sel G' hL hc hs j hj c hcj r, if_pos hr, if_pos hr]
example (T : XT Rat) (G G' : MatN Rat) :=
  garbage_init C04.Ex.m Ex.w1 T 3 SV.toList G G' Ex.m_layout Ex.w1_jacHyp.cols (by decide)

/-- (5) `garbage_mul`: this is why the caller must zero-initialise — with an arbitrary initial matrix
    `G q̇` is off by the product of the off-path columns of the initial matrix with `q̇` -/
theorem garbage_mul (m : ModelS α) (w : WS α) (qd : VecN α) (h : JacHyp m w qd) (T : XT α)
    (start : Nat) (h1 : 1 ≤ start) (hs : start < m.nBodies) (G : MatN α) :
    mulVecSV (jacFill m w T start SV.toList G) m.qdotSize qd
      = T.apply ((w.X_base start).inverse.apply (w.v start))
        + mulVecSV (offPathPart m w start G) m.qdotSize qd :=
  jacFill_mulVec_garbage h.layout h.cols h.kin T start h1 hs G
example (T : XT Rat) (G : MatN Rat) :=
  garbage_mul C04.Ex.m Ex.w1 L06.Ex.qd Ex.w1_jacHyp T 3 (by decide) (by decide) G

/-- counterexample: "zero-initialised" cannot be dropped from (3).  With the initial matrix
    `Ex.Gbad` (a single 1 in row 0 of column 5, a column of the custom joint 4, which is not on the
    path of body 1) `G q̇` differs from the velocity, for every transform `T` -/
example (T : XT Rat) :
    mulVecSV (jacFill C04.Ex.m Ex.w1 T 1 SV.toList Ex.Gbad) C04.Ex.m.qdotSize L06.Ex.qd
      ≠ T.apply ((Ex.w1.X_base 1).inverse.apply (Ex.w1.v 1)) := by
  rw [garbage_mul C04.Ex.m Ex.w1 L06.Ex.qd Ex.w1_jacHyp T 1 (by decide) (by decide)]
  intro h
  exact Ex.Gbad_err (sv_add_eq_self _ _ h)

end Rbdl.C05
