import RbdlProofs.Lemmas.L09Ex
import RbdlProofs.Lemmas.L09Whole
/-
  C09 — constraint Jacobian, gamma and error terms are consistent derivatives.

  Sections: 1 bookkeeping of the additions · 2 contact rows · 3 loop rows · 4 `G q̇ = φ̇` ·
  5 `γ = −φ̈|_{q̈=0}`, `G q̈ − γ` · 6 Baumgarte · 6' whole sets, `CalcConstrainedSystemVariables` ·
  7 counterexamples for the defect classes.

  Objects (helper notions in `RbdlProofs/Lemmas/L09*.lean`, namespace `Rbdl.L09`):
  * `L09.Op`, `step`, `run ops` — a sequence of `AddContactConstraint` / `AddLoopConstraint` calls and
    the constraint set it builds from the empty set; `rowsOf cs` — total number of axes; `Shape c` —
    the per-constraint bookkeeping facts; `Contig C` — constraint `i` starts at the number of rows
    before it; `NoFixed c` — both body ids are below `fixedDisc`;
  * `hasRow c r` — `row ≤ r < row + #T`; `axisAt c r` — the axis `T[r − row]`;
    `rowDot G nv r x = Σ_{j<nv} G r j · x j`;
  * `frameOf w id Xf`, `vel6 w id p`, `acc6 w id p` — world placement of a constraint frame, 6-D
    point velocity `(ω, v_P)` and acceleration `(ω̇, a_P)` of a body id below `fixedDisc`, read off the
    workspace without kinematics update (they are what `loopFrame`, `CalcPointVelocity6D`,
    `CalcPointAcceleration6D` return: `loopFrame_eq`, `pointVelocity6D_eq`, `pointAcceleration6D_eq`);
  * `BodyOK m id` — the base body or a movable body;
  * `contactPhi P x n`, `loopPhi A B t` — the constraint functions of `Rbdl/Spec/Constr.lean` over
    second-order jets (`constrPhi_contact`, `constrPhi_loop`: the two branches of `Spec.constrPhi`);
    `axial M` — the vector of the skew part of `M` (`loopError = (axial(A.Eᵀ B.E), A.Eᵀ(B.r − A.r))`);
  * `Setup m w st` — the hypotheses of C05 / C06 on model, state, construction-time workspace;
  * `velGap`, `accGap` — the exact differences `G q̇ − φ̇`, `(G q̈ − γ) − φ̈` of a loop row;
  * `csvWS` — the workspace in which `CalcConstrainedSystemVariables` evaluates the constraints.

  Findings.
  * (1) `size`, the flag lists and the zero-position-error flags of contacts are right after any
    sequence of additions, and (with the repaired grouping rule of `AddContactConstraint` /
    `AddLoopConstraint`: merge into the last constraint of the type only if `row + #T = size`) the
    rows of the constraints tile `[0, size)` (`rows_contiguous`).  Under the old rule (merge
    whenever body / point / user id agree) contact, loop, same contact again gave two constraints
    with rows {0,1} and {1} and `size = 3` (`interleaved_rows_old_rule`).
  * (4, 5) Contacts: unconditional (base body, movable bodies; `contact_row_velocity_fixedBody` for
    fixed bodies at the level of C05).  Loops: exact formulas `loop_velocity_gap`, `loop_gamma_gap`.
    The discrepancy has three independent parts:
      D5a  rotational axis `w`, predecessor frame origin `r_A` with `r_A × w ≠ 0`
           (`−E_A (r_A × w)` is added to the linear part of the axis), velocity and acceleration
           level; at acceleration level in addition `(ṗ_A × E_A w) · Δṗ` (the velocity-product term
           treats `(ω, ṗ_A)` as a spatial vector: wrong for a moving predecessor frame origin);
      D5b  translational axis `v` on a rotating predecessor with separated frame origins
           (`−(E_A v) · (ω_A × Δr)` is missing);
      sine scaling  the reported rotational error is `w · axial(E_Aᵀ E_B)`, whose derivative is
           `w · axial(E_Aᵀ S(Δω) E_B)`, while the row is `(E_A w) · Δω`: equal for aligned frames only
           (e.g. all three rotations locked and the error zero, not for a hinge that has turned).
    The statement of C09 holds exactly in the class of `loop_consistency` / `loop_gamma_is_phidd`.
    For a translational axis on the manifold `G q̈ − γ` differs from `φ̈` by `(ω_A × E_A v) · Δṗ`:
    `γ = −Ġ q̇` for the code's own `G`, and `G q̇ = φ̇` only where `Δr = 0`, so the two second
    derivatives agree for velocities that keep `Δr = 0` (or a non-rotating predecessor).
  * the velocity error of a loop constraint is computed from the matrix `G` passed in, so it is
    `G q̇` by construction; that of a contact is computed from `CalcPointVelocity`
    (`velocity_error_is_G_qdot`).
  * not covered: loop constraints on fixed bodies (ids `≥ fixedDisc`), `update_kinematics = true`
    for loops (the routines then first run `UpdateKinematicsCustom (Q)`, C05 `update_flag`), and
    whether the workspace `csvWS` satisfies `JacHyp` (C13 / finding D1).
-/
set_option linter.unusedSectionVars false
namespace Rbdl.C09
open Lean.Grind Rbdl Rbdl.L05 Rbdl.L09 Rbdl.Spec

section
variable {α : Type} [Field α] [DecidableEq α]

/-! ### 1. bookkeeping of `AddContactConstraint` / `AddLoopConstraint` -/

/-- one call either appends a fresh one-axis constraint whose row is the old `size`, or appends the
    axis to the last constraint of the same type when body / point / user id (loops: bodies, frames,
    user id) agree **and the rows of that constraint are the last rows of the system** -/
theorem addContact_spec (C : CSet α) (body : Nat) (point normal : V3 α) (userId : Nat) :
    C.addContact body point normal userId
        = ⟨C.cs ++ [freshContact C.size body point normal userId], C.size + 1⟩ ∨
    ∃ k c, C.lastOf .contact = some k ∧ C.cs[k]? = some c ∧ c.ctype = .contact ∧
      c.bodyP = body ∧ c.XP.r = point ∧ c.userId = userId ∧ c.row + c.T.length = C.size ∧
      C.addContact body point normal userId
        = ⟨C.cs.set k (extend c ⟨V3.zero, normal⟩ false), C.size + 1⟩ :=
  addContact_cases C body point normal userId

theorem addLoop_spec (C : CSet α) (idP idS : Nat) (XP XS : XT α) (axis : SV α) (bg : Bool)
    (ts : α) (userId : Nat) :
    C.addLoop idP idS XP XS axis bg ts userId
        = ⟨C.cs ++ [freshLoop C.size idP idS XP XS axis bg ts userId], C.size + 1⟩ ∨
    ∃ k c, C.lastOf .loop = some k ∧ C.cs[k]? = some c ∧ c.ctype = .loop ∧
      c.bodyP = idP ∧ c.bodyS = idS ∧ c.XP = XP ∧ c.XS = XS ∧ c.userId = userId ∧
      c.row + c.T.length = C.size ∧
      C.addLoop idP idS XP XS axis bg ts userId
        = ⟨C.cs.set k (extend c axis true), C.size + 1⟩ :=
  addLoop_cases C idP idS XP XS axis bg ts userId

/-- after **any** sequence of additions: `size` is the number of calls and the total number of axes;
    in every constraint the flag lists have the length of the axis list, which is not empty; contact
    constraints have all position flags `false` (zero position error, as documented), loops all
    `true`; all velocity flags are `true` -/
theorem bookkeeping (ops : List (L09.Op α)) :
    (run ops).size = ops.length ∧ (run ops).size = rowsOf (run ops).cs ∧
    ∀ c ∈ (run ops).cs, c.T ≠ [] ∧ c.posC.length = c.T.length ∧ c.velC.length = c.T.length ∧
      (c.ctype = .contact → ∀ b ∈ c.posC, b = false) ∧
      (c.ctype = .loop → ∀ b ∈ c.posC, b = true) ∧ (∀ b ∈ c.velC, b = true) := by
  have hI : Inv (run ops) := inv_foldl ops _ inv_empty
  refine ⟨?_, hI.size, fun c hc => ?_⟩
  · have := size_foldl ops (CSet.empty : CSet α)
    simpa [run, CSet.empty] using this
  · have hs := hI.shape c hc
    refine ⟨hs.ne, hs.pos, hs.vel, fun h b hb => ?_, fun h b hb => ?_, hs.velAll⟩
    · rw [hs.posAll b hb, h]; rfl
    · rw [hs.posAll b hb, h]; rfl
example := bookkeeping L09.Ex.ops

/-- the full per-constraint record (`L09.Shape`) -/
theorem constraint_shape (ops : List (L09.Op α)) : ∀ c ∈ (run ops).cs, Shape c :=
  (inv_foldl ops _ inv_empty).shape
example := constraint_shape L09.Ex.ops

/-- **the rows of the constraints tile `[0, size)`, for every sequence of additions**: constraint `i`
    starts at the number of axes of the constraints before it (contiguous in list order), the row
    ranges are pairwise disjoint and below `size`, and every row below `size` belongs to a
    constraint.  (With the repaired grouping rule: a call is merged into the last constraint of its
    type only if that constraint's rows are the last rows of the system.) -/
theorem rows_contiguous (ops : List (L09.Op α)) :
    (∀ (i : Nat) (c : Constr α), (run ops).cs[i]? = some c → c.row = rowsOf ((run ops).cs.take i)) ∧
    (∀ (i j : Nat) (ci cj : Constr α), (run ops).cs[i]? = some ci → (run ops).cs[j]? = some cj → i < j →
      ci.row + ci.T.length ≤ cj.row ∧ cj.row + cj.T.length ≤ (run ops).size) ∧
    (∀ r, r < (run ops).size → ∃ c ∈ (run ops).cs, c.row ≤ r ∧ r < c.row + c.T.length) := by
  have hI : Inv (run ops) := inv_foldl ops _ inv_empty
  have hC : Contig (run ops) := contig_foldl ops _ inv_empty contig_empty
  exact ⟨hC, fun i j ci cj hi hj hij => hC.disjoint hI i j ci cj hi hj hij, hC.cover hI⟩
example := rows_contiguous L09.Ex.ops
/-- the set built by `Ex.ops`: a contact group (rows 0,1), two loop groups (rows 2,3 and 4) -/
example : (run L09.Ex.ops).cs.map (fun c => (c.ctype, c.row, c.T.length)) =
    [(.contact, 0, 2), (.loop, 2, 2), (.loop, 4, 1)] ∧ (run L09.Ex.ops).size = 5 := L09.Ex.C_shape

/-- the merge condition `row + #T = size` is what makes this true.  contact, loop, the same contact
    point again: under the **old** rule (`Ex.addContactOld`: merge whenever body / point / user id
    agree) the second normal is merged into constraint 0, which then owns rows {0, 1} while the loop
    constraint keeps row 1 and row 2 belongs to no constraint; under the repaired rule the third call
    opens a new constraint at row 2 -/
theorem interleaved_rows_old_rule :
    L09.Ex.CBadOld.cs.map (fun c => (c.ctype, c.row, c.T.length))
      = [(.contact, 0, 2), (.loop, 1, 1)] ∧ L09.Ex.CBadOld.size = 3 ∧
    (run L09.Ex.opsBad).cs.map (fun c => (c.ctype, c.row, c.T.length))
      = [(.contact, 0, 1), (.loop, 1, 1), (.contact, 2, 1)] ∧ (run L09.Ex.opsBad).size = 3 :=
  ⟨L09.Ex.CBadOld_rows.1, L09.Ex.CBadOld_rows.2, L09.Ex.opsBad_rows.1, L09.Ex.opsBad_rows.2⟩

/-! ### 2. contact constraints: what is written -/

/-- row `row + k` of the Jacobian is `n_kᵀ J_P` (`J_P` the point Jacobian of the contact point);
    nothing else is written -/
theorem contact_jacobian_row (c : Constr α) (hc : c.ctype = .contact) (m : ModelS α) (w : WS α)
    (st : QS α) (G : MatN α) (update : Bool) (r col : Nat) :
    (c.jacobian m w st G update).2 r col
      = if hasRow c r ∧ col < m.qdotSize then
          (axisAt c r).v.x * (calcPointJacobian m w st c.bodyP c.XP.r zeroMat update).2 0 col
            + (axisAt c r).v.y * (calcPointJacobian m w st c.bodyP c.XP.r zeroMat update).2 1 col
            + (axisAt c r).v.z * (calcPointJacobian m w st c.bodyP c.XP.r zeroMat update).2 2 col
        else G r col :=
  contact_jacobian_get c hc m w st G update r col
example (G : MatN Rat) (r col : Nat) :=
  contact_jacobian_row L09.Ex.cC L09.Ex.cC_contact L09.Ex.m L09.Ex.w2 L09.Ex.st G false r col

/-- (C05) `row · q̇ = n_k · CalcPointVelocity`, and this is exactly the reported velocity error;
    the reported position error is 0 -/
theorem contact_row_velocity (c : Constr α) (hc : c.ctype = .contact) (hs : Shape c) (m : ModelS α)
    (w : WS α) (st : QS α) (qd : VecN α) (G G' : MatN α) (err errd : VecN α)
    (hJ : JacHyp m w qd) (hP : BodyOK m c.bodyP) (r : Nat) (hr : hasRow c r) :
    rowDot (c.jacobian m w st G false).2 m.qdotSize r qd
      = (axisAt c r).v.dot (calcPointVelocity m w st qd c.bodyP c.XP.r false).2 ∧
    (c.velocityError m w st qd G' errd false).2 r
      = (axisAt c r).v.dot (calcPointVelocity m w st qd c.bodyP c.XP.r false).2 ∧
    (c.positionError m w st err false).2 r = 0 := by
  have hk : r - c.row < c.T.length := by have := hr.1; have := hr.2; omega
  refine ⟨?_, ?_, ?_⟩
  · rw [contact_row_dot c hc m w st G false r hr qd]
    unfold contactJ
    rw [pointJacobian_mul_ok m w st qd c.bodyP c.XP.r hJ hP]
  · rw [contact_velocityError_get c hc, if_pos hr, hs.velC_getD _ hk, if_pos rfl, v3_dot_comm]
  · rw [contact_positionError_get c hc, if_pos hr, hs.posC_getD _ hk, hc]
    rfl
example (G G' : MatN Rat) (err errd : VecN Rat) :=
  contact_row_velocity L09.Ex.cC L09.Ex.cC_contact L09.Ex.cC_shape L09.Ex.m L09.Ex.w2
    L09.Ex.st L09.Ex.qd G G' err errd L05.Ex.w2_jacHyp L09.Ex.cC_P 1 (by decide +kernel)

/-- the same for a contact point on a **fixed body** (id `≥ fixedDisc`, attached to a movable body) -/
theorem contact_row_velocity_fixedBody (c : Constr α) (hc : c.ctype = .contact) (hs : Shape c)
    (m : ModelS α) (w : WS α) (st : QS α) (qd : VecN α) (G G' : MatN α) (err errd : VecN α)
    (hJ : JacHyp m w qd) (hf : m.isFixedBodyId c.bodyP = true) (h1 : 1 ≤ m.refBody c.bodyP)
    (hi : m.refBody c.bodyP < m.nBodies) (hrb : ¬ fixedDisc ≤ m.refBody c.bodyP)
    (r : Nat) (hr : hasRow c r) :
    rowDot (c.jacobian m w st G false).2 m.qdotSize r qd
      = (axisAt c r).v.dot (calcPointVelocity m w st qd c.bodyP c.XP.r false).2 ∧
    (c.velocityError m w st qd G' errd false).2 r
      = (axisAt c r).v.dot (calcPointVelocity m w st qd c.bodyP c.XP.r false).2 ∧
    (c.positionError m w st err false).2 r = 0 := by
  have hk : r - c.row < c.T.length := by have := hr.1; have := hr.2; omega
  refine ⟨?_, ?_, ?_⟩
  · rw [contact_row_dot c hc m w st G false r hr qd]
    unfold contactJ
    rw [C05.pointJacobian_mul_fixedBody m w st qd c.bodyP c.XP.r hJ hf h1 hi hrb]
  · rw [contact_velocityError_get c hc, if_pos hr, hs.velC_getD _ hk, if_pos rfl, v3_dot_comm]
  · rw [contact_positionError_get c hc, if_pos hr, hs.posC_getD _ hk, hc]
    rfl
/-- the fixed body of `C04.Ex.m` (attached to body 2) -/
example (G G' : MatN Rat) (err errd : VecN Rat) :=
  contact_row_velocity_fixedBody L09.Ex.cF (by decide +kernel) L09.Ex.cF_shape L09.Ex.m L09.Ex.w2
    L09.Ex.st L09.Ex.qd G G' err errd L05.Ex.w2_jacHyp (by decide +kernel) (by decide +kernel)
    (by decide +kernel) (by decide +kernel) 0 (by decide +kernel)

/-- the position error of a contact row is 0 whatever the flags of the update and the body id
    (only the bookkeeping invariant is used) -/
theorem contact_position_error_zero (c : Constr α) (hc : c.ctype = .contact) (hs : Shape c)
    (m : ModelS α) (w : WS α) (st : QS α) (err : VecN α) (update : Bool) (r : Nat) :
    (c.positionError m w st err update).2 r = if hasRow c r then 0 else err r := by
  rw [contact_positionError_get c hc]
  by_cases hr : hasRow c r
  · have hk : r - c.row < c.T.length := by have := hr.1; have := hr.2; omega
    rw [if_pos hr, if_pos hr, hs.posC_getD _ hk, hc]; rfl
  · rw [if_neg hr, if_neg hr]
example (err : VecN Rat) (r : Nat) :=
  contact_position_error_zero L09.Ex.cC L09.Ex.cC_contact L09.Ex.cC_shape
    L09.Ex.m L09.Ex.w0 L09.Ex.st err true r

/-- `gamma[row + k] = −n_k · CalcPointAcceleration (…, QDDot = 0, update = false)`: the acceleration
    the caller left in the workspace -/
theorem contact_gamma_row (c : Constr α) (hc : c.ctype = .contact) (m : ModelS α) (w : WS α)
    (st : QS α) (qd : VecN α) (gam : VecN α) (r : Nat) :
    (c.gamma m w st qd gam).2 r
      = if hasRow c r then
          -((axisAt c r).v.dot (calcPointAcceleration m w st qd zeroVec c.bodyP c.XP.r false).2)
        else gam r :=
  contact_gamma_get c hc m w st qd gam r
example (gam : VecN Rat) (r : Nat) :=
  contact_gamma_row L09.Ex.cC L09.Ex.cC_contact L09.Ex.m L09.Ex.w2 L09.Ex.st L09.Ex.qd gam r

/-! ### 3. loop constraints: what is written (`update_kinematics = false`, ids below `fixedDisc`) -/

/-- row `row + k` is `loopAxis(A, T_k) · (J₆,succ − J₆,pred)` with `A` the world placement of the
    predecessor frame and `loopAxis(A, t) = (A.E t.w, A.E (t.v − A.r × t.w))` -/
theorem loop_jacobian_row (c : Constr α) (hc : c.ctype = .loop) (m : ModelS α) (w : WS α)
    (st : QS α) (G : MatN α) (hP : ¬ fixedDisc ≤ c.bodyP) (r col : Nat) :
    (c.jacobian m w st G false).2 r col
      = if hasRow c r ∧ col < m.qdotSize then
          dot6 (loopAxis (frameOf w c.bodyP c.XP) (axisAt c r))
            (fun q => (calcPointJacobian6D m w st c.bodyS c.XS.r zeroMat false).2 q col
                      - (calcPointJacobian6D m w st c.bodyP c.XP.r zeroMat false).2 q col)
        else G r col :=
  loop_jacobian_get c hc m w st G hP r col
example (G : MatN Rat) (r col : Nat) :=
  loop_jacobian_row L09.Ex.cL L09.Ex.cL_loop L09.Ex.m L09.Ex.w2 L09.Ex.st G (by decide +kernel) r col

theorem loopAxis_formula (A : XT α) (t : SV α) :
    loopAxis A t = ⟨A.E * t.w, A.E * (t.v - A.r.cross t.w)⟩ := rfl

/-- the velocity error is `row · q̇` of the matrix passed in; the position error is
    `T_k · loopError(A, B)`, `loopError = (axial(A.Eᵀ B.E), A.Eᵀ (B.r − A.r))`: relative displacement and
    sine-scaled relative rotation in predecessor-frame axes -/
theorem loop_errors (c : Constr α) (hc : c.ctype = .loop) (hs : Shape c) (m : ModelS α) (w : WS α)
    (st : QS α) (qd : VecN α) (G : MatN α) (err errd : VecN α) (update : Bool)
    (hP : ¬ fixedDisc ≤ c.bodyP) (hS : ¬ fixedDisc ≤ c.bodyS) (r : Nat) (hr : hasRow c r) :
    (c.velocityError m w st qd G errd update).2 r = rowDot G m.qdotSize r qd ∧
    (c.positionError m w st err false).2 r
      = (axisAt c r).dot (loopError (frameOf w c.bodyP c.XP) (frameOf w c.bodyS c.XS)) ∧
    loopError (frameOf w c.bodyP c.XP) (frameOf w c.bodyS c.XS)
      = ⟨axial ((frameOf w c.bodyP c.XP).E.transpose * (frameOf w c.bodyS c.XS).E),
         (frameOf w c.bodyP c.XP).E.tmulVec ((frameOf w c.bodyS c.XS).r - (frameOf w c.bodyP c.XP).r)⟩ := by
  have hk : r - c.row < c.T.length := by have := hr.1; have := hr.2; omega
  refine ⟨?_, ?_, rfl⟩
  · rw [loop_velocityError_get c hc, if_pos hr, hs.velC_getD _ hk, if_pos rfl]
  · rw [loop_positionError_get c hc m w st err hP hS, if_pos hr, hs.posC_getD _ hk, hc]
    rfl
example (G : MatN Rat) (err errd : VecN Rat) :=
  loop_errors L09.Ex.cL L09.Ex.cL_loop L09.Ex.cL_shape L09.Ex.m L09.Ex.w2 L09.Ex.st L09.Ex.qd G
    err errd false (by decide +kernel) (by decide +kernel) 3 (by decide +kernel)

/-- `gamma[row + k] = −e · (A_succ − A_pred) − (V_pred ×ₘ e) · (V_succ − V_pred)` with `e` the axis
    resolved as above and `V`, `A` the 6-D point velocities / accelerations in the workspace -/
theorem loop_gamma_row (c : Constr α) (hc : c.ctype = .loop) (m : ModelS α) (w : WS α) (st : QS α)
    (qd : VecN α) (gam : VecN α) (hP : ¬ fixedDisc ≤ c.bodyP) (hS : ¬ fixedDisc ≤ c.bodyS) (r : Nat) :
    (c.gamma m w st qd gam).2 r
      = if hasRow c r then
          -((loopAxis (frameOf w c.bodyP c.XP) (axisAt c r)).dot
              (acc6 w c.bodyS c.XS.r - acc6 w c.bodyP c.XP.r))
          - (crossm (vel6 w c.bodyP c.XP.r) (loopAxis (frameOf w c.bodyP c.XP) (axisAt c r))).dot
              (vel6 w c.bodyS c.XS.r - vel6 w c.bodyP c.XP.r)
        else gam r :=
  loop_gamma_get c hc m w st qd gam hP hS r
example (gam : VecN Rat) (r : Nat) :=
  loop_gamma_row L09.Ex.cL L09.Ex.cL_loop L09.Ex.m L09.Ex.w2 L09.Ex.st L09.Ex.qd gam (by decide +kernel) (by decide +kernel) r

/-! ### 4. `G q̇ = dφ/dt` -/

/-- **contacts, unconditionally**: after `UpdateKinematics (Q, QDot, QDDot)` the row times `q̇`, and
    the reported velocity error, are the first time derivative of `φ_k = n_k · (p + R x)` along the
    trajectory, for every `q̇` (and `q̈`); the reported position error is 0 -/
theorem contact_consistency (h2 : (2 : α) ≠ 0) (m : ModelS α) (w : WS α) (st : QS α)
    (qd qdd : VecN α) (hS : Setup m w st) (c : Constr α) (hc : c.ctype = .contact) (hs : Shape c)
    (hP : BodyOK m c.bodyP) (G G' : MatN α) (err errd : VecN α) (r : Nat) (hr : hasRow c r) :
    rowDot (c.jacobian m (updateKinematics m w st qd qdd) st G false).2 m.qdotSize r qd
      = (contactPhi (bodyPoseJet m st qd qdd c.bodyP) c.XP.r (axisAt c r).v).d1 ∧
    (c.velocityError m (updateKinematics m w st qd qdd) st qd G' errd false).2 r
      = (contactPhi (bodyPoseJet m st qd qdd c.bodyP) c.XP.r (axisAt c r).v).d1 ∧
    (c.positionError m (updateKinematics m w st qd qdd) st err false).2 r = 0 := by
  obtain ⟨e1, e2, e3⟩ := contact_row_velocity c hc hs m _ st qd G G' err errd (hS.jacHyp qd qdd) hP
    r hr
  have hv : (calcPointVelocity m (updateKinematics m w st qd qdd) st qd c.bodyP c.XP.r false).2
      = (NodeKin.ofPose (bodyPoseJet m st qd qdd c.bodyP)).ptd c.XP.r := by
    show (calcPointVelocity6D m _ st qd c.bodyP c.XP.r false).2.v = _
    rw [pointVelocity6D_eq _ _ _ _ _ _ hP.notFixed]
    dsimp only
    rw [(hS.bodyJet h2 qd qdd c.bodyP hP).vel6 h2]
  rw [e1, e2, hv, contactPhi_d1]
  exact ⟨rfl, rfl, e3⟩
example (G G' : MatN Rat) (err errd : VecN Rat) :=
  contact_consistency L09.Ex.two_ne L09.Ex.m L09.Ex.w0 L09.Ex.st L09.Ex.qd L09.Ex.qdd L09.Ex.setup L09.Ex.cC L09.Ex.cC_contact
    L09.Ex.cC_shape L09.Ex.cC_P G G' err errd 1 (by decide +kernel)

/-- **loops, exact**: `row · q̇ = φ̇_k + velGap` after `UpdateKinematics`, where `φ_k` is the
    constraint function of `Spec.constrPhi` (`loopPhi`) whose value is the reported position error -/
theorem loop_velocity_gap (h2 : (2 : α) ≠ 0) (m : ModelS α) (w : WS α) (st : QS α)
    (qd qdd : VecN α) (hS : Setup m w st) (c : Constr α) (hc : c.ctype = .loop) (hs : Shape c)
    (hP : BodyOK m c.bodyP) (hB : BodyOK m c.bodyS) (G : MatN α) (err : VecN α) (r : Nat)
    (hr : hasRow c r) :
    rowDot (c.jacobian m (updateKinematics m w st qd qdd) st G false).2 m.qdotSize r qd
      = (loopPhi (framePlacement (bodyPoseJet m st qd qdd c.bodyP) c.XP)
            (framePlacement (bodyPoseJet m st qd qdd c.bodyS) c.XS) (axisAt c r)).d1
        + velGap (NodeKin.ofPose (framePlacement (bodyPoseJet m st qd qdd c.bodyP) c.XP))
            (NodeKin.ofPose (framePlacement (bodyPoseJet m st qd qdd c.bodyS) c.XS))
            (NodeKin.ofPose (bodyPoseJet m st qd qdd c.bodyP)).omega
            (NodeKin.ofPose (bodyPoseJet m st qd qdd c.bodyS)).omega (axisAt c r) ∧
    (c.positionError m (updateKinematics m w st qd qdd) st err false).2 r
      = (loopPhi (framePlacement (bodyPoseJet m st qd qdd c.bodyP) c.XP)
            (framePlacement (bodyPoseJet m st qd qdd c.bodyS) c.XS) (axisAt c r)).x :=
  ⟨loop_velocity_exact h2 c hc m _ st qd G (hS.jacHyp qd qdd) hP hB _ _
      (hS.bodyJet h2 qd qdd c.bodyP hP) (hS.bodyJet h2 qd qdd c.bodyS hB) r hr,
   loop_positionError_phi c hc hs m _ st err hP hB _ _
      (hS.bodyJet h2 qd qdd c.bodyP hP) (hS.bodyJet h2 qd qdd c.bodyS hB) r hr⟩
example (G : MatN Rat) (err : VecN Rat) :=
  loop_velocity_gap L09.Ex.two_ne L09.Ex.m L09.Ex.w0 L09.Ex.st L09.Ex.qd L09.Ex.qdd L09.Ex.setup L09.Ex.cM L09.Ex.cM_loop
    L09.Ex.cM_shape L09.Ex.cM_P L09.Ex.cM_S G err 4 (by decide +kernel)

/-- **loops, the class in which the statement of C09 holds** (`w' = ` the workspace after
    `UpdateKinematics`, `A`, `B` the world placements of the two frames, `t` the axis):
    * `t.w = 0`, or the two frames are aligned (`A.E = B.E`, a rotation);
    * `A.r × t.w = 0` (predecessor frame origin at the base origin, or on the axis through it, or a
      purely translational axis);
    * `t.v = 0`, or the predecessor does not rotate, or the frame origins coincide.
    Then `row · q̇ = φ̇_k` for every `q̇`, and this is the velocity error reported from that row -/
theorem loop_consistency (h2 : (2 : α) ≠ 0) (m : ModelS α) (w : WS α) (st : QS α)
    (qd qdd : VecN α) (hS : Setup m w st) (c : Constr α) (hc : c.ctype = .loop) (hs : Shape c)
    (hP : BodyOK m c.bodyP) (hB : BodyOK m c.bodyS) (G : MatN α) (errd : VecN α) (r : Nat)
    (hr : hasRow c r)
    (hrot : (axisAt c r).w = V3.zero ∨
      ((frameOf (updateKinematics m w st qd qdd) c.bodyS c.XS).E
          = (frameOf (updateKinematics m w st qd qdd) c.bodyP c.XP).E ∧
        (frameOf (updateKinematics m w st qd qdd) c.bodyP c.XP).E.IsRot))
    (ha : (frameOf (updateKinematics m w st qd qdd) c.bodyP c.XP).r.cross (axisAt c r).w = V3.zero)
    (hb : (axisAt c r).v = V3.zero ∨
      (vel6 (updateKinematics m w st qd qdd) c.bodyP c.XP.r).w = V3.zero ∨
      (frameOf (updateKinematics m w st qd qdd) c.bodyS c.XS).r
        = (frameOf (updateKinematics m w st qd qdd) c.bodyP c.XP).r) :
    rowDot (c.jacobian m (updateKinematics m w st qd qdd) st G false).2 m.qdotSize r qd
      = (loopPhi (framePlacement (bodyPoseJet m st qd qdd c.bodyP) c.XP)
            (framePlacement (bodyPoseJet m st qd qdd c.bodyS) c.XS) (axisAt c r)).d1 ∧
    (c.velocityError m (updateKinematics m w st qd qdd) st qd
        (c.jacobian m (updateKinematics m w st qd qdd) st G false).2 errd false).2 r
      = (loopPhi (framePlacement (bodyPoseJet m st qd qdd c.bodyP) c.XP)
            (framePlacement (bodyPoseJet m st qd qdd c.bodyS) c.XS) (axisAt c r)).d1 := by
  have jA := hS.bodyJet h2 qd qdd c.bodyP hP
  have jB := hS.bodyJet h2 qd qdd c.bodyS hB
  obtain ⟨rA, pA, oA, _, _, _⟩ := jA.read h2 c.XP
  obtain ⟨rB, pB, _, _, _, _⟩ := jB.read h2 c.XS
  have e := (loop_velocity_gap h2 m w st qd qdd hS c hc hs hP hB G errd r hr).1
  rw [velGap_zero h2 _ _ _ _ _ (by rw [rA, rB]; exact hrot) (by rw [pA]; exact ha)
    (by rw [oA, pA, pB]; exact hb)] at e
  have e' : rowDot (c.jacobian m (updateKinematics m w st qd qdd) st G false).2 m.qdotSize r qd
      = (loopPhi (framePlacement (bodyPoseJet m st qd qdd c.bodyP) c.XP)
            (framePlacement (bodyPoseJet m st qd qdd c.bodyS) c.XS) (axisAt c r)).d1 := by
    rw [e]; grind
  exact ⟨e', by rw [(loop_errors c hc hs m _ st qd _ errd errd false hP.notFixed hB.notFixed r hr).1, e']⟩

/-- row 2 of `Ex.cL`: rotation about z locked between the base (frame at the base origin, aligned
    with the successor frame) and body 1 -/
example (G : MatN Rat) (errd : VecN Rat) :=
  loop_consistency L09.Ex.two_ne L09.Ex.m L09.Ex.w0 L09.Ex.st L09.Ex.qd L09.Ex.qdd L09.Ex.setup L09.Ex.cL
    L09.Ex.cL_loop L09.Ex.cL_shape L09.Ex.cL_P L09.Ex.cL_S G errd 2 (by decide +kernel)
    (Or.inr ⟨by decide +kernel, by constructor <;> decide +kernel⟩) (by decide +kernel)
    (Or.inl (by decide +kernel))
/-- row 3 of `Ex.cL`: the translation along `(1,2,0)` of the (non-rotating) base frame locked, frame
    origins apart -/
example (G : MatN Rat) (errd : VecN Rat) :=
  loop_consistency L09.Ex.two_ne L09.Ex.m L09.Ex.w0 L09.Ex.st L09.Ex.qd L09.Ex.qdd L09.Ex.setup L09.Ex.cL
    L09.Ex.cL_loop L09.Ex.cL_shape L09.Ex.cL_P L09.Ex.cL_S G errd 3 (by decide +kernel)
    (Or.inl (by decide +kernel)) (by decide +kernel) (Or.inr (Or.inl (by decide +kernel)))

/-! ### 5. `γ = −φ̈|_{q̈ = 0}` and `G q̈ − γ` -/

/-- **contacts**: with the accelerations for `q̈ = 0` in the workspace (`UpdateKinematics (Q, QDot, 0)`),
    `γ_k = −φ̈_k|_{q̈ = 0}` -/
theorem contact_gamma_is_phidd (h2 : (2 : α) ≠ 0) (m : ModelS α) (w : WS α) (st : QS α)
    (qd : VecN α) (hS : Setup m w st) (c : Constr α) (hc : c.ctype = .contact)
    (hP : BodyOK m c.bodyP) (gam : VecN α) (r : Nat) (hr : hasRow c r) :
    (c.gamma m (updateKinematics m w st qd zeroVec) st qd gam).2 r
      = -(contactPhi (bodyPoseJet m st qd zeroVec c.bodyP) c.XP.r (axisAt c r).v).d2 := by
  rw [contact_gamma_get c hc, if_pos hr, contactPhi_d2]
  have ha : (calcPointAcceleration m (updateKinematics m w st qd zeroVec) st qd zeroVec c.bodyP
      c.XP.r false).2 = (NodeKin.ofPose (bodyPoseJet m st qd zeroVec c.bodyP)).ptdd c.XP.r := by
    show (calcPointAcceleration6D m _ st qd zeroVec c.bodyP c.XP.r false).2.v = _
    rw [pointAcceleration6D_eq _ _ _ _ _ _ _ hP.notFixed]
    dsimp only
    rw [(hS.bodyJet h2 qd zeroVec c.bodyP hP).acc6 h2]
  rw [ha]
example (gam : VecN Rat) :=
  contact_gamma_is_phidd L09.Ex.two_ne L09.Ex.m L09.Ex.w0 L09.Ex.st L09.Ex.qd L09.Ex.setup L09.Ex.cC L09.Ex.cC_contact L09.Ex.cC_P gam 0
    (by decide +kernel)

/-- **contacts**: the point acceleration is affine in `q̈` with the point Jacobian as linear part,
    hence for every `q̈`: `G q̈ − γ(q, q̇) = n_k · a_P(q, q̇, q̈)` (accelerations as
    `UpdateKinematicsCustom (NULL, NULL, &QDDot)` leaves them, the call
    `CalcConstrainedSystemVariables` makes before `calcGamma`) -/
theorem contact_Gqddot_minus_gamma (c : Constr α) (hc : c.ctype = .contact) (m : ModelS α)
    (w : WS α) (st : QS α) (qd qdd : VecN α) (G : MatN α) (gam : VecN α) (hJ : JacHyp m w qd)
    (hP : BodyOK m c.bodyP) (r : Nat) (hr : hasRow c r) :
    rowDot (c.jacobian m w st G false).2 m.qdotSize r qdd
        - (c.gamma m (updateKinematicsCustom m w none none (some zeroVec)) st qd gam).2 r
      = (axisAt c r).v.dot
          (calcPointAcceleration m (updateKinematicsCustom m w none none (some qdd)) st qd qdd
            c.bodyP c.XP.r false).2 :=
  contact_Gqdd_minus_gamma c hc m w st qd qdd G gam hJ hP r hr
example (G : MatN Rat) (gam : VecN Rat) :=
  contact_Gqddot_minus_gamma L09.Ex.cC L09.Ex.cC_contact L09.Ex.m L09.Ex.w2 L09.Ex.st L09.Ex.qd L09.Ex.qdd G gam
    L05.Ex.w2_jacHyp L09.Ex.cC_P 0 (by decide +kernel)

/-- the affine fact itself (6-D, base body or movable body) -/
theorem point_acceleration_affine (m : ModelS α) (w : WS α) (st : QS α) (qd qdd : VecN α)
    (id : Nat) (p : V3 α) (h : JacHyp m w qd) (hid : BodyOK m id) :
    (calcPointAcceleration6D m (updateKinematicsCustom m w none none (some qdd)) st qd qdd id p
        false).2
      = (calcPointAcceleration6D m (updateKinematicsCustom m w none none (some zeroVec)) st qd
          zeroVec id p false).2
        + mulVecSV (calcPointJacobian6D m w st id p zeroMat false).2 m.qdotSize qdd :=
  pointAcceleration6D_affine_ok m w st qd qdd id p h hid
example (p : V3 Rat) :=
  point_acceleration_affine L09.Ex.m L09.Ex.w2 L09.Ex.st L09.Ex.qd L09.Ex.qdd 3 p L05.Ex.w2_jacHyp L09.Ex.body3_ok

/-- **loops, exact**: `γ_k = −(φ̈_k|_{q̈=0} + accGap)` (purely translational axis, or aligned frames) -/
theorem loop_gamma_gap (h2 : (2 : α) ≠ 0) (m : ModelS α) (w : WS α) (st : QS α)
    (qd : VecN α) (hS : Setup m w st) (c : Constr α) (hc : c.ctype = .loop)
    (hP : BodyOK m c.bodyP) (hB : BodyOK m c.bodyS) (gam : VecN α) (r : Nat) (hr : hasRow c r)
    (hrot : (axisAt c r).w = V3.zero ∨
      ((frameOf (updateKinematics m w st qd zeroVec) c.bodyS c.XS).E
          = (frameOf (updateKinematics m w st qd zeroVec) c.bodyP c.XP).E ∧
        (frameOf (updateKinematics m w st qd zeroVec) c.bodyP c.XP).E.IsRot)) :
    (c.gamma m (updateKinematics m w st qd zeroVec) st qd gam).2 r
      = -((loopPhi (framePlacement (bodyPoseJet m st qd zeroVec c.bodyP) c.XP)
            (framePlacement (bodyPoseJet m st qd zeroVec c.bodyS) c.XS) (axisAt c r)).d2
          + accGap (NodeKin.ofPose (framePlacement (bodyPoseJet m st qd zeroVec c.bodyP) c.XP))
              (NodeKin.ofPose (framePlacement (bodyPoseJet m st qd zeroVec c.bodyS) c.XS))
              (NodeKin.ofPose (bodyPoseJet m st qd zeroVec c.bodyP)).omega (axisAt c r)) := by
  have jA := hS.bodyJet h2 qd zeroVec c.bodyP hP
  have jB := hS.bodyJet h2 qd zeroVec c.bodyS hB
  obtain ⟨rA, _, _, _, _, _⟩ := jA.read h2 c.XP
  obtain ⟨rB, _, _, _, _, _⟩ := jB.read h2 c.XS
  exact loop_gamma_exact h2 c hc m _ st qd gam hP hB _ _ jA jB r hr (by rw [rA, rB]; exact hrot)
example (gam : VecN Rat) :=
  loop_gamma_gap L09.Ex.two_ne L09.Ex.m L09.Ex.w0 L09.Ex.st L09.Ex.qd L09.Ex.setup L09.Ex.cM L09.Ex.cM_loop L09.Ex.cM_P L09.Ex.cM_S gam 4
    (by decide +kernel) (Or.inl (by decide +kernel))

/-- **loops, the class in which `γ = −φ̈|_{q̈=0}`**: in addition to the rotational condition,
    * `A.r × t.w = 0`;
    * `t.w = 0`, or the predecessor frame origin is at rest, or both origins move alike;
    * `t.v = 0`, or the predecessor has neither angular velocity nor angular acceleration, or the
      frame origins coincide and move alike -/
theorem loop_gamma_is_phidd (h2 : (2 : α) ≠ 0) (m : ModelS α) (w : WS α) (st : QS α)
    (qd : VecN α) (hS : Setup m w st) (c : Constr α) (hc : c.ctype = .loop)
    (hP : BodyOK m c.bodyP) (hB : BodyOK m c.bodyS) (gam : VecN α) (r : Nat) (hr : hasRow c r)
    (hrot : (axisAt c r).w = V3.zero ∨
      ((frameOf (updateKinematics m w st qd zeroVec) c.bodyS c.XS).E
          = (frameOf (updateKinematics m w st qd zeroVec) c.bodyP c.XP).E ∧
        (frameOf (updateKinematics m w st qd zeroVec) c.bodyP c.XP).E.IsRot))
    (ha : (frameOf (updateKinematics m w st qd zeroVec) c.bodyP c.XP).r.cross (axisAt c r).w
      = V3.zero)
    (hv : (axisAt c r).w = V3.zero ∨
      (vel6 (updateKinematics m w st qd zeroVec) c.bodyP c.XP.r).v = V3.zero ∨
      (vel6 (updateKinematics m w st qd zeroVec) c.bodyS c.XS.r).v
        = (vel6 (updateKinematics m w st qd zeroVec) c.bodyP c.XP.r).v)
    (hb : (axisAt c r).v = V3.zero ∨
      ((vel6 (updateKinematics m w st qd zeroVec) c.bodyP c.XP.r).w = V3.zero ∧
        (acc6 (updateKinematics m w st qd zeroVec) c.bodyP c.XP.r).w = V3.zero) ∨
      ((frameOf (updateKinematics m w st qd zeroVec) c.bodyS c.XS).r
          = (frameOf (updateKinematics m w st qd zeroVec) c.bodyP c.XP).r ∧
        (vel6 (updateKinematics m w st qd zeroVec) c.bodyS c.XS.r).v
          = (vel6 (updateKinematics m w st qd zeroVec) c.bodyP c.XP.r).v)) :
    (c.gamma m (updateKinematics m w st qd zeroVec) st qd gam).2 r
      = -(loopPhi (framePlacement (bodyPoseJet m st qd zeroVec c.bodyP) c.XP)
            (framePlacement (bodyPoseJet m st qd zeroVec c.bodyS) c.XS) (axisAt c r)).d2 := by
  have jA := hS.bodyJet h2 qd zeroVec c.bodyP hP
  have jB := hS.bodyJet h2 qd zeroVec c.bodyS hB
  obtain ⟨_, pA, oA, vA, odA, _⟩ := jA.read h2 c.XP
  obtain ⟨_, pB, _, vB, _, _⟩ := jB.read h2 c.XS
  rw [loop_gamma_gap h2 m w st qd hS c hc hP hB gam r hr hrot,
    accGap_zero _ _ _ _ (by rw [pA]; exact ha) (by rw [vA, vB]; exact hv) ?_]
  · grind
  · rcases hb with h | ⟨h, h'⟩ | ⟨h, h'⟩
    · exact Or.inl h
    · exact Or.inr (Or.inl ⟨by rw [oA]; exact h,
        (jA.frameJet h2 c.XP).rdd_zero (by rw [oA]; exact h) (by rw [odA]; exact h')⟩)
    · exact Or.inr (Or.inr ⟨by rw [pA, pB]; exact h, by rw [vA, vB]; exact h'⟩)

example (gam : VecN Rat) :=
  loop_gamma_is_phidd L09.Ex.two_ne L09.Ex.m L09.Ex.w0 L09.Ex.st L09.Ex.qd L09.Ex.setup L09.Ex.cL
    L09.Ex.cL_loop L09.Ex.cL_P L09.Ex.cL_S gam 2 (by decide +kernel)
    (Or.inr ⟨by decide +kernel, by constructor <;> decide +kernel⟩) (by decide +kernel)
    (Or.inr (Or.inl (by decide +kernel))) (Or.inl (by decide +kernel))
example (gam : VecN Rat) :=
  loop_gamma_is_phidd L09.Ex.two_ne L09.Ex.m L09.Ex.w0 L09.Ex.st L09.Ex.qd L09.Ex.setup L09.Ex.cL
    L09.Ex.cL_loop L09.Ex.cL_P L09.Ex.cL_S gam 3 (by decide +kernel)
    (Or.inl (by decide +kernel)) (by decide +kernel)
    (Or.inl (by decide +kernel)) (Or.inr (Or.inl ⟨by decide +kernel, by decide +kernel⟩))

/-- **loops**: for every `q̈`, `G q̈ − γ(q, q̇)` is the acceleration-level expression of the code,
    `e · (A_succ(q̈) − A_pred(q̈)) + (V_pred ×ₘ e) · (V_succ − V_pred)`; with `loop_gamma_gap` applied
    to the jets for `q̈` this is `φ̈ + accGap` -/
theorem loop_Gqddot_minus_gamma (c : Constr α) (hc : c.ctype = .loop) (m : ModelS α) (w : WS α)
    (st : QS α) (qd qdd : VecN α) (G : MatN α) (gam : VecN α) (hJ : JacHyp m w qd)
    (hP : BodyOK m c.bodyP) (hS : BodyOK m c.bodyS) (r : Nat) (hr : hasRow c r) :
    rowDot (c.jacobian m w st G false).2 m.qdotSize r qdd
        - (c.gamma m (updateKinematicsCustom m w none none (some zeroVec)) st qd gam).2 r
      = (loopAxis (frameOf w c.bodyP c.XP) (axisAt c r)).dot
          (acc6 (updateKinematicsCustom m w none none (some qdd)) c.bodyS c.XS.r
            - acc6 (updateKinematicsCustom m w none none (some qdd)) c.bodyP c.XP.r)
        + (crossm (vel6 w c.bodyP c.XP.r) (loopAxis (frameOf w c.bodyP c.XP) (axisAt c r))).dot
            (vel6 w c.bodyS c.XS.r - vel6 w c.bodyP c.XP.r) :=
  loop_Gqdd_minus_gamma c hc m w st qd qdd G gam hJ hP hS r hr
example (G : MatN Rat) (gam : VecN Rat) :=
  loop_Gqddot_minus_gamma L09.Ex.cL L09.Ex.cL_loop L09.Ex.m L09.Ex.w2 L09.Ex.st L09.Ex.qd L09.Ex.qdd G gam L05.Ex.w2_jacHyp
    L09.Ex.cL_P L09.Ex.cL_S 2 (by decide +kernel)

/-! ### 6. Baumgarte stabilisation -/

/-- on the rows of the constraint `−2 a errd − b² err` is added (`a`, `b` the two stabilisation
    parameters), all other rows are unchanged; with `baumgarte = false` nothing changes -/
theorem baumgarte_rows (c : Constr α) (err errd gam : VecN α) (r : Nat) :
    c.addBaumgarte err errd gam r
      = if c.baumgarte = true ∧ hasRow c r
        then gam r + (-(2 * c.bgA * errd r) - c.bgB * c.bgB * err r) else gam r :=
  addBaumgarte_get c err errd gam r

theorem baumgarte_off (c : Constr α) (h : c.baumgarte = false) (err errd gam : VecN α) :
    c.addBaumgarte err errd gam = gam := by
  unfold Constr.addBaumgarte; rw [h]; rfl
example (err errd gam : VecN Rat) := baumgarte_off L09.Ex.cC (by decide +kernel) err errd gam

/-! ### 6'. whole constraint sets (the loops over the constraints) -/

/-- for a set built by any sequence of additions on ids below `fixedDisc`
    (`update_kinematics = false`): `CalcConstraintsJacobian`, `CalcConstraintsPositionError`,
    `CalcConstraintsVelocityError` leave in the rows of every constraint exactly what that
    constraint writes (sections 2, 3), rows of no constraint keep the input, and the workspace is
    not changed by the Jacobian loop -/
theorem constraint_set_rows (ops : List (L09.Op α))
    (hn : ∀ c ∈ (run ops).cs, NoFixed c) (m : ModelS α) (w : WS α) (st : QS α) (qd : VecN α)
    (G : MatN α) (err errd : VecN α) :
    (calcConstraintsJacobian m w st (run ops) G false).1 = w ∧
    (∀ c ∈ (run ops).cs, ∀ r, hasRow c r → ∀ col, col < m.qdotSize →
      (calcConstraintsJacobian m w st (run ops) G false).2 r col
        = (c.jacobian m w st zeroMat false).2 r col) ∧
    (∀ r col, (∀ c ∈ (run ops).cs, ¬ hasRow c r) ∨ ¬ col < m.qdotSize →
      (calcConstraintsJacobian m w st (run ops) G false).2 r col = G r col) ∧
    (∀ c ∈ (run ops).cs, ∀ r, hasRow c r →
      (calcConstraintsPositionError m w st (run ops) err false).2 r
        = (c.positionError m w st (fun _ => 0) false).2 r) ∧
    (calcConstraintsVelocityError m w st qd (run ops) G errd false).2.1
      = (calcConstraintsJacobian m w st (run ops) G false).2 ∧
    (∀ c ∈ (run ops).cs, ∀ r, hasRow c r →
      (calcConstraintsVelocityError m w st qd (run ops) G errd false).2.2 r
        = (c.velocityError m w st qd (calcConstraintsJacobian m w st (run ops) G false).2
            (fun _ => 0) false).2 r) := by
  have hI : Inv (run ops) := inv_foldl ops _ inv_empty
  have hC : Contig (run ops) := contig_foldl ops _ inv_empty contig_empty
  obtain ⟨j1, j2, j3⟩ := constraintsJacobian_rows (run ops) hI hC hn m w st G
  have hv : calcConstraintsVelocityError m w st qd (run ops) G errd false
      = (((run ops).cs.foldl (fun (s : WS α × VecN α) c =>
            c.velocityError m s.1 st qd (calcConstraintsJacobian m w st (run ops) G false).2 s.2 false)
            ((calcConstraintsJacobian m w st (run ops) G false).1, errd)).1,
         (calcConstraintsJacobian m w st (run ops) G false).2,
         ((run ops).cs.foldl (fun (s : WS α × VecN α) c =>
            c.velocityError m s.1 st qd (calcConstraintsJacobian m w st (run ops) G false).2 s.2 false)
            ((calcConstraintsJacobian m w st (run ops) G false).1, errd)).2) := rfl
  refine ⟨j1, j2, j3, (constraintsPositionError_rows (run ops) hI hC hn m w st err).2.1, ?_, ?_⟩
  · rw [hv]
  · intro c hc r hr
    rw [hv, j1]
    exact (constraintsVelocityError_rows (run ops) hI hC hn m w st qd _ errd).1 c hc r hr
example (G : MatN Rat) (err errd : VecN Rat) :=
  constraint_set_rows L09.Ex.ops L09.Ex.ops_noFixed L09.Ex.m L09.Ex.w2 L09.Ex.st
    L09.Ex.qd G err errd

/-- **the reported velocity error is `G q̇`, row by row, for the whole set**: the vector returned by
    `CalcConstraintsVelocityError` is the product of the matrix it returns with `q̇` (contact rows:
    through C05, loop rows: by construction) -/
theorem velocity_error_is_G_qdot (ops : List (L09.Op α))
    (hn : ∀ c ∈ (run ops).cs, NoFixed c) (m : ModelS α) (w : WS α) (st : QS α) (qd : VecN α)
    (G : MatN α) (errd : VecN α) (hJ : JacHyp m w qd)
    (hP : ∀ c ∈ (run ops).cs, c.ctype = .contact → BodyOK m c.bodyP) :
    ∀ c ∈ (run ops).cs, ∀ r, hasRow c r →
      (calcConstraintsVelocityError m w st qd (run ops) G errd false).2.2 r
        = rowDot (calcConstraintsVelocityError m w st qd (run ops) G errd false).2.1 m.qdotSize r
            qd := by
  intro c hc r hr
  obtain ⟨_, j2, _, _, v1, v2⟩ := constraint_set_rows ops hn m w st qd G errd errd
  have hs := constraint_shape ops c hc
  rw [v2 c hc r hr, v1]
  cases hct : c.ctype with
  | loop => exact (loop_errors c hct hs m w st qd _ errd (fun _ => 0) false (hn c hc).1 (hn c hc).2 r
      hr).1
  | contact =>
    obtain ⟨e1, e2, _⟩ := contact_row_velocity c hct hs m w st qd zeroMat
      (calcConstraintsJacobian m w st (run ops) G false).2 errd (fun _ => 0) hJ (hP c hc hct) r hr
    rw [e2, ← e1]
    exact sumTo_congr _ _ _ (fun j hj => by rw [j2 c hc r hr j hj])
example (G : MatN Rat) (errd : VecN Rat) :=
  velocity_error_is_G_qdot L09.Ex.ops L09.Ex.ops_noFixed L09.Ex.m L09.Ex.w2
    L09.Ex.st L09.Ex.qd G errd L05.Ex.w2_jacHyp L09.Ex.ops_contactOK

/-- the gamma loop of `CalcConstrainedSystemVariables`: in the rows of constraint `c` stands
    `calcGamma` of `c` (sections 2, 3, 5) plus `−2 a errd − b² err` if `c` is stabilised -/
theorem gamma_loop_rows (ops : List (L09.Op α))
    (hn : ∀ c ∈ (run ops).cs, NoFixed c) (m : ModelS α) (w : WS α) (st : QS α) (qd : VecN α)
    (err errd : VecN α) :
    ∀ c ∈ (run ops).cs, ∀ r, hasRow c r →
      ((run ops).cs.foldl (fun (s : WS α × VecN α) c =>
          let (w, g) := c.gamma m s.1 st qd s.2
          (w, c.addBaumgarte err errd g)) (w, fun _ => 0)).2 r
        = (c.gamma m w st qd (fun _ => 0)).2 r
          + (if c.baumgarte = true then -(2 * c.bgA * errd r) - c.bgB * c.bgB * err r else 0) :=
  (gammaLoop_rows (run ops) (inv_foldl ops _ inv_empty)
    (contig_foldl ops _ inv_empty contig_empty) hn m w st qd err errd).1
example (err errd : VecN Rat) :=
  gamma_loop_rows L09.Ex.ops L09.Ex.ops_noFixed L09.Ex.m L09.Ex.w2 L09.Ex.st L09.Ex.qd
    err errd

/-- **`CalcConstrainedSystemVariables`**: the fields `G`, `err`, `errd`, `gamma` of the result hold in
    the rows of every constraint `c` what `c` writes (sections 2, 3) when evaluated in the workspace
    `W = csvWS …` left by `NonlinearEffects` and the composite-rigid-body algorithm — `gamma` in `W`
    after `UpdateKinematicsCustom (NULL, NULL, 0)`, plus the Baumgarte term of the reported errors.
    (Whether `W` satisfies the kinematic hypotheses `JacHyp` of sections 4, 5 is the subject of C13;
    the stale `c[i]` of finding D1 enters here through `W`.) -/
theorem constrained_system_variables_rows (ops : List (L09.Op α))
    (hn : ∀ c ∈ (run ops).cs, NoFixed c)
    (m : ModelS α) (w : WS α) (st : QS α) (qd : VecN α) (update : Bool)
    (fext : Option (Nat → SV α)) :
    ∀ c ∈ (run ops).cs, ∀ r, hasRow c r →
      (∀ col, col < m.qdotSize →
        (calcConstrainedSystemVariables m w st qd (run ops) update fext).2.G r col
          = (c.jacobian m (csvWS m w st qd update fext) st zeroMat false).2 r col) ∧
      (calcConstrainedSystemVariables m w st qd (run ops) update fext).2.err r
        = (c.positionError m (csvWS m w st qd update fext) st (fun _ => 0) false).2 r ∧
      (calcConstrainedSystemVariables m w st qd (run ops) update fext).2.errd r
        = (c.velocityError m (csvWS m w st qd update fext) st qd
            (calcConstrainedSystemVariables m w st qd (run ops) update fext).2.G (fun _ => 0)
            false).2 r ∧
      (calcConstrainedSystemVariables m w st qd (run ops) update fext).2.gamma r
        = (c.gamma m (updateKinematicsCustom m (csvWS m w st qd update fext) none none
              (some zeroVec)) st qd (fun _ => 0)).2 r
          + (if c.baumgarte = true then
              -(2 * c.bgA * (calcConstrainedSystemVariables m w st qd (run ops) update fext).2.errd r)
                - c.bgB * c.bgB
                  * (calcConstrainedSystemVariables m w st qd (run ops) update fext).2.err r
             else 0) :=
  csv_rows (run ops) (inv_foldl ops _ inv_empty) (contig_foldl ops _ inv_empty contig_empty) hn
    m w st qd update fext
example := constrained_system_variables_rows L09.Ex.ops L09.Ex.ops_noFixed L09.Ex.m
  L09.Ex.w0 L09.Ex.st L09.Ex.qd true none

end

/-! ### 7. the defect classes: machine-checked counterexamples (`L09.Ex`, over `Rat`) -/

/-- **D5a**.  One revoluteZ body (angle with cos, sin = 4/5, 3/5; `q̇ = 1`).  Loop constraint base →
    body 1, both frames at the body point (1,0,0) = base point (4/5, 3/5, 0), coinciding and aligned;
    only the rotation about the common z axis is locked.  The reported position error is 0, it is
    the value of `φ`, `φ̇ = 1` — but `G q̇ = 9/5`; `−φ̈|_{q̈=0} = 0` — but `γ = −3/5`.  With both frames at
    the base origin instead (`Ex.cA0`) `G q̇ = 1 = φ̇`. -/
theorem D5a_counterexample :
    L09.Ex.cA.ctype = .loop ∧ L09.Ex.cA.row = 0 ∧ L09.Ex.cA.T = [⟨⟨0, 0, 1⟩, ⟨0, 0, 0⟩⟩] ∧
    frameOf L09.Ex.wA L09.Ex.cA.bodyS L09.Ex.cA.XS = frameOf L09.Ex.wA L09.Ex.cA.bodyP L09.Ex.cA.XP ∧
    (frameOf L09.Ex.wA L09.Ex.cA.bodyP L09.Ex.cA.XP).r = ⟨4/5, 3/5, 0⟩ ∧
    (L09.Ex.cA.positionError L09.Ex.mA L09.Ex.wA L09.Ex.stA (fun _ => 0) false).2 0 = 0 ∧
    L09.Ex.phiOf L09.Ex.cA L09.Ex.mA L09.Ex.stA L09.Ex.qdA zeroVec 0 = ⟨0, 1, 0⟩ ∧
    rowDot (L09.Ex.cA.jacobian L09.Ex.mA L09.Ex.wA L09.Ex.stA zeroMat false).2 L09.Ex.mA.qdotSize 0
      L09.Ex.qdA = 9/5 ∧
    (L09.Ex.cA.gamma L09.Ex.mA L09.Ex.wA L09.Ex.stA L09.Ex.qdA (fun _ => 0)).2 0 = -3/5 ∧
    L09.Ex.phiOf L09.Ex.cA0 L09.Ex.mA L09.Ex.stA L09.Ex.qdA zeroVec 0 = ⟨0, 1, 0⟩ ∧
    rowDot (L09.Ex.cA0.jacobian L09.Ex.mA L09.Ex.wA L09.Ex.stA zeroMat false).2 L09.Ex.mA.qdotSize 0
      L09.Ex.qdA = 1 ∧
    (L09.Ex.cA0.gamma L09.Ex.mA L09.Ex.wA L09.Ex.stA L09.Ex.qdA (fun _ => 0)).2 0 = 0 := by
  decide +kernel

/-- **D5b**.  Body 1 turns about z (`q̇₁ = 1`), body 2 slides along the x axis of body 1 (`q₂ = 2`,
    `q̇₂ = 3`).  Loop constraint body 1 → body 2, frames at the body origins, only the y translation
    of the (rotating) predecessor frame locked: `φ ≡ 0` along every motion, so `φ̇ = φ̈ = 0` — but
    `G q̇ = 2` (`= q₂ q̇₁`) and `γ = −3`. -/
theorem D5b_counterexample :
    L09.Ex.cB.ctype = .loop ∧ L09.Ex.cB.row = 0 ∧ L09.Ex.cB.T = [⟨⟨0, 0, 0⟩, ⟨0, 1, 0⟩⟩] ∧
    (L09.Ex.cB.positionError L09.Ex.mB L09.Ex.wB L09.Ex.stB (fun _ => 0) false).2 0 = 0 ∧
    L09.Ex.phiOf L09.Ex.cB L09.Ex.mB L09.Ex.stB L09.Ex.qdB zeroVec 0 = ⟨0, 0, 0⟩ ∧
    rowDot (L09.Ex.cB.jacobian L09.Ex.mB L09.Ex.wB L09.Ex.stB zeroMat false).2 L09.Ex.mB.qdotSize 0
      L09.Ex.qdB = 2 ∧
    (L09.Ex.cB.gamma L09.Ex.mB L09.Ex.wB L09.Ex.stB L09.Ex.qdB (fun _ => 0)).2 0 = -3 := by
  decide +kernel

/-- **sine scaling** (observation).  One spherical body; predecessor frame on the base at the base
    origin, turned about the z axis of the successor frame (cos, sin = 4/5, 3/5) — as in a hinge
    loop joint that has moved; the x rotation is locked.  The reported error is 0 (`axial` of a
    rotation about z has no x component) and `φ̇ = 3/2`, `−φ̈|_{q̈=0} = 5/2` — but `G q̇ = 0`, `γ = 0`. -/
theorem sine_scaling_counterexample :
    L09.Ex.cS.ctype = .loop ∧ L09.Ex.cS.T = [⟨⟨1, 0, 0⟩, ⟨0, 0, 0⟩⟩] ∧
    (frameOf L09.Ex.wS L09.Ex.cS.bodyP L09.Ex.cS.XP).r = V3.zero ∧
    (L09.Ex.cS.positionError L09.Ex.mS L09.Ex.wS L09.Ex.stS (fun _ => 0) false).2 0 = 0 ∧
    L09.Ex.phiOf L09.Ex.cS L09.Ex.mS L09.Ex.stS L09.Ex.qdS zeroVec 0 = ⟨0, 3/2, -5/2⟩ ∧
    rowDot (L09.Ex.cS.jacobian L09.Ex.mS L09.Ex.wS L09.Ex.stS zeroMat false).2 L09.Ex.mS.qdotSize 0
      L09.Ex.qdS = 0 ∧
    (L09.Ex.cS.gamma L09.Ex.mS L09.Ex.wS L09.Ex.stS L09.Ex.qdS (fun _ => 0)).2 0 = 0 := by
  decide +kernel

end Rbdl.C09
