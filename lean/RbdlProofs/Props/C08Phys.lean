import RbdlProofs.Lemmas.L08PhysCsv
import RbdlProofs.Lemmas.L08PhysDyn
import RbdlProofs.Lemmas.L08PhysEx
import RbdlProofs.Lemmas.L08PhysKE
import RbdlProofs.Lemmas.L08PhysStatic
import RbdlProofs.Lemmas.L08PhysEnergy
import RbdlProofs.Props.C09
/-
  C08 / C10 / C11 — what a solution of the KKT relations MEANS, stated on the quantities the
  code-shaped model computes (`calcConstrainedSystemVariables m w st q̇ C …` with outputs `H`, `C`
  (= `N`), `G`, `gamma`, `err`, `errd`), for ANY `(q̈, λ)` / `(q̇⁺, Λ)` / `(q̈, τ, λ)` that satisfy
  them (no solver is modelled; the linear algebra of the solvers is C08 / C10 / C11, the meaning of
  the rows of `G` and of `γ` is C09, `τ = H q̈ + N` is C03 / C01).  Core Lean; the application of the
  Mathlib-matrix theorems of C11 to the code's arrays is in `Props/C08PhysKkt.lean`.

  Sections: 0 the workspace of the routine · 1 contact rows · 2 contact rows with stabilisation ·
  3 loop rows · 4 equation of motion, constraint force · 5 impulses, `KE = ½ q̇ᵀ H q̇` ·
  6 constrained inverse dynamics · 7 the kinetic energy does not increase in an impact.

  Notation.  `SV = sysVars m w st q̇ C update fext` is the record returned by
  `CalcConstrainedSystemVariables`; `rowDot G nv r x = Σ_{j<nv} G r j x j` is row `r` of `G x`;
  `colDot G nc j λ = Σ_{k<nc} G k j λ k` is entry `j` of `Gᵀ λ`; `hasRow c r`, `axisAt c r` as in C09;
  `csvWS m w st q̇ update fext` is the workspace in which the routine evaluates the constraints (after
  the position update, `NonlinearEffects`, CRBA).  "`G q̈ = γ` holds on row `r`" is
  `rowDot SV.G m.qdotSize r q̈ = SV.gamma r`.

  Workspace used for the code's own point routines: `csvWS …` after
  `UpdateKinematicsCustom (NULL, NULL, q̈)` (for accelerations) — i.e. what a caller gets by calling
  `UpdateKinematicsCustom (model, NULL, NULL, &QDDot)` right after the solve (the workspace the
  routine returns differs from `csvWS` after `UpdateKinematicsCustom (NULL, NULL, 0)` only in `v[0]`,
  `a[0]`, C09 `constrained_system_variables_rows`); positions and velocities are those the routine
  itself computed.  For velocities (impulses, kinetic energy): `csvWS` built for that velocity vector.

  Hypotheses.
  * `WsHyp m w st` (L08PhysWs): the C05 / C06 / C09 set-up `Setup m w st` of model, state and
    construction-time workspace, `mJointUpdateOrder` lists exactly the movable bodies, custom joints
    use distinct slots.  Under it (`update_kinematics = true`) `csv_workspace_kinematics` proves
    what C09 left open: `csvWS` satisfies `JacHyp`, and after the acceleration update its bodies
    carry the pose jets of the motion `(q, q̇, q̈)`.
  * `DynHyp m e st q̇ fext` (L08PhysDyn): the hypotheses of C03 `rnea_eq_crba_mul_add` and of C01
    `nonlinear_effects_eq_rnea0` for the workspace `e` after the position update (joints of arity
    one / three).
  * `CoordLayout` (L08PhysKE): the coordinate blocks of the joints tile `[0, qdotSize)` in body order.

  Findings.
  * contacts built by `AddContactConstraint` never carry Baumgarte stabilisation
    (`contact_constraints_not_stabilised`), so at the level of `CalcConstrainedSystemVariables` a
    contact row of `G q̈ = γ` always means zero normal acceleration; the stabilised statement
    (`kkt_solution_contact_acceleration_baumgarte`) is therefore given for one constraint record.
  * loops: the exact statement is `φ̈ + accGap = Baumgarte term` (`kkt_solution_loop_acceleration_exact`,
    `accGap` = the discrepancy of the recorded findings D5a/b); in the class of
    `C09.loop_gamma_is_phidd`: `φ̈ = −2a φ̇ − b² φ` resp. `φ̈ = 0`.
  * the link `CalcKineticEnergy = ½ q̇ᵀ H q̇` for the CRBA matrix was missing in C03 / C12; it is proved
    here (`kinetic_energy_half_quadratic`, lemmas `L08PhysKE.lean`: virtual work of the RNEA backward
    pass + `H x = ID(x) − ID(0)`), together with positive semidefiniteness of `H`
    (`csv_H_positive_semidefinite`) and the energy statement of C10 on `calcKineticEnergy`
    (`impulse_kinetic_energy_nonincreasing`; the energy algebra is redone entrywise in core Lean,
    `L08PhysEnergy.lean`, because the `Lean.Grind.Field Rat` instance of core on which the example
    models live is not definitionally the one Mathlib derives, so `C10.impulse_energy_nonincreasing`
    cannot be instantiated on them).
  * the position-level content of `csvWS` does not depend on the velocity vector (`csvWS_static`);
    this identifies the entries of a contact row of `G` with unit-rate normal velocities
    (`contact_G_entry_unit_rate`) and lets pre- and post-impact states share `H`, `G`.
-/
set_option linter.unusedSectionVars false
namespace Rbdl.C08Phys
open Lean.Grind Rbdl Rbdl.L05 Rbdl.L09 Rbdl.L08Phys Rbdl.Spec

section
variable {α : Type} [Field α] [DecidableEq α]

/-! ### 0. the workspace in which `CalcConstrainedSystemVariables` evaluates the constraints -/

/-- **what C09 left open**: with `update_kinematics = true`, the workspace `csvWS` (after
    `UpdateKinematicsCustom (Q)`, `NonlinearEffects`, CRBA) satisfies the kinematic hypotheses
    `JacHyp` of C05 / C09, and after `UpdateKinematicsCustom (NULL, NULL, q̈)` the base body and every
    movable body carry the pose jet of the motion `(q, q̇, q̈)` (so the C06 / C09 jet statements apply
    to the quantities the routine computes) -/
theorem csv_workspace_kinematics (h2 : (2 : α) ≠ 0) (m : ModelS α) (w : WS α) (st : QS α)
    (qd qdd : VecN α) (fext : Option (Nat → SV α)) (h : WsHyp m w st) :
    JacHyp m (csvWS m w st qd true fext) qd ∧
    ∀ id, BodyOK m id →
      BodyJet (updateKinematicsCustom m (csvWS m w st qd true fext) none none (some qdd)) id
        (NodeKin.ofPose (bodyPoseJet m st qd qdd id)) :=
  ⟨csvWS_jacHyp m w st qd fext h, fun id hid => csvWS_bodyJet m w st qd qdd fext h2 h id hid⟩
example := csv_workspace_kinematics L09.Ex.two_ne L08Phys.Ex.m L08Phys.Ex.w0 L08Phys.Ex.st
  L08Phys.Ex.qd L08Phys.Ex.qddK none L08Phys.Ex.wsHyp

/-! ### 1. contact rows: zero normal acceleration -/

/-- **C08, contacts** (any `update_kinematics`, hypothesis `JacHyp` on `csvWS`): if `G q̈ = γ` holds
    on row `r` of a contact constraint, the code's own `CalcPointAcceleration` at `q̈` (workspace:
    `csvWS` after `UpdateKinematicsCustom (NULL, NULL, q̈)`) has no component along the normal `n_r` -/
theorem kkt_solution_contact_acceleration (ops : List (L09.Op α))
    (hn : ∀ c ∈ (run ops).cs, NoFixed c) (m : ModelS α) (w : WS α) (st : QS α) (qd : VecN α)
    (update : Bool) (fext : Option (Nat → SV α))
    (hJ : JacHyp m (csvWS m w st qd update fext) qd) (c : Constr α) (hc : c ∈ (run ops).cs)
    (hct : c.ctype = .contact) (hP : BodyOK m c.bodyP) (qdd : VecN α) (r : Nat) (hr : hasRow c r)
    (hK : rowDot (sysVars m w st qd (run ops) update fext).G m.qdotSize r qdd
      = (sysVars m w st qd (run ops) update fext).gamma r) :
    (axisAt c r).v.dot
        (calcPointAcceleration m
          (updateKinematicsCustom m (csvWS m w st qd update fext) none none (some qdd)) st qd qdd
          c.bodyP c.XP.r false).2 = 0 :=
  csv_contact_acc (run ops) (inv_foldl ops _ inv_empty) (contig_foldl ops _ inv_empty contig_empty)
    hn m w st qd update fext hJ c hc hct hP qdd r hr hK
example := kkt_solution_contact_acceleration L09.Ex.ops L09.Ex.ops_noFixed L08Phys.Ex.m
  L08Phys.Ex.w0 L08Phys.Ex.st L08Phys.Ex.qd true none
  (csvWS_jacHyp _ _ _ _ _ L08Phys.Ex.wsHyp) L09.Ex.cC L09.Ex.cC_mem L09.Ex.cC_contact
  L08Phys.Ex.cC_P L08Phys.Ex.qddK 1 (by decide +kernel) (L08Phys.Ex.qddK_rows 1 (by decide))

/-- **C08, contacts, along the motion** (`update_kinematics = true`, `WsHyp`): with
    `φ_r(t) = n_r · (p(t) + R(t) x)` the constraint function of `Spec.constrPhi` on the pose jet of
    the body along `(q, q̇, q̈)`: the reported position error is 0, the reported velocity error is
    `φ̇_r`, and `G q̈ = γ` on row `r` gives `φ̈_r = 0` — which is the value of the code's
    `CalcPointAcceleration` along the normal -/
theorem kkt_solution_contact_acceleration_jet (h2 : (2 : α) ≠ 0) (ops : List (L09.Op α))
    (hn : ∀ c ∈ (run ops).cs, NoFixed c) (m : ModelS α) (w : WS α) (st : QS α) (qd : VecN α)
    (fext : Option (Nat → SV α)) (h : WsHyp m w st) (c : Constr α) (hc : c ∈ (run ops).cs)
    (hct : c.ctype = .contact) (hP : BodyOK m c.bodyP) (qdd : VecN α) (r : Nat) (hr : hasRow c r) :
    (sysVars m w st qd (run ops) true fext).err r = 0 ∧
    (sysVars m w st qd (run ops) true fext).errd r
      = (contactPhi (bodyPoseJet m st qd qdd c.bodyP) c.XP.r (axisAt c r).v).d1 ∧
    (axisAt c r).v.dot
        (calcPointAcceleration m
          (updateKinematicsCustom m (csvWS m w st qd true fext) none none (some qdd)) st qd qdd
          c.bodyP c.XP.r false).2
      = (contactPhi (bodyPoseJet m st qd qdd c.bodyP) c.XP.r (axisAt c r).v).d2 ∧
    (rowDot (sysVars m w st qd (run ops) true fext).G m.qdotSize r qdd
        = (sysVars m w st qd (run ops) true fext).gamma r →
      (contactPhi (bodyPoseJet m st qd qdd c.bodyP) c.XP.r (axisAt c r).v).d2 = 0) := by
  obtain ⟨e1, e2, e3⟩ := csv_contact_phi h2 (run ops) (inv_foldl ops _ inv_empty)
    (contig_foldl ops _ inv_empty contig_empty) hn m w st qd fext h c hc hct hP qdd r hr
  refine ⟨e1, e2, ?_, e3⟩
  rw [(csvWS_point_jet h2 m w st qd qdd fext h c.bodyP hP c.XP.r).1, contactPhi_d2]
example := kkt_solution_contact_acceleration_jet L09.Ex.two_ne L09.Ex.ops L09.Ex.ops_noFixed
  L08Phys.Ex.m L08Phys.Ex.w0 L08Phys.Ex.st L08Phys.Ex.qd none L08Phys.Ex.wsHyp L09.Ex.cC
  L09.Ex.cC_mem L09.Ex.cC_contact L08Phys.Ex.cC_P L08Phys.Ex.qddK 0 (by decide +kernel)
/-- the hypothesis of the last component on the example: `qddK` satisfies row 0 -/
example : rowDot (sysVars L08Phys.Ex.m L08Phys.Ex.w0 L08Phys.Ex.st L08Phys.Ex.qd
      (run L09.Ex.ops) true none).G L08Phys.Ex.m.qdotSize 0 L08Phys.Ex.qddK
    = (sysVars L08Phys.Ex.m L08Phys.Ex.w0 L08Phys.Ex.st L08Phys.Ex.qd (run L09.Ex.ops) true
        none).gamma 0 := L08Phys.Ex.qddK_rows 0 (by decide)

/-! ### 2. contact rows with Baumgarte stabilisation -/

/-- contact constraints built by `AddContactConstraint` are never stabilised: in every set built by
    additions, `baumgarte = false` for the contact constraints -/
theorem contact_constraints_not_stabilised (ops : List (L09.Op α)) :
    ∀ c ∈ (run ops).cs, c.ctype = .contact → c.baumgarte = false :=
  fun c hc hct => (((inv_foldl ops _ inv_empty).shape c hc).contactE hct).2.2
example := contact_constraints_not_stabilised L09.Ex.ops

/-- **C08, contacts, stabilised** (one constraint record `c` of contact type with its flags and
    parameters `(a, b)`, on a workspace `W` with `JacHyp`; rows as `CalcConstrainedSystemVariables`
    assembles them: `calcConstraintJacobian`, `calcGamma` after `UpdateKinematicsCustom (NULL, NULL, 0)`,
    `addBaumgarte` of the reported errors): the reported position error is 0, the reported velocity
    error is the normal velocity `n_r · v_P`, and if `G q̈ = γ` holds on row `r` then
    `n_r · a_P(q̈) = −2 a (n_r · v_P)` with stabilisation, `= 0` without -/
theorem kkt_solution_contact_acceleration_baumgarte (c : Constr α) (hc : c.ctype = .contact)
    (hvl : c.velC.length = c.T.length) (hva : ∀ b ∈ c.velC, b = true)
    (hpl : c.posC.length = c.T.length) (hpa : ∀ b ∈ c.posC, b = false)
    (m : ModelS α) (W : WS α) (st : QS α) (qd qdd : VecN α) (hJ : JacHyp m W qd)
    (hP : BodyOK m c.bodyP) (G0 G1 : MatN α) (err0 errd0 gam0 : VecN α) (r : Nat)
    (hr : hasRow c r)
    (hK : rowDot (c.jacobian m W st G0 false).2 m.qdotSize r qdd
      = c.addBaumgarte (c.positionError m W st err0 false).2
          (c.velocityError m W st qd G1 errd0 false).2
          (c.gamma m (updateKinematicsCustom m W none none (some zeroVec)) st qd gam0).2 r) :
    (c.positionError m W st err0 false).2 r = 0 ∧
    (c.velocityError m W st qd G1 errd0 false).2 r
      = (axisAt c r).v.dot (calcPointVelocity m W st qd c.bodyP c.XP.r false).2 ∧
    (axisAt c r).v.dot
        (calcPointAcceleration m (updateKinematicsCustom m W none none (some qdd)) st qd qdd
          c.bodyP c.XP.r false).2
      = if c.baumgarte = true then
          -(2 * c.bgA * (axisAt c r).v.dot (calcPointVelocity m W st qd c.bodyP c.XP.r false).2)
        else 0 := by
  obtain ⟨e1, e2⟩ := contact_errors c hc hvl hva hpl hpa m W st qd G1 err0 errd0 r hr
  refine ⟨e2, e1, ?_⟩
  rw [← contact_bgTerm c hc hvl hva hpl hpa m W st qd G1 err0 errd0 r hr]
  refine contact_acc_of_kkt_row c hc m W st qd qdd hJ hP r hr _ _ _ _
    (fun col hcol => ?_) ?_ hK
  · rw [contact_jacobian_get c hc, contact_jacobian_get c hc m W st zeroMat, if_pos ⟨hr, hcol⟩,
      if_pos ⟨hr, hcol⟩]
  · rw [addBaumgarte_bgTerm c _ _ _ r hr, contact_gamma_get c hc, contact_gamma_get c hc,
      if_pos hr, if_pos hr]
example := kkt_solution_contact_acceleration_baumgarte L08Phys.Ex.cCb L08Phys.Ex.cCb_contact
  L08Phys.Ex.cCb_flags.1 L08Phys.Ex.cCb_flags.2.1 L08Phys.Ex.cCb_flags.2.2.1
  L08Phys.Ex.cCb_flags.2.2.2 C04.Ex.m L09.Ex.w2 L09.Ex.st L09.Ex.qd L08Phys.Ex.qddB
  L05.Ex.w2_jacHyp L08Phys.Ex.cCb_P zeroMat zeroMat (fun _ => 0) (fun _ => 0) (fun _ => 0) 0
  (by decide +kernel) L08Phys.Ex.qddB_row
/-- the stabilised record of the example: `baumgarte = true`, `a = 3` -/
example : L08Phys.Ex.cCb.baumgarte = true ∧ L08Phys.Ex.cCb.bgA = 3 := ⟨rfl, rfl⟩

/-! ### 3. loop rows: the relative acceleration of the loop frames -/

/-- **C08, loops, exact** (`update_kinematics = true`, `WsHyp`; rotational part: purely
    translational axis or aligned frames).  `φ_r = loopPhi (A, B, T_r)` is the constraint function of
    `Spec.constrPhi` on the placements of the two loop frames along the motion `(q, q̇, q̈)`:
    the reported position error is `φ_r`, the reported velocity error is `φ̇_r + velGap`, and if
    `G q̈ = γ` holds on row `r` then `φ̈_r + accGap = −2 a errd_r − b² err_r` (`= 0` without
    stabilisation); `velGap`, `accGap` are the discrepancies of C09 (findings D5a/b) -/
theorem kkt_solution_loop_acceleration_exact (h2 : (2 : α) ≠ 0) (ops : List (L09.Op α))
    (hn : ∀ c ∈ (run ops).cs, NoFixed c) (m : ModelS α) (w : WS α) (st : QS α) (qd : VecN α)
    (fext : Option (Nat → SV α)) (h : WsHyp m w st) (c : Constr α) (hc : c ∈ (run ops).cs)
    (hct : c.ctype = .loop) (hP : BodyOK m c.bodyP) (hS : BodyOK m c.bodyS) (qdd : VecN α)
    (r : Nat) (hr : hasRow c r)
    (hrot : (axisAt c r).w = V3.zero ∨
      ((frameOf (csvWS m w st qd true fext) c.bodyS c.XS).E
          = (frameOf (csvWS m w st qd true fext) c.bodyP c.XP).E ∧
        (frameOf (csvWS m w st qd true fext) c.bodyP c.XP).E.IsRot)) :
    (sysVars m w st qd (run ops) true fext).err r
      = (loopPhi (framePlacement (bodyPoseJet m st qd qdd c.bodyP) c.XP)
          (framePlacement (bodyPoseJet m st qd qdd c.bodyS) c.XS) (axisAt c r)).x ∧
    (sysVars m w st qd (run ops) true fext).errd r
      = (loopPhi (framePlacement (bodyPoseJet m st qd qdd c.bodyP) c.XP)
          (framePlacement (bodyPoseJet m st qd qdd c.bodyS) c.XS) (axisAt c r)).d1
        + velGap (NodeKin.ofPose (framePlacement (bodyPoseJet m st qd qdd c.bodyP) c.XP))
            (NodeKin.ofPose (framePlacement (bodyPoseJet m st qd qdd c.bodyS) c.XS))
            (NodeKin.ofPose (bodyPoseJet m st qd qdd c.bodyP)).omega
            (NodeKin.ofPose (bodyPoseJet m st qd qdd c.bodyS)).omega (axisAt c r) ∧
    (rowDot (sysVars m w st qd (run ops) true fext).G m.qdotSize r qdd
        = (sysVars m w st qd (run ops) true fext).gamma r →
      (loopPhi (framePlacement (bodyPoseJet m st qd qdd c.bodyP) c.XP)
          (framePlacement (bodyPoseJet m st qd qdd c.bodyS) c.XS) (axisAt c r)).d2
        + accGap (NodeKin.ofPose (framePlacement (bodyPoseJet m st qd qdd c.bodyP) c.XP))
            (NodeKin.ofPose (framePlacement (bodyPoseJet m st qd qdd c.bodyS) c.XS))
            (NodeKin.ofPose (bodyPoseJet m st qd qdd c.bodyP)).omega (axisAt c r)
        = if c.baumgarte = true then
            -(2 * c.bgA * (sysVars m w st qd (run ops) true fext).errd r)
              - c.bgB * c.bgB * (sysVars m w st qd (run ops) true fext).err r
          else 0) :=
  csv_loop_exact h2 (run ops) (inv_foldl ops _ inv_empty)
    (contig_foldl ops _ inv_empty contig_empty) hn m w st qd fext h c hc hct hP hS qdd r hr hrot
/-- row 4 of the example: a translational axis between bodies 2 and 3 (outside the clean class) -/
example := kkt_solution_loop_acceleration_exact L09.Ex.two_ne L09.Ex.ops L09.Ex.ops_noFixed
  L08Phys.Ex.m L08Phys.Ex.w0 L08Phys.Ex.st L08Phys.Ex.qd none L08Phys.Ex.wsHyp L09.Ex.cM
  L09.Ex.cM_mem L09.Ex.cM_loop L08Phys.Ex.cM_P L08Phys.Ex.cM_S L08Phys.Ex.qddK 4
  (by decide +kernel) (Or.inl (by decide +kernel))
example : rowDot (sysVars L08Phys.Ex.m L08Phys.Ex.w0 L08Phys.Ex.st L08Phys.Ex.qd
      (run L09.Ex.ops) true none).G L08Phys.Ex.m.qdotSize 4 L08Phys.Ex.qddK
    = (sysVars L08Phys.Ex.m L08Phys.Ex.w0 L08Phys.Ex.st L08Phys.Ex.qd (run L09.Ex.ops) true
        none).gamma 4 := L08Phys.Ex.qddK_rows 4 (by decide)

/-- **C08, loops, the clean class** (the side conditions of `C09.loop_consistency` /
    `C09.loop_gamma_is_phidd`, read off the workspace `W = csvWS`, the predecessor's angular
    acceleration off `W` after `UpdateKinematicsCustom (NULL, NULL, q̈)`):
    * `T_r.w = 0`, or the two frames are aligned (a rotation);
    * `A.r × T_r.w = 0`;
    * `T_r.w = 0`, or the predecessor frame origin is at rest, or both origins move alike;
    * `T_r.v = 0`, or the predecessor has neither angular velocity nor angular acceleration, or the
      frame origins coincide and move alike.
    Then the reported errors are `φ_r`, `φ̇_r`, and `G q̈ = γ` on row `r` means: the second time
    derivative of the reported position error along the motion is the stabilised one,
    `φ̈_r = −2 a φ̇_r − b² φ_r`, resp. `φ̈_r = 0` without stabilisation -/
theorem kkt_solution_loop_acceleration (h2 : (2 : α) ≠ 0) (ops : List (L09.Op α))
    (hn : ∀ c ∈ (run ops).cs, NoFixed c) (m : ModelS α) (w : WS α) (st : QS α) (qd : VecN α)
    (fext : Option (Nat → SV α)) (h : WsHyp m w st) (c : Constr α) (hc : c ∈ (run ops).cs)
    (hct : c.ctype = .loop) (hP : BodyOK m c.bodyP) (hS : BodyOK m c.bodyS) (qdd : VecN α)
    (r : Nat) (hr : hasRow c r)
    (hrot : (axisAt c r).w = V3.zero ∨
      ((frameOf (csvWS m w st qd true fext) c.bodyS c.XS).E
          = (frameOf (csvWS m w st qd true fext) c.bodyP c.XP).E ∧
        (frameOf (csvWS m w st qd true fext) c.bodyP c.XP).E.IsRot))
    (ha : (frameOf (csvWS m w st qd true fext) c.bodyP c.XP).r.cross (axisAt c r).w = V3.zero)
    (hv : (axisAt c r).w = V3.zero ∨
      (vel6 (csvWS m w st qd true fext) c.bodyP c.XP.r).v = V3.zero ∨
      (vel6 (csvWS m w st qd true fext) c.bodyS c.XS.r).v
        = (vel6 (csvWS m w st qd true fext) c.bodyP c.XP.r).v)
    (hb : (axisAt c r).v = V3.zero ∨
      ((vel6 (csvWS m w st qd true fext) c.bodyP c.XP.r).w = V3.zero ∧
        (acc6 (updateKinematicsCustom m (csvWS m w st qd true fext) none none (some qdd))
          c.bodyP c.XP.r).w = V3.zero) ∨
      ((frameOf (csvWS m w st qd true fext) c.bodyS c.XS).r
          = (frameOf (csvWS m w st qd true fext) c.bodyP c.XP).r ∧
        (vel6 (csvWS m w st qd true fext) c.bodyS c.XS.r).v
          = (vel6 (csvWS m w st qd true fext) c.bodyP c.XP.r).v)) :
    (sysVars m w st qd (run ops) true fext).err r
      = (loopPhi (framePlacement (bodyPoseJet m st qd qdd c.bodyP) c.XP)
          (framePlacement (bodyPoseJet m st qd qdd c.bodyS) c.XS) (axisAt c r)).x ∧
    (sysVars m w st qd (run ops) true fext).errd r
      = (loopPhi (framePlacement (bodyPoseJet m st qd qdd c.bodyP) c.XP)
          (framePlacement (bodyPoseJet m st qd qdd c.bodyS) c.XS) (axisAt c r)).d1 ∧
    (rowDot (sysVars m w st qd (run ops) true fext).G m.qdotSize r qdd
        = (sysVars m w st qd (run ops) true fext).gamma r →
      (loopPhi (framePlacement (bodyPoseJet m st qd qdd c.bodyP) c.XP)
          (framePlacement (bodyPoseJet m st qd qdd c.bodyS) c.XS) (axisAt c r)).d2
        = if c.baumgarte = true then
            -(2 * c.bgA * (loopPhi (framePlacement (bodyPoseJet m st qd qdd c.bodyP) c.XP)
                (framePlacement (bodyPoseJet m st qd qdd c.bodyS) c.XS) (axisAt c r)).d1)
              - c.bgB * c.bgB * (loopPhi (framePlacement (bodyPoseJet m st qd qdd c.bodyP) c.XP)
                (framePlacement (bodyPoseJet m st qd qdd c.bodyS) c.XS) (axisAt c r)).x
          else 0) := by
  obtain ⟨e1, e2, e3⟩ := csv_loop_clean h2 (run ops) (inv_foldl ops _ inv_empty)
    (contig_foldl ops _ inv_empty contig_empty) hn m w st qd fext h c hc hct hP hS qdd r hr hrot ha
    hv hb
  refine ⟨e1, e2, fun hK => ?_⟩
  rw [e3 hK, ← e1, ← e2]
  rfl
/-- row 2 of the example: the rotation about z locked between the base (frame at the base origin,
    aligned with the successor frame) and body 1, stabilised (`a = b = 10`); `qddK` satisfies the
    row -/
example := kkt_solution_loop_acceleration L09.Ex.two_ne L09.Ex.ops L09.Ex.ops_noFixed
  L08Phys.Ex.m L08Phys.Ex.w0 L08Phys.Ex.st L08Phys.Ex.qd none L08Phys.Ex.wsHyp L09.Ex.cL
  L09.Ex.cL_mem L09.Ex.cL_loop L08Phys.Ex.cL_P L08Phys.Ex.cL_S L08Phys.Ex.qddK 2
  (by decide +kernel) (Or.inr ⟨by decide +kernel, by constructor <;> decide +kernel⟩)
  (by decide +kernel) (Or.inr (Or.inl (by decide +kernel))) (Or.inl (by decide +kernel))
example : rowDot (sysVars L08Phys.Ex.m L08Phys.Ex.w0 L08Phys.Ex.st L08Phys.Ex.qd
      (run L09.Ex.ops) true none).G L08Phys.Ex.m.qdotSize 2 L08Phys.Ex.qddK
    = (sysVars L08Phys.Ex.m L08Phys.Ex.w0 L08Phys.Ex.st L08Phys.Ex.qd (run L09.Ex.ops) true
        none).gamma 2 ∧ L09.Ex.cL.baumgarte = true :=
  ⟨L08Phys.Ex.qddK_rows 2 (by decide), by decide +kernel⟩

/-! ### 4. the equation of motion and the constraint force -/

/-- **`H`, `C` of `CalcConstrainedSystemVariables` are those of `InverseDynamics`** (C03 + C01 on
    the routine's own outputs): for every acceleration vector `x` and every component `r`,
    `InverseDynamics (q, q̇, x, f_ext)_r = Σ_c H r c · x c + C r`, inverse dynamics being started (zero
    `Tau`) from the workspace after the position update -/
theorem csv_H_C_decomposition (m : ModelS α) (w : WS α) (st : QS α) (qd : VecN α) (C : CSet α)
    (update : Bool) (fext : Option (Nat → SV α)) (h : DynHyp m (updQ m w st update) st qd fext)
    (x : VecN α) (r : Nat) :
    (inverseDynamics m (updQ m w st update) st qd (fun k => if k < m.qdotSize then x k else 0)
        (fun _ => 0) fext).2 r
      = sumTo m.qdotSize (fun c => (sysVars m w st qd C update fext).H r c * x c)
        + (sysVars m w st qd C update fext).C r :=
  csv_H_C m w st qd C update fext h x r
example (x : VecN Rat) (r : Nat) := csv_H_C_decomposition L08Phys.Ex.mD L08Phys.Ex.wD
  L08Phys.Ex.stD L08Phys.Ex.qdD (run L09.Ex.ops) true (some L08Phys.Ex.feD)
  (L08Phys.Ex.dynHyp _) x r

/-- **C08 / C11, equation of motion**: if `(q̈, τ, λ)` satisfy `H q̈ + C = τ + Gᵀ λ` (entries below
    `qdotSize`, with the routine's `H`, `C`, `G`), then the code's `InverseDynamics` maps the returned
    accelerations to the applied force plus the constraint force: `ID(q, q̇, q̈, f_ext) = τ + Gᵀ λ` -/
theorem kkt_solution_equation_of_motion (m : ModelS α) (w : WS α) (st : QS α) (qd : VecN α)
    (C : CSet α) (update : Bool) (fext : Option (Nat → SV α))
    (h : DynHyp m (updQ m w st update) st qd fext) (qdd tau lam : VecN α)
    (hE : ∀ r, r < m.qdotSize →
      sumTo m.qdotSize (fun c => (sysVars m w st qd C update fext).H r c * qdd c)
          + (sysVars m w st qd C update fext).C r
        = tau r + colDot (sysVars m w st qd C update fext).G C.size r lam) :
    ∀ r, r < m.qdotSize →
      (inverseDynamics m (updQ m w st update) st qd (fun k => if k < m.qdotSize then qdd k else 0)
          (fun _ => 0) fext).2 r
        = tau r + colDot (sysVars m w st qd C update fext).G C.size r lam :=
  fun r hr => by rw [csv_H_C m w st qd C update fext h qdd r, hE r hr]
/-- any `(q̈, λ)` with `τ := H q̈ + C − Gᵀ λ` satisfies the hypothesis -/
example (qdd lam : VecN Rat) :=
  kkt_solution_equation_of_motion L08Phys.Ex.mD L08Phys.Ex.wD L08Phys.Ex.stD L08Phys.Ex.qdD
    (run L09.Ex.ops) true (some L08Phys.Ex.feD) (L08Phys.Ex.dynHyp _) qdd
    (fun r => sumTo L08Phys.Ex.mD.qdotSize (fun c =>
        (sysVars L08Phys.Ex.mD L08Phys.Ex.wD L08Phys.Ex.stD L08Phys.Ex.qdD (run L09.Ex.ops) true
          (some L08Phys.Ex.feD)).H r c * qdd c)
      + (sysVars L08Phys.Ex.mD L08Phys.Ex.wD L08Phys.Ex.stD L08Phys.Ex.qdD (run L09.Ex.ops) true
          (some L08Phys.Ex.feD)).C r
      - colDot (sysVars L08Phys.Ex.mD L08Phys.Ex.wD L08Phys.Ex.stD L08Phys.Ex.qdD (run L09.Ex.ops)
          true (some L08Phys.Ex.feD)).G (run L09.Ex.ops).size r lam)
    lam (fun r _ => by grind)

/-- **the constraint force of a contact row is `λ_r n_r` applied at the contact point.**
    (a) entry `(r, j)` of `G` is `n_r ·` column `j` of the point Jacobian `J_P` of the contact point
    (in `csvWS`), so the contribution of the row to `Gᵀ λ` is `J_Pᵀ (λ_r n_r)`;
    (b) virtual power: for every velocity vector `x` and every workspace `Wx` that holds the positions
    of `csvWS` (`X_base`, motion subspaces) and the velocities of `x` (`JacHyp m Wx x`), the row times
    `x` is `n_r ·` the velocity `CalcPointVelocity` assigns to the contact point, hence
    `λ_r (G x)_r = (λ_r n_r) · v_P(x)` -/
theorem contact_constraint_force (ops : List (L09.Op α)) (hn : ∀ c ∈ (run ops).cs, NoFixed c)
    (m : ModelS α) (w : WS α) (st : QS α) (qd : VecN α) (update : Bool)
    (fext : Option (Nat → SV α)) (c : Constr α) (hc : c ∈ (run ops).cs)
    (hct : c.ctype = .contact) (r : Nat) (hr : hasRow c r) :
    (∀ j, j < m.qdotSize →
      (sysVars m w st qd (run ops) update fext).G r j
        = (axisAt c r).v.dot
            ⟨(calcPointJacobian m (csvWS m w st qd update fext) st c.bodyP c.XP.r zeroMat false).2 0 j,
             (calcPointJacobian m (csvWS m w st qd update fext) st c.bodyP c.XP.r zeroMat false).2 1 j,
             (calcPointJacobian m (csvWS m w st qd update fext) st c.bodyP c.XP.r zeroMat false).2 2 j⟩) ∧
    (∀ (x : VecN α) (Wx : WS α), Wx.X_base = (csvWS m w st qd update fext).X_base →
      Wx.Scols m = (csvWS m w st qd update fext).Scols m → JacHyp m Wx x → BodyOK m c.bodyP →
      ∀ lam : VecN α,
        lam r * rowDot (sysVars m w st qd (run ops) update fext).G m.qdotSize r x
          = (lam r * (axisAt c r).v).dot (calcPointVelocity m Wx st x c.bodyP c.XP.r false).2) := by
  obtain ⟨e1, _, _, _⟩ := csv_rows (run ops) (inv_foldl ops _ inv_empty)
    (contig_foldl ops _ inv_empty contig_empty) hn m w st qd update fext c hc r hr
  refine ⟨fun j hj => ?_, fun x Wx hX hS hJ hP lam => ?_⟩
  · rw [e1 j hj]; exact contact_G_entry c hct m _ st zeroMat r j hr hj
  · rw [rowDot_congr _ _ _ _ _ e1, contact_row_virtual c hct m _ Wx st x zeroMat hX hS hJ hP r hr]
    simp only [alg]; grind
/-- on the example, with `Wx = csvWS` itself and `x = q̇` -/
example := (contact_constraint_force L09.Ex.ops L09.Ex.ops_noFixed L08Phys.Ex.m L08Phys.Ex.w0
  L08Phys.Ex.st L08Phys.Ex.qd true none L09.Ex.cC L09.Ex.cC_mem L09.Ex.cC_contact 1
  (by decide +kernel)).2 L08Phys.Ex.qd _ rfl rfl (csvWS_jacHyp _ _ _ _ _ L08Phys.Ex.wsHyp)
  L08Phys.Ex.cC_P

/-- **the entries of a contact row are unit-rate normal velocities** (`update_kinematics = true`,
    `WsHyp`): entry `(r, k)` of `G` is `n_r ·` the velocity `CalcPointVelocity` assigns to the contact
    point when only coordinate `k` moves, at unit rate (workspace: the routine's own `csvWS` for the
    velocity vector `e_k`; the positions in it do not depend on the velocities, `csvWS_static`).
    Hence `(Gᵀ λ)_k = Σ_r λ_r n_r · ∂v_P/∂q̇_k`: the constraint force is `λ_r n_r` applied at the point -/
theorem contact_G_entry_unit_rate (ops : List (L09.Op α)) (hn : ∀ c ∈ (run ops).cs, NoFixed c)
    (m : ModelS α) (w : WS α) (st : QS α) (qd : VecN α) (fext : Option (Nat → SV α))
    (h : WsHyp m w st) (c : Constr α) (hc : c ∈ (run ops).cs) (hct : c.ctype = .contact)
    (hP : BodyOK m c.bodyP) (r : Nat) (hr : hasRow c r) (k : Nat) (hk : k < m.qdotSize) :
    (sysVars m w st qd (run ops) true fext).G r k
      = (axisAt c r).v.dot
          (calcPointVelocity m (csvWS m w st (L03.unitVec k) true fext) st (L03.unitVec k)
            c.bodyP c.XP.r false).2 := by
  obtain ⟨e1, _, _, _⟩ := csv_rows (run ops) (inv_foldl ops _ inv_empty)
    (contig_foldl ops _ inv_empty contig_empty) hn m w st qd true fext c hc r hr
  obtain ⟨_, sS, sB⟩ := csvWS_static m w st (L03.unitVec k) qd fext h
  rw [← rowDot_unit (sysVars m w st qd (run ops) true fext).G m.qdotSize r k hk,
    rowDot_congr _ _ _ _ _ e1,
    contact_row_virtual c hct m _ (csvWS m w st (L03.unitVec k) true fext) st (L03.unitVec k)
      zeroMat sB sS (csvWS_jacHyp m w st _ fext h) hP r hr]
example := contact_G_entry_unit_rate L09.Ex.ops L09.Ex.ops_noFixed L08Phys.Ex.m L08Phys.Ex.w0
  L08Phys.Ex.st L08Phys.Ex.qd none L08Phys.Ex.wsHyp L09.Ex.cC L09.Ex.cC_mem L09.Ex.cC_contact
  L08Phys.Ex.cC_P 1 (by decide +kernel) 3 (by decide)

/-! ### 5. impulses: the prescribed normal velocity of the contact points -/

/-- **C10, contacts**: let `G = CalcConstraintsJacobian (…, update = false)` be computed in a workspace
    `W` (the impulse routines: after `UpdateKinematicsCustom (Q)` and CRBA; the velocities in `W` do
    not enter), and let `Wp` hold the same positions and the post-impact velocities `q̇⁺`
    (`JacHyp m Wp q̇⁺`, e.g. after `UpdateKinematicsCustom (Q, q̇⁺)`).  If `G q̇⁺ = v⁺` holds on row `r` of
    a contact constraint, the code's `CalcPointVelocity` of the contact point at `q̇⁺` has the
    prescribed component `v⁺_r` along the normal -/
theorem impulse_contact_velocity (ops : List (L09.Op α)) (hn : ∀ c ∈ (run ops).cs, NoFixed c)
    (m : ModelS α) (W Wp : WS α) (st : QS α) (qdp vplus : VecN α) (G0 : MatN α)
    (hX : Wp.X_base = W.X_base) (hS : Wp.Scols m = W.Scols m) (hJ : JacHyp m Wp qdp)
    (c : Constr α) (hc : c ∈ (run ops).cs) (hct : c.ctype = .contact) (hP : BodyOK m c.bodyP)
    (r : Nat) (hr : hasRow c r)
    (hK : rowDot (calcConstraintsJacobian m W st (run ops) G0 false).2 m.qdotSize r qdp = vplus r) :
    (axisAt c r).v.dot (calcPointVelocity m Wp st qdp c.bodyP c.XP.r false).2 = vplus r := by
  obtain ⟨_, j2, _⟩ := constraintsJacobian_rows (run ops) (inv_foldl ops _ inv_empty)
    (contig_foldl ops _ inv_empty contig_empty) hn m W st G0
  rw [← hK, rowDot_congr _ _ _ _ _ (j2 c hc r hr),
    contact_row_virtual c hct m W Wp st qdp zeroMat hX hS hJ hP r hr]
/-- on the example: `W = Wp =` the workspace after `UpdateKinematics (Q, q̇, q̈)`, `q̇⁺ = q̇`, and `v⁺`
    the value the row takes -/
example := impulse_contact_velocity L09.Ex.ops L09.Ex.ops_noFixed L09.Ex.m L09.Ex.w2 L09.Ex.w2
  L09.Ex.st L09.Ex.qd
  (fun r => rowDot (calcConstraintsJacobian L09.Ex.m L09.Ex.w2 L09.Ex.st (run L09.Ex.ops) zeroMat
    false).2 L09.Ex.m.qdotSize r L09.Ex.qd) zeroMat rfl rfl L05.Ex.w2_jacHyp L09.Ex.cC L09.Ex.cC_mem
  L09.Ex.cC_contact L09.Ex.cC_P 0 (by decide +kernel) rfl

/-- **C10, contacts, on the routine's own workspaces** (`update_kinematics = true`, `WsHyp`): with
    `G` as `CalcConstrainedSystemVariables` returns it for the pre-impact velocity `q̇⁻` (it depends
    on `q` only), if `G q̇⁺ = v⁺` holds on row `r` of a contact constraint then, in the workspace the
    routine builds for `q̇⁺`, the contact point has the prescribed normal velocity -/
theorem impulse_contact_velocity_csv (ops : List (L09.Op α)) (hn : ∀ c ∈ (run ops).cs, NoFixed c)
    (m : ModelS α) (w : WS α) (st : QS α) (qdm qdp vplus : VecN α) (fext : Option (Nat → SV α))
    (h : WsHyp m w st) (c : Constr α) (hc : c ∈ (run ops).cs) (hct : c.ctype = .contact)
    (hP : BodyOK m c.bodyP) (r : Nat) (hr : hasRow c r)
    (hK : rowDot (sysVars m w st qdm (run ops) true fext).G m.qdotSize r qdp = vplus r) :
    (axisAt c r).v.dot
        (calcPointVelocity m (csvWS m w st qdp true fext) st qdp c.bodyP c.XP.r false).2
      = vplus r := by
  obtain ⟨e1, _, _, _⟩ := csv_rows (run ops) (inv_foldl ops _ inv_empty)
    (contig_foldl ops _ inv_empty contig_empty) hn m w st qdm true fext c hc r hr
  obtain ⟨_, sS, sB⟩ := csvWS_static m w st qdp qdm fext h
  rw [← hK, rowDot_congr _ _ _ _ _ e1,
    contact_row_virtual c hct m _ (csvWS m w st qdp true fext) st qdp zeroMat sB sS
      (csvWS_jacHyp m w st _ fext h) hP r hr]
/-- pre-impact velocity `q̇`, post-impact candidate `qddK` (used as a velocity vector), `v⁺` the value
    of the row -/
example := impulse_contact_velocity_csv L09.Ex.ops L09.Ex.ops_noFixed L08Phys.Ex.m L08Phys.Ex.w0
  L08Phys.Ex.st L08Phys.Ex.qd L08Phys.Ex.qddK
  (fun r => rowDot (sysVars L08Phys.Ex.m L08Phys.Ex.w0 L08Phys.Ex.st L08Phys.Ex.qd (run L09.Ex.ops)
    true none).G L08Phys.Ex.m.qdotSize r L08Phys.Ex.qddK) none L08Phys.Ex.wsHyp L09.Ex.cC
  L09.Ex.cC_mem L09.Ex.cC_contact L08Phys.Ex.cC_P 0 (by decide +kernel) rfl

/-- **C12 / C03: `CalcKineticEnergy = ½ xᵀ H x` for the `H` of `CalcConstrainedSystemVariables`**
    (the link that C10's energy statement needs).  `H` is the matrix the routine returns for the
    velocity vector `q̇`; `x` is any velocity vector, the kinetic energy is evaluated
    (`update_kinematics = false`) in the workspace the routine builds for `x`.  `CoordLayout`: the
    coordinate blocks of the joints tile `[0, qdotSize)` in body order.  Proof: `H x = ID(x) − ID(0)`
    (C03), virtual work of the backward pass, `Δf_i = I_i Δa_i` for the two forward passes -/
theorem kinetic_energy_half_quadratic (m : ModelS α) (w : WS α) (st : QS α) (qd : VecN α)
    (C : CSet α) (fext : Option (Nat → SV α)) (hW : WsHyp m w st)
    (hD : DynHyp m (updQ m w st true) st qd fext)
    (hlay : CoordLayout (fun i => (m.joint i).qIndex)
      (L03.nS (csvWS m w st qd true fext) m) (m.nBodies - 1) m.qdotSize)
    (x : VecN α) :
    (calcKineticEnergy m (csvWS m w st x true fext) st x false).2
      = sumTo m.qdotSize (fun r => x r *
          sumTo m.qdotSize (fun c => (sysVars m w st qd C true fext).H r c * x c)) / 2 := by
  obtain ⟨sX, sS, _⟩ := csvWS_static m w st x qd fext hW
  exact csv_kinetic_energy m w st qd C true fext hD hlay x _ (csvWS_jacHyp m w st x fext hW).kin
    (fun i _ _ => congrFun sX i) (fun i _ _ => congrFun sS i)
example (x : VecN Rat) := kinetic_energy_half_quadratic L08Phys.Ex.mD L08Phys.Ex.wD L08Phys.Ex.stD
  L08Phys.Ex.qdD (run L08Phys.Ex.opsD) (some L08Phys.Ex.feD) L08Phys.Ex.wsHypD
  (L08Phys.Ex.dynHyp _) (L08Phys.Ex.layD _) x

/-! ### 6. constrained inverse dynamics: the same readings for any output `(q̈, τ, λ)` -/

/-- **C11**: let `(q̈, τ, λ)` be any output with `G q̈ = γ` (on the rows of all constraints), `τ` zero on
    the unactuated degrees of freedom (`act i = false`), and `H q̈ + C = τ + Gᵀ λ` — the relations
    C11 `idc_exact_sound` / `idc_code_sound` derive for the operator (`P τ = 0` is
    `selP_mulVec_eq_zero_iff` of the bridge).  Then, on the routine's own quantities
    (`update_kinematics = true`):
    * every contact point has zero acceleration along each of its normals (`φ̈ = 0`);
    * every loop row satisfies `φ̈ + accGap = Baumgarte term` (sections 3);
    * `InverseDynamics (q, q̇, q̈, f_ext) = τ + Gᵀ λ`, and on the unactuated degrees of freedom the
      inverse-dynamics force is supplied by the constraint forces alone: `ID_i = (Gᵀ λ)_i` -/
theorem idc_solution_physical (h2 : (2 : α) ≠ 0) (ops : List (L09.Op α))
    (hn : ∀ c ∈ (run ops).cs, NoFixed c) (m : ModelS α) (w : WS α) (st : QS α) (qd : VecN α)
    (fext : Option (Nat → SV α)) (hW : WsHyp m w st)
    (hD : DynHyp m (updQ m w st true) st qd fext) (act : Nat → Bool) (qdd tau lam : VecN α)
    (hG : ∀ c ∈ (run ops).cs, ∀ r, hasRow c r →
      rowDot (sysVars m w st qd (run ops) true fext).G m.qdotSize r qdd
        = (sysVars m w st qd (run ops) true fext).gamma r)
    (hT : ∀ i, i < m.qdotSize → act i = false → tau i = 0)
    (hE : ∀ r, r < m.qdotSize →
      sumTo m.qdotSize (fun c => (sysVars m w st qd (run ops) true fext).H r c * qdd c)
          + (sysVars m w st qd (run ops) true fext).C r
        = tau r + colDot (sysVars m w st qd (run ops) true fext).G (run ops).size r lam) :
    (∀ c ∈ (run ops).cs, c.ctype = .contact → BodyOK m c.bodyP → ∀ r, hasRow c r →
      (contactPhi (bodyPoseJet m st qd qdd c.bodyP) c.XP.r (axisAt c r).v).d2 = 0 ∧
      (axisAt c r).v.dot
        (calcPointAcceleration m
          (updateKinematicsCustom m (csvWS m w st qd true fext) none none (some qdd)) st qd qdd
          c.bodyP c.XP.r false).2 = 0) ∧
    (∀ c ∈ (run ops).cs, c.ctype = .loop → BodyOK m c.bodyP → BodyOK m c.bodyS → ∀ r, hasRow c r →
      ((axisAt c r).w = V3.zero ∨
        ((frameOf (csvWS m w st qd true fext) c.bodyS c.XS).E
            = (frameOf (csvWS m w st qd true fext) c.bodyP c.XP).E ∧
          (frameOf (csvWS m w st qd true fext) c.bodyP c.XP).E.IsRot)) →
      (loopPhi (framePlacement (bodyPoseJet m st qd qdd c.bodyP) c.XP)
          (framePlacement (bodyPoseJet m st qd qdd c.bodyS) c.XS) (axisAt c r)).d2
        + accGap (NodeKin.ofPose (framePlacement (bodyPoseJet m st qd qdd c.bodyP) c.XP))
            (NodeKin.ofPose (framePlacement (bodyPoseJet m st qd qdd c.bodyS) c.XS))
            (NodeKin.ofPose (bodyPoseJet m st qd qdd c.bodyP)).omega (axisAt c r)
        = if c.baumgarte = true then
            -(2 * c.bgA * (sysVars m w st qd (run ops) true fext).errd r)
              - c.bgB * c.bgB * (sysVars m w st qd (run ops) true fext).err r
          else 0) ∧
    (∀ r, r < m.qdotSize →
      (inverseDynamics m (updQ m w st true) st qd (fun k => if k < m.qdotSize then qdd k else 0)
          (fun _ => 0) fext).2 r
        = tau r + colDot (sysVars m w st qd (run ops) true fext).G (run ops).size r lam) ∧
    (∀ i, i < m.qdotSize → act i = false →
      (inverseDynamics m (updQ m w st true) st qd (fun k => if k < m.qdotSize then qdd k else 0)
          (fun _ => 0) fext).2 i
        = colDot (sysVars m w st qd (run ops) true fext).G (run ops).size i lam) := by
  have hEq := kkt_solution_equation_of_motion m w st qd (run ops) true fext hD qdd tau lam hE
  refine ⟨fun c hc hct hP r hr => ?_, fun c hc hct hP hS r hr hrot => ?_, hEq,
    fun i hi ha => ?_⟩
  · obtain ⟨_, _, e3, e4⟩ := kkt_solution_contact_acceleration_jet h2 ops hn m w st qd fext hW c hc
      hct hP qdd r hr
    exact ⟨e4 (hG c hc r hr), by rw [e3]; exact e4 (hG c hc r hr)⟩
  · exact (kkt_solution_loop_acceleration_exact h2 ops hn m w st qd fext hW c hc hct hP hS qdd r
      hr hrot).2.2 (hG c hc r hr)
  · rw [hEq i hi, hT i hi ha]; grind

/-- on the example `mD` (coordinate 1 unactuated): `(qddD, tauD, lamD)` satisfy the three relations -/
example := idc_solution_physical L09.Ex.two_ne L08Phys.Ex.opsD L08Phys.Ex.opsD_noFixed L08Phys.Ex.mD
  L08Phys.Ex.wD L08Phys.Ex.stD L08Phys.Ex.qdD (some L08Phys.Ex.feD) L08Phys.Ex.wsHypD
  (L08Phys.Ex.dynHyp _) L08Phys.Ex.actD L08Phys.Ex.qddD L08Phys.Ex.tauD L08Phys.Ex.lamD
  L08Phys.Ex.opsD_rows L08Phys.Ex.tauD_unactuated (fun r _ => by
    show _ = L08Phys.Ex.tauD r + _
    unfold L08Phys.Ex.tauD L08Phys.Ex.svD
    grind)

end

/-! ### 7. C10: the kinetic energy does not increase in an impact -/
section Ordered
variable {α : Type} [Field α] [DecidableEq α] [LE α] [LT α] [Std.LawfulOrderLT α]
  [Std.IsLinearOrder α] [OrderedRing α]

/-- **the joint-space inertia matrix of `CalcConstrainedSystemVariables` is symmetric positive
    semidefinite** when the spatial inertias of the bodies are (`v · I_i v ≥ 0`):
    `xᵀ H x = Σ_i v_i(x) · I_i v_i(x)` -/
theorem csv_H_positive_semidefinite (m : ModelS α) (w : WS α) (st : QS α) (qd : VecN α)
    (C : CSet α) (fext : Option (Nat → SV α)) (hW : WsHyp m w st)
    (hD : DynHyp m (updQ m w st true) st qd fext)
    (hlay : CoordLayout (fun i => (m.joint i).qIndex)
      (L03.nS (csvWS m w st qd true fext) m) (m.nBodies - 1) m.qdotSize)
    (hI : ∀ i, 1 ≤ i → i ≤ m.nBodies - 1 → ∀ v : SV α, 0 ≤ v.dot (m.rbi i * v)) :
    (∀ r c, (sysVars m w st qd C true fext).H r c = (sysVars m w st qd C true fext).H c r) ∧
    ∀ x : VecN α, 0 ≤ sumTo m.qdotSize (fun r => x r *
      sumTo m.qdotSize (fun c => (sysVars m w st qd C true fext).H r c * x c)) := by
  refine ⟨fun r c => C03.crba_symmetric_zero m _ st false r c, fun x => ?_⟩
  obtain ⟨sX, sS, _⟩ := csvWS_static m w st x qd fext hW
  rw [csv_quadratic_form m w st qd C true fext hD hlay x (csvWS m w st x true fext)
    (csvWS_jacHyp m w st x fext hW).kin (fun i _ _ => congrFun sX i) (fun i _ _ => congrFun sS i)]
  exact rsum_nonneg _ _ _ (fun i h1 h2 => hI i h1 (by omega) _)
example := csv_H_positive_semidefinite L08Phys.Ex.mD L08Phys.Ex.wD L08Phys.Ex.stD L08Phys.Ex.qdD
  (run L08Phys.Ex.opsD) (some L08Phys.Ex.feD) L08Phys.Ex.wsHypD (L08Phys.Ex.dynHyp _)
  (L08Phys.Ex.layD _) L08Phys.Ex.inertia_psd

/-- **C10 on the code model: the kinetic energy does not increase in an impact with `v⁺ = 0`.**
    `H`, `G` are those `CalcConstrainedSystemVariables` returns at `q` (called with any velocity
    vector `q̇`, e.g. `q̇⁻`: they depend on `q` only); `(q̇⁺, Λ)` is any pair with
    `H (q̇⁺ − q̇⁻) + Gᵀ Λ = 0` and `G q̇⁺ = 0` (entrywise; this is the relation C10 specifies for
    `ComputeConstraintImpulses*`); the kinetic energies are the values of `CalcKineticEnergy` in the
    workspaces the routine builds for `q̇⁺` and `q̇⁻`; the body inertias are positive semidefinite -/
theorem impulse_kinetic_energy_nonincreasing (m : ModelS α) (w : WS α) (st : QS α)
    (qd qdm qdp L : VecN α) (C : CSet α) (fext : Option (Nat → SV α)) (hW : WsHyp m w st)
    (hD : DynHyp m (updQ m w st true) st qd fext)
    (hlay : CoordLayout (fun i => (m.joint i).qIndex)
      (L03.nS (csvWS m w st qd true fext) m) (m.nBodies - 1) m.qdotSize)
    (hI : ∀ i, 1 ≤ i → i ≤ m.nBodies - 1 → ∀ v : SV α, 0 ≤ v.dot (m.rbi i * v))
    (hrel : ∀ r, r < m.qdotSize →
      sumTo m.qdotSize (fun c => (sysVars m w st qd C true fext).H r c * (qdp c - qdm c))
        + colDot (sysVars m w st qd C true fext).G C.size r L = 0)
    (hG : ∀ r, r < C.size → rowDot (sysVars m w st qd C true fext).G m.qdotSize r qdp = 0) :
    (calcKineticEnergy m (csvWS m w st qdp true fext) st qdp false).2
      ≤ (calcKineticEnergy m (csvWS m w st qdm true fext) st qdm false).2 := by
  obtain ⟨hs, hp⟩ := csv_H_positive_semidefinite m w st qd C fext hW hD hlay hI
  rw [kinetic_energy_half_quadratic m w st qd C fext hW hD hlay qdp,
    kinetic_energy_half_quadratic m w st qd C fext hW hD hlay qdm]
  exact impulse_energy_le _ _ _ _ (fun r c _ _ => hs r c) hp qdm qdp L hrel hG
/-- on `mD` with the constraint set `opsD`: `q̇⁺ = (0,0,1,2,0,0)` (in the null space of `G`),
    `Λ = (1,0,0)`, `q̇⁻ = q̇⁺ − d` with `H d = −Gᵀ Λ` -/
example := impulse_kinetic_energy_nonincreasing L08Phys.Ex.mD L08Phys.Ex.wD L08Phys.Ex.stD
  L08Phys.Ex.qdD L08Phys.Ex.qdmD L08Phys.Ex.qdpD L08Phys.Ex.LD (run L08Phys.Ex.opsD)
  (some L08Phys.Ex.feD) L08Phys.Ex.wsHypD (L08Phys.Ex.dynHyp _) (L08Phys.Ex.layD _)
  L08Phys.Ex.inertia_psd L08Phys.Ex.impact_rel L08Phys.Ex.impact_G

end Ordered
end Rbdl.C08Phys
