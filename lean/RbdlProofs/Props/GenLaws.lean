import RbdlProofs.Lemmas.Alg16
/-
  Translator tier: every definition generated from the C++ sources (lean/Rbdl/Gen/*.lean, regenerated on
  every run by tools/cxx2lean.py) equals the hand-written block formula of the model.  The proofs are
  normalisation (`alg` unfolding + `grind`), so they survive harmless rewrites of the C++ and fail for a
  wrong formula.
-/
namespace Rbdl.GenLaws
open Lean.Grind Rbdl
variable {α : Type} [Field α]

theorem xtApply_eq (X : XT α) (v : SV α) : Gen.xtApply X v = X.apply v := by
  unfold Gen.xtApply; alg_ext
theorem xtApplyTranspose_eq (X : XT α) (f : SV α) : Gen.xtApplyTranspose X f = X.applyTranspose f := by
  unfold Gen.xtApplyTranspose; alg_ext
theorem crossmVV_eq (a b : SV α) : Gen.crossmVV a b = crossm a b := by
  unfold Gen.crossmVV; alg_ext
theorem crossfVV_eq (a b : SV α) : Gen.crossfVV a b = crossf a b := by
  unfold Gen.crossfVV; alg_ext
theorem crossmM_eq (v : SV α) : Gen.crossmM v = crossmMat v := by
  unfold Gen.crossmM; alg_ext
theorem crossfM_eq (v : SV α) : Gen.crossfM v = crossfMat v := by
  unfold Gen.crossfM; alg_ext
theorem skew_eq (v : V3 α) : Gen.skew v = M3.skew v := by
  unfold Gen.skew; alg_ext
theorem xrotE_eq (c s : α) (ax : V3 α) : Gen.xrotE c s ax = (Xrot c s ax).E := by
  unfold Gen.xrotE; alg_ext
theorem xrotxE_eq (c s : α) : Gen.xrotxE c s = (Xrotx c s).E := by
  unfold Gen.xrotxE; alg_ext
theorem xrotyE_eq (c s : α) : Gen.xrotyE c s = (Xroty c s).E := by
  unfold Gen.xrotyE; alg_ext
theorem xrotzE_eq (c s : α) : Gen.xrotzE c s = (Xrotz c s).E := by
  unfold Gen.xrotzE; alg_ext
theorem quatMul_eq (p q : Quat α) : Gen.quatMul p q = Quat.mul p q := by
  unfold Gen.quatMul; alg_ext
theorem quatToMatrix_eq (q : Quat α) : Gen.quatToMatrix q = q.toMatrix := by
  unfold Gen.quatToMatrix; alg_ext
theorem quatConj_eq (q : Quat α) : Gen.quatConj q = q.conjugate := by
  unfold Gen.quatConj; alg_ext

/-! joint formulas of `jcalc` -/
theorem eulerZYXE_eq (c0 s0 c1 s1 c2 s2 : α) : Gen.eulerZYXE c0 s0 c1 s1 c2 s2 = eulerZYX_E c0 s0 c1 s1 c2 s2 := by
  unfold Gen.eulerZYXE eulerZYX_E; ext <;> grind
theorem eulerXYZE_eq (c0 s0 c1 s1 c2 s2 : α) : Gen.eulerXYZE c0 s0 c1 s1 c2 s2 = eulerXYZ_E c0 s0 c1 s1 c2 s2 := by
  unfold Gen.eulerXYZE eulerXYZ_E; ext <;> grind
theorem eulerYXZE_eq (c0 s0 c1 s1 c2 s2 : α) : Gen.eulerYXZE c0 s0 c1 s1 c2 s2 = eulerYXZ_E c0 s0 c1 s1 c2 s2 := by
  unfold Gen.eulerYXZE eulerYXZ_E; ext <;> grind
theorem eulerZXYE_eq (c0 s0 c1 s1 c2 s2 : α) : Gen.eulerZXYE c0 s0 c1 s1 c2 s2 = eulerZXY_E c0 s0 c1 s1 c2 s2 := by
  unfold Gen.eulerZXYE eulerZXY_E; ext <;> grind

theorem eulerZYXcJ_eq (c1 s1 c2 s2 a b c : α) : Gen.eulerZYXcJ c1 s1 c2 s2 a b c = eulerZYX_cJ c1 s1 c2 s2 a b c := by
  unfold Gen.eulerZYXcJ eulerZYX_cJ; ext <;> simp only [alg] <;> grind
theorem eulerXYZcJ_eq (c1 s1 c2 s2 a b c : α) : Gen.eulerXYZcJ c1 s1 c2 s2 a b c = eulerXYZ_cJ c1 s1 c2 s2 a b c := by
  unfold Gen.eulerXYZcJ eulerXYZ_cJ; ext <;> simp only [alg] <;> grind
theorem eulerYXZcJ_eq (c1 s1 c2 s2 a b c : α) : Gen.eulerYXZcJ c1 s1 c2 s2 a b c = eulerYXZ_cJ c1 s1 c2 s2 a b c := by
  unfold Gen.eulerYXZcJ eulerYXZ_cJ; ext <;> simp only [alg] <;> grind
theorem eulerZXYcJ_eq (c1 s1 c2 s2 a b c : α) : Gen.eulerZXYcJ c1 s1 c2 s2 a b c = eulerZXY_cJ c1 s1 c2 s2 a b c := by
  unfold Gen.eulerZXYcJ eulerZXY_cJ; ext <;> simp only [alg] <;> grind

/-- the entry assignments of the Euler branches produce exactly the motion-subspace update of the model -/
theorem eulerZYXS_eq (S : M63 α) (c1 s1 c2 s2 : α) :
    S.writeEntries (Gen.eulerZYXSentries c1 s1 c2 s2) = eulerZYX_S S c1 s1 c2 s2 := by
  simp [M63.writeEntries, Gen.eulerZYXSentries, eulerZYX_S, M63.setW]
theorem eulerXYZS_eq (S : M63 α) (c1 s1 c2 s2 : α) :
    S.writeEntries (Gen.eulerXYZSentries c1 s1 c2 s2) = eulerXYZ_S S c1 s1 c2 s2 := by
  simp [M63.writeEntries, Gen.eulerXYZSentries, eulerXYZ_S, M63.setW]
theorem eulerYXZS_eq (S : M63 α) (c1 s1 c2 s2 : α) :
    S.writeEntries (Gen.eulerYXZSentries c1 s1 c2 s2) = eulerYXZ_S S c1 s1 c2 s2 := by
  simp [M63.writeEntries, Gen.eulerYXZSentries, eulerYXZ_S, M63.setW]
theorem eulerZXYS_eq (S : M63 α) (c1 s1 c2 s2 : α) :
    S.writeEntries (Gen.eulerZXYSentries c1 s1 c2 s2) = eulerZXY_S S c1 s1 c2 s2 := by
  simp [M63.writeEntries, Gen.eulerZXYSentries, eulerZXY_S, M63.setW]

end Rbdl.GenLaws
