import RbdlProofs.Lemmas.Loop06
import RbdlProofs.Lemmas.Ex06
/-
  C06 / C05 — velocities and accelerations are time derivatives.

  First-principles side (`Rbdl/Spec/Motion.lean`, `Rbdl/Spec/Mech.lean`): a pose jet is a
  `Spec.Pose (D2 α)`; `NodeKin.ofPose` extracts `(R, Ṙ, R̈, p, ṗ, p̈)`;
    `svOfKin k = (Rᵀ ω, Rᵀ ṗ)`,  `saOfKin k = (Rᵀ ω̇, Rᵀ p̈ − (Rᵀ ω) × (Rᵀ ṗ))`,
  with `[ω]× = Ṙ Rᵀ`, `[ω̇]× = R̈ Rᵀ + Ṙ Ṙᵀ` (`NodeKin.omega`, `NodeKin.omegaDot`);
  `KinOk k`: `R Rᵀ = 1`, `det R = 1`, `Ṙ Rᵀ + R Ṙᵀ = 0`, `R̈ Rᵀ + 2 Ṙ Ṙᵀ + R R̈ᵀ = 0`.
  `jointPoseJet m i st qd qdd` is `Spec.jointPose` of the joint *definition* evaluated on the
  coordinate jets of `Spec.coordJets` (angles: `(cosJ, sinJ)`, linear: `(q, q̇, q̈)`, spherical:
  `Q̇ = ½ Q ⊗ (ω,0)`, `Q̈ = ½ Q̇ ⊗ (ω,0) + ½ Q ⊗ (ω̇,0)`); `framePoseJet m i` is the constant jet of
  the joint frame; `bodyPoseJet m st qd qdd i` the world pose jet of body `i`.

  Helper notions (`RbdlProofs/Lemmas/{Motion06,Step06}.lean`): `L06.JointWS m w i` — the
  construction-time content of the workspace entries of joint `i` that `jcalc` relies on (spelled out
  per joint kind in the theorems of section 2); `L06.ukBody` — the body of the loop of
  `updateKinematics` (`updateKinematics_eq_forUp`, by `rfl`); `ModelS.jointUnit`, `JT.hasJcalc` as in C04.

  Findings.
  * The exact acceleration law is
      `a(A∘B) = X_B a(A) + a(B) + v(A∘B) ×ₘ v(B)`,
    which is the code's `a_i = X_λ a_λ + c_J + v_i ×ₘ v_J + S q̈` with `a(joint jet) = S q̈ + c_J`.
  * `2 ≠ 0` is needed wherever a `KinOk` *hypothesis* has to be turned into `Ṙ = S(ω) R` (the
    symmetric form `Ṙ Rᵀ + R Ṙᵀ = 0` does not give a zero diagonal in characteristic 2, machine-checked
    counterexample below) and for the spherical joint (`½`).  The per-joint theorems for all other
    joint kinds need no such hypothesis.
  * `DecidableEq α` is not needed.
-/
namespace Rbdl.C06
open Lean.Grind Rbdl Rbdl.Spec
variable {α : Type} [Field α]
attribute [local instance] L06.Ex.decKinOk

/-! ### 1. composition of pose jets (independent of the joint type) -/

/-- `v(A∘B) = X_B v(A) + v(B)` with `X_B = SpatialTransform(R_Bᵀ, p_B)` -/
theorem compose_velocity (h2 : (2 : α) ≠ 0) (A B : Pose (D2 α))
    (hA : KinOk (NodeKin.ofPose A)) (hB : KinOk (NodeKin.ofPose B)) :
    svOfKin (NodeKin.ofPose (A.comp B))
      = (⟨(NodeKin.ofPose B).R.transpose, (NodeKin.ofPose B).p⟩ : XT α).apply
          (svOfKin (NodeKin.ofPose A)) + svOfKin (NodeKin.ofPose B) := by
  rw [L06.ofPose_comp]
  exact ((L06.kinOk_bodyForm h2 hA).comp (L06.kinOk_bodyForm h2 hB)).sv

/-- `a(A∘B) = X_B a(A) + a(B) + v(A∘B) ×ₘ v(B)` -/
theorem compose_acceleration (h2 : (2 : α) ≠ 0) (A B : Pose (D2 α))
    (hA : KinOk (NodeKin.ofPose A)) (hB : KinOk (NodeKin.ofPose B)) :
    saOfKin (NodeKin.ofPose (A.comp B))
      = (⟨(NodeKin.ofPose B).R.transpose, (NodeKin.ofPose B).p⟩ : XT α).apply
          (saOfKin (NodeKin.ofPose A)) + saOfKin (NodeKin.ofPose B)
        + crossm (svOfKin (NodeKin.ofPose (A.comp B))) (svOfKin (NodeKin.ofPose B)) := by
  rw [compose_velocity h2 A B hA hB, L06.ofPose_comp]
  exact ((L06.kinOk_bodyForm h2 hA).comp (L06.kinOk_bodyForm h2 hB)).sa

/-- the composition of two rotation jets is a rotation jet -/
theorem compose_kinOk (h2 : (2 : α) ≠ 0) (A B : Pose (D2 α))
    (hA : KinOk (NodeKin.ofPose A)) (hB : KinOk (NodeKin.ofPose B)) :
    KinOk (NodeKin.ofPose (A.comp B)) := by
  rw [L06.ofPose_comp]
  exact ((L06.kinOk_bodyForm h2 hA).comp (L06.kinOk_bodyForm h2 hB)).kinOk

/-- `2 ≠ 0` cannot be dropped from `compose_velocity`: over `GF(2)` the jet `R = 1`, `Ṙ = diag(1,0,0)`,
    `R̈ = 0` satisfies `KinOk` (`Ṙ Rᵀ + R Ṙᵀ = 2 Ṙ = 0`) and has `ω = 0`, but moves the point `(1,0,0)`
    of the child frame with velocity `(1,0,0)` (checked by evaluation) -/
example : letI := C16.Ex.gf2
    let A : Pose (D2 (Fin 2)) := ⟨⟨⟨1, 1, 0⟩, 0, 0, 0, 1, 0, 0, 0, 1⟩, V3.zero⟩
    let B : Pose (D2 (Fin 2)) := ⟨M3.one, ⟨1, 0, 0⟩⟩
    KinOk (NodeKin.ofPose A) ∧ KinOk (NodeKin.ofPose B) ∧
    svOfKin (NodeKin.ofPose (A.comp B))
      ≠ (⟨(NodeKin.ofPose B).R.transpose, (NodeKin.ofPose B).p⟩ : XT (Fin 2)).apply
          (svOfKin (NodeKin.ofPose A)) + svOfKin (NodeKin.ofPose B) := by decide

/-- a constant pose (all derivatives zero) has zero velocity and acceleration
    (no rotation hypothesis needed) -/
theorem const_velocity_acceleration (k : NodeKin α) (h1 : k.Rd = M3.zero) (h2 : k.Rdd = M3.zero)
    (h3 : k.pd = V3.zero) (h4 : k.pdd = V3.zero) :
    svOfKin k = SV.zero ∧ saOfKin k = SV.zero := by
  unfold svOfKin saOfKin NodeKin.omega NodeKin.omegaDot
  rw [h1, h2, h3, h4]
  constructor <;> (ext <;> simp only [alg, vee] <;> grind)

example : svOfKin (NodeKin.ofPose (framePose D2.const C16.Ex.M (⟨1, 2, 3⟩ : V3 Rat))) = SV.zero ∧
    saOfKin (NodeKin.ofPose (framePose D2.const C16.Ex.M (⟨1, 2, 3⟩ : V3 Rat))) = SV.zero :=
  const_velocity_acceleration _ rfl rfl rfl rfl

/-- frame placements: `framePose` of constants -/
theorem frame_velocity_acceleration (E : M3 α) (r : V3 α) :
    svOfKin (NodeKin.ofPose (framePose D2.const E r)) = SV.zero ∧
    saOfKin (NodeKin.ofPose (framePose D2.const E r)) = SV.zero :=
  const_velocity_acceleration _ rfl rfl rfl rfl

theorem frame_kinOk (E : M3 α) (r : V3 α) (hE : E.IsRot) :
    KinOk (NodeKin.ofPose (framePose D2.const E r)) :=
  (L06.bodyForm_const (k := NodeKin.ofPose (framePose D2.const E r)) hE.transpose
    rfl rfl rfl rfl).kinOk
example : KinOk (NodeKin.ofPose (framePose D2.const C16.Ex.M (⟨1, 2, 3⟩ : V3 Rat))) :=
  frame_kinOk _ _ C16.Ex.M_isRot

/-! ### 2. one theorem per joint kind -/

/-- `JointTypeRevoluteX`: the inactive components of `v_J[i]` are 0, `S[i]` is the axis, `c_J[i] = 0` -/
theorem joint_motion_revoluteX (m : ModelS α) (w : WS α) (i : Nat) (st : QS α) (qd qdd : VecN α)
    (h : (m.joint i).jt = .revoluteX) (hdof : (m.joint i).dof = 1)
    (hcs : st.c (m.joint i).qIndex * st.c (m.joint i).qIndex + st.s (m.joint i).qIndex * st.s (m.joint i).qIndex = 1)
    (hv : (w.v_J i).w.y = 0 ∧ (w.v_J i).w.z = 0 ∧ (w.v_J i).v = V3.zero)
    (hS : w.S i = sv6 1 0 0 0 0 0) (hc : w.c_J i = SV.zero) :
    svOfKin (NodeKin.ofPose (jointPoseJet m i st qd qdd)) = (jcalc m w i st qd).v_J i ∧
    saOfKin (NodeKin.ofPose (jointPoseJet m i st qd qdd))
      = WS.Sqdd (jcalc m w i st qd) m i qdd + (jcalc m w i st qd).c_J i ∧
    KinOk (NodeKin.ofPose (jointPoseJet m i st qd qdd)) :=
  (L06.jm_revoluteX m w i st qd qdd h hcs
    (by simp only [L06.JointWS, h]; exact ⟨hdof, hv.1, hv.2.1, hv.2.2, hS, hc⟩)).spec
example := joint_motion_revoluteX L06.Ex.mRevX (initWS L06.Ex.mRevX) 1 L06.Ex.st L06.Ex.qd L06.Ex.qdd rfl rfl
  (L06.Ex.cs _) ⟨rfl, rfl, rfl⟩ rfl rfl

/-- `JointTypeRevoluteY`: the inactive components of `v_J[i]` are 0, `S[i]` is the axis, `c_J[i] = 0` -/
theorem joint_motion_revoluteY (m : ModelS α) (w : WS α) (i : Nat) (st : QS α) (qd qdd : VecN α)
    (h : (m.joint i).jt = .revoluteY) (hdof : (m.joint i).dof = 1)
    (hcs : st.c (m.joint i).qIndex * st.c (m.joint i).qIndex + st.s (m.joint i).qIndex * st.s (m.joint i).qIndex = 1)
    (hv : (w.v_J i).w.x = 0 ∧ (w.v_J i).w.z = 0 ∧ (w.v_J i).v = V3.zero)
    (hS : w.S i = sv6 0 1 0 0 0 0) (hc : w.c_J i = SV.zero) :
    svOfKin (NodeKin.ofPose (jointPoseJet m i st qd qdd)) = (jcalc m w i st qd).v_J i ∧
    saOfKin (NodeKin.ofPose (jointPoseJet m i st qd qdd))
      = WS.Sqdd (jcalc m w i st qd) m i qdd + (jcalc m w i st qd).c_J i ∧
    KinOk (NodeKin.ofPose (jointPoseJet m i st qd qdd)) :=
  (L06.jm_revoluteY m w i st qd qdd h hcs
    (by simp only [L06.JointWS, h]; exact ⟨hdof, hv.1, hv.2.1, hv.2.2, hS, hc⟩)).spec
example := joint_motion_revoluteY L06.Ex.mRevY (initWS L06.Ex.mRevY) 1 L06.Ex.st L06.Ex.qd L06.Ex.qdd rfl rfl
  (L06.Ex.cs _) ⟨rfl, rfl, rfl⟩ rfl rfl

/-- `JointTypeRevoluteZ`: the inactive components of `v_J[i]` are 0, `S[i]` is the axis, `c_J[i] = 0` -/
theorem joint_motion_revoluteZ (m : ModelS α) (w : WS α) (i : Nat) (st : QS α) (qd qdd : VecN α)
    (h : (m.joint i).jt = .revoluteZ) (hdof : (m.joint i).dof = 1)
    (hcs : st.c (m.joint i).qIndex * st.c (m.joint i).qIndex + st.s (m.joint i).qIndex * st.s (m.joint i).qIndex = 1)
    (hv : (w.v_J i).w.x = 0 ∧ (w.v_J i).w.y = 0 ∧ (w.v_J i).v = V3.zero)
    (hS : w.S i = sv6 0 0 1 0 0 0) (hc : w.c_J i = SV.zero) :
    svOfKin (NodeKin.ofPose (jointPoseJet m i st qd qdd)) = (jcalc m w i st qd).v_J i ∧
    saOfKin (NodeKin.ofPose (jointPoseJet m i st qd qdd))
      = WS.Sqdd (jcalc m w i st qd) m i qdd + (jcalc m w i st qd).c_J i ∧
    KinOk (NodeKin.ofPose (jointPoseJet m i st qd qdd)) :=
  (L06.jm_revoluteZ m w i st qd qdd h hcs
    (by simp only [L06.JointWS, h]; exact ⟨hdof, hv.1, hv.2.1, hv.2.2, hS, hc⟩)).spec
example := joint_motion_revoluteZ L06.Ex.mRevZ (initWS L06.Ex.mRevZ) 1 L06.Ex.st L06.Ex.qd L06.Ex.qdd rfl rfl
  (L06.Ex.cs _) ⟨rfl, rfl, rfl⟩ rfl rfl

/-- `JointTypeRevolute` about a unit axis: `S[i]` is the (purely angular) axis, `c_J[i] = 0` -/
theorem joint_motion_revolute (m : ModelS α) (w : WS α) (i : Nat) (st : QS α) (qd qdd : VecN α)
    (h : (m.joint i).jt = .revolute) (hdof : (m.joint i).dof = 1)
    (hcs : st.c (m.joint i).qIndex * st.c (m.joint i).qIndex + st.s (m.joint i).qIndex * st.s (m.joint i).qIndex = 1)
    (hax : ((m.joint i).axes.headD SV.zero).w.nrm2 = 1)
    (hS : w.S i = ⟨((m.joint i).axes.headD SV.zero).w, V3.zero⟩) (hc : w.c_J i = SV.zero) :
    svOfKin (NodeKin.ofPose (jointPoseJet m i st qd qdd)) = (jcalc m w i st qd).v_J i ∧
    saOfKin (NodeKin.ofPose (jointPoseJet m i st qd qdd))
      = WS.Sqdd (jcalc m w i st qd) m i qdd + (jcalc m w i st qd).c_J i ∧
    KinOk (NodeKin.ofPose (jointPoseJet m i st qd qdd)) :=
  (L06.jm_revolute m w i st qd qdd h hcs hax
    (by simp only [L06.JointWS, h]; exact ⟨hdof, hS, hc⟩)).spec
example := joint_motion_revolute L06.Ex.mRev (initWS L06.Ex.mRev) 1 L06.Ex.st L06.Ex.qd L06.Ex.qdd rfl rfl
  (L06.Ex.cs _) C16.Ex.ax_unit rfl rfl

/-- `JointTypePrismatic` (any axis): `S[i]` is the (purely linear) axis, `c_J[i] = 0` -/
theorem joint_motion_prismatic (m : ModelS α) (w : WS α) (i : Nat) (st : QS α) (qd qdd : VecN α)
    (h : (m.joint i).jt = .prismatic) (hdof : (m.joint i).dof = 1)
    (hS : w.S i = ⟨V3.zero, ((m.joint i).axes.headD SV.zero).v⟩) (hc : w.c_J i = SV.zero) :
    svOfKin (NodeKin.ofPose (jointPoseJet m i st qd qdd)) = (jcalc m w i st qd).v_J i ∧
    saOfKin (NodeKin.ofPose (jointPoseJet m i st qd qdd))
      = WS.Sqdd (jcalc m w i st qd) m i qdd + (jcalc m w i st qd).c_J i ∧
    KinOk (NodeKin.ofPose (jointPoseJet m i st qd qdd)) :=
  (L06.jm_prismatic m w i st qd qdd h
    (by simp only [L06.JointWS, h]; exact ⟨hdof, hS, hc⟩)).spec
example := joint_motion_prismatic L06.Ex.mPris (initWS L06.Ex.mPris) 1 L06.Ex.st L06.Ex.qd L06.Ex.qdd rfl rfl
  rfl rfl

/-- `JointTypeHelical` (unit rotation axis); `S[i]` and `c_J[i]` are written by `jcalc` -/
theorem joint_motion_helical (m : ModelS α) (w : WS α) (i : Nat) (st : QS α) (qd qdd : VecN α)
    (h : (m.joint i).jt = .helical) (hdof : (m.joint i).dof = 1)
    (hcs : st.c (m.joint i).qIndex * st.c (m.joint i).qIndex + st.s (m.joint i).qIndex * st.s (m.joint i).qIndex = 1)
    (hax : ((m.joint i).axes.headD SV.zero).w.nrm2 = 1) :
    svOfKin (NodeKin.ofPose (jointPoseJet m i st qd qdd)) = (jcalc m w i st qd).v_J i ∧
    saOfKin (NodeKin.ofPose (jointPoseJet m i st qd qdd))
      = WS.Sqdd (jcalc m w i st qd) m i qdd + (jcalc m w i st qd).c_J i ∧
    KinOk (NodeKin.ofPose (jointPoseJet m i st qd qdd)) :=
  (L06.jm_helical m w i st qd qdd h hcs hax
    (by simp only [L06.JointWS, h]; exact hdof)).spec
example := joint_motion_helical L06.Ex.mHel (initWS L06.Ex.mHel) 1 L06.Ex.st L06.Ex.qd L06.Ex.qdd rfl rfl
  (L06.Ex.cs _) C16.Ex.ax_unit

/-- `JointTypeSpherical`: unit quaternion, quaternion jet `Q̇ = ½ Q ⊗ (ω,0)` etc. as in `Spec.coordJets`;
    `c_J[i] = 0`, the entries of `multdof3_S[i]` off the angular diagonal are 0; needs `2 ≠ 0` -/
theorem joint_motion_spherical (m : ModelS α) (w : WS α) (i : Nat) (st : QS α) (qd qdd : VecN α)
    (h2 : (2 : α) ≠ 0) (h : (m.joint i).jt = .spherical) (hdof : (m.joint i).dof = 3)
    (hw3 : (m.joint i).qIndex + 2 < m.w3 i) (hQ : (getQuaternion m i st.q).nrm2 = 1)
    (hc : w.c_J i = SV.zero)
    (hS3 : L06.vZero (w.S3 i) ∧ (w.S3 i).c0.w.y = 0 ∧ (w.S3 i).c0.w.z = 0 ∧ (w.S3 i).c1.w.x = 0 ∧
          (w.S3 i).c1.w.z = 0 ∧ (w.S3 i).c2.w.x = 0 ∧ (w.S3 i).c2.w.y = 0) :
    svOfKin (NodeKin.ofPose (jointPoseJet m i st qd qdd)) = (jcalc m w i st qd).v_J i ∧
    saOfKin (NodeKin.ofPose (jointPoseJet m i st qd qdd))
      = WS.Sqdd (jcalc m w i st qd) m i qdd + (jcalc m w i st qd).c_J i ∧
    KinOk (NodeKin.ofPose (jointPoseJet m i st qd qdd)) :=
  (L06.jm_spherical m w i st qd qdd h2 h hw3 hQ
    (by simp only [L06.JointWS, h]; exact ⟨hdof, hc, hS3⟩)).spec
example := joint_motion_spherical L06.Ex.mSph (initWS L06.Ex.mSph) 1 L06.Ex.st L06.Ex.qd L06.Ex.qdd L06.Ex.two_ne rfl
  rfl (by decide) C16.Ex.p_unit rfl ⟨⟨rfl, rfl, rfl⟩, rfl, rfl, rfl, rfl, rfl, rfl⟩

/-- `JointTypeEulerZYX`: the entries of `multdof3_S[i]` that `jcalc` does not write are 0 -/
theorem joint_motion_eulerZYX (m : ModelS α) (w : WS α) (i : Nat) (st : QS α) (qd qdd : VecN α)
    (h : (m.joint i).jt = .eulerZYX) (hdof : (m.joint i).dof = 3)
    (h0 : st.c (m.joint i).qIndex * st.c (m.joint i).qIndex + st.s (m.joint i).qIndex * st.s (m.joint i).qIndex = 1)
    (h1 : st.c ((m.joint i).qIndex + 1) * st.c ((m.joint i).qIndex + 1) + st.s ((m.joint i).qIndex + 1) * st.s ((m.joint i).qIndex + 1) = 1)
    (h2 : st.c ((m.joint i).qIndex + 2) * st.c ((m.joint i).qIndex + 2) + st.s ((m.joint i).qIndex + 2) * st.s ((m.joint i).qIndex + 2) = 1)
    (hS3 : L06.vZero (w.S3 i) ∧ (w.S3 i).c1.w.x = 0 ∧ (w.S3 i).c2.w.y = 0 ∧ (w.S3 i).c2.w.z = 0) :
    svOfKin (NodeKin.ofPose (jointPoseJet m i st qd qdd)) = (jcalc m w i st qd).v_J i ∧
    saOfKin (NodeKin.ofPose (jointPoseJet m i st qd qdd))
      = WS.Sqdd (jcalc m w i st qd) m i qdd + (jcalc m w i st qd).c_J i ∧
    KinOk (NodeKin.ofPose (jointPoseJet m i st qd qdd)) :=
  (L06.jm_eulerZYX m w i st qd qdd h h0 h1 h2
    (by simp only [L06.JointWS, h]; exact ⟨hdof, hS3⟩)).spec
example := joint_motion_eulerZYX L06.Ex.mZYX (initWS L06.Ex.mZYX) 1 L06.Ex.st L06.Ex.qd L06.Ex.qdd rfl rfl
  (L06.Ex.cs _) (L06.Ex.cs _) (L06.Ex.cs _) ⟨⟨rfl, rfl, rfl⟩, rfl, rfl, rfl⟩

/-- `JointTypeEulerXYZ`: the entries of `multdof3_S[i]` that `jcalc` does not write are 0 -/
theorem joint_motion_eulerXYZ (m : ModelS α) (w : WS α) (i : Nat) (st : QS α) (qd qdd : VecN α)
    (h : (m.joint i).jt = .eulerXYZ) (hdof : (m.joint i).dof = 3)
    (h0 : st.c (m.joint i).qIndex * st.c (m.joint i).qIndex + st.s (m.joint i).qIndex * st.s (m.joint i).qIndex = 1)
    (h1 : st.c ((m.joint i).qIndex + 1) * st.c ((m.joint i).qIndex + 1) + st.s ((m.joint i).qIndex + 1) * st.s ((m.joint i).qIndex + 1) = 1)
    (h2 : st.c ((m.joint i).qIndex + 2) * st.c ((m.joint i).qIndex + 2) + st.s ((m.joint i).qIndex + 2) * st.s ((m.joint i).qIndex + 2) = 1)
    (hS3 : L06.vZero (w.S3 i) ∧ (w.S3 i).c1.w.z = 0 ∧ (w.S3 i).c2.w.x = 0 ∧ (w.S3 i).c2.w.y = 0) :
    svOfKin (NodeKin.ofPose (jointPoseJet m i st qd qdd)) = (jcalc m w i st qd).v_J i ∧
    saOfKin (NodeKin.ofPose (jointPoseJet m i st qd qdd))
      = WS.Sqdd (jcalc m w i st qd) m i qdd + (jcalc m w i st qd).c_J i ∧
    KinOk (NodeKin.ofPose (jointPoseJet m i st qd qdd)) :=
  (L06.jm_eulerXYZ m w i st qd qdd h h0 h1 h2
    (by simp only [L06.JointWS, h]; exact ⟨hdof, hS3⟩)).spec
example := joint_motion_eulerXYZ L06.Ex.mXYZ (initWS L06.Ex.mXYZ) 1 L06.Ex.st L06.Ex.qd L06.Ex.qdd rfl rfl
  (L06.Ex.cs _) (L06.Ex.cs _) (L06.Ex.cs _) ⟨⟨rfl, rfl, rfl⟩, rfl, rfl, rfl⟩

/-- `JointTypeEulerYXZ`: the entries of `multdof3_S[i]` that `jcalc` does not write are 0 -/
theorem joint_motion_eulerYXZ (m : ModelS α) (w : WS α) (i : Nat) (st : QS α) (qd qdd : VecN α)
    (h : (m.joint i).jt = .eulerYXZ) (hdof : (m.joint i).dof = 3)
    (h0 : st.c (m.joint i).qIndex * st.c (m.joint i).qIndex + st.s (m.joint i).qIndex * st.s (m.joint i).qIndex = 1)
    (h1 : st.c ((m.joint i).qIndex + 1) * st.c ((m.joint i).qIndex + 1) + st.s ((m.joint i).qIndex + 1) * st.s ((m.joint i).qIndex + 1) = 1)
    (h2 : st.c ((m.joint i).qIndex + 2) * st.c ((m.joint i).qIndex + 2) + st.s ((m.joint i).qIndex + 2) * st.s ((m.joint i).qIndex + 2) = 1)
    (hS3 : L06.vZero (w.S3 i) ∧ (w.S3 i).c1.w.z = 0 ∧ (w.S3 i).c2.w.x = 0 ∧ (w.S3 i).c2.w.y = 0) :
    svOfKin (NodeKin.ofPose (jointPoseJet m i st qd qdd)) = (jcalc m w i st qd).v_J i ∧
    saOfKin (NodeKin.ofPose (jointPoseJet m i st qd qdd))
      = WS.Sqdd (jcalc m w i st qd) m i qdd + (jcalc m w i st qd).c_J i ∧
    KinOk (NodeKin.ofPose (jointPoseJet m i st qd qdd)) :=
  (L06.jm_eulerYXZ m w i st qd qdd h h0 h1 h2
    (by simp only [L06.JointWS, h]; exact ⟨hdof, hS3⟩)).spec
example := joint_motion_eulerYXZ L06.Ex.mYXZ (initWS L06.Ex.mYXZ) 1 L06.Ex.st L06.Ex.qd L06.Ex.qdd rfl rfl
  (L06.Ex.cs _) (L06.Ex.cs _) (L06.Ex.cs _) ⟨⟨rfl, rfl, rfl⟩, rfl, rfl, rfl⟩

/-- `JointTypeEulerZXY`: the entries of `multdof3_S[i]` that `jcalc` does not write are 0 -/
theorem joint_motion_eulerZXY (m : ModelS α) (w : WS α) (i : Nat) (st : QS α) (qd qdd : VecN α)
    (h : (m.joint i).jt = .eulerZXY) (hdof : (m.joint i).dof = 3)
    (h0 : st.c (m.joint i).qIndex * st.c (m.joint i).qIndex + st.s (m.joint i).qIndex * st.s (m.joint i).qIndex = 1)
    (h1 : st.c ((m.joint i).qIndex + 1) * st.c ((m.joint i).qIndex + 1) + st.s ((m.joint i).qIndex + 1) * st.s ((m.joint i).qIndex + 1) = 1)
    (h2 : st.c ((m.joint i).qIndex + 2) * st.c ((m.joint i).qIndex + 2) + st.s ((m.joint i).qIndex + 2) * st.s ((m.joint i).qIndex + 2) = 1)
    (hS3 : L06.vZero (w.S3 i) ∧ (w.S3 i).c1.w.y = 0 ∧ (w.S3 i).c2.w.x = 0 ∧ (w.S3 i).c2.w.z = 0) :
    svOfKin (NodeKin.ofPose (jointPoseJet m i st qd qdd)) = (jcalc m w i st qd).v_J i ∧
    saOfKin (NodeKin.ofPose (jointPoseJet m i st qd qdd))
      = WS.Sqdd (jcalc m w i st qd) m i qdd + (jcalc m w i st qd).c_J i ∧
    KinOk (NodeKin.ofPose (jointPoseJet m i st qd qdd)) :=
  (L06.jm_eulerZXY m w i st qd qdd h h0 h1 h2
    (by simp only [L06.JointWS, h]; exact ⟨hdof, hS3⟩)).spec
example := joint_motion_eulerZXY L06.Ex.mZXY (initWS L06.Ex.mZXY) 1 L06.Ex.st L06.Ex.qd L06.Ex.qdd rfl rfl
  (L06.Ex.cs _) (L06.Ex.cs _) (L06.Ex.cs _) ⟨⟨rfl, rfl, rfl⟩, rfl, rfl, rfl⟩

/-- `JointTypeTranslationXYZ`: the entries of `multdof3_S[i]` outside the linear diagonal are 0 -/
theorem joint_motion_translationXYZ (m : ModelS α) (w : WS α) (i : Nat) (st : QS α) (qd qdd : VecN α)
    (h : (m.joint i).jt = .translationXYZ) (hdof : (m.joint i).dof = 3)
    (hS3 : (w.S3 i).c0.w = V3.zero ∧ (w.S3 i).c1.w = V3.zero ∧ (w.S3 i).c2.w = V3.zero ∧
          (w.S3 i).c0.v.y = 0 ∧ (w.S3 i).c0.v.z = 0 ∧ (w.S3 i).c1.v.x = 0 ∧ (w.S3 i).c1.v.z = 0 ∧
          (w.S3 i).c2.v.x = 0 ∧ (w.S3 i).c2.v.y = 0) :
    svOfKin (NodeKin.ofPose (jointPoseJet m i st qd qdd)) = (jcalc m w i st qd).v_J i ∧
    saOfKin (NodeKin.ofPose (jointPoseJet m i st qd qdd))
      = WS.Sqdd (jcalc m w i st qd) m i qdd + (jcalc m w i st qd).c_J i ∧
    KinOk (NodeKin.ofPose (jointPoseJet m i st qd qdd)) :=
  (L06.jm_translationXYZ m w i st qd qdd h
    (by simp only [L06.JointWS, h]; exact ⟨hdof, hS3⟩)).spec
example := joint_motion_translationXYZ L06.Ex.mTrans (initWS L06.Ex.mTrans) 1 L06.Ex.st L06.Ex.qd L06.Ex.qdd rfl rfl
  ⟨rfl, rfl, rfl, rfl, rfl, rfl, rfl, rfl, rfl⟩

/-- custom joint re-implementing RevoluteX (everything it reads is written by `jcalc`) -/
theorem joint_motion_custom_revX (m : ModelS α) (w : WS α) (i : Nat) (st : QS α) (qd qdd : VecN α)
    (h : (m.joint i).jt = .custom) (hk : m.custom (m.joint i).customIdx = .revX)
    (hcs : st.c (m.joint i).qIndex * st.c (m.joint i).qIndex + st.s (m.joint i).qIndex * st.s (m.joint i).qIndex = 1) :
    svOfKin (NodeKin.ofPose (jointPoseJet m i st qd qdd)) = (jcalc m w i st qd).v_J i ∧
    saOfKin (NodeKin.ofPose (jointPoseJet m i st qd qdd))
      = WS.Sqdd (jcalc m w i st qd) m i qdd + (jcalc m w i st qd).c_J i ∧
    KinOk (NodeKin.ofPose (jointPoseJet m i st qd qdd)) :=
  (L06.jm_custom_revX m w i st qd qdd h hk hcs).spec
example := joint_motion_custom_revX L06.Ex.mCRevX (initWS L06.Ex.mCRevX) 1 L06.Ex.st L06.Ex.qd L06.Ex.qdd
  rfl rfl (L06.Ex.cs _)

/-- custom joint re-implementing EulerZYX -/
theorem joint_motion_custom_eulerZYX (m : ModelS α) (w : WS α) (i : Nat) (st : QS α) (qd qdd : VecN α)
    (h : (m.joint i).jt = .custom) (hk : m.custom (m.joint i).customIdx = .eulerZYX)
    (h0 : st.c (m.joint i).qIndex * st.c (m.joint i).qIndex + st.s (m.joint i).qIndex * st.s (m.joint i).qIndex = 1)
    (h1 : st.c ((m.joint i).qIndex + 1) * st.c ((m.joint i).qIndex + 1) + st.s ((m.joint i).qIndex + 1) * st.s ((m.joint i).qIndex + 1) = 1)
    (h2 : st.c ((m.joint i).qIndex + 2) * st.c ((m.joint i).qIndex + 2) + st.s ((m.joint i).qIndex + 2) * st.s ((m.joint i).qIndex + 2) = 1) :
    svOfKin (NodeKin.ofPose (jointPoseJet m i st qd qdd)) = (jcalc m w i st qd).v_J i ∧
    saOfKin (NodeKin.ofPose (jointPoseJet m i st qd qdd))
      = WS.Sqdd (jcalc m w i st qd) m i qdd + (jcalc m w i st qd).c_J i ∧
    KinOk (NodeKin.ofPose (jointPoseJet m i st qd qdd)) :=
  (L06.jm_custom_eulerZYX m w i st qd qdd h hk h0 h1 h2).spec
example := joint_motion_custom_eulerZYX L06.Ex.mCZYX (initWS L06.Ex.mCZYX) 1 L06.Ex.st L06.Ex.qd
  L06.Ex.qdd rfl rfl (L06.Ex.cs _) (L06.Ex.cs _) (L06.Ex.cs _)

/-- custom cylindrical joint (rotation about and translation along z) -/
theorem joint_motion_custom_cyl (m : ModelS α) (w : WS α) (i : Nat) (st : QS α) (qd qdd : VecN α)
    (h : (m.joint i).jt = .custom) (hk : m.custom (m.joint i).customIdx = .cyl)
    (hcs : st.c (m.joint i).qIndex * st.c (m.joint i).qIndex + st.s (m.joint i).qIndex * st.s (m.joint i).qIndex = 1) :
    svOfKin (NodeKin.ofPose (jointPoseJet m i st qd qdd)) = (jcalc m w i st qd).v_J i ∧
    saOfKin (NodeKin.ofPose (jointPoseJet m i st qd qdd))
      = WS.Sqdd (jcalc m w i st qd) m i qdd + (jcalc m w i st qd).c_J i ∧
    KinOk (NodeKin.ofPose (jointPoseJet m i st qd qdd)) :=
  (L06.jm_custom_cyl m w i st qd qdd h hk hcs).spec
example := joint_motion_custom_cyl L06.Ex.mCCyl (initWS L06.Ex.mCCyl) 1 L06.Ex.st L06.Ex.qd L06.Ex.qdd
  rfl rfl (L06.Ex.cs _)

/-- the workspace hypotheses above are the construction-time invariant: they hold for the workspace
    `initWS m` the construction code leaves, for every joint declared by the joint constructors
    (`L06.JointDecl`: declared DoF count; unit axis for revoluteX/Y/Z; purely angular / linear first
    axis for revolute / prismatic) -/
theorem jointWS_after_construction (m : ModelS α) (i : Nat) (hi : i ≠ 0)
    (hd : L06.JointDecl (m.joint i)) : L06.JointWS m (initWS m) i :=
  L06.jointWS_initWS m i hi hd
example := jointWS_after_construction C04.Ex.m 2 (by decide) (by change _ ∧ _; exact ⟨rfl, rfl⟩)

/-- all joint kinds handled by `jcalc` at once -/
theorem joint_motion (m : ModelS α) (w : WS α) (i : Nat) (st : QS α) (qd qdd : VecN α)
    (h2 : (2 : α) ≠ 0) (hj : (m.joint i).jt.hasJcalc = true) (hu : m.jointUnit i st)
    (hws : L06.JointWS m w i)
    (hw3 : (m.joint i).jt = .spherical → (m.joint i).qIndex + 2 < m.w3 i) :
    svOfKin (NodeKin.ofPose (jointPoseJet m i st qd qdd)) = (jcalc m w i st qd).v_J i ∧
    saOfKin (NodeKin.ofPose (jointPoseJet m i st qd qdd))
      = WS.Sqdd (jcalc m w i st qd) m i qdd + (jcalc m w i st qd).c_J i ∧
    KinOk (NodeKin.ofPose (jointPoseJet m i st qd qdd)) :=
  (L06.jointMotion m w i st qd qdd h2 hj hu hws hw3).spec
example := joint_motion C04.Ex.m L06.Ex.w 3 L06.Ex.st L06.Ex.qd L06.Ex.qdd L06.Ex.two_ne rfl
  (C04.Ex.m_unit 3 (by decide) (by decide)) (L06.Ex.m_ws 3 (by decide) (by decide))
  (L06.Ex.m_w3 3 (by decide) (by decide))

/-! ### 1'. the composition laws on concrete joint jets -/

example := compose_velocity L06.Ex.two_ne (jointPoseJet C04.Ex.m 2 L06.Ex.st L06.Ex.qd L06.Ex.qdd)
  (jointPoseJet C04.Ex.m 3 L06.Ex.st L06.Ex.qd L06.Ex.qdd)
  (joint_motion C04.Ex.m L06.Ex.w 2 L06.Ex.st L06.Ex.qd L06.Ex.qdd L06.Ex.two_ne rfl
    (C04.Ex.m_unit 2 (by decide) (by decide)) (L06.Ex.m_ws 2 (by decide) (by decide))
    (L06.Ex.m_w3 2 (by decide) (by decide))).2.2
  (joint_motion C04.Ex.m L06.Ex.w 3 L06.Ex.st L06.Ex.qd L06.Ex.qdd L06.Ex.two_ne rfl
    (C04.Ex.m_unit 3 (by decide) (by decide)) (L06.Ex.m_ws 3 (by decide) (by decide))
    (L06.Ex.m_w3 3 (by decide) (by decide))).2.2
example := compose_acceleration L06.Ex.two_ne (jointPoseJet C04.Ex.m 2 L06.Ex.st L06.Ex.qd L06.Ex.qdd)
  (jointPoseJet C04.Ex.m 3 L06.Ex.st L06.Ex.qd L06.Ex.qdd)
  (joint_motion C04.Ex.m L06.Ex.w 2 L06.Ex.st L06.Ex.qd L06.Ex.qdd L06.Ex.two_ne rfl
    (C04.Ex.m_unit 2 (by decide) (by decide)) (L06.Ex.m_ws 2 (by decide) (by decide))
    (L06.Ex.m_w3 2 (by decide) (by decide))).2.2
  (joint_motion C04.Ex.m L06.Ex.w 3 L06.Ex.st L06.Ex.qd L06.Ex.qdd L06.Ex.two_ne rfl
    (C04.Ex.m_unit 3 (by decide) (by decide)) (L06.Ex.m_ws 3 (by decide) (by decide))
    (L06.Ex.m_w3 3 (by decide) (by decide))).2.2
example := compose_kinOk L06.Ex.two_ne (jointPoseJet C04.Ex.m 2 L06.Ex.st L06.Ex.qd L06.Ex.qdd)
  (jointPoseJet C04.Ex.m 3 L06.Ex.st L06.Ex.qd L06.Ex.qdd)
  (joint_motion C04.Ex.m L06.Ex.w 2 L06.Ex.st L06.Ex.qd L06.Ex.qdd L06.Ex.two_ne rfl
    (C04.Ex.m_unit 2 (by decide) (by decide)) (L06.Ex.m_ws 2 (by decide) (by decide))
    (L06.Ex.m_w3 2 (by decide) (by decide))).2.2
  (joint_motion C04.Ex.m L06.Ex.w 3 L06.Ex.st L06.Ex.qd L06.Ex.qdd L06.Ex.two_ne rfl
    (C04.Ex.m_unit 3 (by decide) (by decide)) (L06.Ex.m_ws 3 (by decide) (by decide))
    (L06.Ex.m_w3 3 (by decide) (by decide))).2.2

/-! ### 3. one step of the `UpdateKinematics` loop -/

/-- `L06.ukBody` is the body of the loop of `updateKinematics` -/
theorem updateKinematics_eq_forUp (m : ModelS α) (w : WS α) (st : QS α) (qd qdd : VecN α) :
    updateKinematics m w st qd qdd
      = forUp (m.nBodies - 1) 1 (L06.ukBody m st qd qdd) { w with a := upd w.a 0 SV.zero } := rfl

/-- If `(v[λ], a[λ])` are the spatial velocity / acceleration of the parent's pose jet `Pl` (for
    `λ = 0` the code takes the velocity of the base to be 0), iteration `i` writes those of the
    child's pose jet `Pl ∘ frame_i ∘ joint_i` into `(v[i], a[i])`. -/
theorem step_velocity_acceleration (m : ModelS α) (w : WS α) (i : Nat) (st : QS α)
    (qd qdd : VecN α) (h2 : (2 : α) ≠ 0) (hj : (m.joint i).jt.hasJcalc = true)
    (hE : (m.XT_ i).E.IsRot) (hu : m.jointUnit i st) (hws : L06.JointWS m w i)
    (hw3 : (m.joint i).jt = .spherical → (m.joint i).qIndex + 2 < m.w3 i)
    (Pl : Pose (D2 α)) (hK : KinOk (NodeKin.ofPose Pl))
    (hv : (if m.lam i ≠ 0 then w.v (m.lam i) else SV.zero) = svOfKin (NodeKin.ofPose Pl))
    (ha : w.a (m.lam i) = saOfKin (NodeKin.ofPose Pl)) :
    (L06.ukBody m st qd qdd i w).v i
      = svOfKin (NodeKin.ofPose
          (Pl.comp ((framePoseJet m i).comp (jointPoseJet m i st qd qdd)))) ∧
    (L06.ukBody m st qd qdd i w).a i
      = saOfKin (NodeKin.ofPose
          (Pl.comp ((framePoseJet m i).comp (jointPoseJet m i st qd qdd)))) ∧
    KinOk (NodeKin.ofPose (Pl.comp ((framePoseJet m i).comp (jointPoseJet m i st qd qdd)))) :=
  (L06.step_bodyForm m w i st qd qdd hj hE (L06.jointMotion m w i st qd qdd h2 hj hu hws hw3) Pl
    (L06.bodyForm_of_kinOk h2 hK hv ha)).spec
/-- body 1 of `C04.Ex.m` (revoluteZ on the base, `λ = 0`, base pose = identity) -/
example := step_velocity_acceleration C04.Ex.m L06.Ex.w 1 L06.Ex.st L06.Ex.qd L06.Ex.qdd L06.Ex.two_ne rfl
  (C04.Ex.m_frames 1 (by decide) (by decide)) (C04.Ex.m_unit 1 (by decide) (by decide))
  (L06.Ex.m_ws 1 (by decide) (by decide)) (L06.Ex.m_w3 1 (by decide) (by decide)) Pose.id
  L06.bf_poseId.kinOk L06.bf_poseId.sv.symm L06.bf_poseId.sa.symm

/-! ### 3'. the whole loop -/

/-- Let `P` be any table of pose jets satisfying the forward-kinematics recursion `P 0 = id`,
    `P i = P (λ i) ∘ frame_i ∘ joint_i`.  After `UpdateKinematics (Q, QDot, QDDot)` every `v[i]`, `a[i]`
    (`1 ≤ i < nBodies`) is the spatial velocity / acceleration of `P i`, i.e. a time derivative. -/
theorem updateKinematics_velocity_acceleration (m : ModelS α) (w : WS α) (st : QS α)
    (qd qdd : VecN α) (h2 : (2 : α) ≠ 0)
    (htree : ∀ i, 1 ≤ i → i < m.nBodies → m.lam i < i)
    (hjc : ∀ i, 1 ≤ i → i < m.nBodies → (m.joint i).jt.hasJcalc = true)
    (hframe : ∀ i, 1 ≤ i → i < m.nBodies → (m.XT_ i).E.IsRot)
    (hunit : ∀ i, 1 ≤ i → i < m.nBodies → m.jointUnit i st)
    (hws : ∀ i, 1 ≤ i → i < m.nBodies → L06.JointWS m w i)
    (hw3 : ∀ i, 1 ≤ i → i < m.nBodies → (m.joint i).jt = .spherical →
      (m.joint i).qIndex + 2 < m.w3 i)
    (P : Nat → Pose (D2 α)) (hP0 : P 0 = Pose.id)
    (hP : ∀ i, 1 ≤ i → i < m.nBodies →
      P i = (P (m.lam i)).comp ((framePoseJet m i).comp (jointPoseJet m i st qd qdd))) :
    ∀ i, 1 ≤ i → i < m.nBodies →
      (updateKinematics m w st qd qdd).v i = svOfKin (NodeKin.ofPose (P i)) ∧
      (updateKinematics m w st qd qdd).a i = saOfKin (NodeKin.ofPose (P i)) ∧
      KinOk (NodeKin.ofPose (P i)) :=
  fun i h1 hi =>
    (L06.uk_bodyForm m w st qd qdd h2 htree hjc hframe hunit hws hw3 P hP0 hP i h1 hi).spec

/-- such a table exists: `bodyPoseJet` -/
theorem bodyPoseJet_recursion (m : ModelS α) (st : QS α) (qd qdd : VecN α)
    (htree : ∀ i, 1 ≤ i → i < m.nBodies → m.lam i < i) :
    bodyPoseJet m st qd qdd 0 = Pose.id ∧
    ∀ i, 1 ≤ i → i < m.nBodies →
      bodyPoseJet m st qd qdd i = (bodyPoseJet m st qd qdd (m.lam i)).comp
        ((framePoseJet m i).comp (jointPoseJet m i st qd qdd)) :=
  ⟨rfl, L06.bodyPoseJet_step m st qd qdd htree⟩
example := bodyPoseJet_recursion C04.Ex.m L06.Ex.st L06.Ex.qd L06.Ex.qdd C04.Ex.m_tree

/-- the branched tree `C04.Ex.m` (revoluteZ, revolute, spherical, custom cylindrical) -/
example := updateKinematics_velocity_acceleration C04.Ex.m L06.Ex.w L06.Ex.st L06.Ex.qd L06.Ex.qdd L06.Ex.two_ne
  C04.Ex.m_tree C04.Ex.m_hasJcalc C04.Ex.m_frames C04.Ex.m_unit L06.Ex.m_ws L06.Ex.m_w3
  (bodyPoseJet C04.Ex.m L06.Ex.st L06.Ex.qd L06.Ex.qdd) rfl
  (bodyPoseJet_recursion C04.Ex.m L06.Ex.st L06.Ex.qd L06.Ex.qdd C04.Ex.m_tree).2

/-- `X_base[i]` after the loop is `SpatialTransform(Rᵀ, p)` of the value part `(R, p)` of `P i`
    (a polynomial identity: no rotation / unit hypotheses) -/
theorem updateKinematics_X_base (m : ModelS α) (w : WS α) (st : QS α) (qd qdd : VecN α)
    (htree : ∀ i, 1 ≤ i → i < m.nBodies → m.lam i < i)
    (hjc : ∀ i, 1 ≤ i → i < m.nBodies → (m.joint i).jt.hasJcalc = true)
    (P : Nat → Pose (D2 α)) (hP0 : P 0 = Pose.id)
    (hP : ∀ i, 1 ≤ i → i < m.nBodies →
      P i = (P (m.lam i)).comp ((framePoseJet m i).comp (jointPoseJet m i st qd qdd))) :
    ∀ i, 1 ≤ i → i < m.nBodies →
      (updateKinematics m w st qd qdd).X_base i
        = ⟨(NodeKin.ofPose (P i)).R.transpose, (NodeKin.ofPose (P i)).p⟩ :=
  L06.uk_X_base m w st qd qdd htree hjc P hP0 hP
example := updateKinematics_X_base C04.Ex.m L06.Ex.w L06.Ex.st L06.Ex.qd L06.Ex.qdd C04.Ex.m_tree
  C04.Ex.m_hasJcalc (bodyPoseJet C04.Ex.m L06.Ex.st L06.Ex.qd L06.Ex.qdd) rfl
  (bodyPoseJet_recursion C04.Ex.m L06.Ex.st L06.Ex.qd L06.Ex.qdd C04.Ex.m_tree).2

/-! ### 4. velocity / acceleration of a body-fixed point -/

/-- the formula of `CalcPointVelocity6D`: `pX = SpatialTransform(Eᵀ, x)` with `E = Rᵀ` applied to the
    spatial velocity gives `(ω, d/dt (p + R x))` in base coordinates -/
theorem point_velocity (h2 : (2 : α) ≠ 0) (k : NodeKin α) (hk : KinOk k) (E : M3 α)
    (hE : E = k.R.transpose) (x : V3 α) :
    (⟨E.transpose, x⟩ : XT α).apply (svOfKin k) = ⟨k.omega, k.ptd x⟩ := by
  subst hE
  exact L06.point_velocity_bf (L06.kinOk_bodyForm h2 hk) x

/-- the formula of `CalcPointAcceleration6D`: `pX a + (0, ω' × v')` with `(ω', v') = pX v` gives
    `(ω̇, d²/dt² (p + R x))` -/
theorem point_acceleration (h2 : (2 : α) ≠ 0) (k : NodeKin α) (hk : KinOk k) (E : M3 α)
    (hE : E = k.R.transpose) (x : V3 α) :
    (⟨E.transpose, x⟩ : XT α).apply (saOfKin k)
        + ⟨V3.zero, ((⟨E.transpose, x⟩ : XT α).apply (svOfKin k)).w.cross
            ((⟨E.transpose, x⟩ : XT α).apply (svOfKin k)).v⟩
      = ⟨k.omegaDot, k.ptdd x⟩ := by
  subst hE
  exact L06.point_acceleration_bf (L06.kinOk_bodyForm h2 hk) x

/-- `CalcPointVelocity6D` (movable body, `update_kinematics = false`) on a workspace whose
    `X_base[id]`, `v[id]` describe the pose jet `k`: the result is `Spec.pointVelocity6D`'s
    `(ω, d/dt (p + R x))` -/
theorem calcPointVelocity6D_spec (m : ModelS α) (w : WS α) (st : QS α) (qd : VecN α) (id : Nat)
    (x : V3 α) (h2 : (2 : α) ≠ 0) (hid : ¬ fixedDisc ≤ id) (hid0 : id ≠ 0) (k : NodeKin α)
    (hk : KinOk k) (hE : (w.X_base id).E = k.R.transpose) (hv : w.v id = svOfKin k) :
    (calcPointVelocity6D m w st qd id x false).2 = ⟨k.omega, k.ptd x⟩ := by
  rw [L06.calcPointVelocity6D_eq m w st qd id x hid hid0, hv]
  exact point_velocity h2 k hk _ hE x

/-- `CalcPointAcceleration6D` likewise: `(ω̇, d²/dt² (p + R x))` -/
theorem calcPointAcceleration6D_spec (m : ModelS α) (w : WS α) (st : QS α) (qd qdd : VecN α)
    (id : Nat) (x : V3 α) (h2 : (2 : α) ≠ 0) (hid : ¬ fixedDisc ≤ id) (hid0 : id ≠ 0)
    (k : NodeKin α) (hk : KinOk k) (hE : (w.X_base id).E = k.R.transpose)
    (hv : w.v id = svOfKin k) (ha : w.a id = saOfKin k) :
    (calcPointAcceleration6D m w st qd qdd id x false).2 = ⟨k.omegaDot, k.ptdd x⟩ := by
  rw [L06.calcPointAcceleration6D_eq m w st qd qdd id x hid hid0, hv, ha]
  exact point_acceleration h2 k hk _ hE x

example (x : V3 Rat) :=
  let P := bodyPoseJet C04.Ex.m L06.Ex.st L06.Ex.qd L06.Ex.qdd
  let hP := (bodyPoseJet_recursion C04.Ex.m L06.Ex.st L06.Ex.qd L06.Ex.qdd C04.Ex.m_tree).2
  let r := updateKinematics_velocity_acceleration C04.Ex.m L06.Ex.w L06.Ex.st L06.Ex.qd L06.Ex.qdd L06.Ex.two_ne
    C04.Ex.m_tree C04.Ex.m_hasJcalc C04.Ex.m_frames C04.Ex.m_unit L06.Ex.m_ws L06.Ex.m_w3 P rfl hP 3
    (by decide) (by decide)
  let hX := updateKinematics_X_base C04.Ex.m L06.Ex.w L06.Ex.st L06.Ex.qd L06.Ex.qdd C04.Ex.m_tree
    C04.Ex.m_hasJcalc P rfl hP 3 (by decide) (by decide)
  And.intro
    (calcPointVelocity6D_spec C04.Ex.m (updateKinematics C04.Ex.m L06.Ex.w L06.Ex.st L06.Ex.qd L06.Ex.qdd) L06.Ex.st
      L06.Ex.qd 3 x L06.Ex.two_ne (by decide) (by decide) _ r.2.2 (congrArg XT.E hX) r.1)
    (calcPointAcceleration6D_spec C04.Ex.m (updateKinematics C04.Ex.m L06.Ex.w L06.Ex.st L06.Ex.qd L06.Ex.qdd) L06.Ex.st
      L06.Ex.qd L06.Ex.qdd 3 x L06.Ex.two_ne (by decide) (by decide) _ r.2.2 (congrArg XT.E hX) r.1 r.2.1)

/-- end to end: `UpdateKinematics` followed by `CalcPointVelocity6D` / `CalcPointAcceleration6D`
    (no further update) on a movable body returns `(ω, d/dt (p + R x))` and `(ω̇, d²/dt² (p + R x))` of
    the world pose jet `P id` — the definitions `Spec.pointVelocity6D` / `Spec.pointAcceleration6D` -/
theorem point_velocity_acceleration_after_update (m : ModelS α) (w : WS α) (st : QS α)
    (qd qdd : VecN α) (h2 : (2 : α) ≠ 0)
    (htree : ∀ i, 1 ≤ i → i < m.nBodies → m.lam i < i)
    (hjc : ∀ i, 1 ≤ i → i < m.nBodies → (m.joint i).jt.hasJcalc = true)
    (hframe : ∀ i, 1 ≤ i → i < m.nBodies → (m.XT_ i).E.IsRot)
    (hunit : ∀ i, 1 ≤ i → i < m.nBodies → m.jointUnit i st)
    (hws : ∀ i, 1 ≤ i → i < m.nBodies → L06.JointWS m w i)
    (hw3 : ∀ i, 1 ≤ i → i < m.nBodies → (m.joint i).jt = .spherical →
      (m.joint i).qIndex + 2 < m.w3 i)
    (P : Nat → Pose (D2 α)) (hP0 : P 0 = Pose.id)
    (hP : ∀ i, 1 ≤ i → i < m.nBodies →
      P i = (P (m.lam i)).comp ((framePoseJet m i).comp (jointPoseJet m i st qd qdd)))
    (id : Nat) (h1 : 1 ≤ id) (hi : id < m.nBodies) (hid : ¬ fixedDisc ≤ id) (x : V3 α) :
    (calcPointVelocity6D m (updateKinematics m w st qd qdd) st qd id x false).2
      = ⟨(NodeKin.ofPose (P id)).omega, (NodeKin.ofPose (P id)).ptd x⟩ ∧
    (calcPointAcceleration6D m (updateKinematics m w st qd qdd) st qd qdd id x false).2
      = ⟨(NodeKin.ofPose (P id)).omegaDot, (NodeKin.ofPose (P id)).ptdd x⟩ := by
  obtain ⟨hv, ha, hk⟩ := updateKinematics_velocity_acceleration m w st qd qdd h2 htree hjc hframe
    hunit hws hw3 P hP0 hP id h1 hi
  have hE : ((updateKinematics m w st qd qdd).X_base id).E = (NodeKin.ofPose (P id)).R.transpose :=
    congrArg XT.E (updateKinematics_X_base m w st qd qdd htree hjc P hP0 hP id h1 hi)
  exact ⟨calcPointVelocity6D_spec m _ st qd id x h2 hid (by omega) _ hk hE hv,
    calcPointAcceleration6D_spec m _ st qd qdd id x h2 hid (by omega) _ hk hE hv ha⟩
/-- a point of body 3 (spherical joint, on the revolute joint 2, on the revoluteZ joint 1) -/
example (x : V3 Rat) :=
  point_velocity_acceleration_after_update C04.Ex.m L06.Ex.w L06.Ex.st L06.Ex.qd L06.Ex.qdd L06.Ex.two_ne
    C04.Ex.m_tree C04.Ex.m_hasJcalc C04.Ex.m_frames C04.Ex.m_unit L06.Ex.m_ws L06.Ex.m_w3
    (bodyPoseJet C04.Ex.m L06.Ex.st L06.Ex.qd L06.Ex.qdd) rfl
    (bodyPoseJet_recursion C04.Ex.m L06.Ex.st L06.Ex.qd L06.Ex.qdd C04.Ex.m_tree).2 3 (by decide) (by decide)
    (by decide) x

/-- instance: the spherical joint jet of `C04.Ex.m` -/
example (x : V3 Rat) :=
  point_velocity L06.Ex.two_ne _
    (joint_motion C04.Ex.m L06.Ex.w 3 L06.Ex.st L06.Ex.qd L06.Ex.qdd L06.Ex.two_ne rfl
      (C04.Ex.m_unit 3 (by decide) (by decide)) (L06.Ex.m_ws 3 (by decide) (by decide))
      (L06.Ex.m_w3 3 (by decide) (by decide))).2.2 _ rfl x
example (x : V3 Rat) :=
  point_acceleration L06.Ex.two_ne _
    (joint_motion C04.Ex.m L06.Ex.w 3 L06.Ex.st L06.Ex.qd L06.Ex.qdd L06.Ex.two_ne rfl
      (C04.Ex.m_unit 3 (by decide) (by decide)) (L06.Ex.m_ws 3 (by decide) (by decide))
      (L06.Ex.m_w3 3 (by decide) (by decide))).2.2 _ rfl x

end Rbdl.C06
