import RbdlProofs.Lemmas.LDynCap
import RbdlProofs.Lemmas.LDynCapFinal
import RbdlProofs.Lemmas.LDynCapBuild
import RbdlProofs.Lemmas.LDynCapOrder
import RbdlProofs.Lemmas.LDynCapEx2
import RbdlProofs.Props.C02
/-
  C02, capstone — **`ForwardDynamics` (articulated-body algorithm) solves the first-principles
  equations of motion.**

  "The accelerations returned by `ForwardDynamics(q, q̇, τ, f_ext)` are a solution `q̈` of
   `Spec.newtonEulerTau M (q, q̇, q̈) f_ext = τ`": Newton's and Euler's equations of every body in the
  inertial frame, projected on the partial velocities, balance the applied generalized forces.

  "`CalcMInvTimesTau(q, τ)` returns a solution `x` of `H x = τ`, `H = Spec.inertiaMatrix`."

  `ForwardDynamics`: composition of `C02.aba_inverts_rnea_same_ws` (ABA inverts RNEA, on the code-level
  model) with the C01 capstone (RNEA = first principles).  `CalcMInvTimesTau`: `C02.cmt_inverts_rnea`
  (RNEA form of `H x = τ` in the returned workspace), the transforms / motion subspaces the routine leaves
  (`LDynCap.cmt_fields`: `jcalc_X_lambda_S` in update order), d'Alembert (`C01.rnea_dalembert`), linearity
  of the accelerations in `x` (`LDynCap.crba_lin`) and the C03 capstone (`crba` = `Spec.inertiaMatrix`).
  The hypotheses of C02 stay explicit:
  * `har`   every joint is a 1-DoF or 3-DoF joint (C02 does not cover the custom joints);
  * `hpiv`  the joint-space pivots the run meets are invertible (`d_i ≠ 0`, `det (Sᵀ IA S) ≠ 0` in the
            workspace `forwardDynamics` returns): the algorithm divides by them;
  * `VirtZero` (part of `RefinesF`): virtual bodies carry the zero inertia;
  * `OrderOK` (for `CalcMInvTimesTau`; holds by construction): see `Props/C03Cap.lean`.
  `ModelOK`, `Refines`, `RefinesF`, `StateOK`, `WSFixed`, `stateOf`, `fextSpec`: see `Props/C01Cap.lean`.
-/
namespace Rbdl.C02Cap
open Lean.Grind Rbdl Rbdl.Spec Rbdl.L01Cap Rbdl.LDynCap Rbdl.L02
variable {α : Type} [Field α] [DecidableEq α]

/-- **`ForwardDynamics` returns a solution of the first-principles equations of motion** (arbitrary
    trees with fixed bodies, 1-DoF and 3-DoF joints, external forces, every `WSFixed` workspace, any
    incoming content `q0` of the output vector) -/
theorem forwardDynamics_solves_newtonEuler_fixed {m : ModelS α} {M : SModel α} {off : Nat → XT α}
    {nodeOf : Nat → Nat} (hm : ModelOK m) (hR : RefinesF m M off nodeOf) (h2 : (2 : α) ≠ 0)
    (w : WS α) (hw : WSFixed m w) (st : QS α) (hst : StateOK m st) (qd tau q0 : VecN α)
    (fext : Option (Nat → SV α))
    (har : ∀ i, 1 ≤ i → i < m.nBodies → m.arity i = .one ∨ m.arity i = .three)
    (hpiv : ∀ i, 1 ≤ i → i < m.nBodies →
      pivotOk m (forwardDynamics m w st qd tau q0 fext).1 i) (x : Nat) (hx : x < m.dofCount) :
    (newtonEulerTau M (stateOf st qd (forwardDynamics m w st qd tau q0 fext).2)
      (fextSpec fext)).getD x 0 = tau x := by
  rw [← id_eq_specF hm hR h2 w hw st hst qd _ tau fext x hx]
  exact C02.aba_inverts_rnea_same_ws m hm.wf w st qd tau q0 tau fext har (virtZero_of_refinesF hR)
    (Or.inr hw.1) hpiv x hx

/-- … without fixed bodies (`Refines`) -/
theorem forwardDynamics_solves_newtonEuler {m : ModelS α} {M : SModel α} (hm : ModelOK m)
    (hR : Refines m M) (hv : VirtZero m) (h2 : (2 : α) ≠ 0) (w : WS α) (hw : WSFixed m w)
    (st : QS α) (hst : StateOK m st) (qd tau q0 : VecN α) (fext : Option (Nat → SV α))
    (har : ∀ i, 1 ≤ i → i < m.nBodies → m.arity i = .one ∨ m.arity i = .three)
    (hpiv : ∀ i, 1 ≤ i → i < m.nBodies →
      pivotOk m (forwardDynamics m w st qd tau q0 fext).1 i) (x : Nat) (hx : x < m.dofCount) :
    (newtonEulerTau M (stateOf st qd (forwardDynamics m w st qd tau q0 fext).2)
      (fextSpec fext)).getD x 0 = tau x := by
  rw [← id_eq_spec hm hR h2 w hw st hst qd _ tau fext x hx]
  exact C02.aba_inverts_rnea_same_ws m hm.wf w st qd tau q0 tau fext har hv (Or.inr hw.1) hpiv x hx

/-- end to end: construction calls in (fixed bodies, floating bases), accelerations out -/
theorem forwardDynamics_solves_newtonEuler_constructedF (ops : List (Op α))
    (hg : goodRunF (ModelS.init : ModelS α) ops) (h2 : (2 : α) ≠ 0) (w : WS α)
    (hw : WSFixed ((ModelS.init : ModelS α).run ops) w) (st : QS α)
    (hst : StateOK ((ModelS.init : ModelS α).run ops) st) (qd tau q0 : VecN α)
    (fext : Option (Nat → SV α))
    (har : ∀ i, 1 ≤ i → i < ((ModelS.init : ModelS α).run ops).nBodies →
      ((ModelS.init : ModelS α).run ops).arity i = .one ∨
        ((ModelS.init : ModelS α).run ops).arity i = .three)
    (hpiv : ∀ i, 1 ≤ i → i < ((ModelS.init : ModelS α).run ops).nBodies →
      pivotOk ((ModelS.init : ModelS α).run ops)
        (forwardDynamics ((ModelS.init : ModelS α).run ops) w st qd tau q0 fext).1 i)
    (x : Nat) (hx : x < ((ModelS.init : ModelS α).run ops).dofCount) :
    (newtonEulerTau (specOf ops)
      (stateOf st qd (forwardDynamics ((ModelS.init : ModelS α).run ops) w st qd tau q0 fext).2)
      (fextSpec fext)).getD x 0 = tau x :=
  have h := refinesF_by_construction ops hg
  forwardDynamics_solves_newtonEuler_fixed h.1 h.2 h2 w hw st hst qd tau q0 fext har hpiv x hx

theorem forwardDynamics_solves_newtonEuler_constructed (ops : List (Op α))
    (hg : goodRun (ModelS.init : ModelS α) ops) (h2 : (2 : α) ≠ 0) (w : WS α)
    (hw : WSFixed ((ModelS.init : ModelS α).run ops) w) (st : QS α)
    (hst : StateOK ((ModelS.init : ModelS α).run ops) st) (qd tau q0 : VecN α)
    (fext : Option (Nat → SV α))
    (har : ∀ i, 1 ≤ i → i < ((ModelS.init : ModelS α).run ops).nBodies →
      ((ModelS.init : ModelS α).run ops).arity i = .one ∨
        ((ModelS.init : ModelS α).run ops).arity i = .three)
    (hpiv : ∀ i, 1 ≤ i → i < ((ModelS.init : ModelS α).run ops).nBodies →
      pivotOk ((ModelS.init : ModelS α).run ops)
        (forwardDynamics ((ModelS.init : ModelS α).run ops) w st qd tau q0 fext).1 i)
    (x : Nat) (hx : x < ((ModelS.init : ModelS α).run ops).dofCount) :
    (newtonEulerTau (specOf ops)
      (stateOf st qd (forwardDynamics ((ModelS.init : ModelS α).run ops) w st qd tau q0 fext).2)
      (fextSpec fext)).getD x 0 = tau x :=
  have h := refines_by_construction ops hg
  forwardDynamics_solves_newtonEuler h.1 h.2 (virtZero_by_construction ops hg) h2 w hw st hst qd
    tau q0 fext har hpiv x hx


/-- all hypotheses on the branched tree `L01Cap.Ex` (Euler-ZYX / revolute / spherical / prismatic /
    helical joints), poisoned workspace, external forces, and on `ExG` (floating base, three fixed bodies,
    a joint attached to a fixed body) -/
example (x : Nat) (hx : x < Ex.m.dofCount) :=
  forwardDynamics_solves_newtonEuler Ex.m_ok Ex.m_refines (virtZero_by_construction Ex.ops Ex.ops_good)
    Ex.two_ne Ex.w1 Ex.w1_fixed Ex.st Ex.st_ok Ex.qd exTau Ex.qdd (some Ex.fe) ex_ar ex_piv x hx
example (x : Nat) (hx : x < Ex.m.dofCount) :=
  forwardDynamics_solves_newtonEuler_constructed Ex.ops Ex.ops_good Ex.two_ne Ex.w1 Ex.w1_fixed
    Ex.st Ex.st_ok Ex.qd exTau Ex.qdd (some Ex.fe) ex_ar ex_piv x hx
example (x : Nat) (hx : x < ExG.m.dofCount) :=
  forwardDynamics_solves_newtonEuler_fixed ExG.m_ok ExG.m_refines Ex.two_ne ExG.w1 ExG.w1_fixed
    ExG.st ExG.st_ok Ex.qd exTau Ex.qdd (some Ex.fe) ExG.m_ar ExG.m_piv x hx
example (x : Nat) (hx : x < ExG.m.dofCount) :=
  forwardDynamics_solves_newtonEuler_constructedF ExG.ops ExG.ops_good Ex.two_ne ExG.w1
    ExG.w1_fixed ExG.st ExG.st_ok Ex.qd exTau Ex.qdd (some Ex.fe) ExG.m_ar ExG.m_piv x hx
/-- numerical sanity checks (kernel evaluation over `Rat`): the specification evaluated at the
    accelerations of `forwardDynamics` returns the applied forces -/
example : (newtonEulerTau Ex.M (stateOf Ex.st Ex.qd
      (forwardDynamics Ex.m Ex.w1 Ex.st Ex.qd exTau Ex.qdd (some Ex.fe)).2)
      (fextSpec (some Ex.fe))).getD 0 0 = exTau 0 := by decide +kernel
example : (newtonEulerTau Ex.M (stateOf Ex.st Ex.qd
      (forwardDynamics Ex.m Ex.w1 Ex.st Ex.qd exTau Ex.qdd (some Ex.fe)).2)
      (fextSpec (some Ex.fe))).getD 5 0 = exTau 5 := by decide +kernel
example : (newtonEulerTau ExG.M (stateOf ExG.st Ex.qd
      (forwardDynamics ExG.m ExG.w1 ExG.st Ex.qd exTau Ex.qdd (some Ex.fe)).2)
      (fextSpec (some Ex.fe))).getD 7 0 = exTau 7 := by decide +kernel
/-- the accelerations are not trivial numbers -/
example : (forwardDynamics Ex.m Ex.w1 Ex.st Ex.qd exTau Ex.qdd (some Ex.fe)).2 0 ≠ 0 := by
  decide +kernel

/-! ### `CalcMInvTimesTau` -/

/-- **`CalcMInvTimesTau` solves `H x = τ` with the first-principles inertia matrix**
    (`Spec.inertiaMatrix`, row-major): for the returned `x`, `Σ_c H(r, c) x_c = τ_r` for every row
    `r < dof_count`.  Hypotheses of C02 explicit (`har`, pivots of this run); `OrderOK`: the routine runs
    `jcalc_X_lambda_S` in `mJointUpdateOrder`. -/
theorem calcMInvTimesTau_solves_fixed {m : ModelS α} {M : SModel α} {off : Nat → XT α}
    {nodeOf : Nat → Nat} (hm : ModelOK m) (hR : RefinesF m M off nodeOf) (hord : OrderOK m)
    (h2 : (2 : α) ≠ 0) (w : WS α) (hw : WSFixed m w) (st : QS α) (hst : StateOK m st)
    (qd qdd tau q0 : VecN α)
    (har : ∀ i, 1 ≤ i → i < m.nBodies → m.arity i = .one ∨ m.arity i = .three)
    (hpiv : ∀ i, 1 ≤ i → i < m.nBodies → pivotOk m (calcMInvTimesTau m w st tau q0 true).1 i)
    (r : Nat) (hr : r < m.dofCount) :
    sumTo m.dofCount (fun c =>
      (inertiaMatrix M (stateOf st qd qdd)).getD (r * m.dofCount + c) 0
        * (calcMInvTimesTau m w st tau q0 true).2 c) = tau r :=
  cmt_solves_spec hm (link_of_refinesF hm hR) hord h2 w hw st hst qd qdd tau q0 har hpiv r hr

theorem calcMInvTimesTau_solves {m : ModelS α} {M : SModel α} (hm : ModelOK m) (hR : Refines m M)
    (hv : VirtZero m) (hord : OrderOK m) (h2 : (2 : α) ≠ 0) (w : WS α) (hw : WSFixed m w)
    (st : QS α) (hst : StateOK m st) (qd qdd tau q0 : VecN α)
    (har : ∀ i, 1 ≤ i → i < m.nBodies → m.arity i = .one ∨ m.arity i = .three)
    (hpiv : ∀ i, 1 ≤ i → i < m.nBodies → pivotOk m (calcMInvTimesTau m w st tau q0 true).1 i)
    (r : Nat) (hr : r < m.dofCount) :
    sumTo m.dofCount (fun c =>
      (inertiaMatrix M (stateOf st qd qdd)).getD (r * m.dofCount + c) 0
        * (calcMInvTimesTau m w st tau q0 true).2 c) = tau r :=
  cmt_solves_spec hm (link_of_refines hm hR hv) hord h2 w hw st hst qd qdd tau q0 har hpiv r hr

theorem calcMInvTimesTau_solves_constructedF (ops : List (Op α))
    (hg : goodRunF (ModelS.init : ModelS α) ops) (h2 : (2 : α) ≠ 0)
    (w : WS α) (hw : WSFixed ((ModelS.init : ModelS α).run ops) w) (st : QS α) (hst : StateOK ((ModelS.init : ModelS α).run ops) st)
    (qd qdd tau q0 : VecN α)
    (har : ∀ i, 1 ≤ i → i < ((ModelS.init : ModelS α).run ops).nBodies → ((ModelS.init : ModelS α).run ops).arity i = .one ∨ ((ModelS.init : ModelS α).run ops).arity i = .three)
    (hpiv : ∀ i, 1 ≤ i → i < ((ModelS.init : ModelS α).run ops).nBodies →
      pivotOk ((ModelS.init : ModelS α).run ops) (calcMInvTimesTau ((ModelS.init : ModelS α).run ops) w st tau q0 true).1 i)
    (r : Nat) (hr : r < ((ModelS.init : ModelS α).run ops).dofCount) :
    sumTo ((ModelS.init : ModelS α).run ops).dofCount (fun c =>
      (inertiaMatrix (specOf ops) (stateOf st qd qdd)).getD (r * ((ModelS.init : ModelS α).run ops).dofCount + c) 0
        * (calcMInvTimesTau ((ModelS.init : ModelS α).run ops) w st tau q0 true).2 c) = tau r :=
  have h := refinesF_by_construction ops hg
  calcMInvTimesTau_solves_fixed h.1 h.2 (orderOK_by_constructionF ops hg) h2 w hw st hst qd qdd tau
    q0 har hpiv r hr

theorem calcMInvTimesTau_solves_constructed (ops : List (Op α))
    (hg : goodRun (ModelS.init : ModelS α) ops) (h2 : (2 : α) ≠ 0)
    (w : WS α) (hw : WSFixed ((ModelS.init : ModelS α).run ops) w) (st : QS α) (hst : StateOK ((ModelS.init : ModelS α).run ops) st)
    (qd qdd tau q0 : VecN α)
    (har : ∀ i, 1 ≤ i → i < ((ModelS.init : ModelS α).run ops).nBodies → ((ModelS.init : ModelS α).run ops).arity i = .one ∨ ((ModelS.init : ModelS α).run ops).arity i = .three)
    (hpiv : ∀ i, 1 ≤ i → i < ((ModelS.init : ModelS α).run ops).nBodies →
      pivotOk ((ModelS.init : ModelS α).run ops) (calcMInvTimesTau ((ModelS.init : ModelS α).run ops) w st tau q0 true).1 i)
    (r : Nat) (hr : r < ((ModelS.init : ModelS α).run ops).dofCount) :
    sumTo ((ModelS.init : ModelS α).run ops).dofCount (fun c =>
      (inertiaMatrix (specOf ops) (stateOf st qd qdd)).getD (r * ((ModelS.init : ModelS α).run ops).dofCount + c) 0
        * (calcMInvTimesTau ((ModelS.init : ModelS α).run ops) w st tau q0 true).2 c) = tau r :=
  have h := refines_by_construction ops hg
  calcMInvTimesTau_solves h.1 h.2 (virtZero_by_construction ops hg) (orderOK_by_construction ops hg)
    h2 w hw st hst qd qdd tau q0 har hpiv r hr

example (r : Nat) (hr : r < Ex.m.dofCount) :=
  calcMInvTimesTau_solves Ex.m_ok Ex.m_refines (virtZero_by_construction Ex.ops Ex.ops_good) ex_order
    Ex.two_ne Ex.w1 Ex.w1_fixed Ex.st Ex.st_ok Ex.qd Ex.qdd exTau Ex.qdd ex_ar ex_piv_cmt r hr
example (r : Nat) (hr : r < Ex.m.dofCount) :=
  calcMInvTimesTau_solves_constructed Ex.ops Ex.ops_good Ex.two_ne Ex.w1 Ex.w1_fixed Ex.st
    Ex.st_ok Ex.qd Ex.qdd exTau Ex.qdd ex_ar ex_piv_cmt r hr
example (r : Nat) (hr : r < ExG.m.dofCount) :=
  calcMInvTimesTau_solves_fixed ExG.m_ok ExG.m_refines ExG.m_order Ex.two_ne ExG.w1 ExG.w1_fixed
    ExG.st ExG.st_ok Ex.qd Ex.qdd exTau Ex.qdd ExG.m_ar ExG.m_piv_cmt r hr
example (r : Nat) (hr : r < ExG.m.dofCount) :=
  calcMInvTimesTau_solves_constructedF ExG.ops ExG.ops_good Ex.two_ne ExG.w1
    ExG.w1_fixed ExG.st ExG.st_ok Ex.qd Ex.qdd exTau Ex.qdd ExG.m_ar ExG.m_piv_cmt r hr
/-- numerical sanity check: row 3 of `H_spec · x` on the revolute – prismatic – Euler-ZYX chain
    `Ex.mB` (5 DoF; one evaluation of the routine per column keeps the kernel check short) -/
example : sumTo 5 (fun c =>
      (inertiaMatrix (specOf Ex.opsB) (stateOf Ex.st Ex.qd Ex.qdd)).getD (3 * 5 + c) 0
        * (calcMInvTimesTau Ex.mB (initWS Ex.mB) Ex.st exTau Ex.qdd true).2 c) = exTau 3 := by
  decide +kernel

end Rbdl.C02Cap
