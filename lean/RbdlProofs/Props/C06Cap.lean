import RbdlProofs.Lemmas.LKinCapBuild
import RbdlProofs.Lemmas.L01CapEx
import RbdlProofs.Lemmas.L01CapFixEx
import RbdlProofs.Props.C13
/-
  C06, capstone — **point velocities and accelerations are the time derivatives of first-principles
  forward kinematics.**

  "For every well-formed model, admissible state, workspace, body id, body-fixed point `x` and every
   `q̇`, `q̈`: `CalcPointVelocity(6D)` and `CalcPointAcceleration(6D)` (`update_kinematics = true`) return
   the first / second jet of the specification's world pose `t ↦ p(t) + R(t) x` of that body (and the
   angular velocity / acceleration `[ω]× = Ṙ Rᵀ`, `[ω̇]× = R̈ Rᵀ + Ṙ Ṙᵀ`)."

  Code side: `Rbdl/Kin.lean` (spatial velocities / accelerations propagated by `UpdateKinematicsCustom
  (Q, QDot)` resp. `UpdateKinematics`, fixed bodies through the movable parent).  Specification side:
  `Spec.pointVelocity(6D)`, `Spec.pointAcceleration(6D)` (`Rbdl/Spec/Mech.lean`): `NodeKin.ptd`, `ptdd`,
  `omega`, `omegaDot` of the node's entry of `Spec.kinTable` — the poses of `Spec.fkTable` evaluated on
  the second-order coordinate jets `Spec.coordJets` (chain rule for `cos`, `sin`; `Q̇ = ½ Q ⊗ ω` for
  spherical joints).

  Notions as in `C04Cap` / `C01Cap`.  Hypotheses that cannot be dropped: `2 ≠ 0` (spherical joints;
  turning the symmetric form of `Ṙ Rᵀ` into `ω`, C06 has the `GF(2)` counterexample) and `StateOK`
  (velocities are derivatives of *rotations* only for unit quaternions / `cos² + sin² = 1` / unit axes).
-/
namespace Rbdl.C06Cap
open Lean.Grind Rbdl Rbdl.Spec Rbdl.L01Cap Rbdl.LKinCap
variable {α : Type} [Field α] [DecidableEq α]

/-! ### Stage B — models without fixed bodies (`Refines`): every movable body id and the base -/

theorem calcPointVelocity6D_eq_spec {m : ModelS α} {M : SModel α} (hm : ModelOK m) (hR : Refines m M)
    (h2 : (2 : α) ≠ 0) (w : WS α) (hw : WSFixed m w) (st : QS α) (hst : StateOK m st)
    (qd qdd : VecN α) (id : Nat) (hid : id < m.nBodies) (hfd : id < fixedDisc) (p : V3 α) :
    (calcPointVelocity6D m w st qd id p true).2
      = Spec.pointVelocity6D M (stateOf st qd qdd) id p :=
  pointVelocity6D_core hm (resolvesR hm hR id hid hfd).1 (resolvesR hm hR id hid hfd).2 h2 w hw st hst
    qd qdd p
example (p : V3 Rat) :=
  calcPointVelocity6D_eq_spec Ex.m_ok Ex.m_refines Ex.two_ne Ex.w1 Ex.w1_fixed Ex.st Ex.st_ok Ex.qd
    Ex.qdd 5 (by decide +kernel) (by decide) p

theorem calcPointVelocity_eq_spec {m : ModelS α} {M : SModel α} (hm : ModelOK m) (hR : Refines m M)
    (h2 : (2 : α) ≠ 0) (w : WS α) (hw : WSFixed m w) (st : QS α) (hst : StateOK m st)
    (qd qdd : VecN α) (id : Nat) (hid : id < m.nBodies) (hfd : id < fixedDisc) (p : V3 α) :
    (calcPointVelocity m w st qd id p true).2
      = Spec.pointVelocity M (stateOf st qd qdd) id p :=
  pointVelocity_core hm (resolvesR hm hR id hid hfd).1 (resolvesR hm hR id hid hfd).2 h2 w hw st hst
    qd qdd p
example (p : V3 Rat) :=
  calcPointVelocity_eq_spec Ex.m_ok Ex.m_refines Ex.two_ne Ex.w1 Ex.w1_fixed Ex.st Ex.st_ok Ex.qd
    Ex.qdd 5 (by decide +kernel) (by decide) p

theorem calcPointAcceleration6D_eq_spec {m : ModelS α} {M : SModel α} (hm : ModelOK m) (hR : Refines m M)
    (h2 : (2 : α) ≠ 0) (w : WS α) (hw : WSFixed m w) (st : QS α) (hst : StateOK m st)
    (qd qdd : VecN α) (id : Nat) (hid : id < m.nBodies) (hfd : id < fixedDisc) (p : V3 α) :
    (calcPointAcceleration6D m w st qd qdd id p true).2
      = Spec.pointAcceleration6D M (stateOf st qd qdd) id p :=
  pointAcceleration6D_core hm (resolvesR hm hR id hid hfd).1 (resolvesR hm hR id hid hfd).2 h2 w hw st hst
    qd qdd p
example (p : V3 Rat) :=
  calcPointAcceleration6D_eq_spec Ex.m_ok Ex.m_refines Ex.two_ne Ex.w1 Ex.w1_fixed Ex.st Ex.st_ok Ex.qd
    Ex.qdd 5 (by decide +kernel) (by decide) p

theorem calcPointAcceleration_eq_spec {m : ModelS α} {M : SModel α} (hm : ModelOK m) (hR : Refines m M)
    (h2 : (2 : α) ≠ 0) (w : WS α) (hw : WSFixed m w) (st : QS α) (hst : StateOK m st)
    (qd qdd : VecN α) (id : Nat) (hid : id < m.nBodies) (hfd : id < fixedDisc) (p : V3 α) :
    (calcPointAcceleration m w st qd qdd id p true).2
      = Spec.pointAcceleration M (stateOf st qd qdd) id p :=
  pointAcceleration_core hm (resolvesR hm hR id hid hfd).1 (resolvesR hm hR id hid hfd).2 h2 w hw st hst
    qd qdd p
example (p : V3 Rat) :=
  calcPointAcceleration_eq_spec Ex.m_ok Ex.m_refines Ex.two_ne Ex.w1 Ex.w1_fixed Ex.st Ex.st_ok Ex.qd
    Ex.qdd 5 (by decide +kernel) (by decide) p

/-! ### Stage D — models with fixed bodies (`RefinesF` + `FixedIds`): every valid body id -/

theorem calcPointVelocity6D_eq_spec_fixed {m : ModelS α} {M : SModel α} {off : Nat → XT α}
    {nodeOf : Nat → Nat} (hm : ModelOK m) (hR : RefinesF m M off nodeOf) (hI : FixedIds m M off)
    (hcap : m.nBodies ≤ fixedDisc) (h2 : (2 : α) ≠ 0) (w : WS α) (hw : WSFixed m w) (st : QS α)
    (hst : StateOK m st) (qd qdd : VecN α) (id : Nat) (hid : m.validId id) (p : V3 α) :
    (calcPointVelocity6D m w st qd id p true).2
      = Spec.pointVelocity6D M (stateOf st qd qdd) id p := by
  obtain ⟨hT, b, T, hres⟩ := resolvesF hm hR hI hcap id hid
  exact pointVelocity6D_core hm hT hres h2 w hw st hst qd qdd p

theorem calcPointVelocity_eq_spec_fixed {m : ModelS α} {M : SModel α} {off : Nat → XT α}
    {nodeOf : Nat → Nat} (hm : ModelOK m) (hR : RefinesF m M off nodeOf) (hI : FixedIds m M off)
    (hcap : m.nBodies ≤ fixedDisc) (h2 : (2 : α) ≠ 0) (w : WS α) (hw : WSFixed m w) (st : QS α)
    (hst : StateOK m st) (qd qdd : VecN α) (id : Nat) (hid : m.validId id) (p : V3 α) :
    (calcPointVelocity m w st qd id p true).2
      = Spec.pointVelocity M (stateOf st qd qdd) id p := by
  obtain ⟨hT, b, T, hres⟩ := resolvesF hm hR hI hcap id hid
  exact pointVelocity_core hm hT hres h2 w hw st hst qd qdd p

theorem calcPointAcceleration6D_eq_spec_fixed {m : ModelS α} {M : SModel α} {off : Nat → XT α}
    {nodeOf : Nat → Nat} (hm : ModelOK m) (hR : RefinesF m M off nodeOf) (hI : FixedIds m M off)
    (hcap : m.nBodies ≤ fixedDisc) (h2 : (2 : α) ≠ 0) (w : WS α) (hw : WSFixed m w) (st : QS α)
    (hst : StateOK m st) (qd qdd : VecN α) (id : Nat) (hid : m.validId id) (p : V3 α) :
    (calcPointAcceleration6D m w st qd qdd id p true).2
      = Spec.pointAcceleration6D M (stateOf st qd qdd) id p := by
  obtain ⟨hT, b, T, hres⟩ := resolvesF hm hR hI hcap id hid
  exact pointAcceleration6D_core hm hT hres h2 w hw st hst qd qdd p

theorem calcPointAcceleration_eq_spec_fixed {m : ModelS α} {M : SModel α} {off : Nat → XT α}
    {nodeOf : Nat → Nat} (hm : ModelOK m) (hR : RefinesF m M off nodeOf) (hI : FixedIds m M off)
    (hcap : m.nBodies ≤ fixedDisc) (h2 : (2 : α) ≠ 0) (w : WS α) (hw : WSFixed m w) (st : QS α)
    (hst : StateOK m st) (qd qdd : VecN α) (id : Nat) (hid : m.validId id) (p : V3 α) :
    (calcPointAcceleration m w st qd qdd id p true).2
      = Spec.pointAcceleration M (stateOf st qd qdd) id p := by
  obtain ⟨hT, b, T, hres⟩ := resolvesF hm hR hI hcap id hid
  exact pointAcceleration_core hm hT hres h2 w hw st hst qd qdd p

/-- the model of `L01Cap.ExF`: the imu (`disc + 1`, fixed on a fixed body on the revolute thigh), the
    plate (`disc + 2`, fixed on the base), the shank (movable body 4 attached to a fixed body), the
    sensor (`disc`); poisoned workspace -/
example (p : V3 Rat) :=
  calcPointVelocity6D_eq_spec_fixed ExF.m_ok ExF.m_refines
    (LKinCap.fixedIds_by_construction ExF.ops ExF.ops_good).1
    (LKinCap.fixedIds_by_construction ExF.ops ExF.ops_good).2 Ex.two_ne ExF.w1 ExF.w1_fixed ExF.st
    ExF.st_ok Ex.qd Ex.qdd (fixedDisc + 1) (Or.inr (by decide +kernel)) p
example (p : V3 Rat) :=
  calcPointVelocity_eq_spec_fixed ExF.m_ok ExF.m_refines
    (LKinCap.fixedIds_by_construction ExF.ops ExF.ops_good).1
    (LKinCap.fixedIds_by_construction ExF.ops ExF.ops_good).2 Ex.two_ne ExF.w1 ExF.w1_fixed ExF.st
    ExF.st_ok Ex.qd Ex.qdd (fixedDisc + 2) (Or.inr (by decide +kernel)) p
example (p : V3 Rat) :=
  calcPointAcceleration6D_eq_spec_fixed ExF.m_ok ExF.m_refines
    (LKinCap.fixedIds_by_construction ExF.ops ExF.ops_good).1
    (LKinCap.fixedIds_by_construction ExF.ops ExF.ops_good).2 Ex.two_ne ExF.w1 ExF.w1_fixed ExF.st
    ExF.st_ok Ex.qd Ex.qdd 4 (Or.inl (by decide +kernel)) p
example (p : V3 Rat) :=
  calcPointAcceleration_eq_spec_fixed ExF.m_ok ExF.m_refines
    (LKinCap.fixedIds_by_construction ExF.ops ExF.ops_good).1
    (LKinCap.fixedIds_by_construction ExF.ops ExF.ops_good).2 Ex.two_ne ExF.w1 ExF.w1_fixed ExF.st
    ExF.st_ok Ex.qd Ex.qdd fixedDisc (Or.inr (by decide +kernel)) p

/-! ### Stage E — end to end: construction calls in, velocities / accelerations out -/

theorem calcPointVelocity6D_eq_spec_constructed (ops : List (Op α))
    (hg : goodRun (ModelS.init : ModelS α) ops) (h2 : (2 : α) ≠ 0) (w : WS α)
    (hw : WSFixed ((ModelS.init : ModelS α).run ops) w) (st : QS α)
    (hst : StateOK ((ModelS.init : ModelS α).run ops) st) (qd qdd : VecN α) (id : Nat)
    (hid : id < ((ModelS.init : ModelS α).run ops).nBodies) (hfd : id < fixedDisc) (p : V3 α) :
    (calcPointVelocity6D ((ModelS.init : ModelS α).run ops) w st qd id p true).2
      = Spec.pointVelocity6D (specOf ops) (stateOf st qd qdd) id p :=
  have h := L01Cap.refines_by_construction ops hg
  calcPointVelocity6D_eq_spec h.1 h.2 h2 w hw st hst qd qdd id hid hfd p
example (p : V3 Rat) :=
  calcPointVelocity6D_eq_spec_constructed Ex.ops Ex.ops_good Ex.two_ne Ex.w1 Ex.w1_fixed Ex.st Ex.st_ok
    Ex.qd Ex.qdd 3 (by decide +kernel) (by decide) p

theorem calcPointVelocity_eq_spec_constructed (ops : List (Op α))
    (hg : goodRun (ModelS.init : ModelS α) ops) (h2 : (2 : α) ≠ 0) (w : WS α)
    (hw : WSFixed ((ModelS.init : ModelS α).run ops) w) (st : QS α)
    (hst : StateOK ((ModelS.init : ModelS α).run ops) st) (qd qdd : VecN α) (id : Nat)
    (hid : id < ((ModelS.init : ModelS α).run ops).nBodies) (hfd : id < fixedDisc) (p : V3 α) :
    (calcPointVelocity ((ModelS.init : ModelS α).run ops) w st qd id p true).2
      = Spec.pointVelocity (specOf ops) (stateOf st qd qdd) id p :=
  have h := L01Cap.refines_by_construction ops hg
  calcPointVelocity_eq_spec h.1 h.2 h2 w hw st hst qd qdd id hid hfd p
example (p : V3 Rat) :=
  calcPointVelocity_eq_spec_constructed Ex.ops Ex.ops_good Ex.two_ne Ex.w1 Ex.w1_fixed Ex.st Ex.st_ok
    Ex.qd Ex.qdd 3 (by decide +kernel) (by decide) p

theorem calcPointAcceleration6D_eq_spec_constructed (ops : List (Op α))
    (hg : goodRun (ModelS.init : ModelS α) ops) (h2 : (2 : α) ≠ 0) (w : WS α)
    (hw : WSFixed ((ModelS.init : ModelS α).run ops) w) (st : QS α)
    (hst : StateOK ((ModelS.init : ModelS α).run ops) st) (qd qdd : VecN α) (id : Nat)
    (hid : id < ((ModelS.init : ModelS α).run ops).nBodies) (hfd : id < fixedDisc) (p : V3 α) :
    (calcPointAcceleration6D ((ModelS.init : ModelS α).run ops) w st qd qdd id p true).2
      = Spec.pointAcceleration6D (specOf ops) (stateOf st qd qdd) id p :=
  have h := L01Cap.refines_by_construction ops hg
  calcPointAcceleration6D_eq_spec h.1 h.2 h2 w hw st hst qd qdd id hid hfd p
example (p : V3 Rat) :=
  calcPointAcceleration6D_eq_spec_constructed Ex.ops Ex.ops_good Ex.two_ne Ex.w1 Ex.w1_fixed Ex.st Ex.st_ok
    Ex.qd Ex.qdd 3 (by decide +kernel) (by decide) p

theorem calcPointAcceleration_eq_spec_constructed (ops : List (Op α))
    (hg : goodRun (ModelS.init : ModelS α) ops) (h2 : (2 : α) ≠ 0) (w : WS α)
    (hw : WSFixed ((ModelS.init : ModelS α).run ops) w) (st : QS α)
    (hst : StateOK ((ModelS.init : ModelS α).run ops) st) (qd qdd : VecN α) (id : Nat)
    (hid : id < ((ModelS.init : ModelS α).run ops).nBodies) (hfd : id < fixedDisc) (p : V3 α) :
    (calcPointAcceleration ((ModelS.init : ModelS α).run ops) w st qd qdd id p true).2
      = Spec.pointAcceleration (specOf ops) (stateOf st qd qdd) id p :=
  have h := L01Cap.refines_by_construction ops hg
  calcPointAcceleration_eq_spec h.1 h.2 h2 w hw st hst qd qdd id hid hfd p
example (p : V3 Rat) :=
  calcPointAcceleration_eq_spec_constructed Ex.ops Ex.ops_good Ex.two_ne Ex.w1 Ex.w1_fixed Ex.st Ex.st_ok
    Ex.qd Ex.qdd 3 (by decide +kernel) (by decide) p

/-! **models built by `goodRunF`** (single-body joints, fixed joints, floating base, custom joints, any
    valid parent), every valid body id — the strongest statements of this file -/

theorem calcPointVelocity6D_eq_spec_constructedF (ops : List (Op α))
    (hg : goodRunF (ModelS.init : ModelS α) ops) (h2 : (2 : α) ≠ 0) (w : WS α)
    (hw : WSFixed ((ModelS.init : ModelS α).run ops) w) (st : QS α)
    (hst : StateOK ((ModelS.init : ModelS α).run ops) st) (qd qdd : VecN α) (id : Nat)
    (hid : ((ModelS.init : ModelS α).run ops).validId id) (p : V3 α) :
    (calcPointVelocity6D ((ModelS.init : ModelS α).run ops) w st qd id p true).2
      = Spec.pointVelocity6D (specOf ops) (stateOf st qd qdd) id p :=
  have h := L01Cap.refinesF_by_construction ops hg
  have hI := LKinCap.fixedIds_by_construction ops hg
  calcPointVelocity6D_eq_spec_fixed h.1 h.2 hI.1 hI.2 h2 w hw st hst qd qdd id hid p
example (p : V3 Rat) :=
  calcPointVelocity6D_eq_spec_constructedF ExF.ops ExF.ops_good Ex.two_ne ExF.w1 ExF.w1_fixed ExF.st
    ExF.st_ok Ex.qd Ex.qdd (fixedDisc + 1) (Or.inr (by decide +kernel)) p

theorem calcPointVelocity_eq_spec_constructedF (ops : List (Op α))
    (hg : goodRunF (ModelS.init : ModelS α) ops) (h2 : (2 : α) ≠ 0) (w : WS α)
    (hw : WSFixed ((ModelS.init : ModelS α).run ops) w) (st : QS α)
    (hst : StateOK ((ModelS.init : ModelS α).run ops) st) (qd qdd : VecN α) (id : Nat)
    (hid : ((ModelS.init : ModelS α).run ops).validId id) (p : V3 α) :
    (calcPointVelocity ((ModelS.init : ModelS α).run ops) w st qd id p true).2
      = Spec.pointVelocity (specOf ops) (stateOf st qd qdd) id p :=
  have h := L01Cap.refinesF_by_construction ops hg
  have hI := LKinCap.fixedIds_by_construction ops hg
  calcPointVelocity_eq_spec_fixed h.1 h.2 hI.1 hI.2 h2 w hw st hst qd qdd id hid p
example (p : V3 Rat) :=
  calcPointVelocity_eq_spec_constructedF ExF.ops ExF.ops_good Ex.two_ne ExF.w1 ExF.w1_fixed ExF.st
    ExF.st_ok Ex.qd Ex.qdd (fixedDisc + 2) (Or.inr (by decide +kernel)) p

theorem calcPointAcceleration6D_eq_spec_constructedF (ops : List (Op α))
    (hg : goodRunF (ModelS.init : ModelS α) ops) (h2 : (2 : α) ≠ 0) (w : WS α)
    (hw : WSFixed ((ModelS.init : ModelS α).run ops) w) (st : QS α)
    (hst : StateOK ((ModelS.init : ModelS α).run ops) st) (qd qdd : VecN α) (id : Nat)
    (hid : ((ModelS.init : ModelS α).run ops).validId id) (p : V3 α) :
    (calcPointAcceleration6D ((ModelS.init : ModelS α).run ops) w st qd qdd id p true).2
      = Spec.pointAcceleration6D (specOf ops) (stateOf st qd qdd) id p :=
  have h := L01Cap.refinesF_by_construction ops hg
  have hI := LKinCap.fixedIds_by_construction ops hg
  calcPointAcceleration6D_eq_spec_fixed h.1 h.2 hI.1 hI.2 h2 w hw st hst qd qdd id hid p
example (p : V3 Rat) :=
  calcPointAcceleration6D_eq_spec_constructedF ExF.ops ExF.ops_good Ex.two_ne ExF.w1 ExF.w1_fixed ExF.st
    ExF.st_ok Ex.qd Ex.qdd 4 (Or.inl (by decide +kernel)) p

theorem calcPointAcceleration_eq_spec_constructedF (ops : List (Op α))
    (hg : goodRunF (ModelS.init : ModelS α) ops) (h2 : (2 : α) ≠ 0) (w : WS α)
    (hw : WSFixed ((ModelS.init : ModelS α).run ops) w) (st : QS α)
    (hst : StateOK ((ModelS.init : ModelS α).run ops) st) (qd qdd : VecN α) (id : Nat)
    (hid : ((ModelS.init : ModelS α).run ops).validId id) (p : V3 α) :
    (calcPointAcceleration ((ModelS.init : ModelS α).run ops) w st qd qdd id p true).2
      = Spec.pointAcceleration (specOf ops) (stateOf st qd qdd) id p :=
  have h := L01Cap.refinesF_by_construction ops hg
  have hI := LKinCap.fixedIds_by_construction ops hg
  calcPointAcceleration_eq_spec_fixed h.1 h.2 hI.1 hI.2 h2 w hw st hst qd qdd id hid p
example (p : V3 Rat) :=
  calcPointAcceleration_eq_spec_constructedF ExF.ops ExF.ops_good Ex.two_ne ExF.w1 ExF.w1_fixed ExF.st
    ExF.st_ok Ex.qd Ex.qdd fixedDisc (Or.inr (by decide +kernel)) p

/-! ### the `update_kinematics = false` variants after the documented update call (C13) -/

theorem calcPointVelocity6D_flagCleared_eq_spec {m : ModelS α} {M : SModel α} {off : Nat → XT α}
    {nodeOf : Nat → Nat} (hm : ModelOK m) (hR : RefinesF m M off nodeOf) (hI : FixedIds m M off)
    (hcap : m.nBodies ≤ fixedDisc) (h2 : (2 : α) ≠ 0) (w : WS α) (hw : WSFixed m w) (st : QS α)
    (hst : StateOK m st) (qd qdd : VecN α) (id : Nat) (hid : m.validId id) (p : V3 α) :
    (calcPointVelocity6D m (updateKinematicsCustom m w (some st) (some qd) none) st qd id p false).2
      = Spec.pointVelocity6D M (stateOf st qd qdd) id p := by
  rw [C13.flag_cleared_calcPointVelocity6D]
  exact calcPointVelocity6D_eq_spec_fixed hm hR hI hcap h2 w hw st hst qd qdd id hid p
example (p : V3 Rat) :=
  calcPointVelocity6D_flagCleared_eq_spec ExF.m_ok ExF.m_refines
    (LKinCap.fixedIds_by_construction ExF.ops ExF.ops_good).1
    (LKinCap.fixedIds_by_construction ExF.ops ExF.ops_good).2 Ex.two_ne ExF.w1 ExF.w1_fixed ExF.st
    ExF.st_ok Ex.qd Ex.qdd (fixedDisc + 1) (Or.inr (by decide +kernel)) p

theorem calcPointVelocity_flagCleared_eq_spec {m : ModelS α} {M : SModel α} {off : Nat → XT α}
    {nodeOf : Nat → Nat} (hm : ModelOK m) (hR : RefinesF m M off nodeOf) (hI : FixedIds m M off)
    (hcap : m.nBodies ≤ fixedDisc) (h2 : (2 : α) ≠ 0) (w : WS α) (hw : WSFixed m w) (st : QS α)
    (hst : StateOK m st) (qd qdd : VecN α) (id : Nat) (hid : m.validId id) (p : V3 α) :
    (calcPointVelocity m (updateKinematicsCustom m w (some st) (some qd) none) st qd id p false).2
      = Spec.pointVelocity M (stateOf st qd qdd) id p := by
  rw [C13.flag_cleared_calcPointVelocity]
  exact calcPointVelocity_eq_spec_fixed hm hR hI hcap h2 w hw st hst qd qdd id hid p
example (p : V3 Rat) :=
  calcPointVelocity_flagCleared_eq_spec ExF.m_ok ExF.m_refines
    (LKinCap.fixedIds_by_construction ExF.ops ExF.ops_good).1
    (LKinCap.fixedIds_by_construction ExF.ops ExF.ops_good).2 Ex.two_ne ExF.w1 ExF.w1_fixed ExF.st
    ExF.st_ok Ex.qd Ex.qdd (fixedDisc + 2) (Or.inr (by decide +kernel)) p

theorem calcPointAcceleration6D_flagCleared_eq_spec {m : ModelS α} {M : SModel α} {off : Nat → XT α}
    {nodeOf : Nat → Nat} (hm : ModelOK m) (hR : RefinesF m M off nodeOf) (hI : FixedIds m M off)
    (hcap : m.nBodies ≤ fixedDisc) (h2 : (2 : α) ≠ 0) (w : WS α) (hw : WSFixed m w) (st : QS α)
    (hst : StateOK m st) (qd qdd : VecN α) (id : Nat) (hid : m.validId id) (p : V3 α) :
    (calcPointAcceleration6D m (updateKinematics m w st qd qdd) st qd qdd id p false).2
      = Spec.pointAcceleration6D M (stateOf st qd qdd) id p := by
  rw [C13.flag_cleared_calcPointAcceleration6D]
  exact calcPointAcceleration6D_eq_spec_fixed hm hR hI hcap h2 w hw st hst qd qdd id hid p
example (p : V3 Rat) :=
  calcPointAcceleration6D_flagCleared_eq_spec ExF.m_ok ExF.m_refines
    (LKinCap.fixedIds_by_construction ExF.ops ExF.ops_good).1
    (LKinCap.fixedIds_by_construction ExF.ops ExF.ops_good).2 Ex.two_ne ExF.w1 ExF.w1_fixed ExF.st
    ExF.st_ok Ex.qd Ex.qdd 4 (Or.inl (by decide +kernel)) p

theorem calcPointAcceleration_flagCleared_eq_spec {m : ModelS α} {M : SModel α} {off : Nat → XT α}
    {nodeOf : Nat → Nat} (hm : ModelOK m) (hR : RefinesF m M off nodeOf) (hI : FixedIds m M off)
    (hcap : m.nBodies ≤ fixedDisc) (h2 : (2 : α) ≠ 0) (w : WS α) (hw : WSFixed m w) (st : QS α)
    (hst : StateOK m st) (qd qdd : VecN α) (id : Nat) (hid : m.validId id) (p : V3 α) :
    (calcPointAcceleration m (updateKinematics m w st qd qdd) st qd qdd id p false).2
      = Spec.pointAcceleration M (stateOf st qd qdd) id p := by
  rw [C13.flag_cleared_calcPointAcceleration]
  exact calcPointAcceleration_eq_spec_fixed hm hR hI hcap h2 w hw st hst qd qdd id hid p
example (p : V3 Rat) :=
  calcPointAcceleration_flagCleared_eq_spec ExF.m_ok ExF.m_refines
    (LKinCap.fixedIds_by_construction ExF.ops ExF.ops_good).1
    (LKinCap.fixedIds_by_construction ExF.ops ExF.ops_good).2 Ex.two_ne ExF.w1 ExF.w1_fixed ExF.st
    ExF.st_ok Ex.qd Ex.qdd fixedDisc (Or.inr (by decide +kernel)) p

/-! ### numerical sanity checks (kernel evaluation over `Rat`, both sides computed independently)

  The branched model `L01Cap.ExF` (6 movable bodies incl. the base, 3 fixed bodies, 12 DoF), poisoned
  workspace, `q̇ = (1, 2, …)`, `q̈ = (2, 5/3, …)`. -/

example : (calcPointVelocity6D ExF.m ExF.w1 ExF.st Ex.qd (fixedDisc + 1) ⟨1, 2, 3⟩ true).2
    = Spec.pointVelocity6D ExF.M (stateOf ExF.st Ex.qd Ex.qdd) (fixedDisc + 1) ⟨1, 2, 3⟩ := by
  decide +kernel
example : (calcPointVelocity ExF.m ExF.w1 ExF.st Ex.qd 4 ⟨1, 2, 3⟩ true).2
    = Spec.pointVelocity ExF.M (stateOf ExF.st Ex.qd Ex.qdd) 4 ⟨1, 2, 3⟩ := by
  decide +kernel
example : (calcPointVelocity ExF.m ExF.w1 ExF.st Ex.qd (fixedDisc + 2) ⟨1, 2, 3⟩ true).2
    = Spec.pointVelocity ExF.M (stateOf ExF.st Ex.qd Ex.qdd) (fixedDisc + 2) ⟨1, 2, 3⟩ := by
  decide +kernel
example : (calcPointAcceleration6D ExF.m ExF.w1 ExF.st Ex.qd Ex.qdd (fixedDisc + 1) ⟨1, 2, 3⟩ true).2
    = Spec.pointAcceleration6D ExF.M (stateOf ExF.st Ex.qd Ex.qdd) (fixedDisc + 1) ⟨1, 2, 3⟩ := by
  decide +kernel
example : (calcPointAcceleration ExF.m ExF.w1 ExF.st Ex.qd Ex.qdd 4 ⟨1, 2, 3⟩ true).2
    = Spec.pointAcceleration ExF.M (stateOf ExF.st Ex.qd Ex.qdd) 4 ⟨1, 2, 3⟩ := by
  decide +kernel
example : (calcPointAcceleration ExF.m ExF.w1 ExF.st Ex.qd Ex.qdd 5 ⟨1, 2, 3⟩ true).2
    = Spec.pointAcceleration ExF.M (stateOf ExF.st Ex.qd Ex.qdd) 5 ⟨1, 2, 3⟩ := by
  decide +kernel
/-- `StateOK` cannot be dropped: with (cos, sin) = (1, 1) for every angle (`cos² + sin² = 2`; model,
    workspace, `2 ≠ 0` as before) the angular velocity of the specification is `(cos² + sin²) q̇` times the
    axis, the code's is `q̇` times the axis -/
example : (calcPointVelocity6D ExF.m ExF.w1 ⟨ExF.st.q, fun _ => 1, fun _ => 1⟩ Ex.qd 3 ⟨1, 2, 3⟩
      true).2
    ≠ Spec.pointVelocity6D ExF.M (stateOf ⟨ExF.st.q, fun _ => 1, fun _ => 1⟩ Ex.qd Ex.qdd) 3
      ⟨1, 2, 3⟩ := by decide +kernel
/-- the value itself is not trivial -/
example : (calcPointVelocity ExF.m ExF.w1 ExF.st Ex.qd (fixedDisc + 1) ⟨1, 2, 3⟩ true).2
    ≠ V3.zero := by decide +kernel

end Rbdl.C06Cap
