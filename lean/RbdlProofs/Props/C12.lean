import RbdlProofs.Lemmas.L12
import RbdlProofs.Lemmas.L12Ex
import RbdlProofs.Lemmas.L12Kin
/-
  C12 — centre of mass, zero-moment point, kinetic and potential energy (`rbdl_utils.cc`).

  Helper definitions live in `RbdlProofs/Lemmas/L12.lean` (namespace `Rbdl.L12`): `zmpPoint`,
  `zmpH3`, `zmpTotals`, `comTotals`, `comKin`, `massSum` …; the generic loop lemmas in
  `RbdlProofs/Lemmas/Loops.lean` (namespace `Rbdl.Loops`): `lsum z f l = Σ_{i ∈ l} f i`.
  Every theorem with hypotheses is followed by an `example` instantiating it over `Rat`.
-/
namespace Rbdl.C12
open Lean.Grind Rbdl Rbdl.Loops Rbdl.L12

/-! ## 1. the zero-moment point as vector algebra -/
section ZmpAlgebra
variable {α : Type} [Field α]

/-- the ZMP lies in the plane through `p` with normal `n` -/
theorem zmp_on_plane (n p n0 f : V3 α) (h : n.dot f ≠ 0) :
    n.dot (zmpPoint n p n0 f - p) = 0 := by
  simp only [alg, zmpPoint] at h ⊢
  grind
example : Ex.n.dot (zmpPoint Ex.n Ex.p Ex.n0 Ex.f - Ex.p) = 0 := zmp_on_plane _ _ _ _ Ex.n_dot_f

/-- the moment of the wrench `(n0, f)` about the ZMP has no component tangential to the plane -/
theorem zmp_no_tangential_moment (n p n0 f : V3 α) (h : n.dot f ≠ 0) :
    n.cross (n0 - (zmpPoint n p n0 f).cross f) = V3.zero := by
  simp only [alg, zmpPoint] at h ⊢
  ext <;> grind
example : Ex.n.cross (Ex.n0 - (zmpPoint Ex.n Ex.p Ex.n0 Ex.f).cross Ex.f) = V3.zero :=
  zmp_no_tangential_moment _ _ _ _ Ex.n_dot_f

/-- the two properties determine the point (true as stated: `n·f ≠ 0` is the only side condition) -/
theorem zmp_unique (n p n0 f z' : V3 α) (h : n.dot f ≠ 0) (h1 : n.dot (z' - p) = 0)
    (h2 : n.cross (n0 - z'.cross f) = V3.zero) : z' = zmpPoint n p n0 f := by
  simp only [alg, zmpPoint, V3.mk.injEq] at h h1 h2 ⊢
  obtain ⟨h2x, h2y, h2z⟩ := h2
  ext <;> grind
example (z' : V3 Rat) (h1 : Ex.n.dot (z' - Ex.p) = 0)
    (h2 : Ex.n.cross (Ex.n0 - z'.cross Ex.f) = V3.zero) : z' = zmpPoint Ex.n Ex.p Ex.n0 Ex.f :=
  zmp_unique _ _ _ _ z' Ex.n_dot_f h1 h2
/-- the hypotheses of `zmp_unique` are satisfiable: the ZMP itself has both properties -/
example : Ex.n.dot (zmpPoint Ex.n Ex.p Ex.n0 Ex.f - Ex.p) = 0 ∧
    Ex.n.cross (Ex.n0 - (zmpPoint Ex.n Ex.p Ex.n0 Ex.f).cross Ex.f) = V3.zero :=
  ⟨zmp_on_plane _ _ _ _ Ex.n_dot_f, zmp_no_tangential_moment _ _ _ _ Ex.n_dot_f⟩

/-- `n·f ≠ 0` cannot be dropped: for a force in the plane the formula divides by zero
    (`1 / 0 = 0` in a `Lean.Grind.Field`) and returns the origin, which is not on the plane -/
example : Ex.n.dot Ex.fBad = 0 ∧ Ex.n.dot (zmpPoint Ex.n Ex.p Ex.n0 Ex.fBad - Ex.p) ≠ 0 := by
  refine ⟨Ex.n_dot_fBad, ?_⟩
  simp only [alg, zmpPoint]
  grind

end ZmpAlgebra

/-! ## 2. the last lines of `CalcZeroMomentPoint` -/
section ZmpFormula
variable {α : Type}

/-- `h3 = Xcom⁻¹* ((Xcom* hdtot) - mass (0, g)) = (hdtot.w - com × (mass g), hdtot.v - mass g)` -/
theorem zmp_formula [CommRing α] (com g : V3 α) (mass : α) (hdtot : SV α) :
    (Xtrans com).inverse.applyAdjoint
        ((Xtrans com).applyAdjoint hdtot - mass * (⟨V3.zero, g⟩ : SV α))
      = ⟨hdtot.w - com.cross (mass * g), hdtot.v - mass * g⟩ := zmp_wrench com g mass hdtot

variable [Field α]

/-- `CalcZeroMomentPoint` returns `zmpPoint normal point n0 f` for the net moment
    `n0 = hdtot.w - com × (mass g)` and net force `f = hdtot.v - mass g`, where `(Itot, hdtot)` are
    the totals of the backward loop, `mass = Itot.m`, `com = Itot.h / mass` -/
theorem zmp_output (m : ModelS α) (w : WS α) (st : QS α) (qd qdd : VecN α) (normal point : V3 α)
    (update : Bool) :
    let T := zmpTotals m w st qd qdd update
    let mass := T.1.m
    let com := (1 / mass) * T.1.h
    (calcZeroMomentPoint m w st qd qdd normal point update).2 =
      zmpPoint normal point (T.2.w - com.cross (mass * m.gravity)) (T.2.v - mass * m.gravity) := by
  intro T mass com
  rw [zmp_raw, zmpH3_eq]

/-- the point returned by `CalcZeroMomentPoint` is on the plane and the contact wrench
    (`n0`, `f`: inertial minus gravitational) has no tangential moment about it -/
theorem zmp_output_correct (m : ModelS α) (w : WS α) (st : QS α) (qd qdd : VecN α)
    (normal point : V3 α) (update : Bool) :
    let T := zmpTotals m w st qd qdd update
    let mass := T.1.m
    let com := (1 / mass) * T.1.h
    let n0 := T.2.w - com.cross (mass * m.gravity)
    let f := T.2.v - mass * m.gravity
    let z := (calcZeroMomentPoint m w st qd qdd normal point update).2
    normal.dot f ≠ 0 →
      normal.dot (z - point) = 0 ∧ normal.cross (n0 - z.cross f) = V3.zero := by
  intro T mass com n0 f z hf
  have hz : z = zmpPoint normal point n0 f := zmp_output m w st qd qdd normal point update
  rw [hz]
  exact ⟨zmp_on_plane _ _ _ _ hf, zmp_no_tangential_moment _ _ _ _ hf⟩

/-- the totals of `CalcZeroMomentPoint` are the sums over all bodies of the base-frame transforms
    of `I_i` and of `I_i a_i + v_i ×* I_i v_i` (kinematically consistent workspace) -/
theorem zmp_total (m : ModelS α) (w : WS α) (st : QS α) (qd qdd : VecN α) (update : Bool)
    (htree : ∀ i, 1 ≤ i → i ≤ m.nBodies - 1 → m.lam i < i)
    (hbase : ∀ i, 1 ≤ i → i ≤ m.nBodies - 1 →
      (zmpKin m w st qd qdd update).X_base i =
        if m.lam i ≠ 0 then (zmpKin m w st qd qdd update).X_lambda i
            * (zmpKin m w st qd qdd update).X_base (m.lam i)
        else (zmpKin m w st qd qdd update).X_lambda i)
    (hrot : ∀ i, 1 ≤ i → i ≤ m.nBodies - 1 → ((zmpKin m w st qd qdd update).X_base i).E.IsRot) :
    let w0 := zmpKin m w st qd qdd update
    zmpTotals m w st qd qdd update =
      (lsum RBI.zero (fun i => (w0.X_base i).applyTransposeRBI (m.rbi i))
        (List.range' 1 (m.nBodies - 1)),
       lsum SV.zero (fun i => (w0.X_base i).applyTranspose
          (m.rbi i * w0.a i + crossf (w0.v i) (m.rbi i * w0.v i)))
        (List.range' 1 (m.nBodies - 1))) := by
  intro w0
  have hk : KinOK m w0 := ⟨htree, hbase, hrot⟩
  have hb : (zmpInit m w0).X_base = w0.X_base :=
    zmpInit_keep (fun w => w.X_base) (fun _ _ _ => rfl) m w0 _
  unfold zmpTotals
  refine Prod.ext ?_ ?_
  · show (zmpBwd m (zmpInit m w0)).2.1 = _
    rw [zmpBwd_Itot m _ hk.zmpInit]
    refine lsum_congr _ _ _ (fun i hi => ?_)
    rw [List.mem_range'_1] at hi
    rw [hb, zmpInit_Ic m w0 i hi.1 (by omega)]
  · show (zmpBwd m (zmpInit m w0)).2.2 = _
    rw [zmpBwd_hdtot m _ hk.zmpInit]
    refine lsum_congr _ _ _ (fun i hi => ?_)
    rw [List.mem_range'_1] at hi
    rw [hb, zmpInit_hdotc m w0 i hi.1 (by omega)]

end ZmpFormula

example : zmpKin Ex.m Ex.w C04.Ex.st zeroVec zeroVec false = Ex.w := rfl
example := zmp_total Ex.m Ex.w C04.Ex.st zeroVec zeroVec false
  Ex.w_kinOK.tree Ex.w_kinOK.base Ex.w_kinOK.rot

/-- on the one-body model `Ex.m1` the totals evaluate; the net contact force is not in the plane
    with normal `Ex.n`, so `zmp_output_correct` applies -/
example :
    let T := zmpTotals Ex.m1 Ex.w1 C04.Ex.st zeroVec zeroVec false
    Ex.n.dot (T.2.v - T.1.m * Ex.m1.gravity) ≠ 0 := by
  intro T
  have hT : T = (C16.Ex.X.applyTransposeRBI Ex.I1 + RBI.zero,
      C16.Ex.X.applyTranspose (Ex.I1 * Ex.a1 + crossf Ex.v1 (Ex.I1 * Ex.v1)) + SV.zero) :=
    zmp_total Ex.m1 Ex.w1 C04.Ex.st zeroVec zeroVec false
      Ex.w1_kinOK.tree Ex.w1_kinOK.base Ex.w1_kinOK.rot
  have hg : Ex.m1.gravity = Ex.g := rfl
  rw [hT, hg]
  simp only [alg]
  grind

/-! ## 3. `CalcCenterOfMass`: the totals of the backward loop -/
section Com
variable {α : Type} [Field α]

/-- the outputs of `CalcCenterOfMass` in terms of the totals `(Itot, htot)` of its backward loop -/
theorem com_outputs (m : ModelS α) (w : WS α) (st : QS α) (qd : VecN α) (qdd : Option (VecN α))
    (wantAcc update : Bool) :
    let T := comTotals m w st qd qdd wantAcc update
    let o := (calcCenterOfMass m w st qd qdd wantAcc update).2
    o.mass = T.1.m ∧ o.com = (1 / T.1.m) * T.1.h ∧ o.comVel = (1 / T.1.m) * T.2.v ∧
    o.angMom = ((Xtrans o.com).applyAdjoint T.2).w :=
  ⟨rfl, rfl, rfl, rfl⟩

/-- (L3 for the model's loop) `Itot`, `htot` are the sums over the bodies attached to the root of the
    transported **final** `Ic[c]`, `hc[c]`, and these satisfy the subtree recursion (L2):
    only the tree order is needed -/
theorem com_total_root (m : ModelS α) (w1 : WS α)
    (htree : ∀ i, 1 ≤ i → i ≤ m.nBodies - 1 → m.lam i < i) :
    let n := m.nBodies - 1
    let r := comBwd m w1
    r.2.1 = lsum RBI.zero (fun c => (w1.X_lambda c).applyTransposeRBI (r.1.Ic c))
      (childrenOf m.lam n 0) ∧
    r.2.2 = lsum SV.zero (fun c => (w1.X_lambda c).applyTranspose (r.1.hc c))
      (childrenOf m.lam n 0) ∧
    (∀ i, 1 ≤ i → i ≤ n →
      r.1.Ic i = w1.Ic i + lsum RBI.zero (fun c => (w1.X_lambda c).applyTransposeRBI (r.1.Ic c))
        (childrenOf m.lam n i)) ∧
    (∀ i, 1 ≤ i → i ≤ n →
      r.1.hc i = w1.hc i + lsum SV.zero (fun c => (w1.X_lambda c).applyTranspose (r.1.hc c))
        (childrenOf m.lam n i)) := by
  intro n r
  have hI := comBwd_I m w1
  have hh := comBwd_h m w1
  have hI1 : r.1.Ic = forDown n n (bwdBody m.lam (fun c a x => a + TI w1.X_lambda c x)) w1.Ic := by
    have := congrArg Prod.fst hI
    rw [tot_fst] at this; exact this
  have hh1 : r.1.hc = forDown n n (bwdBody m.lam (fun c a x => a + Th w1.X_lambda c x)) w1.hc := by
    have := congrArg Prod.fst hh
    rw [tot_fst] at this; exact this
  refine ⟨?_, ?_, ?_, ?_⟩
  · have := congrArg Prod.snd hI
    dsimp only at this
    show (comBwd m w1).2.1 = _
    rw [this, tot_sum m.lam (TI w1.X_lambda) rbi_addLaws n htree, rbi_addLaws.zero_add, hI1]
    rfl
  · have := congrArg Prod.snd hh
    dsimp only at this
    show (comBwd m w1).2.2 = _
    rw [this, tot_sum m.lam (Th w1.X_lambda) sv_addLaws n htree, sv_addLaws.zero_add, hh1]
    rfl
  · intro i h1 h2
    rw [hI1]
    exact bwd_sum m.lam (TI w1.X_lambda) rbi_addLaws n htree w1.Ic i (by omega)
  · intro i h1 h2
    rw [hh1]
    exact bwd_sum m.lam (Th w1.X_lambda) sv_addLaws n htree w1.hc i (by omega)
example := com_total_root Ex.m Ex.w Ex.w_kinOK.tree

/-- **com_total**: for a kinematically consistent workspace (`X_base[i] = X_λ[i] X_base[λ i]`,
    rotations) `Itot` and `htot` are the sums over all bodies of the base-frame transforms
    `X_base[i]ᵀ I_i X_base[i]` and `X_base[i]ᵀ (I_i v_i)` -/
theorem com_total (m : ModelS α) (w : WS α) (st : QS α) (qd : VecN α) (qdd : Option (VecN α))
    (wantAcc update : Bool)
    (htree : ∀ i, 1 ≤ i → i ≤ m.nBodies - 1 → m.lam i < i)
    (hbase : ∀ i, 1 ≤ i → i ≤ m.nBodies - 1 →
      (comKin m w st qd qdd update).X_base i =
        if m.lam i ≠ 0 then (comKin m w st qd qdd update).X_lambda i
            * (comKin m w st qd qdd update).X_base (m.lam i)
        else (comKin m w st qd qdd update).X_lambda i)
    (hrot : ∀ i, 1 ≤ i → i ≤ m.nBodies - 1 → ((comKin m w st qd qdd update).X_base i).E.IsRot) :
    let w0 := comKin m w st qd qdd update
    comTotals m w st qd qdd wantAcc update =
      (lsum RBI.zero (fun i => (w0.X_base i).applyTransposeRBI (m.rbi i))
        (List.range' 1 (m.nBodies - 1)),
       lsum SV.zero (fun i => (w0.X_base i).applyTranspose (m.rbi i * w0.v i))
        (List.range' 1 (m.nBodies - 1))) := by
  intro w0
  have hk : KinOK m w0 := ⟨htree, hbase, hrot⟩
  unfold comTotals
  refine Prod.ext ?_ ?_
  · show (comBwd m (comInit m w0 _)).2.1 = _
    rw [comBwd_Itot m _ (hk.comInit _)]
    refine lsum_congr _ _ _ (fun i hi => ?_)
    rw [List.mem_range'_1] at hi
    rw [comInit_X_base, comInit_Ic m w0 _ i hi.1 (by omega)]
  · show (comBwd m (comInit m w0 _)).2.2 = _
    rw [comBwd_htot m _ (hk.comInit _)]
    refine lsum_congr _ _ _ (fun i hi => ?_)
    rw [List.mem_range'_1] at hi
    rw [comInit_X_base, comInit_hc m w0 _ i hi.1 (by omega)]
example : comKin Ex.m Ex.w C04.Ex.st zeroVec none false = Ex.w := rfl
example := com_total Ex.m Ex.w C04.Ex.st zeroVec none false false
  Ex.w_kinOK.tree Ex.w_kinOK.base Ex.w_kinOK.rot

/-- total mass = `Σ m_i`; `mass · com = Σ (E_iᵀ h_i + m_i r_i)` (first moments in the base frame) -/
theorem com_mass_moment (m : ModelS α) (w : WS α) (st : QS α) (qd : VecN α)
    (qdd : Option (VecN α)) (wantAcc update : Bool)
    (htree : ∀ i, 1 ≤ i → i ≤ m.nBodies - 1 → m.lam i < i)
    (hbase : ∀ i, 1 ≤ i → i ≤ m.nBodies - 1 →
      (comKin m w st qd qdd update).X_base i =
        if m.lam i ≠ 0 then (comKin m w st qd qdd update).X_lambda i
            * (comKin m w st qd qdd update).X_base (m.lam i)
        else (comKin m w st qd qdd update).X_lambda i)
    (hrot : ∀ i, 1 ≤ i → i ≤ m.nBodies - 1 → ((comKin m w st qd qdd update).X_base i).E.IsRot) :
    let w0 := comKin m w st qd qdd update
    let o := (calcCenterOfMass m w st qd qdd wantAcc update).2
    o.mass = lsum 0 (fun i => (m.rbi i).m) (List.range' 1 (m.nBodies - 1)) ∧
    (o.mass ≠ 0 → o.mass * o.com =
      lsum V3.zero (fun i => (w0.X_base i).E.tmulVec (m.rbi i).h + (m.rbi i).m * (w0.X_base i).r)
        (List.range' 1 (m.nBodies - 1))) := by
  intro w0 o
  have ht := com_total m w st qd qdd wantAcc update htree hbase hrot
  have hm : o.mass = (comTotals m w st qd qdd wantAcc update).1.m := rfl
  have hc : o.com = (1 / (comTotals m w st qd qdd wantAcc update).1.m)
      * (comTotals m w st qd qdd wantAcc update).1.h := rfl
  refine ⟨?_, fun hne => ?_⟩
  · rw [hm, ht, rbi_lsum_m]; rfl
  · have hcancel : ∀ (M : α) (h : V3 α), M ≠ 0 → M * ((1 / M) * h) = h := by
      intro M h hM; ext <;> simp only [alg] <;> grind
    rw [hc, ← hm, hcancel _ _ hne, ht, rbi_lsum_h]; rfl
example := com_mass_moment Ex.m Ex.w C04.Ex.st zeroVec none false false
  Ex.w_kinOK.tree Ex.w_kinOK.base Ex.w_kinOK.rot

end Com

/-! ## 4. kinetic energy -/
section Kinetic
variable {α : Type} [Field α]

/-- `CalcKineticEnergy = Σ_{i=1}^{n} ½ v_i · (I_i v_i)` (velocities of the workspace after the
    optional kinematics update; `update = false`: the given workspace) -/
theorem kinetic_energy_sum (m : ModelS α) (w : WS α) (st : QS α) (qd : VecN α) (update : Bool) :
    let w0 := if update then updateKinematicsCustom m w (some st) (some qd) none else w
    calcKineticEnergy m w st qd update =
      (w0, lsum 0 (fun i => (w0.v i).dot (m.rbi i * w0.v i) / 2) (List.range' 1 (m.nBodies - 1))) := by
  intro w0
  show (w0, forUp (m.nBodies - 1) 1 (fun i acc => acc + (w0.v i).dot (m.rbi i * w0.v i) / 2) 0) = _
  rw [forUp_add_eq ring_addLaws (fun i => (w0.v i).dot (m.rbi i * w0.v i) / 2),
    ring_addLaws.zero_add]

theorem kinetic_energy_sum_noupdate (m : ModelS α) (w : WS α) (st : QS α) (qd : VecN α) :
    calcKineticEnergy m w st qd false =
      (w, lsum 0 (fun i => (w.v i).dot (m.rbi i * w.v i) / 2) (List.range' 1 (m.nBodies - 1))) :=
  kinetic_energy_sum m w st qd false

/-- body-frame König decomposition: for `I = createFromMassComInertiaC m c Ic` (`Ic` symmetric)
    `½ v·(I v) = ½ m |v_c|² + ½ ω·(Ic ω)` with `ω = v.w`, `v_c = v.v + ω × c` -/
theorem kinetic_koenig (m : α) (c : V3 α) (Ic : M3 α) (hs : Ic.transpose = Ic) (v : SV α) :
    v.dot (RBI.ofMassComInertiaC m c Ic * v) / 2
      = m * (v.v + v.w.cross c).nrm2 / 2 + v.w.dot (Ic * v.w) / 2 := by
  simp only [M3.transpose, M3.ext_iff] at hs
  simp only [alg]
  grind
example (v : SV Rat) : v.dot (RBI.ofMassComInertiaC 2 ⟨1, 0, 1/2⟩ C16.Ex.Ic * v) / 2
    = 2 * (v.v + v.w.cross ⟨1, 0, 1/2⟩).nrm2 / 2 + v.w.dot (C16.Ex.Ic * v.w) / 2 :=
  kinetic_koenig _ _ _ C16.Ex.Ic_symm v

/-- both together: for a model whose inertias come from `(mass, com, Ic)` triples (as `AddBody`
    produces them) the kinetic energy is `Σ ½ m_i |v_{c,i}|² + ½ ω_i·(Ic_i ω_i)` -/
theorem kinetic_energy_koenig (m : ModelS α) (w : WS α) (st : QS α) (qd : VecN α)
    (mass : Nat → α) (c : Nat → V3 α) (Ic : Nat → M3 α)
    (hI : ∀ i, 1 ≤ i → i ≤ m.nBodies - 1 →
      m.rbi i = RBI.ofMassComInertiaC (mass i) (c i) (Ic i) ∧ (Ic i).transpose = Ic i) :
    (calcKineticEnergy m w st qd false).2 =
      lsum 0 (fun i => mass i * ((w.v i).v + (w.v i).w.cross (c i)).nrm2 / 2
          + (w.v i).w.dot (Ic i * (w.v i).w) / 2) (List.range' 1 (m.nBodies - 1)) := by
  rw [kinetic_energy_sum_noupdate]
  refine lsum_congr _ _ _ (fun i hi => ?_)
  rw [List.mem_range'_1] at hi
  obtain ⟨h1, h2⟩ := hI i hi.1 (by omega)
  rw [h1]
  exact kinetic_koenig _ _ _ h2 _
example (w : WS Rat) (qd : VecN Rat) :=
  kinetic_energy_koenig Ex.m w C04.Ex.st qd
    (fun i => if i = 1 then 2 else if i = 2 then 3 else if i = 3 then 1/2 else 1)
    (fun i => if i = 1 then ⟨1, 0, 1/2⟩ else if i = 2 then ⟨0, 1, 1⟩
      else if i = 3 then ⟨-1, 2, 0⟩ else ⟨1/3, 1/3, 1⟩)
    (fun i => if i = 3 then M3.one else C16.Ex.Ic)
    (by
      intro i h1 h2
      have hn : Ex.m.nBodies = 5 := rfl
      obtain rfl | rfl | rfl | rfl : i = 1 ∨ i = 2 ∨ i = 3 ∨ i = 4 := by omega
      all_goals exact ⟨rfl, rfl⟩)

/-- symmetry of `Ic` cannot be dropped (the inertia stores only the lower triangle of `Ic`) -/
example : ¬ ∀ (Ic : M3 Rat) (v : SV Rat), v.dot (RBI.ofMassComInertiaC 1 V3.zero Ic * v) / 2
    = 1 * (v.v + v.w.cross V3.zero).nrm2 / 2 + v.w.dot (Ic * v.w) / 2 := by
  intro h
  have := h ⟨0, 1, 0, 0, 0, 0, 0, 0, 0⟩ ⟨⟨1, 1, 0⟩, V3.zero⟩
  simp only [alg] at this
  grind

end Kinetic

/-! ## 5. potential energy -/
section Potential
variable {α : Type} [Field α]

/-- `CalcPotentialEnergy = mass · com·(−g)` of the `CalcCenterOfMass` outputs (velocities zero) -/
theorem potential_energy_def (m : ModelS α) (w : WS α) (st : QS α) (update : Bool) :
    calcPotentialEnergy m w st update =
      ((calcCenterOfMass m w st zeroVec none false update).1,
       (calcCenterOfMass m w st zeroVec none false update).2.mass
        * (calcCenterOfMass m w st zeroVec none false update).2.com.dot (-m.gravity)) := rfl

/-- `Σ m_i c_i·(−g) = M C·(−g)` for `M = Σ m_i ≠ 0`, `C = (Σ m_i c_i) / M` -/
theorem potential_energy_list (g : V3 α) (l : List (α × V3 α)) (hM : massSum l ≠ 0) :
    peSum g l = massSum l * ((1 / massSum l) * momentSum l).dot (-g) := by
  rw [peSum_eq]
  generalize massSum l = M at hM
  generalize momentSum l = h
  simp only [alg]
  grind
example : peSum Ex.g Ex.pts = massSum Ex.pts * ((1 / massSum Ex.pts) * momentSum Ex.pts).dot (-Ex.g) :=
  potential_energy_list _ _ Ex.pts_mass

/-- the potential energy of the model is the sum of the potential energies of the bodies
    (`E_iᵀ h_i + m_i r_i` = mass times base-frame position of the centre of mass of body `i`) -/
theorem potential_energy_sum (m : ModelS α) (w : WS α) (st : QS α) (update : Bool)
    (htree : ∀ i, 1 ≤ i → i ≤ m.nBodies - 1 → m.lam i < i)
    (hbase : ∀ i, 1 ≤ i → i ≤ m.nBodies - 1 →
      (comKin m w st zeroVec none update).X_base i =
        if m.lam i ≠ 0 then (comKin m w st zeroVec none update).X_lambda i
            * (comKin m w st zeroVec none update).X_base (m.lam i)
        else (comKin m w st zeroVec none update).X_lambda i)
    (hrot : ∀ i, 1 ≤ i → i ≤ m.nBodies - 1 →
      ((comKin m w st zeroVec none update).X_base i).E.IsRot)
    (hmass : (calcCenterOfMass m w st zeroVec none false update).2.mass ≠ 0) :
    let w0 := comKin m w st zeroVec none update
    (calcPotentialEnergy m w st update).2 =
      lsum 0 (fun i => ((w0.X_base i).E.tmulVec (m.rbi i).h + (m.rbi i).m * (w0.X_base i).r).dot
        (-m.gravity)) (List.range' 1 (m.nBodies - 1)) := by
  intro w0
  have h := (com_mass_moment m w st zeroVec none false update htree hbase hrot).2 hmass
  have hdot : ∀ (M : α) (c g : V3 α), M * c.dot g = (M * c).dot g := by
    intro M c g; simp only [alg]; grind
  show (calcCenterOfMass m w st zeroVec none false update).2.mass
        * (calcCenterOfMass m w st zeroVec none false update).2.com.dot (-m.gravity) = _
  rw [hdot, h, v3_lsum_dot]

end Potential

/-! ## 6. the same with `update_kinematics = true`, hypotheses on the model and the state only -/
section Updated
variable {α : Type} [Field α]

/-- `com_total` for `update_kinematics = true`: for a model in tree order with joints of the types
    `jcalc` handles, rotation joint frames, and a state with unit (cos, sin) pairs / axes /
    quaternions, the totals are the sums over all bodies of the base-frame transforms -/
theorem com_total_updated (m : ModelS α) (w : WS α) (st : QS α) (qd : VecN α)
    (qdd : Option (VecN α)) (wantAcc : Bool)
    (htree : ∀ i, 1 ≤ i → i < m.nBodies → m.lam i < i)
    (hjc : ∀ i, 1 ≤ i → i < m.nBodies → (m.joint i).jt.hasJcalc = true)
    (hframe : ∀ i, 1 ≤ i → i < m.nBodies → (m.XT_ i).E.IsRot)
    (hunit : ∀ i, 1 ≤ i → i < m.nBodies → m.jointUnit i st)
    (h0 : (w.X_base 0).E.IsRot) :
    let w0 := updateKinematicsCustom m w (some st) (some qd) qdd
    comTotals m w st qd qdd wantAcc true =
      (lsum RBI.zero (fun i => (w0.X_base i).applyTransposeRBI (m.rbi i))
        (List.range' 1 (m.nBodies - 1)),
       lsum SV.zero (fun i => (w0.X_base i).applyTranspose (m.rbi i * w0.v i))
        (List.range' 1 (m.nBodies - 1))) := by
  have hk := kinOK_ukc m w st qd qdd htree hjc hframe hunit h0
  exact com_total m w st qd qdd wantAcc true hk.tree hk.base hk.rot

/-- `zmp_total` for `update_kinematics = true` -/
theorem zmp_total_updated (m : ModelS α) (w : WS α) (st : QS α) (qd qdd : VecN α)
    (htree : ∀ i, 1 ≤ i → i < m.nBodies → m.lam i < i)
    (hjc : ∀ i, 1 ≤ i → i < m.nBodies → (m.joint i).jt.hasJcalc = true)
    (hframe : ∀ i, 1 ≤ i → i < m.nBodies → (m.XT_ i).E.IsRot)
    (hunit : ∀ i, 1 ≤ i → i < m.nBodies → m.jointUnit i st)
    (h0 : (w.X_base 0).E.IsRot) :
    let w0 := updateKinematicsCustom m w (some st) (some qd) (some qdd)
    zmpTotals m w st qd qdd true =
      (lsum RBI.zero (fun i => (w0.X_base i).applyTransposeRBI (m.rbi i))
        (List.range' 1 (m.nBodies - 1)),
       lsum SV.zero (fun i => (w0.X_base i).applyTranspose
          (m.rbi i * w0.a i + crossf (w0.v i) (m.rbi i * w0.v i)))
        (List.range' 1 (m.nBodies - 1))) := by
  have hk := kinOK_ukc m w st qd (some qdd) htree hjc hframe hunit h0
  exact zmp_total m w st qd qdd true hk.tree hk.base hk.rot

end Updated

example (qd : VecN Rat) (qdd : Option (VecN Rat)) := com_total_updated Ex.m C04.Ex.w C04.Ex.st qd qdd
  true Ex.m_tree Ex.m_hasJcalc Ex.m_frames Ex.m_unit C04.Ex.w_base0
example (qd qdd : VecN Rat) := zmp_total_updated Ex.m C04.Ex.w C04.Ex.st qd qdd
  Ex.m_tree Ex.m_hasJcalc Ex.m_frames Ex.m_unit C04.Ex.w_base0

end Rbdl.C12
