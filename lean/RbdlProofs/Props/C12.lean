import RbdlProofs.Lemmas.L12
import RbdlProofs.Lemmas.L12Ex
import RbdlProofs.Lemmas.L12Kin
import RbdlProofs.Lemmas.L12b
import RbdlProofs.Lemmas.L12bEx
/-
  C12 — centre of mass, zero-moment point, kinetic and potential energy (`rbdl_utils.cc`).

  Helper definitions live in `RbdlProofs/Lemmas/L12.lean` (namespace `Rbdl.L12`): `zmpPoint`,
  `zmpH3`, `zmpTotals`, `comTotals`, `comKin`, `massSum` …; the generic loop lemmas in
  `RbdlProofs/Lemmas/Loops.lean` (namespace `Rbdl.Loops`): `lsum z f l = Σ_{i ∈ l} f i`.
  Every theorem with hypotheses is followed by an `example` instantiating it over `Rat`.
-/
namespace Rbdl.C12
open Lean.Grind Rbdl Rbdl.Loops Rbdl.L12

/-! ## 1. the zero-moment point as vector algebra -/
section ZmpAlgebra
variable {α : Type} [Field α]

/-- the ZMP lies in the plane through `p` with normal `n` -/
theorem zmp_on_plane (n p n0 f : V3 α) (h : n.dot f ≠ 0) :
    n.dot (zmpPoint n p n0 f - p) = 0 := by
  simp only [alg, zmpPoint] at h ⊢
  grind
example : Ex.n.dot (zmpPoint Ex.n Ex.p Ex.n0 Ex.f - Ex.p) = 0 := zmp_on_plane _ _ _ _ Ex.n_dot_f

/-- the moment of the wrench `(n0, f)` about the ZMP has no component tangential to the plane -/
theorem zmp_no_tangential_moment (n p n0 f : V3 α) (h : n.dot f ≠ 0) :
    n.cross (n0 - (zmpPoint n p n0 f).cross f) = V3.zero := by
  simp only [alg, zmpPoint] at h ⊢
  ext <;> grind
example : Ex.n.cross (Ex.n0 - (zmpPoint Ex.n Ex.p Ex.n0 Ex.f).cross Ex.f) = V3.zero :=
  zmp_no_tangential_moment _ _ _ _ Ex.n_dot_f

/-- the two properties determine the point (true as stated: `n·f ≠ 0` is the only side condition) -/
theorem zmp_unique (n p n0 f z' : V3 α) (h : n.dot f ≠ 0) (h1 : n.dot (z' - p) = 0)
    (h2 : n.cross (n0 - z'.cross f) = V3.zero) : z' = zmpPoint n p n0 f := by
  simp only [alg, zmpPoint, V3.mk.injEq] at h h1 h2 ⊢
  obtain ⟨h2x, h2y, h2z⟩ := h2
  ext <;> grind
example (z' : V3 Rat) (h1 : Ex.n.dot (z' - Ex.p) = 0)
    (h2 : Ex.n.cross (Ex.n0 - z'.cross Ex.f) = V3.zero) : z' = zmpPoint Ex.n Ex.p Ex.n0 Ex.f :=
  zmp_unique _ _ _ _ z' Ex.n_dot_f h1 h2
/-- the hypotheses of `zmp_unique` are satisfiable: the ZMP itself has both properties -/
example : Ex.n.dot (zmpPoint Ex.n Ex.p Ex.n0 Ex.f - Ex.p) = 0 ∧
    Ex.n.cross (Ex.n0 - (zmpPoint Ex.n Ex.p Ex.n0 Ex.f).cross Ex.f) = V3.zero :=
  ⟨zmp_on_plane _ _ _ _ Ex.n_dot_f, zmp_no_tangential_moment _ _ _ _ Ex.n_dot_f⟩

/-- `n·f ≠ 0` cannot be dropped: for a force in the plane the formula divides by zero
    (`1 / 0 = 0` in a `Lean.Grind.Field`) and returns the origin, which is not on the plane -/
example : Ex.n.dot Ex.fBad = 0 ∧ Ex.n.dot (zmpPoint Ex.n Ex.p Ex.n0 Ex.fBad - Ex.p) ≠ 0 := by
  refine ⟨Ex.n_dot_fBad, ?_⟩
  simp only [alg, zmpPoint]
  grind

end ZmpAlgebra

/-! ## 2. the last lines of `CalcZeroMomentPoint` -/
section ZmpFormula
variable {α : Type}

/-- `h3 = Xcom⁻¹* ((Xcom* hdtot) - mass (0, g)) = (hdtot.w - com × (mass g), hdtot.v - mass g)` -/
theorem zmp_formula [CommRing α] (com g : V3 α) (mass : α) (hdtot : SV α) :
    (Xtrans com).inverse.applyAdjoint
        ((Xtrans com).applyAdjoint hdtot - mass * (⟨V3.zero, g⟩ : SV α))
      = ⟨hdtot.w - com.cross (mass * g), hdtot.v - mass * g⟩ := zmp_wrench com g mass hdtot

variable [Field α]

/-- `CalcZeroMomentPoint` returns `zmpPoint normal point n0 f` for the net moment
    `n0 = hdtot.w - com × (mass g)` and net force `f = hdtot.v - mass g`, where `(Itot, hdtot)` are
    the totals of the backward loop, `mass = Itot.m`, `com = Itot.h / mass` -/
theorem zmp_output (m : ModelS α) (w : WS α) (st : QS α) (qd qdd : VecN α) (normal point : V3 α)
    (update : Bool) :
    let T := zmpTotals m w st qd qdd update
    let mass := T.1.m
    let com := (1 / mass) * T.1.h
    (calcZeroMomentPoint m w st qd qdd normal point update).2 =
      zmpPoint normal point (T.2.w - com.cross (mass * m.gravity)) (T.2.v - mass * m.gravity) := by
  intro T mass com
  rw [zmp_raw, zmpH3_eq]

/-- the point returned by `CalcZeroMomentPoint` is on the plane and the contact wrench
    (`n0`, `f`: inertial minus gravitational) has no tangential moment about it -/
theorem zmp_output_correct (m : ModelS α) (w : WS α) (st : QS α) (qd qdd : VecN α)
    (normal point : V3 α) (update : Bool) :
    let T := zmpTotals m w st qd qdd update
    let mass := T.1.m
    let com := (1 / mass) * T.1.h
    let n0 := T.2.w - com.cross (mass * m.gravity)
    let f := T.2.v - mass * m.gravity
    let z := (calcZeroMomentPoint m w st qd qdd normal point update).2
    normal.dot f ≠ 0 →
      normal.dot (z - point) = 0 ∧ normal.cross (n0 - z.cross f) = V3.zero := by
  intro T mass com n0 f z hf
  have hz : z = zmpPoint normal point n0 f := zmp_output m w st qd qdd normal point update
  rw [hz]
  exact ⟨zmp_on_plane _ _ _ _ hf, zmp_no_tangential_moment _ _ _ _ hf⟩

/-- the totals of `CalcZeroMomentPoint` are the sums over all bodies of the base-frame transforms
    of `I_i` and of `I_i a_i + v_i ×* I_i v_i` (kinematically consistent workspace) -/
theorem zmp_total (m : ModelS α) (w : WS α) (st : QS α) (qd qdd : VecN α) (update : Bool)
    (htree : ∀ i, 1 ≤ i → i ≤ m.nBodies - 1 → m.lam i < i)
    (hbase : ∀ i, 1 ≤ i → i ≤ m.nBodies - 1 →
      (zmpKin m w st qd qdd update).X_base i =
        if m.lam i ≠ 0 then (zmpKin m w st qd qdd update).X_lambda i
            * (zmpKin m w st qd qdd update).X_base (m.lam i)
        else (zmpKin m w st qd qdd update).X_lambda i)
    (hrot : ∀ i, 1 ≤ i → i ≤ m.nBodies - 1 → ((zmpKin m w st qd qdd update).X_base i).E.IsRot) :
    let w0 := zmpKin m w st qd qdd update
    zmpTotals m w st qd qdd update =
      (lsum RBI.zero (fun i => (w0.X_base i).applyTransposeRBI (m.rbi i))
        (List.range' 1 (m.nBodies - 1)),
       lsum SV.zero (fun i => (w0.X_base i).applyTranspose
          (m.rbi i * w0.a i + crossf (w0.v i) (m.rbi i * w0.v i)))
        (List.range' 1 (m.nBodies - 1))) := by
  intro w0
  have hk : KinOK m w0 := ⟨htree, hbase, hrot⟩
  have hb : (zmpInit m w0).X_base = w0.X_base :=
    zmpInit_keep (fun w => w.X_base) (fun _ _ _ => rfl) m w0 _
  unfold zmpTotals
  refine Prod.ext ?_ ?_
  · show (zmpBwd m (zmpInit m w0)).2.1 = _
    rw [zmpBwd_Itot m _ hk.zmpInit]
    refine lsum_congr _ _ _ (fun i hi => ?_)
    rw [List.mem_range'_1] at hi
    rw [hb, zmpInit_Ic m w0 i hi.1 (by omega)]
  · show (zmpBwd m (zmpInit m w0)).2.2 = _
    rw [zmpBwd_hdtot m _ hk.zmpInit]
    refine lsum_congr _ _ _ (fun i hi => ?_)
    rw [List.mem_range'_1] at hi
    rw [hb, zmpInit_hdotc m w0 i hi.1 (by omega)]

end ZmpFormula

example : zmpKin Ex.m Ex.w C04.Ex.st zeroVec zeroVec false = Ex.w := rfl
example := zmp_total Ex.m Ex.w C04.Ex.st zeroVec zeroVec false
  Ex.w_kinOK.tree Ex.w_kinOK.base Ex.w_kinOK.rot

/-- on the one-body model `Ex.m1` the totals evaluate; the net contact force is not in the plane
    with normal `Ex.n`, so `zmp_output_correct` applies -/
example :
    let T := zmpTotals Ex.m1 Ex.w1 C04.Ex.st zeroVec zeroVec false
    Ex.n.dot (T.2.v - T.1.m * Ex.m1.gravity) ≠ 0 := by
  intro T
  have hT : T = (C16.Ex.X.applyTransposeRBI Ex.I1 + RBI.zero,
      C16.Ex.X.applyTranspose (Ex.I1 * Ex.a1 + crossf Ex.v1 (Ex.I1 * Ex.v1)) + SV.zero) :=
    zmp_total Ex.m1 Ex.w1 C04.Ex.st zeroVec zeroVec false
      Ex.w1_kinOK.tree Ex.w1_kinOK.base Ex.w1_kinOK.rot
  have hg : Ex.m1.gravity = Ex.g := rfl
  rw [hT, hg]
  simp only [alg]
  grind

/-! ## 3. `CalcCenterOfMass`: the totals of the backward loop -/
section Com
variable {α : Type} [Field α]

/-- the outputs of `CalcCenterOfMass` in terms of the totals `(Itot, htot)` of its backward loop -/
theorem com_outputs (m : ModelS α) (w : WS α) (st : QS α) (qd : VecN α) (qdd : Option (VecN α))
    (wantAcc update : Bool) :
    let T := comTotals m w st qd qdd wantAcc update
    let o := (calcCenterOfMass m w st qd qdd wantAcc update).2
    o.mass = T.1.m ∧ o.com = (1 / T.1.m) * T.1.h ∧ o.comVel = (1 / T.1.m) * T.2.v ∧
    o.angMom = ((Xtrans o.com).applyAdjoint T.2).w :=
  ⟨rfl, rfl, rfl, rfl⟩

/-- (L3 for the model's loop) `Itot`, `htot` are the sums over the bodies attached to the root of the
    transported **final** `Ic[c]`, `hc[c]`, and these satisfy the subtree recursion (L2):
    only the tree order is needed -/
theorem com_total_root (m : ModelS α) (w1 : WS α)
    (htree : ∀ i, 1 ≤ i → i ≤ m.nBodies - 1 → m.lam i < i) :
    let n := m.nBodies - 1
    let r := comBwd m w1
    r.2.1 = lsum RBI.zero (fun c => (w1.X_lambda c).applyTransposeRBI (r.1.Ic c))
      (childrenOf m.lam n 0) ∧
    r.2.2 = lsum SV.zero (fun c => (w1.X_lambda c).applyTranspose (r.1.hc c))
      (childrenOf m.lam n 0) ∧
    (∀ i, 1 ≤ i → i ≤ n →
      r.1.Ic i = w1.Ic i + lsum RBI.zero (fun c => (w1.X_lambda c).applyTransposeRBI (r.1.Ic c))
        (childrenOf m.lam n i)) ∧
    (∀ i, 1 ≤ i → i ≤ n →
      r.1.hc i = w1.hc i + lsum SV.zero (fun c => (w1.X_lambda c).applyTranspose (r.1.hc c))
        (childrenOf m.lam n i)) := by
  intro n r
  have hI := comBwd_I m w1
  have hh := comBwd_h m w1
  have hI1 : r.1.Ic = forDown n n (bwdBody m.lam (fun c a x => a + TI w1.X_lambda c x)) w1.Ic := by
    have := congrArg Prod.fst hI
    rw [tot_fst] at this; exact this
  have hh1 : r.1.hc = forDown n n (bwdBody m.lam (fun c a x => a + Th w1.X_lambda c x)) w1.hc := by
    have := congrArg Prod.fst hh
    rw [tot_fst] at this; exact this
  refine ⟨?_, ?_, ?_, ?_⟩
  · have := congrArg Prod.snd hI
    dsimp only at this
    show (comBwd m w1).2.1 = _
    rw [this, tot_sum m.lam (TI w1.X_lambda) rbi_addLaws n htree, rbi_addLaws.zero_add, hI1]
    rfl
  · have := congrArg Prod.snd hh
    dsimp only at this
    show (comBwd m w1).2.2 = _
    rw [this, tot_sum m.lam (Th w1.X_lambda) sv_addLaws n htree, sv_addLaws.zero_add, hh1]
    rfl
  · intro i h1 h2
    rw [hI1]
    exact bwd_sum m.lam (TI w1.X_lambda) rbi_addLaws n htree w1.Ic i (by omega)
  · intro i h1 h2
    rw [hh1]
    exact bwd_sum m.lam (Th w1.X_lambda) sv_addLaws n htree w1.hc i (by omega)
example := com_total_root Ex.m Ex.w Ex.w_kinOK.tree

/-- **com_total**: for a kinematically consistent workspace (`X_base[i] = X_λ[i] X_base[λ i]`,
    rotations) `Itot` and `htot` are the sums over all bodies of the base-frame transforms
    `X_base[i]ᵀ I_i X_base[i]` and `X_base[i]ᵀ (I_i v_i)` -/
theorem com_total (m : ModelS α) (w : WS α) (st : QS α) (qd : VecN α) (qdd : Option (VecN α))
    (wantAcc update : Bool)
    (htree : ∀ i, 1 ≤ i → i ≤ m.nBodies - 1 → m.lam i < i)
    (hbase : ∀ i, 1 ≤ i → i ≤ m.nBodies - 1 →
      (comKin m w st qd qdd update).X_base i =
        if m.lam i ≠ 0 then (comKin m w st qd qdd update).X_lambda i
            * (comKin m w st qd qdd update).X_base (m.lam i)
        else (comKin m w st qd qdd update).X_lambda i)
    (hrot : ∀ i, 1 ≤ i → i ≤ m.nBodies - 1 → ((comKin m w st qd qdd update).X_base i).E.IsRot) :
    let w0 := comKin m w st qd qdd update
    comTotals m w st qd qdd wantAcc update =
      (lsum RBI.zero (fun i => (w0.X_base i).applyTransposeRBI (m.rbi i))
        (List.range' 1 (m.nBodies - 1)),
       lsum SV.zero (fun i => (w0.X_base i).applyTranspose (m.rbi i * w0.v i))
        (List.range' 1 (m.nBodies - 1))) := by
  intro w0
  have hk : KinOK m w0 := ⟨htree, hbase, hrot⟩
  unfold comTotals
  refine Prod.ext ?_ ?_
  · show (comBwd m (comInit m w0 _)).2.1 = _
    rw [comBwd_Itot m _ (hk.comInit _)]
    refine lsum_congr _ _ _ (fun i hi => ?_)
    rw [List.mem_range'_1] at hi
    rw [comInit_X_base, comInit_Ic m w0 _ i hi.1 (by omega)]
  · show (comBwd m (comInit m w0 _)).2.2 = _
    rw [comBwd_htot m _ (hk.comInit _)]
    refine lsum_congr _ _ _ (fun i hi => ?_)
    rw [List.mem_range'_1] at hi
    rw [comInit_X_base, comInit_hc m w0 _ i hi.1 (by omega)]
example : comKin Ex.m Ex.w C04.Ex.st zeroVec none false = Ex.w := rfl
example := com_total Ex.m Ex.w C04.Ex.st zeroVec none false false
  Ex.w_kinOK.tree Ex.w_kinOK.base Ex.w_kinOK.rot

/-- total mass = `Σ m_i`; `mass · com = Σ (E_iᵀ h_i + m_i r_i)` (first moments in the base frame) -/
theorem com_mass_moment (m : ModelS α) (w : WS α) (st : QS α) (qd : VecN α)
    (qdd : Option (VecN α)) (wantAcc update : Bool)
    (htree : ∀ i, 1 ≤ i → i ≤ m.nBodies - 1 → m.lam i < i)
    (hbase : ∀ i, 1 ≤ i → i ≤ m.nBodies - 1 →
      (comKin m w st qd qdd update).X_base i =
        if m.lam i ≠ 0 then (comKin m w st qd qdd update).X_lambda i
            * (comKin m w st qd qdd update).X_base (m.lam i)
        else (comKin m w st qd qdd update).X_lambda i)
    (hrot : ∀ i, 1 ≤ i → i ≤ m.nBodies - 1 → ((comKin m w st qd qdd update).X_base i).E.IsRot) :
    let w0 := comKin m w st qd qdd update
    let o := (calcCenterOfMass m w st qd qdd wantAcc update).2
    o.mass = lsum 0 (fun i => (m.rbi i).m) (List.range' 1 (m.nBodies - 1)) ∧
    (o.mass ≠ 0 → o.mass * o.com =
      lsum V3.zero (fun i => (w0.X_base i).E.tmulVec (m.rbi i).h + (m.rbi i).m * (w0.X_base i).r)
        (List.range' 1 (m.nBodies - 1))) := by
  intro w0 o
  have ht := com_total m w st qd qdd wantAcc update htree hbase hrot
  have hm : o.mass = (comTotals m w st qd qdd wantAcc update).1.m := rfl
  have hc : o.com = (1 / (comTotals m w st qd qdd wantAcc update).1.m)
      * (comTotals m w st qd qdd wantAcc update).1.h := rfl
  refine ⟨?_, fun hne => ?_⟩
  · rw [hm, ht, rbi_lsum_m]; rfl
  · have hcancel : ∀ (M : α) (h : V3 α), M ≠ 0 → M * ((1 / M) * h) = h := by
      intro M h hM; ext <;> simp only [alg] <;> grind
    rw [hc, ← hm, hcancel _ _ hne, ht, rbi_lsum_h]; rfl
example := com_mass_moment Ex.m Ex.w C04.Ex.st zeroVec none false false
  Ex.w_kinOK.tree Ex.w_kinOK.base Ex.w_kinOK.rot

end Com

/-! ## 4. kinetic energy -/
section Kinetic
variable {α : Type} [Field α]

/-- `CalcKineticEnergy = Σ_{i=1}^{n} ½ v_i · (I_i v_i)` (velocities of the workspace after the
    optional kinematics update; `update = false`: the given workspace) -/
theorem kinetic_energy_sum (m : ModelS α) (w : WS α) (st : QS α) (qd : VecN α) (update : Bool) :
    let w0 := if update then updateKinematicsCustom m w (some st) (some qd) none else w
    calcKineticEnergy m w st qd update =
      (w0, lsum 0 (fun i => (w0.v i).dot (m.rbi i * w0.v i) / 2) (List.range' 1 (m.nBodies - 1))) := by
  intro w0
  show (w0, forUp (m.nBodies - 1) 1 (fun i acc => acc + (w0.v i).dot (m.rbi i * w0.v i) / 2) 0) = _
  rw [forUp_add_eq ring_addLaws (fun i => (w0.v i).dot (m.rbi i * w0.v i) / 2),
    ring_addLaws.zero_add]

theorem kinetic_energy_sum_noupdate (m : ModelS α) (w : WS α) (st : QS α) (qd : VecN α) :
    calcKineticEnergy m w st qd false =
      (w, lsum 0 (fun i => (w.v i).dot (m.rbi i * w.v i) / 2) (List.range' 1 (m.nBodies - 1))) :=
  kinetic_energy_sum m w st qd false

/-- body-frame König decomposition: for `I = createFromMassComInertiaC m c Ic` (`Ic` symmetric)
    `½ v·(I v) = ½ m |v_c|² + ½ ω·(Ic ω)` with `ω = v.w`, `v_c = v.v + ω × c` -/
theorem kinetic_koenig (m : α) (c : V3 α) (Ic : M3 α) (hs : Ic.transpose = Ic) (v : SV α) :
    v.dot (RBI.ofMassComInertiaC m c Ic * v) / 2
      = m * (v.v + v.w.cross c).nrm2 / 2 + v.w.dot (Ic * v.w) / 2 := by
  simp only [M3.transpose, M3.ext_iff] at hs
  simp only [alg]
  grind
example (v : SV Rat) : v.dot (RBI.ofMassComInertiaC 2 ⟨1, 0, 1/2⟩ C16.Ex.Ic * v) / 2
    = 2 * (v.v + v.w.cross ⟨1, 0, 1/2⟩).nrm2 / 2 + v.w.dot (C16.Ex.Ic * v.w) / 2 :=
  kinetic_koenig _ _ _ C16.Ex.Ic_symm v

/-- both together: for a model whose inertias come from `(mass, com, Ic)` triples (as `AddBody`
    produces them) the kinetic energy is `Σ ½ m_i |v_{c,i}|² + ½ ω_i·(Ic_i ω_i)` -/
theorem kinetic_energy_koenig (m : ModelS α) (w : WS α) (st : QS α) (qd : VecN α)
    (mass : Nat → α) (c : Nat → V3 α) (Ic : Nat → M3 α)
    (hI : ∀ i, 1 ≤ i → i ≤ m.nBodies - 1 →
      m.rbi i = RBI.ofMassComInertiaC (mass i) (c i) (Ic i) ∧ (Ic i).transpose = Ic i) :
    (calcKineticEnergy m w st qd false).2 =
      lsum 0 (fun i => mass i * ((w.v i).v + (w.v i).w.cross (c i)).nrm2 / 2
          + (w.v i).w.dot (Ic i * (w.v i).w) / 2) (List.range' 1 (m.nBodies - 1)) := by
  rw [kinetic_energy_sum_noupdate]
  refine lsum_congr _ _ _ (fun i hi => ?_)
  rw [List.mem_range'_1] at hi
  obtain ⟨h1, h2⟩ := hI i hi.1 (by omega)
  rw [h1]
  exact kinetic_koenig _ _ _ h2 _
example (w : WS Rat) (qd : VecN Rat) :=
  kinetic_energy_koenig Ex.m w C04.Ex.st qd
    (fun i => if i = 1 then 2 else if i = 2 then 3 else if i = 3 then 1/2 else 1)
    (fun i => if i = 1 then ⟨1, 0, 1/2⟩ else if i = 2 then ⟨0, 1, 1⟩
      else if i = 3 then ⟨-1, 2, 0⟩ else ⟨1/3, 1/3, 1⟩)
    (fun i => if i = 3 then M3.one else C16.Ex.Ic)
    (by
      intro i h1 h2
      have hn : Ex.m.nBodies = 5 := rfl
      obtain rfl | rfl | rfl | rfl : i = 1 ∨ i = 2 ∨ i = 3 ∨ i = 4 := by omega
      all_goals exact ⟨rfl, rfl⟩)

/-- symmetry of `Ic` cannot be dropped (the inertia stores only the lower triangle of `Ic`) -/
example : ¬ ∀ (Ic : M3 Rat) (v : SV Rat), v.dot (RBI.ofMassComInertiaC 1 V3.zero Ic * v) / 2
    = 1 * (v.v + v.w.cross V3.zero).nrm2 / 2 + v.w.dot (Ic * v.w) / 2 := by
  intro h
  have := h ⟨0, 1, 0, 0, 0, 0, 0, 0, 0⟩ ⟨⟨1, 1, 0⟩, V3.zero⟩
  simp only [alg] at this
  grind

end Kinetic

/-! ## 5. potential energy -/
section Potential
variable {α : Type} [Field α]

/-- `CalcPotentialEnergy = mass · com·(−g)` of the `CalcCenterOfMass` outputs (velocities zero) -/
theorem potential_energy_def (m : ModelS α) (w : WS α) (st : QS α) (update : Bool) :
    calcPotentialEnergy m w st update =
      ((calcCenterOfMass m w st zeroVec none false update).1,
       (calcCenterOfMass m w st zeroVec none false update).2.mass
        * (calcCenterOfMass m w st zeroVec none false update).2.com.dot (-m.gravity)) := rfl

/-- `Σ m_i c_i·(−g) = M C·(−g)` for `M = Σ m_i ≠ 0`, `C = (Σ m_i c_i) / M` -/
theorem potential_energy_list (g : V3 α) (l : List (α × V3 α)) (hM : massSum l ≠ 0) :
    peSum g l = massSum l * ((1 / massSum l) * momentSum l).dot (-g) := by
  rw [peSum_eq]
  generalize massSum l = M at hM
  generalize momentSum l = h
  simp only [alg]
  grind
example : peSum Ex.g Ex.pts = massSum Ex.pts * ((1 / massSum Ex.pts) * momentSum Ex.pts).dot (-Ex.g) :=
  potential_energy_list _ _ Ex.pts_mass

/-- the potential energy of the model is the sum of the potential energies of the bodies
    (`E_iᵀ h_i + m_i r_i` = mass times base-frame position of the centre of mass of body `i`) -/
theorem potential_energy_sum (m : ModelS α) (w : WS α) (st : QS α) (update : Bool)
    (htree : ∀ i, 1 ≤ i → i ≤ m.nBodies - 1 → m.lam i < i)
    (hbase : ∀ i, 1 ≤ i → i ≤ m.nBodies - 1 →
      (comKin m w st zeroVec none update).X_base i =
        if m.lam i ≠ 0 then (comKin m w st zeroVec none update).X_lambda i
            * (comKin m w st zeroVec none update).X_base (m.lam i)
        else (comKin m w st zeroVec none update).X_lambda i)
    (hrot : ∀ i, 1 ≤ i → i ≤ m.nBodies - 1 →
      ((comKin m w st zeroVec none update).X_base i).E.IsRot)
    (hmass : (calcCenterOfMass m w st zeroVec none false update).2.mass ≠ 0) :
    let w0 := comKin m w st zeroVec none update
    (calcPotentialEnergy m w st update).2 =
      lsum 0 (fun i => ((w0.X_base i).E.tmulVec (m.rbi i).h + (m.rbi i).m * (w0.X_base i).r).dot
        (-m.gravity)) (List.range' 1 (m.nBodies - 1)) := by
  intro w0
  have h := (com_mass_moment m w st zeroVec none false update htree hbase hrot).2 hmass
  have hdot : ∀ (M : α) (c g : V3 α), M * c.dot g = (M * c).dot g := by
    intro M c g; simp only [alg]; grind
  show (calcCenterOfMass m w st zeroVec none false update).2.mass
        * (calcCenterOfMass m w st zeroVec none false update).2.com.dot (-m.gravity) = _
  rw [hdot, h, v3_lsum_dot]

end Potential

/-! ## 6. the same with `update_kinematics = true`, hypotheses on the model and the state only -/
section Updated
variable {α : Type} [Field α]

/-- `com_total` for `update_kinematics = true`: for a model in tree order with joints of the types
    `jcalc` handles, rotation joint frames, and a state with unit (cos, sin) pairs / axes /
    quaternions, the totals are the sums over all bodies of the base-frame transforms -/
theorem com_total_updated (m : ModelS α) (w : WS α) (st : QS α) (qd : VecN α)
    (qdd : Option (VecN α)) (wantAcc : Bool)
    (htree : ∀ i, 1 ≤ i → i < m.nBodies → m.lam i < i)
    (hjc : ∀ i, 1 ≤ i → i < m.nBodies → (m.joint i).jt.hasJcalc = true)
    (hframe : ∀ i, 1 ≤ i → i < m.nBodies → (m.XT_ i).E.IsRot)
    (hunit : ∀ i, 1 ≤ i → i < m.nBodies → m.jointUnit i st)
    (h0 : (w.X_base 0).E.IsRot) :
    let w0 := updateKinematicsCustom m w (some st) (some qd) qdd
    comTotals m w st qd qdd wantAcc true =
      (lsum RBI.zero (fun i => (w0.X_base i).applyTransposeRBI (m.rbi i))
        (List.range' 1 (m.nBodies - 1)),
       lsum SV.zero (fun i => (w0.X_base i).applyTranspose (m.rbi i * w0.v i))
        (List.range' 1 (m.nBodies - 1))) := by
  have hk := kinOK_ukc m w st qd qdd htree hjc hframe hunit h0
  exact com_total m w st qd qdd wantAcc true hk.tree hk.base hk.rot

/-- `zmp_total` for `update_kinematics = true` -/
theorem zmp_total_updated (m : ModelS α) (w : WS α) (st : QS α) (qd qdd : VecN α)
    (htree : ∀ i, 1 ≤ i → i < m.nBodies → m.lam i < i)
    (hjc : ∀ i, 1 ≤ i → i < m.nBodies → (m.joint i).jt.hasJcalc = true)
    (hframe : ∀ i, 1 ≤ i → i < m.nBodies → (m.XT_ i).E.IsRot)
    (hunit : ∀ i, 1 ≤ i → i < m.nBodies → m.jointUnit i st)
    (h0 : (w.X_base 0).E.IsRot) :
    let w0 := updateKinematicsCustom m w (some st) (some qd) (some qdd)
    zmpTotals m w st qd qdd true =
      (lsum RBI.zero (fun i => (w0.X_base i).applyTransposeRBI (m.rbi i))
        (List.range' 1 (m.nBodies - 1)),
       lsum SV.zero (fun i => (w0.X_base i).applyTranspose
          (m.rbi i * w0.a i + crossf (w0.v i) (m.rbi i * w0.v i)))
        (List.range' 1 (m.nBodies - 1))) := by
  have hk := kinOK_ukc m w st qd (some qdd) htree hjc hframe hunit h0
  exact zmp_total m w st qd qdd true hk.tree hk.base hk.rot

end Updated

example (qd : VecN Rat) (qdd : Option (VecN Rat)) := com_total_updated Ex.m C04.Ex.w C04.Ex.st qd qdd
  true Ex.m_tree Ex.m_hasJcalc Ex.m_frames Ex.m_unit C04.Ex.w_base0
example (qd qdd : VecN Rat) := zmp_total_updated Ex.m C04.Ex.w C04.Ex.st qd qdd
  Ex.m_tree Ex.m_hasJcalc Ex.m_frames Ex.m_unit C04.Ex.w_base0

/-! ## 7. balance addon: `CalculateFootPlacementEstimator` (`addons/balance/BalanceToolkit.cc`) -/
section Balance
open Rbdl.Spec Rbdl.L12b Rbdl.Spec.FpeCode
variable {α : Type} [Field α]

/-- **parallel-axis form of the whole-body inertia**: about any point `P`,
    `J_P = J_C + M (|d|² 1 − d dᵀ)` with `C` the centre of mass and `d = C − P` -/
theorem fpe_parallel_axis [DecidableEq α] (M : SModel α) (st : State α) (P : V3 α) (hM : totalMass M ≠ 0) :
    inertiaAbout M st P =
      inertiaAbout M st (com M st)
        + totalMass M * ((com M st - P).dot (com M st - P) * (M3.one : M3 α)
            - M3.outer (com M st - P) (com M st - P)) := by
  unfold inertiaAbout
  rw [totalMass_eq M st]
  exact inertiaAboutL_parallel_axis P _ _ (com_moment M st hM)
example (P : V3 Rat) := fpe_parallel_axis L12b.Ex.M1 L12b.Ex.st1 P L12b.Ex.M1_mass_ne

/-- **transfer of the angular momentum**: `H_P = H_C + (C − P) × M v_C` -/
theorem fpe_HP0_transfer [DecidableEq α] (M : SModel α) (st : State α) (P : V3 α) (hM : totalMass M ≠ 0) :
    angularMomentumAbout M st P =
      (angularMomentum M st).1 + (com M st - P).cross (totalMass M * comVelocity M st) := by
  rw [angularMomentum_eq, com_momentum M st hM]
  exact angMomAboutL_shift P (com M st) _
example (P : V3 Rat) := fpe_HP0_transfer L12b.Ex.M1 L12b.Ex.st1 P L12b.Ex.M1_mass_ne

/-- the ground projection lies on the plane, and the centre of mass is straight above it:
    `r0C0 − r0P0 = h k` (so `r0C0 − r0P0 ∥ k`) -/
theorem fpe_projection (C p k : V3 α) (hk : k.dot k = 1) :
    (groundProjection C p k - p).dot k = 0 ∧
    C - groundProjection C p k = heightAbove C p k * k ∧
    (C - groundProjection C p k).cross k = V3.zero := by
  simp only [alg] at hk
  refine ⟨?_, ?_, ?_⟩
  · simp only [groundProjection, alg]; grind
  · simp only [groundProjection, heightAbove]; alg_ext
  · simp only [groundProjection]; alg_ext
example := fpe_projection L12b.Ex.C L12b.Ex.p L12b.Ex.k L12b.Ex.k_unit

/-- the whole-body inertia about any point is symmetric when the body inertias are -/
theorem fpe_inertia_symm [DecidableEq α] (M : SModel α) (st : State α) (P : V3 α)
    (h : ∀ nd ∈ M.nodes, nd.inertia.transpose = nd.inertia) :
    (inertiaAbout M st P).transpose = inertiaAbout M st P := by
  unfold inertiaAbout
  refine inertiaAboutL_symm P _ (fun b hb => ?_)
  rw [bodyStates_eq] at hb
  obtain ⟨q, hq, rfl⟩ := List.mem_map.1 hb
  have hq' := (List.mem_filter.1 hq).1
  exact conj_symm _ _ (h q.1 (List.of_mem_zip hq').1)
example (P : V3 Rat) := fpe_inertia_symm L12b.Ex.M1 L12b.Ex.st1 P L12b.Ex.M1_symm

/-- the specification satisfies the two transfer formulas the C++ evaluates (BalanceToolkit.cc:144-147),
    with the cross-product matrix of `rPC0 = r0C0 − r0P0` -/
theorem fpe_spec_transfer [DecidableEq α] (M : SModel α) (st : State α) (p k : V3 α) (hM : totalMass M ≠ 0) :
    let S := fpeState M st p k
    let rx := M3.skew (S.r0C0 - S.r0P0)
    S.JP0 = S.JC0 + S.mass * (rx * rx.transpose) ∧ S.HP0 = S.HC0 + rx * (S.mass * S.v0C0) := by
  intro S rx
  refine ⟨?_, ?_⟩
  · show inertiaAbout M st _ = inertiaAbout M st (com M st) + totalMass M * (rx * rx.transpose)
    rw [fpe_parallel_axis M st _ hM, skew_mul_transpose]
    rfl
  · show angularMomentumAbout M st _ = (angularMomentum M st).1 + rx * (totalMass M * comVelocity M st)
    rw [fpe_HP0_transfer M st _ hM, skew_mulVec]
    rfl

example := fpe_spec_transfer L12b.Ex.M1 L12b.Ex.st1 L12b.Ex.p L12b.Ex.k L12b.Ex.M1_mass_ne

/-! ### the code-shaped straight-line part -/

/-- every state field of the code-shaped routine in terms of the `CalcCenterOfMass` outputs `o` and the
    workspace `w'` it leaves: `JC0` is the inertia about the centre of mass of the non-virtual movable
    bodies as `X_base` places them, `r0P0` / `h` the ground projection / height, `JP0` the parallel-axis
    form, `HP0` the transfer formula -/
theorem fpeCore_fields [DecidableEq α] (m : ModelS α) (w : WS α) (st : QS α) (qd : VecN α) (p k : V3 α)
    (update : Bool) :
    let w' := (calcCenterOfMass m w st qd none false update).1
    let o := (calcCenterOfMass m w st qd none false update).2
    let r := (fpeCore m w st qd p k update).2
    let d := o.com - r.r0P0
    (fpeCore m w st qd p k update).1 = w' ∧
    r.mass = o.mass ∧ r.r0C0 = o.com ∧ r.v0C0 = o.comVel ∧ r.HC0 = o.angMom ∧ r.k = k ∧
    r.JC0 = inertiaAboutL o.com (codeStates m w') ∧
    r.r0P0 = groundProjection o.com p k ∧ r.h = heightAbove o.com p k ∧
    r.JP0 = r.JC0 + o.mass * (d.dot d * (M3.one : M3 α) - M3.outer d d) ∧
    r.HP0 = r.HC0 + d.cross (o.mass * o.comVel) := by
  intro w' o r d
  refine ⟨rfl, rfl, rfl, rfl, rfl, rfl, jc0Loop_eq m w' o.com, rfl, ?_, ?_, ?_⟩
  · show k.dot (o.com - p) = (o.com - p).dot k
    simp only [alg]; grind
  · show jc0Loop m w' o.com + o.mass * (M3.skew d * (M3.skew d).transpose) = _
    rw [skew_mul_transpose]; rfl
  · show o.angMom + M3.skew d * (o.mass * o.comVel) = _
    rw [skew_mulVec]; rfl

/-- the straight-line part is correct as soon as its inputs are: if the `CalcCenterOfMass` outputs are
    the specification's mass, centre of mass, its velocity and the angular momentum about it, and the
    bodies the `JC0` loop visits have the inertia of the specification's bodies about the centre of mass,
    then **every** state field equals its definition (for any direction `k`) -/
theorem fpeCore_eq_spec [DecidableEq α] (m : ModelS α) (w : WS α) (st : QS α) (qd : VecN α) (p k : V3 α)
    (update : Bool) (M : SModel α) (sst : State α) (hM : totalMass M ≠ 0)
    (hmass : (calcCenterOfMass m w st qd none false update).2.mass = totalMass M)
    (hcom : (calcCenterOfMass m w st qd none false update).2.com = com M sst)
    (hvel : (calcCenterOfMass m w st qd none false update).2.comVel = comVelocity M sst)
    (hmom : (calcCenterOfMass m w st qd none false update).2.angMom = (angularMomentum M sst).1)
    (hJ : inertiaAboutL (com M sst) (codeStates m (calcCenterOfMass m w st qd none false update).1)
            = inertiaAbout M sst (com M sst)) :
    (fpeCore m w st qd p k update).2 = fpeState M sst p k := by
  obtain ⟨-, f1, f2, f3, f4, f5, f6, f7, f8, f9, f10⟩ := fpeCore_fields m w st qd p k update
  have t := fpe_spec_transfer M sst p k hM
  simp only at t
  rw [skew_mul_transpose, skew_mulVec] at t
  have hP : (fpeCore m w st qd p k update).2.r0P0 = (fpeState M sst p k).r0P0 := by rw [f7, hcom]; rfl
  have hJC : (fpeCore m w st qd p k update).2.JC0 = (fpeState M sst p k).JC0 := by rw [f6, hcom, hJ]; rfl
  have hHC : (fpeCore m w st qd p k update).2.HC0 = (fpeState M sst p k).HC0 := by rw [f4, hmom]; rfl
  apply FpeState.ext
  · rw [f1, hmass]; rfl
  · rw [f2, hcom]; rfl
  · rw [f3, hvel]; rfl
  · exact hHC
  · exact hJC
  · exact hP
  · rw [f10, hHC, hP, hcom, hmass, hvel, t.2]; rfl
  · rw [f9, hJC, hP, hcom, hmass, t.1]; rfl
  · rw [f8, hcom]; rfl
  · rw [f5]; rfl

/-- a one-body pendulum (revolute joint, `cos q = 3/5`, `q̇ = 2`, offset centre of mass, non-diagonal inertia):
    the hypotheses hold (closed rational terms, kernel evaluation), the angular momentum is not zero -/
example : (fpeCore L12b.Ex.m1 L12b.Ex.w1 L12b.Ex.qs1 L12b.Ex.qd1 L12b.Ex.p L12b.Ex.k false).2
    = fpeState L12b.Ex.M1 L12b.Ex.st1 L12b.Ex.p L12b.Ex.k :=
  fpeCore_eq_spec _ _ _ _ _ _ _ L12b.Ex.M1 L12b.Ex.st1 L12b.Ex.M1_mass_ne
    L12b.Ex.e_mass L12b.Ex.e_com L12b.Ex.e_vel L12b.Ex.e_mom L12b.Ex.e_J
example : (angularMomentum L12b.Ex.M1 L12b.Ex.st1).1 ≠ V3.zero := L12b.Ex.e_mom_ne

/-! ### the foot-placement relations (everything that does not need the root search) -/

/-- for a unit `n ⟂ k` (unit) the direction `u = n × k` completes a right-handed orthonormal frame
    `(u, n, k)`: `u` is a horizontal unit vector and `k × u = n` -/
theorem fpe_frame (n k : V3 α) (hn : n.dot n = 1) (hk : k.dot k = 1) (hnk : n.dot k = 0) :
    (n.cross k).dot (n.cross k) = 1 ∧ (n.cross k).dot k = 0 ∧ (n.cross k).dot n = 0 ∧
    k.cross (n.cross k) = n := by
  simp only [alg] at hn hk hnk
  refine ⟨?_, ?_, ?_, ?_⟩
  · simp only [alg]; grind
  · simp only [alg]; grind
  · simp only [alg]; grind
  · ext <;> simp only [alg] <;> grind
example := fpe_frame L12b.Ex.n L12b.Ex.k L12b.Ex.n_unit L12b.Ex.k_unit L12b.Ex.n_perp_k

/-- **the foot placement point lies on the ground plane**, whatever `n` and the step length `d = h tan φ`
    are: `r0F0 = r0P0 + d (n × k)` -/
theorem fpe_foot_on_plane (C p k n : V3 α) (d : α) (hk : k.dot k = 1) :
    ((groundProjection C p k + d * n.cross k) - p).dot k = 0 ∧
    ((groundProjection C p k + d * n.cross k) - groundProjection C p k).dot k = 0 := by
  simp only [alg] at hk
  refine ⟨?_, ?_⟩
  · simp only [groundProjection, alg]; grind
  · simp only [groundProjection, alg]; grind
example (d : Rat) := fpe_foot_on_plane L12b.Ex.C L12b.Ex.p L12b.Ex.k L12b.Ex.n d L12b.Ex.k_unit

/-- **… at the reported angle**: with a unit `n ⟂ k`, `(c, s) = (cos φ, sin φ)` and `t c = s`, the point
    `F = P + (h t) u` is seen from the centre of mass at the angle `φ` from the downward vertical:
    the vertical component of `C − F` is `h` and `|F − C|² cos² φ = h²`, i.e. `|F − C| = l = h / cos φ` -/
theorem fpe_leg_angle (C p k n : V3 α) (c s t : α) (hn : n.dot n = 1) (hk : k.dot k = 1)
    (hnk : n.dot k = 0) (hcs : c * c + s * s = 1) (ht : t * c = s) :
    (C - (groundProjection C p k + (heightAbove C p k * t) * n.cross k)).dot k = heightAbove C p k ∧
    ((groundProjection C p k + (heightAbove C p k * t) * n.cross k) - C).dot
        ((groundProjection C p k + (heightAbove C p k * t) * n.cross k) - C) * (c * c)
      = heightAbove C p k * heightAbove C p k := by
  obtain ⟨hu, huk, -, -⟩ := fpe_frame n k hn hk hnk
  obtain ⟨-, hCP, -⟩ := fpe_projection C p k hk
  have hP : groundProjection C p k = C - heightAbove C p k * k := by rw [← hCP]; alg_ext
  generalize n.cross k = u at hu huk
  generalize heightAbove C p k = h at hP
  rw [hP]
  have e1 : C - (C - h * k + (h * t) * u) = h * k - (h * t) * u := by alg_ext
  have e2 : (C - h * k + (h * t) * u) - C = (h * t) * u - h * k := by alg_ext
  rw [e1, e2]
  exact fpe_leg_aux k u h c s t hu huk hk hcs ht
example := fpe_leg_angle L12b.Ex.C L12b.Ex.p L12b.Ex.k L12b.Ex.n (4/5) (3/5) (3/4)
  L12b.Ex.n_unit L12b.Ex.k_unit L12b.Ex.n_perp_k L12b.Ex.cs_unit L12b.Ex.tan_ok

/-- angular momentum about the contact point in the direction `n` (what is conserved at contact):
    `n · ((C − F) × m v) + J w = J w + m h (v·u + tan φ v·k)` -/
theorem fpe_contact_momentum (C p k n v : V3 α) (m J w t : α) (hn : n.dot n = 1) (hk : k.dot k = 1)
    (hnk : n.dot k = 0) :
    let h := heightAbove C p k
    let F := groundProjection C p k + (h * t) * n.cross k
    n.dot ((C - F).cross (m * v)) + J * w = J * w + m * h * ((n.cross k).dot v + t * k.dot v) := by
  intro h F
  obtain ⟨-, hCP, -⟩ := fpe_projection C p k hk
  have hF' : C - F = h * k - (h * t) * n.cross k := by
    show C - (groundProjection C p k + (h * t) * n.cross k) = _
    have : groundProjection C p k = C - h * k := by rw [← hCP]; alg_ext
    rw [this]; alg_ext
  rw [hF']
  generalize h = hh
  simp only [alg] at hn hk hnk ⊢
  grind
example (m J w t : Rat) := fpe_contact_momentum L12b.Ex.C L12b.Ex.p L12b.Ex.k L12b.Ex.n L12b.Ex.v m J w t
  L12b.Ex.n_unit L12b.Ex.k_unit L12b.Ex.n_perp_k

/-- momentum balance at contact: `(J + m l²) ω⁺ = J w + m h (vu + tan φ vk)`, `l = h / cos φ` -/
theorem fpe_omegaPlus (c s h m J vu vk w : α) (hc : c ≠ 0) (hden : fpeDen c h m J ≠ 0) :
    (J + m * (h / c) * (h / c)) * fpeOmegaPlus c s h m J vu vk w
      = J * w + m * h * (vu + (s / c) * vk) := by
  unfold fpeOmegaPlus fpeT0 at *
  unfold fpeDen at *
  grind
example (vu vk w : Rat) := fpe_omegaPlus (4/5) (3/5) 1 2 3 vu vk w L12b.Ex.c_ne L12b.Ex.den_ne

/-- **Eqn. 45 from first principles**: the coded residual is `cos² φ` times (twice the post-contact
    kinetic energy `(J + m l²) ω⁺²` of the inverted pendulum − twice the potential energy `m g l (1 − cos φ)`
    it still has to gain to stand above the contact) -/
theorem fpe_residual_energy (c s h m g J vu vk w : α) (hc : c ≠ 0) (hden : fpeDen c h m J ≠ 0) :
    fpeResidual c s h m g J vu vk w
      = (c * c) * ((J + m * (h / c) * (h / c)) * fpeOmegaPlus c s h m J vu vk w
            * fpeOmegaPlus c s h m J vu vk w - 2 * (m * g * (h / c) * (1 - c))) := by
  unfold fpeResidual fpeOmegaPlus fpeT0 fpeGrav at *
  unfold fpeDen at *
  grind
example (g vu vk w : Rat) := fpe_residual_energy (4/5) (3/5) 1 2 g 3 vu vk w L12b.Ex.c_ne L12b.Ex.den_ne

/-- the coded equation vanishes at `φ = π/2` (`cos φ = 0`) for **every** state: a spurious root that the
    multiplication by `cos² φ` introduces (the |f|-descent of the C++ can end there: finding D17) -/
theorem fpe_residual_spurious_root (s h m g J vu vk w : α) : fpeResidual 0 s h m g J vu vk w = 0 := by
  unfold fpeResidual fpeT0 fpeGrav fpeDen
  grind

/-- the quotient rule used for the derivative fields: if `f Den = T0² + Grav Den` holds to first order
    along a parameter (value and first derivative of the jets) and `Den ≠ 0`, then
    `∂f = fpeResidualD1 T0 Den Grav` -/
theorem fpe_residual_d1 (f T0 Den Grav : D2 α) (hden : Den.x ≠ 0)
    (hx : (f * Den).x = (T0 * T0 + Grav * Den).x) (hd : (f * Den).d1 = (T0 * T0 + Grav * Den).d1) :
    f.d1 = fpeResidualD1 T0 Den Grav := by
  simp only [D2.mul_x, D2.mul_d1, D2.add_x, D2.add_d1] at hx hd
  unfold fpeResidualD1
  grind
example : (⟨7/2, -1/4, 0⟩ : D2 Rat).d1 = fpeResidualD1 ⟨1, 1, 0⟩ ⟨2, 1, 0⟩ ⟨3, -1, 0⟩ :=
  fpe_residual_d1 ⟨7/2, -1/4, 0⟩ ⟨1, 1, 0⟩ ⟨2, 1, 0⟩ ⟨3, -1, 0⟩ (by decide +kernel) (by decide +kernel)
    (by decide +kernel)

/-! ### the two findings, formally -/

/-- finding D18: the guard `assert((k·n − 1) <= 10 ε)` of the precondition "the normal opposes gravity"
    holds for **every** pair of unit vectors (Cauchy–Schwarz), so it can never fire -/
theorem fpe_guard_vacuous (k n : V3 Rat) (hk : k.dot k = 1) (hn : n.dot n = 1) : k.dot n - 1 ≤ 0 := by
  simp only [alg] at hk hn ⊢
  have h1 := rat_mul_self_nonneg (k.x - n.x)
  have h2 := rat_mul_self_nonneg (k.y - n.y)
  have h3 := rat_mul_self_nonneg (k.z - n.z)
  grind
/-- … e.g. for a normal perpendicular to the vertical; and the point obtained by projecting along the
    vertical `k` is then not on the caller's plane (normal `n`) -/
example : L12b.Ex.k.dot L12b.Ex.n - 1 ≤ 0 := fpe_guard_vacuous _ _ L12b.Ex.k_unit L12b.Ex.n_unit
example : (groundProjection L12b.Ex.C L12b.Ex.p L12b.Ex.k - L12b.Ex.p).dot L12b.Ex.n ≠ 0 := by
  decide +kernel

end Balance

end Rbdl.C12
