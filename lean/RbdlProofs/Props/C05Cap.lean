import RbdlProofs.Lemmas.LKinCapBuild
import RbdlProofs.Lemmas.L01CapEx
import RbdlProofs.Lemmas.L01CapFixEx
import RbdlProofs.Props.C13
/-
  C05, capstone — **the Jacobians are the derivative of first-principles forward kinematics.**

  "For every well-formed model, admissible state, workspace, body id and body-fixed point: every column
   `x < dofCount` of the (zero-initialised) matrices filled by `CalcPointJacobian`,
   `CalcPointJacobian6D` and `CalcBodySpatialJacobian` (`update_kinematics = true`) is the first-order
   jet of the specification's world pose of that body along the unit generalized velocity `e_x`."

  Code side: `Rbdl/Kin.lean` (`jacFill`: walk from the body to the root, one column per motion-subspace
  column `X_base[j]⁻¹ S_{j,c}` moved to the point / body frame; fixed bodies through the movable parent).
  Specification side (`Rbdl/Spec/Mech.lean`): `Spec.pointJacobian6DCol M S id x j
  = Spec.pointVelocity6D M (unitVel S j) id x = (ω, d/dt (p + R x))` at the velocity `e_j`;
  `Spec.bodySpatialJacobianCol = (Rᵀ ω, Rᵀ ṗ)` at `e_j`; `Spec.pointJacobian`, `pointJacobian6D`,
  `bodySpatialJacobian` are the row-major lists of these columns (`matOfCols`).  The specification's
  state is `stateOf st qd qdd` for arbitrary `qd`, `qdd` (the Jacobians do not depend on them).

  Two forms per routine: **column** (`L05.colSV G x`, the six entries of column `x`; for the 3-row point
  Jacobian the vector `(G 0 x, G 1 x, G 2 x)`) and **list** (`LKinCap.matList rows dofCount G`, the
  entries `G r c` row by row, equals the specification's list — every entry of the `rows × dofCount`
  matrix).  Columns of degrees of freedom that are not on the path to the root are 0 on both sides
  (`G` is zero-initialised: `L05.zeroMat`; C05 shows that this cannot be dropped).

  Notions as in `C04Cap` / `C01Cap`; `2 ≠ 0` and `StateOK` cannot be dropped (as in `C06Cap`).
-/
namespace Rbdl.C05Cap
open Lean.Grind Rbdl Rbdl.Spec Rbdl.L01Cap Rbdl.LKinCap
open Rbdl.L05 (colSV zeroMat)
variable {α : Type} [Field α] [DecidableEq α]

/-! ### Stage C — models without fixed bodies (`Refines`): every movable body id and the base -/

theorem calcPointJacobian6D_col_eq_spec {m : ModelS α} {M : SModel α} (hm : ModelOK m) (hR : Refines m M)
    (h2 : (2 : α) ≠ 0) (w : WS α) (hw : WSFixed m w) (st : QS α) (hst : StateOK m st)
    (qd qdd : VecN α) (id : Nat) (hid : id < m.nBodies) (hfd : id < fixedDisc) (p : V3 α) (x : Nat)
    (hx : x < m.dofCount) :
    colSV (calcPointJacobian6D m w st id p zeroMat true).2 x
      = Spec.pointJacobian6DCol M (stateOf st qd qdd) id p x :=
  pointJacobian6D_col_core hm (resolvesR hm hR id hid hfd).1 (resolvesR hm hR id hid hfd).2 h2 w hw st hst
    qd qdd p x hx
example (p : V3 Rat) (x : Nat) (hx : x < Ex.m.dofCount) :=
  calcPointJacobian6D_col_eq_spec Ex.m_ok Ex.m_refines Ex.two_ne Ex.w1 Ex.w1_fixed Ex.st Ex.st_ok Ex.qd
    Ex.qdd 5 (by decide +kernel) (by decide) p x hx

theorem calcPointJacobian6D_eq_spec {m : ModelS α} {M : SModel α} (hm : ModelOK m) (hR : Refines m M)
    (h2 : (2 : α) ≠ 0) (w : WS α) (hw : WSFixed m w) (st : QS α) (hst : StateOK m st)
    (qd qdd : VecN α) (id : Nat) (hid : id < m.nBodies) (hfd : id < fixedDisc) (p : V3 α) :
    matList 6 m.dofCount (calcPointJacobian6D m w st id p zeroMat true).2
      = Spec.pointJacobian6D M (stateOf st qd qdd) id p :=
  pointJacobian6D_list_core hm (resolvesR hm hR id hid hfd).1 (resolvesR hm hR id hid hfd).2 h2 w hw st hst
    qd qdd p hR.nv
example (p : V3 Rat) :=
  calcPointJacobian6D_eq_spec Ex.m_ok Ex.m_refines Ex.two_ne Ex.w1 Ex.w1_fixed Ex.st Ex.st_ok Ex.qd Ex.qdd 3
    (by decide +kernel) (by decide) p

theorem calcPointJacobian_col_eq_spec {m : ModelS α} {M : SModel α} (hm : ModelOK m) (hR : Refines m M)
    (h2 : (2 : α) ≠ 0) (w : WS α) (hw : WSFixed m w) (st : QS α) (hst : StateOK m st)
    (qd qdd : VecN α) (id : Nat) (hid : id < m.nBodies) (hfd : id < fixedDisc) (p : V3 α) (x : Nat)
    (hx : x < m.dofCount) :
    (⟨(calcPointJacobian m w st id p zeroMat true).2 0 x,
        (calcPointJacobian m w st id p zeroMat true).2 1 x,
        (calcPointJacobian m w st id p zeroMat true).2 2 x⟩ : V3 α)
      = (Spec.pointJacobian6DCol M (stateOf st qd qdd) id p x).v :=
  pointJacobian_col_core hm (resolvesR hm hR id hid hfd).1 (resolvesR hm hR id hid hfd).2 h2 w hw st hst
    qd qdd p x hx
example (p : V3 Rat) (x : Nat) (hx : x < Ex.m.dofCount) :=
  calcPointJacobian_col_eq_spec Ex.m_ok Ex.m_refines Ex.two_ne Ex.w1 Ex.w1_fixed Ex.st Ex.st_ok Ex.qd
    Ex.qdd 5 (by decide +kernel) (by decide) p x hx

theorem calcPointJacobian_eq_spec {m : ModelS α} {M : SModel α} (hm : ModelOK m) (hR : Refines m M)
    (h2 : (2 : α) ≠ 0) (w : WS α) (hw : WSFixed m w) (st : QS α) (hst : StateOK m st)
    (qd qdd : VecN α) (id : Nat) (hid : id < m.nBodies) (hfd : id < fixedDisc) (p : V3 α) :
    matList 3 m.dofCount (calcPointJacobian m w st id p zeroMat true).2
      = Spec.pointJacobian M (stateOf st qd qdd) id p :=
  pointJacobian_list_core hm (resolvesR hm hR id hid hfd).1 (resolvesR hm hR id hid hfd).2 h2 w hw st hst
    qd qdd p hR.nv
example (p : V3 Rat) :=
  calcPointJacobian_eq_spec Ex.m_ok Ex.m_refines Ex.two_ne Ex.w1 Ex.w1_fixed Ex.st Ex.st_ok Ex.qd Ex.qdd 3
    (by decide +kernel) (by decide) p

theorem calcBodySpatialJacobian_col_eq_spec {m : ModelS α} {M : SModel α} (hm : ModelOK m) (hR : Refines m M)
    (h2 : (2 : α) ≠ 0) (w : WS α) (hw : WSFixed m w) (st : QS α) (hst : StateOK m st)
    (qd qdd : VecN α) (id : Nat) (hid : id < m.nBodies) (hfd : id < fixedDisc) (x : Nat)
    (hx : x < m.dofCount) :
    colSV (calcBodySpatialJacobian m w st id zeroMat true).2 x
      = Spec.bodySpatialJacobianCol M (stateOf st qd qdd) id x :=
  bodySpatialJacobian_col_core hm (resolvesR hm hR id hid hfd).1 (resolvesR hm hR id hid hfd).2 h2 w hw st hst
    qd qdd x hx
example  (x : Nat) (hx : x < Ex.m.dofCount) :=
  calcBodySpatialJacobian_col_eq_spec Ex.m_ok Ex.m_refines Ex.two_ne Ex.w1 Ex.w1_fixed Ex.st Ex.st_ok Ex.qd
    Ex.qdd 5 (by decide +kernel) (by decide) x hx

theorem calcBodySpatialJacobian_eq_spec {m : ModelS α} {M : SModel α} (hm : ModelOK m) (hR : Refines m M)
    (h2 : (2 : α) ≠ 0) (w : WS α) (hw : WSFixed m w) (st : QS α) (hst : StateOK m st)
    (qd qdd : VecN α) (id : Nat) (hid : id < m.nBodies) (hfd : id < fixedDisc) :
    matList 6 m.dofCount (calcBodySpatialJacobian m w st id zeroMat true).2
      = Spec.bodySpatialJacobian M (stateOf st qd qdd) id :=
  bodySpatialJacobian_list_core hm (resolvesR hm hR id hid hfd).1 (resolvesR hm hR id hid hfd).2 h2 w hw st hst
    qd qdd hR.nv
example  :=
  calcBodySpatialJacobian_eq_spec Ex.m_ok Ex.m_refines Ex.two_ne Ex.w1 Ex.w1_fixed Ex.st Ex.st_ok Ex.qd Ex.qdd 3
    (by decide +kernel) (by decide)

/-! ### Stage D — models with fixed bodies (`RefinesF` + `FixedIds`): every valid body id -/

theorem calcPointJacobian6D_col_eq_spec_fixed {m : ModelS α} {M : SModel α} {off : Nat → XT α}
    {nodeOf : Nat → Nat} (hm : ModelOK m) (hR : RefinesF m M off nodeOf) (hI : FixedIds m M off)
    (hcap : m.nBodies ≤ fixedDisc) (h2 : (2 : α) ≠ 0) (w : WS α) (hw : WSFixed m w) (st : QS α)
    (hst : StateOK m st) (qd qdd : VecN α) (id : Nat) (hid : m.validId id) (p : V3 α) (x : Nat)
    (hx : x < m.dofCount) :
    colSV (calcPointJacobian6D m w st id p zeroMat true).2 x
      = Spec.pointJacobian6DCol M (stateOf st qd qdd) id p x := by
  obtain ⟨hT, b, T, hres⟩ := resolvesF hm hR hI hcap id hid
  exact pointJacobian6D_col_core hm hT hres h2 w hw st hst qd qdd p x hx

theorem calcPointJacobian6D_eq_spec_fixed {m : ModelS α} {M : SModel α} {off : Nat → XT α}
    {nodeOf : Nat → Nat} (hm : ModelOK m) (hR : RefinesF m M off nodeOf) (hI : FixedIds m M off)
    (hcap : m.nBodies ≤ fixedDisc) (h2 : (2 : α) ≠ 0) (w : WS α) (hw : WSFixed m w) (st : QS α)
    (hst : StateOK m st) (qd qdd : VecN α) (id : Nat) (hid : m.validId id) (p : V3 α) :
    matList 6 m.dofCount (calcPointJacobian6D m w st id p zeroMat true).2
      = Spec.pointJacobian6D M (stateOf st qd qdd) id p := by
  obtain ⟨hT, b, T, hres⟩ := resolvesF hm hR hI hcap id hid
  exact pointJacobian6D_list_core hm hT hres h2 w hw st hst qd qdd p hR.nv
example (p : V3 Rat) (x : Nat) (hx : x < ExF.m.dofCount) :=
  calcPointJacobian6D_col_eq_spec_fixed ExF.m_ok ExF.m_refines
    (LKinCap.fixedIds_by_construction ExF.ops ExF.ops_good).1
    (LKinCap.fixedIds_by_construction ExF.ops ExF.ops_good).2 Ex.two_ne ExF.w1 ExF.w1_fixed ExF.st
    ExF.st_ok Ex.qd Ex.qdd (fixedDisc + 1) (Or.inr (by decide +kernel)) p x hx
example (p : V3 Rat) :=
  calcPointJacobian6D_eq_spec_fixed ExF.m_ok ExF.m_refines
    (LKinCap.fixedIds_by_construction ExF.ops ExF.ops_good).1
    (LKinCap.fixedIds_by_construction ExF.ops ExF.ops_good).2 Ex.two_ne ExF.w1 ExF.w1_fixed ExF.st
    ExF.st_ok Ex.qd Ex.qdd 4 (Or.inl (by decide +kernel)) p

theorem calcPointJacobian_col_eq_spec_fixed {m : ModelS α} {M : SModel α} {off : Nat → XT α}
    {nodeOf : Nat → Nat} (hm : ModelOK m) (hR : RefinesF m M off nodeOf) (hI : FixedIds m M off)
    (hcap : m.nBodies ≤ fixedDisc) (h2 : (2 : α) ≠ 0) (w : WS α) (hw : WSFixed m w) (st : QS α)
    (hst : StateOK m st) (qd qdd : VecN α) (id : Nat) (hid : m.validId id) (p : V3 α) (x : Nat)
    (hx : x < m.dofCount) :
    (⟨(calcPointJacobian m w st id p zeroMat true).2 0 x,
        (calcPointJacobian m w st id p zeroMat true).2 1 x,
        (calcPointJacobian m w st id p zeroMat true).2 2 x⟩ : V3 α)
      = (Spec.pointJacobian6DCol M (stateOf st qd qdd) id p x).v := by
  obtain ⟨hT, b, T, hres⟩ := resolvesF hm hR hI hcap id hid
  exact pointJacobian_col_core hm hT hres h2 w hw st hst qd qdd p x hx

theorem calcPointJacobian_eq_spec_fixed {m : ModelS α} {M : SModel α} {off : Nat → XT α}
    {nodeOf : Nat → Nat} (hm : ModelOK m) (hR : RefinesF m M off nodeOf) (hI : FixedIds m M off)
    (hcap : m.nBodies ≤ fixedDisc) (h2 : (2 : α) ≠ 0) (w : WS α) (hw : WSFixed m w) (st : QS α)
    (hst : StateOK m st) (qd qdd : VecN α) (id : Nat) (hid : m.validId id) (p : V3 α) :
    matList 3 m.dofCount (calcPointJacobian m w st id p zeroMat true).2
      = Spec.pointJacobian M (stateOf st qd qdd) id p := by
  obtain ⟨hT, b, T, hres⟩ := resolvesF hm hR hI hcap id hid
  exact pointJacobian_list_core hm hT hres h2 w hw st hst qd qdd p hR.nv
example (p : V3 Rat) (x : Nat) (hx : x < ExF.m.dofCount) :=
  calcPointJacobian_col_eq_spec_fixed ExF.m_ok ExF.m_refines
    (LKinCap.fixedIds_by_construction ExF.ops ExF.ops_good).1
    (LKinCap.fixedIds_by_construction ExF.ops ExF.ops_good).2 Ex.two_ne ExF.w1 ExF.w1_fixed ExF.st
    ExF.st_ok Ex.qd Ex.qdd (fixedDisc + 2) (Or.inr (by decide +kernel)) p x hx
example (p : V3 Rat) :=
  calcPointJacobian_eq_spec_fixed ExF.m_ok ExF.m_refines
    (LKinCap.fixedIds_by_construction ExF.ops ExF.ops_good).1
    (LKinCap.fixedIds_by_construction ExF.ops ExF.ops_good).2 Ex.two_ne ExF.w1 ExF.w1_fixed ExF.st
    ExF.st_ok Ex.qd Ex.qdd 4 (Or.inl (by decide +kernel)) p

theorem calcBodySpatialJacobian_col_eq_spec_fixed {m : ModelS α} {M : SModel α} {off : Nat → XT α}
    {nodeOf : Nat → Nat} (hm : ModelOK m) (hR : RefinesF m M off nodeOf) (hI : FixedIds m M off)
    (hcap : m.nBodies ≤ fixedDisc) (h2 : (2 : α) ≠ 0) (w : WS α) (hw : WSFixed m w) (st : QS α)
    (hst : StateOK m st) (qd qdd : VecN α) (id : Nat) (hid : m.validId id) (x : Nat)
    (hx : x < m.dofCount) :
    colSV (calcBodySpatialJacobian m w st id zeroMat true).2 x
      = Spec.bodySpatialJacobianCol M (stateOf st qd qdd) id x := by
  obtain ⟨hT, b, T, hres⟩ := resolvesF hm hR hI hcap id hid
  exact bodySpatialJacobian_col_core hm hT hres h2 w hw st hst qd qdd x hx

theorem calcBodySpatialJacobian_eq_spec_fixed {m : ModelS α} {M : SModel α} {off : Nat → XT α}
    {nodeOf : Nat → Nat} (hm : ModelOK m) (hR : RefinesF m M off nodeOf) (hI : FixedIds m M off)
    (hcap : m.nBodies ≤ fixedDisc) (h2 : (2 : α) ≠ 0) (w : WS α) (hw : WSFixed m w) (st : QS α)
    (hst : StateOK m st) (qd qdd : VecN α) (id : Nat) (hid : m.validId id) :
    matList 6 m.dofCount (calcBodySpatialJacobian m w st id zeroMat true).2
      = Spec.bodySpatialJacobian M (stateOf st qd qdd) id := by
  obtain ⟨hT, b, T, hres⟩ := resolvesF hm hR hI hcap id hid
  exact bodySpatialJacobian_list_core hm hT hres h2 w hw st hst qd qdd hR.nv
example  (x : Nat) (hx : x < ExF.m.dofCount) :=
  calcBodySpatialJacobian_col_eq_spec_fixed ExF.m_ok ExF.m_refines
    (LKinCap.fixedIds_by_construction ExF.ops ExF.ops_good).1
    (LKinCap.fixedIds_by_construction ExF.ops ExF.ops_good).2 Ex.two_ne ExF.w1 ExF.w1_fixed ExF.st
    ExF.st_ok Ex.qd Ex.qdd fixedDisc (Or.inr (by decide +kernel)) x hx
example  :=
  calcBodySpatialJacobian_eq_spec_fixed ExF.m_ok ExF.m_refines
    (LKinCap.fixedIds_by_construction ExF.ops ExF.ops_good).1
    (LKinCap.fixedIds_by_construction ExF.ops ExF.ops_good).2 Ex.two_ne ExF.w1 ExF.w1_fixed ExF.st
    ExF.st_ok Ex.qd Ex.qdd 4 (Or.inl (by decide +kernel))

/-! ### Stage E — end to end: construction calls in, Jacobians out -/

theorem calcPointJacobian6D_eq_spec_constructed (ops : List (Op α))
    (hg : goodRun (ModelS.init : ModelS α) ops) (h2 : (2 : α) ≠ 0) (w : WS α)
    (hw : WSFixed ((ModelS.init : ModelS α).run ops) w) (st : QS α)
    (hst : StateOK ((ModelS.init : ModelS α).run ops) st) (qd qdd : VecN α) (id : Nat)
    (hid : id < ((ModelS.init : ModelS α).run ops).nBodies) (hfd : id < fixedDisc) (p : V3 α) :
    matList 6 ((ModelS.init : ModelS α).run ops).dofCount
        (calcPointJacobian6D ((ModelS.init : ModelS α).run ops) w st id p zeroMat true).2
      = Spec.pointJacobian6D (specOf ops) (stateOf st qd qdd) id p :=
  have h := L01Cap.refines_by_construction ops hg
  calcPointJacobian6D_eq_spec h.1 h.2 h2 w hw st hst qd qdd id hid hfd p
example (p : V3 Rat) :=
  calcPointJacobian6D_eq_spec_constructed Ex.ops Ex.ops_good Ex.two_ne Ex.w1 Ex.w1_fixed Ex.st Ex.st_ok Ex.qd
    Ex.qdd 4 (by decide +kernel) (by decide) p

/-- built by `goodRunF` (fixed joints, floating base, custom joints, any valid parent), every valid body
    id: the strongest statement for `calcPointJacobian6D` (column form) -/
theorem calcPointJacobian6D_col_eq_spec_constructedF (ops : List (Op α))
    (hg : goodRunF (ModelS.init : ModelS α) ops) (h2 : (2 : α) ≠ 0) (w : WS α)
    (hw : WSFixed ((ModelS.init : ModelS α).run ops) w) (st : QS α)
    (hst : StateOK ((ModelS.init : ModelS α).run ops) st) (qd qdd : VecN α) (id : Nat)
    (hid : ((ModelS.init : ModelS α).run ops).validId id) (p : V3 α) (x : Nat)
    (hx : x < ((ModelS.init : ModelS α).run ops).dofCount) :
    colSV (calcPointJacobian6D ((ModelS.init : ModelS α).run ops) w st id p zeroMat true).2 x
      = Spec.pointJacobian6DCol (specOf ops) (stateOf st qd qdd) id p x :=
  have h := L01Cap.refinesF_by_construction ops hg
  have hI := LKinCap.fixedIds_by_construction ops hg
  calcPointJacobian6D_col_eq_spec_fixed h.1 h.2 hI.1 hI.2 h2 w hw st hst qd qdd id hid p x hx

/-- … and in list form (all `rows × dofCount` entries) -/
theorem calcPointJacobian6D_eq_spec_constructedF (ops : List (Op α))
    (hg : goodRunF (ModelS.init : ModelS α) ops) (h2 : (2 : α) ≠ 0) (w : WS α)
    (hw : WSFixed ((ModelS.init : ModelS α).run ops) w) (st : QS α)
    (hst : StateOK ((ModelS.init : ModelS α).run ops) st) (qd qdd : VecN α) (id : Nat)
    (hid : ((ModelS.init : ModelS α).run ops).validId id) (p : V3 α) :
    matList 6 ((ModelS.init : ModelS α).run ops).dofCount
        (calcPointJacobian6D ((ModelS.init : ModelS α).run ops) w st id p zeroMat true).2
      = Spec.pointJacobian6D (specOf ops) (stateOf st qd qdd) id p :=
  have h := L01Cap.refinesF_by_construction ops hg
  have hI := LKinCap.fixedIds_by_construction ops hg
  calcPointJacobian6D_eq_spec_fixed h.1 h.2 hI.1 hI.2 h2 w hw st hst qd qdd id hid p
example (p : V3 Rat) (x : Nat) (hx : x < ExF.m.dofCount) :=
  calcPointJacobian6D_col_eq_spec_constructedF ExF.ops ExF.ops_good Ex.two_ne ExF.w1 ExF.w1_fixed ExF.st
    ExF.st_ok Ex.qd Ex.qdd (fixedDisc + 1) (Or.inr (by decide +kernel)) p x hx
example (p : V3 Rat) :=
  calcPointJacobian6D_eq_spec_constructedF ExF.ops ExF.ops_good Ex.two_ne ExF.w1 ExF.w1_fixed ExF.st
    ExF.st_ok Ex.qd Ex.qdd (fixedDisc + 1) (Or.inr (by decide +kernel)) p

theorem calcPointJacobian_eq_spec_constructed (ops : List (Op α))
    (hg : goodRun (ModelS.init : ModelS α) ops) (h2 : (2 : α) ≠ 0) (w : WS α)
    (hw : WSFixed ((ModelS.init : ModelS α).run ops) w) (st : QS α)
    (hst : StateOK ((ModelS.init : ModelS α).run ops) st) (qd qdd : VecN α) (id : Nat)
    (hid : id < ((ModelS.init : ModelS α).run ops).nBodies) (hfd : id < fixedDisc) (p : V3 α) :
    matList 3 ((ModelS.init : ModelS α).run ops).dofCount
        (calcPointJacobian ((ModelS.init : ModelS α).run ops) w st id p zeroMat true).2
      = Spec.pointJacobian (specOf ops) (stateOf st qd qdd) id p :=
  have h := L01Cap.refines_by_construction ops hg
  calcPointJacobian_eq_spec h.1 h.2 h2 w hw st hst qd qdd id hid hfd p
example (p : V3 Rat) :=
  calcPointJacobian_eq_spec_constructed Ex.ops Ex.ops_good Ex.two_ne Ex.w1 Ex.w1_fixed Ex.st Ex.st_ok Ex.qd
    Ex.qdd 4 (by decide +kernel) (by decide) p

/-- built by `goodRunF` (fixed joints, floating base, custom joints, any valid parent), every valid body
    id: the strongest statement for `calcPointJacobian` (column form) -/
theorem calcPointJacobian_col_eq_spec_constructedF (ops : List (Op α))
    (hg : goodRunF (ModelS.init : ModelS α) ops) (h2 : (2 : α) ≠ 0) (w : WS α)
    (hw : WSFixed ((ModelS.init : ModelS α).run ops) w) (st : QS α)
    (hst : StateOK ((ModelS.init : ModelS α).run ops) st) (qd qdd : VecN α) (id : Nat)
    (hid : ((ModelS.init : ModelS α).run ops).validId id) (p : V3 α) (x : Nat)
    (hx : x < ((ModelS.init : ModelS α).run ops).dofCount) :
    (⟨(calcPointJacobian ((ModelS.init : ModelS α).run ops) w st id p zeroMat true).2 0 x,
        (calcPointJacobian ((ModelS.init : ModelS α).run ops) w st id p zeroMat true).2 1 x,
        (calcPointJacobian ((ModelS.init : ModelS α).run ops) w st id p zeroMat true).2 2 x⟩ : V3 α)
      = (Spec.pointJacobian6DCol (specOf ops) (stateOf st qd qdd) id p x).v :=
  have h := L01Cap.refinesF_by_construction ops hg
  have hI := LKinCap.fixedIds_by_construction ops hg
  calcPointJacobian_col_eq_spec_fixed h.1 h.2 hI.1 hI.2 h2 w hw st hst qd qdd id hid p x hx

/-- … and in list form (all `rows × dofCount` entries) -/
theorem calcPointJacobian_eq_spec_constructedF (ops : List (Op α))
    (hg : goodRunF (ModelS.init : ModelS α) ops) (h2 : (2 : α) ≠ 0) (w : WS α)
    (hw : WSFixed ((ModelS.init : ModelS α).run ops) w) (st : QS α)
    (hst : StateOK ((ModelS.init : ModelS α).run ops) st) (qd qdd : VecN α) (id : Nat)
    (hid : ((ModelS.init : ModelS α).run ops).validId id) (p : V3 α) :
    matList 3 ((ModelS.init : ModelS α).run ops).dofCount
        (calcPointJacobian ((ModelS.init : ModelS α).run ops) w st id p zeroMat true).2
      = Spec.pointJacobian (specOf ops) (stateOf st qd qdd) id p :=
  have h := L01Cap.refinesF_by_construction ops hg
  have hI := LKinCap.fixedIds_by_construction ops hg
  calcPointJacobian_eq_spec_fixed h.1 h.2 hI.1 hI.2 h2 w hw st hst qd qdd id hid p
example (p : V3 Rat) (x : Nat) (hx : x < ExF.m.dofCount) :=
  calcPointJacobian_col_eq_spec_constructedF ExF.ops ExF.ops_good Ex.two_ne ExF.w1 ExF.w1_fixed ExF.st
    ExF.st_ok Ex.qd Ex.qdd (fixedDisc + 2) (Or.inr (by decide +kernel)) p x hx
example (p : V3 Rat) :=
  calcPointJacobian_eq_spec_constructedF ExF.ops ExF.ops_good Ex.two_ne ExF.w1 ExF.w1_fixed ExF.st
    ExF.st_ok Ex.qd Ex.qdd (fixedDisc + 2) (Or.inr (by decide +kernel)) p

theorem calcBodySpatialJacobian_eq_spec_constructed (ops : List (Op α))
    (hg : goodRun (ModelS.init : ModelS α) ops) (h2 : (2 : α) ≠ 0) (w : WS α)
    (hw : WSFixed ((ModelS.init : ModelS α).run ops) w) (st : QS α)
    (hst : StateOK ((ModelS.init : ModelS α).run ops) st) (qd qdd : VecN α) (id : Nat)
    (hid : id < ((ModelS.init : ModelS α).run ops).nBodies) (hfd : id < fixedDisc) :
    matList 6 ((ModelS.init : ModelS α).run ops).dofCount
        (calcBodySpatialJacobian ((ModelS.init : ModelS α).run ops) w st id zeroMat true).2
      = Spec.bodySpatialJacobian (specOf ops) (stateOf st qd qdd) id :=
  have h := L01Cap.refines_by_construction ops hg
  calcBodySpatialJacobian_eq_spec h.1 h.2 h2 w hw st hst qd qdd id hid hfd
example  :=
  calcBodySpatialJacobian_eq_spec_constructed Ex.ops Ex.ops_good Ex.two_ne Ex.w1 Ex.w1_fixed Ex.st Ex.st_ok Ex.qd
    Ex.qdd 4 (by decide +kernel) (by decide)

/-- built by `goodRunF` (fixed joints, floating base, custom joints, any valid parent), every valid body
    id: the strongest statement for `calcBodySpatialJacobian` (column form) -/
theorem calcBodySpatialJacobian_col_eq_spec_constructedF (ops : List (Op α))
    (hg : goodRunF (ModelS.init : ModelS α) ops) (h2 : (2 : α) ≠ 0) (w : WS α)
    (hw : WSFixed ((ModelS.init : ModelS α).run ops) w) (st : QS α)
    (hst : StateOK ((ModelS.init : ModelS α).run ops) st) (qd qdd : VecN α) (id : Nat)
    (hid : ((ModelS.init : ModelS α).run ops).validId id) (x : Nat)
    (hx : x < ((ModelS.init : ModelS α).run ops).dofCount) :
    colSV (calcBodySpatialJacobian ((ModelS.init : ModelS α).run ops) w st id zeroMat true).2 x
      = Spec.bodySpatialJacobianCol (specOf ops) (stateOf st qd qdd) id x :=
  have h := L01Cap.refinesF_by_construction ops hg
  have hI := LKinCap.fixedIds_by_construction ops hg
  calcBodySpatialJacobian_col_eq_spec_fixed h.1 h.2 hI.1 hI.2 h2 w hw st hst qd qdd id hid x hx

/-- … and in list form (all `rows × dofCount` entries) -/
theorem calcBodySpatialJacobian_eq_spec_constructedF (ops : List (Op α))
    (hg : goodRunF (ModelS.init : ModelS α) ops) (h2 : (2 : α) ≠ 0) (w : WS α)
    (hw : WSFixed ((ModelS.init : ModelS α).run ops) w) (st : QS α)
    (hst : StateOK ((ModelS.init : ModelS α).run ops) st) (qd qdd : VecN α) (id : Nat)
    (hid : ((ModelS.init : ModelS α).run ops).validId id) :
    matList 6 ((ModelS.init : ModelS α).run ops).dofCount
        (calcBodySpatialJacobian ((ModelS.init : ModelS α).run ops) w st id zeroMat true).2
      = Spec.bodySpatialJacobian (specOf ops) (stateOf st qd qdd) id :=
  have h := L01Cap.refinesF_by_construction ops hg
  have hI := LKinCap.fixedIds_by_construction ops hg
  calcBodySpatialJacobian_eq_spec_fixed h.1 h.2 hI.1 hI.2 h2 w hw st hst qd qdd id hid
example  (x : Nat) (hx : x < ExF.m.dofCount) :=
  calcBodySpatialJacobian_col_eq_spec_constructedF ExF.ops ExF.ops_good Ex.two_ne ExF.w1 ExF.w1_fixed ExF.st
    ExF.st_ok Ex.qd Ex.qdd fixedDisc (Or.inr (by decide +kernel)) x hx
example  :=
  calcBodySpatialJacobian_eq_spec_constructedF ExF.ops ExF.ops_good Ex.two_ne ExF.w1 ExF.w1_fixed ExF.st
    ExF.st_ok Ex.qd Ex.qdd fixedDisc (Or.inr (by decide +kernel))

/-! ### the `update_kinematics = false` variants after `UpdateKinematicsCustom (Q)` (C13, by unfolding) -/

theorem calcPointJacobian6D_flagCleared_eq_spec {m : ModelS α} {M : SModel α} {off : Nat → XT α}
    {nodeOf : Nat → Nat} (hm : ModelOK m) (hR : RefinesF m M off nodeOf) (hI : FixedIds m M off)
    (hcap : m.nBodies ≤ fixedDisc) (h2 : (2 : α) ≠ 0) (w : WS α) (hw : WSFixed m w) (st : QS α)
    (hst : StateOK m st) (qd qdd : VecN α) (id : Nat) (hid : m.validId id) (p : V3 α) :
    matList 6 m.dofCount
        (calcPointJacobian6D m (updateKinematicsCustom m w (some st) none none) st id p zeroMat false).2
      = Spec.pointJacobian6D M (stateOf st qd qdd) id p := by
  rw [C13.flag_cleared_calcPointJacobian6D]
  exact calcPointJacobian6D_eq_spec_fixed hm hR hI hcap h2 w hw st hst qd qdd id hid p
example (p : V3 Rat) :=
  calcPointJacobian6D_flagCleared_eq_spec ExF.m_ok ExF.m_refines
    (LKinCap.fixedIds_by_construction ExF.ops ExF.ops_good).1
    (LKinCap.fixedIds_by_construction ExF.ops ExF.ops_good).2 Ex.two_ne ExF.w1 ExF.w1_fixed ExF.st
    ExF.st_ok Ex.qd Ex.qdd (fixedDisc + 1) (Or.inr (by decide +kernel)) p

theorem calcPointJacobian_flagCleared_eq_spec {m : ModelS α} {M : SModel α} {off : Nat → XT α}
    {nodeOf : Nat → Nat} (hm : ModelOK m) (hR : RefinesF m M off nodeOf) (hI : FixedIds m M off)
    (hcap : m.nBodies ≤ fixedDisc) (h2 : (2 : α) ≠ 0) (w : WS α) (hw : WSFixed m w) (st : QS α)
    (hst : StateOK m st) (qd qdd : VecN α) (id : Nat) (hid : m.validId id) (p : V3 α) :
    matList 3 m.dofCount
        (calcPointJacobian m (updateKinematicsCustom m w (some st) none none) st id p zeroMat false).2
      = Spec.pointJacobian M (stateOf st qd qdd) id p := by
  rw [C13.flag_cleared_calcPointJacobian]
  exact calcPointJacobian_eq_spec_fixed hm hR hI hcap h2 w hw st hst qd qdd id hid p
example (p : V3 Rat) :=
  calcPointJacobian_flagCleared_eq_spec ExF.m_ok ExF.m_refines
    (LKinCap.fixedIds_by_construction ExF.ops ExF.ops_good).1
    (LKinCap.fixedIds_by_construction ExF.ops ExF.ops_good).2 Ex.two_ne ExF.w1 ExF.w1_fixed ExF.st
    ExF.st_ok Ex.qd Ex.qdd (fixedDisc + 2) (Or.inr (by decide +kernel)) p

theorem calcBodySpatialJacobian_flagCleared_eq_spec {m : ModelS α} {M : SModel α} {off : Nat → XT α}
    {nodeOf : Nat → Nat} (hm : ModelOK m) (hR : RefinesF m M off nodeOf) (hI : FixedIds m M off)
    (hcap : m.nBodies ≤ fixedDisc) (h2 : (2 : α) ≠ 0) (w : WS α) (hw : WSFixed m w) (st : QS α)
    (hst : StateOK m st) (qd qdd : VecN α) (id : Nat) (hid : m.validId id) :
    matList 6 m.dofCount
        (calcBodySpatialJacobian m (updateKinematicsCustom m w (some st) none none) st id zeroMat false).2
      = Spec.bodySpatialJacobian M (stateOf st qd qdd) id := by
  rw [C13.flag_cleared_calcBodySpatialJacobian]
  exact calcBodySpatialJacobian_eq_spec_fixed hm hR hI hcap h2 w hw st hst qd qdd id hid
example  :=
  calcBodySpatialJacobian_flagCleared_eq_spec ExF.m_ok ExF.m_refines
    (LKinCap.fixedIds_by_construction ExF.ops ExF.ops_good).1
    (LKinCap.fixedIds_by_construction ExF.ops ExF.ops_good).2 Ex.two_ne ExF.w1 ExF.w1_fixed ExF.st
    ExF.st_ok Ex.qd Ex.qdd fixedDisc (Or.inr (by decide +kernel))

/-! ### numerical sanity checks (kernel evaluation over `Rat`, both sides computed independently)

  The branched model `L01Cap.ExF` (6 movable bodies incl. the base, 3 fixed bodies, 12 DoF), poisoned
  workspace.  Columns: 1 (translation of the floating base), 6 (the revolute thigh that carries the fixed
  bodies), 8 (an Euler coordinate of the shank: off the path of the imu, on the path of the shank),
  11 (the custom joint: off both paths). -/

example : colSV (calcPointJacobian6D ExF.m ExF.w1 ExF.st (fixedDisc + 1) ⟨1, 2, 3⟩ zeroMat true).2 6
    = Spec.pointJacobian6DCol ExF.M (stateOf ExF.st Ex.qd Ex.qdd) (fixedDisc + 1) ⟨1, 2, 3⟩ 6 := by
  decide +kernel
example : colSV (calcPointJacobian6D ExF.m ExF.w1 ExF.st (fixedDisc + 1) ⟨1, 2, 3⟩ zeroMat true).2 8
    = Spec.pointJacobian6DCol ExF.M (stateOf ExF.st Ex.qd Ex.qdd) (fixedDisc + 1) ⟨1, 2, 3⟩ 8 := by
  decide +kernel
example : colSV (calcPointJacobian6D ExF.m ExF.w1 ExF.st 4 ⟨1, 2, 3⟩ zeroMat true).2 8
    = Spec.pointJacobian6DCol ExF.M (stateOf ExF.st Ex.qd Ex.qdd) 4 ⟨1, 2, 3⟩ 8 := by
  decide +kernel
example : colSV (calcBodySpatialJacobian ExF.m ExF.w1 ExF.st (fixedDisc + 1) zeroMat true).2 1
    = Spec.bodySpatialJacobianCol ExF.M (stateOf ExF.st Ex.qd Ex.qdd) (fixedDisc + 1) 1 := by
  decide +kernel
example : colSV (calcBodySpatialJacobian ExF.m ExF.w1 ExF.st 5 zeroMat true).2 11
    = Spec.bodySpatialJacobianCol ExF.M (stateOf ExF.st Ex.qd Ex.qdd) 5 11 := by
  decide +kernel
/-- a whole `3 × 5` point Jacobian as a list (the revolute – prismatic – Euler-ZYX chain `Ex.mB`) -/
example : matList 3 5 (calcPointJacobian Ex.mB (initWS Ex.mB) Ex.st 3 ⟨1, 2, 3⟩ zeroMat true).2
    = Spec.pointJacobian (specOf Ex.opsB) (stateOf Ex.st Ex.qd Ex.qdd) 3 ⟨1, 2, 3⟩ := by
  decide +kernel
/-- the column of the thigh joint is not trivial, the column of the custom joint (off the path) is 0 -/
example : colSV (calcPointJacobian6D ExF.m ExF.w1 ExF.st (fixedDisc + 1) ⟨1, 2, 3⟩ zeroMat true).2 6
      ≠ SV.zero ∧
    colSV (calcPointJacobian6D ExF.m ExF.w1 ExF.st (fixedDisc + 1) ⟨1, 2, 3⟩ zeroMat true).2 11
      = SV.zero := by decide +kernel

end Rbdl.C05Cap
