import RbdlProofs.Lemmas.Rot
/- C20 — property theorems (being filled in) -/
namespace Rbdl.C20
open Lean.Grind Rbdl
variable {α : Type} [CommRing α]
theorem placeholder_rot_one : (M3.one : M3 α).IsRot := M3.isRot_one
end Rbdl.C20
