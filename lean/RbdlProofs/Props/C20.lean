import RbdlProofs.Lemmas.L20
import RbdlProofs.Lemmas.L20Ex
/-
  C20 — distinct model / constraint-set objects share no hidden mutable state: routines may run
  on different instances concurrently or interleaved, each returns the results of running alone.

  The machine is `Rbdl/Isolation.lean`: instances `Nat → Inst`, process-wide globals `Glob`,
  `step op : Inst → Glob → Inst × Glob × Out`.  What is *assumed* about the compiled library is a
  frame condition on `step` (checked outside Lean, on the symbol tables of the compiled objects):
  `GlobPreserved` (no routine writes a global) and `GlobIrrelevant` (no routine reads one), or the
  weaker `GlobConfined` (the part of the globals that is read is never written).  What is *proved*
  is that these imply the property for all schedules, at call granularity and below it.
-/
namespace Rbdl.C20
open Rbdl Rbdl.Isolation Rbdl.L20

section Generic
variable {Inst Glob Op Out : Type}

/-! ## call granularity -/

/-- (general form) If the part `view g` of the globals that routines read is never written, then in
    every schedule, for every instance `i`, the final state of `i` and the outputs returned to the
    callers of `i` are those of running the calls of `i` alone from the same initial state; the
    part of the globals that is read ends unchanged. -/
theorem interleaving_independent_confined {V : Type} {view : Glob → V}
    {step : Op → Inst → Glob → Inst × Glob × Out} (hc : GlobConfinedBy view step)
    (s : Sys Inst Glob) (sched : List (Nat × Op)) (i : Nat) :
    (run step s sched).1.inst i = (solo step s i sched).1 ∧
    outputsOf i (run step s sched).2 = (solo step s i sched).2.2 ∧
    view (run step s sched).1.glob = view s.glob :=
  run_eq_solo hc sched s i

/-- Routines neither write nor read a global: for every schedule and every instance `i`, the final
    state of `i` and the list of outputs of the events of `i` equal those of the solo run of
    `project i sched`. -/
theorem interleaving_independent {step : Op → Inst → Glob → Inst × Glob × Out}
    (_hP : GlobPreserved step) (hI : GlobIrrelevant step)
    (s : Sys Inst Glob) (sched : List (Nat × Op)) (i : Nat) :
    (run step s sched).1.inst i = (solo step s i sched).1 ∧
    outputsOf i (run step s sched).2 = (solo step s i sched).2.2 := by
  obtain ⟨h1, h2, _⟩ := run_eq_solo (confined_of_irrelevant hI) sched s i
  exact ⟨h1, h2⟩

/-- ... and the solo run does not depend on the values the globals have in the process:
    the results are those of the instance alone in a process with any globals `g'`. -/
theorem interleaving_independent_any_globals {step : Op → Inst → Glob → Inst × Glob × Out}
    (hP : GlobPreserved step) (hI : GlobIrrelevant step)
    (s : Sys Inst Glob) (sched : List (Nat × Op)) (i : Nat) (g' : Glob) :
    (run step s sched).1.inst i = (soloRun step (s.inst i) g' (opsOf i sched)).1 ∧
    outputsOf i (run step s sched).2 = (soloRun step (s.inst i) g' (opsOf i sched)).2.2 := by
  obtain ⟨h1, h2⟩ := interleaving_independent hP hI s sched i
  obtain ⟨k1, k2⟩ := soloRun_irrelevant hI (opsOf i sched) (s.inst i) s.glob g'
  exact ⟨h1.trans k1, h2.trans k2⟩

/-- Each frame condition is sufficient on its own: read-only globals ... -/
theorem interleaving_independent_readonly {step : Op → Inst → Glob → Inst × Glob × Out}
    (hP : GlobPreserved step) (s : Sys Inst Glob) (sched : List (Nat × Op)) (i : Nat) :
    (run step s sched).1.inst i = (solo step s i sched).1 ∧
    outputsOf i (run step s sched).2 = (solo step s i sched).2.2 := by
  obtain ⟨h1, h2, _⟩ := run_eq_solo (confined_of_preserved hP) sched s i
  exact ⟨h1, h2⟩

/-- ... or write-only globals (a log stream). -/
theorem interleaving_independent_writeonly {step : Op → Inst → Glob → Inst × Glob × Out}
    (hI : GlobIrrelevant step) (s : Sys Inst Glob) (sched : List (Nat × Op)) (i : Nat) :
    (run step s sched).1.inst i = (solo step s i sched).1 ∧
    outputsOf i (run step s sched).2 = (solo step s i sched).2.2 := by
  obtain ⟨h1, h2, _⟩ := run_eq_solo (confined_of_irrelevant hI) sched s i
  exact ⟨h1, h2⟩

/-- the globals after any schedule are the initial ones -/
theorem glob_unchanged {step : Op → Inst → Glob → Inst × Glob × Out} (hP : GlobPreserved step)
    (s : Sys Inst Glob) (sched : List (Nat × Op)) : (run step s sched).1.glob = s.glob :=
  run_glob_preserved hP sched s

/-- (general form) Two schedules with the same per-instance projections give every instance the
    same final state and the same outputs. -/
theorem outputs_permutation_invariant_confined {step : Op → Inst → Glob → Inst × Glob × Out}
    (hc : GlobConfined step) (s : Sys Inst Glob) (sched sched' : List (Nat × Op))
    (h : ∀ i, project i sched = project i sched') (i : Nat) :
    (run step s sched).1.inst i = (run step s sched').1.inst i ∧
    outputsOf i (run step s sched).2 = outputsOf i (run step s sched').2 := by
  obtain ⟨V, view, hv⟩ := hc
  obtain ⟨a1, a2, _⟩ := run_eq_solo hv sched s i
  obtain ⟨b1, b2, _⟩ := run_eq_solo hv sched' s i
  have e : solo step s i sched = solo step s i sched' := by
    simp only [solo, opsOf_congr (h i)]
  rw [a1, a2, b1, b2, e]
  exact ⟨rfl, rfl⟩

/-- Two schedules with the same per-instance projections end in the same system state (all
    instances and the globals) and give every instance the same outputs. -/
theorem outputs_permutation_invariant {step : Op → Inst → Glob → Inst × Glob × Out}
    (hP : GlobPreserved step) (hI : GlobIrrelevant step)
    (s : Sys Inst Glob) (sched sched' : List (Nat × Op))
    (h : ∀ i, project i sched = project i sched') :
    (run step s sched).1 = (run step s sched').1 ∧
    ∀ i, outputsOf i (run step s sched).2 = outputsOf i (run step s sched').2 := by
  have hc : GlobConfined step := ⟨Unit, fun _ => (), confined_of_irrelevant hI⟩
  refine ⟨?_, fun i => (outputs_permutation_invariant_confined hc s sched sched' h i).2⟩
  have hinst : (run step s sched).1.inst = (run step s sched').1.inst :=
    funext fun i => (outputs_permutation_invariant_confined hc s sched sched' h i).1
  have hglob : (run step s sched).1.glob = (run step s sched').1.glob := by
    rw [glob_unchanged hP, glob_unchanged hP]
  cases hr : (run step s sched).1 with
  | mk a b =>
    cases hr' : (run step s sched').1 with
    | mk a' b' =>
      rw [hr, hr'] at hinst hglob
      cases hinst; cases hglob; rfl

/-! ## below call granularity -/

/-- For every interleaving of the micro-steps of the programs `prog i` that keeps the micro-steps
    of each instance in program order, every instance ends in the state, and its callers see the
    outputs, of its program run alone with atomic calls. -/
theorem micro_interleaving_independent (micro : Op → List (Inst → Inst))
    (readOut : Op → Inst → Out) (prog : Nat → List Op) (ms : List (Nat × MEv Inst Op))
    (h : IsInterleaving micro prog ms) (s : Nat → Inst) (i : Nat) :
    (mrun readOut s ms).1 i = (soloRun (stepOfMicro micro readOut) (s i) () (prog i)).1 ∧
    outputsOf i (mrun readOut s ms).2 =
      (soloRun (stepOfMicro micro readOut) (s i) () (prog i)).2.2 := by
  obtain ⟨h1, h2⟩ := mrun_eq_msolo readOut ms s i
  rw [h1, h2, h i, msolo_expand]
  exact ⟨rfl, rfl⟩

/-- the atomic calls made of micro-steps satisfy both frame conditions, for any globals -/
theorem stepOfMicro_frame (micro : Op → List (Inst → Inst)) (readOut : Op → Inst → Out) :
    GlobPreserved (stepOfMicro (Glob := Glob) micro readOut) ∧
    GlobIrrelevant (stepOfMicro (Glob := Glob) micro readOut) :=
  ⟨fun _ _ _ => rfl, fun _ _ _ _ => ⟨rfl, rfl⟩⟩

/-- Linearisation: every micro-step interleaving gives each instance what any call-granularity
    schedule with the same per-instance programs gives it. -/
theorem micro_eq_atomic (micro : Op → List (Inst → Inst))
    (readOut : Op → Inst → Out) (prog : Nat → List Op) (ms : List (Nat × MEv Inst Op))
    (h : IsInterleaving micro prog ms) (s : Nat → Inst)
    (sched : List (Nat × Op)) (hs : ∀ i, opsOf i sched = prog i) (i : Nat) :
    (mrun readOut s ms).1 i = (run (stepOfMicro micro readOut) ⟨s, ()⟩ sched).1.inst i ∧
    outputsOf i (mrun readOut s ms).2 =
      outputsOf i (run (stepOfMicro micro readOut) ⟨s, ()⟩ sched).2 := by
  obtain ⟨h1, h2⟩ := micro_interleaving_independent micro readOut prog ms h s i
  obtain ⟨k1, k2⟩ := interleaving_independent (stepOfMicro_frame micro readOut).1
    (stepOfMicro_frame micro readOut).2 ⟨s, ()⟩ sched i
  simp only [solo, hs i] at k1 k2
  rw [h1, h2, k1, k2]
  exact ⟨rfl, rfl⟩

end Generic

/-! ## the modelled routines -/

/-- The routines of the model next to any block of globals satisfy both frame conditions
    (they are functions of the instance and the arguments). -/
theorem rstepG_frame (Glob : Type) :
    GlobPreserved (rstepG (Glob := Glob)) ∧ GlobIrrelevant (rstepG (Glob := Glob)) :=
  ⟨fun _ _ _ => rfl, fun _ _ _ _ => ⟨rfl, rfl⟩⟩

theorem rstep_frame : GlobPreserved rstep ∧ GlobIrrelevant rstep := rstepG_frame Unit

/-- hence: any schedule of modelled routines on any number of instances gives every instance the
    results of running alone -/
theorem rstep_isolated (s : Sys RInst Unit) (sched : List (Nat × ROp)) (i : Nat) :
    (run rstep s sched).1.inst i = (solo rstep s i sched).1 ∧
    outputsOf i (run rstep s sched).2 = (solo rstep s i sched).2.2 :=
  interleaving_independent rstep_frame.1 rstep_frame.2 s sched i

/-- routines that write the process-wide log: the log is not preserved, but it is never read -/
theorem lstep_irrelevant : GlobIrrelevant lstep := fun _ _ _ _ => ⟨rfl, rfl⟩

theorem lstep_not_preserved : ¬ GlobPreserved lstep := by
  intro h
  have := h (.addContact 0 ⟨0, 0, 0⟩ ⟨0, 0, 0⟩ 0) L20.Ex.x2 []
  simp [lstep] at this

theorem lstep_isolated (s : Sys RInst (List String)) (sched : List (Nat × ROp)) (i : Nat) :
    (run lstep s sched).1.inst i = (solo lstep s i sched).1 ∧
    outputsOf i (run lstep s sched).2 = (solo lstep s i sched).2.2 :=
  interleaving_independent_writeonly lstep_irrelevant s sched i

/-- Micro-step interleavings of the modelled routines (`InverseDynamics` split into binding `Tau`,
    forward passes, backward pass): every instance gets the model, workspace, constraint set and
    outputs of its program run alone with the atomic routines `rstep`. -/
theorem rmicro_interleaving_independent (prog : Nat → List ROp)
    (ms : List (Nat × MEv RInstM ROp)) (h : IsInterleaving rmicro prog ms)
    (s : Nat → RInstM) (i : Nat) :
    ((mrun rreadOut s ms).1 i).1 = (soloRun rstep (s i).1 () (prog i)).1 ∧
    outputsOf i (mrun rreadOut s ms).2 = (soloRun rstep (s i).1 () (prog i)).2.2 := by
  obtain ⟨h1, h2⟩ := micro_interleaving_independent rmicro rreadOut prog ms h s i
  have sim := soloRun_sim (Glob' := Unit) (Prod.fst : RInstM → RInst)
    (stepOfMicro rmicro rreadOut) rstep
    (by
      intro op x' g' g
      obtain ⟨x, o⟩ := x'
      simp only [stepOfMicro, rreadOut, rmicro_atomic]
      exact ⟨rfl, rfl⟩)
    rstep_frame.1 (prog i) (s i) () ()
  rw [h1, h2]
  exact sim

/-! ### non-vacuity -/

section Examples
open L20.Ex

/-- the interleaved schedule and the instance-after-instance schedule have the same projections -/
theorem sched_project : ∀ i, project i sched = project i schedSeq := by
  intro i
  match i with
  | 0 => rfl
  | 1 => rfl
  | 2 => rfl
  | _ + 3 => rfl

/-- the three-instance interleaved schedule, evaluated: the outputs seen by instance 2 (model
    load, then `CompositeRigidBodyAlgorithm`, then `InverseDynamics` on the loaded model) -/
example : (outputsOf 2 (run rstep s3 sched).2).map (ROut.obs 2) =
    [[0, 0, 1], [111011 / 1296, -1319 / 216, -1319 / 216, 97 / 18],
     [-6114313 / 90720, 80279 / 4200]] := by decide +kernel

/-- evaluated: every instance sees in the interleaved schedule the outputs of its solo run -/
example : (outputsOf 0 (run rstep s3 sched).2).map (ROut.obs 5) =
    (solo rstep s3 0 sched).2.2.map (ROut.obs 5) := by decide +kernel
example : (outputsOf 1 (run rstep s3 sched).2).map (ROut.obs 7) =
    (solo rstep s3 1 sched).2.2.map (ROut.obs 7) := by decide +kernel
example : (outputsOf 2 (run rstep s3 sched).2).map (ROut.obs 2) =
    (solo rstep s3 2 sched).2.2.map (ROut.obs 2) := by decide +kernel

/-- the outputs are not trivial and differ between instances -/
example : (outputsOf 1 (run rstep s3 sched).2).map (ROut.obs 3) ≠
    (outputsOf 0 (run rstep s3 sched).2).map (ROut.obs 3) := by decide +kernel

/-- hypotheses of the theorems: the frame conditions hold for `rstep` (`rstep_frame`), and the
    permutation theorem applies to `sched` / `schedSeq` -/
example : (run rstep s3 sched).1 = (run rstep s3 schedSeq).1 :=
  (outputs_permutation_invariant rstep_frame.1 rstep_frame.2 s3 sched schedSeq sched_project).1

/-- with the log: the outputs agree although the final logs differ -/
example : (run lstep ⟨inst3, []⟩ sched).1.glob ≠ (run lstep ⟨inst3, []⟩ schedSeq).1.glob := by
  decide +kernel
example : ∀ i, outputsOf i (run lstep ⟨inst3, []⟩ sched).2 =
    outputsOf i (run lstep ⟨inst3, []⟩ schedSeq).2 := fun i =>
  (outputs_permutation_invariant_confined ⟨Unit, fun _ => (), confined_of_irrelevant lstep_irrelevant⟩
    ⟨inst3, []⟩ sched schedSeq sched_project i).2

/-- `msched` is an interleaving of the three programs below call granularity -/
theorem msched_interleaving : IsInterleaving rmicro prog msched := by
  intro i
  match i with
  | 0 => rfl
  | 1 => rfl
  | 2 => rfl
  | _ + 3 => rfl

/-- it really preempts instance 0 inside `InverseDynamics` -/
example : msched.map (·.1) = [0, 1, 0, 2, 1, 1, 0, 1, 2, 1, 0, 1] := by decide +kernel

example : ((mrun rreadOut sM msched).1 1).1 = (soloRun rstep (sM 1).1 () (prog 1)).1 :=
  (rmicro_interleaving_independent prog msched msched_interleaving sM 1).1

/-- evaluated: the micro-step interleaving hands instance 1 the outputs of its solo run -/
example : (outputsOf 1 (mrun rreadOut sM msched).2).map (ROut.obs 7) =
    (soloRun rstep (sM 1).1 () (prog 1)).2.2.map (ROut.obs 7) := by decide +kernel

/-- `micro_eq_atomic`: a call-granularity schedule with the same programs -/
def progSched : List (Nat × ROp) :=
  [ (1, .updateKinematics C04.Ex.st qd1 z),
    (0, .inverseDynamics C02.Ex.st C02.Ex.qd C02.Ex.tau z none),
    (2, .luaLoad fileA),
    (1, .inverseDynamics C04.Ex.st qd1 qd1 z none) ]

theorem progSched_ops : ∀ i, opsOf i progSched = prog i := by
  intro i
  match i with
  | 0 => rfl
  | 1 => rfl
  | 2 => rfl
  | _ + 3 => rfl

example : ∀ i, outputsOf i (mrun rreadOut sM msched).2 =
    outputsOf i (run (stepOfMicro rmicro rreadOut) ⟨sM, ()⟩ progSched).2 := fun i =>
  (micro_eq_atomic rmicro rreadOut prog msched msched_interleaving sM progSched progSched_ops i).2

/-! small machines over `Nat` for the single frame conditions -/

/-- a routine that reads a global configuration value and never writes it: preserved, not
    irrelevant -/
def roStep : Nat → Nat → Nat → Nat × Nat × Nat := fun op x g => (x + op * g, g, x + g)

example : GlobPreserved roStep ∧ ¬ GlobIrrelevant roStep :=
  ⟨fun _ _ _ => rfl, fun h => absurd (h 1 0 0 1).1 (by decide)⟩

/-- globals with a read-only part (a configuration value) and a write-only part (a log):
    confined by the view on the first part, neither preserved nor irrelevant -/
def cfgLogStep : Nat → Nat → Nat × List Nat → Nat × (Nat × List Nat) × Nat :=
  fun op x g => (x + op * g.1, (g.1, g.2 ++ [op]), x + g.1)

example : GlobConfinedBy (fun g : Nat × List Nat => g.1) cfgLogStep ∧
    ¬ GlobPreserved cfgLogStep ∧ ¬ GlobIrrelevant cfgLogStep :=
  ⟨⟨fun _ _ _ => rfl, fun op x g g' h => by
      simp only [cfgLogStep]; simp only at h; rw [h]; exact ⟨rfl, rfl⟩⟩,
   fun h => absurd (h 1 0 (0, [])) (by decide),
   fun h => absurd (h 1 0 (0, []) (1, [])).1 (by decide)⟩

end Examples

/-! ## necessity: the Lua loader before the fix -/

section Defect
open L20.Ex

/-- the two load orders have the same projections: each thread loads its own file once -/
theorem load_project : ∀ i, project i loadAB = project i loadBA := by
  intro i
  match i with
  | 0 => rfl
  | 1 => rfl
  | _ + 2 => rfl

/-- Before the fix the loader satisfies neither frame condition ... -/
theorem dstep_not_preserved : ¬ GlobPreserved dstep := by
  intro h
  have := congrArg List.length (h (.luaLoad fileA) x2 [])
  revert this
  decide +kernel

theorem dstep_not_irrelevant : ¬ GlobIrrelevant dstep := by
  intro h
  have := congrArg ROut.idsD (h (.luaLoad fileB) x2 [] [("thigh", 2)]).2
  revert this
  decide +kernel

/-- ... and the property fails: two schedules with equal projections, different outputs for
    thread 1.  Loaded after file A, the frame `hand` of file B (parent `thigh`, not defined in
    file B) is attached to body 2, the id of `thigh` in the *other* model; loaded first, to body 0. -/
theorem loader_defect_counterexample :
    (∀ i, project i loadAB = project i loadBA) ∧
    (outputsOf 1 (run dstep sLoad loadAB).2).map ROut.idsD = [[0, 0, 1, 2]] ∧
    (outputsOf 1 (run dstep sLoad loadBA).2).map ROut.idsD = [[0, 0, 1, 0]] ∧
    (solo dstep sLoad 1 loadAB).2.2.map ROut.idsD = [[0, 0, 1, 0]] :=
  ⟨load_project, by decide +kernel, by decide +kernel, by decide +kernel⟩

/-- so the conclusions of `outputs_permutation_invariant` and `interleaving_independent` are false
    for `dstep` -/
theorem loader_defect_breaks_property :
    ¬ (∀ (s : Sys RInst NameMap) (sched sched' : List (Nat × ROp)),
        (∀ i, project i sched = project i sched') →
        ∀ i, outputsOf i (run dstep s sched).2 = outputsOf i (run dstep s sched').2) := by
  intro h
  have := congrArg (List.map ROut.idsD) (h sLoad loadAB loadBA load_project 1)
  rw [loader_defect_counterexample.2.1, loader_defect_counterexample.2.2.1] at this
  revert this
  decide

/-- the globals are left changed, too -/
example : (run dstep sLoad loadAB).1.glob ≠ sLoad.glob := by decide +kernel

/-- with the map local to the call (the fixed tree) both orders give `[0, 0, 1, 0]` -/
example : (outputsOf 1 (run rstep sLoadFixed loadAB).2).map ROut.idsD = [[0, 0, 1, 0]] ∧
    (outputsOf 1 (run rstep sLoadFixed loadBA).2).map ROut.idsD = [[0, 0, 1, 0]] :=
  ⟨by decide +kernel, by decide +kernel⟩

end Defect

/-! ## copies of a constraint set

`ConstraintSet::Copy()` is a shallow copy: the copies share their `Constraint` objects through
`shared_ptr`.  In the abstract machine the shared objects are therefore part of the *globals*, the
private part of a set (cache, bound flag, the model it is bound to) is the instance.  As shipped,
`Bind` and the evaluation routines only read what the user stored in the shared objects (body id,
point): the read-only frame condition, hence independence.  A `Bind` that stores something computed
from *its* model in the shared object (a cached, model-dependent contact point) breaks it: two
schedules with the same per-instance calls return different results.  The implementation side of this
is the copy probe of the check (DESIGN §C20). -/

section Copies

/-- what the shared contact-constraint object holds: the point as given by the user, and a slot for
    a bind-time cache -/
structure SharedC where
  point : Int
  cache : Int
  deriving DecidableEq, Repr

/-- the private part of one constraint set: the model it is bound to, summarised by the placement of
    the fixed body that carries the contact point -/
structure SetInst where
  offset : Int
  bound : Bool
  deriving DecidableEq, Repr

inductive COp where
  | bind | eval
  deriving DecidableEq, Repr

/-- as shipped: `Bind` writes the instance only, evaluation resolves the point against the
    instance's own model on every call -/
def cstep : COp → SetInst → SharedC → SetInst × SharedC × Int
  | .bind, x, g => ({ x with bound := true }, g, 0)
  | .eval, x, g => (x, g, g.point + x.offset)

/-- `Bind` caches the resolved point in the shared object, evaluation reads the cache -/
def cstepCached : COp → SetInst → SharedC → SetInst × SharedC × Int
  | .bind, x, g => ({ x with bound := true }, { g with cache := g.point + x.offset }, 0)
  | .eval, x, g => (x, g, g.cache)

theorem cstep_preserved : GlobPreserved cstep := by
  intro op x g; cases op <;> rfl

/-- any number of copies, any interleaving of binds and evaluations: every copy returns what it
    returns alone -/
theorem copies_isolated (s : Sys SetInst SharedC) (sched : List (Nat × COp)) (i : Nat) :
    (run cstep s sched).1.inst i = (solo cstep s i sched).1 ∧
    outputsOf i (run cstep s sched).2 = (solo cstep s i sched).2.2 :=
  interleaving_independent_readonly cstep_preserved s sched i

def sCopies : Sys SetInst SharedC :=
  ⟨fun i => if i = 0 then ⟨0, false⟩ else ⟨5, false⟩, ⟨2, 0⟩⟩

/-- set 0 binds and evaluates; the copy (set 1, bound to a model with the fixed body elsewhere)
    binds before / after the evaluation of set 0 -/
def copyEarly : List (Nat × COp) := [(0, .bind), (1, .bind), (0, .eval)]
def copyLate : List (Nat × COp) := [(0, .bind), (0, .eval), (1, .bind)]

theorem copy_project : ∀ i, project i copyEarly = project i copyLate := by
  intro i
  by_cases h0 : i = 0
  · subst h0; decide
  · by_cases h1 : i = 1
    · subst h1; decide
    · have a : (0 == i) = false := by simp; omega
      have b : (1 == i) = false := by simp; omega
      simp [project, copyEarly, copyLate, List.filter, a, b]

/-- the cached variant is neither read-only nor independent of the shared object ... -/
theorem cstepCached_not_preserved : ¬ GlobPreserved cstepCached := by
  intro h; exact absurd (h .bind ⟨5, false⟩ ⟨2, 0⟩) (by decide)

/-- ... and the property fails for it: same calls per set, different result for set 0 -/
theorem copy_cache_counterexample :
    (∀ i, project i copyEarly = project i copyLate) ∧
    outputsOf 0 (run cstepCached sCopies copyEarly).2 ≠
      outputsOf 0 (run cstepCached sCopies copyLate).2 :=
  ⟨copy_project, by decide⟩

/-- the shipped step function returns `2` for set 0 in both schedules -/
example : outputsOf 0 (run cstep sCopies copyEarly).2 = [0, 2] ∧
    outputsOf 0 (run cstep sCopies copyLate).2 = [0, 2] := ⟨by decide, by decide⟩

end Copies

end Rbdl.C20
