import RbdlProofs.Lemmas.L01
import RbdlProofs.Lemmas.L01Ex
/-
  C01 — the force side of inverse dynamics (`InverseDynamics`, `NonlinearEffects`):

  * `single_body_newton_euler`  the body force `I a + v ×* I v` is Newton's and Euler's equation
  * `rnea_forward_closed`, `rnea_forward_indep`, `rnea_forward_fixed_axis`
                                 what the forward pass leaves in the workspace
  * `rnea_backward_closed`, `rnea_tau_one`, `rnea_tau_three`, `tau_write_local`,
    `tau_written_once`, `rnea_tau0_indep`
                                 subtree sums and the `tau` writes of the backward pass
  * `rnea_dalembert`, `inverse_dynamics_dalembert`, `rnea_dalembert_subtree`, `partial_velocity_eq`
                                 `tau` = Σ_bodies (partial velocity) · (net body force)
  * `nonlinear_effects_eq_rnea0` `NonlinearEffects` = `InverseDynamics` with `q̈ = 0`

  Helper definitions (`idForward`, `FwdClosed`, `ForceClosed`, `rneaFtot`, `owns`, `downTo`, `WSJ`,
  `CustomInj`, …) and lemmas: RbdlProofs/Lemmas/L01.lean; concrete instances: L01Ex.lean.
  Every theorem with hypotheses is followed by an `example` instantiating it over `Rat`.
-/
namespace Rbdl.C01
open Lean.Grind Rbdl Rbdl.Loops Rbdl.L01

section Algebra
variable {α : Type} [CommRing α]

/-- power is invariant under a common change of frame (layer (e) of the C01 proof) -/
theorem power_invariant (X : XT α) (h : X.E.IsRot) (v f : SV α) :
    (X.apply v).dot (X.applyAdjoint f) = v.dot f := by
  obtain ⟨n0,n1,n2,o01,o02,o12,c00,c01,c02,c10,c11,c12,c20,c21,c22⟩ := h.transpose
  simp only [M3.transpose] at *
  simp only [alg]
  grind
example (v f : SV Rat) : (C16.Ex.X.apply v).dot (C16.Ex.X.applyAdjoint f) = v.dot f :=
  power_invariant _ C16.Ex.X_isRot v f

/-- 4. The body force of the recursive Newton–Euler algorithm is Newton's and Euler's equation
    about the body origin: for `I = createFromMassComInertiaC(m, c, Ic)` (`Ic` symmetric), spatial
    velocity `v = (ω, vO)` and spatial acceleration `a = (ω̇, aO)` in body coordinates,
      `I a + v ×* (I v) = ⟨ Ic ω̇ + ω × Ic ω + c × (m a_c),  m a_c ⟩`,
      `a_c = aO + ω̇ × c + ω × (vO + ω × c)`
    (`a_c` = the classical acceleration of the centre of mass in body coordinates, given the
    spatial-acceleration convention `a_lin = Rᵀ p̈ − ω × vO`).  All signs as in the task. -/
theorem single_body_newton_euler (mass : α) (c : V3 α) (Ic : M3 α) (hs : Ic.transpose = Ic)
    (v a : SV α) :
    RBI.ofMassComInertiaC mass c Ic * a + crossf v (RBI.ofMassComInertiaC mass c Ic * v)
      = ⟨Ic * a.w + v.w.cross (Ic * v.w) + c.cross (mass * comAccel c v a),
         mass * comAccel c v a⟩ := by
  simp only [M3.transpose, M3.ext_iff] at hs
  alg_ext
example (mass : Rat) (c : V3 Rat) (v a : SV Rat) :
    RBI.ofMassComInertiaC mass c C16.Ex.Ic * a
        + crossf v (RBI.ofMassComInertiaC mass c C16.Ex.Ic * v)
      = ⟨C16.Ex.Ic * a.w + v.w.cross (C16.Ex.Ic * v.w) + c.cross (mass * comAccel c v a),
         mass * comAccel c v a⟩ :=
  single_body_newton_euler mass c _ C16.Ex.Ic_symm v a

/-- the symmetry of `Ic` cannot be dropped (`createFromMassComInertiaC` reads the lower triangle) -/
example : ∃ (Ic : M3 Rat) (v a : SV Rat),
    RBI.ofMassComInertiaC 1 V3.zero Ic * a + crossf v (RBI.ofMassComInertiaC 1 V3.zero Ic * v)
      ≠ ⟨Ic * a.w + v.w.cross (Ic * v.w) + (V3.zero : V3 Rat).cross ((1 : Rat) * comAccel V3.zero v a),
         (1 : Rat) * comAccel V3.zero v a⟩ :=
  ⟨⟨1, 1, 0, 0, 1, 0, 0, 0, 1⟩, SV.zero, ⟨⟨0, 1, 0⟩, V3.zero⟩, by decide +kernel⟩

end Algebra

section Forward
variable {α : Type} [Field α]

/-- 1. After the forward loop(s) of `inverseDynamics` the workspace `W` handed to the backward pass
    satisfies (`FwdClosed`, `ForceClosed`), for every body `1 ≤ i < nBodies`:
    * row `i` of `X_lambda, v_J, c_J, S, multdof3_S` (and the custom `S`) is what `jcalc` alone
      computes for joint `i` at `(st, qd)` from the entry workspace `w`; `X_lambda[i]` is the value
      `jcalcX` (a function of the model and the state only, for the joint types `jcalc` handles);
    * `v_0 = 0`, `a_0 = −gravity`, and with the **final** values of the parent
        `v_i = X_λ_i.apply v_{λ i} + v_J_i`,  `c_i = c_J_i + v_i ×ₘ v_J_i`,
        `a_i = X_λ_i.apply a_{λ i} + c_i + S_i q̈_i`  (joints of arity `.other`: `a_i` untouched);
    * `f_i = I_i a_i + v_i ×* I_i v_i` (0 for virtual bodies), minus `X_base_i.applyAdjoint (fext i)`
      with `X_base_i = X_λ_i * X_base_{λ i}` when external forces are given. -/
theorem rnea_forward_closed (m : ModelS α) (hc : CustomInj m)
    (htree : ∀ i, 1 ≤ i → i < m.nBodies → m.lam i < i)
    (w : WS α) (st : QS α) (qd qdd tau : VecN α) (fext : Option (Nat → SV α)) :
    inverseDynamics m w st qd qdd tau fext
      = rneaBackward m (idForward m w st qd qdd fext) tau ∧
    FwdClosed m st qd qdd w (idForward m w st qd qdd fext) ∧
    ForceClosed m fext w (idForward m w st qd qdd fext) ∧
    (∀ i, 1 ≤ i → i < m.nBodies →
      (idForward m w st qd qdd fext).X_lambda i = jcalcX m i st (w.X_lambda i)) ∧
    (∀ i, 1 ≤ i → i < m.nBodies → m.arity i = .other →
      (idForward m w st qd qdd fext).a i = w.a i) := by
  obtain ⟨h1, h2, h3⟩ := idForward_closed m hc htree w st qd qdd fext
  refine ⟨inverseDynamics_eq m w st qd qdd tau fext, h1, h2, fun i i1 i2 => ?_, h3⟩
  rw [h1.jX i i1 i2, jcalc_X_lambda, upd_same]

example := rnea_forward_closed Ex.M Ex.M_customInj Ex.M_tree Ex.w1 Ex.st Ex.qd Ex.qdd Ex.qd
  (some Ex.fe)

/-- 1'. (independence of the entry workspace) Two entry workspaces that both hold the
    construction-time entries (`WSJ`) give the same kinematic quantities and forces on all bodies. -/
theorem rnea_forward_indep (m : ModelS α) (hc : CustomInj m)
    (htree : ∀ i, 1 ≤ i → i < m.nBodies → m.lam i < i)
    (w w' : WS α) (hW : WSJ m w) (hW' : WSJ m w') (st : QS α) (qd qdd : VecN α)
    (fext : Option (Nat → SV α)) (hb : fext.isSome → w.X_base 0 = w'.X_base 0) :
    ∀ i, 1 ≤ i → i < m.nBodies →
      (idForward m w st qd qdd fext).X_lambda i = (idForward m w' st qd qdd fext).X_lambda i ∧
      (idForward m w st qd qdd fext).Scols m i = (idForward m w' st qd qdd fext).Scols m i ∧
      (idForward m w st qd qdd fext).f i = (idForward m w' st qd qdd fext).f i ∧
      (idForward m w st qd qdd fext).v i = (idForward m w' st qd qdd fext).v i ∧
      (idForward m w st qd qdd fext).a i = (idForward m w' st qd qdd fext).a i := by
  obtain ⟨h1, h2, _⟩ := idForward_closed m hc htree w st qd qdd fext
  obtain ⟨h1', h2', _⟩ := idForward_closed m hc htree w' st qd qdd fext
  exact fwd_unique m htree (fun i i1 i2 => (hW i i1 i2).1.arity_ne_other) st qd qdd fext w w' _ _
    h1 h1' h2 h2' (JEq_of_WSJ m st qd w w' hW hW') hb

example := rnea_forward_indep Ex.M Ex.M_customInj Ex.M_tree Ex.w0 Ex.w1 Ex.w0_WSJ Ex.w1_WSJ Ex.st
  Ex.qd Ex.qdd (some Ex.fe) (fun _ => rfl)

/-- 1''. For the fixed-axis joints (`RevoluteX/Y/Z`, `Revolute`, `Prismatic`) the forward pass
    leaves `S_i` = the axis, `v_J = S_i q̇_i`, `c_J = 0`, whatever else the entry workspace held. -/
theorem rnea_forward_fixed_axis (m : ModelS α) (hc : CustomInj m)
    (htree : ∀ i, 1 ≤ i → i < m.nBodies → m.lam i < i)
    (w : WS α) (st : QS α) (qd qdd : VecN α) (fext : Option (Nat → SV α))
    (i : Nat) (h1 : 1 ≤ i) (h2 : i < m.nBodies)
    (hjt : (m.joint i).jt = .revoluteX ∨ (m.joint i).jt = .revoluteY ∨ (m.joint i).jt = .revoluteZ ∨
      (m.joint i).jt = .revolute ∨ (m.joint i).jt = .prismatic)
    (hW : WSJat m w i) :
    (idForward m w st qd qdd fext).S i = fixedAxis m i ∧
    (idForward m w st qd qdd fext).v_J i = qd (m.joint i).qIndex * fixedAxis m i ∧
    (idForward m w st qd qdd fext).c_J i = SV.zero := by
  obtain ⟨h, _, _⟩ := idForward_closed m hc htree w st qd qdd fext
  rw [h.jS i h1 h2, h.jvJ i h1 h2, h.jcJ i h1 h2]
  exact jcalc_WSJ_fixed_axis m w i st qd hjt hW

example := rnea_forward_fixed_axis Ex.M Ex.M_customInj Ex.M_tree Ex.w1 Ex.st Ex.qd Ex.qdd none 5
  (by decide) (by rw [Ex.M_n]; decide) (Or.inl Ex.jt5) (Ex.w1_WSJ 5 (by decide) (by rw [Ex.M_n]; decide)).2

end Forward

section Backward
variable {α : Type} [Field α]

/-- 2. The backward pass: with `F_i = W.f i` (the body forces left by the forward pass) and
    `Ftot = rneaFtot m W`,
    * the workspace returned is `W` with `f := Ftot`, and `Ftot_i = F_i + Σ_{c : λ c = i}
      X_λ_cᵀ Ftot_c` (subtree sum; a leaf keeps `F_i`);
    * an entry `x` of `tau` owned by joint `i` (`q_i ≤ x < q_i + #columns of S_i`) ends up as
      `S_i(:, x − q_i) · Ftot_i` (`tau[q_i ..] = S_iᵀ Ftot_i`), provided the coordinate ranges of
      the joints are pairwise disjoint;
    * an entry owned by no joint keeps its incoming value. -/
theorem rnea_backward_closed (m : ModelS α)
    (htree : ∀ i, 1 ≤ i → i < m.nBodies → m.lam i < i) (W : WS α) (tau : VecN α)
    (hdisj : ∀ i j x, 1 ≤ i → i < m.nBodies → 1 ≤ j → j < m.nBodies →
      owns m W i x → owns m W j x → i = j) :
    (rneaBackward m W tau).1 = { W with f := rneaFtot m W } ∧
    (∀ i, 1 ≤ i → i < m.nBodies →
      rneaFtot m W i = W.f i + lsum SV.zero
        (fun c => (W.X_lambda c).applyTranspose (rneaFtot m W c))
        (childrenOf m.lam (m.nBodies - 1) i)) ∧
    (∀ i x, 1 ≤ i → i < m.nBodies → owns m W i x →
      (rneaBackward m W tau).2 x
        = ((W.Scols m i).getD (x - (m.joint i).qIndex) SV.zero).dot (rneaFtot m W i)) ∧
    (∀ x, (∀ i, 1 ≤ i → i < m.nBodies → ¬ owns m W i x) → (rneaBackward m W tau).2 x = tau x) := by
  rw [rneaBackward_eq m W tau htree]
  refine ⟨rfl, fun i h1 _ => rneaFtot_rec m W htree i (by omega), fun i x h1 h2 ho => ?_,
    fun x hno => ?_⟩
  · exact tauLoop_owned m W _ tau hdisj i x h1 h2 ho
  · exact tauLoop_free m W _ tau x hno

/-- 2a. 1-DoF joints: `tau[q_i] = S_i · Ftot_i` -/
theorem rnea_tau_one (m : ModelS α) (htree : ∀ i, 1 ≤ i → i < m.nBodies → m.lam i < i) (W : WS α)
    (tau : VecN α)
    (hdisj : ∀ i j x, 1 ≤ i → i < m.nBodies → 1 ≤ j → j < m.nBodies →
      owns m W i x → owns m W j x → i = j)
    (i : Nat) (h1 : 1 ≤ i) (h2 : i < m.nBodies) (ha : m.arity i = .one) :
    (rneaBackward m W tau).2 (m.joint i).qIndex = (W.S i).dot (rneaFtot m W i) := by
  have hS : W.Scols m i = [W.S i] := by unfold WS.Scols; rw [ha]
  have ho : owns m W i (m.joint i).qIndex := by unfold owns; rw [hS]; simp
  rw [(rnea_backward_closed m htree W tau hdisj).2.2.1 i _ h1 h2 ho, hS]
  simp

/-- 2b. 3-DoF joints: `tau[q_i .. q_i+2] = S_iᵀ Ftot_i` -/
theorem rnea_tau_three (m : ModelS α) (htree : ∀ i, 1 ≤ i → i < m.nBodies → m.lam i < i)
    (W : WS α) (tau : VecN α)
    (hdisj : ∀ i j x, 1 ≤ i → i < m.nBodies → 1 ≤ j → j < m.nBodies →
      owns m W i x → owns m W j x → i = j)
    (i : Nat) (h1 : 1 ≤ i) (h2 : i < m.nBodies) (ha : m.arity i = .three) :
    (⟨(rneaBackward m W tau).2 (m.joint i).qIndex, (rneaBackward m W tau).2 ((m.joint i).qIndex + 1),
      (rneaBackward m W tau).2 ((m.joint i).qIndex + 2)⟩ : V3 α)
      = (W.S3 i).tmulSV (rneaFtot m W i) := by
  have hS : W.Scols m i = [(W.S3 i).c0, (W.S3 i).c1, (W.S3 i).c2] := by
    unfold WS.Scols; rw [ha]; rfl
  have ho : ∀ d, d < 3 → owns m W i ((m.joint i).qIndex + d) := by
    intro d hd; unfold owns; rw [hS]; simp only [List.length_cons, List.length_nil]; omega
  have h := (rnea_backward_closed m htree W tau hdisj).2.2.1 i
  rw [show (m.joint i).qIndex = (m.joint i).qIndex + 0 from rfl,
    h _ h1 h2 (ho 0 (by omega)), h _ h1 h2 (ho 1 (by omega)), h _ h1 h2 (ho 2 (by omega)), hS]
  simp [M63.tmulSV]

/-- 2c. Iteration `i` of the backward loop leaves the `tau` entries of the other joints alone. -/
theorem tau_write_local (m : ModelS α) (W : WS α) (i : Nat) (f : SV α) (tau : VecN α) (x : Nat)
    (h : ¬ owns m W i x) : W.tauWrite m i f tau x = tau x :=
  tauWrite_not_owned W m f i tau x h

/-- 2d. In a well-formed model (C14 invariant `ModelS.WF`: contiguous coordinates) whose joints
    write as many `tau` entries as they have degrees of freedom, the ranges are pairwise disjoint
    and every entry below `dofCount` is owned by exactly one joint, i.e. written exactly once by
    the backward loop (which visits every body once). -/
theorem tau_written_once (m : ModelS α) (hwf : m.WF) (W : WS α)
    (hlen : ∀ i, 1 ≤ i → i < m.nBodies → (W.Scols m i).length = (m.joint i).dof) :
    (∀ i j x, 1 ≤ i → i < m.nBodies → 1 ≤ j → j < m.nBodies →
      owns m W i x → owns m W j x → i = j) ∧
    (∀ x, x < m.dofCount → ∃ i, (1 ≤ i ∧ i < m.nBodies ∧ owns m W i x) ∧
      ∀ j, 1 ≤ j ∧ j < m.nBodies ∧ owns m W j x → j = i) := by
  have hd := owns_disjoint_of_WF m W hwf hlen
  refine ⟨hd, fun x hx => ?_⟩
  obtain ⟨i, h1, h2, ho⟩ := owns_cover_of_WF m W hwf hlen x hx
  exact ⟨i, ⟨h1, h2, ho⟩, fun j hj => hd j i x hj.1 hj.2.1 h1 h2 hj.2.2 ho⟩

/-- 2e. Consequently the output of `inverseDynamics` does not depend on the incoming `tau` on the
    entries `< dofCount` (well-formed model, supported joint arities). -/
theorem rnea_tau0_indep (m : ModelS α) (hwf : m.WF) (hc : CustomInj m)
    (harity : ∀ i, 1 ≤ i → i < m.nBodies → m.arity i ≠ .other)
    (w : WS α) (st : QS α) (qd qdd : VecN α) (fext : Option (Nat → SV α)) (t t' : VecN α)
    (x : Nat) (hx : x < m.dofCount) :
    (inverseDynamics m w st qd qdd t fext).2 x = (inverseDynamics m w st qd qdd t' fext).2 x := by
  obtain ⟨h, _, _⟩ := idForward_closed m hc hwf.lam_lt w st qd qdd fext
  have hlen := scols_length_closed m hwf st qd qdd w _ h harity
  rw [inverseDynamics_eq, inverseDynamics_eq]
  exact rneaBackward_tau_indep m hwf.lam_lt _ t t' (owns_disjoint_of_WF m _ hwf hlen) x
    (owns_cover_of_WF m _ hwf hlen x hx)

end Backward

section BackwardEx
open Rbdl.L01.Ex

example := rnea_backward_closed M M_tree Wex qdd (owns_disjoint_of_WF M Wex M_wf Wex_len)
example := rnea_tau_one M M_tree Wex qdd (owns_disjoint_of_WF M Wex M_wf Wex_len) 3 (by decide)
  (by rw [M_n]; decide) (by decide +kernel)
example := rnea_tau_three M M_tree Wex qdd (owns_disjoint_of_WF M Wex M_wf Wex_len) 2 (by decide)
  (by rw [M_n]; decide) (by decide +kernel)
example (f : SV Rat) (tau : VecN Rat) := tau_write_local M Wex 7 f tau 0
  (fun h => absurd h.1 (by decide +kernel))
example := tau_written_once M M_wf Wex Wex_len
example := rnea_tau0_indep M M_wf M_customInj (fun i h1 h2 => (M_jointOK i h1 h2).arity_ne_other)
  w1 st qd qdd (some fe) qd qdd 13 (by decide +kernel)
/-- the subtree of body 3 consists of 3, 4, 5, 6 (children 4 and 5; 6 hangs on 5) -/
example : childrenOf M.lam (M.nBodies - 1) 3 = [4, 5] ∧ childrenOf M.lam (M.nBodies - 1) 2 = [3, 7]
    := by decide +kernel

end BackwardEx

section DAlembert
variable {α : Type} [Field α]

/-- 3. (d'Alembert's principle in body coordinates) The generalized force written to an entry `x`
    of `tau` owned by joint `i` — i.e. component `j = x − q_i` of `τ_i` — is the sum over **all**
    bodies `k` of
      (partial velocity of body `k` with respect to that joint rate) · (net force `F_k` of body `k`),
    where the partial velocity `downTo … i k (S_i(:,j))` is `ᵏX_i S_i(:,j)`, the column of `S_i`
    carried down the tree by the `X_λ` on the path from `i` to `k` (`downTo_eq_pathX`), and zero
    for the bodies outside the subtree of `i` (`downTo_outside`). -/
theorem rnea_dalembert (m : ModelS α) (htree : ∀ i, 1 ≤ i → i < m.nBodies → m.lam i < i)
    (W : WS α) (tau : VecN α)
    (hdisj : ∀ i j x, 1 ≤ i → i < m.nBodies → 1 ≤ j → j < m.nBodies →
      owns m W i x → owns m W j x → i = j)
    (fuel : Nat) (hf : m.nBodies - 1 ≤ fuel)
    (i x : Nat) (h1 : 1 ≤ i) (h2 : i < m.nBodies) (ho : owns m W i x) :
    (rneaBackward m W tau).2 x =
      lsum 0 (fun k =>
          (downTo W.X_lambda m.lam i fuel k
            ((W.Scols m i).getD (x - (m.joint i).qIndex) SV.zero)).dot (W.f k))
        (List.range' 1 (m.nBodies - 1)) := by
  rw [rneaBackward_eq m W tau htree]
  show tauLoop m W (rneaFtot m W) tau x = _
  rw [tauLoop_owned m W _ tau hdisj i x h1 h2 ho]
  exact dot_rneaFtot m W htree fuel hf i h1 h2 _

/-- 3'. For `inverseDynamics` itself: `F_k = I_k a_k + v_k ×* I_k v_k − X_base_k.applyAdjoint(fext k)`
    with the velocities and accelerations of the forward recursion (`rnea_forward_closed`). -/
theorem inverse_dynamics_dalembert (m : ModelS α) (hwf : m.WF) (hc : CustomInj m)
    (harity : ∀ i, 1 ≤ i → i < m.nBodies → m.arity i ≠ .other)
    (w : WS α) (st : QS α) (qd qdd tau : VecN α) (fext : Option (Nat → SV α))
    (fuel : Nat) (hf : m.nBodies - 1 ≤ fuel)
    (i x : Nat) (h1 : 1 ≤ i) (h2 : i < m.nBodies)
    (ho : owns m (idForward m w st qd qdd fext) i x) :
    (inverseDynamics m w st qd qdd tau fext).2 x =
      lsum 0 (fun k =>
          (downTo (idForward m w st qd qdd fext).X_lambda m.lam i fuel k
            (((idForward m w st qd qdd fext).Scols m i).getD (x - (m.joint i).qIndex) SV.zero)).dot
            (netForce m fext (idForward m w st qd qdd fext) k))
        (List.range' 1 (m.nBodies - 1)) := by
  obtain ⟨h, hfc, _⟩ := idForward_closed m hc hwf.lam_lt w st qd qdd fext
  have hlen := scols_length_closed m hwf st qd qdd w _ h harity
  rw [inverseDynamics_eq, rnea_dalembert m hwf.lam_lt _ tau (owns_disjoint_of_WF m _ hwf hlen) fuel hf
    i x h1 h2 ho]
  refine lsum_congr _ _ _ (fun k hk => ?_)
  rw [List.mem_range'_1] at hk
  rw [hfc.f k hk.1 (by omega)]


/-- 3 (as in the task). With all `X_λ` below body `i` rotations + translations, the entry `x` of
    `tau` owned by joint `i` is the sum **over the subtree of `i`** of
    `(ᵏX_i.apply (S_i(:, x − q_i))) · F_k`, `ᵏX_i` = the product of the `X_λ` along the path from
    `i` to `k`. -/
theorem rnea_dalembert_subtree (m : ModelS α) (htree : ∀ i, 1 ≤ i → i < m.nBodies → m.lam i < i)
    (W : WS α) (tau : VecN α)
    (hdisj : ∀ i j x, 1 ≤ i → i < m.nBodies → 1 ≤ j → j < m.nBodies →
      owns m W i x → owns m W j x → i = j)
    (fuel : Nat) (hf : m.nBodies - 1 ≤ fuel)
    (i x : Nat) (h1 : 1 ≤ i) (h2 : i < m.nBodies) (ho : owns m W i x)
    (hrot : ∀ c, i < c → c < m.nBodies → (W.X_lambda c).E.IsRot) :
    (rneaBackward m W tau).2 x =
      lsum 0 (fun k =>
          ((pathX W.X_lambda m.lam i fuel k).apply
            ((W.Scols m i).getD (x - (m.joint i).qIndex) SV.zero)).dot (W.f k))
        ((List.range' 1 (m.nBodies - 1)).filter (fun k => decide (inSub m.lam i fuel k))) := by
  rw [rnea_dalembert m htree W tau hdisj fuel hf i x h1 h2 ho]
  rw [← lsum_filter L12.ring_addLaws _ (fun k => decide (inSub m.lam i fuel k)) _ (fun c _ hc => ?_)]
  · refine lsum_congr _ _ _ (fun k hk => ?_)
    rw [List.mem_filter, decide_eq_true_eq, List.mem_range'_1] at hk
    rw [downTo_eq_pathX W.X_lambda m.lam i (m.nBodies - 1)
      (fun c c1 c2 => htree c c1 (by omega)) (fun c c1 c2 => hrot c c1 (by omega)) fuel k
      (by omega) hk.2]
  · rw [decide_eq_false_iff_not] at hc
    rw [downTo_outside W.X_lambda m.lam i fuel c hc, sv_zero_dot]

end DAlembert

section DAlembertEx
open Rbdl.L01.Ex

/-- 3''. The partial velocity `downTo` is the path product `ᵏX_i` applied to the joint axis inside
    the subtree of `i` (all `X_λ` strictly below `i` rotations + translations), and zero outside. -/
theorem partial_velocity_eq {α : Type} [Field α] (X : Nat → XT α) (lam : Nat → Nat) (i N : Nat)
    (htree : ∀ c, 1 ≤ c → c ≤ N → lam c < c)
    (hX : ∀ c, i < c → c ≤ N → (X c).E.IsRot) (fuel k : Nat) (hk : k ≤ N) (s : SV α) :
    (inSub lam i fuel k → downTo X lam i fuel k s = (pathX X lam i fuel k).apply s) ∧
    (¬ inSub lam i fuel k → downTo X lam i fuel k s = SV.zero) :=
  ⟨fun h => downTo_eq_pathX X lam i N htree hX fuel k hk h s,
   fun h => downTo_outside X lam i fuel k h s⟩

example (s : SV Rat) := partial_velocity_eq Wex.X_lambda M.lam 3 7
  (fun c h1 h2 => M_tree c h1 (by rw [M_n]; omega))
  (fun c h1 h2 => Wex_rot c h1 (by rw [M_n]; omega)) 7 6 (by decide) s
/-- body 6 is in the subtree of body 3 (6 → 5 → 3), body 7 is not (7 → 2 → 1 → 0) -/
example : inSub M.lam 3 7 6 ∧ ¬ inSub M.lam 3 7 7 := by
  have h6 : M.lam 6 = 5 := by decide +kernel
  have h5 : M.lam 5 = 3 := by decide +kernel
  have h7 : M.lam 7 = 2 := by decide +kernel
  have h2 : M.lam 2 = 1 := by decide +kernel
  have h1 : M.lam 1 = 0 := by decide +kernel
  have h0 : M.lam 0 = 0 := by decide +kernel
  simp [inSub, h6, h5, h7, h2, h1, h0]

example := rnea_dalembert M M_tree Wex qdd (owns_disjoint_of_WF M Wex M_wf Wex_len) 7 (by rw [M_n]; decide)
  7 13 (by decide) (by rw [M_n]; decide) owns_7_13
example := inverse_dynamics_dalembert M M_wf M_customInj
  (fun i h1 h2 => (M_jointOK i h1 h2).arity_ne_other) w1 st qd qdd qdd (some fe) 7
  (by rw [M_n]; decide) 7 13 (by decide) (by rw [M_n]; decide) owns_7_13

/-- entry 6 of `tau` is the coordinate of the revolute joint of body 3, whose subtree is 3, 4, 5, 6 -/
example := rnea_dalembert_subtree M M_tree Wex qdd (owns_disjoint_of_WF M Wex M_wf Wex_len) 7
  (by rw [M_n]; decide) 3 6 (by decide) (by rw [M_n]; decide) owns_3_6
  (fun c h1 h2 => Wex_rot c h1 h2)
example : (List.range' 1 (M.nBodies - 1)).filter (fun k => decide (inSub M.lam 3 7 k)) = [3, 4, 5, 6]
    := by decide +kernel

end DAlembertEx

section NE
variable {α : Type} [Field α] [DecidableEq α]

/-- 5. `NonlinearEffects` computes `InverseDynamics` with `q̈ = 0`: on every entry `k < dofCount`
    of `tau`, for arbitrary unrelated entry workspaces `w`, `w'` that hold the construction-time
    entries (`WSJ`), arbitrary incoming `tau`s, with or without external forces.
    Hypotheses: well-formed model (C14), distinct custom joints use distinct workspace slots,
    `mJointUpdateOrder` (without its leading 0) is a permutation of `1..n-1` (validated at run
    time), and — only when external forces are given — `X_base[0]` is the identity in both
    workspaces (it is set at construction and never written). -/
theorem nonlinear_effects_eq_rnea0 (m : ModelS α) (hwf : m.WF) (hc : CustomInj m)
    (hperm : (m.updateOrder.drop 1).Perm (List.range' 1 (m.nBodies - 1)))
    (w w' : WS α) (hW : WSJ m w) (hW' : WSJ m w') (st : QS α) (qd t0 t0' : VecN α)
    (fext : Option (Nat → SV α))
    (hxb : fext.isSome → w.X_base 0 = XT.id ∧ w'.X_base 0 = XT.id)
    (k : Nat) (hk : k < m.dofCount) :
    (nonlinearEffects m w st qd t0 fext).2 k
      = (inverseDynamics m w' st qd zeroVec t0' fext).2 k :=
  ne_eq_id0 m hwf hc hperm w w' st qd t0 t0' fext (fun i h1 h2 => (hW i h1 h2).1)
    (JEq_of_WSJ m st qd w w' hW hW') hxb k hk

end NE

section Ex5
open Rbdl.L01.Ex

example (k : Nat) (hk : k < M.dofCount) :
    (nonlinearEffects M w0 st qd qdd (some fe)).2 k
      = (inverseDynamics M w1 st qd zeroVec qd (some fe)).2 k :=
  nonlinear_effects_eq_rnea0 M M_wf M_customInj M_perm w0 w1 w0_WSJ w1_WSJ st qd qdd qd (some fe)
    (fun _ => ⟨w0_Xb0, w1_Xb0⟩) k hk

example (k : Nat) (hk : k < M.dofCount) :
    (nonlinearEffects M w1 st qd qdd none).2 k = (inverseDynamics M w0 st qd zeroVec qd none).2 k :=
  nonlinear_effects_eq_rnea0 M M_wf M_customInj M_perm w1 w0 w1_WSJ w0_WSJ st qd qdd qd none
    (fun h => nomatch h) k hk

/-- the hypothesis on `X_base[0]` cannot be dropped: with external forces and a workspace whose
    `X_base[0]` is not the identity the two routines disagree (they treat base-attached bodies
    differently: `X_base[i] = X_lambda[i]` vs `X_lambda[i] * X_base[0]`) -/
example : WSJ M wbad ∧ (nonlinearEffects M w0 st qd qdd (some fe)).2 0
    ≠ (inverseDynamics M wbad st qd zeroVec qd (some fe)).2 0 := ⟨wbad_WSJ, by decide +kernel⟩

end Ex5
end Rbdl.C01
