import RbdlProofs.Lemmas.Rot
/-
  C01 — property theorems (placeholder while the layers are being proved).
-/
namespace Rbdl.C01
open Lean.Grind Rbdl
variable {α : Type} [CommRing α]

/-- power is invariant under a common change of frame (layer (e) of the C01 proof) -/
theorem power_invariant (X : XT α) (h : X.E.IsRot) (v f : SV α) :
    (X.apply v).dot (X.applyAdjoint f) = v.dot f := by
  obtain ⟨n0,n1,n2,o01,o02,o12,c00,c01,c02,c10,c11,c12,c20,c21,c22⟩ := h.transpose
  simp only [M3.transpose] at *
  simp only [alg]
  grind

end Rbdl.C01
