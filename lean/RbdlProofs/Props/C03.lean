import RbdlProofs.Lemmas.L03
import RbdlProofs.Lemmas.L03Rnea
import RbdlProofs.Lemmas.L03Ent
import RbdlProofs.Lemmas.L03Unit
import RbdlProofs.Lemmas.L03Ex
import RbdlProofs.Lemmas.L03LTL
/-
  C03 — the joint-space inertia matrix (`CompositeRigidBodyAlgorithm`, model: `crba`) and the
  decomposition `tau = H q̈ + N` of `InverseDynamics`; the sparse LTL routines.

  (1) `crba_Ic_closed`   composite inertias of the subtrees
  (2) `crba_entries`, `offpath_untouched`, `offpath_zero`   every entry of `H`
  (3) `crba_symmetric`, `crba_symmetric_zero`
  (4) `rnea_affine`, `rnea_homogeneous`, `rnea_affine_same`   `ID` is affine in `q̈`
  (5) `rnea_unit_eq_crba_column`, `rnea_unit_eq_crba_column_of_model`   `ID(e_c) - ID(0)` = column `c`
      `rnea_eq_crba_mul_add`   `ID(q̈) = H q̈ + ID(0)`
  (6) `solveLx_solves`, `solveLTx_solves`, `ltl_factor`, `ltl_solves`, `sparse_chain`, …

  Vocabulary (defined in RbdlProofs/Lemmas/L03*.lean, namespace `Rbdl.L03`):
  `ancK λ k i` = `k`-th ancestor of body `i`; `PathOK λ k i` = `i` and its first `k` ancestors are
  movable bodies (`≠ 0`); `upT λ X k i f` = `X[..]ᵀ ⋯ X[λ i]ᵀ X[i]ᵀ f` (`k` factors);
  `Scol w m i a`, `nS w m i` = column `a` / number of columns of `S_i` in workspace `w`;
  `Disj m w` = the coordinate ranges `[q_i, q_i + nS i)` of different joints are disjoint;
  `OnPath m w i r c` = `(r, c)` lies in a block (joint `i`, ancestor-or-self of `i`) or its transpose;
  `SA w w'` = the workspaces agree on `S`, `S3`, custom `S`, `v_J`, `c_J`, `X_lambda`, `X_base`;
  `unitVec c` = `c`-th unit vector.  `lsum`, `childrenOf`: RbdlProofs/Lemmas/Loops.lean.
  Every theorem with hypotheses is followed by `example`s instantiating them on the branched model
  `L03.Ex.m` over `Rat` (revoluteZ, general revolute, spherical, revoluteX joints).
-/
namespace Rbdl.C03
open Lean.Grind Rbdl Rbdl.Loops Rbdl.L03
variable {α : Type} [Field α]

/-- (1) composite inertias: after `crba`, `Ic[i] = I_i + Σ_{c : λ c = i} X_λ[c]ᵀ Ic[c] X_λ[c]` with the
    final values of the children (all arrays are those of the returned workspace). -/
theorem crba_Ic_closed (m : ModelS α) (w : WS α) (st : QS α) (H0 : MatN α) (update : Bool)
    (htree : ∀ c, 1 ≤ c → c ≤ m.nBodies - 1 → m.lam c < c)
    (i : Nat) (h1 : 1 ≤ i) (h2 : i ≤ m.nBodies - 1) :
    (crba m w st H0 update).1.Ic i
      = m.rbi i + lsum RBI.zero
          (fun c => ((crba m w st H0 update).1.X_lambda c).applyTransposeRBI
            ((crba m w st H0 update).1.Ic c))
          (childrenOf m.lam (m.nBodies - 1) i) := by
  rw [crba_eq, crbaLoop_keep (fun w => w.X_lambda) (fun _ _ => rfl), crbaLoop_Ic]
  rw [bwd_sum m.lam _ L12.rbi_addLaws _ htree _ i (by omega), crbaInit_Ic m w st update i h1 h2]
  rfl

/-- tree order holds on the branched example model (bodies 2 and 4 hang on body 1; body 1 has the
    two children the sum runs over) -/
example : (∀ c, 1 ≤ c → c ≤ Ex.m.nBodies - 1 → Ex.m.lam c < c)
    ∧ childrenOf Ex.m.lam (Ex.m.nBodies - 1) 1 = [2, 4] := ⟨Ex.m_tree, by decide⟩
example := crba_Ic_closed Ex.m Ex.w Ex.st (fun _ _ => 0) true Ex.m_tree 1 (by decide) (by decide)

/-- (2a) entries of the joint-space inertia matrix.  For a body `i`, its `k`-th ancestor
    `j = ancK λ k i` (all bodies on the path movable: `PathOK`), a column `a` of `S_i` and a column
    `b` of `S_j`:
    `H(q_i + a, q_j + b) = H(q_j + b, q_i + a) = (X_λ[..]ᵀ ⋯ X_λ[i]ᵀ (Ic_i S_i,a)) · S_j,b`
    (`upT`: transport along the path `i → j`; `k = 0` gives the diagonal block `S_iᵀ Ic_i S_i`).
    All arrays are those of the returned workspace.  Hypotheses: tree order and pairwise disjoint
    coordinate ranges of the joints (`Disj`). -/
theorem crba_entries (m : ModelS α) (w : WS α) (st : QS α) (H0 : MatN α) (update : Bool)
    (htree : ∀ c, 1 ≤ c → c ≤ m.nBodies - 1 → m.lam c < c)
    (hd : Disj m (crba m w st H0 update).1)
    (i : Nat) (hi1 : 1 ≤ i) (hin : i ≤ m.nBodies - 1) (k a b : Nat) (hp : PathOK m.lam k i)
    (ha : a < nS (crba m w st H0 update).1 m i)
    (hb : b < nS (crba m w st H0 update).1 m (ancK m.lam k i)) :
    (crba m w st H0 update).2 ((m.joint i).qIndex + a) ((m.joint (ancK m.lam k i)).qIndex + b)
      = (upT m.lam (crba m w st H0 update).1.X_lambda k i
          ((crba m w st H0 update).1.Ic i * Scol (crba m w st H0 update).1 m i a)).dot
          (Scol (crba m w st H0 update).1 m (ancK m.lam k i) b) ∧
    (crba m w st H0 update).2 ((m.joint (ancK m.lam k i)).qIndex + b) ((m.joint i).qIndex + a)
      = (upT m.lam (crba m w st H0 update).1.X_lambda k i
          ((crba m w st H0 update).1.Ic i * Scol (crba m w st H0 update).1 m i a)).dot
          (Scol (crba m w st H0 update).1 m (ancK m.lam k i) b) := by
  rw [crba_state] at hd ha hb ⊢
  exact loop_val m (crbaInit m w st update) htree hd _ _ (Nat.le_refl _) (Nat.le_refl _) _ i
    (by omega) hin k a b hp ha hb

/-- the hypotheses on the example: the block of the spherical joint 3 (coordinates 2..4) against its
    grandparent, the revoluteZ joint 1 (coordinate 0) -/
example : (∀ c, 1 ≤ c → c ≤ Ex.m.nBodies - 1 → Ex.m.lam c < c)
    ∧ Disj Ex.m (crba Ex.m Ex.w Ex.st (fun _ _ => 0) true).1
    ∧ PathOK Ex.m.lam 2 3 ∧ ancK Ex.m.lam 2 3 = 1
    ∧ 2 < nS (crba Ex.m Ex.w Ex.st (fun _ _ => 0) true).1 Ex.m 3
    ∧ 0 < nS (crba Ex.m Ex.w Ex.st (fun _ _ => 0) true).1 Ex.m (ancK Ex.m.lam 2 3) :=
  ⟨Ex.m_tree, Ex.m_disj _, Ex.path23, rfl, by decide, by decide⟩
example := crba_entries Ex.m Ex.w Ex.st (fun _ _ => 0) true Ex.m_tree (Ex.m_disj _) 3 (by decide)
  (by decide) 2 2 0 Ex.path23 (by decide) (by decide)

/-- the hypothesis `Disj` cannot be dropped: in a chain of two 1-DoF joints that share coordinate 0
    (tree order and all other hypotheses hold) the diagonal entry written for body 2 is overwritten
    by iteration 1, so the formula of `crba_entries` fails for `i = 2`, `k = 0` -/
example : (∀ c, 1 ≤ c → c ≤ Ex.mBad.nBodies - 1 → Ex.mBad.lam c < c) ∧ PathOK Ex.mBad.lam 0 2
    ∧ 0 < nS (crba Ex.mBad (default : WS Rat) Ex.st (fun _ _ => 0) true).1 Ex.mBad 2
    ∧ (crba Ex.mBad (default : WS Rat) Ex.st (fun _ _ => 0) true).2
        ((Ex.mBad.joint 2).qIndex + 0) ((Ex.mBad.joint (ancK Ex.mBad.lam 0 2)).qIndex + 0)
      ≠ (upT Ex.mBad.lam (crba Ex.mBad (default : WS Rat) Ex.st (fun _ _ => 0) true).1.X_lambda 0 2
          ((crba Ex.mBad (default : WS Rat) Ex.st (fun _ _ => 0) true).1.Ic 2
            * Scol (crba Ex.mBad (default : WS Rat) Ex.st (fun _ _ => 0) true).1 Ex.mBad 2 0)).dot
          (Scol (crba Ex.mBad (default : WS Rat) Ex.st (fun _ _ => 0) true).1 Ex.mBad
            (ancK Ex.mBad.lam 0 2) 0) :=
  ⟨Ex.mBad_tree, Ex.mBad_path, by decide +kernel, by decide +kernel⟩

/-- (2b) entries `(r, c)` outside all blocks `(i, ancestor of i)` and their transposes are left as
    passed in -/
theorem offpath_untouched (m : ModelS α) (w : WS α) (st : QS α) (H0 : MatN α) (update : Bool)
    (r c : Nat)
    (h : ∀ i, 1 ≤ i → i ≤ m.nBodies - 1 → ¬ OnPath m (crba m w st H0 update).1 i r c) :
    (crba m w st H0 update).2 r c = H0 r c := by
  rw [crba_state] at h ⊢
  exact loop_frame m (crbaInit m w st update) _ _ (Nat.le_refl _) _ r c
    (fun i h1 h2 => h i (by omega) h2)

/-- bodies 3 (coordinates 2..4) and 4 (coordinate 5) lie on different branches: entry `(3, 5)` is
    off all paths -/
example : ∀ i, 1 ≤ i → i ≤ Ex.m.nBodies - 1 →
    ¬ OnPath Ex.m (crba Ex.m Ex.w Ex.st (fun _ _ => 0) true).1 i 3 5 := Ex.offpath35 _
example : (crba Ex.m Ex.w Ex.st (fun _ _ => 0) true).2 3 5 = 0 :=
  offpath_untouched Ex.m Ex.w Ex.st _ true 3 5 (Ex.offpath35 _)

/-- (2b) … in particular they stay `0` for a zero-initialised `H` -/
theorem offpath_zero (m : ModelS α) (w : WS α) (st : QS α) (update : Bool) (r c : Nat)
    (h : ∀ i, 1 ≤ i → i ≤ m.nBodies - 1 →
      ¬ OnPath m (crba m w st (fun _ _ => 0) update).1 i r c) :
    (crba m w st (fun _ _ => 0) update).2 r c = 0 :=
  offpath_untouched m w st _ update r c h

/-- (3) `crba` returns a symmetric matrix when the matrix passed in is symmetric (in particular for
    a zero-initialised `H`); no hypothesis on the model or the workspace is needed, and the
    statement holds for all index pairs (so in particular on `[0, dofCount)²`). -/
theorem crba_symmetric (m : ModelS α) (w : WS α) (st : QS α) (H0 : MatN α) (update : Bool)
    (hH0 : ∀ r c, H0 r c = H0 c r) (r c : Nat) :
    (crba m w st H0 update).2 r c = (crba m w st H0 update).2 c r := by
  rw [crba_eq]
  exact forDown_inv (fun s : WS α × MatN α => SymmH s.2) (crbaBody m) _ _
    (fun i s _ _ hs => crbaStepH_symm m _ i s.2 hs) (crbaInit m w st update, H0) hH0 r c

theorem crba_symmetric_zero (m : ModelS α) (w : WS α) (st : QS α) (update : Bool) (r c : Nat) :
    (crba m w st (fun _ _ => 0) update).2 r c = (crba m w st (fun _ _ => 0) update).2 c r :=
  crba_symmetric m w st _ update (fun _ _ => rfl) r c

/-- a symmetric, non-zero in/out matrix -/
example : ∀ r c, (fun r c : Nat => ((r + c : Nat) : Rat)) r c = (fun r c => ((r + c : Nat) : Rat)) c r :=
  fun r c => by show ((r + c : Nat) : Rat) = ((c + r : Nat) : Rat); rw [Nat.add_comm]
example := crba_symmetric Ex.m Ex.w Ex.st (fun r c => ((r + c : Nat) : Rat)) true
  (fun r c => by show ((r + c : Nat) : Rat) = ((c + r : Nat) : Rat); rw [Nat.add_comm])

/-- (4a) inverse dynamics is affine in the acceleration:
    `ID(q̈ + q̈') - ID(q̈') = ID(q̈) - ID(0)` in every component.  The four calls may start from
    different workspaces as long as these agree on the fields that `jcalc` reads (`L03.SA`: the
    motion subspaces `S`, `S3`, custom `S`, `v_J`, `c_J`, `X_lambda`, `X_base`; the velocity /
    acceleration / force arrays may hold anything), e.g. the workspace returned by the previous
    call; the `Tau` in/out arguments must be in the same relation (e.g. all equal). -/
theorem rnea_affine (m : ModelS α) (st : QS α) (qd : VecN α) (fext : Option (Nat → SV α))
    (htree : ∀ i, 1 ≤ i → i ≤ m.nBodies - 1 → m.lam i < i)
    (har : ∀ i, 1 ≤ i → i ≤ m.nBodies - 1 → m.arity i ≠ .other)
    (w1 w2 w3 w4 : WS α) (h2 : SA w1 w2) (h3 : SA w1 w3) (h4 : SA w1 w4)
    (qdd qdd' t1 t2 t3 t4 : VecN α) (ht : ∀ k, t1 k - t2 k = t3 k - t4 k) (k : Nat) :
    (inverseDynamics m w1 st qd (fun j => qdd j + qdd' j) t1 fext).2 k
        - (inverseDynamics m w2 st qd qdd' t2 fext).2 k
      = (inverseDynamics m w3 st qd qdd t3 fext).2 k
        - (inverseDynamics m w4 st qd (fun _ => 0) t4 fext).2 k := by
  have := id_lin4 m st qd fext htree har w1 w2 w3 w4 h2 h3 h4 (s := 1)
    (q1 := fun j => qdd j + qdd' j) (q2 := qdd') (q3 := qdd) (q4 := fun _ => 0)
    (t1 := t1) (t2 := t2) (t3 := t3) (t4 := t4)
    (fun k => by unfold Lin4s; grind) (fun k => by unfold Lin4s; have := ht k; grind) k
  unfold Lin4s at this
  grind

/-- (4b) … and homogeneous: `ID(s q̈) - ID(0) = s (ID(q̈) - ID(0))`. -/
theorem rnea_homogeneous (m : ModelS α) (st : QS α) (qd : VecN α) (fext : Option (Nat → SV α))
    (htree : ∀ i, 1 ≤ i → i ≤ m.nBodies - 1 → m.lam i < i)
    (har : ∀ i, 1 ≤ i → i ≤ m.nBodies - 1 → m.arity i ≠ .other)
    (w1 w2 w3 w4 : WS α) (h2 : SA w1 w2) (h3 : SA w1 w3) (h4 : SA w1 w4)
    (s : α) (qdd t1 t2 t3 t4 : VecN α) (ht : ∀ k, t1 k - t2 k = s * (t3 k - t4 k)) (k : Nat) :
    (inverseDynamics m w1 st qd (fun j => s * qdd j) t1 fext).2 k
        - (inverseDynamics m w2 st qd (fun _ => 0) t2 fext).2 k
      = s * ((inverseDynamics m w3 st qd qdd t3 fext).2 k
        - (inverseDynamics m w4 st qd (fun _ => 0) t4 fext).2 k) :=
  id_lin4 m st qd fext htree har w1 w2 w3 w4 h2 h3 h4 (s := s)
    (q1 := fun j => s * qdd j) (q2 := fun _ => 0) (q3 := qdd) (q4 := fun _ => 0)
    (fun k => by unfold Lin4s; grind) ht k

/-- (4) for one workspace and one `Tau` argument -/
theorem rnea_affine_same (m : ModelS α) (w : WS α) (st : QS α) (qd tau : VecN α)
    (fext : Option (Nat → SV α))
    (htree : ∀ i, 1 ≤ i → i ≤ m.nBodies - 1 → m.lam i < i)
    (har : ∀ i, 1 ≤ i → i ≤ m.nBodies - 1 → m.arity i ≠ .other)
    (qdd qdd' : VecN α) (s : α) (k : Nat) :
    (inverseDynamics m w st qd (fun j => qdd j + qdd' j) tau fext).2 k
        - (inverseDynamics m w st qd qdd' tau fext).2 k
      = (inverseDynamics m w st qd qdd tau fext).2 k
        - (inverseDynamics m w st qd (fun _ => 0) tau fext).2 k ∧
    (inverseDynamics m w st qd (fun j => s * qdd j) tau fext).2 k
        - (inverseDynamics m w st qd (fun _ => 0) tau fext).2 k
      = s * ((inverseDynamics m w st qd qdd tau fext).2 k
        - (inverseDynamics m w st qd (fun _ => 0) tau fext).2 k) :=
  ⟨rnea_affine m st qd fext htree har w w w w (SA.rfl' w) (SA.rfl' w) (SA.rfl' w) qdd qdd'
      tau tau tau tau (fun _ => rfl) k,
   rnea_homogeneous m st qd fext htree har w w w w (SA.rfl' w) (SA.rfl' w) (SA.rfl' w) s qdd
      tau tau tau tau (fun _ => by grind) k⟩

/-- the hypotheses on the example model (joints of arity one and three), with an external force,
    workspaces that differ in the velocity / acceleration / force arrays, one `Tau` argument -/
example : (∀ i, 1 ≤ i → i ≤ Ex.m.nBodies - 1 → Ex.m.lam i < i)
    ∧ (∀ i, 1 ≤ i → i ≤ Ex.m.nBodies - 1 → Ex.m.arity i ≠ .other)
    ∧ SA Ex.w Ex.w' ∧ Ex.w.a 1 ≠ Ex.w'.a 1 :=
  ⟨Ex.m_tree, Ex.m_arity', ⟨rfl, rfl, rfl, rfl, rfl, rfl, rfl⟩, by decide⟩
example := rnea_affine Ex.m Ex.st Ex.qd (some Ex.fe) Ex.m_tree Ex.m_arity' Ex.w Ex.w' Ex.w Ex.w'
  ⟨rfl, rfl, rfl, rfl, rfl, rfl, rfl⟩ (SA.rfl' _) ⟨rfl, rfl, rfl, rfl, rfl, rfl, rfl⟩
  Ex.qdd Ex.qdd' Ex.tau0 Ex.tau0 Ex.tau0 Ex.tau0 (fun _ => rfl)
example := rnea_homogeneous Ex.m Ex.st Ex.qd (some Ex.fe) Ex.m_tree Ex.m_arity' Ex.w Ex.w' Ex.w
  Ex.w' ⟨rfl, rfl, rfl, rfl, rfl, rfl, rfl⟩ (SA.rfl' _) ⟨rfl, rfl, rfl, rfl, rfl, rfl, rfl⟩
  (7/3) Ex.qdd Ex.tau0 Ex.tau0 Ex.tau0 Ex.tau0 (fun _ => by unfold Ex.tau0; grind)

/-- (5) the link between the two algorithms, for arbitrary trees of 1-DoF and 3-DoF joints:
    `ID(e_c) - ID(0)` is column `c` of the matrix `crba` computes (from a zero matrix, without
    kinematics update) on any workspace `wc` that holds the link transforms and motion subspaces
    `inverseDynamics` leaves behind (e.g. the workspace `inverseDynamics` returns; the joint state
    `stc` is not read), for every coordinate `c = q_j + b` of a joint `j` and **every** row `r`.
    Hypotheses: tree order, arities one / three, virtual bodies carry the zero inertia, the link
    transforms left by `inverseDynamics` are rotations + translations, disjoint coordinate ranges. -/
theorem rnea_unit_eq_crba_column (m : ModelS α) (w : WS α) (st : QS α) (qd tau : VecN α)
    (fext : Option (Nat → SV α))
    (htree : ∀ c, 1 ≤ c → c ≤ m.nBodies - 1 → m.lam c < c)
    (har : ∀ c, 1 ≤ c → c ≤ m.nBodies - 1 → m.arity c = .one ∨ m.arity c = .three)
    (hvirt : ∀ i, 1 ≤ i → i ≤ m.nBodies - 1 → (m.body i).isVirtual = true → m.rbi i = RBI.zero)
    (hrot : ∀ i, 1 ≤ i → i ≤ m.nBodies - 1 →
      ((inverseDynamics m w st qd (fun _ => 0) tau fext).1.X_lambda i).E.IsRot)
    (hd : Disj m (inverseDynamics m w st qd (fun _ => 0) tau fext).1)
    (wc : WS α) (stc : QS α)
    (hXc : wc.X_lambda = (inverseDynamics m w st qd (fun _ => 0) tau fext).1.X_lambda)
    (hSc : wc.Scols m = (inverseDynamics m w st qd (fun _ => 0) tau fext).1.Scols m)
    (j : Nat) (hj1 : 1 ≤ j) (hjn : j ≤ m.nBodies - 1) (b : Nat)
    (hb : b < nS (inverseDynamics m w st qd (fun _ => 0) tau fext).1 m j) (r : Nat) :
    (inverseDynamics m w st qd (unitVec ((m.joint j).qIndex + b)) tau fext).2 r
        - (inverseDynamics m w st qd (fun _ => 0) tau fext).2 r
      = (crba m wc stc (fun _ _ => 0) false).2 r ((m.joint j).qIndex + b) :=
  id_unit_col m w st qd tau fext htree har hvirt hrot hd wc stc hXc hSc j hj1 hjn b hb r

/-- (5) with the rotation hypothesis discharged from the model: joint frames are rotations and the
    joint state is consistent (`c² + s² = 1`, unit axes, unit quaternions: `ModelS.jointUnit`) -/
theorem rnea_unit_eq_crba_column_of_model (m : ModelS α) (w : WS α) (st : QS α) (qd tau : VecN α)
    (fext : Option (Nat → SV α))
    (htree : ∀ c, 1 ≤ c → c ≤ m.nBodies - 1 → m.lam c < c)
    (har : ∀ c, 1 ≤ c → c ≤ m.nBodies - 1 → m.arity c = .one ∨ m.arity c = .three)
    (hvirt : ∀ i, 1 ≤ i → i ≤ m.nBodies - 1 → (m.body i).isVirtual = true → m.rbi i = RBI.zero)
    (hjc : ∀ i, 1 ≤ i → i ≤ m.nBodies - 1 → (m.joint i).jt.hasJcalc = true)
    (hfr : ∀ i, 1 ≤ i → i ≤ m.nBodies - 1 → (m.XT_ i).E.IsRot)
    (hu : ∀ i, 1 ≤ i → i ≤ m.nBodies - 1 → m.jointUnit i st)
    (hd : Disj m (inverseDynamics m w st qd (fun _ => 0) tau fext).1)
    (j : Nat) (hj1 : 1 ≤ j) (hjn : j ≤ m.nBodies - 1) (b : Nat)
    (hb : b < nS (inverseDynamics m w st qd (fun _ => 0) tau fext).1 m j) (r : Nat) :
    (inverseDynamics m w st qd (unitVec ((m.joint j).qIndex + b)) tau fext).2 r
        - (inverseDynamics m w st qd (fun _ => 0) tau fext).2 r
      = (crba m (inverseDynamics m w st qd (fun _ => 0) tau fext).1 st (fun _ _ => 0) false).2 r
          ((m.joint j).qIndex + b) :=
  id_unit_col m w st qd tau fext htree har hvirt
    (fun i h1 h2 => by
      rw [id_X_lambda m w st qd _ tau fext i h1 h2]
      exact jcalcX_isRot m i st _ (hjc i h1 h2) (hfr i h1 h2) (hu i h1 h2))
    hd _ st rfl rfl j hj1 hjn b hb r

/-- all hypotheses of (5) on the example model, with joint velocities, gravity and an external
    force; column `3 = q_3 + 1` (second coordinate of the spherical joint) -/
example : (∀ c, 1 ≤ c → c ≤ Ex.m.nBodies - 1 → Ex.m.lam c < c)
    ∧ (∀ c, 1 ≤ c → c ≤ Ex.m.nBodies - 1 → Ex.m.arity c = .one ∨ Ex.m.arity c = .three)
    ∧ (∀ i, 1 ≤ i → i ≤ Ex.m.nBodies - 1 → (Ex.m.body i).isVirtual = true →
        Ex.m.rbi i = RBI.zero)
    ∧ (∀ i, 1 ≤ i → i ≤ Ex.m.nBodies - 1 →
        ((inverseDynamics Ex.m Ex.w Ex.st Ex.qd (fun _ => 0) Ex.tau0 (some Ex.fe)).1.X_lambda
          i).E.IsRot)
    ∧ Disj Ex.m (inverseDynamics Ex.m Ex.w Ex.st Ex.qd (fun _ => 0) Ex.tau0 (some Ex.fe)).1
    ∧ 1 < nS (inverseDynamics Ex.m Ex.w Ex.st Ex.qd (fun _ => 0) Ex.tau0 (some Ex.fe)).1 Ex.m 3 :=
  ⟨Ex.m_tree, Ex.m_arity, Ex.m_virt, Ex.id_rot _ _ _ _ _, Ex.m_disj _, by show 1 < 3; omega⟩
example (r : Nat) :=
  rnea_unit_eq_crba_column Ex.m Ex.w Ex.st Ex.qd Ex.tau0 (some Ex.fe) Ex.m_tree
    Ex.m_arity Ex.m_virt (Ex.id_rot _ _ _ _ _) (Ex.m_disj _) _ Ex.st rfl rfl 3 (by decide)
    (by decide) 1 (by show 1 < 3; omega) r
/-- the common value in row 0 (coupling of the spherical joint with the root joint), evaluated -/
example :
    (crba Ex.m (inverseDynamics Ex.m Ex.w Ex.st Ex.qd (fun _ => 0) Ex.tau0 (some Ex.fe)).1
      Ex.st (fun _ _ => 0) false).2 0 3 = 4333 / 2250 := by decide +kernel

/-- (4)+(5) **`tau = H q̈ + N`**: for an acceleration vector supported on the first `N` coordinates,
    all of which belong to joints, `InverseDynamics(q, q̇, q̈) = H(q) q̈ + InverseDynamics(q, q̇, 0)`
    in every component, `H` the matrix computed by `crba` (`sumTo N f = Σ_{c<N} f c`; take
    `N = dof_count`). -/
theorem rnea_eq_crba_mul_add (m : ModelS α) (w : WS α) (st : QS α) (qd tau : VecN α)
    (fext : Option (Nat → SV α))
    (htree : ∀ c, 1 ≤ c → c ≤ m.nBodies - 1 → m.lam c < c)
    (har : ∀ c, 1 ≤ c → c ≤ m.nBodies - 1 → m.arity c = .one ∨ m.arity c = .three)
    (hvirt : ∀ i, 1 ≤ i → i ≤ m.nBodies - 1 → (m.body i).isVirtual = true → m.rbi i = RBI.zero)
    (hrot : ∀ i, 1 ≤ i → i ≤ m.nBodies - 1 →
      ((inverseDynamics m w st qd (fun _ => 0) tau fext).1.X_lambda i).E.IsRot)
    (hd : Disj m (inverseDynamics m w st qd (fun _ => 0) tau fext).1)
    (N : Nat)
    (hcov : ∀ c, c < N → ∃ j b, 1 ≤ j ∧ j ≤ m.nBodies - 1 ∧
      b < nS (inverseDynamics m w st qd (fun _ => 0) tau fext).1 m j ∧ c = (m.joint j).qIndex + b)
    (x : VecN α) (r : Nat) :
    (inverseDynamics m w st qd (fun k => if k < N then x k else 0) tau fext).2 r
      = sumTo N (fun c =>
          (crba m (inverseDynamics m w st qd (fun _ => 0) tau fext).1 st (fun _ _ => 0) false).2 r c
            * x c)
        + (inverseDynamics m w st qd (fun _ => 0) tau fext).2 r := by
  have har' : ∀ i, 1 ≤ i → i ≤ m.nBodies - 1 → m.arity i ≠ .other := fun i h1 h2 => by
    rcases har i h1 h2 with e | e <;> rw [e] <;> simp
  induction N with
  | zero =>
    have : (fun k => if k < 0 then x k else (0 : α)) = fun _ => 0 := by
      funext k; rw [if_neg (by omega)]
    rw [this, sumTo]; grind
  | succ N ih =>
    obtain ⟨j, b, hj1, hjn, hb, hc⟩ := hcov N (by omega)
    have e : (fun k => if k < N + 1 then x k else (0 : α))
        = fun k => (fun k' => x N * (unitVec N : VecN α) k') k
            + (fun k' => if k' < N then x k' else 0) k := by
      funext k
      show (if k < N + 1 then x k else 0)
        = x N * (if k = N then 1 else 0) + (if k < N then x k else 0)
      by_cases h1 : k < N
      · rw [if_pos (by omega), if_pos h1, if_neg (by omega)]; grind
      · by_cases h2 : k = N
        · subst h2; rw [if_pos (by omega), if_pos rfl, if_neg h1]; grind
        · rw [if_neg (by omega), if_neg h2, if_neg h1]; grind
    have hA := (rnea_affine_same m w st qd tau fext htree har'
      (fun k' => x N * (unitVec N : VecN α) k') (fun k' => if k' < N then x k' else 0) 0 r).1
    have hH := (rnea_affine_same m w st qd tau fext htree har' (unitVec N) (unitVec N) (x N) r).2
    have hU := rnea_unit_eq_crba_column m w st qd tau fext htree har hvirt hrot hd _ st rfl rfl
      j hj1 hjn b hb r
    rw [← hc] at hU
    have hI := ih (fun c hc => hcov c (by omega))
    rw [e, sumTo]
    grind

/-- every coordinate `< 6 = dof_count` of the example model belongs to a joint -/
example : ∀ c, c < 6 → ∃ j b, 1 ≤ j ∧ j ≤ Ex.m.nBodies - 1 ∧
    b < nS (inverseDynamics Ex.m Ex.w Ex.st Ex.qd (fun _ => 0) Ex.tau0 (some Ex.fe)).1 Ex.m j ∧
    c = (Ex.m.joint j).qIndex + b := Ex.m_cov _
example (x : VecN Rat) (r : Nat) :=
  rnea_eq_crba_mul_add Ex.m Ex.w Ex.st Ex.qd Ex.tau0 (some Ex.fe) Ex.m_tree Ex.m_arity Ex.m_virt
    (Ex.id_rot _ _ _ _ _) (Ex.m_disj _) 6 (Ex.m_cov _) x r

/-! # (6) the sparse LTL routines -/
/-
  C03 — the sparse LTL routines (`rbdl_mathutils.cc:262-320`; model: `Rbdl/LTL.lean`):
  `SparseSolveLx` solves `L y = b`, `SparseSolveLTx` solves `Lᵀ y = b`, `SparseFactorizeLTL`
  computes a lower triangular `L` with `Lᵀ L = H`; together they solve `H x = b`.

  Helper lemmas and the concrete data of the examples: `RbdlProofs/Lemmas/L03LTL.lean`
  (namespace `Rbdl.L03.LTL`).  `sumTo n f = Σ_{k<n} f k`.  Every theorem with hypotheses is followed
  by an `example` instantiating it over `Rat`.
-/

section LTL
open Rbdl.LTL Rbdl.L03.LTL


/-! ## 1. `SparseSolveLx` -/

/-- **ltl_solves (Lx)**, as the code computes it: only the lower triangle of `L` is read and
    `Σ_{j ≤ r} L(r,j) y(j) = b(r)`; `L` need not be triangular. -/
theorem solveLx_solves_lower (n : Nat) (L : MatN α) (b : VecN α) (hd : ∀ i, i < n → L i i ≠ 0) :
    ∀ r, r < n → sumTo (r+1) (fun j => L r j * solveLx n L b j) = b r :=
  (solveLx_spec n L b hd).1
example : ∀ r, r < 3 → sumTo (r+1) (fun j => Ex.L r j * solveLx 3 Ex.L Ex.b j) = Ex.b r :=
  solveLx_solves_lower 3 Ex.L Ex.b Ex.L_diag

/-- **ltl_solves (Lx)**: `L y = b` for lower triangular `L` with non-zero diagonal -/
theorem solveLx_solves (n : Nat) (L : MatN α) (b : VecN α) (hd : ∀ i, i < n → L i i ≠ 0)
    (hL : ∀ i j, i < j → j < n → L i j = 0) :
    ∀ r, r < n → sumTo n (fun j => L r j * solveLx n L b j) = b r := by
  intro r hr
  rw [sumTo_lower (r+1) n _ (by omega) (fun k h1 h2 => by rw [hL r k (by omega) h2]; grind)]
  exact solveLx_solves_lower n L b hd r hr
example : ∀ r, r < 3 → sumTo 3 (fun j => Ex.L r j * solveLx 3 Ex.L Ex.b j) = Ex.b r :=
  solveLx_solves 3 Ex.L Ex.b Ex.L_diag Ex.L_lower

/-- the entries beyond the block are not written (no hypothesis needed) -/
theorem solveLx_outside (n : Nat) (L : MatN α) (b : VecN α) :
    ∀ r, n ≤ r → solveLx n L b r = b r :=
  fun r hr => L03.LTL.solveLx_outside n L b r hr

/-! ## 2. `SparseSolveLTx` -/

/-- **ltl_solves (LTx)**: `Lᵀ y = b` for lower triangular `L` with non-zero diagonal -/
theorem solveLTx_solves (n : Nat) (L : MatN α) (b : VecN α) (hd : ∀ i, i < n → L i i ≠ 0)
    (hL : ∀ i j, i < j → j < n → L i j = 0) :
    ∀ c, c < n → sumTo n (fun i => L i c * solveLTx n L b i) = b c :=
  (solveLTx_spec n L b hd hL).1
example : ∀ c, c < 3 → sumTo 3 (fun i => Ex.L i c * solveLTx 3 Ex.L Ex.b i) = Ex.b c :=
  solveLTx_solves 3 Ex.L Ex.b Ex.L_diag Ex.L_lower

theorem solveLTx_outside (n : Nat) (L : MatN α) (b : VecN α) :
    ∀ r, n ≤ r → solveLTx n L b r = b r :=
  fun r hr => L03.LTL.solveLTx_outside n L b r hr

/-! ## 3. `SparseFactorizeLTL` -/

/-- **ltl_factor**: for `H` symmetric on `[0,n)²` and a function `sqrt` that returns an exact
    non-zero root of every pivot the run meets (`ltlPivot sqrt n H m` is the value of `H(m,m)` at
    the moment its root is taken), `L = factorizeLTL sqrt n H` is lower triangular, `Lᵀ L = H` on the
    block, its diagonal consists of the roots of the pivots, and nothing outside the block is
    written. -/
theorem ltl_factor (sqrt : α → α) (n : Nat) (H : MatN α)
    (hsym : ∀ i j, i < n → j < n → H i j = H j i)
    (hsq : ∀ m, m < n →
      sqrt (ltlPivot sqrt n H m) * sqrt (ltlPivot sqrt n H m) = ltlPivot sqrt n H m
      ∧ sqrt (ltlPivot sqrt n H m) ≠ 0) :
    (∀ i j, i < j → j < n → factorizeLTL sqrt n H i j = 0)
    ∧ (∀ i j, i < n → j < n →
        sumTo n (fun k => factorizeLTL sqrt n H k i * factorizeLTL sqrt n H k j) = H i j)
    ∧ (∀ i, i < n → factorizeLTL sqrt n H i i ≠ 0)
    ∧ (∀ i j, n ≤ i ∨ n ≤ j → factorizeLTL sqrt n H i j = H i j) := by
  obtain ⟨hu, hl, ho⟩ := ltlInv_final sqrt n H hsq
  have low : ∀ i j, j ≤ i → i < n →
      sumTo n (fun k => factorizeLTL sqrt n H k i * factorizeLTL sqrt n H k j) = H i j := by
    intro i j h1 h2
    have e := hl i j h1 h2
    simp only [sumFrom_zero, Nat.not_lt_zero, if_false] at e
    rw [e]; grind
  refine ⟨hu, ?_, ?_, ho⟩
  · intro i j hi hj
    by_cases hij : j ≤ i
    · exact low i j hij hi
    · rw [hsym i j hi hj, ← low j i (by omega) hj]
      apply sumTo_congr; intro k _; grind
  · intro i hi
    rw [factorizeLTL_diag sqrt n H i hi]
    exact (hsq i hi).2

/-- the hypotheses of `ltl_factor` on a concrete symmetric positive definite `H` with pivots
    `1, 9, 4` and a look-up "root" `Ex.sqrtQ` that is exact on them -/
example : (∀ i j, i < 3 → j < 3 → Ex.H i j = Ex.H j i)
    ∧ (∀ m, m < 3 →
      Ex.sqrtQ (ltlPivot Ex.sqrtQ 3 Ex.H m) * Ex.sqrtQ (ltlPivot Ex.sqrtQ 3 Ex.H m)
        = ltlPivot Ex.sqrtQ 3 Ex.H m
      ∧ Ex.sqrtQ (ltlPivot Ex.sqrtQ 3 Ex.H m) ≠ 0) := ⟨Ex.H_symm, Ex.H_roots⟩
example : ∀ i j, i < 3 → j < 3 →
    sumTo 3 (fun k => factorizeLTL Ex.sqrtQ 3 Ex.H k i * factorizeLTL Ex.sqrtQ 3 Ex.H k j)
      = Ex.H i j :=
  (ltl_factor Ex.sqrtQ 3 Ex.H Ex.H_symm Ex.H_roots).2.1
/-- the factor of the example is the non-trivial `Ex.L` (entries `2, 1, 3, -1, 2, 1`) -/
example : (∀ i j, i < 4 → j < 4 → factorizeLTL Ex.sqrtQ 3 Ex.H i j = Ex.L i j)
    ∧ Ex.L 1 0 ≠ 0 ∧ Ex.L 2 0 ≠ 0 ∧ Ex.L 2 1 ≠ 0 := ⟨Ex.H_factor, Ex.L_offdiag⟩

/-- `ltl_factor` with the hypothesis on `sqrt` stated through a predicate `P` on the scalars
    (e.g. positivity in an ordered field) that holds for every pivot -/
theorem ltl_factor_of_pred (sqrt : α → α) (P : α → Prop) (n : Nat) (H : MatN α)
    (hsym : ∀ i j, i < n → j < n → H i j = H j i)
    (hs : ∀ x, P x → sqrt x * sqrt x = x ∧ sqrt x ≠ 0)
    (hP : ∀ m, m < n → P (ltlPivot sqrt n H m)) :
    (∀ i j, i < j → j < n → factorizeLTL sqrt n H i j = 0)
    ∧ (∀ i j, i < n → j < n →
        sumTo n (fun k => factorizeLTL sqrt n H k i * factorizeLTL sqrt n H k j) = H i j)
    ∧ (∀ i, i < n → factorizeLTL sqrt n H i i ≠ 0)
    ∧ (∀ i j, n ≤ i ∨ n ≤ j → factorizeLTL sqrt n H i j = H i j) :=
  ltl_factor sqrt n H hsym (fun m hm => hs _ (hP m hm))
example : (∀ x : Rat, (x = 1 ∨ x = 4 ∨ x = 9) → Ex.sqrtQ x * Ex.sqrtQ x = x ∧ Ex.sqrtQ x ≠ 0)
    ∧ (∀ m, m < 3 → (fun x : Rat => x = 1 ∨ x = 4 ∨ x = 9) (ltlPivot Ex.sqrtQ 3 Ex.H m)) := by
  refine ⟨Ex.sqrtQ_exact, ?_⟩
  decide +kernel

/-! ## 4. factorise and solve: `H x = b` -/

/-- **ltl_solves**: with `L = SparseFactorizeLTL(H)`, the calls `SparseSolveLTx (L, x)` and then
    `SparseSolveLx (L, x)` turn `x = b` into the solution of `H x = b` (the way
    `ForwardDynamicsConstraintsRangeSpaceSparse` and `SolveConstrainedSystemRangeSpaceSparse` use
    them). -/
theorem ltl_solves (sqrt : α → α) (n : Nat) (H : MatN α) (b : VecN α)
    (hsym : ∀ i j, i < n → j < n → H i j = H j i)
    (hsq : ∀ m, m < n →
      sqrt (ltlPivot sqrt n H m) * sqrt (ltlPivot sqrt n H m) = ltlPivot sqrt n H m
      ∧ sqrt (ltlPivot sqrt n H m) ≠ 0) :
    ∀ i, i < n →
      sumTo n (fun j => H i j *
        solveLx n (factorizeLTL sqrt n H) (solveLTx n (factorizeLTL sqrt n H) b) j) = b i := by
  obtain ⟨hu, hf, hd, _⟩ := ltl_factor sqrt n H hsym hsq
  intro i hi
  have e : sumTo n (fun j => H i j *
        solveLx n (factorizeLTL sqrt n H) (solveLTx n (factorizeLTL sqrt n H) b) j)
      = sumTo n (fun j =>
          sumTo n (fun k => factorizeLTL sqrt n H k i * factorizeLTL sqrt n H k j) *
          solveLx n (factorizeLTL sqrt n H) (solveLTx n (factorizeLTL sqrt n H) b) j) := by
    apply sumTo_congr; intro j hj; rw [hf i j hi hj]
  rw [e, ltl_mulVec]
  rw [← solveLTx_solves n (factorizeLTL sqrt n H) b hd hu i hi]
  apply sumTo_congr; intro k hk
  rw [solveLx_solves n (factorizeLTL sqrt n H) _ hd hu k hk]
example : ∀ i, i < 3 →
    sumTo 3 (fun j => Ex.H i j *
      solveLx 3 (factorizeLTL Ex.sqrtQ 3 Ex.H) (solveLTx 3 (factorizeLTL Ex.sqrtQ 3 Ex.H) Ex.b) j)
      = Ex.b i :=
  ltl_solves Ex.sqrtQ 3 Ex.H Ex.b Ex.H_symm Ex.H_roots

/-! ## 5. the routines as written in the C++ (walks over `lambda_q`) -/

/-- for the parent array of a well-formed model (`lambda_q[k] = k-1`) the routines with the
    `while (j != 0) { …; j = lambda_q[j]; }` walks are the dense ones above, so theorems 1-4 hold for
    them -/
theorem sparse_chain (lq : Nat → Nat) (sqrt : α → α) (n : Nat) (M : MatN α) (x : VecN α)
    (hlq : ∀ k, 1 ≤ k → k ≤ n → lq k = k - 1) :
    solveLxG lq n M x = solveLx n M x ∧ solveLTxG lq n M x = solveLTx n M x
    ∧ factorizeLTLG lq sqrt n M = factorizeLTL sqrt n M :=
  ⟨solveLxG_chain lq n M x hlq, solveLTxG_chain lq n M x hlq, factorizeLTLG_chain lq sqrt n M hlq⟩
example : ∀ k, 1 ≤ k → k ≤ 3 → Ex.lq k = k - 1 := Ex.lq_chain

end LTL

end Rbdl.C03
