import RbdlProofs.Lemmas.L08FSet
import RbdlProofs.Lemmas.L08FEx
/-
  C08, last clause — "… the per-body constraint wrenches reported afterwards are equal and opposite and map
  back to Gᵀλ" — for the code-shaped `Constr.forces` (`Rbdl/ConstrForces.lean`: the two
  `calcConstraintForces`), `CSet.calcForces` / `CSet.calcImpulses` (`ConstraintSet::calcForces` / `calcImpulses`).

  Objects (`RbdlProofs/Lemmas/L08F*.lean`, namespace `Rbdl.L08F`; `hasRow`, `axisAt`, `dot6`, `frameOf`,
  `run ops`, `NoFixed` from C09):
  * `c.contactForce λ = Σ_k λ_{row+k} n_k`, `c.loopForce A λ = Σ_k λ_{row+k} loopAxis(A, T_k)` — the two
    accumulation loops; `axisK c k = T[k]`;
  * `contactP c m w st update`, `contactE c m w st update` — contact point in base coordinates and
    orientation (base → body) of the contact body as the routine computes them;
  * `dot6 a (fun q => J q col)` — entry `col` of `Jᵀ a` for a 6-row matrix `J`;
  * `toRoot Eb X f` — a wrench reported in the frame `X` of a body with orientation `Eb`, in root coordinates;
  * `about P Q f` — the wrench `f = (n, f)` given at the point `Q`, taken about the point `P`;
  * `sumOver l g = Σ_{c ∈ l} g c`; `groupMap c m w st λ col` — `Σ_bodies (J₆,bodyᵀ wrench)[col]` of one group
    in the root-frame mode (contact: the body; loop: predecessor and successor).

  Findings.
  * both clauses hold for the FORCE part and for the map back to `Gᵀλ`, for every λ and every
    workspace, for contacts (any `update` flag, any body id) and for loops (no update, ids below `fixedDisc`):
    `contact_forces_opposite`, `contact_forces_map`, `loop_forces_opposite`, `loop_forces_map`; summed
    over the groups of a set built by any sequence of additions the result is `Gᵀλ` of
    `CalcConstraintsJacobian` (`set_forces_map`).  `loop_forces_map` is against the code's own row
    formula (`C09.loop_jacobian_row`): it holds in the defect classes D5a/b/c as well, because force and
    row use the same resolved axis `loopAxis(A, T_k)`.
  * "equal and opposite" as WRENCHES (same line of action) is conditional: the two wrenches are reported
    at two different points, and about a common point their sum is the pure moment
      contacts  `(G − P) × (−f)`, `G` = the ground frame origin (= the base origin), `P` the contact point
                (`contact_forces_moment`): zero only if the contact force passes through the base origin
                (`contact_moment_counterexample`; finding D22);
      loops     `(r_B − r_A) × F_v` (`loop_forces_moment`): zero where the frame origins coincide
                (`loop_forces_opposite_coincident`), not for frames separated along a free axis
                (`loop_moment_counterexample`; the wrench-level form of D5b).
  * local mode (`resolveAllInRootFrame = false`): the loop wrenches are expressed in the coordinates of the
    CONSTRAINT frames `X_p`, `X_s` (not of the bodies); rotated back with body orientation and reported
    frame they are the root-mode wrenches (`loop_forces_local_toRoot`, `contact_forces_local_toRoot`).
  * root mode, loops: the reported frame orientations are those of the caller's vector before the call
    (`loop_root_frames_from_caller`: `E.Identity()` in the code is a static call without effect).
  * `calcImpulses` = `calcForces` on the impulse multipliers, negated (`impulses_negated_forces`).
-/
set_option linter.unusedSectionVars false
namespace Rbdl.C08Forces
open Lean.Grind Rbdl Rbdl.L05 Rbdl.L09 Rbdl.L08F

section
variable {α : Type} [Field α] [DecidableEq α]

/-! ### 1. contact groups -/

/-- **contacts: equal and opposite.**  With `f = Σ_k λ_{row+k} n_k`: in the root-frame mode the wrench on
    the body is `(0, f)` reported at the contact point (ids `[0, 0]`), the wrench on the ground is its
    negative; in the local mode the body wrench is `(0, E f)` in body coordinates at the body point, the
    ground wrench `(0, −f)`.  Every `update` flag, every body id (fixed bodies included). -/
theorem contact_forces_opposite (c : Constr α) (hc : c.ctype = .contact) (m : ModelS α) (w : WS α)
    (st : QS α) (lam : VecN α) (update : Bool) (prev : List (XT α)) :
    (c.forces m w st lam true update prev).2
      = [(c.bodyS, ⟨c.XS.E, contactP c m w st update⟩, ⟨V3.zero, c.contactForce lam⟩),
         (c.bodyS, c.XS, -(⟨V3.zero, c.contactForce lam⟩ : SV α))] ∧
    (c.forces m w st lam false update prev).2
      = [(c.bodyP, c.XP, ⟨V3.zero, contactE c m w st update * c.contactForce lam⟩),
         (c.bodyS, c.XS, -(⟨V3.zero, c.contactForce lam⟩ : SV α))] ∧
    (c.contactForce lam).x = sumTo c.T.length (fun k => lam (c.row + k) * (axisAt c (c.row + k)).v.x) ∧
    (c.contactForce lam).y = sumTo c.T.length (fun k => lam (c.row + k) * (axisAt c (c.row + k)).v.y) ∧
    (c.contactForce lam).z = sumTo c.T.length (fun k => lam (c.row + k) * (axisAt c (c.row + k)).v.z) := by
  refine ⟨?_, ?_, ?_, ?_, ?_⟩
  · rw [contact_forces_root c hc, neg_sv_zero_v]
  · rw [contact_forces_local c hc, neg_sv_zero_v]
  · rw [contactForce_x]; simp only [axisK_eq]
  · rw [contactForce_y]; simp only [axisK_eq]
  · rw [contactForce_z]; simp only [axisK_eq]
example := contact_forces_opposite L09.Ex.cC L09.Ex.cC_contact L09.Ex.m L09.Ex.w2 L09.Ex.st
  L08F.Ex.lam true []

/-- the local-mode body wrench, rotated back with the body orientation and the reported frame `(1, point)`,
    is the root-mode wrench `(0, f)` -/
theorem contact_forces_local_toRoot (c : Constr α) (hc : c.ctype = .contact) (hs : Shape c)
    (m : ModelS α) (w : WS α) (st : QS α) (lam : VecN α) (update : Bool)
    (hE : (contactE c m w st update).IsRot) :
    toRoot (contactE c m w st update) c.XP
        ⟨V3.zero, contactE c m w st update * c.contactForce lam⟩
      = ⟨V3.zero, c.contactForce lam⟩ := by
  unfold toRoot
  rw [(hs.contactE hc).1]
  have h1 : ∀ v : V3 α, (M3.one : M3 α) * v = v := by
    intro v; alg_ext
  rw [h1, h1, tmulVec_mulVec _ hE]
  congr 1
  alg_ext
example := contact_forces_local_toRoot L09.Ex.cC L09.Ex.cC_contact L09.Ex.cC_shape L09.Ex.m
  L09.Ex.w2 L09.Ex.st L08F.Ex.lam false L08F.Ex.cC_E_rot

/-- **the exact condition for "equal and opposite" as wrenches**: about the contact point `P` the two
    root-mode wrenches add up to the pure moment `(G − P) × (−f)`, `G` the origin of the reported ground
    frame (`bodyFrames[1].r`, the base origin for `AddContactConstraint`) -/
theorem contact_forces_moment (c : Constr α) (m : ModelS α) (w : WS α) (st : QS α) (lam : VecN α)
    (update : Bool) :
    about (contactP c m w st update) (contactP c m w st update) ⟨V3.zero, c.contactForce lam⟩
      + about (contactP c m w st update) c.XS.r (-(⟨V3.zero, c.contactForce lam⟩ : SV α))
      = ⟨(c.XS.r - contactP c m w st update).cross (-(c.contactForce lam)), V3.zero⟩ := by
  unfold about
  alg_ext
example := contact_forces_moment L09.Ex.cC L09.Ex.m L09.Ex.w2 L09.Ex.st L08F.Ex.lam false

/-- the moment does not vanish in general: the contact group of `L09.Ex` (body 3, point (1,2,3), normals
    z and x, λ = (1, 2)) — finding D22 -/
theorem contact_moment_counterexample :
    (L09.Ex.cC.XS.r - contactP L09.Ex.cC L09.Ex.m L09.Ex.w2 L09.Ex.st false).cross
        (-(L09.Ex.cC.contactForce L08F.Ex.lam)) ≠ V3.zero := by
  decide +kernel

/-- **contacts: map back to `Gᵀλ`.**  Entry `col` of `J₆ᵀ (0, f)` (`J₆` the 6-D point Jacobian of the
    contact body at the contact point, same `update` flag) is `Σ_k λ_{row+k} G[row+k, col]` for the rows the
    constraint writes (`C09.contact_jacobian_row`: `n_kᵀ J_P`); the ground (body 0) contributes nothing -/
theorem contact_forces_map (c : Constr α) (hc : c.ctype = .contact) (m : ModelS α) (w : WS α)
    (st : QS α) (lam : VecN α) (G0 : MatN α) (update : Bool) (col : Nat) (hcol : col < m.qdotSize) :
    dot6 (⟨V3.zero, c.contactForce lam⟩ : SV α)
        (fun q => (calcPointJacobian6D m w st c.bodyP c.XP.r zeroMat update).2 q col)
      = sumTo c.T.length (fun k => lam (c.row + k) * (c.jacobian m w st G0 update).2 (c.row + k) col) ∧
    (∀ a : SV α, dot6 a (fun q => (calcPointJacobian6D m w st 0 c.XS.r zeroMat false).2 q col) = 0) := by
  refine ⟨contact_map c hc m w st lam G0 update col hcol, fun a => ?_⟩
  rw [pointJacobian6D_base]
  simp only [dot6, zeroMat]; grind
example (G0 : MatN Rat) := contact_forces_map L09.Ex.cC L09.Ex.cC_contact L09.Ex.m L09.Ex.w2
  L09.Ex.st L08F.Ex.lam G0 false 2 (by decide +kernel)

/-! ### 2. loop groups (`update_kinematics = false`, ids below `fixedDisc`) -/

/-- **loops: equal and opposite in the root frame.**  With `A`, `B` the world placements of the two
    constraint frames and `F = Σ_k λ_{row+k} loopAxis(A, T_k)`: root-frame mode: `−F` at `A.r` on the
    predecessor, `+F` at `B.r` on the successor (ids `[0, 0]`); local mode: `−A.Eᵀ F`, `B.Eᵀ F` (3-D blocks)
    in the frames `X_p`, `X_s` of the two bodies.  The workspace is not changed. -/
theorem loop_forces_opposite (c : Constr α) (hc : c.ctype = .loop) (m : ModelS α) (w : WS α)
    (st : QS α) (lam : VecN α) (prev : List (XT α)) (hP : ¬ fixedDisc ≤ c.bodyP)
    (hS : ¬ fixedDisc ≤ c.bodyS) :
    c.forces m w st lam true false prev
      = (w, [(0, ⟨(prev.getD 0 XT.id).E, (frameOf w c.bodyP c.XP).r⟩,
                -(c.loopForce (frameOf w c.bodyP c.XP) lam)),
             (0, ⟨(prev.getD 1 XT.id).E, (frameOf w c.bodyS c.XS).r⟩,
                c.loopForce (frameOf w c.bodyP c.XP) lam)]) ∧
    c.forces m w st lam false false prev
      = (w, [(c.bodyP, c.XP,
                ⟨-((frameOf w c.bodyP c.XP).E.tmulVec (c.loopForce (frameOf w c.bodyP c.XP) lam).w),
                 -((frameOf w c.bodyP c.XP).E.tmulVec (c.loopForce (frameOf w c.bodyP c.XP) lam).v)⟩),
             (c.bodyS, c.XS,
                ⟨(frameOf w c.bodyS c.XS).E.tmulVec (c.loopForce (frameOf w c.bodyP c.XP) lam).w,
                 (frameOf w c.bodyS c.XS).E.tmulVec (c.loopForce (frameOf w c.bodyP c.XP) lam).v⟩)]) :=
  ⟨loop_forces_root c hc m w st lam prev hP hS, loop_forces_local c hc m w st lam prev hP hS⟩
example := loop_forces_opposite L09.Ex.cL L09.Ex.cL_loop L09.Ex.m L09.Ex.w2 L09.Ex.st L08F.Ex.lam []
  L09.Ex.cL_P.notFixed L09.Ex.cL_S.notFixed

/-- the local-mode wrenches are the root-mode wrenches in the coordinates of the constraint frames:
    multiplied with the frame placements `A.E = E_pᵀ X_p.E`, `B.E = E_sᵀ X_s.E` they give `−F`, `F` -/
theorem loop_forces_local_toRoot (A B : XT α) (hA : A.E.IsRot) (hB : B.E.IsRot) (F : SV α) :
    (⟨A.E * (-(A.E.tmulVec F.w)), A.E * (-(A.E.tmulVec F.v))⟩ : SV α) = -F ∧
    (⟨B.E * (B.E.tmulVec F.w), B.E * (B.E.tmulVec F.v)⟩ : SV α) = F := by
  refine ⟨?_, ?_⟩
  · have h : ∀ v : V3 α, A.E * (-(A.E.tmulVec v)) = -v := by
      intro v
      have e : A.E * (-(A.E.tmulVec v)) = -(A.E * (A.E.tmulVec v)) := by alg_ext
      rw [e, mulVec_tmulVec A.E hA v]
    rw [h, h]; rfl
  · rw [mulVec_tmulVec B.E hB, mulVec_tmulVec B.E hB]
example := loop_forces_local_toRoot (frameOf L09.Ex.w2 0 L09.Ex.XPb) (frameOf L09.Ex.w2 1 L09.Ex.XSb)
  L08F.Ex.A_rot L08F.Ex.B_rot (L09.Ex.cL.loopForce (frameOf L09.Ex.w2 0 L09.Ex.XPb) L08F.Ex.lam)

/-- **the exact condition for "equal and opposite" as wrenches**: about the predecessor point the two
    root-mode wrenches add up to the pure moment `(r_B − r_A) × F_v` -/
theorem loop_forces_moment (rA rB : V3 α) (F : SV α) :
    about rA rA (-F) + about rA rB F = ⟨(rB - rA).cross F.v, V3.zero⟩ := by
  unfold about
  alg_ext

/-- where the two frame origins coincide (the constraint manifold of the classes without separated
    frames) the reported pair is equal and opposite as wrenches -/
theorem loop_forces_opposite_coincident (rA rB : V3 α) (F : SV α) (h : rA = rB) :
    about rA rA (-F) + about rA rB F = SV.zero := by
  rw [loop_forces_moment, h]
  alg_ext
example := loop_forces_opposite_coincident (frameOf L09.Ex.w2 0 L09.Ex.XPb).r
  (frameOf L09.Ex.w2 0 L09.Ex.XPb).r (L09.Ex.cL.loopForce (frameOf L09.Ex.w2 0 L09.Ex.XPb) L08F.Ex.lam) rfl

/-- separated frame origins: the loop body 2 → body 3 of `L09.Ex` (frames at (1,0,0) of body 2 and (0,1,0)
    of body 3, translation along z locked, λ₄ = 5): the moment does not vanish — wrench-level form of D5b -/
theorem loop_moment_counterexample :
    ((frameOf L09.Ex.w2 L09.Ex.cM.bodyS L09.Ex.cM.XS).r - (frameOf L09.Ex.w2 L09.Ex.cM.bodyP L09.Ex.cM.XP).r).cross
        (L09.Ex.cM.loopForce (frameOf L09.Ex.w2 L09.Ex.cM.bodyP L09.Ex.cM.XP) L08F.Ex.lam).v ≠ V3.zero := by
  decide +kernel

/-- **loops: map back to `Gᵀλ`, against the code's own rows.**  Entry `col` of `J₆,pᵀ(−F) + J₆,sᵀ F` is
    `Σ_k λ_{row+k} G[row+k, col]` for the rows `C09.loop_jacobian_row` describes
    (`loopAxis(A, T_k) · (J₆,s − J₆,p)`).  No hypothesis on the axes or frames: holds in the defect
    classes D5a/b/c too. -/
theorem loop_forces_map (c : Constr α) (hc : c.ctype = .loop) (m : ModelS α) (w : WS α) (st : QS α)
    (lam : VecN α) (G0 : MatN α) (hP : ¬ fixedDisc ≤ c.bodyP) (col : Nat) (hcol : col < m.qdotSize) :
    dot6 (-(c.loopForce (frameOf w c.bodyP c.XP) lam))
        (fun q => (calcPointJacobian6D m w st c.bodyP c.XP.r zeroMat false).2 q col)
      + dot6 (c.loopForce (frameOf w c.bodyP c.XP) lam)
        (fun q => (calcPointJacobian6D m w st c.bodyS c.XS.r zeroMat false).2 q col)
      = sumTo c.T.length (fun k => lam (c.row + k) * (c.jacobian m w st G0 false).2 (c.row + k) col) :=
  loop_map c hc m w st lam G0 hP col hcol
example (G0 : MatN Rat) := loop_forces_map L09.Ex.cL L09.Ex.cL_loop L09.Ex.m L09.Ex.w2 L09.Ex.st
  L08F.Ex.lam G0 L09.Ex.cL_P.notFixed 0 (by decide +kernel)
/-- the D5a class: rotational axis, predecessor frame away from the base origin (`L09.Ex.cA`) -/
example (G0 : MatN Rat) := loop_forces_map L09.Ex.cA (by decide +kernel) L09.Ex.mA L09.Ex.wA L09.Ex.stA
  L08F.Ex.lam G0 (by decide +kernel) 0 (by decide +kernel)
/-- the D5b class (`L09.Ex.cB`) -/
example (G0 : MatN Rat) := loop_forces_map L09.Ex.cB (by decide +kernel) L09.Ex.mB L09.Ex.wB L09.Ex.stB
  L08F.Ex.lam G0 (by decide +kernel) 1 (by decide +kernel)

/-- root-frame mode: the orientations of the two reported frames are those of the caller's vector before
    the call (identity for a fresh vector), whatever the constraint -/
theorem loop_root_frames_from_caller (c : Constr α) (hc : c.ctype = .loop) (m : ModelS α) (w : WS α)
    (st : QS α) (lam : VecN α) (update : Bool) (prev : List (XT α)) :
    ((c.forces m w st lam true update prev).2.map (fun e => e.2.1.E))
      = [(prev.getD 0 XT.id).E, (prev.getD 1 XT.id).E] := by
  unfold Constr.forces
  simp only [hc]
  rfl
example := loop_root_frames_from_caller L09.Ex.cL L09.Ex.cL_loop L09.Ex.m L09.Ex.w2 L09.Ex.st
  L08F.Ex.lam true [L09.Ex.XPb, L09.Ex.XSb]

/-! ### 3. the set -/

/-- `calcImpulses` reports the wrenches of `calcForces` for the impulse multipliers, negated; same
    workspace, ids and frames -/
theorem impulses_negated_forces (C : CSet α) (g : Nat) (m : ModelS α) (w : WS α) (st : QS α)
    (qd imp : VecN α) (resolve update : Bool) (prev : List (XT α)) :
    (C.calcImpulses g m w st qd imp resolve update prev).1
      = (C.calcForces g m w st qd imp resolve update prev).1 ∧
    (C.calcImpulses g m w st qd imp resolve update prev).2
      = (C.calcForces g m w st qd imp resolve update prev).2.map (fun e => (e.1, e.2.1, -e.2.2)) :=
  ⟨rfl, rfl⟩

/-- without update `calcForces` of group `g` is `calcConstraintForces` of the `g`-th constraint -/
theorem calcForces_group (C : CSet α) (g : Nat) (c : Constr α) (hg : C.cs[g]? = some c) (m : ModelS α)
    (w : WS α) (st : QS α) (qd lam : VecN α) (resolve : Bool) (prev : List (XT α)) :
    C.calcForces g m w st qd lam resolve false prev = c.forces m w st lam resolve false prev := by
  unfold CSet.calcForces
  simp only [hg, Bool.false_eq_true, if_false]

/-- **summed over the groups the reported wrenches map back to `Gᵀλ`**: for a set built by any sequence
    of `AddContactConstraint` / `AddLoopConstraint` calls on ids below `fixedDisc`, with `G` the matrix
    `CalcConstraintsJacobian` returns (no update), `Σ_groups Σ_bodies (J₆ᵀ wrench)[col] = Σ_{r < size} λ_r G[r, col]` -/
theorem set_forces_map (ops : List (L09.Op α)) (hn : ∀ c ∈ (run ops).cs, NoFixed c) (m : ModelS α)
    (w : WS α) (st : QS α) (lam : VecN α) (G0 : MatN α) (col : Nat) (hcol : col < m.qdotSize) :
    sumOver (run ops).cs (fun c => groupMap c m w st lam col)
      = sumTo (run ops).size
          (fun r => lam r * (calcConstraintsJacobian m w st (run ops) G0 false).2 r col) := by
  have hI : Inv (run ops) := inv_foldl ops _ inv_empty
  have hC : Contig (run ops) := contig_foldl ops _ inv_empty contig_empty
  obtain ⟨_, j2, _⟩ := C09.constraint_set_rows ops hn m w st (fun _ => 0) G0 (fun _ => 0) (fun _ => 0)
  rw [sumTo_size_groups (run ops) hI hC]
  refine sumOver_congr _ _ _ (fun c hc => ?_)
  have hrows : ∀ k, k < c.T.length →
      lam (c.row + k) * (calcConstraintsJacobian m w st (run ops) G0 false).2 (c.row + k) col
        = lam (c.row + k) * (c.jacobian m w st zeroMat false).2 (c.row + k) col := by
    intro k hk
    rw [j2 c hc (c.row + k) ⟨by omega, by omega⟩ col hcol]
  rw [sumTo_congr _ _ _ hrows]
  unfold groupMap
  cases hct : c.ctype with
  | contact => exact contact_map c hct m w st lam zeroMat false col hcol
  | loop => exact loop_map c hct m w st lam zeroMat (hn c hc).1 col hcol
example (G0 : MatN Rat) := set_forces_map L09.Ex.ops L09.Ex.ops_noFixed L09.Ex.m L09.Ex.w2 L09.Ex.st
  L08F.Ex.lam G0 3 (by decide +kernel)

end
end Rbdl.C08Forces
