import RbdlProofs.Lemmas.L12EnCap
import RbdlProofs.Lemmas.L12EnJet
import RbdlProofs.Props.C02Cap
import RbdlProofs.Props.C03Cap
import RbdlProofs.Props.C12Cap
/-
  C12, energy balance — **"Energy is consistent with dynamics: along the forward-dynamics solution
  d(KE+PE)/dt equals the power of the applied generalized and external forces."**

  Specification side (`Rbdl/Spec/Energy.lean`, on the pose jets of `Rbdl/Spec/Mech.lean`):
  `Spec.kineticEnergyRate`, `Spec.potentialEnergyRate` (the time derivatives of `Spec.kineticEnergy`,
  `Spec.potentialEnergy` along the trajectory with the given velocity and acceleration),
  `Spec.externalPower` (`Σ n_O·ω + f·v_O` over the movable bodies, `v_O` the velocity of the body-fixed point
  at the base origin: the convention of `Spec.newtonEulerTau`).

  (0) `kineticEnergyRate_is_derivative`, `potentialEnergyRate_is_derivative`: the two rates are the
      first-order parts of the energies evaluated over the jet ring (`L12En.kineticEnergyJet`,
      `L12En.potentialEnergyJet`), whose values are the energies — for every specification model;
      `kineticEnergyRate_closed_form`: for rotation jets and symmetric inertias the rate of one body is
      `m ċ·c̈ + ω·(R I Rᵀ ω̇)`.
  (a) `power_identity_spec`: `Σ_j (newtonEulerTau)_j q̇_j = K̇E + ṖE − P_ext` for EVERY specification model,
      state `(q, q̇, q̈)` and external forces with `L12En.EnergyOK` (d'Alembert with the real velocity as
      virtual velocity).  All joint types of the specification incl. spherical joints (the velocity
      coordinates are the body-frame angular velocity, `Q̇ = ½ Q ⊗ ω` is linear in them), fixed bodies,
      massless bodies.  The proof needs `Σ_j q̇_j · (partial velocity j) = velocity`
      (`L12En.specPose_lin`, from the jets and `unitVel`).
      `L12En.EnergyOK M st`: the joints read velocity indices below `M.nv`; the pose jets of the bodies are
      jets of rotations (`Spec.KinOk`); symmetric inertias; bodies attached to the base do not move.  None
      can be dropped (machine-checked counterexample for the symmetry below; the others are evident: a
      non-orthogonal `R` or a moving "base-fixed" body breaks `ω·(İw ω) = 0` resp. the convention of
      `Spec.potentialEnergy`).  `energyOK_fixed` / `energyOK`: they hold for every specification model
      that describes a code-level model (`RefinesF` / `Refines`) at every admissible state.
  (b) `energy_balance…`: for every constructed model, `WSFixed` workspace, admissible state, `τ`, `f_ext`:
      with `q̈ := (forwardDynamics …).2`,  `K̇E + ṖE` at `(q, q̇, q̈)` `= Σ_j τ_j q̇_j + P_ext`
      (hypotheses of `C02Cap`: 1-DoF / 3-DoF joints, invertible pivots).
  (c) `energy_balance_code…`: the same for the jets of the functions `CalcKineticEnergy` /
      `CalcPotentialEnergy` compute (`C03Cap`, `C12Cap`).
  Notions: `Props/C01Cap.lean`, `Props/C02Cap.lean`.
-/
namespace Rbdl.C12Energy
open Lean.Grind Rbdl Rbdl.Spec Rbdl.L01Cap Rbdl.LDynCap Rbdl.L02 Rbdl.L12En
variable {α : Type} [Field α] [DecidableEq α]

/-! ### (0) the rates are the derivatives -/

/-- **`Spec.kineticEnergyRate` is d/dt of `Spec.kineticEnergy`**: value and first-order part of the kinetic
    energy evaluated on the jets of the forward kinematics — every specification model, every state -/
theorem kineticEnergyRate_is_derivative (h2 : (2 : α) ≠ 0) (M : SModel α) (st : State α) :
    (kineticEnergyJet M st).x = kineticEnergy M st ∧
    (kineticEnergyJet M st).d1 = kineticEnergyRate M st :=
  ⟨kineticEnergyJet_x M st, kineticEnergyJet_d1 h2 M st⟩

/-- **`Spec.potentialEnergyRate` is d/dt of `Spec.potentialEnergy`** (`= −g·Σ m c` when the total mass is
    not zero; the specification divides by it) -/
theorem potentialEnergyRate_is_derivative (M : SModel α) (st : State α) (hM : totalMass M ≠ 0) :
    (potentialEnergyJet M st).x = potentialEnergy M st ∧
    (potentialEnergyJet M st).d1 = potentialEnergyRate M st :=
  ⟨potentialEnergyJet_x M st hM, potentialEnergyJet_d1 M st⟩

/-- for the jet of a rotation and a symmetric inertia the contribution of a body to
    `Spec.kineticEnergyRate` is `m ċ·c̈ + ω·(R I Rᵀ ω̇)` -/
theorem kineticEnergyRate_closed_form (h2 : (2 : α) ≠ 0) (nd : SNode α) {k : NodeKin α} (hk : KinOk k)
    (hs : nd.inertia.transpose = nd.inertia) (hb : nd.hasBody = true) :
    keRateTerm (nd, k) = nd.mass * (k.ptd nd.com).dot (k.ptdd nd.com)
      + k.omega.dot ((k.R * nd.inertia * k.R.transpose) * k.omegaDot) :=
  keRateTerm_closed h2 nd hk hs hb

/-! ### (a) the power identity of the specification -/

/-- **power identity**: the generalized forces of the first-principles equations of motion, contracted
    with the generalized velocities, are the rate of the total energy minus the power of the external
    forces — every specification model (all joint types, fixed bodies, massless bodies), every state and
    acceleration, every set of external forces -/
theorem power_identity_spec (h2 : (2 : α) ≠ 0) {M : SModel α} {st : State α} (h : EnergyOK M st)
    (fext : Nat → SV α) :
    sumTo M.nv (fun j => (newtonEulerTau M st fext).getD j 0 * st.qd j)
      = kineticEnergyRate M st + potentialEnergyRate M st - externalPower M st fext :=
  power_identity h2 h fext

/-- the velocities are linear in the generalized velocities: the pose jet of every node has the value part
    of the unit motions and the `q̇`-combination of their first-order parts
    (`Σ_j q̇_j · partial velocity j = velocity`; spherical joints included) -/
theorem velocity_linear {M : SModel α} (hM : IdxOK M) (st : State α) (i : Nat) :
    KinLin M.nv st.qd (specKin M st i) (fun j => specKin M (unitVel st j) i) :=
  specKin_lin hM st i

/-- the hypotheses of the power identity hold for every specification model that describes a code-level
    model (with fixed bodies), at every admissible state, velocity and acceleration (`w`: any workspace
    of the model with the construction-time constants) -/
theorem energyOK_fixed {m : ModelS α} {M : SModel α} {off : Nat → XT α} {nodeOf : Nat → Nat}
    (hm : ModelOK m) (hR : RefinesF m M off nodeOf) (h2 : (2 : α) ≠ 0) (w : WS α) (hw : WSFixed m w)
    (st : QS α) (hst : StateOK m st) (qd qdd : VecN α) : EnergyOK M (stateOf st qd qdd) :=
  energyOK_of_link hm (link_of_refinesF hm hR) (idxOK_of_refinesF hm hR) h2 w hw st hst qd qdd

theorem energyOK {m : ModelS α} {M : SModel α} (hm : ModelOK m) (hR : Refines m M) (hv : VirtZero m)
    (h2 : (2 : α) ≠ 0) (w : WS α) (hw : WSFixed m w) (st : QS α) (hst : StateOK m st)
    (qd qdd : VecN α) : EnergyOK M (stateOf st qd qdd) :=
  energyOK_of_link hm (link_of_refines hm hR hv) (idxOK_of_refines hm hR) h2 w hw st hst qd qdd

/-- the power identity for the specification of a constructed model: any state, velocity, acceleration -/
theorem power_identity_constructedF (ops : List (Op α)) (hg : goodRunF (ModelS.init : ModelS α) ops)
    (h2 : (2 : α) ≠ 0) (w : WS α) (hw : WSFixed ((ModelS.init : ModelS α).run ops) w) (st : QS α)
    (hst : StateOK ((ModelS.init : ModelS α).run ops) st) (qd qdd : VecN α) (fext : Nat → SV α) :
    sumTo (specOf ops).nv
        (fun j => (newtonEulerTau (specOf ops) (stateOf st qd qdd) fext).getD j 0 * qd j)
      = kineticEnergyRate (specOf ops) (stateOf st qd qdd)
        + potentialEnergyRate (specOf ops) (stateOf st qd qdd)
        - externalPower (specOf ops) (stateOf st qd qdd) fext :=
  have h := refinesF_by_construction ops hg
  power_identity h2 (energyOK_fixed h.1 h.2 h2 w hw st hst qd qdd) fext

/-! ### (b) along the forward-dynamics solution -/

/-- **energy balance**: with the accelerations `ForwardDynamics` returns, the rate of the total energy
    of the specification equals the power of the applied generalized forces and of the external forces
    (arbitrary trees with fixed bodies, 1-DoF and 3-DoF joints, every `WSFixed` workspace, any incoming
    content `q0` of the output vector) -/
theorem energy_balance_fixed {m : ModelS α} {M : SModel α} {off : Nat → XT α} {nodeOf : Nat → Nat}
    (hm : ModelOK m) (hR : RefinesF m M off nodeOf) (h2 : (2 : α) ≠ 0) (w : WS α)
    (hw : WSFixed m w) (st : QS α) (hst : StateOK m st) (qd tau q0 : VecN α)
    (fext : Option (Nat → SV α))
    (har : ∀ i, 1 ≤ i → i < m.nBodies → m.arity i = .one ∨ m.arity i = .three)
    (hpiv : ∀ i, 1 ≤ i → i < m.nBodies →
      pivotOk m (forwardDynamics m w st qd tau q0 fext).1 i) :
    kineticEnergyRate M (stateOf st qd (forwardDynamics m w st qd tau q0 fext).2)
        + potentialEnergyRate M (stateOf st qd (forwardDynamics m w st qd tau q0 fext).2)
      = sumTo m.dofCount (fun j => tau j * qd j)
        + externalPower M (stateOf st qd (forwardDynamics m w st qd tau q0 fext).2)
            (fextSpec fext) := by
  have hP := power_identity h2 (energyOK_fixed hm hR h2 w hw st hst qd
    (forwardDynamics m w st qd tau q0 fext).2) (fextSpec fext)
  have hS : sumTo M.nv (fun j => (newtonEulerTau M
        (stateOf st qd (forwardDynamics m w st qd tau q0 fext).2) (fextSpec fext)).getD j 0
          * (stateOf st qd (forwardDynamics m w st qd tau q0 fext).2).qd j)
      = sumTo m.dofCount (fun j => tau j * qd j) := by
    rw [hR.nv]
    exact sumTo_congr' _ _ _ (fun j hj => by
      rw [C02Cap.forwardDynamics_solves_newtonEuler_fixed hm hR h2 w hw st hst qd tau q0 fext har
        hpiv j hj]; rfl)
  rw [hS] at hP
  grind

/-- … without fixed bodies (`Refines`) -/
theorem energy_balance {m : ModelS α} {M : SModel α} (hm : ModelOK m) (hR : Refines m M)
    (hv : VirtZero m) (h2 : (2 : α) ≠ 0) (w : WS α) (hw : WSFixed m w) (st : QS α)
    (hst : StateOK m st) (qd tau q0 : VecN α) (fext : Option (Nat → SV α))
    (har : ∀ i, 1 ≤ i → i < m.nBodies → m.arity i = .one ∨ m.arity i = .three)
    (hpiv : ∀ i, 1 ≤ i → i < m.nBodies →
      pivotOk m (forwardDynamics m w st qd tau q0 fext).1 i) :
    kineticEnergyRate M (stateOf st qd (forwardDynamics m w st qd tau q0 fext).2)
        + potentialEnergyRate M (stateOf st qd (forwardDynamics m w st qd tau q0 fext).2)
      = sumTo m.dofCount (fun j => tau j * qd j)
        + externalPower M (stateOf st qd (forwardDynamics m w st qd tau q0 fext).2)
            (fextSpec fext) := by
  have hP := power_identity h2 (energyOK hm hR hv h2 w hw st hst qd
    (forwardDynamics m w st qd tau q0 fext).2) (fextSpec fext)
  have hS : sumTo M.nv (fun j => (newtonEulerTau M
        (stateOf st qd (forwardDynamics m w st qd tau q0 fext).2) (fextSpec fext)).getD j 0
          * (stateOf st qd (forwardDynamics m w st qd tau q0 fext).2).qd j)
      = sumTo m.dofCount (fun j => tau j * qd j) := by
    rw [hR.nv]
    exact sumTo_congr' _ _ _ (fun j hj => by
      rw [C02Cap.forwardDynamics_solves_newtonEuler hm hR hv h2 w hw st hst qd tau q0 fext har
        hpiv j hj]; rfl)
  rw [hS] at hP
  grind

/-- end to end: construction calls in (fixed bodies, floating bases), energy balance out -/
theorem energy_balance_constructedF (ops : List (Op α))
    (hg : goodRunF (ModelS.init : ModelS α) ops) (h2 : (2 : α) ≠ 0) (w : WS α)
    (hw : WSFixed ((ModelS.init : ModelS α).run ops) w) (st : QS α)
    (hst : StateOK ((ModelS.init : ModelS α).run ops) st) (qd tau q0 : VecN α)
    (fext : Option (Nat → SV α))
    (har : ∀ i, 1 ≤ i → i < ((ModelS.init : ModelS α).run ops).nBodies →
      ((ModelS.init : ModelS α).run ops).arity i = .one ∨
        ((ModelS.init : ModelS α).run ops).arity i = .three)
    (hpiv : ∀ i, 1 ≤ i → i < ((ModelS.init : ModelS α).run ops).nBodies →
      pivotOk ((ModelS.init : ModelS α).run ops)
        (forwardDynamics ((ModelS.init : ModelS α).run ops) w st qd tau q0 fext).1 i) :
    kineticEnergyRate (specOf ops)
          (stateOf st qd (forwardDynamics ((ModelS.init : ModelS α).run ops) w st qd tau q0 fext).2)
        + potentialEnergyRate (specOf ops)
          (stateOf st qd (forwardDynamics ((ModelS.init : ModelS α).run ops) w st qd tau q0 fext).2)
      = sumTo ((ModelS.init : ModelS α).run ops).dofCount (fun j => tau j * qd j)
        + externalPower (specOf ops)
            (stateOf st qd (forwardDynamics ((ModelS.init : ModelS α).run ops) w st qd tau q0 fext).2)
            (fextSpec fext) :=
  have h := refinesF_by_construction ops hg
  energy_balance_fixed h.1 h.2 h2 w hw st hst qd tau q0 fext har hpiv

theorem energy_balance_constructed (ops : List (Op α))
    (hg : goodRun (ModelS.init : ModelS α) ops) (h2 : (2 : α) ≠ 0) (w : WS α)
    (hw : WSFixed ((ModelS.init : ModelS α).run ops) w) (st : QS α)
    (hst : StateOK ((ModelS.init : ModelS α).run ops) st) (qd tau q0 : VecN α)
    (fext : Option (Nat → SV α))
    (har : ∀ i, 1 ≤ i → i < ((ModelS.init : ModelS α).run ops).nBodies →
      ((ModelS.init : ModelS α).run ops).arity i = .one ∨
        ((ModelS.init : ModelS α).run ops).arity i = .three)
    (hpiv : ∀ i, 1 ≤ i → i < ((ModelS.init : ModelS α).run ops).nBodies →
      pivotOk ((ModelS.init : ModelS α).run ops)
        (forwardDynamics ((ModelS.init : ModelS α).run ops) w st qd tau q0 fext).1 i) :
    kineticEnergyRate (specOf ops)
          (stateOf st qd (forwardDynamics ((ModelS.init : ModelS α).run ops) w st qd tau q0 fext).2)
        + potentialEnergyRate (specOf ops)
          (stateOf st qd (forwardDynamics ((ModelS.init : ModelS α).run ops) w st qd tau q0 fext).2)
      = sumTo ((ModelS.init : ModelS α).run ops).dofCount (fun j => tau j * qd j)
        + externalPower (specOf ops)
            (stateOf st qd (forwardDynamics ((ModelS.init : ModelS α).run ops) w st qd tau q0 fext).2)
            (fextSpec fext) :=
  have h := refines_by_construction ops hg
  energy_balance h.1 h.2 (virtZero_by_construction ops hg) h2 w hw st hst qd tau q0 fext har hpiv

/-! ### (c) in terms of `CalcKineticEnergy` / `CalcPotentialEnergy` -/

/-- **the energies the code computes, differentiated along the forward-dynamics solution**: the jets
    `E_K`, `E_P` (value, d/dt) of kinetic and potential energy along the trajectory through
    `(q, q̇, q̈ = ForwardDynamics)` have the values `CalcKineticEnergy`, `CalcPotentialEnergy` return, and
    `d/dt (E_K + E_P) = Σ_j τ_j q̇_j + P_ext` (`totalMass ≠ 0`: `CalcPotentialEnergy` divides by the mass) -/
theorem energy_balance_code_fixed {m : ModelS α} {M : SModel α} {off : Nat → XT α}
    {nodeOf : Nat → Nat} (hm : ModelOK m) (hR : RefinesF m M off nodeOf) (h2 : (2 : α) ≠ 0)
    (w w' w'' : WS α) (hw : WSFixed m w) (hw' : WSFixed m w') (hw'' : WSFixed m w'') (st : QS α)
    (hst : StateOK m st) (qd tau q0 : VecN α) (fext : Option (Nat → SV α))
    (har : ∀ i, 1 ≤ i → i < m.nBodies → m.arity i = .one ∨ m.arity i = .three)
    (hpiv : ∀ i, 1 ≤ i → i < m.nBodies →
      pivotOk m (forwardDynamics m w st qd tau q0 fext).1 i) (hM : totalMass M ≠ 0) :
    (kineticEnergyJet M (stateOf st qd (forwardDynamics m w st qd tau q0 fext).2)).x
      = (calcKineticEnergy m w' st qd true).2 ∧
    (potentialEnergyJet M (stateOf st qd (forwardDynamics m w st qd tau q0 fext).2)).x
      = (calcPotentialEnergy m w'' st true).2 ∧
    (kineticEnergyJet M (stateOf st qd (forwardDynamics m w st qd tau q0 fext).2)
        + potentialEnergyJet M (stateOf st qd (forwardDynamics m w st qd tau q0 fext).2)).d1
      = sumTo m.dofCount (fun j => tau j * qd j)
        + externalPower M (stateOf st qd (forwardDynamics m w st qd tau q0 fext).2)
            (fextSpec fext) := by
  refine ⟨?_, ?_, ?_⟩
  · rw [kineticEnergyJet_x, C03Cap.calcKineticEnergy_eq_spec_fixed hm hR h2 w' hw' st hst qd]
  · rw [potentialEnergyJet_x _ _ hM, C12Cap.calcPotentialEnergy_eq_spec_fixed hm hR h2 w'' hw'' st hst qd]
  · show (kineticEnergyJet M _).d1 + (potentialEnergyJet M _).d1 = _
    rw [kineticEnergyJet_d1 h2, potentialEnergyJet_d1]
    exact energy_balance_fixed hm hR h2 w hw st hst qd tau q0 fext har hpiv

/-- end to end -/
theorem energy_balance_code_constructedF (ops : List (Op α))
    (hg : goodRunF (ModelS.init : ModelS α) ops) (h2 : (2 : α) ≠ 0) (w w' w'' : WS α)
    (hw : WSFixed ((ModelS.init : ModelS α).run ops) w)
    (hw' : WSFixed ((ModelS.init : ModelS α).run ops) w')
    (hw'' : WSFixed ((ModelS.init : ModelS α).run ops) w'') (st : QS α)
    (hst : StateOK ((ModelS.init : ModelS α).run ops) st) (qd tau q0 : VecN α)
    (fext : Option (Nat → SV α))
    (har : ∀ i, 1 ≤ i → i < ((ModelS.init : ModelS α).run ops).nBodies →
      ((ModelS.init : ModelS α).run ops).arity i = .one ∨
        ((ModelS.init : ModelS α).run ops).arity i = .three)
    (hpiv : ∀ i, 1 ≤ i → i < ((ModelS.init : ModelS α).run ops).nBodies →
      pivotOk ((ModelS.init : ModelS α).run ops)
        (forwardDynamics ((ModelS.init : ModelS α).run ops) w st qd tau q0 fext).1 i)
    (hM : totalMass (specOf ops) ≠ 0) :
    (kineticEnergyJet (specOf ops)
        (stateOf st qd (forwardDynamics ((ModelS.init : ModelS α).run ops) w st qd tau q0 fext).2)).x
      = (calcKineticEnergy ((ModelS.init : ModelS α).run ops) w' st qd true).2 ∧
    (potentialEnergyJet (specOf ops)
        (stateOf st qd (forwardDynamics ((ModelS.init : ModelS α).run ops) w st qd tau q0 fext).2)).x
      = (calcPotentialEnergy ((ModelS.init : ModelS α).run ops) w'' st true).2 ∧
    (kineticEnergyJet (specOf ops)
          (stateOf st qd (forwardDynamics ((ModelS.init : ModelS α).run ops) w st qd tau q0 fext).2)
        + potentialEnergyJet (specOf ops)
          (stateOf st qd (forwardDynamics ((ModelS.init : ModelS α).run ops) w st qd tau q0 fext).2)).d1
      = sumTo ((ModelS.init : ModelS α).run ops).dofCount (fun j => tau j * qd j)
        + externalPower (specOf ops)
            (stateOf st qd (forwardDynamics ((ModelS.init : ModelS α).run ops) w st qd tau q0 fext).2)
            (fextSpec fext) :=
  have h := refinesF_by_construction ops hg
  energy_balance_code_fixed h.1 h.2 h2 w w' w'' hw hw' hw'' st hst qd tau q0 fext har hpiv hM

/-! ### non-vacuity and numerical sanity checks -/

/-- the hypotheses on `L01Cap.ExF` (floating base, revolute, Euler and custom joints, three fixed bodies —
    one of them on the base —, 12 DoF, 9 nodes), on `L01Cap.Ex` (branched tree with a spherical joint) and
    on `LDynCap.ExG` (the example of `C02Cap` with invertible pivots); poisoned workspaces, external forces -/
example := kineticEnergyRate_is_derivative Ex.two_ne ExF.M (stateOf ExF.st Ex.qd Ex.qdd)
example := potentialEnergyRate_is_derivative ExF.M (stateOf ExF.st Ex.qd Ex.qdd) (by decide +kernel)
example : EnergyOK ExF.M (stateOf ExF.st Ex.qd Ex.qdd) :=
  energyOK_fixed ExF.m_ok ExF.m_refines Ex.two_ne ExF.w1 ExF.w1_fixed ExF.st ExF.st_ok Ex.qd Ex.qdd
example : EnergyOK Ex.M (stateOf Ex.st Ex.qd Ex.qdd) :=
  energyOK Ex.m_ok Ex.m_refines (virtZero_by_construction Ex.ops Ex.ops_good) Ex.two_ne Ex.w1
    Ex.w1_fixed Ex.st Ex.st_ok Ex.qd Ex.qdd
example := power_identity_spec Ex.two_ne
  (energyOK_fixed ExF.m_ok ExF.m_refines Ex.two_ne ExF.w1 ExF.w1_fixed ExF.st ExF.st_ok Ex.qd Ex.qdd)
  (fextSpec (some Ex.fe))
example := velocity_linear (idxOK_of_refinesF ExF.m_ok ExF.m_refines) (stateOf ExF.st Ex.qd Ex.qdd) 7
example := power_identity_constructedF ExF.ops ExF.ops_good Ex.two_ne ExF.w1 ExF.w1_fixed ExF.st
  ExF.st_ok Ex.qd Ex.qdd Ex.fe
example := energy_balance_fixed ExG.m_ok ExG.m_refines Ex.two_ne ExG.w1 ExG.w1_fixed ExG.st ExG.st_ok
  Ex.qd exTau Ex.qdd (some Ex.fe) ExG.m_ar ExG.m_piv
example := energy_balance Ex.m_ok Ex.m_refines (virtZero_by_construction Ex.ops Ex.ops_good)
  Ex.two_ne Ex.w1 Ex.w1_fixed Ex.st Ex.st_ok Ex.qd exTau Ex.qdd (some Ex.fe) ex_ar ex_piv
example := energy_balance_constructedF ExG.ops ExG.ops_good Ex.two_ne ExG.w1 ExG.w1_fixed ExG.st
  ExG.st_ok Ex.qd exTau Ex.qdd (some Ex.fe) ExG.m_ar ExG.m_piv
example := energy_balance_constructed Ex.ops Ex.ops_good Ex.two_ne Ex.w1 Ex.w1_fixed Ex.st Ex.st_ok
  Ex.qd exTau Ex.qdd (some Ex.fe) ex_ar ex_piv
example := energy_balance_code_fixed ExG.m_ok ExG.m_refines Ex.two_ne ExG.w1 ExG.w0 ExG.w1
  ExG.w1_fixed ExG.w0_fixed ExG.w1_fixed ExG.st ExG.st_ok Ex.qd exTau Ex.qdd (some Ex.fe) ExG.m_ar
  ExG.m_piv (by decide +kernel)
example := energy_balance_code_constructedF ExG.ops ExG.ops_good Ex.two_ne ExG.w1 ExG.w0 ExG.w1
  ExG.w1_fixed ExG.w0_fixed ExG.w1_fixed ExG.st ExG.st_ok Ex.qd exTau Ex.qdd (some Ex.fe) ExG.m_ar
  ExG.m_piv (by decide +kernel)

/-- numerical sanity checks (kernel evaluation over `Rat`, both sides computed independently).
    The power identity on the revolute – prismatic – Euler-ZYX chain `Ex.mB` (5 DoF) and on `ExF`
    (12 DoF, fixed bodies, a plate fixed to the base that does not count), arbitrary accelerations,
    external forces on every body -/
example : sumTo 5 (fun j => (newtonEulerTau (specOf Ex.opsB) (stateOf Ex.st Ex.qd Ex.qdd)
        (fextSpec (some Ex.fe))).getD j 0 * Ex.qd j)
    = kineticEnergyRate (specOf Ex.opsB) (stateOf Ex.st Ex.qd Ex.qdd)
      + potentialEnergyRate (specOf Ex.opsB) (stateOf Ex.st Ex.qd Ex.qdd)
      - externalPower (specOf Ex.opsB) (stateOf Ex.st Ex.qd Ex.qdd) (fextSpec (some Ex.fe)) := by
  decide +kernel
example : sumTo 12 (fun j => (newtonEulerTau ExF.M (stateOf ExF.st Ex.qd Ex.qdd)
        (fextSpec (some Ex.fe))).getD j 0 * Ex.qd j)
    = kineticEnergyRate ExF.M (stateOf ExF.st Ex.qd Ex.qdd)
      + potentialEnergyRate ExF.M (stateOf ExF.st Ex.qd Ex.qdd)
      - externalPower ExF.M (stateOf ExF.st Ex.qd Ex.qdd) (fextSpec (some Ex.fe)) := by
  decide +kernel
/-- the energy balance along the solution of `forwardDynamics` on `ExG` (floating base, three fixed bodies,
    a joint attached to a fixed body, 10 DoF), poisoned workspace, external forces -/
example : kineticEnergyRate ExG.M (stateOf ExG.st Ex.qd
        (forwardDynamics ExG.m ExG.w1 ExG.st Ex.qd exTau Ex.qdd (some Ex.fe)).2)
      + potentialEnergyRate ExG.M (stateOf ExG.st Ex.qd
        (forwardDynamics ExG.m ExG.w1 ExG.st Ex.qd exTau Ex.qdd (some Ex.fe)).2)
    = sumTo 10 (fun j => exTau j * Ex.qd j)
      + externalPower ExG.M (stateOf ExG.st Ex.qd
          (forwardDynamics ExG.m ExG.w1 ExG.st Ex.qd exTau Ex.qdd (some Ex.fe)).2)
          (fextSpec (some Ex.fe)) := by decide +kernel
/-- the quantities are not trivial numbers: rate of the energy and power of the external forces on `ExF` -/
example : kineticEnergyRate ExF.M (stateOf ExF.st Ex.qd Ex.qdd) ≠ 0 ∧
    potentialEnergyRate ExF.M (stateOf ExF.st Ex.qd Ex.qdd) ≠ 0 ∧
    externalPower ExF.M (stateOf ExF.st Ex.qd Ex.qdd) (fextSpec (some Ex.fe)) ≠ 0 :=
  ⟨by decide +kernel, by decide +kernel, by decide +kernel⟩
/-- the rate of the kinetic energy is the first-order part of the energy jet (here: evaluated) -/
example : (kineticEnergyJet ExF.M (stateOf ExF.st Ex.qd Ex.qdd)).d1
    = kineticEnergyRate ExF.M (stateOf ExF.st Ex.qd Ex.qdd) := by decide +kernel

/-- the symmetry of the inertia matrices (`EnergyOK.symm`) cannot be dropped: for the one-body model
    `Ex.opsN` (Euler-ZYX joint, inertia matrix with `I₀₁ = 1 ≠ 0 = I₁₀`; valid, successful construction call;
    admissible state) the two sides of the power identity differ -/
example : Op.valid (ModelS.init : ModelS Rat) (.addBody 0 C16.Ex.X Ex.jZYX Ex.bN "") ∧
    GoodJoint Ex.jZYX ∧ Ex.bN.isVirtual = false ∧
    sumTo 3 (fun j => (newtonEulerTau (specOf Ex.opsN) (stateOf Ex.st Ex.qd Ex.qdd)
        (fextSpec none)).getD j 0 * Ex.qd j)
      ≠ kineticEnergyRate (specOf Ex.opsN) (stateOf Ex.st Ex.qd Ex.qdd)
        + potentialEnergyRate (specOf Ex.opsN) (stateOf Ex.st Ex.qd Ex.qdd)
        - externalPower (specOf Ex.opsN) (stateOf Ex.st Ex.qd Ex.qdd) (fextSpec none) :=
  ⟨by decide +kernel, Ex.good_jZYX, rfl, by decide +kernel⟩

end Rbdl.C12Energy
