import RbdlProofs.Lemmas.L13CSEx
/-
  C13 for the constraint-set routines of `Rbdl/Constr.lean`:
  `calcConstraintsJacobian`, `calcConstraintsPositionError`, `calcConstraintsVelocityError`,
  `calcConstrainedSystemVariables` and the per-constraint `Constr.jacobian / positionError /
  velocityError / gamma` — results do not depend on the workspace.

  Notions (RbdlProofs/Lemmas/L13CS*.lean; `WSFixed`, `TreeOrder`, `AllJointOK`, `IdOK` are those of C13):
  * `L13CS.IdsOK m C` — **the ids covered**: for every constraint of the set, `bodyP` (contacts and
    loops) and `bodyS` (loops) satisfy `L13.IdOK m id`, i.e. `m.refBody id < m.nBodies` and
    `m.nBodies ≤ fixedDisc`: the base `0`, the movable bodies `1 … nBodies-1`, and every fixed-body id
    `≥ fixedDisc` whose movable parent is a body of the model.  Loops between fixed bodies are covered
    as well.  `idsOK_run`: every set built from the empty set by `addContact` / `addLoop` calls with
    such ids (`L13CS.OpOK`) satisfies it, whatever the grouping did.
  * `L13CS.Dk m` — the position-level workspace entries: `X_base[0..]`, `X_lambda[1..]` and the motion
    subspaces of the movable bodies.

  Findings.
  * 1 (preservation) needs no hypothesis.
  * 2: all results are equal as whole functions given the same in/out arguments (and, below the set's
    size and `qdotSize`, for different caller matrices as well — 4).  `WSFixed`, `TreeOrder`,
    `AllJointOK`, `IdsOK` cannot be dropped (counterexamples).  For
    `calcConstrainedSystemVariables` with `update = true` **no** hypothesis on `mJointUpdateOrder`
    is needed (unlike `NonlinearEffects` on its own): the position update has already run `jcalc`
    for every body.
  * 3: `calcConstrainedSystemVariables` with the flag set *is* `UpdateKinematicsCustom(Q)` followed by
    the call with the flag cleared (by unfolding, no hypothesis).  The other three routines with the
    flag set update again inside every per-constraint call.  For all three pairs (Jacobian and position
    error after `UpdateKinematicsCustom(Q)`, velocity error after `UpdateKinematicsCustom(Q, QDot)`)
    **tree order is the only hypothesis** — nothing on the workspace, the joints or the ids — and it
    cannot be dropped (counterexample); the update has to be for the same state (counterexample).
    Reasons (L13CSTree, L13CSVel): in tree order a second position update leaves `X_base`, `X_lambda`,
    `S`, `multdof3_S` and the custom `S` arrays as they are (`updQ_fix`); `jcalc` after `jcalc` acts
    as the later one (`phi_absorb`), so a repeated `UpdateKinematicsCustom(Q, QDot)` leaves `X_base`
    and `v` as they are (`U_P`, `U_U`).  The per-constraint pairs: Jacobian and position error under
    tree order, velocity error without hypothesis.
    The general forms (`flag_cleared_*_general`, under the side conditions of 2) take any workspace
    that agrees on `Dk m` (`Dkv m` for the velocity error) with the update of a reachable workspace —
    e.g. after further routines called with the flag cleared (`cleared_calls_keep_agreement`), or after
    `UpdateKinematicsCustom(Q, QDot)` (`ukcqv_fields`: it leaves the same position-level entries, no
    hypothesis) — against any reachable workspace on the flag-set side; there
    `calcConstrainedSystemVariables` needs the bodies to be listed in `mJointUpdateOrder`
    (counterexample).
  * 4: the request "writes only the entries of the columns on the paths of the constrained bodies;
    entries elsewhere keep the caller's values" is **false** for this routine (counterexample): each
    per-constraint Jacobian is computed in a zeroed local matrix and copied into *all* columns
    `< qdotSize` of the rows of the constraint.  True statements: rows of no constraint and columns
    `≥ qdotSize` keep the caller's values; the rows of the constraints do not depend on the caller's
    matrix at all (no zero-initialisation precondition); their off-path columns receive `0`.
-/
namespace Rbdl.C13CS
open Lean.Grind Rbdl Rbdl.L13 Rbdl.L13CS Rbdl.L09 Rbdl.L05
set_option linter.unusedSectionVars false

variable {α : Type} [Field α] [DecidableEq α]

/-! ## 0. the ids covered -/

/-- every set built by `addContact` / `addLoop` calls whose ids resolve is covered -/
theorem idsOK_run (m : ModelS α) (ops : List (L09.Op α)) (hops : ∀ op ∈ ops, OpOK m op) :
    IdsOK m (run ops) := L13CS.idsOK_run ops hops
example : IdsOK CEx.m (run CEx.ops) := idsOK_run CEx.m CEx.ops CEx.ops_ok.1

/-! ## 1. every routine keeps the invariant (no hypothesis) -/
section preserved
variable (m : ModelS α) (w : WS α) (h : WSFixed m w)
include h

theorem wsfixed_preserved_jacobian (c : Constr α) (st : QS α) (G : MatN α) (update : Bool) :
    WSFixed m (c.jacobian m w st G update).1 := wsfixed_jacobian c m w st G update h
theorem wsfixed_preserved_positionError (c : Constr α) (st : QS α) (err : VecN α) (update : Bool) :
    WSFixed m (c.positionError m w st err update).1 := wsfixed_positionError c m w st err update h
theorem wsfixed_preserved_velocityError (c : Constr α) (st : QS α) (qd : VecN α) (G : MatN α)
    (errd : VecN α) (update : Bool) : WSFixed m (c.velocityError m w st qd G errd update).1 :=
  wsfixed_velocityError c m w st qd G errd update h
theorem wsfixed_preserved_gamma (c : Constr α) (st : QS α) (qd : VecN α) (gam : VecN α) :
    WSFixed m (c.gamma m w st qd gam).1 := wsfixed_gamma c m w st qd gam h
theorem wsfixed_preserved_calcConstraintsJacobian (st : QS α) (C : CSet α) (G : MatN α)
    (update : Bool) : WSFixed m (calcConstraintsJacobian m w st C G update).1 :=
  wsfixed_calcConstraintsJacobian m w st C G update h
theorem wsfixed_preserved_calcConstraintsPositionError (st : QS α) (C : CSet α) (err : VecN α)
    (update : Bool) : WSFixed m (calcConstraintsPositionError m w st C err update).1 :=
  wsfixed_calcConstraintsPositionError m w st C err update h
theorem wsfixed_preserved_calcConstraintsVelocityError (st : QS α) (qd : VecN α) (C : CSet α)
    (G : MatN α) (errd : VecN α) (update : Bool) :
    WSFixed m (calcConstraintsVelocityError m w st qd C G errd update).1 :=
  wsfixed_calcConstraintsVelocityError m w st qd C G errd update h
theorem wsfixed_preserved_calcConstrainedSystemVariables (st : QS α) (qd : VecN α) (C : CSet α)
    (update : Bool) (fext : Option (Nat → SV α)) :
    WSFixed m (calcConstrainedSystemVariables m w st qd C update fext).1 :=
  wsfixed_calcConstrainedSystemVariables m w st qd C update fext h

end preserved

/-- hence every workspace reached by any history of calls of the four set-level routines (any states,
    sets, flags, forces) from a reachable workspace is reachable -/
theorem wsfixed_after_calls (m : ModelS α) (calls : List (CSCall α)) (w : WS α) (h : WSFixed m w) :
    WSFixed m (calls.foldl (fun w c => c.ws m w) w) := wsfixed_calls m calls w h

example := wsfixed_preserved_jacobian CEx.m CEx.w' L13.Ex.w'_fixed L09.Ex.cL CEx.st CEx.G7 true
example := wsfixed_preserved_positionError CEx.m CEx.w' L13.Ex.w'_fixed L09.Ex.cL CEx.st CEx.e7 false
example := wsfixed_preserved_velocityError CEx.m CEx.w' L13.Ex.w'_fixed L09.Ex.cC CEx.st CEx.qd CEx.G7
  CEx.e7 true
example := wsfixed_preserved_gamma CEx.m CEx.w' L13.Ex.w'_fixed L09.Ex.cL CEx.st CEx.qd CEx.e7
example := wsfixed_preserved_calcConstraintsJacobian CEx.m CEx.w' L13.Ex.w'_fixed CEx.st (run CEx.ops)
  CEx.G7 true
example := wsfixed_preserved_calcConstraintsPositionError CEx.m CEx.w' L13.Ex.w'_fixed CEx.st
  (run CEx.ops) CEx.e7 false
example := wsfixed_preserved_calcConstraintsVelocityError CEx.m CEx.w' L13.Ex.w'_fixed CEx.st CEx.qd
  (run CEx.ops) CEx.G7 CEx.e7 true
example := wsfixed_after_calls CEx.mU
  [.systemVariables CEx.st CEx.qd (run CEx.ops) false none,
   .jacobian CEx.st (run CEx.ops) CEx.G7 true,
   .velocityError CEx.st CEx.qd (run CEx.ops) CEx.G7 CEx.e7 false] CEx.wU' L13.Ex.wU'_fixed
example := wsfixed_preserved_calcConstrainedSystemVariables CEx.mU CEx.wU' L13.Ex.wU'_fixed CEx.st CEx.qd
  (run CEx.ops) false (some (fun i => ⟨⟨1, 0, (i : Rat)⟩, ⟨0, 2, 0⟩⟩))

/-! ## 2. `update = true`: the results do not depend on the (reachable) workspace -/
section independent
variable (m : ModelS α) {w w' : WS α} (hw : WSFixed m w) (hw' : WSFixed m w')
  (htree : TreeOrder m) (hok : AllJointOK m)
include hw hw' htree hok

theorem ws_independent_jacobian (c : Constr α) (hc : ConstrOK m c) (st : QS α) (G : MatN α) :
    (c.jacobian m w st G true).2 = (c.jacobian m w' st G true).2 :=
  (jacobian_rel m st htree hok _ (rel_tt m htree hok hw hw' st).1 (rel_tt m htree hok hw hw' st).2
    c hc G).1

theorem ws_independent_positionError (c : Constr α) (hc : ConstrOK m c) (st : QS α)
    (err : VecN α) :
    (c.positionError m w st err true).2 = (c.positionError m w' st err true).2 :=
  (positionError_rel m st htree hok _ (rel_tt m htree hok hw hw' st).1
    (rel_tt m htree hok hw hw' st).2 c hc err).1

theorem ws_independent_velocityError (c : Constr α) (hc : ConstrOK m c) (st : QS α)
    (qd : VecN α) (G : MatN α) (errd : VecN α) :
    (c.velocityError m w st qd G errd true).2 = (c.velocityError m w' st qd G errd true).2 :=
  (velocityError_rel m st qd htree hok _ (relV_tt m htree hok hw hw' st qd).1
    (relV_tt m htree hok hw hw' st qd).2 c hc G errd).1

/-- the whole matrix (given the same in/out argument `G`) -/
theorem ws_independent_calcConstraintsJacobian (st : QS α) (C : CSet α) (hC : IdsOK m C)
    (G : MatN α) :
    (calcConstraintsJacobian m w st C G true).2 = (calcConstraintsJacobian m w' st C G true).2 :=
  (cj_rel m st htree hok C hC _ (rel_tt m htree hok hw hw' st).1 (rel_tt m htree hok hw hw' st).2
    G).1

theorem ws_independent_calcConstraintsPositionError (st : QS α) (C : CSet α) (hC : IdsOK m C)
    (err : VecN α) :
    (calcConstraintsPositionError m w st C err true).2
      = (calcConstraintsPositionError m w' st C err true).2 :=
  (cp_rel m st htree hok C hC _ (rel_tt m htree hok hw hw' st).1 (rel_tt m htree hok hw hw' st).2
    err).1

/-- both outputs: the matrix `G` and the vector `errd` -/
theorem ws_independent_calcConstraintsVelocityError (st : QS α) (qd : VecN α) (C : CSet α)
    (hC : IdsOK m C) (G : MatN α) (errd : VecN α) :
    (calcConstraintsVelocityError m w st qd C G errd true).2
      = (calcConstraintsVelocityError m w' st qd C G errd true).2 :=
  (cv_rel m st qd htree hok C hC _ (relV_tt m htree hok hw hw' st qd).1
    (relV_tt m htree hok hw hw' st qd).2 G errd).1

/-- all of `H`, `C`, `G`, `gamma`, `err`, `errd`; no hypothesis on `mJointUpdateOrder` -/
theorem ws_independent_calcConstrainedSystemVariables (st : QS α) (qd : VecN α) (C : CSet α)
    (hC : IdsOK m C) (fext : Option (Nat → SV α)) :
    (calcConstrainedSystemVariables m w st qd C true fext).2
      = (calcConstrainedSystemVariables m w' st qd C true fext).2 :=
  csv_tt m st qd htree hok C hC fext hw hw'

/-- for a set built by `addContact` / `addLoop`, the entries below the set's size and `qdotSize` are
    the same even for different caller matrices -/
theorem ws_independent_calcConstraintsJacobian_entries (st : QS α) (ops : List (L09.Op α))
    (hops : ∀ op ∈ ops, OpOK m op) (G G' : MatN α) (r col : Nat) (hr : r < (run ops).size)
    (hcol : col < m.qdotSize) :
    (calcConstraintsJacobian m w st (run ops) G true).2 r col
      = (calcConstraintsJacobian m w' st (run ops) G' true).2 r col := by
  have hI : Inv (run ops) := inv_foldl ops _ inv_empty
  have hC : Contig (run ops) := contig_foldl ops _ inv_empty contig_empty
  rw [ws_independent_calcConstraintsJacobian m hw hw' htree hok st (run ops)
    (L13CS.idsOK_run ops hops) G, cj_eq_jacFold, cj_eq_jacFold]
  obtain ⟨c, hc, hrow⟩ := hC.cover hI r hr
  exact (jacFold_overwritten m st true r col _ (updQ m w' st true, G) (updQ m w' st true, G')
    rfl).2 hcol (Or.inl ⟨c, hc, hrow⟩)

end independent

/-! non-vacuity: the pristine and the poisoned workspace, the set with contacts on a movable and on the
    fixed body and loops base → 1, 2 → 3, fixed body → 4 -/
example := ws_independent_jacobian CEx.m L13.Ex.w_fixed L13.Ex.w'_fixed L13.Ex.m_tree L13.Ex.m_ok
  L09.Ex.cL CEx.cL_ok.1 CEx.st CEx.G7
example := ws_independent_positionError CEx.m L13.Ex.w_fixed L13.Ex.w'_fixed L13.Ex.m_tree
  L13.Ex.m_ok L09.Ex.cL CEx.cL_ok.1 CEx.st CEx.e7
example := ws_independent_velocityError CEx.m L13.Ex.w_fixed L13.Ex.w'_fixed L13.Ex.m_tree
  L13.Ex.m_ok L09.Ex.cL CEx.cL_ok.1 CEx.st CEx.qd CEx.G7 CEx.e7
example := ws_independent_calcConstraintsJacobian CEx.m L13.Ex.w_fixed L13.Ex.w'_fixed L13.Ex.m_tree
  L13.Ex.m_ok CEx.st (run CEx.ops) CEx.C_ids CEx.G7
example := ws_independent_calcConstraintsPositionError CEx.m L13.Ex.w_fixed L13.Ex.w'_fixed
  L13.Ex.m_tree L13.Ex.m_ok CEx.st (run CEx.ops) CEx.C_ids CEx.e7
example := ws_independent_calcConstraintsVelocityError CEx.m L13.Ex.w_fixed L13.Ex.w'_fixed
  L13.Ex.m_tree L13.Ex.m_ok CEx.st CEx.qd (run CEx.ops) CEx.C_ids CEx.G7 CEx.e7
example := ws_independent_calcConstrainedSystemVariables CEx.mU L13.Ex.wU_fixed L13.Ex.wU'_fixed
  L13.Ex.mU_tree L13.Ex.mU_ok CEx.st CEx.qd (run CEx.ops) CEx.CU_ids none
example := ws_independent_calcConstraintsJacobian_entries CEx.m L13.Ex.w_fixed L13.Ex.w'_fixed
  L13.Ex.m_tree L13.Ex.m_ok CEx.st CEx.ops CEx.ops_ok.1 CEx.G7 (fun _ _ => 0)

/-- the same by evaluation: the two workspaces really differ, the results do not (all entries) -/
example : CEx.w.X_base 3 ≠ CEx.w'.X_base 3 ∧ CEx.w.v 0 ≠ CEx.w'.v 0 ∧
    (∀ r, r < 7 → ∀ col, col < 7 →
      (calcConstraintsJacobian CEx.m CEx.w CEx.st (run CEx.ops) CEx.G7 true).2 r col
        = (calcConstraintsJacobian CEx.m CEx.w' CEx.st (run CEx.ops) CEx.G7 true).2 r col) ∧
    (∀ r, r < 7 →
      (calcConstraintsPositionError CEx.m CEx.w CEx.st (run CEx.ops) CEx.e7 true).2 r
        = (calcConstraintsPositionError CEx.m CEx.w' CEx.st (run CEx.ops) CEx.e7 true).2 r) ∧
    (∀ r, r < 7 →
      (calcConstraintsVelocityError CEx.m CEx.w CEx.st CEx.qd (run CEx.ops) CEx.G7 CEx.e7 true).2.2 r
        = (calcConstraintsVelocityError CEx.m CEx.w' CEx.st CEx.qd (run CEx.ops) CEx.G7 CEx.e7 true).2.2 r) := by
  decide +kernel

/-- `calcConstrainedSystemVariables`, by evaluation: `gamma` (all rows), `C`, `errd`, a row of `G` and
    the diagonal of `H` from the pristine and the poisoned workspace -/
example : ∀ r, r < 7 →
    (calcConstrainedSystemVariables CEx.mU CEx.wU CEx.st CEx.qd (run CEx.ops) true none).2.gamma r
      = (calcConstrainedSystemVariables CEx.mU CEx.wU' CEx.st CEx.qd (run CEx.ops) true none).2.gamma r := by
  decide +kernel
example : ∀ r, r < 7 →
    (calcConstrainedSystemVariables CEx.mU CEx.wU CEx.st CEx.qd (run CEx.ops) true none).2.errd r
      = (calcConstrainedSystemVariables CEx.mU CEx.wU' CEx.st CEx.qd (run CEx.ops) true none).2.errd r := by
  decide +kernel
example : ∀ r, r < 7 →
    (calcConstrainedSystemVariables CEx.mU CEx.wU CEx.st CEx.qd (run CEx.ops) true none).2.C r
      = (calcConstrainedSystemVariables CEx.mU CEx.wU' CEx.st CEx.qd (run CEx.ops) true none).2.C r := by
  decide +kernel
example : ∀ c, c < 7 →
    (calcConstrainedSystemVariables CEx.mU CEx.wU CEx.st CEx.qd (run CEx.ops) true none).2.G 6 c
      = (calcConstrainedSystemVariables CEx.mU CEx.wU' CEx.st CEx.qd (run CEx.ops) true none).2.G 6 c := by
  decide +kernel
example : ∀ r, r < 7 →
    (calcConstrainedSystemVariables CEx.mU CEx.wU CEx.st CEx.qd (run CEx.ops) true none).2.H r r
      = (calcConstrainedSystemVariables CEx.mU CEx.wU' CEx.st CEx.qd (run CEx.ops) true none).2.H r r := by
  decide +kernel

/-! ### the side hypotheses of 2 cannot be dropped -/

/-- `WSFixed`: one revolute joint, `S[1]` overwritten -/
example : TreeOrder L13.Ex.m1 ∧ AllJointOK L13.Ex.m1 ∧ IdsOK L13.Ex.m1 CEx.C1 ∧
    WSFixed L13.Ex.m1 L13.Ex.wA ∧ ¬ WSFixed L13.Ex.m1 L13.Ex.wB ∧
    (calcConstraintsJacobian L13.Ex.m1 L13.Ex.wA L13.Ex.st1 CEx.C1 (fun _ _ => 0) true).2 0 0
      ≠ (calcConstraintsJacobian L13.Ex.m1 L13.Ex.wB L13.Ex.st1 CEx.C1 (fun _ _ => 0) true).2 0 0 :=
  ⟨L13.Ex.m1_tree, L13.Ex.m1_ok, CEx.C1_ids _ ⟨by decide, by decide⟩, L13.Ex.wA_fixed,
    L13.Ex.wB_not_fixed, by decide +kernel⟩

/-- ... and for `calcConstrainedSystemVariables` (its `G`) -/
example : (calcConstrainedSystemVariables L13.Ex.m1 L13.Ex.wA L13.Ex.st1 (fun _ => 1) CEx.C1 true
      none).2.G 0 0
    ≠ (calcConstrainedSystemVariables L13.Ex.m1 L13.Ex.wB L13.Ex.st1 (fun _ => 1) CEx.C1 true
      none).2.G 0 0 := by decide +kernel

/-- `TreeOrder`: a chain numbered from the tip (the routine updates the positions twice before it
    fills the row, which heals one level of disorder, not two) -/
example : ¬ TreeOrder CEx.mOrd3 ∧ AllJointOK CEx.mOrd3 ∧ IdsOK CEx.mOrd3 CEx.C1 ∧
    WSFixed CEx.mOrd3 CEx.wOrd3 ∧ WSFixed CEx.mOrd3 CEx.wOrd3' ∧
    (calcConstraintsJacobian CEx.mOrd3 CEx.wOrd3 CEx.stOrd CEx.C1 (fun _ _ => 0) true).2 0 0
      ≠ (calcConstraintsJacobian CEx.mOrd3 CEx.wOrd3' CEx.stOrd CEx.C1 (fun _ _ => 0) true).2 0 0 :=
  ⟨CEx.mOrd3_not_tree, CEx.mOrd3_ok, CEx.C1_ids _ ⟨by decide, by decide⟩, CEx.wOrd3_fixed,
    CEx.wOrd3'_fixed, by decide +kernel⟩

/-- `AllJointOK`: a revoluteX joint stored with `mDoFCount = 3` -/
example : TreeOrder L13.Ex.m3 ∧ AllJcalc L13.Ex.m3 ∧ IdsOK L13.Ex.m3 CEx.C1z ∧
    WSFixed L13.Ex.m3 L13.Ex.w3 ∧ WSFixed L13.Ex.m3 L13.Ex.w3' ∧
    (calcConstraintsJacobian L13.Ex.m3 L13.Ex.w3 L13.Ex.st1 CEx.C1z (fun _ _ => 0) true).2 0 0
      ≠ (calcConstraintsJacobian L13.Ex.m3 L13.Ex.w3' L13.Ex.st1 CEx.C1z (fun _ _ => 0) true).2 0 0 :=
  ⟨L13.Ex.m3_tree, L13.Ex.m3_jcalc, CEx.C1z_ids _ ⟨by decide, by decide⟩, L13.Ex.w3_fixed,
    L13.Ex.w3'_fixed, by decide +kernel⟩

/-- the joint types `jcalc` handles (first half of `AllJointOK`): nothing writes `X_lambda[1]`,
    `v_J[1]` of such a joint -/
example : TreeOrder L13.Ex.mBad ∧ IdsOK L13.Ex.mBad CEx.C1 ∧
    WSFixed L13.Ex.mBad L13.Ex.wBad ∧ WSFixed L13.Ex.mBad L13.Ex.wBad' ∧
    (calcConstraintsVelocityError L13.Ex.mBad L13.Ex.wBad L13.Ex.st1 (fun _ => 1) CEx.C1
        (fun _ _ => 0) (fun _ => 0) true).2.2 0
      ≠ (calcConstraintsVelocityError L13.Ex.mBad L13.Ex.wBad' L13.Ex.st1 (fun _ => 1) CEx.C1
          (fun _ _ => 0) (fun _ => 0) true).2.2 0 :=
  ⟨C04.Ex.mBad_tree, CEx.C1_ids _ ⟨by decide, by decide⟩, L13.Ex.wBad_fixed, L13.Ex.wBad'_fixed,
    by decide +kernel⟩

/-- `IdsOK`: a contact on an id that is no body of the model reads `v[5]`, which nothing writes -/
example : TreeOrder L13.Ex.m2 ∧ AllJointOK L13.Ex.m2 ∧ ¬ IdsOK L13.Ex.m2 CEx.C5 ∧
    WSFixed L13.Ex.m2 L13.Ex.w2 ∧ WSFixed L13.Ex.m2 CEx.w2v ∧
    (calcConstraintsVelocityError L13.Ex.m2 L13.Ex.w2 L13.Ex.st1 (fun _ => 1) CEx.C5 (fun _ _ => 0)
        (fun _ => 0) true).2.2 0
      ≠ (calcConstraintsVelocityError L13.Ex.m2 CEx.w2v L13.Ex.st1 (fun _ => 1) CEx.C5
          (fun _ _ => 0) (fun _ => 0) true).2.2 0 :=
  ⟨L13.Ex.m2_tree, L13.Ex.m2_ok,
    fun h => absurd (h (CEx.C5.cs.getD 0 default)
      (L09.Ex.getD_mem _ 0 _ (by decide +kernel))).1.1 (by decide +kernel),
    L13.Ex.w2_fixed, CEx.w2v_fixed, by decide +kernel⟩

/-! ## 3. `update = false` after the documented update -/

/-- `CalcConstrainedSystemVariables` with the flag set is `UpdateKinematicsCustom(Q)` followed by the
    call with the flag cleared (whole result, by unfolding; no hypothesis) -/
theorem flag_cleared_calcConstrainedSystemVariables (m : ModelS α) (w : WS α) (st : QS α)
    (qd : VecN α) (C : CSet α) (fext : Option (Nat → SV α)) :
    calcConstrainedSystemVariables m (updateKinematicsCustom m w (some st) none none) st qd C false
        fext
      = calcConstrainedSystemVariables m w st qd C true fext := rfl

/-- after `UpdateKinematicsCustom(Q)`: **tree order is the only hypothesis** (nothing on the
    workspace, the joints, the ids) -/
theorem flag_cleared_calcConstraintsJacobian (m : ModelS α) (htree : TreeOrder m) (w : WS α)
    (st : QS α) (C : CSet α) (G : MatN α) :
    (calcConstraintsJacobian m (updateKinematicsCustom m w (some st) none none) st C G false).2
      = (calcConstraintsJacobian m w st C G true).2 := cj_flag_tree m htree w st C G

theorem flag_cleared_calcConstraintsPositionError (m : ModelS α) (htree : TreeOrder m) (w : WS α)
    (st : QS α) (C : CSet α) (err : VecN α) :
    (calcConstraintsPositionError m (updateKinematicsCustom m w (some st) none none) st C err
        false).2 = (calcConstraintsPositionError m w st C err true).2 :=
  cp_flag_tree m htree w st C err

theorem flag_cleared_jacobian (m : ModelS α) (htree : TreeOrder m) (c : Constr α) (w : WS α)
    (st : QS α) (G : MatN α) :
    (c.jacobian m (updateKinematicsCustom m w (some st) none none) st G false).2
      = (c.jacobian m w st G true).2 := jacobian_flag_tree m htree c w st G

theorem flag_cleared_positionError (m : ModelS α) (htree : TreeOrder m) (c : Constr α) (w : WS α)
    (st : QS α) (err : VecN α) :
    (c.positionError m (updateKinematicsCustom m w (some st) none none) st err false).2
      = (c.positionError m w st err true).2 := positionError_flag_tree m htree c w st err

/-- after `UpdateKinematicsCustom(Q, QDot)`, both outputs (`G` and `errd`): tree order only -/
theorem flag_cleared_calcConstraintsVelocityError (m : ModelS α) (htree : TreeOrder m) (w : WS α)
    (st : QS α) (qd : VecN α) (C : CSet α) (G : MatN α) (errd : VecN α) :
    (calcConstraintsVelocityError m (updateKinematicsCustom m w (some st) (some qd) none) st qd C
        G errd false).2 = (calcConstraintsVelocityError m w st qd C G errd true).2 :=
  cv_flag_tree m htree w st qd C G errd

/-- per constraint: no hypothesis at all -/
theorem flag_cleared_velocityError (m : ModelS α) (c : Constr α) (w : WS α) (st : QS α)
    (qd : VecN α) (G : MatN α) (errd : VecN α) :
    (c.velocityError m (updateKinematicsCustom m w (some st) (some qd) none) st qd G errd false).2
      = (c.velocityError m w st qd G errd true).2 := velocityError_flag c m w st qd G errd

section flag
variable (m : ModelS α) (htree : TreeOrder m) (hok : AllJointOK m)
include htree hok

/-- **general form**: any workspace `W` that agrees with `UpdateKinematicsCustom(Q)` of a reachable
    workspace on the position-level entries, e.g. after further calls with the flag cleared -/
theorem flag_cleared_calcConstraintsJacobian_general (st : QS α) (C : CSet α) (hC : IdsOK m C)
    (G : MatN α) {W w0 w : WS α} (hw0 : WSFixed m w0) (hw : WSFixed m w)
    (hW : Agree m (Dk m) W (updateKinematicsCustom m w0 (some st) none none)) :
    (calcConstraintsJacobian m W st C G false).2 = (calcConstraintsJacobian m w st C G true).2 :=
  (cj_rel m st htree hok C hC _ (rel_ft m htree hok st hw0 hw hW).1
    (rel_ft m htree hok st hw0 hw hW).2 G).1

theorem flag_cleared_calcConstraintsPositionError_general (st : QS α) (C : CSet α)
    (hC : IdsOK m C) (err : VecN α) {W w0 w : WS α} (hw0 : WSFixed m w0) (hw : WSFixed m w)
    (hW : Agree m (Dk m) W (updateKinematicsCustom m w0 (some st) none none)) :
    (calcConstraintsPositionError m W st C err false).2
      = (calcConstraintsPositionError m w st C err true).2 :=
  (cp_rel m st htree hok C hC _ (rel_ft m htree hok st hw0 hw hW).1
    (rel_ft m htree hok st hw0 hw hW).2 err).1

theorem flag_cleared_calcConstraintsVelocityError_general (st : QS α) (qd : VecN α) (C : CSet α)
    (hC : IdsOK m C) (G : MatN α) (errd : VecN α) {W w0 w : WS α} (hw0 : WSFixed m w0)
    (hw : WSFixed m w)
    (hW : Agree m (Dkv m) W (updateKinematicsCustom m w0 (some st) (some qd) none)) :
    (calcConstraintsVelocityError m W st qd C G errd false).2
      = (calcConstraintsVelocityError m w st qd C G errd true).2 :=
  (cv_rel m st qd htree hok C hC (updateKinematicsCustom m w0 (some st) (some qd) none)
    ⟨fun e => (by cases e), fun _ => hW⟩
    ⟨fun _ => ⟨hw, goodRefV_ukc m st qd htree hok.jcalc w0 hw0⟩, fun e => by cases e⟩ G errd).1

/-- here the bodies have to be listed in `mJointUpdateOrder` (second half of `UOrderOK`) -/
theorem flag_cleared_calcConstrainedSystemVariables_general
    (hcov : ∀ i, 1 ≤ i → i < m.nBodies → i ∈ m.updateOrder.drop 1) (st : QS α) (qd : VecN α)
    (C : CSet α) (hC : IdsOK m C) (fext : Option (Nat → SV α)) {W w0 w : WS α}
    (hw0 : WSFixed m w0) (hw : WSFixed m w)
    (hW : Agree m (Dk m) W (updateKinematicsCustom m w0 (some st) none none)) :
    (calcConstrainedSystemVariables m W st qd C false fext).2
      = (calcConstrainedSystemVariables m w st qd C true fext).2 :=
  csv_rel m st qd htree hok hcov C hC _ fext (rel_ft m htree hok st hw0 hw hW).1
    (rel_ft m htree hok st hw0 hw hW).2

/-- the position-level routines may also be called after `UpdateKinematicsCustom(Q, QDot)` -/
theorem flag_cleared_calcConstraintsJacobian_after_qv (w : WS α) (hw : WSFixed m w) (st : QS α)
    (qd : VecN α) (C : CSet α) (hC : IdsOK m C) (G : MatN α) :
    (calcConstraintsJacobian m (updateKinematicsCustom m w (some st) (some qd) none) st C G
        false).2 = (calcConstraintsJacobian m w st C G true).2 := by
  obtain ⟨hb, hl, hS, hS3, hcS⟩ := ukcqv_fields m w st qd
  refine flag_cleared_calcConstraintsJacobian_general m htree hok st C hC G hw hw ?_
  exact (Agree.refl (wsfixed_updateKinematicsCustom m w _ _ _ hw)).left _
    (wsfixed_updateKinematicsCustom m w _ _ _ hw)
    (fun g j hgj => ⟨hgj, view_of_fields m _ _ hb hl hS hS3 hcS g j (Dk_fields m g j hgj)⟩)

end flag

/-- the three routines called with the flag cleared keep the agreement that the general forms ask
    for (they write `mBaseTransform` of fixed bodies and `v[0]` only), so the general forms apply
    after any sequence of such calls -/
theorem cleared_calls_keep_agreement (m : ModelS α) (st : QS α) (qd : VecN α) (C : CSet α)
    (G : MatN α) (e : VecN α) {W T : WS α} (h : Agree m (Dkv m) W T) :
    Agree m (Dkv m) (calcConstraintsJacobian m W st C G false).1 T ∧
    Agree m (Dkv m) (calcConstraintsPositionError m W st C e false).1 T ∧
    Agree m (Dkv m) (calcConstraintsVelocityError m W st qd C G e false).1 T :=
  ⟨h.junkL (cj_false_junk m W st C G) (clean_Dkv m),
    h.junkL (cp_false_junk m W st C e) (clean_Dkv m),
    h.junkL (cv_false_junk m W st qd C G e) (clean_Dkv m)⟩

example := flag_cleared_calcConstrainedSystemVariables CEx.mU CEx.wU' CEx.st CEx.qd (run CEx.ops) none
example := flag_cleared_calcConstraintsJacobian CEx.m L13.Ex.m_tree CEx.w' CEx.st (run CEx.ops) CEx.G7
example := flag_cleared_calcConstraintsPositionError CEx.m L13.Ex.m_tree CEx.w' CEx.st (run CEx.ops)
  CEx.e7
example := flag_cleared_jacobian CEx.m L13.Ex.m_tree (L09.Ex.cL) CEx.w' CEx.st CEx.G7
example := flag_cleared_positionError CEx.m L13.Ex.m_tree (L09.Ex.cL) CEx.w' CEx.st CEx.e7
example := flag_cleared_calcConstraintsJacobian_general CEx.m L13.Ex.m_tree L13.Ex.m_ok CEx.st
  (run CEx.ops) CEx.C_ids CEx.G7 L13.Ex.w'_fixed L13.Ex.w_fixed
  (Agree.refl (wsfixed_updateKinematicsCustom CEx.m CEx.w' (some CEx.st) none none L13.Ex.w'_fixed))
example := flag_cleared_calcConstraintsPositionError_general CEx.m L13.Ex.m_tree L13.Ex.m_ok CEx.st
  (run CEx.ops) CEx.C_ids CEx.e7 L13.Ex.w'_fixed L13.Ex.w_fixed
  (Agree.refl (wsfixed_updateKinematicsCustom CEx.m CEx.w' (some CEx.st) none none L13.Ex.w'_fixed))
example := flag_cleared_calcConstraintsVelocityError_general CEx.m L13.Ex.m_tree L13.Ex.m_ok CEx.st
  CEx.qd (run CEx.ops) CEx.C_ids CEx.G7 CEx.e7 L13.Ex.w'_fixed L13.Ex.w_fixed
  (Agree.refl (wsfixed_updateKinematicsCustom CEx.m CEx.w' (some CEx.st) (some CEx.qd) none
    L13.Ex.w'_fixed))
example := flag_cleared_calcConstraintsVelocityError CEx.m L13.Ex.m_tree CEx.w' CEx.st CEx.qd
  (run CEx.ops) CEx.G7 CEx.e7
example := flag_cleared_velocityError CEx.m L09.Ex.cC CEx.w' CEx.st CEx.qd CEx.G7 CEx.e7
example := flag_cleared_calcConstraintsJacobian_after_qv CEx.m L13.Ex.m_tree L13.Ex.m_ok CEx.w'
  L13.Ex.w'_fixed CEx.st CEx.qd (run CEx.ops) CEx.C_ids CEx.G7
example := flag_cleared_calcConstrainedSystemVariables_general CEx.mU L13.Ex.mU_tree L13.Ex.mU_ok
  L13.Ex.mU_uo.2 CEx.st CEx.qd (run CEx.ops) CEx.CU_ids none L13.Ex.wU'_fixed L13.Ex.wU_fixed
  (Agree.refl (wsfixed_updateKinematicsCustom CEx.mU CEx.wU' (some CEx.st) none none L13.Ex.wU'_fixed))

example := cleared_calls_keep_agreement CEx.m CEx.st CEx.qd (run CEx.ops) CEx.G7 CEx.e7
  (Agree.refl (D := Dkv CEx.m)
    (wsfixed_updateKinematicsCustom CEx.m CEx.w' (some CEx.st) (some CEx.qd) none L13.Ex.w'_fixed))

/-- by evaluation, from the poisoned workspace: velocity errors with the flag cleared after the
    documented update, against the flag set on the pristine workspace -/
example : ∀ r, r < 7 →
    (calcConstraintsVelocityError CEx.m (updateKinematicsCustom CEx.m CEx.w' (some CEx.st) (some CEx.qd) none)
        CEx.st CEx.qd (run CEx.ops) CEx.G7 CEx.e7 false).2.2 r
      = (calcConstraintsVelocityError CEx.m CEx.w CEx.st CEx.qd (run CEx.ops) CEx.G7 CEx.e7 true).2.2 r := by
  decide +kernel

/-- no hypothesis on the workspace: a workspace whose fixed entries (`S`, `v_J`, `c_J`, `multdof3_S`,
    `X_base[0]`) are overwritten as well, all three pairs by evaluation -/
example : ¬ WSFixed CEx.m CEx.wG ∧
    (∀ r, r < 7 → ∀ c, c < 7 →
      (calcConstraintsJacobian CEx.m (updateKinematicsCustom CEx.m CEx.wG (some CEx.st) none none)
          CEx.st (run CEx.ops) CEx.G7 false).2 r c
        = (calcConstraintsJacobian CEx.m CEx.wG CEx.st (run CEx.ops) CEx.G7 true).2 r c) ∧
    (∀ r, r < 7 →
      (calcConstraintsPositionError CEx.m (updateKinematicsCustom CEx.m CEx.wG (some CEx.st) none none)
          CEx.st (run CEx.ops) CEx.e7 false).2 r
        = (calcConstraintsPositionError CEx.m CEx.wG CEx.st (run CEx.ops) CEx.e7 true).2 r) ∧
    (∀ r, r < 7 →
      (calcConstraintsVelocityError CEx.m
          (updateKinematicsCustom CEx.m CEx.wG (some CEx.st) (some CEx.qd) none) CEx.st CEx.qd
          (run CEx.ops) CEx.G7 CEx.e7 false).2.2 r
        = (calcConstraintsVelocityError CEx.m CEx.wG CEx.st CEx.qd (run CEx.ops) CEx.G7 CEx.e7
            true).2.2 r) :=
  ⟨fun h => absurd h.1 (by decide +kernel), by decide +kernel, by decide +kernel, by decide +kernel⟩

/-- the update must be for the same state -/
example :
    (calcConstraintsJacobian L13.Ex.m1
        (updateKinematicsCustom L13.Ex.m1 L13.Ex.wA (some CEx.st1') none none) L13.Ex.st1 CEx.C1
        (fun _ _ => 0) false).2 0 0
      ≠ (calcConstraintsJacobian L13.Ex.m1 L13.Ex.wA L13.Ex.st1 CEx.C1 (fun _ _ => 0) true).2 0 0 := by
  decide +kernel

/-- `TreeOrder` cannot be dropped from the flag pairs: out of tree order one update is not enough -/
example : ¬ TreeOrder CEx.mOrd ∧ AllJointOK CEx.mOrd ∧ IdsOK CEx.mOrd CEx.C1 ∧ WSFixed CEx.mOrd CEx.wOrd' ∧
    (calcConstraintsJacobian CEx.mOrd
        (updateKinematicsCustom CEx.mOrd CEx.wOrd' (some L13.Ex.st1) none none) L13.Ex.st1 CEx.C1
        (fun _ _ => 0) false).2 0 0
      ≠ (calcConstraintsJacobian CEx.mOrd CEx.wOrd' L13.Ex.st1 CEx.C1 (fun _ _ => 0) true).2 0 0 :=
  ⟨CEx.mOrd_not_tree, CEx.mOrd_ok, CEx.C1_ids _ ⟨by decide, by decide⟩, CEx.wOrd'_fixed,
    by decide +kernel⟩

/-- the hypothesis on `mJointUpdateOrder` cannot be dropped from the general form for
    `calcConstrainedSystemVariables`: with an empty `mJointUpdateOrder`, after
    `UpdateKinematicsCustom(Q, QDot)` (which agrees with `UpdateKinematicsCustom(Q)` on `Dk`) the
    joint velocities `v_J` are not recomputed -/
example : TreeOrder L13.Ex.m2 ∧ AllJointOK L13.Ex.m2 ∧ IdsOK L13.Ex.m2 CEx.C1 ∧
    WSFixed L13.Ex.m2 L13.Ex.w2 ∧
    (calcConstrainedSystemVariables L13.Ex.m2
        (updateKinematicsCustom L13.Ex.m2 L13.Ex.w2 (some L13.Ex.st1) (some (fun _ => 1)) none)
        L13.Ex.st1 (fun _ => 1) CEx.C1 false none).2.C 0
      ≠ (calcConstrainedSystemVariables L13.Ex.m2 L13.Ex.w2 L13.Ex.st1 (fun _ => 1) CEx.C1 true
          none).2.C 0 :=
  ⟨L13.Ex.m2_tree, L13.Ex.m2_ok, CEx.C1_ids _ ⟨by decide, by decide⟩, L13.Ex.w2_fixed,
    by decide +kernel⟩

/-! ## 4. which entries of the caller's `G` are written -/

/-- rows of no constraint and columns `≥ qdotSize` keep the caller's values (any flag, any ids) -/
theorem G_untouched (m : ModelS α) (w : WS α) (st : QS α) (C : CSet α) (G : MatN α)
    (update : Bool) (r col : Nat) (h : (∀ c ∈ C.cs, ¬ hasRow c r) ∨ ¬ col < m.qdotSize) :
    (calcConstraintsJacobian m w st C G update).2 r col = G r col := by
  rw [cj_eq_jacFold]
  exact jacFold_untouched m st update r col _ _ h

/-- the rows of the constraints (all columns `< qdotSize`) and the workspace left behind do not
    depend on the caller's matrix: **no zero-initialisation precondition** (any flag, any ids) -/
theorem G_rows_overwritten (m : ModelS α) (w : WS α) (st : QS α) (C : CSet α) (G G' : MatN α)
    (update : Bool) :
    (calcConstraintsJacobian m w st C G update).1 = (calcConstraintsJacobian m w st C G' update).1 ∧
    ∀ r col, (∃ c ∈ C.cs, hasRow c r) → col < m.qdotSize →
      (calcConstraintsJacobian m w st C G update).2 r col
        = (calcConstraintsJacobian m w st C G' update).2 r col := by
  rw [cj_eq_jacFold, cj_eq_jacFold]
  exact ⟨(jacFold_overwritten m st update 0 0 _ (updQ m w st update, G) (updQ m w st update, G')
      rfl).1,
    fun r col hr hcol => (jacFold_overwritten m st update r col _ (updQ m w st update, G)
      (updQ m w st update, G') rfl).2 hcol (Or.inl hr)⟩


/-- for a set built by `addContact` / `addLoop` every row below the set's size belongs to a constraint:
    below `size` and `qdotSize` the result does not depend on the caller's matrix -/
theorem G_no_init_needed (m : ModelS α) (w : WS α) (st : QS α) (ops : List (L09.Op α))
    (G G' : MatN α) (update : Bool) (r col : Nat) (hr : r < (run ops).size)
    (hcol : col < m.qdotSize) :
    (calcConstraintsJacobian m w st (run ops) G update).2 r col
      = (calcConstraintsJacobian m w st (run ops) G' update).2 r col := by
  have hI : Inv (run ops) := inv_foldl ops _ inv_empty
  have hC : Contig (run ops) := contig_foldl ops _ inv_empty contig_empty
  obtain ⟨c, hc, hrow⟩ := hC.cover hI r hr
  exact (G_rows_overwritten m w st (run ops) G G' update).2 r col ⟨c, hc, hrow⟩ hcol

/-- in the rows of the constraints the columns off the paths of the constrained bodies receive `0`
    (`update = false`; `COff m w c k`: column `k` lies in no block of a joint on the path of
    `c.bodyP`, nor — for a loop — of `c.bodyS`; the counterpart of `C05.offpath_zero`) -/
theorem G_offpath_zero (m : ModelS α) (htree : TreeOrder m) (w : WS α) (st : QS α) (C : CSet α)
    (hC : IdsOK m C) (G : MatN α) (r k : Nat) (hk : k < m.qdotSize)
    (hex : ∃ c ∈ C.cs, hasRow c r) (hoff : ∀ c ∈ C.cs, hasRow c r → COff m w c k) :
    (calcConstraintsJacobian m w st C G false).2 r k = 0 := by
  rw [cj_eq_jacFold]
  exact jacFold_offpath_zero m htree st w r k hk C.cs _ (Junk.rfl' m w) hC hoff (Or.inl hex)

example (r col : Nat) := G_untouched CEx.m CEx.w' CEx.st (run CEx.ops) CEx.G7 true r col
example := G_rows_overwritten CEx.m CEx.w' CEx.st (run CEx.ops) CEx.G7 (fun _ _ => 0) true
example := G_no_init_needed CEx.m CEx.w' CEx.st CEx.ops CEx.G7 (fun _ _ => 0) true

/-- the contact on body 1 of the two-body chain: column 1 (the joint of body 2) is off the path -/
example : (calcConstraintsJacobian L13.Ex.m2 L13.Ex.w2' L13.Ex.st1 CEx.C1 CEx.G7 false).2 0 1 = 0 :=
  G_offpath_zero L13.Ex.m2 L13.Ex.m2_tree L13.Ex.w2' L13.Ex.st1 CEx.C1
    (CEx.C1_ids _ ⟨by decide, by decide⟩) CEx.G7 0 1 (by decide)
    ⟨CEx.C1.cs.getD 0 default, L09.Ex.getD_mem _ 0 _ (by decide +kernel), by decide +kernel⟩
    (fun c hc _ => by
      have e : c = CEx.C1.cs.getD 0 default := by
        obtain ⟨i, hi, rfl⟩ := List.getElem_of_mem hc
        have hl : CEx.C1.cs.length = 1 := by decide +kernel
        obtain rfl : i = 0 := by omega
        rw [List.getD_eq_getElem?_getD, List.getElem?_eq_getElem hi, Option.getD_some]
      subst e
      unfold COff OffPath inBlock
      decide +kernel)

/-- **counterexample to the literal request** ("entries of the columns off the paths keep the caller's
    values"): row 0 belongs to the contact on body 3, column 5 to the custom joint of body 4 (not on the
    path of body 3); the caller's value `36` is overwritten with `0` — with either flag -/
example : CEx.G7 0 5 = 36 ∧
    (calcConstraintsJacobian CEx.m CEx.w CEx.st (run CEx.ops) CEx.G7 true).2 0 5 = 0 ∧
    (calcConstraintsJacobian CEx.m (updateKinematicsCustom CEx.m CEx.w (some CEx.st) none none) CEx.st
      (run CEx.ops) CEx.G7 false).2 0 5 = 0 ∧
    (calcConstraintsJacobian CEx.m CEx.w CEx.st (run CEx.ops) CEx.G7 true).2 0 0 ≠ 0 := by
  decide +kernel

/-- ... while rows `≥ size` and columns `≥ qdotSize` keep the caller's values, by evaluation -/
example : (calcConstraintsJacobian CEx.m CEx.w CEx.st (run CEx.ops) CEx.G7 true).2 7 0 = CEx.G7 7 0 ∧
    (calcConstraintsJacobian CEx.m CEx.w CEx.st (run CEx.ops) CEx.G7 true).2 0 7 = CEx.G7 0 7 := by
  decide +kernel

/-! ## 5. `calcGamma` (called with the kinematics as left by the caller) -/

/-- two reachable workspaces that agree on the entries `calcGamma` reads (`L13CS.Dg m`: the
    position-level entries and `v`, `c`, `a` of the movable bodies) give the same rows -/
theorem gamma_of_agree (m : ModelS α) (htree : TreeOrder m) (hok : AllJointOK m) (c : Constr α)
    (hc : ConstrOK m c) (st : QS α) (qd : VecN α) (gam : VecN α) {s t : WS α}
    (h : Agree m (Dg m) s t) : (c.gamma m s st qd gam).2 = (c.gamma m t st qd gam).2 :=
  (gamma_agree m st qd htree hok c hc h gam).1
/-- the workspaces handed to the gamma loop inside `calcConstrainedSystemVariables`, from the pristine
    and the poisoned workspace; the loop constraint base → body 1 -/
example := gamma_of_agree CEx.mU L13.Ex.mU_tree L13.Ex.mU_ok L09.Ex.cL CEx.cL_ok.2 CEx.st CEx.qd
  (fun _ => 0)
  (csv_acc_tt CEx.mU CEx.st CEx.qd L13.Ex.mU_tree L13.Ex.mU_ok (run CEx.ops) CEx.CU_ids none
    L13.Ex.wU_fixed L13.Ex.wU'_fixed)

end Rbdl.C13CS
