import RbdlProofs.Lemmas.AbaWF
import RbdlProofs.Lemmas.AbaTree
import RbdlProofs.Lemmas.AbaChain
import RbdlProofs.Lemmas.AbaCMT
import RbdlProofs.Lemmas.AbaEx
/-
  C02 — the articulated-body algorithm inverts inverse dynamics.

  For every model, state, `tau` and external forces the accelerations returned by `forwardDynamics`
  make `inverseDynamics` reproduce `tau` exactly (over any field), provided the joint-space pivots
  are invertible.

  * Part 1 (local algebra (A1)–(A3)): `RbdlProofs/Lemmas/Aba.lean`.
  * (T1) pure recursions on an abstract tree: `RbdlProofs/Lemmas/AbaTree.lean`, restated here.
  * (T2) the code-shaped loops: `aba_inverts_rnea` below (proof in `AbaLoops`, `AbaLocal`,
    `AbaPhase1`, `AbaPhase23`, `AbaMain`, `AbaWF`, `AbaChain`).
  * (T3) `calcMInvTimesTau`: `cmt_inverts_rnea` below (proof in `AbaCMT`).

  Hypotheses of (T2) and why they are there:
  * `m.WF`         — parents precede children, coordinates of the joints are disjoint and cover
                     `[0, dofCount)` (established by `AddBody`, C14);
  * `har`          — every joint is a 1-DoF or 3-DoF joint (custom joints are not covered);
  * `hvirt`        — virtual bodies carry the zero inertia: `inverseDynamics` skips the body force of
                     a virtual body, `forwardDynamics` does not;
  * `hag`          — `jcalc` leaves the same `X_lambda`, `S`, `multdof3_S`, `v_J`, `c_J` of body `i` in
                     the two workspaces (these are only partly written by `jcalc`, e.g. `S[i]` of the
                     fixed-axis joints is never written); trivially true for `w2 = w`;
  * `hx0`          — with external forces `inverseDynamics` multiplies by `X_base[0]`;
  * `hpiv`         — `d_i ≠ 0` (1 DoF), `det (Sᵀ IA S) ≠ 0` (3 DoF) in the workspace returned by
                     `forwardDynamics`.
  `hvirt` and `hx0` are necessary (machine-checked counterexamples below).

  Not proved (full statements):
  * (T2) for models with custom joints (`Arity.custom`, list-based `cS`/`cU`/`cDinv`):
      the same conclusion with `har` weakened to `m.arity i ≠ .other` and `hpiv` extended by
      "`lmInverse D` succeeds and is an inverse of `D = Sᵀ IA S`".
  * (T3) in the form "`calcMInvTimesTau … true` returns the accelerations of `forwardDynamics` with
      zero velocity, zero gravity and no external forces":
        (calcMInvTimesTau m w st tau q0 true).2 k
          = (forwardDynamics {m with gravity := 0} w' st zeroVec tau q0 none).2 k   for k < dofCount.
      What is proved (`L02.split_jointSame`) is that the two backward loops of `calcMInvTimesTau`
      leave the same `U, d, u` / `U, D⁻¹, u` as the single backward loop of `forwardDynamics` started
      from the same workspace; missing is the comparison of the first loops, which needs
      `m.updateOrder` to be a permutation of the bodies (`calcMInvTimesTau` runs `jcalc_X_lambda_S`
      in update order), the agreement of `jcalc` and `jcalc_X_lambda_S` on `X_lambda`, `S`, and
      workspace invariants making `v_J = c_J = 0` at zero velocity.
-/
namespace Rbdl.C02
open Lean.Grind Rbdl Rbdl.L02

/-! ### Part 1: the local algebra (proofs in `Lemmas/Aba.lean`) -/
section
variable {α : Type} [Field α]

/-- (A1) one-DoF joint: with `U = IA S`, `d = Sᵀ U ≠ 0`, `u = τ - Sᵀ pA`, `qdd = (u - Uᵀ a') / d`,
    `a = a' + S qdd` the joint-space equation `Sᵀ (IA a + pA) = τ` holds (symmetric `IA`). -/
theorem one_dof_tau (IA : SM α) (hs : IA.transpose = IA) (S pA a' : SV α) (τ : α)
    (hd : S.dot (IA * S) ≠ 0) :
    let U := IA * S
    let d := S.dot U
    let u := τ - S.dot pA
    let qdd := (1 / d) * (u - U.dot a')
    let a := a' + qdd * S
    S.dot (IA * a + pA) = τ := by
  intro U d u qdd a
  exact L02.one_dof_tau IA hs S pA a' τ hd

example : let IA := Ex.body1.toRBI.toMatrix
    let S : SV Rat := sv6 0 0 1 0 0 0
    let pA : SV Rat := ⟨⟨1, 0, 2⟩, ⟨0, 1, 0⟩⟩
    let a' : SV Rat := ⟨⟨0, 1, 1⟩, ⟨2, 0, 1/2⟩⟩
    S.dot (IA * (a' + ((1 / S.dot (IA * S)) * ((3/2 - S.dot pA) - (IA * S).dot a')) * S) + pA)
      = 3/2 :=
  one_dof_tau Ex.body1.toRBI.toMatrix (symSM_rbi _) _ _ _ _ (by decide +kernel)

/-- (A1) the force of the body in terms of the parent acceleration `ax` (`a' = ax + c`):
    `IA a + pA = Ia ax + pa` with `Ia = IA - U Uᵀ / d`, `pa = pA + Ia c + (u / d) U`
    (an identity: it holds for every `d`, `u`), and `Ia` is symmetric. -/
theorem one_dof_force (IA : SM α) (S pA c ax : SV α) (d u : α) :
    let U := IA * S
    let a' := ax + c
    let a := a' + ((1 / d) * (u - U.dot a')) * S
    let Ia := IA - SM.outer U ((1 / d) * U)
    let pa := pA + Ia * c + (u / d) * U
    IA * a + pA = Ia * ax + pa ∧ (IA.transpose = IA → Ia.transpose = Ia) := by
  intro U a' a Ia pa
  exact ⟨L02.one_dof_force IA S pA c ax d u, fun hs => L02.one_dof_Ia_sym IA hs U d⟩

/-- `A A⁻¹ = 1 = A⁻¹ A` for the cofactor inverse `M3.inv` of the model -/
theorem m3_inv (A : M3 α) (h : A.det ≠ 0) : A * M3.inv A = M3.one ∧ M3.inv A * A = M3.one :=
  ⟨L02.m3_mul_inv A h, L02.m3_inv_mul A h⟩

example : C16.Ex.Ic * M3.inv C16.Ex.Ic = M3.one ∧ M3.inv C16.Ex.Ic * C16.Ex.Ic = M3.one :=
  m3_inv C16.Ex.Ic (by decide +kernel)

/-- (A2) three-DoF joint: with `U = IA S`, `D = Sᵀ U`, `D Dinv = 1`, `u = τ₃ - Sᵀ pA`,
    `qdd = Dinv (u - Uᵀ a')`, `a = a' + S qdd`: `Sᵀ (IA a + pA) = τ₃` (symmetric `IA`). -/
theorem three_dof_tau (IA : SM α) (hs : IA.transpose = IA) (S3 : M63 α) (pA a' : SV α)
    (τ3 : V3 α) (Dinv : M3 α) (hD : S3.tmul (M63.lmulSM IA S3) * Dinv = M3.one) :
    let U3 := M63.lmulSM IA S3
    let u3 := τ3 - S3.tmulSV pA
    let qdd3 := Dinv * (u3 - U3.tmulSV a')
    let a := a' + S3.mulV3 qdd3
    S3.tmulSV (IA * a + pA) = τ3 := by
  intro U3 u3 qdd3 a
  exact L02.three_dof_tau IA hs S3 pA a' τ3 Dinv hD

example : let IA := Ex.body2.toRBI.toMatrix
    let S3 : M63 Rat := ⟨sv6 1 0 0 0 0 0, sv6 0 1 0 0 0 0, sv6 0 0 1 0 0 0⟩
    let pA : SV Rat := ⟨⟨1, 0, 2⟩, ⟨0, 1, 0⟩⟩
    let a' : SV Rat := ⟨⟨0, 1, 1⟩, ⟨2, 0, 1/2⟩⟩
    let τ3 : V3 Rat := ⟨1, -1, 1/2⟩
    let Dinv := M3.inv (S3.tmul (M63.lmulSM IA S3))
    S3.tmulSV (IA * (a' + S3.mulV3 (Dinv * ((τ3 - S3.tmulSV pA)
      - (M63.lmulSM IA S3).tmulSV a'))) + pA) = τ3 :=
  three_dof_tau Ex.body2.toRBI.toMatrix (symSM_rbi _) _ _ _ _ _
    (m3_inv _ (by decide +kernel)).1

/-- (A2) `IA a + pA = Ia ax + pa` with the `Ia`, `pa` of `abaIa` / `abaUDu` for a 3-DoF joint
    (an identity in `Dinv`, `u3`), and `Ia` is symmetric for symmetric `IA`, `Dinv`; the `Dinv` the
    model computes is symmetric. -/
theorem three_dof_force (IA : SM α) (S3 : M63 α) (pA c ax : SV α) (Dinv : M3 α) (u3 : V3 α) :
    let U3 := M63.lmulSM IA S3
    let a' := ax + c
    let a := a' + S3.mulV3 (Dinv * (u3 - U3.tmulSV a'))
    let Ia := IA - M63.mulT (U3.mulM3 Dinv) U3
    let pa := pA + Ia * c + U3.mulV3 (Dinv * u3)
    IA * a + pA = Ia * ax + pa
      ∧ (IA.transpose = IA → Dinv.transpose = Dinv → Ia.transpose = Ia)
      ∧ (IA.transpose = IA → (M3.inv (S3.tmul U3)).transpose = M3.inv (S3.tmul U3)) := by
  intro U3 a' a Ia pa
  exact ⟨L02.three_dof_force IA S3 pA c ax Dinv u3,
    fun hs hD => L02.three_dof_Ia_sym IA hs U3 Dinv hD,
    fun hs => L02.three_dof_Dinv_sym IA hs S3⟩

end

section
variable {α : Type} [CommRing α]

/-- (A3) congruence with a spatial transform (no rotation hypothesis): `X.applyTranspose f = Xᵀ f`,
    `Xᵀ (Ia (X a)) = (Xᵀ Ia X) a`, and `Xᵀ Ia X` is symmetric for symmetric `Ia`. -/
theorem congruence (X : XT α) (Ia : SM α) (a f : SV α) :
    X.applyTranspose f = X.toMatrixTranspose * f
      ∧ X.toMatrixTranspose * (Ia * (X.toMatrix * a))
          = (X.toMatrixTranspose * Ia * X.toMatrix) * a
      ∧ X.applyTranspose (Ia * X.apply a) = (X.toMatrixTranspose * Ia * X.toMatrix) * a
      ∧ (Ia.transpose = Ia →
          (X.toMatrixTranspose * Ia * X.toMatrix).transpose
            = X.toMatrixTranspose * Ia * X.toMatrix) :=
  ⟨L02.applyTranspose_eq X f, L02.congr_mulVec X Ia a, L02.congr_apply X Ia a,
   fun hs => L02.symSM_congr X hs⟩

end

section
variable {α : Type} [Field α] [DecidableEq α]

/-! ### (T2) the code-shaped loops -/

/-- (T2), joint by joint, with the structural facts as explicit hypotheses (`L02.Hyp`): for every
    body `i` and every coordinate `t` of its joint, `inverseDynamics` writes `tau` back. -/
theorem aba_inverts_rnea_joint (m : ModelS α) (w w2 : WS α) (st : QS α) (qd tau q0 t0 : VecN α)
    (fext : Option (Nat → SV α)) (H : Hyp m st qd fext w w2)
    (hpiv : ∀ i, 1 ≤ i → i < m.nBodies →
      pivotOk m (forwardDynamics m w st qd tau q0 fext).1 i) :
    ∀ i, 1 ≤ i → i < m.nBodies → ∀ t, t < (m.joint i).dof →
      (inverseDynamics m w2 st qd (forwardDynamics m w st qd tau q0 fext).2 t0 fext).2
          ((m.joint i).qIndex + t) = tau ((m.joint i).qIndex + t) :=
  L02.aba_inverts_rnea_joint m w w2 st qd tau q0 t0 fext H hpiv

/-- **(T2)** `inverseDynamics` of the accelerations of `forwardDynamics` is `tau`, for arbitrary
    workspaces `w`, `w2`, arbitrary initial contents `q0`, `t0` of the output vectors. -/
theorem aba_inverts_rnea (m : ModelS α) (hwf : m.WF) (w w2 : WS α) (st : QS α)
    (qd tau q0 t0 : VecN α) (fext : Option (Nat → SV α))
    (har : ∀ i, 1 ≤ i → i < m.nBodies → m.arity i = .one ∨ m.arity i = .three)
    (hvirt : ∀ i, 1 ≤ i → i < m.nBodies → (m.body i).isVirtual = true → m.rbi i = RBI.zero)
    (hag : ∀ i, 1 ≤ i → i < m.nBodies → jd (jcalc m w2 i st qd) i = jd (jcalc m w i st qd) i)
    (hx0 : fext = none ∨ w2.X_base 0 = XT.id)
    (hpiv : ∀ i, 1 ≤ i → i < m.nBodies →
      pivotOk m (forwardDynamics m w st qd tau q0 fext).1 i) :
    ∀ k, k < m.dofCount →
      (inverseDynamics m w2 st qd (forwardDynamics m w st qd tau q0 fext).2 t0 fext).2 k
        = tau k := by
  intro k hk
  obtain ⟨i, t, hi1, hi2, ht, rfl⟩ := wf_cover m hwf k hk
  exact L02.aba_inverts_rnea_joint m w w2 st qd tau q0 t0 fext
    ⟨hwf.lam_lt, har, hag, hvirt, fun i j _ h2 h3 => wf_qidx m hwf i j h2 h3, hx0⟩ hpiv
    i hi1 hi2 t ht

example (t0 : VecN Rat) : ∀ k, k < Ex.M.dofCount →
    (inverseDynamics Ex.M Ex.w2 Ex.st Ex.qd
      (forwardDynamics Ex.M Ex.w Ex.st Ex.qd Ex.tau Ex.q0 (some Ex.fe)).2 t0 (some Ex.fe)).2 k
      = Ex.tau k :=
  aba_inverts_rnea Ex.M Ex.M_wf Ex.w Ex.w2 Ex.st Ex.qd Ex.tau Ex.q0 t0 (some Ex.fe)
    Ex.M_ar Ex.M_virt Ex.M_agree (Or.inr Ex.w2_x0) Ex.M_piv

/-- (T2) when both routines run on the same workspace (`hag` is then trivial). -/
theorem aba_inverts_rnea_same_ws (m : ModelS α) (hwf : m.WF) (w : WS α) (st : QS α)
    (qd tau q0 t0 : VecN α) (fext : Option (Nat → SV α))
    (har : ∀ i, 1 ≤ i → i < m.nBodies → m.arity i = .one ∨ m.arity i = .three)
    (hvirt : ∀ i, 1 ≤ i → i < m.nBodies → (m.body i).isVirtual = true → m.rbi i = RBI.zero)
    (hx0 : fext = none ∨ w.X_base 0 = XT.id)
    (hpiv : ∀ i, 1 ≤ i → i < m.nBodies →
      pivotOk m (forwardDynamics m w st qd tau q0 fext).1 i) :
    ∀ k, k < m.dofCount →
      (inverseDynamics m w st qd (forwardDynamics m w st qd tau q0 fext).2 t0 fext).2 k
        = tau k :=
  aba_inverts_rnea m hwf w w st qd tau q0 t0 fext har hvirt (fun _ _ _ => rfl) hx0 hpiv

example (t0 : VecN Rat) : ∀ k, k < Ex.M.dofCount →
    (inverseDynamics Ex.M Ex.w Ex.st Ex.qd
      (forwardDynamics Ex.M Ex.w Ex.st Ex.qd Ex.tau Ex.q0 (some Ex.fe)).2 t0 (some Ex.fe)).2 k
      = Ex.tau k :=
  aba_inverts_rnea_same_ws Ex.M Ex.M_wf Ex.w Ex.st Ex.qd Ex.tau Ex.q0 t0 (some Ex.fe)
    Ex.M_ar Ex.M_virt (Or.inr rfl) Ex.M_piv

/-- (T2) when the two workspaces agree on the entries `jcalc` reads (`X_lambda`, `S`, `multdof3_S`,
    `v_J`, `c_J` of every body). -/
theorem aba_inverts_rnea_fields (m : ModelS α) (hwf : m.WF) (w w2 : WS α) (st : QS α)
    (qd tau q0 t0 : VecN α) (fext : Option (Nat → SV α))
    (har : ∀ i, 1 ≤ i → i < m.nBodies → m.arity i = .one ∨ m.arity i = .three)
    (hvirt : ∀ i, 1 ≤ i → i < m.nBodies → (m.body i).isVirtual = true → m.rbi i = RBI.zero)
    (hag : ∀ i, 1 ≤ i → i < m.nBodies →
      w2.X_lambda i = w.X_lambda i ∧ w2.S i = w.S i ∧ w2.S3 i = w.S3 i ∧ w2.v_J i = w.v_J i
        ∧ w2.c_J i = w.c_J i)
    (hx0 : fext = none ∨ w2.X_base 0 = XT.id)
    (hpiv : ∀ i, 1 ≤ i → i < m.nBodies →
      pivotOk m (forwardDynamics m w st qd tau q0 fext).1 i) :
    ∀ k, k < m.dofCount →
      (inverseDynamics m w2 st qd (forwardDynamics m w st qd tau q0 fext).2 t0 fext).2 k
        = tau k := by
  refine aba_inverts_rnea m hwf w w2 st qd tau q0 t0 fext har hvirt ?_ hx0 hpiv
  intro i h1 h2
  obtain ⟨e1, e2, e3, e4, e5⟩ := hag i h1 h2
  apply jcalc_jd_congr
  unfold jd
  rw [e1, e2, e3, e4, e5]

example (t0 : VecN Rat) : ∀ k, k < Ex.M.dofCount →
    (inverseDynamics Ex.M Ex.w Ex.st Ex.qd
      (forwardDynamics Ex.M Ex.w Ex.st Ex.qd Ex.tau Ex.q0 none).2 t0 none).2 k = Ex.tau k := by
  refine aba_inverts_rnea_fields Ex.M Ex.M_wf Ex.w Ex.w Ex.st Ex.qd Ex.tau Ex.q0 t0 none
    Ex.M_ar Ex.M_virt (fun _ _ _ => ⟨rfl, rfl, rfl, rfl, rfl⟩) (Or.inl rfl) ?_
  intro i h1 h2
  rw [Ex.M_n] at h2
  obtain rfl | rfl | rfl : i = 1 ∨ i = 2 ∨ i = 3 := by omega
  · exact pivotOk_one _ _ 1 (by decide +kernel) (by decide +kernel)
  · exact pivotOk_three _ _ 2 (by decide +kernel) (by decide +kernel)
  · exact pivotOk_one _ _ 3 (by decide +kernel) (by decide +kernel)

/-- (T2) on the workspace of the model, as in the C++ library: `inverseDynamics` runs on the
    workspace that `forwardDynamics` returned (`jcalc` is idempotent on the joint data, so no
    agreement hypothesis is needed). -/
theorem aba_inverts_rnea_model (m : ModelS α) (hwf : m.WF) (w : WS α) (st : QS α)
    (qd tau q0 t0 : VecN α) (fext : Option (Nat → SV α))
    (har : ∀ i, 1 ≤ i → i < m.nBodies → m.arity i = .one ∨ m.arity i = .three)
    (hvirt : ∀ i, 1 ≤ i → i < m.nBodies → (m.body i).isVirtual = true → m.rbi i = RBI.zero)
    (hx0 : fext = none ∨ w.X_base 0 = XT.id)
    (hpiv : ∀ i, 1 ≤ i → i < m.nBodies →
      pivotOk m (forwardDynamics m w st qd tau q0 fext).1 i) :
    ∀ k, k < m.dofCount →
      (inverseDynamics m (forwardDynamics m w st qd tau q0 fext).1 st qd
        (forwardDynamics m w st qd tau q0 fext).2 t0 fext).2 k = tau k := by
  refine aba_inverts_rnea m hwf w _ st qd tau q0 t0 fext har hvirt
    (fun i h1 h2 => forwardDynamics_agree m w st qd tau q0 fext i h1 h2) ?_ hpiv
  rcases hx0 with h | h
  · exact Or.inl h
  · exact Or.inr (by rw [(forwardDynamics_jd m w st qd tau q0 fext).2]; exact h)

example (t0 : VecN Rat) : ∀ k, k < Ex.M.dofCount →
    (inverseDynamics Ex.M (forwardDynamics Ex.M Ex.w Ex.st Ex.qd Ex.tau Ex.q0 (some Ex.fe)).1
      Ex.st Ex.qd (forwardDynamics Ex.M Ex.w Ex.st Ex.qd Ex.tau Ex.q0 (some Ex.fe)).2 t0
      (some Ex.fe)).2 k = Ex.tau k :=
  aba_inverts_rnea_model Ex.M Ex.M_wf Ex.w Ex.st Ex.qd Ex.tau Ex.q0 t0 (some Ex.fe)
    Ex.M_ar Ex.M_virt (Or.inr rfl) Ex.M_piv

/-! The hypotheses `hvirt` and `hx0` cannot be dropped: -/

/-- a virtual body with non-zero inertia: `inverseDynamics` ignores its body force -/
example : (inverseDynamics Ex.Mvirt Ex.w Ex.st Ex.qd
      (forwardDynamics Ex.Mvirt Ex.w Ex.st Ex.qd Ex.tau Ex.q0 none).2 Ex.t0 none).2 4
    ≠ Ex.tau 4 := by decide +kernel

/-- external forces and `X_base[0] ≠ 1` in the workspace of `inverseDynamics` -/
example : (inverseDynamics Ex.M Ex.w2bad Ex.st Ex.qd
      (forwardDynamics Ex.M Ex.w Ex.st Ex.qd Ex.tau Ex.q0 (some Ex.fe)).2 Ex.t0 (some Ex.fe)).2 1
    ≠ Ex.tau 1 := by decide +kernel

/-! ### (T3) `calcMInvTimesTau` -/

/-- **(T3)** `H * calcMInvTimesTau(τ) = τ` in RNEA form.  With `r = calcMInvTimesTau … true`:
    the accelerations in the returned workspace are those of `r.2` at zero velocity and zero
    gravity (`a_0 = 0`, `a_i = X_i a_λ(i) + S_i qdd_i` with the `X_lambda`, `S` of that workspace),
    and the backward pass of RNEA on the forces `f_i = I_i a_i` writes `tau`.  No hypothesis on the
    workspace, on `updateOrder` or on the bodies is needed. -/
theorem cmt_inverts_rnea (m : ModelS α) (hwf : m.WF) (w : WS α) (st : QS α)
    (tau q0 t0 : VecN α)
    (har : ∀ i, 1 ≤ i → i < m.nBodies → m.arity i = .one ∨ m.arity i = .three)
    (hpiv : ∀ i, 1 ≤ i → i < m.nBodies →
      pivotOk m (calcMInvTimesTau m w st tau q0 true).1 i) :
    let r := calcMInvTimesTau m w st tau q0 true
    (r.1.a 0 = SV.zero ∧ ∀ i, 1 ≤ i → i < m.nBodies →
        r.1.a i = (r.1.X_lambda i).apply (r.1.a (m.lam i)) + r.1.Sqdd m i r.2) ∧
    ∀ k, k < m.dofCount →
      (rneaBackward m { r.1 with f := fun j => (m.rbi j).toMatrix * r.1.a j } t0).2 k
        = tau k := by
  intro r
  have h := cmt_inverts_joint m w st tau q0 t0 hwf.lam_lt har
    (fun i j _ h2 h3 => wf_qidx m hwf i j h2 h3) hpiv
  refine ⟨h.1, ?_⟩
  intro k hk
  obtain ⟨i, t, hi1, hi2, ht, rfl⟩ := wf_cover m hwf k hk
  exact h.2 i hi1 hi2 t ht

set_option maxRecDepth 100000 in
example (t0 : VecN Rat) :
    let r := calcMInvTimesTau Ex.M Ex.w2 Ex.st Ex.tau Ex.q0 true
    (r.1.a 0 = SV.zero ∧ ∀ i, 1 ≤ i → i < Ex.M.nBodies →
        r.1.a i = (r.1.X_lambda i).apply (r.1.a (Ex.M.lam i)) + r.1.Sqdd Ex.M i r.2) ∧
    ∀ k, k < Ex.M.dofCount →
      (rneaBackward Ex.M { r.1 with f := fun j => (Ex.M.rbi j).toMatrix * r.1.a j } t0).2 k
        = Ex.tau k := by
  refine cmt_inverts_rnea Ex.M Ex.M_wf Ex.w2 Ex.st Ex.tau Ex.q0 t0 Ex.M_ar ?_
  intro i h1 h2
  rw [Ex.M_n] at h2
  obtain rfl | rfl | rfl : i = 1 ∨ i = 2 ∨ i = 3 := by omega
  · exact pivotOk_one _ _ 1 (by decide +kernel) (by decide +kernel)
  · exact pivotOk_three _ _ 2 (by decide +kernel) (by decide +kernel)
  · exact pivotOk_one _ _ 3 (by decide +kernel) (by decide +kernel)

end

/-! ### (T1) the pure recursions -/
section
variable {α : Type} [Field α]

/-- **(T1)** on an abstract tree (`L02.ATree`: bodies `1 … n`, children have larger indices), with
    `(IAfin_i, pAfin_i) = T.AB i`, the accelerations `T.accel` of the third loop and the
    accumulated RNEA forces `T.frc` for these accelerations (all defined by recursion on the body
    index): `f_i = IAfin_i a_i + pAfin_i` for every body. -/
theorem tree_force (T : ATree α) (i : Nat) :
    T.frc i = (T.AB i).1 * T.accel i + (T.AB i).2 := T.frc_eq i

/-- **(T1), joint space**: `S_iᵀ f_i = τ_i`, i.e. RNEA reproduces the joint torques, for symmetric
    body inertias and invertible pivots. -/
theorem tree_tau (T : ATree α) (hsym : ∀ j, SymSM (T.I j)) (i : Nat) (h1 : 1 ≤ i)
    (hl : T.lam i < i) (hp : T.pivot i (T.AB i).1) : T.jointEq i (T.frc i) :=
  T.frc_jointEq hsym i h1 hl hp

example : Ex.T.jointEq 1 (Ex.T.frc 1) ∧ Ex.T.jointEq 2 (Ex.T.frc 2) :=
  ⟨tree_tau Ex.T Ex.T_sym 1 (by decide) (by decide) Ex.T_piv1,
   tree_tau Ex.T Ex.T_sym 2 (by decide) (by decide) Ex.T_piv2⟩

end
end Rbdl.C02
