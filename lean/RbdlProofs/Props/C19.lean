import RbdlProofs.Lemmas.L19Names
import RbdlProofs.Lemmas.L19Parent
import RbdlProofs.Lemmas.L19Joint
import RbdlProofs.Lemmas.L19Gravity
import RbdlProofs.Lemmas.L19CS
import RbdlProofs.Lemmas.L19Ex
/-
  C19 — loading a model and its constraint sets from a Lua description yields the mechanism of
  the equivalent construction calls; the result depends on the description only.

  The loader model is `Rbdl.LuaLoad` (lean/Rbdl/LuaLoad.lean): `load` is code-shaped after
  `LuaModelReadFromTable`, `apiCalls` is the translation description → construction calls (ids
  predicted by counting, no model involved), `loadSet` follows
  `LuaModelReadConstraintsFromTable`.  Lemmas: RbdlProofs/Lemmas/L19*.lean.  Every theorem with
  hypotheses is followed by an `example` on the description `L19.Ex.leg` over `Rat`.
-/
namespace Rbdl.C19
open Lean.Grind Rbdl Rbdl.ModelS Rbdl.LuaLoad Rbdl.L19

section
variable {α : Type} [Field α] [DecidableEq α]

/-! ### 1. the loader is "issue these construction calls" -/

/-- 1. For every description — well-formed or not — the loader leaves the model and reports the
    outcome of issuing the translated calls `apiCalls d` in order on a fresh `Model` (an
    exception of the library ends the sequence; a malformed entry raises its error after the
    calls before it). -/
theorem load_eq_api (d : Desc α) : solo d = apiOutcome d := by
  have h := (loadFrames_eq d.frames _ TState.init (agree_init d.gravity)).1
  simp only [solo, load, loadInto, apiOutcome, apiCalls, parseErr, runApi_append_gravity]
  exact h

/-- 1'. On success the ids the library returned, frame by frame, are the ids the translator
    predicted by counting. -/
theorem load_ids (d : Desc α) (h : (load d).2 = .ok ()) : (load d).1.ids = frameIds d := by
  have h2 := (loadFrames_eq d.frames _ TState.init (agree_init d.gravity)).2 h
  simpa [load, loadInto, frameIds] using h2

example : (load Ex.leg).1.ids = frameIds Ex.leg := load_ids Ex.leg Ex.leg_ok
example : (apiCalls Ex.leg).length = 7 ∧ frameIds Ex.leg = [2, 3, fixedDisc, 6, 7, 8] := by
  decide +kernel
/-- a rejected call (duplicate name): the calls before it have taken effect, on both sides -/
example : (solo Ex.dupName).2 = .error (.api .duplicateName) ∧
    (solo Ex.dupName).1.bodies.length = 3 ∧ solo Ex.dupName = apiOutcome Ex.dupName :=
  ⟨by decide +kernel, by decide +kernel, load_eq_api _⟩

/-- 1''. Gravity: the description's, else the default of a fresh `Model`; whatever the outcome. -/
theorem load_gravity (d : Desc α) :
    (load d).1.m.gravity = d.gravity.getD (ModelS.init : ModelS α).gravity := by
  simp only [load, loadInto]
  rw [loadFrames_gravity]
  cases d.gravity <;> rfl

/-! ### 2. history freedom -/

/-- 2. With the name map local to the call (the code as it is) the loads of a process are
    independent: the `k`-th outcome is the outcome of loading the `k`-th file alone in a fresh
    process, for every sequence of files. -/
theorem load_history_free (ds : List (Desc α)) : process .perLoad ds = ds.map solo :=
  processFrom_perLoad ds []

theorem load_history_free_kth (ds : List (Desc α)) (k : Nat) :
    (process .perLoad ds)[k]? = (ds[k]?).map solo := by
  rw [load_history_free]; simp

/-- 2'. … in particular whatever was loaded before (`hist`) does not influence the next load. -/
theorem load_after_history (hist : List (Desc α)) (d : Desc α) :
    (process .perLoad (hist ++ [d])).getLast? = some (solo d) := by
  rw [load_history_free]; simp

/-- 2''. With the process-wide map (the code before the fix) this is false: after a file that
    defines "b3" as body 2, the frame "c2" of the next file — whose parent "b3" is not defined
    there — is attached to body 2 ("c1") instead of the base. -/
example : (process .global [Ex.earlier, Ex.dangling]).getLast?.map (fun r => r.1.lambda)
      = some [0, 0, 1, 2] ∧
    (solo Ex.dangling).1.lambda = [0, 0, 1, 0] ∧
    (process .perLoad [Ex.earlier, Ex.dangling]).getLast?.map (fun r => r.1.lambda)
      = some [0, 0, 1, 0] := by
  decide +kernel

/-! ### 3. which joint a `joint` table becomes, and that the mechanism is the one described -/

/-- 3a. no `joint` field or `joint = {}`: a fixed joint -/
theorem joint_absent : jointOf (.omitted : JointD α) = .ok fixedJoint ∧
    jointOf (.axes [] : JointD α) = .ok fixedJoint := ⟨rfl, rfl⟩

/-- 3b. one axis: `Joint(SpatialVector)`; exactly the three unit rotation axes select the
    specialised types, a pure translation a prismatic joint, anything else a helical joint -/
theorem joint_one (a : SV α) : jointOf (.axes [a]) = .ok (Joint.ofAxis a) ∧
    (Joint.ofAxis a).axes = [a] ∧
    ((a = sv6 1 0 0 0 0 0 ∧ (Joint.ofAxis a).jt = .revoluteX) ∨
     (a = sv6 0 1 0 0 0 0 ∧ (Joint.ofAxis a).jt = .revoluteY) ∨
     (a = sv6 0 0 1 0 0 0 ∧ (Joint.ofAxis a).jt = .revoluteZ) ∨
     (a.w = V3.zero ∧ (Joint.ofAxis a).jt = .prismatic) ∨
     (a.w ≠ V3.zero ∧ (Joint.ofAxis a).jt = .helical)) :=
  ⟨rfl, rfl, ofAxis_cases a⟩

/-- 3c. two to six axes: the emulated multi-DoF joint with these axes; more: rejected.  (The
    loader does not look for Euler / translation patterns: `{z, y, x}` stays an emulated 3-DoF
    joint.) -/
theorem joint_many (l : List (SV α)) (h2 : 2 ≤ l.length) :
    jointOf (.axes l) = if l.length ≤ 6 then .ok (Joint.ofAxes l) else .error .badJointDofs := by
  rcases l with _ | ⟨a, _ | ⟨b, r⟩⟩
  · simp at h2
  · simp at h2
  · rfl

example : jointOf (.axes [sv6 0 0 1 0 0 0, sv6 0 1 0 0 0 0, sv6 (1 : Rat) 0 0 0 0 0]) =
    .ok (Joint.ofAxes [sv6 0 0 1 0 0 0, sv6 0 1 0 0 0 0, sv6 1 0 0 0 0 0]) :=
  joint_many _ (by decide)

/-- 3d. the six type names; every other string is rejected (`"JointTypeEulerZXY"` too) -/
theorem joint_named :
    jointOf (.named "JointTypeSpherical" : JointD α) = (Joint.ofType .spherical).elim (.error .badJoint) .ok ∧
    jointOf (.named "JointTypeEulerZYX" : JointD α) = (Joint.ofType .eulerZYX).elim (.error .badJoint) .ok ∧
    jointOf (.named "JointTypeEulerXYZ" : JointD α) = (Joint.ofType .eulerXYZ).elim (.error .badJoint) .ok ∧
    jointOf (.named "JointTypeEulerYXZ" : JointD α) = (Joint.ofType .eulerYXZ).elim (.error .badJoint) .ok ∧
    jointOf (.named "JointTypeTranslationXYZ" : JointD α) =
      (Joint.ofType .translationXYZ).elim (.error .badJoint) .ok ∧
    jointOf (.named "JointTypeFloatingBase" : JointD α) =
      (Joint.ofType .floatingBase).elim (.error .badJoint) .ok ∧
    jointOf (.named "JointTypeEulerZXY" : JointD α) = .error .badJoint ∧
    (∀ s, namedType s = none → jointOf (.named s : JointD α) = .error .badJoint) := by
  refine ⟨rfl, rfl, rfl, rfl, rfl, rfl, rfl, ?_⟩
  intro s hs
  simp only [jointOf, hs]

/-- 3e. One axis, mechanism: whichever of the five types was selected, after
    `jcalc_X_lambda_S` the joint's transform is the screw about the given axis
    (`Xrot(q, a.w) Xtrans(q a.v)`; pure translation: `Xtrans(q a.v)`) and its motion subspace
    column is `(a.w, E_J a.v)` — which is `a` itself for all but the helical type.  So the
    specialised types `RevoluteX/Y/Z` are the general joint about that axis. -/
theorem one_axis_mechanism (m : ModelS α) (i k : Nat) (hi : i ≠ 0) (a : SV α) (st : QS α)
    (hj : m.joint i = { Joint.ofAxis a with qIndex := k }) :
    let w' := jcalcXlambdaS m (initWS m) i st
    let XJ : XT α := if a.w = V3.zero then Xtrans (st.q k * a.v)
                     else Xrot (st.c k) (st.s k) a.w * Xtrans (st.q k * a.v)
    w'.X_lambda i = XJ * m.XT_ i ∧ w'.S i = ⟨a.w, XJ.E * a.v⟩ ∧
    ((Joint.ofAxis a).jt ≠ .helical → w'.S i = a) :=
  jcalc_ofAxis m i k hi a st hj

/-- 3e'. A proper helical joint (unit rotation axis, translation along it) has the column `a`
    as well. -/
theorem helical_mechanism (m : ModelS α) (i k : Nat) (hi : i ≠ 0) (a : SV α) (st : QS α)
    (hj : m.joint i = { Joint.ofAxis a with qIndex := k })
    (hu : a.w.x * a.w.x + a.w.y * a.w.y + a.w.z * a.w.z = 1) (h : α) (hp : a.v = h * a.w) :
    (jcalcXlambdaS m (initWS m) i st).S i = a :=
  jcalc_ofAxis_helical m i k hi a st hj hu h hp

/-- the hip of `Ex.leg` (body 3, coordinate 6) is such a joint: a `RevoluteX` -/
example : (load Ex.leg).1.m.joint 3 = { Joint.ofAxis (sv6 1 0 0 0 0 0) with qIndex := 6 } := by
  decide +kernel
example (st : QS Rat) :
    (jcalcXlambdaS (load Ex.leg).1.m (initWS (load Ex.leg).1.m) 3 st).S 3 = sv6 1 0 0 0 0 0 :=
  (one_axis_mechanism (load Ex.leg).1.m 3 6 (by decide) (sv6 1 0 0 0 0 0) st (by decide +kernel)).2.2
    (by decide +kernel)
/-- a helical joint with pitch 1/2 about the unit axis (3/5, 0, 4/5) -/
example (m : ModelS Rat) (st : QS Rat)
    (hj : m.joint 1 = { Joint.ofAxis (⟨⟨3/5, 0, 4/5⟩, ⟨3/10, 0, 2/5⟩⟩ : SV Rat) with qIndex := 0 }) :
    (jcalcXlambdaS m (initWS m) 1 st).S 1 = ⟨⟨3/5, 0, 4/5⟩, ⟨3/10, 0, 2/5⟩⟩ :=
  helical_mechanism m 1 0 (by decide) _ st hj (by decide +kernel) (1/2) (by decide +kernel)

/-- 3f. Two to six axes, mechanism: `AddBody` expands the joint into the chain of
    `Joint(SpatialVector a_k)` joints through massless bodies — the joints appended to the model
    have, in order, the types and axes of the one-axis joints (to each of which 3e applies). -/
theorem many_axes_mechanism (m m' : ModelS α) (p : Nat) (X : XT α) (l : List (SV α)) (b : Body α)
    (n : String) (id : Nat) (h2 : 2 ≤ l.length) (h6 : l.length ≤ 6)
    (h : m.addBody p X (Joint.ofAxes l) b n = (m', .ok id)) :
    m'.joints.map (fun j => (j.jt, j.axes)) =
      m.joints.map (fun j => (j.jt, j.axes)) ++ l.map (fun a => ((Joint.ofAxis a).jt, [a])) := by
  rw [addBody_ofAxes m p X l b n h2 h6] at h
  split at h
  · cases h
  · exact addChain_joints b n l m p X m' id h

/-- the knee of `Ex.leg`: bodies 4, 5, 6 are RevoluteZ, RevoluteY, RevoluteX with these axes -/
example : (((load Ex.leg).1.m.joints.drop 4).take 3).map (fun j => (j.jt, j.axes)) =
    [(.revoluteZ, [sv6 0 0 1 0 0 0]), (.revoluteY, [sv6 0 1 0 0 0 0]), (.revoluteX, [sv6 1 0 0 0 0 0])] := by
  decide +kernel
example : ((ModelS.init : ModelS Rat).addBody 0 XT.id (Joint.ofAxes [sv6 0 0 1 0 0 0, sv6 0 0 0 1 0 0])
    ⟨1, V3.zero, M3.one, false⟩ "b").2 = .ok 2 := by decide +kernel

omit [DecidableEq α] in
/-- 3g. The named Euler / translation joints: at the zero configuration their motion subspace
    consists of the axes their constructor stores, in order (`jcalc` code-shaped formulas). -/
theorem named_mechanism (t : JT) (j : Joint α) (hj : Joint.ofType t = some j)
    (ht : t = .eulerZYX ∨ t = .eulerXYZ ∨ t = .eulerYXZ ∨ t = .translationXYZ) :
    (match t with
     | .eulerZYX => eulerZYX_S M63.zero 1 0 1 0
     | .eulerXYZ => eulerXYZ_S M63.zero 1 0 1 0
     | .eulerYXZ => eulerYXZ_S M63.zero 1 0 1 0
     | _ => translationS (M63.zero : M63 α)).cols = j.axes :=
  named_S_zero t j hj ht

example : (eulerYXZ_S (M63.zero : M63 Rat) 1 0 1 0).cols =
    [sv6 0 1 0 0 0 0, sv6 1 0 0 0 0 0, sv6 0 0 1 0 0 0] :=
  named_mechanism .eulerYXZ _ rfl (by decide)

omit [DecidableEq α] in
/-- 3h. defaults of `joint_frame` and `body` -/
theorem frame_defaults (r : V3 α) (E : M3 α) :
    frameOf (none : Option (FrameD α)) = XT.id ∧
    frameOf (some ⟨none, none⟩ : Option (FrameD α)) = XT.id ∧
    frameOf (some ⟨some r, none⟩) = ⟨M3.one, r⟩ ∧
    frameOf (some ⟨none, some E⟩) = ⟨E, V3.zero⟩ ∧
    frameOf (some ⟨some r, some E⟩) = ⟨E, r⟩ := ⟨rfl, rfl, rfl, rfl, rfl⟩

omit [DecidableEq α] in
theorem body_defaults (ms : α) (c : V3 α) (I : M3 α) :
    bodyOf (none : Option (BodyD α)) = .ok ⟨0, V3.zero, M3.zero, false⟩ ∧
    bodyOf (some ⟨some ms, none, none⟩) = .ok ⟨ms, V3.zero, M3.one, false⟩ ∧
    bodyOf (some ⟨some ms, some c, none⟩) = .ok ⟨ms, c, M3.one, false⟩ ∧
    bodyOf (some ⟨some ms, none, some I⟩) = .ok ⟨ms, V3.zero, I, false⟩ ∧
    bodyOf (some ⟨some ms, some c, some I⟩) = .ok ⟨ms, c, I, false⟩ ∧
    bodyOf (some ⟨none, some c, some I⟩ : Option (BodyD α)) = .error .missingValue :=
  ⟨rfl, rfl, rfl, rfl, rfl, rfl⟩

/-! ### 4. structure of the loaded model -/

/-- 4a. Whatever the description and the outcome, the loader leaves a well-formed model
    (`ModelS.WF`, property C14) — the parent ids it passes are always ids of the model.  (The
    bound keeps the fixed-body ids inside the unsigned range.) -/
theorem load_wf (d : Desc α) (hn : d.frames.length ≤ fixedDisc) : (load d).1.m.WF := by
  have h := loadFrames_inv d.frames _ (inv_init d.gravity)
    (by cases d.gravity <;> (simp only [setGravity, ModelS.init, List.length_nil]; omega))
  exact h.wf

example : (load Ex.leg).1.m.WF := load_wf Ex.leg (by decide)
example : (load Ex.dupName).1.m.WF := load_wf Ex.dupName (by decide)

/-- 4b. Ids in frame order: the `k`-th frame gets, if its joint is fixed, the fixed-body id
    `fixedDisc + (number of fixed frames before it)`, otherwise the id of the last of all
    movable bodies created up to and including it (`Joint.newBodies`: 1, 2 for the floating
    base, the number of axes for an emulated joint). -/
theorem ids_closed_form (d : Desc α) (h : (load d).2 = .ok ()) (k : Nat) (j : Joint α)
    (hj : (jointsOf d.frames)[k]? = some j) :
    (load d).1.ids[k]? = some
      (if j.jt = .fixed then fixedDisc + nFixed ((jointsOf d.frames).take k)
       else nMovable ((jointsOf d.frames).take (k + 1))) := by
  have hpe : parseErr d = none := by
    have h1 := load_eq_api d
    have h2 : (apiOutcome d).2 = .ok () := by rw [← h1]; exact h
    simp only [apiOutcome, combine] at h2
    split at h2
    · cases h2
    · split at h2
      · cases h2
      · assumption
  rw [load_ids d h]
  have hc : frameIds d = idsFrom 1 0 (jointsOf d.frames) :=
    (frameCalls_ids d.frames TState.init hpe).1
  rw [hc, idsFrom_closed _ 1 0 k j hj]
  split
  · simp
  · congr 1; omega

example : (load Ex.leg).1.ids[3]? = some 6 ∧ (load Ex.leg).1.ids[2]? = some fixedDisc := by
  have h3 := ids_closed_form Ex.leg Ex.leg_ok 3 (Joint.ofAxes [sv6 0 0 1 0 0 0, sv6 0 1 0 0 0 0, sv6 1 0 0 0 0 0])
    (by decide +kernel)
  have h2 := ids_closed_form Ex.leg Ex.leg_ok 2 fixedJoint (by decide +kernel)
  exact ⟨by rw [h3]; decide +kernel, by rw [h2]; decide +kernel⟩

/-- 4c. Name lookup: after a successful load `GetBodyId(name)` of every named frame — fixed
    ones included — is the id `AddBody` returned for it; names of the description are pairwise
    distinct (a duplicate makes the load fail). -/
theorem name_lookup (d : Desc α) (hn : d.frames.length ≤ fixedDisc) (h : (load d).2 = .ok ())
    (k : Nat) (f : FrameEntry α) (id : Nat) (hf : d.frames[k]? = some f)
    (hid : (load d).1.ids[k]? = some id) (hne : f.name ≠ "") :
    (load d).1.m.getBodyId f.name = id ∧ (id = 0 ∨ (load d).1.m.isBodyId id = true) := by
  obtain ⟨l, hl, -, hrec⟩ := loadFrames_recorded d.frames
    ⟨setGravity ModelS.init d.gravity, mapSet [] "ROOT" 0, []⟩ h
  have hids : (load d).1.ids = l := by simpa [load, loadInto] using hl
  rw [hids] at hid
  have hmem := hrec k f id hf hid hne
  exact C14.names_resolve _ (load_wf d hn) (f.name, id) hmem

example : (load Ex.leg).1.m.getBodyId "imu" = fixedDisc ∧ (load Ex.leg).1.m.getBodyId "shank" = 6 :=
  ⟨(name_lookup Ex.leg (by decide) Ex.leg_ok 2 _ fixedDisc rfl (by decide +kernel) (by decide)).1,
   (name_lookup Ex.leg (by decide) Ex.leg_ok 3 _ 6 rfl (by decide +kernel) (by decide)).1⟩
example : (load Ex.leg).1.m.getBodyId "ROOT" = 0 ∧
    (load Ex.leg).1.m.getBodyId "nosuchbody" = 4294967295 := by decide +kernel

/-- 4d. Parents and joint frames: in the model a successful load leaves behind, for the `k`-th
    construction call `AddBody(pid, X, j, …)` (its `pid` is the id of the latest earlier frame
    carrying the parent name, 0 for "ROOT" or a name not defined in the file — by definition of
    `apiCalls`) and the id `id` of that frame:
    * a one-body joint: `lambda[id]` is the movable parent of `pid` (`pid` itself, or the body a
      fixed `pid` is merged into), `X_T[id]` is `X` composed with the fixed parent's transform,
      and joint `id` has the type and axes of `j`;
    * a fixed joint: the fixed body is recorded with that movable parent and transform.
    (Chains: 3f; the first link is attached like a one-body joint.) -/
theorem parent_of_frame (d : Desc α) (hn : d.frames.length ≤ fixedDisc) (h : (load d).2 = .ok ())
    (hnb : (load d).1.m.bodies.length ≤ fixedDisc)
    (k pid : Nat) (X : XT α) (j : Joint α) (b : Body α) (n : String) (id : Nat)
    (hcall : (frameCalls TState.init d.frames).1[k]? = some (.addBody pid X j b n))
    (hid : (frameIds d)[k]? = some id) :
    (j.jt.kind = .single →
      (load d).1.m.lam id = (load d).1.m.mpOf pid ∧
      (load d).1.m.XT_ id = X * (load d).1.m.mpXOf pid ∧
      ((load d).1.m.joint id).jt = j.jt ∧ ((load d).1.m.joint id).axes = j.axes) ∧
    (j.jt = .fixed →
      ((load d).1.m.fixedBody (id - fixedDisc)).movableParent = (load d).1.m.mpOf pid ∧
      ((load d).1.m.fixedBody (id - fixedDisc)).parentTransform = (load d).1.m.fpXOf pid X) :=
  loadFrames_parents d.frames _ TState.init (agree_init d.gravity) (inv_init d.gravity)
    (by cases d.gravity <;> (simp only [setGravity, ModelS.init, List.length_nil]; omega))
    h hnb k pid X j b n id hcall hid

/-- the foot of `Ex.leg` (frame 4, id 7) names the fixed "imu" as parent: it hangs below the
    thigh (3), with the IMU's transform in its joint frame; the IMU itself is merged into 3 -/
example : (load Ex.leg).1.m.lam 7 = 3 ∧ (load Ex.leg).1.m.XT_ 7 = ⟨Ex.Ez, V3.zero⟩ ∧
    ((load Ex.leg).1.m.fixedBody 0).movableParent = 3 := by
  have h4 := (parent_of_frame Ex.leg (by decide) Ex.leg_ok (by decide +kernel) 4 fixedDisc XT.id
    ⟨.eulerYXZ, [sv6 0 1 0 0 0 0, sv6 1 0 0 0 0 0, sv6 0 0 1 0 0 0], 3, 0, noCustom⟩
    ⟨1, V3.zero, M3.one, false⟩ "foot" 7 (by decide +kernel) (by decide +kernel)).1 (by decide)
  have h2 := (parent_of_frame Ex.leg (by decide) Ex.leg_ok (by decide +kernel) 2 3 ⟨Ex.Ez, V3.zero⟩
    fixedJoint ⟨1/10, V3.zero, M3.one, false⟩ "imu" fixedDisc (by decide +kernel) (by decide +kernel)).2 rfl
  refine ⟨?_, ?_, ?_⟩
  · rw [h4.1]; decide +kernel
  · rw [h4.2.1]; decide +kernel
  · have := h2.1; simp only [Nat.sub_self] at this; rw [this]; decide +kernel

end

/-! ### 5. constraint sets -/
section
variable {α : Type} [Field α] [DecidableEq α] [LE α] [DecidableLE α]

/-- 5a. Reading a set is issuing the translated `AddContactConstraint` / `AddLoopConstraint`
    calls of its entries, in table order, on an empty `ConstraintSet`: whatever the outcome the
    set left behind is the fold of the calls of the entries before the first malformed one; the
    read succeeds iff every entry is well-formed. -/
theorem loadSet_eq_calls (m : ModelS α) (d : Desc α) (name : String) (cs : List (ConstrD α))
    (hs : d.csets.find? (fun p => p.1 == name) = some (name, cs)) :
    (loadSet m d name).1 = runCs LCSet.empty (setCalls m cs) ∧
    ((loadSet m d name).2 = .ok () ↔ ∀ c ∈ cs, ∃ l, constrCalls m c = .ok l) := by
  simp only [loadSet, hs]
  exact loadConstrs_eq m cs LCSet.empty

omit [LE α] [DecidableLE α] in
/-- 5b. One row of `G` and one entry of the `name` vector per call, in call order. -/
theorem rows_and_names (C : LCSet α) (calls : List (CsCall α)) :
    (runCs C calls).cs.size = C.cs.size + calls.length ∧
    (runCs C calls).names = C.names ++ calls.map CsCall.name :=
  runCs_size_names calls C

omit [DecidableEq α] in
/-- 5c. A well-formed entry is translated to `1 + k` calls of one kind with common arguments —
    a contact entry: one per normal (`normal_sets` wins over `normal`) on the named body at
    `point` (default 0); a loop entry: one per axis between the named bodies with the given
    frames (default identity) and stabilisation — all carrying the entry's `name`. -/
theorem entry_calls (m : ModelS α) (c : ConstrD α) (calls : List (CsCall α))
    (h : constrCalls m c = .ok calls) :
    (∃ e : Entry α, calls = e.calls) ∧ ∀ x ∈ calls, x.name = c.name :=
  constrCalls_entry m c calls h

omit [LE α] [DecidableLE α] in
/-- 5d. Grouping: an entry that does not continue the last group of its type becomes ONE group
    holding its normals / axes in table order, at the next free row, with the body ids, frames,
    user id (and, for loops, the stabilisation flag and `1 / stabilization_parameter`) of the
    entry. -/
theorem entry_group (C : LCSet α) (e : Entry α) (hf : e.Fresh C.cs) :
    (runCs C e.calls).cs = ⟨C.cs.cs ++ [e.group C.cs.size], C.cs.size + e.rows⟩ :=
  entry_run C e hf

omit [LE α] [DecidableLE α] in
/-- 5e. Table order, groups: if no entry continues the group of the entry before it (the only
    group an entry can continue, see `Entry.Fresh`: same body / point / id *and* rows ending at
    `size`), the set consists of one group per entry, in table order, each starting at the row
    where the previous one ends.  (Rows without any hypothesis: 5f.) -/
theorem set_in_table_order (es : List (Entry α)) (C : LCSet α) (hf : FreshSeq C.cs es) :
    (runCs C (es.flatMap Entry.calls)).cs =
      ⟨C.cs.cs ++ groupsFrom C.cs.size es, C.cs.size + (es.map Entry.rows).sum⟩ :=
  entries_in_order es C hf

end

/-- the set "stance" of `Ex.leg`: three well-formed entries, 3 + 2 + 1 rows, names per row … -/
example : (loadWithSet Ex.leg "stance").2.2 = .ok () ∧
    (loadWithSet Ex.leg "stance").2.1.cs.size = 6 ∧
    (loadWithSet Ex.leg "stance").2.1.names = ["heel", "heel", "heel", "strut", "strut", ""] ∧
    (loadWithSet Ex.leg "stance").2.1.cs.cs.map (fun c => (c.ctype, c.row, c.T.length, c.bodyP, c.bodyS))
      = [(.contact, 0, 3, 7, 0), (.loop, 3, 2, 3, 7), (.contact, 5, 1, 7, 0)] ∧
    (loadWithSet Ex.leg "stance").2.1.cs.cs.map (fun c => (c.userId, c.baumgarte, c.bgA))
      = [(7, false, 10), (noUserId, true, 5), (noUserId, false, 10)] := by
  decide +kernel
example : (loadSet (load Ex.leg).1.m Ex.leg "stance").1 =
      runCs LCSet.empty (setCalls (load Ex.leg).1.m (Ex.leg.csets.headD ("", [])).2) :=
  (loadSet_eq_calls (load Ex.leg).1.m Ex.leg "stance" _ rfl).1
/-- … and its three entries are `Entry`s that do not continue one another (5e applies) -/
example : FreshSeq (CSet.empty : CSet Rat)
    [.contact 7 ⟨1/10, 0, 0⟩ ⟨1, 0, 0⟩ [⟨0, 1, 0⟩, ⟨0, 0, 1⟩] "heel" 7,
     .loop 3 7 ⟨M3.one, ⟨0, 0, 1⟩⟩ XT.id (sv6 0 0 0 1 0 0) [sv6 0 0 0 0 1 0] true (1/5) "strut" noUserId,
     .contact 7 V3.zero ⟨0, 0, 1⟩ [] "" noUserId] := by
  decide +kernel
example : (LCSet.empty : LCSet Rat).cs.lastOf .contact = none ∧
    Entry.Fresh (LCSet.empty : LCSet Rat).cs (.contact 7 ⟨1/10, 0, 0⟩ ⟨1, 0, 0⟩ [⟨0, 1, 0⟩] "heel" 7) := by
  decide +kernel

/-- 5f. Unconditionally (with the repaired grouping rule of `AddContactConstraint` /
    `AddLoopConstraint`: a call is merged only into a group whose rows are the last rows of the
    system): whatever the entries — continuing the previous group or not — the rows of the system
    are one row per call, in table order (`axesOf` lists type and axis of every row; the set stays
    contiguous, `L09.Contig`, so its `i`-th element is row `i` of `G`), and `size` is their number. -/
theorem rows_in_table_order {α : Type} [Field α] [DecidableEq α] (calls : List (CsCall α)) :
    axesOf (runCs LCSet.empty calls).cs = calls.map callRow ∧
    L09.Inv (runCs LCSet.empty calls).cs ∧ L09.Contig (runCs LCSet.empty calls).cs := by
  have h := rows_in_order calls LCSet.empty L09.inv_empty L09.contig_empty
  simpa [axesOf, LCSet.empty, CSet.empty] using h

/-- a contact entry equal to an earlier one *across* a loop entry is no longer appended to the
    earlier group (before the repair: groups (contact, row 0, 2 normals), (loop, row 1) with
    overlapping rows): three groups at rows 0, 1, 2, rows in call order -/
example : ((runCs (LCSet.empty : LCSet Rat)
      [.addContact 2 V3.zero ⟨1, 0, 0⟩ "" noUserId,
       .addLoop 2 3 XT.id XT.id (sv6 0 0 0 0 0 1) false (1/10) "" noUserId,
       .addContact 2 V3.zero ⟨0, 1, 0⟩ "" noUserId]).cs.cs.map (fun c => (c.ctype, c.row, c.T.length)))
    = [(.contact, 0, 1), (.loop, 1, 1), (.contact, 2, 1)] := by decide +kernel
/-- adjacent equal contact entries still share a group (5e's hypothesis excludes exactly this) -/
example : ((runCs (LCSet.empty : LCSet Rat)
      [.addContact 2 V3.zero ⟨1, 0, 0⟩ "a" noUserId,
       .addContact 2 V3.zero ⟨0, 1, 0⟩ "b" noUserId]).cs.cs.map (fun c => (c.ctype, c.row, c.T.length)))
    = [(.contact, 0, 2)] := by decide +kernel

end Rbdl.C19
