import RbdlProofs.Lemmas.Rot
/- C19 — property theorems (being filled in) -/
namespace Rbdl.C19
open Lean.Grind Rbdl
variable {α : Type} [CommRing α]
theorem placeholder_rot_one : (M3.one : M3 α).IsRot := M3.isRot_one
end Rbdl.C19
