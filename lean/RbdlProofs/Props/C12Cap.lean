import RbdlProofs.Lemmas.LDynCapCom5
import RbdlProofs.Lemmas.LDynCapBuild
import RbdlProofs.Lemmas.LDynCapEx
/-
  C12, capstone — **`CalcCenterOfMass`, `CalcPotentialEnergy`, `CalcZeroMomentPoint` equal their
  first-principles specifications.**

  Specification side (`Rbdl/Spec/Mech.lean`): `Spec.totalMass`, `Spec.com`, `Spec.comVelocity`,
  `Spec.comAcceleration` (`Σ m_i c_i / M` and its derivatives along the trajectory, from the pose jets of
  the forward kinematics), `Spec.angularMomentum` (about the centre of mass, and its rate),
  `Spec.potentialEnergy`; the zero-moment point `LDynCap.zmpSpec`: net contact force `f = M (C̈ − g)`, net
  contact moment about the base origin `n₀ = L̇_C + C × f`, the point of the plane about which the contact
  wrench has no tangential moment (C12 `zmp_on_plane`, `zmp_no_tangential_moment`, `zmp_unique`).
  Code side: `Rbdl/Utils.lean`, update flag `true`, every `WSFixed` workspace.

  Convention (mirrors the C++): bodies fixed to the base do not count towards the whole-body quantities
  (`SNode.counts`).  Notions as in `Props/C01Cap.lean`, `Props/C03Cap.lean` (`VirtZero`).
  `ModelOK`, `StateOK`, `2 ≠ 0` as in C01Cap; `totalMass M ≠ 0` for the zero-moment point (the routine
  divides by the mass).
-/
namespace Rbdl.C12Cap
open Lean.Grind Rbdl Rbdl.Spec Rbdl.L01Cap Rbdl.LDynCap
variable {α : Type} [Field α] [DecidableEq α]

/-! ### `CalcCenterOfMass` -/

/-- **`CalcCenterOfMass`: mass, centre of mass, its velocity, angular momentum about it** equal
    `Spec.totalMass`, `Spec.com`, `Spec.comVelocity`, `Spec.angularMomentum` — arbitrary trees with
    fixed bodies, every joint type, every `WSFixed` workspace, with or without accelerations
    (`qdd = none`: the specification state may carry any acceleration `qdd'`) -/
theorem calcCenterOfMass_eq_spec_fixed {m : ModelS α} {M : SModel α} {off : Nat → XT α} {nodeOf : Nat → Nat}
    (hm : ModelOK m) (hR : RefinesF m M off nodeOf) (h2 : (2 : α) ≠ 0) (w : WS α)
    (hw : WSFixed m w) (st : QS α) (hst : StateOK m st) (qd : VecN α)
    (qdd : Option (VecN α)) (qdd' : VecN α) (hq : qdd = none ∨ qdd = some qdd') (wantAcc : Bool) :
    (calcCenterOfMass m w st qd qdd wantAcc true).2.mass = totalMass M ∧
    (calcCenterOfMass m w st qd qdd wantAcc true).2.com = com M (stateOf st qd qdd') ∧
    (calcCenterOfMass m w st qd qdd wantAcc true).2.comVel = comVelocity M (stateOf st qd qdd') ∧
    (calcCenterOfMass m w st qd qdd wantAcc true).2.angMom
      = (angularMomentum M (stateOf st qd qdd')).1 :=
  com_outputs_spec hm (link_of_refinesF hm hR) h2 w hw st hst qd qdd qdd' hq wantAcc

/-- … without fixed bodies (`Refines`) -/
theorem calcCenterOfMass_eq_spec {m : ModelS α} {M : SModel α} (hm : ModelOK m) (hR : Refines m M)
    (hv : VirtZero m) (h2 : (2 : α) ≠ 0) (w : WS α) (hw : WSFixed m w) (st : QS α)
    (hst : StateOK m st) (qd : VecN α)
    (qdd : Option (VecN α)) (qdd' : VecN α) (hq : qdd = none ∨ qdd = some qdd') (wantAcc : Bool) :
    (calcCenterOfMass m w st qd qdd wantAcc true).2.mass = totalMass M ∧
    (calcCenterOfMass m w st qd qdd wantAcc true).2.com = com M (stateOf st qd qdd') ∧
    (calcCenterOfMass m w st qd qdd wantAcc true).2.comVel = comVelocity M (stateOf st qd qdd') ∧
    (calcCenterOfMass m w st qd qdd wantAcc true).2.angMom
      = (angularMomentum M (stateOf st qd qdd')).1 :=
  com_outputs_spec hm (link_of_refines hm hR hv) h2 w hw st hst qd qdd qdd' hq wantAcc

/-- end to end: construction calls in (fixed bodies, floating bases, custom joints) -/
theorem calcCenterOfMass_eq_spec_constructedF (ops : List (Op α)) (hg : goodRunF (ModelS.init : ModelS α) ops)
    (h2 : (2 : α) ≠ 0) (w : WS α) (hw : WSFixed ((ModelS.init : ModelS α).run ops) w) (st : QS α)
    (hst : StateOK ((ModelS.init : ModelS α).run ops) st) (qd : VecN α)
    (qdd : Option (VecN α)) (qdd' : VecN α) (hq : qdd = none ∨ qdd = some qdd') (wantAcc : Bool) :
    (calcCenterOfMass ((ModelS.init : ModelS α).run ops) w st qd qdd wantAcc true).2.mass = totalMass (specOf ops) ∧
    (calcCenterOfMass ((ModelS.init : ModelS α).run ops) w st qd qdd wantAcc true).2.com = com (specOf ops) (stateOf st qd qdd') ∧
    (calcCenterOfMass ((ModelS.init : ModelS α).run ops) w st qd qdd wantAcc true).2.comVel = comVelocity (specOf ops) (stateOf st qd qdd') ∧
    (calcCenterOfMass ((ModelS.init : ModelS α).run ops) w st qd qdd wantAcc true).2.angMom
      = (angularMomentum (specOf ops) (stateOf st qd qdd')).1 :=
  have h := refinesF_by_construction ops hg
  calcCenterOfMass_eq_spec_fixed h.1 h.2 h2 w hw st hst qd qdd qdd' hq wantAcc

theorem calcCenterOfMass_eq_spec_constructed (ops : List (Op α)) (hg : goodRun (ModelS.init : ModelS α) ops)
    (h2 : (2 : α) ≠ 0) (w : WS α) (hw : WSFixed ((ModelS.init : ModelS α).run ops) w) (st : QS α)
    (hst : StateOK ((ModelS.init : ModelS α).run ops) st) (qd : VecN α)
    (qdd : Option (VecN α)) (qdd' : VecN α) (hq : qdd = none ∨ qdd = some qdd') (wantAcc : Bool) :
    (calcCenterOfMass ((ModelS.init : ModelS α).run ops) w st qd qdd wantAcc true).2.mass = totalMass (specOf ops) ∧
    (calcCenterOfMass ((ModelS.init : ModelS α).run ops) w st qd qdd wantAcc true).2.com = com (specOf ops) (stateOf st qd qdd') ∧
    (calcCenterOfMass ((ModelS.init : ModelS α).run ops) w st qd qdd wantAcc true).2.comVel = comVelocity (specOf ops) (stateOf st qd qdd') ∧
    (calcCenterOfMass ((ModelS.init : ModelS α).run ops) w st qd qdd wantAcc true).2.angMom
      = (angularMomentum (specOf ops) (stateOf st qd qdd')).1 :=
  have h := refines_by_construction ops hg
  calcCenterOfMass_eq_spec h.1 h.2 (virtZero_by_construction ops hg) h2 w hw st hst qd qdd qdd' hq wantAcc

/-- **`CalcCenterOfMass`: acceleration of the centre of mass and rate of the angular momentum**
    (accelerations given and wanted) equal `Spec.comAcceleration`, `(Spec.angularMomentum …).2` -/
theorem calcCenterOfMass_acc_eq_spec_fixed {m : ModelS α} {M : SModel α} {off : Nat → XT α} {nodeOf : Nat → Nat}
    (hm : ModelOK m) (hR : RefinesF m M off nodeOf) (h2 : (2 : α) ≠ 0) (w : WS α)
    (hw : WSFixed m w) (st : QS α) (hst : StateOK m st) (qd qdd : VecN α) :
    (calcCenterOfMass m w st qd (some qdd) true true).2.comAcc
      = comAcceleration M (stateOf st qd qdd) ∧
    (calcCenterOfMass m w st qd (some qdd) true true).2.angMomDot
      = (angularMomentum M (stateOf st qd qdd)).2 :=
  com_acc_spec hm (link_of_refinesF hm hR) h2 w hw st hst qd qdd

/-- … without fixed bodies (`Refines`) -/
theorem calcCenterOfMass_acc_eq_spec {m : ModelS α} {M : SModel α} (hm : ModelOK m) (hR : Refines m M)
    (hv : VirtZero m) (h2 : (2 : α) ≠ 0) (w : WS α) (hw : WSFixed m w) (st : QS α)
    (hst : StateOK m st) (qd qdd : VecN α) :
    (calcCenterOfMass m w st qd (some qdd) true true).2.comAcc
      = comAcceleration M (stateOf st qd qdd) ∧
    (calcCenterOfMass m w st qd (some qdd) true true).2.angMomDot
      = (angularMomentum M (stateOf st qd qdd)).2 :=
  com_acc_spec hm (link_of_refines hm hR hv) h2 w hw st hst qd qdd

/-- end to end: construction calls in (fixed bodies, floating bases, custom joints) -/
theorem calcCenterOfMass_acc_eq_spec_constructedF (ops : List (Op α)) (hg : goodRunF (ModelS.init : ModelS α) ops)
    (h2 : (2 : α) ≠ 0) (w : WS α) (hw : WSFixed ((ModelS.init : ModelS α).run ops) w) (st : QS α)
    (hst : StateOK ((ModelS.init : ModelS α).run ops) st) (qd qdd : VecN α) :
    (calcCenterOfMass ((ModelS.init : ModelS α).run ops) w st qd (some qdd) true true).2.comAcc
      = comAcceleration (specOf ops) (stateOf st qd qdd) ∧
    (calcCenterOfMass ((ModelS.init : ModelS α).run ops) w st qd (some qdd) true true).2.angMomDot
      = (angularMomentum (specOf ops) (stateOf st qd qdd)).2 :=
  have h := refinesF_by_construction ops hg
  calcCenterOfMass_acc_eq_spec_fixed h.1 h.2 h2 w hw st hst qd qdd

theorem calcCenterOfMass_acc_eq_spec_constructed (ops : List (Op α)) (hg : goodRun (ModelS.init : ModelS α) ops)
    (h2 : (2 : α) ≠ 0) (w : WS α) (hw : WSFixed ((ModelS.init : ModelS α).run ops) w) (st : QS α)
    (hst : StateOK ((ModelS.init : ModelS α).run ops) st) (qd qdd : VecN α) :
    (calcCenterOfMass ((ModelS.init : ModelS α).run ops) w st qd (some qdd) true true).2.comAcc
      = comAcceleration (specOf ops) (stateOf st qd qdd) ∧
    (calcCenterOfMass ((ModelS.init : ModelS α).run ops) w st qd (some qdd) true true).2.angMomDot
      = (angularMomentum (specOf ops) (stateOf st qd qdd)).2 :=
  have h := refines_by_construction ops hg
  calcCenterOfMass_acc_eq_spec h.1 h.2 (virtZero_by_construction ops hg) h2 w hw st hst qd qdd

/-! ### `CalcPotentialEnergy` -/

/-- **`CalcPotentialEnergy` = `Spec.potentialEnergy`** `= −M g·C` (the specification does not read the
    velocity / acceleration part of the state) -/
theorem calcPotentialEnergy_eq_spec_fixed {m : ModelS α} {M : SModel α} {off : Nat → XT α} {nodeOf : Nat → Nat}
    (hm : ModelOK m) (hR : RefinesF m M off nodeOf) (h2 : (2 : α) ≠ 0) (w : WS α)
    (hw : WSFixed m w) (st : QS α) (hst : StateOK m st) (qd qdd : VecN α) :
    (calcPotentialEnergy m w st true).2 = potentialEnergy M (stateOf st qd qdd) :=
  pe_spec hm (link_of_refinesF hm hR) h2 w hw st hst qd qdd

/-- … without fixed bodies (`Refines`) -/
theorem calcPotentialEnergy_eq_spec {m : ModelS α} {M : SModel α} (hm : ModelOK m) (hR : Refines m M)
    (hv : VirtZero m) (h2 : (2 : α) ≠ 0) (w : WS α) (hw : WSFixed m w) (st : QS α)
    (hst : StateOK m st) (qd qdd : VecN α) :
    (calcPotentialEnergy m w st true).2 = potentialEnergy M (stateOf st qd qdd) :=
  pe_spec hm (link_of_refines hm hR hv) h2 w hw st hst qd qdd

/-- end to end: construction calls in (fixed bodies, floating bases, custom joints) -/
theorem calcPotentialEnergy_eq_spec_constructedF (ops : List (Op α)) (hg : goodRunF (ModelS.init : ModelS α) ops)
    (h2 : (2 : α) ≠ 0) (w : WS α) (hw : WSFixed ((ModelS.init : ModelS α).run ops) w) (st : QS α)
    (hst : StateOK ((ModelS.init : ModelS α).run ops) st) (qd qdd : VecN α) :
    (calcPotentialEnergy ((ModelS.init : ModelS α).run ops) w st true).2 = potentialEnergy (specOf ops) (stateOf st qd qdd) :=
  have h := refinesF_by_construction ops hg
  calcPotentialEnergy_eq_spec_fixed h.1 h.2 h2 w hw st hst qd qdd

theorem calcPotentialEnergy_eq_spec_constructed (ops : List (Op α)) (hg : goodRun (ModelS.init : ModelS α) ops)
    (h2 : (2 : α) ≠ 0) (w : WS α) (hw : WSFixed ((ModelS.init : ModelS α).run ops) w) (st : QS α)
    (hst : StateOK ((ModelS.init : ModelS α).run ops) st) (qd qdd : VecN α) :
    (calcPotentialEnergy ((ModelS.init : ModelS α).run ops) w st true).2 = potentialEnergy (specOf ops) (stateOf st qd qdd) :=
  have h := refines_by_construction ops hg
  calcPotentialEnergy_eq_spec h.1 h.2 (virtZero_by_construction ops hg) h2 w hw st hst qd qdd

/-! ### `CalcZeroMomentPoint` -/

/-- **`CalcZeroMomentPoint` = the zero-moment point computed from the first-principles centre of mass,
    its acceleration, the rate of the angular momentum and gravity** (`LDynCap.zmpSpec`) -/
theorem calcZeroMomentPoint_eq_spec_fixed {m : ModelS α} {M : SModel α} {off : Nat → XT α} {nodeOf : Nat → Nat}
    (hm : ModelOK m) (hR : RefinesF m M off nodeOf) (h2 : (2 : α) ≠ 0) (w : WS α)
    (hw : WSFixed m w) (st : QS α) (hst : StateOK m st) (qd qdd : VecN α)
    (normal point : V3 α) (hM : totalMass M ≠ 0) :
    (calcZeroMomentPoint m w st qd qdd normal point true).2
      = zmpSpec M (stateOf st qd qdd) normal point :=
  zmp_spec hm (link_of_refinesF hm hR) h2 w hw st hst qd qdd normal point hM

/-- … without fixed bodies (`Refines`) -/
theorem calcZeroMomentPoint_eq_spec {m : ModelS α} {M : SModel α} (hm : ModelOK m) (hR : Refines m M)
    (hv : VirtZero m) (h2 : (2 : α) ≠ 0) (w : WS α) (hw : WSFixed m w) (st : QS α)
    (hst : StateOK m st) (qd qdd : VecN α)
    (normal point : V3 α) (hM : totalMass M ≠ 0) :
    (calcZeroMomentPoint m w st qd qdd normal point true).2
      = zmpSpec M (stateOf st qd qdd) normal point :=
  zmp_spec hm (link_of_refines hm hR hv) h2 w hw st hst qd qdd normal point hM

/-- end to end: construction calls in (fixed bodies, floating bases, custom joints) -/
theorem calcZeroMomentPoint_eq_spec_constructedF (ops : List (Op α)) (hg : goodRunF (ModelS.init : ModelS α) ops)
    (h2 : (2 : α) ≠ 0) (w : WS α) (hw : WSFixed ((ModelS.init : ModelS α).run ops) w) (st : QS α)
    (hst : StateOK ((ModelS.init : ModelS α).run ops) st) (qd qdd : VecN α)
    (normal point : V3 α) (hM : totalMass (specOf ops) ≠ 0) :
    (calcZeroMomentPoint ((ModelS.init : ModelS α).run ops) w st qd qdd normal point true).2
      = zmpSpec (specOf ops) (stateOf st qd qdd) normal point :=
  have h := refinesF_by_construction ops hg
  calcZeroMomentPoint_eq_spec_fixed h.1 h.2 h2 w hw st hst qd qdd normal point hM

theorem calcZeroMomentPoint_eq_spec_constructed (ops : List (Op α)) (hg : goodRun (ModelS.init : ModelS α) ops)
    (h2 : (2 : α) ≠ 0) (w : WS α) (hw : WSFixed ((ModelS.init : ModelS α).run ops) w) (st : QS α)
    (hst : StateOK ((ModelS.init : ModelS α).run ops) st) (qd qdd : VecN α)
    (normal point : V3 α) (hM : totalMass (specOf ops) ≠ 0) :
    (calcZeroMomentPoint ((ModelS.init : ModelS α).run ops) w st qd qdd normal point true).2
      = zmpSpec (specOf ops) (stateOf st qd qdd) normal point :=
  have h := refines_by_construction ops hg
  calcZeroMomentPoint_eq_spec h.1 h.2 (virtZero_by_construction ops hg) h2 w hw st hst qd qdd normal point hM

/-- consequently the point returned by `CalcZeroMomentPoint` lies on the plane, and the first-principles
    contact wrench — force `f = M (C̈ − g)`, moment `n₀ = L̇_C + C × f` about the base origin — has no
    tangential moment about it (`normal · f ≠ 0`: the routine divides by it); by C12 `zmp_unique` it is
    the only such point -/
theorem calcZeroMomentPoint_correct_fixed {m : ModelS α} {M : SModel α} {off : Nat → XT α}
    {nodeOf : Nat → Nat} (hm : ModelOK m) (hR : RefinesF m M off nodeOf) (h2 : (2 : α) ≠ 0)
    (w : WS α) (hw : WSFixed m w) (st : QS α) (hst : StateOK m st) (qd qdd : VecN α)
    (normal point : V3 α) (hM : totalMass M ≠ 0)
    (hf : normal.dot (totalMass M * (comAcceleration M (stateOf st qd qdd) - M.gravity)) ≠ 0) :
    normal.dot ((calcZeroMomentPoint m w st qd qdd normal point true).2 - point) = 0 ∧
    normal.cross (((angularMomentum M (stateOf st qd qdd)).2
        + (com M (stateOf st qd qdd)).cross
            (totalMass M * (comAcceleration M (stateOf st qd qdd) - M.gravity)))
      - ((calcZeroMomentPoint m w st qd qdd normal point true).2).cross
          (totalMass M * (comAcceleration M (stateOf st qd qdd) - M.gravity))) = V3.zero := by
  rw [calcZeroMomentPoint_eq_spec_fixed hm hR h2 w hw st hst qd qdd normal point hM]
  exact ⟨C12.zmp_on_plane _ _ _ _ hf, C12.zmp_no_tangential_moment _ _ _ _ hf⟩
example := calcZeroMomentPoint_correct_fixed ExF.m_ok ExF.m_refines Ex.two_ne ExF.w1 ExF.w1_fixed
  ExF.st ExF.st_ok Ex.qd Ex.qdd ⟨0, 0, 1⟩ ⟨0, 0, -1⟩ (by decide +kernel) (by decide +kernel)

/-! ### non-vacuity and numerical sanity checks -/

/-- the hypotheses on the branched tree `L01Cap.Ex` and on `L01Cap.ExF` (floating base, three fixed
    bodies — one of them on the base, which does not count —, custom joint); poisoned workspaces -/
example := calcCenterOfMass_eq_spec Ex.m_ok Ex.m_refines (virtZero_by_construction Ex.ops Ex.ops_good)
  Ex.two_ne Ex.w1 Ex.w1_fixed Ex.st Ex.st_ok Ex.qd none Ex.qdd (Or.inl rfl) false
example := calcCenterOfMass_eq_spec_fixed ExF.m_ok ExF.m_refines Ex.two_ne ExF.w1 ExF.w1_fixed ExF.st
  ExF.st_ok Ex.qd (some Ex.qdd) Ex.qdd (Or.inr rfl) true
example := calcCenterOfMass_eq_spec_constructedF ExF.ops ExF.ops_good Ex.two_ne ExF.w1 ExF.w1_fixed
  ExF.st ExF.st_ok Ex.qd none Ex.qdd (Or.inl rfl) false
example := calcCenterOfMass_eq_spec_constructed Ex.ops Ex.ops_good Ex.two_ne Ex.w0 Ex.w0_fixed
  Ex.st Ex.st_ok Ex.qd (some Ex.qdd) Ex.qdd (Or.inr rfl) true
example := calcCenterOfMass_acc_eq_spec_fixed ExF.m_ok ExF.m_refines Ex.two_ne ExF.w1 ExF.w1_fixed
  ExF.st ExF.st_ok Ex.qd Ex.qdd
example := calcCenterOfMass_acc_eq_spec Ex.m_ok Ex.m_refines
  (virtZero_by_construction Ex.ops Ex.ops_good) Ex.two_ne Ex.w1 Ex.w1_fixed Ex.st Ex.st_ok Ex.qd Ex.qdd
example := calcCenterOfMass_acc_eq_spec_constructedF ExF.ops ExF.ops_good Ex.two_ne ExF.w1
  ExF.w1_fixed ExF.st ExF.st_ok Ex.qd Ex.qdd
example := calcCenterOfMass_acc_eq_spec_constructed Ex.ops Ex.ops_good Ex.two_ne Ex.w1 Ex.w1_fixed
  Ex.st Ex.st_ok Ex.qd Ex.qdd
example := calcPotentialEnergy_eq_spec_fixed ExF.m_ok ExF.m_refines Ex.two_ne ExF.w1 ExF.w1_fixed
  ExF.st ExF.st_ok Ex.qd Ex.qdd
example := calcPotentialEnergy_eq_spec Ex.m_ok Ex.m_refines
  (virtZero_by_construction Ex.ops Ex.ops_good) Ex.two_ne Ex.w1 Ex.w1_fixed Ex.st Ex.st_ok Ex.qd Ex.qdd
example := calcPotentialEnergy_eq_spec_constructedF ExF.ops ExF.ops_good Ex.two_ne ExF.w1
  ExF.w1_fixed ExF.st ExF.st_ok Ex.qd Ex.qdd
example := calcPotentialEnergy_eq_spec_constructed Ex.ops Ex.ops_good Ex.two_ne Ex.w1 Ex.w1_fixed
  Ex.st Ex.st_ok Ex.qd Ex.qdd
/-- the total masses are not zero -/
example : totalMass ExF.M ≠ 0 ∧ totalMass Ex.M ≠ 0 := ⟨by decide +kernel, by decide +kernel⟩
example := calcZeroMomentPoint_eq_spec_fixed ExF.m_ok ExF.m_refines Ex.two_ne ExF.w1 ExF.w1_fixed
  ExF.st ExF.st_ok Ex.qd Ex.qdd ⟨0, 0, 1⟩ ⟨0, 0, -1⟩ (by decide +kernel)
example := calcZeroMomentPoint_eq_spec Ex.m_ok Ex.m_refines
  (virtZero_by_construction Ex.ops Ex.ops_good) Ex.two_ne Ex.w1 Ex.w1_fixed Ex.st Ex.st_ok Ex.qd
  Ex.qdd ⟨0, 0, 1⟩ ⟨0, 0, -1⟩ (by decide +kernel)
example := calcZeroMomentPoint_eq_spec_constructedF ExF.ops ExF.ops_good Ex.two_ne ExF.w1
  ExF.w1_fixed ExF.st ExF.st_ok Ex.qd Ex.qdd ⟨0, 0, 1⟩ ⟨0, 0, -1⟩ (by decide +kernel)
example := calcZeroMomentPoint_eq_spec_constructed Ex.ops Ex.ops_good Ex.two_ne Ex.w1 Ex.w1_fixed
  Ex.st Ex.st_ok Ex.qd Ex.qdd ⟨0, 0, 1⟩ ⟨0, 0, -1⟩ (by decide +kernel)

/-- numerical sanity checks (kernel evaluation over `Rat`, both sides computed independently), model
    with fixed bodies, poisoned workspace -/
example : (calcCenterOfMass ExF.m ExF.w1 ExF.st Ex.qd (some Ex.qdd) true true).2.mass
    = totalMass ExF.M := by decide +kernel
example : (calcCenterOfMass ExF.m ExF.w1 ExF.st Ex.qd (some Ex.qdd) true true).2.com
    = com ExF.M (stateOf ExF.st Ex.qd Ex.qdd) := by decide +kernel
example : (calcCenterOfMass ExF.m ExF.w1 ExF.st Ex.qd (some Ex.qdd) true true).2.comVel
    = comVelocity ExF.M (stateOf ExF.st Ex.qd Ex.qdd) := by decide +kernel
example : (calcCenterOfMass ExF.m ExF.w1 ExF.st Ex.qd (some Ex.qdd) true true).2.comAcc
    = comAcceleration ExF.M (stateOf ExF.st Ex.qd Ex.qdd) := by decide +kernel
example : (calcCenterOfMass ExF.m ExF.w1 ExF.st Ex.qd (some Ex.qdd) true true).2.angMom
    = (angularMomentum ExF.M (stateOf ExF.st Ex.qd Ex.qdd)).1 := by decide +kernel
example : (calcCenterOfMass ExF.m ExF.w1 ExF.st Ex.qd (some Ex.qdd) true true).2.angMomDot
    = (angularMomentum ExF.M (stateOf ExF.st Ex.qd Ex.qdd)).2 := by decide +kernel
example : (calcPotentialEnergy ExF.m ExF.w1 ExF.st true).2
    = potentialEnergy ExF.M (stateOf ExF.st Ex.qd Ex.qdd) := by decide +kernel
example : (calcZeroMomentPoint ExF.m ExF.w1 ExF.st Ex.qd Ex.qdd ⟨0, 0, 1⟩ ⟨0, 0, -1⟩ true).2
    = zmpSpec ExF.M (stateOf ExF.st Ex.qd Ex.qdd) ⟨0, 0, 1⟩ ⟨0, 0, -1⟩ := by decide +kernel
/-- the plate fixed to the base (mass 3) is not counted: 2 + 3 + 1/2 + 5/2 + 1 + 5/2 = 23/2 -/
example : totalMass ExF.M = 23 / 2 := by decide +kernel

end Rbdl.C12Cap
