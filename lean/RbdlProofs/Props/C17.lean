import RbdlProofs.Lemmas.L17
import RbdlProofs.Lemmas.L17Body
import RbdlProofs.Lemmas.L17Asm
import RbdlProofs.Lemmas.L17Vel
import RbdlProofs.Lemmas.L17Ang
import RbdlProofs.Lemmas.L17Ex
import RbdlProofs.Lemmas.L17Kkt
import RbdlProofs.Lemmas.L17KktEx
/-
  C17 — iterative solvers: what a reported success guarantees.

  The theorems are about the code-shaped model `Rbdl/Iter.lean` of `InverseKinematics` (both
  overloads), `CalcAssemblyQ`, `CalcAssemblyQDot`.  The dense linear solver is a parameter `solve` of the
  model about which NOTHING is assumed (except in §5, where "the solver returned a solution" is the
  hypothesis): soundness of a reported success does not depend on the quality of the solver.
  The model is tied to the implementation by `./check C17` (one modelled pass from the
  implementation's own iterates must reproduce flag and next iterate; see Rbdl/IterDriver.lean).

  Norm tests are made on squared norms, `normLt s² tol := 0 < tol ∧ s² < tol²`; §1 shows that this is
  the C++ test `sqrt(s²) < tol`.

  WHAT THE CODE GUARANTEES (and what it does not):
    * both `InverseKinematics` overloads return `true` when EITHER the residual at the returned
      configuration passed its test OR the last step was shorter than `step_tol`.  In the second case
      nothing is known about the residual: `ik_success_can_have_large_residual`,
      `ikcs_success_can_have_large_residual` are machine-checked witnesses (target on the extension
      of a stretched arm: `Jᵀe = 0`, the step is exactly 0, residual 1, tolerance 1e-3).  For the
      constraint-set overload this is the documented behaviour (Kinematics.h: "If error_norm is still
      larger than constraint_tol then this usually means that the target is unreachable"); the
      reported `error_norm` is honest, but after a step exit it is the residual at the configuration
      BEFORE the last step.  The point-target overload reports nothing and compares the residual with
      `step_tol` (it has no other tolerance).
    * `CalcAngularVelocityfromMatrix` (repaired, D20): for a half turn `2 n nᵀ − 1` it returns `± π n`
      (`angular_velocity_of_half_turn`), and on symmetric rotations it returns 0 only for the identity
      (`angular_velocity_zero_only_for_identity`).  Before the repair its second branch also fired for
      `|l| < tol`, so every half turn was mapped to 0 and an orientation target exactly π away counted as
      solved with `error_norm = 0` (`old_routine_maps_half_turns_to_zero`, about a local copy of the
      old routine).
    * `CalcAssemblyQ`: `true` always means that the recomputed position error passed the test.
-/
namespace Rbdl.C17
open Lean.Grind Rbdl Rbdl.Iter Rbdl.L17
set_option linter.unusedSectionVars false

/-! ## 1. the norm test -/
section order
open Std
variable {α : Type} [Lean.Grind.Field α] [LE α] [LT α] [LawfulOrderLT α] [IsLinearOrder α] [Lean.Grind.OrderedRing α]

/-- the modelled test on the squared norm is the C++ test on the norm -/
theorem norm_test_is_cpp_test (s2 r tol : α) (hr : 0 ≤ r) (hs : r * r = s2) :
    normLt s2 tol ↔ r < tol := normLt_iff_root s2 r tol hr hs
example : normLt (9 / 25 : Rat) (4 / 5) ↔ (3 / 5 : Rat) < 4 / 5 :=
  norm_test_is_cpp_test _ _ _ (by decide +kernel) (by decide +kernel)

/-- the test is monotone in the tolerance -/
theorem norm_test_monotone (s2 t t' : α) (htt : t ≤ t') (h : normLt s2 t) : normLt s2 t' :=
  normLt_mono s2 t t' htt h
example : normLt (1 / 4 : Rat) 2 :=
  norm_test_monotone _ 1 2 (by decide +kernel) (by decide +kernel)

/-- a passed test bounds every component of the tested vector -/
theorem norm_test_componentwise (n : Nat) (v : VecN α) (tol : α) (h : normLt (sqNorm n v) tol)
    (i : Nat) (hi : i < n) : v i * v i < tol * tol := by
  have h1 := sqNorm_component n v i hi
  have h2 := h.2
  grind
example : (1 / 2 : Rat) * (1 / 2) < 1 * 1 :=
  norm_test_componentwise 2 (fun _ => 1 / 2) 1 (by decide +kernel) 0 (by decide)

end order

/-! ## 2. `InverseKinematics`, point targets -/
section ik
variable {α : Type} [Lean.Grind.Field α] [DecidableEq α] [LT α] [DecidableLT α]

/-- **soundness of a reported success, for every solver and every iteration cap**: the run left in
    pass `n < max_iter` from a state `sp` reached by `n` fall-through passes, and EITHER the returned
    configuration is `sp.Q` and its recomputed residual passed the test (against `step_tol`: this
    overload has no other tolerance), OR the returned configuration is `sp.Q + Δ` with `|Δ| < step_tol`
    and the residual at `sp.Q` did NOT pass — nothing is known about the residual at the returned
    configuration in that case. -/
theorem ik_success_sound (solve : Solver α) (trig : α → α × α) (m : ModelS α) (w : WS α) (Qinit : VecN α)
    (tg : List (PointTarget α)) (stepTol lambda : α) (maxIter n : Nat) (s' : IKState α)
    (h : inverseKinematics solve trig m w Qinit tg stepTol lambda maxIter = (true, n, s')) :
    n < maxIter ∧ ∃ sp : IKState α,
      Reach (fun _ => ikBody solve trig m tg stepTol lambda) n 0 ⟨w, Qinit⟩ sp ∧
      ((s'.Q = sp.Q ∧ normLt (ikResidual2 trig m sp.w tg s'.Q) stepTol) ∨
       (s'.Q = addStep m.qdotSize sp.Q (ikDelta solve trig m tg lambda sp) ∧
        normLt (sqNorm m.qdotSize (ikDelta solve trig m tg lambda sp)) stepTol ∧
        ¬ normLt (ikResidual2 trig m sp.w tg sp.Q) stepTol)) := by
  obtain ⟨_, h2, sp, hr, hd⟩ := runLoop_true _ _ _ _ _ _ h
  rw [Nat.sub_zero] at hr
  exact ⟨by omega, sp, hr, ikBody_done solve trig m tg stepTol lambda sp s' hd⟩
example := ik_success_sound Ex.diagSolve Ex.trig0 Ex.m1 Ex.w1 Ex.Q0 Ex.tgHere (1/1000) (1/100) 5 _ _
  (Ex.eta3 Ex.ikHere true Ex.ikHere_ok.1)
example := ik_success_sound Ex.diagSolve Ex.trig0 Ex.m1 Ex.w1 Ex.Q0 Ex.tgFar (1/1000) (1/100) 5 _ _
  (Ex.eta3 Ex.ikFar true Ex.ikFar_witness.1)

/-- **the second alternative is real**: with an exact solver, success is reported (pass 0, zero step)
    for a configuration whose squared residual is `1` against a tolerance of `1e-3` -/
theorem ik_success_can_have_large_residual :
    (inverseKinematics Ex.diagSolve Ex.trig0 Ex.m1 Ex.w1 Ex.Q0 Ex.tgFar (1/1000) (1/100) 5).1 = true ∧
    ikResidual2 Ex.trig0 Ex.m1 Ex.w1 Ex.tgFar
      (inverseKinematics Ex.diagSolve Ex.trig0 Ex.m1 Ex.w1 Ex.Q0 Ex.tgFar (1/1000) (1/100) 5).2.2.Q = 1 ∧
    ¬ normLt (1 : Rat) (1/1000) :=
  ⟨Ex.ikFar_witness.1, Ex.ikFar_witness.2.2.2.1, Ex.ikFar_witness.2.2.2.2⟩

/-- **failure**: all `max_iter` passes were made, none passed a test, and the output is the last
    iterate -/
theorem ik_failure (solve : Solver α) (trig : α → α × α) (m : ModelS α) (w : WS α) (Qinit : VecN α)
    (tg : List (PointTarget α)) (stepTol lambda : α) (maxIter n : Nat) (s' : IKState α)
    (h : inverseKinematics solve trig m w Qinit tg stepTol lambda maxIter = (false, n, s')) :
    n = maxIter ∧ Reach (fun _ => ikBody solve trig m tg stepTol lambda) maxIter 0 ⟨w, Qinit⟩ s' := by
  obtain ⟨h1, hr⟩ := runLoop_false _ _ _ _ _ _ h
  exact ⟨by omega, hr⟩
example := ik_failure Ex.onesSolve Ex.trig0 Ex.m1 Ex.w1 Ex.Q0 Ex.tgSide (1/1000) (1/100) 5 _ _
  (Ex.eta3 Ex.ikSide false Ex.ikSide_fail.1)

/-- **size**: whatever is returned, entries of `Qres` at indices `≥ qdot_size` are the caller's
    (the routine adds a `qdot_size`-sized step to `Qres`: it is only meaningful for `q_size = qdot_size`) -/
theorem ik_size (solve : Solver α) (trig : α → α × α) (m : ModelS α) (w : WS α) (Qinit : VecN α)
    (tg : List (PointTarget α)) (stepTol lambda : α) (maxIter : Nat) (j : Nat) (hj : m.qdotSize ≤ j) :
    (inverseKinematics solve trig m w Qinit tg stepTol lambda maxIter).2.2.Q j = Qinit j :=
  runLoop_inv _ (fun (s : IKState α) => s.Q j = Qinit j)
    (fun _ s s1 hs hb => by rw [ikBody_size solve trig m tg stepTol lambda s s1 (Or.inr hb) j hj]; exact hs)
    (fun _ s s1 hs hb => by rw [ikBody_size solve trig m tg stepTol lambda s s1 (Or.inl hb) j hj]; exact hs)
    maxIter 0 (⟨w, Qinit⟩ : IKState α) rfl
example : Ex.ikSide.2.2.Q 7 = Ex.Q0 7 := ik_size _ _ _ _ _ _ _ _ _ 7 (by decide)

end ik

section ikorder
open Std
variable {α : Type} [Lean.Grind.Field α] [DecidableEq α] [LE α] [LT α] [DecidableLT α] [LawfulOrderLT α]
  [IsLinearOrder α] [Lean.Grind.OrderedRing α]

/-- **the termination test honours the tolerance**: a run that succeeds in pass `n` with `step_tol = t`
    succeeds in a pass `n' ≤ n` with any `t' ≥ t` -/
theorem ik_tolerance_monotone (solve : Solver α) (trig : α → α × α) (m : ModelS α) (w : WS α)
    (Qinit : VecN α) (tg : List (PointTarget α)) (t t' lambda : α) (htt : t ≤ t') (maxIter n : Nat)
    (s' : IKState α) (h : inverseKinematics solve trig m w Qinit tg t lambda maxIter = (true, n, s')) :
    ∃ n' s'', n' ≤ n ∧ inverseKinematics solve trig m w Qinit tg t' lambda maxIter = (true, n', s'') := by
  apply runLoop_dominates _ _ _ maxIter 0 _ n s' h
  intro it s
  simp only [ikBody_eq]
  constructor
  · intro s1 h1
    split at h1
    · next c => rw [if_pos (normLt_mono _ t t' htt c)]; exact ⟨_, rfl⟩
    · next c =>
      split at h1
      · next c2 =>
        by_cases c' : normLt (ikResidual2 trig m s.w tg s.Q) t'
        · rw [if_pos c']; exact ⟨_, rfl⟩
        · rw [if_neg c', if_pos (normLt_mono _ t t' htt c2)]; exact ⟨_, rfl⟩
      · cases h1
  · intro s1 h1
    split at h1
    · cases h1
    · next c =>
      split at h1
      · cases h1
      · next c2 =>
        cases h1
        by_cases c' : normLt (ikResidual2 trig m s.w tg s.Q) t'
        · right; rw [if_pos c']; exact ⟨_, rfl⟩
        · rw [if_neg c']
          by_cases c2' : normLt (sqNorm m.qdotSize (ikDelta solve trig m tg lambda s)) t'
          · right; rw [if_pos c2']; exact ⟨_, rfl⟩
          · left; rw [if_neg c2']
example := ik_tolerance_monotone Ex.diagSolve Ex.trig0 Ex.m1 Ex.w1 Ex.Q0 Ex.tgHere (1/1000) 1 (1/100)
  (by decide +kernel) 5 _ _ (Ex.eta3 Ex.ikHere true Ex.ikHere_ok.1)

end ikorder

/-! ## 3. `InverseKinematics`, constraint set -/
section ikcs
variable {α : Type} [Lean.Grind.Field α] [DecidableEq α] [LT α] [DecidableLT α]

/-- **soundness of a reported success, for every solver and every `max_steps`**: `num_steps = n <
    max_steps`, the run left from a state `sp` reached by `n` fall-through passes, and EITHER the
    returned configuration is `sp.Q`, the reported `error_norm²` is its recomputed residual and passed
    the test against `constraint_tol`, OR the returned configuration is `sp.Q + Δ` with the reported
    `delta_q_norm² = |Δ|²` below `step_tol²`, and the reported `error_norm²` is the residual at `sp.Q`
    — the configuration BEFORE the last step — which did NOT pass the test. -/
theorem ikcs_success_sound (solve : Solver α) (T : Transc α) (trig : α → α × α) (m : ModelS α) (w : WS α)
    (Qinit : VecN α) (S : IKSet α) (en0 dq0 : α) (n : Nat) (s' : IKCSState α)
    (h : inverseKinematicsCS solve T trig m w Qinit S en0 dq0 = (true, n, s')) :
    n < S.maxSteps ∧ ∃ sp : IKCSState α,
      Reach (fun _ => ikcsBody solve T trig m S) n 0 ⟨w, Qinit, en0, dq0⟩ sp ∧
      ((s'.Q = sp.Q ∧ s'.errorNorm2 = ikcsResidual2 T trig m sp.w S s'.Q ∧
          normLt s'.errorNorm2 S.constraintTol) ∨
       (s'.Q = addStep m.qdotSize sp.Q (ikcsDelta solve T trig m S sp) ∧
          s'.deltaQNorm2 = sqNorm m.qdotSize (ikcsDelta solve T trig m S sp) ∧
          normLt s'.deltaQNorm2 S.stepTol ∧
          s'.errorNorm2 = ikcsResidual2 T trig m sp.w S sp.Q ∧
          ¬ normLt s'.errorNorm2 S.constraintTol)) := by
  obtain ⟨_, h2, sp, hr, hd⟩ := runLoop_true _ _ _ _ _ _ h
  rw [Nat.sub_zero] at hr
  exact ⟨by omega, sp, hr, ikcsBody_done solve T trig m S sp s' hd⟩
example := ikcs_success_sound Ex.diagSolve Ex.transc0 Ex.trig0 Ex.m1 Ex.w1 Ex.Q0 Ex.setHere 0 0 _ _
  (Ex.eta3 Ex.csHere true Ex.csHere_ok.1)
example := ikcs_success_sound Ex.diagSolve Ex.transc0 Ex.trig0 Ex.m1 Ex.w1 Ex.Q0 Ex.setFar 0 0 _ _
  (Ex.eta3 Ex.csFar true Ex.csFar_witness.1)

/-- **the step exit is real**: exact solver, success in pass 0, reported `error_norm² = 1`
    (`constraint_tol = 1e-3`), recomputed residual `1` -/
theorem ikcs_success_can_have_large_residual :
    (inverseKinematicsCS Ex.diagSolve Ex.transc0 Ex.trig0 Ex.m1 Ex.w1 Ex.Q0 Ex.setFar 0 0).1 = true ∧
    (inverseKinematicsCS Ex.diagSolve Ex.transc0 Ex.trig0 Ex.m1 Ex.w1 Ex.Q0 Ex.setFar 0 0).2.2.errorNorm2 = 1 ∧
    ikcsResidual2 Ex.transc0 Ex.trig0 Ex.m1 Ex.w1 Ex.setFar
      (inverseKinematicsCS Ex.diagSolve Ex.transc0 Ex.trig0 Ex.m1 Ex.w1 Ex.Q0 Ex.setFar 0 0).2.2.Q = 1 :=
  ⟨Ex.csFar_witness.1, Ex.csFar_witness.2.2.1, Ex.csFar_witness.2.2.2.2⟩

/-- **half turn, repaired**: an orientation constraint whose target differs from the body orientation by
    a rotation of π about z is NOT reported as solved: the recomputed residual at the initial guess is
    `π²` (here `π := 3`), the first pass reports `error_norm² = 9` and does not return the initial guess
    as a solution; the orientation there is the identity, not the target -/
theorem ikcs_half_turn_not_solved :
    ikcsResidual2 Ex.transc0 Ex.trig0 Ex.m1 Ex.w1 Ex.setTurn Ex.Q0 = 9 ∧
    (inverseKinematicsCS Ex.diagSolve Ex.transc0 Ex.trig0 Ex.m1 Ex.w1 Ex.Q0
      { Ex.setTurn with maxSteps := 1 } 0 0).2.2.errorNorm2 = 9 ∧
    (calcBodyWorldOrientation Ex.m1 Ex.w1 (mkQS Ex.trig0 Ex.Q0) 1 true).2 = M3.one ∧
    (M3.one : M3 Rat) ≠ Ex.halfTurn :=
  ⟨Ex.csTurn_facts.2.1, Ex.csTurn_facts.2.2.1, Ex.csTurn_facts.2.2.2.2.1, Ex.csTurn_facts.2.2.2.2.2⟩

end ikcs

section angvel
open Std
variable {α : Type} [Lean.Grind.Field α] [DecidableEq α] [LE α] [LT α] [DecidableLT α] [DecidableLE α]
  [LawfulOrderLT α] [IsLinearOrder α] [Lean.Grind.OrderedRing α]

/-- **half turn**: for the rotation by π about a unit axis `n`, `R = 2 n nᵀ − 1`, the modelled (repaired)
    `CalcAngularVelocityfromMatrix` returns `π n` or `π (−n)` — the same rotation; the code's sign
    convention makes the component of largest magnitude (the first such) positive — provided `sqrt` is
    a non-negative root at the arguments it is evaluated at (`0` and the squares of the components) -/
theorem angular_velocity_of_half_turn (T : Transc α) (n : V3 α) (hn : n.dot n = 1)
    (h0 : T.sqrt 0 = 0)
    (hx : 0 ≤ T.sqrt (n.x * n.x) ∧ T.sqrt (n.x * n.x) * T.sqrt (n.x * n.x) = n.x * n.x)
    (hy : 0 ≤ T.sqrt (n.y * n.y) ∧ T.sqrt (n.y * n.y) * T.sqrt (n.y * n.y) = n.y * n.y)
    (hz : 0 ≤ T.sqrt (n.z * n.z) ∧ T.sqrt (n.z * n.z) * T.sqrt (n.z * n.z) = n.z * n.z) :
    angularVelocityFromMatrix T (halfTurnOf n) = T.pi * n ∨
    angularVelocityFromMatrix T (halfTurnOf n) = T.pi * (-n) :=
  angVel_halfTurn T n hn h0 hx hy hz
/-- a coordinate axis … -/
example := angular_velocity_of_half_turn Ex.transc0 (⟨0, 0, 1⟩ : V3 Rat) (by decide +kernel) rfl
  (by decide +kernel) (by decide +kernel) (by decide +kernel)
/-- … and a general axis `(2, 1, −2)/3` -/
example := angular_velocity_of_half_turn Ex.transc1 Ex.axis221 (by decide +kernel) (by decide +kernel)
  (by decide +kernel) (by decide +kernel) (by decide +kernel)
example : angularVelocityFromMatrix Ex.transc1 (halfTurnOf Ex.axis221) = (3 : Rat) * Ex.axis221 := by
  decide +kernel

/-- **zero only for the identity**: on a symmetric proper rotation (these are the identity and the half
    turns) the modelled routine returns the zero vector exactly for the identity, provided `sqrt 0 = 0`,
    `sqrt` is a root at the three arguments `max 0 ((Rᵢᵢ + 1)/2)` of the third branch, and `π ≠ 0` -/
theorem angular_velocity_zero_only_for_identity (T : Transc α) (R : M3 α) (hR : R.IsRot)
    (s01 : R.m10 = R.m01) (s02 : R.m20 = R.m02) (s12 : R.m21 = R.m12)
    (h0 : T.sqrt 0 = 0) (hpi : T.pi ≠ 0)
    (hroot : ∀ i : Nat, i < 3 →
      let x := (if 0 < (R.get i i + 1) * (1 / 2) then (R.get i i + 1) * (1 / 2) else 0)
      T.sqrt x * T.sqrt x = x) :
    angularVelocityFromMatrix T R = V3.zero ↔ R = M3.one :=
  angVel_sym_zero_iff T R hR s01 s02 s12 h0 hpi hroot
example := angular_velocity_zero_only_for_identity Ex.transc0 Ex.halfTurn Ex.halfTurn_isRot rfl rfl rfl rfl
  (by decide +kernel) (by decide +kernel)

/-- **before the repair** (a local copy of the old routine, `Rbdl.L17.angularVelocityFromMatrixOld`):
    every symmetric matrix, hence every half turn, was mapped to the zero vector -/
theorem old_routine_maps_half_turns_to_zero (T : Transc α) (n : V3 α) (h0 : T.sqrt 0 = 0) :
    angularVelocityFromMatrixOld T (halfTurnOf n) = V3.zero :=
  angVelOld_symmetric_zero T _ h0 rfl rfl rfl
example : angularVelocityFromMatrixOld Ex.transc0 Ex.halfTurn = V3.zero := by
  rw [Ex.halfTurn_eq]; exact old_routine_maps_half_turns_to_zero Ex.transc0 _ rfl

end angvel

section ikcs
variable {α : Type} [Lean.Grind.Field α] [DecidableEq α] [LT α] [DecidableLT α]

/-- **failure**: `num_steps = max_steps`, all passes fell through, the output is the last iterate -/
theorem ikcs_failure (solve : Solver α) (T : Transc α) (trig : α → α × α) (m : ModelS α) (w : WS α)
    (Qinit : VecN α) (S : IKSet α) (en0 dq0 : α) (n : Nat) (s' : IKCSState α)
    (h : inverseKinematicsCS solve T trig m w Qinit S en0 dq0 = (false, n, s')) :
    n = S.maxSteps ∧ Reach (fun _ => ikcsBody solve T trig m S) S.maxSteps 0 ⟨w, Qinit, en0, dq0⟩ s' := by
  obtain ⟨h1, hr⟩ := runLoop_false _ _ _ _ _ _ h
  exact ⟨by omega, hr⟩
example := ikcs_failure Ex.onesSolve Ex.transc0 Ex.trig0 Ex.m1 Ex.w1 Ex.Q0 Ex.setSide 0 0 _ _
  (Ex.eta3 Ex.csSide false Ex.csSide_fail.1)

/-- **size**: entries of `Qres` at indices `≥ qdot_size` are the caller's, whatever is returned -/
theorem ikcs_size (solve : Solver α) (T : Transc α) (trig : α → α × α) (m : ModelS α) (w : WS α)
    (Qinit : VecN α) (S : IKSet α) (en0 dq0 : α) (j : Nat) (hj : m.qdotSize ≤ j) :
    (inverseKinematicsCS solve T trig m w Qinit S en0 dq0).2.2.Q j = Qinit j :=
  runLoop_inv _ (fun (s : IKCSState α) => s.Q j = Qinit j)
    (fun _ s s1 hs hb => by rw [ikcsBody_size solve T trig m S s s1 (Or.inr hb) j hj]; exact hs)
    (fun _ s s1 hs hb => by rw [ikcsBody_size solve T trig m S s s1 (Or.inl hb) j hj]; exact hs)
    S.maxSteps 0 (⟨w, Qinit, en0, dq0⟩ : IKCSState α) rfl
example : Ex.csSide.2.2.Q 3 = Ex.Q0 3 := ikcs_size _ _ _ _ _ _ _ _ _ 3 (by decide)

/-- **the residual test reads `constraint_tol` and nothing else**: if the recomputed residual passes the
    test against `constraint_tol`, the pass returns `true` with the unchanged configuration whatever
    `step_tol` is (the defect fixed in /repo compared the residual with `step_tol`) -/
theorem ikcs_residual_test_uses_constraint_tol (solve : Solver α) (T : Transc α) (trig : α → α × α)
    (m : ModelS α) (S : IKSet α) (st : α) (s : IKCSState α)
    (h : normLt (ikcsResidual2 T trig m s.w S s.Q) S.constraintTol) :
    ikcsBody solve T trig m { S with stepTol := st } s =
      .done ⟨ikcsWs' T trig m S s, s.Q, ikcsResidual2 T trig m s.w S s.Q, s.deltaQNorm2⟩ := by
  rw [ikcsBody_eq]
  exact if_pos h
example := ikcs_residual_test_uses_constraint_tol Ex.diagSolve Ex.transc0 Ex.trig0 Ex.m1 Ex.setHere 77
  ⟨Ex.w1, Ex.Q0, 0, 0⟩ (by decide +kernel)

/-- **the step test reads `step_tol` and nothing else**: if the residual does not pass, the pass returns
    `true` exactly if the step (which does not depend on any tolerance) passes the test against
    `step_tol` -/
theorem ikcs_step_test_uses_step_tol (solve : Solver α) (T : Transc α) (trig : α → α × α)
    (m : ModelS α) (S : IKSet α) (s : IKCSState α)
    (h : ¬ normLt (ikcsResidual2 T trig m s.w S s.Q) S.constraintTol) :
    (∃ s', ikcsBody solve T trig m S s = .done s') ↔
      normLt (sqNorm m.qdotSize (ikcsDelta solve T trig m S s)) S.stepTol := by
  rw [ikcsBody_eq, if_neg h]
  constructor
  · rintro ⟨s', h'⟩
    split at h'
    · next c => exact c
    · cases h'
  · intro c
    rw [if_pos c]; exact ⟨_, rfl⟩
example := ikcs_step_test_uses_step_tol Ex.diagSolve Ex.transc0 Ex.trig0 Ex.m1 Ex.setFar
  ⟨Ex.w1, Ex.Q0, 0, 0⟩ (by decide +kernel)

end ikcs

section ikcsorder
open Std
variable {α : Type} [Lean.Grind.Field α] [DecidableEq α] [LE α] [LT α] [DecidableLT α] [LawfulOrderLT α]
  [IsLinearOrder α] [Lean.Grind.OrderedRing α]

/-- **monotone in both tolerances**: a run that succeeds with `num_steps = n` succeeds with
    `num_steps ≤ n` when `constraint_tol` and / or `step_tol` are enlarged -/
theorem ikcs_tolerance_monotone (solve : Solver α) (T : Transc α) (trig : α → α × α) (m : ModelS α)
    (w : WS α) (Qinit : VecN α) (S : IKSet α) (ct' st' : α) (hct : S.constraintTol ≤ ct')
    (hst : S.stepTol ≤ st') (en0 dq0 : α) (n : Nat) (s' : IKCSState α)
    (h : inverseKinematicsCS solve T trig m w Qinit S en0 dq0 = (true, n, s')) :
    ∃ n' s'', n' ≤ n ∧
      inverseKinematicsCS solve T trig m w Qinit { S with constraintTol := ct', stepTol := st' } en0 dq0
        = (true, n', s'') := by
  apply runLoop_dominates _ _ _ S.maxSteps 0 _ n s' h
  intro it s
  simp only [ikcsBody_eq]
  have hi := ikcs_indep solve T trig m S st' ct' S.maxSteps s
  simp only at hi
  obtain ⟨e1, e2, e3⟩ := hi
  constructor
  · intro s1 h1
    split at h1
    · next c => rw [if_pos (by rw [e1]; exact normLt_mono _ _ _ hct c)]; exact ⟨_, rfl⟩
    · next c =>
      split at h1
      · next c2 =>
        by_cases c' : normLt (ikcsResidual2 T trig m s.w { S with constraintTol := ct', stepTol := st' } s.Q) ct'
        · rw [if_pos c']; exact ⟨_, rfl⟩
        · rw [if_neg c', if_pos (by rw [e2]; exact normLt_mono _ _ _ hst c2)]; exact ⟨_, rfl⟩
      · cases h1
  · intro s1 h1
    split at h1
    · cases h1
    · next c =>
      split at h1
      · cases h1
      · next c2 =>
        cases h1
        by_cases c' : normLt (ikcsResidual2 T trig m s.w { S with constraintTol := ct', stepTol := st' } s.Q) ct'
        · right; rw [if_pos c']; exact ⟨_, rfl⟩
        · rw [if_neg c']
          by_cases c2' : normLt (sqNorm m.qdotSize
              (ikcsDelta solve T trig m { S with constraintTol := ct', stepTol := st' } s)) st'
          · right; rw [if_pos c2']; exact ⟨_, rfl⟩
          · left; rw [if_neg c2', e1, e2, e3]
example := ikcs_tolerance_monotone Ex.diagSolve Ex.transc0 Ex.trig0 Ex.m1 Ex.w1 Ex.Q0 Ex.setHere 1 1
  (by decide +kernel) (by decide +kernel) 0 0 _ _ (Ex.eta3 Ex.csHere true Ex.csHere_ok.1)

end ikcsorder

/-! ## 4. `CalcAssemblyQ` -/
section asm
variable {α : Type} [Lean.Grind.Field α] [DecidableEq α] [LT α] [DecidableLT α]

/-- **soundness of a reported success, for every solver and every `max_iter`**: the error vector held
    at return is the constraint position error recomputed at the returned configuration (from some
    workspace `w0` and previous contents `e0` of the error vector), and it passed the test; if the run
    left inside the loop the last step passed the test as well -/
theorem assemblyQ_success_sound (solve : Solver α) (sqrt : α → α) (trig : α → α × α) (m : ModelS α)
    (w : WS α) (Qinit : List α) (C : CSet α) (wts : VecN α) (tol : α) (maxIter n : Nat)
    (s' : AsmState α)
    (h : calcAssemblyQ solve sqrt trig m w Qinit C wts tol maxIter = (true, n, s')) :
    (∃ w0 e0, s'.e = asmError trig m w0 C e0 s'.Q) ∧ normLt (sqNorm C.size s'.e) tol ∧
    (s'.Q = Qinit ∨ normLt (sqNorm m.dofCount s'.d) tol) := by
  unfold calcAssemblyQ at h
  simp only at h
  split at h
  · next c =>
    cases h
    exact ⟨⟨w, fun _ => 0, rfl⟩, c, Or.inl rfl⟩
  · obtain ⟨_, _, sp, _, hd⟩ := runLoop_true _ _ _ _ _ _ h
    have hs := asmBody_state solve sqrt trig m C wts tol sp s' (Or.inl hd)
    have ht := asmBody_done solve sqrt trig m C wts tol sp s' hd
    exact ⟨⟨_, _, hs.2.1⟩, ht.1, Or.inr ht.2⟩
example := assemblyQ_success_sound Ex.noSolve Ex.one1 Ex.trig0 Ex.m2 Ex.w1 Ex.Qquat CSet.empty Ex.wts3 1 1 _ _
  (Ex.eta3 Ex.asmOk true Ex.asmOk_eq.1)

/-- one pass that returns `true` (the in-loop exit of `assemblyQ_success_sound`) -/
example : ∃ s', asmBody Ex.noSolve Ex.one1 Ex.trig0 Ex.m2 (CSet.empty : CSet Rat) Ex.wts3 1
    ⟨Ex.w1, Ex.Qquat, fun _ => 0, fun _ => 0⟩ = .done s' := by
  rw [asmBody_eq]
  simp only
  rw [if_pos (by decide +kernel)]
  exact ⟨_, rfl⟩

/-- **failure**: the initial test failed, all `max_iter` passes fell through, the output is the last
    iterate -/
theorem assemblyQ_failure (solve : Solver α) (sqrt : α → α) (trig : α → α × α) (m : ModelS α)
    (w : WS α) (Qinit : List α) (C : CSet α) (wts : VecN α) (tol : α) (maxIter n : Nat)
    (s' : AsmState α)
    (h : calcAssemblyQ solve sqrt trig m w Qinit C wts tol maxIter = (false, n, s')) :
    n = maxIter ∧ ¬ normLt (sqNorm C.size (asmError trig m w C (fun _ => 0) Qinit)) tol ∧
    ∃ s0 : AsmState α, s0.Q = Qinit ∧
      Reach (fun _ => asmBody solve sqrt trig m C wts tol) maxIter 0 s0 s' := by
  unfold calcAssemblyQ at h
  simp only at h
  split at h
  · cases h
  · next c =>
    obtain ⟨h1, hr⟩ := runLoop_false _ _ _ _ _ _ h
    exact ⟨by omega, c, _, rfl, hr⟩
example := assemblyQ_failure Ex.noSolve Ex.one1 Ex.trig0 Ex.m2 Ex.w1 Ex.Qquat CSet.empty Ex.wts3 0 1 _ _
  (Ex.eta3 Ex.asmFail false Ex.asmFail_eq.1)

/-- **size**: the returned configuration has as many entries as the initial guess, whatever the outcome -/
theorem assemblyQ_size (solve : Solver α) (sqrt : α → α) (trig : α → α × α) (m : ModelS α)
    (w : WS α) (Qinit : List α) (C : CSet α) (wts : VecN α) (tol : α) (maxIter : Nat) :
    (calcAssemblyQ solve sqrt trig m w Qinit C wts tol maxIter).2.2.Q.length = Qinit.length := by
  unfold calcAssemblyQ
  simp only
  split
  · rfl
  · apply runLoop_inv _ (fun (s : AsmState α) => s.Q.length = Qinit.length)
    · intro _ s s1 hs hb
      rw [(asmBody_state solve sqrt trig m C wts tol s s1 (Or.inr hb)).1]
      unfold asmQ'; rw [assemblyUpdate_length]; exact hs
    · intro _ s s1 hs hb
      rw [(asmBody_state solve sqrt trig m C wts tol s s1 (Or.inl hb)).1]
      unfold asmQ'; rw [assemblyUpdate_length]; exact hs
    · rfl
example : Ex.asmFail.2.2.Q.length = 4 := assemblyQ_size _ _ _ _ _ _ _ _ _ _

/-- **unit quaternions**: after every pass (whichever way it ends, whatever the solver returned) the
    quaternion of a spherical joint `i` in the new configuration is `quatStep` of the old one, and has
    unit norm PROVIDED the value `r` the normalisation divides by is a non-zero root of the squared
    norm, `r² = |quat + quat.omegaToQDot(ω)|²` (a field has no square root; `sqrt` is a parameter).
    The structural hypotheses (the four slots of joint `i` are different entries of the vector and no
    other joint writes to them) follow from the invariant of `Model` (C14). -/
theorem assemblyQ_pass_unit_quaternion (solve : Solver α) (sqrt : α → α) (trig : α → α × α) (m : ModelS α)
    (C : CSet α) (wts : VecN α) (tol : α) (s s' : AsmState α)
    (hpass : asmBody solve sqrt trig m C wts tol s = .done s' ∨ asmBody solve sqrt trig m C wts tol s = .next s')
    (i : Nat) (hi : i < m.joints.length) (hs : (m.joint i).jt = .spherical)
    (hlen : ∀ a ∈ slots m i, a < s.Q.length)
    (hw : m.w3 i ≠ (m.joint i).qIndex ∧ m.w3 i ≠ (m.joint i).qIndex + 1 ∧ m.w3 i ≠ (m.joint i).qIndex + 2)
    (hdisj : ∀ j, j < m.joints.length → j ≠ i → ∀ a ∈ slots m i, a ∉ slots m j)
    (p : Quat α)
    (hp : p = quatPre (getQuaternionL m i s.Q)
      ⟨asmD solve trig m C wts s (m.joint i).qIndex, asmD solve trig m C wts s ((m.joint i).qIndex + 1),
       asmD solve trig m C wts s ((m.joint i).qIndex + 2)⟩)
    (hr : sqrt p.nrm2 * sqrt p.nrm2 = p.nrm2) (h0 : sqrt p.nrm2 ≠ 0) :
    (getQuaternionL m i s'.Q).nrm2 = 1 := by
  rw [(asmBody_state solve sqrt trig m C wts tol s s' hpass).1]
  exact assemblyUpdate_unit sqrt m _ i s.Q hi hs hlen hw hdisj p hp hr h0
/-- a pass from the unit quaternion `(0, 0, 3/5, 4/5)` with a solver that returns nothing: it falls
    through, and the hypotheses of `assemblyQ_pass_unit_quaternion` hold (`sqrt := fun _ => 1`) -/
example : (∃ s', asmBody Ex.noSolve Ex.one1 Ex.trig0 Ex.m2 (CSet.empty : CSet Rat) Ex.wts3 0
      ⟨Ex.w1, Ex.Qquat, fun _ => 0, fun _ => 0⟩ = .next s') ∧
    ∀ s', asmBody Ex.noSolve Ex.one1 Ex.trig0 Ex.m2 (CSet.empty : CSet Rat) Ex.wts3 0
      ⟨Ex.w1, Ex.Qquat, fun _ => 0, fun _ => 0⟩ = .next s' → (getQuaternionL Ex.m2 1 s'.Q).nrm2 = 1 := by
  constructor
  · rw [asmBody_eq]
    simp only
    rw [if_neg (by decide +kernel)]
    exact ⟨_, rfl⟩
  · intro s' h
    exact assemblyQ_pass_unit_quaternion Ex.noSolve Ex.one1 Ex.trig0 Ex.m2 CSet.empty Ex.wts3 0 _ s'
      (Or.inr h) 1 (by decide) (by decide) (by decide +kernel) (by decide +kernel) (by
        intro j hj hne
        have : j = 0 := by
          have : Ex.m2.joints.length = 2 := rfl
          omega
        subst this; decide +kernel) _ rfl (by decide +kernel) (by decide +kernel)

end asm

section asmorder
open Std
variable {α : Type} [Lean.Grind.Field α] [DecidableEq α] [LE α] [LT α] [DecidableLT α] [LawfulOrderLT α]
  [IsLinearOrder α] [Lean.Grind.OrderedRing α]

/-- **monotone in the tolerance**: a run of `CalcAssemblyQ` that succeeds after `n` passes with tolerance
    `t` succeeds after `n' ≤ n` passes with any `t' ≥ t` -/
theorem assemblyQ_tolerance_monotone (solve : Solver α) (sqrt : α → α) (trig : α → α × α) (m : ModelS α)
    (w : WS α) (Qinit : List α) (C : CSet α) (wts : VecN α) (t t' : α) (htt : t ≤ t') (maxIter n : Nat)
    (s' : AsmState α)
    (h : calcAssemblyQ solve sqrt trig m w Qinit C wts t maxIter = (true, n, s')) :
    ∃ n' s'', n' ≤ n ∧ calcAssemblyQ solve sqrt trig m w Qinit C wts t' maxIter = (true, n', s'') := by
  unfold calcAssemblyQ at h ⊢
  simp only at h ⊢
  split at h
  · next c =>
    rw [if_pos (normLt_mono _ t t' htt c)]
    exact ⟨0, _, Nat.zero_le _, rfl⟩
  · next c =>
    split
    · exact ⟨0, _, Nat.zero_le _, rfl⟩
    · apply runLoop_dominates _ _ _ maxIter 0 _ n s' h
      intro it s
      simp only [asmBody_eq]
      constructor
      · intro s1 h1
        split at h1
        · next c1 => rw [if_pos ⟨normLt_mono _ t t' htt c1.1, normLt_mono _ t t' htt c1.2⟩]; exact ⟨_, rfl⟩
        · cases h1
      · intro s1 h1
        split at h1
        · cases h1
        · next c1 =>
          cases h1
          split
          · right; exact ⟨_, rfl⟩
          · left; rfl
example := assemblyQ_tolerance_monotone Ex.noSolve Ex.one1 Ex.trig0 Ex.m2 Ex.w1 Ex.Qquat CSet.empty Ex.wts3 1 2
  (by decide +kernel) 1 _ _ (Ex.eta3 Ex.asmOk true Ex.asmOk_eq.1)
end asmorder

/-! ## 5. `CalcAssemblyQDot` -/
section qdot
open Std
variable {α : Type} [Lean.Grind.Field α] [DecidableEq α] [LE α] [LT α] [DecidableLT α] [LawfulOrderLT α]
  [IsLinearOrder α] [Lean.Grind.OrderedRing α]

/-- **velocity assembly, in the model's terms**: if the vector `x` the black-box solver returned solves
    the system `[W Gᵀ; G 0] x = [W q̇₀; 0]` the routine assembled (`G` the modelled constraint
    Jacobian), then the returned velocities have zero constraint velocity error `G q̇ = 0`, and for
    non-negative weights they are the weighted-least-squares closest to the initial guess among all
    velocities with `G y = 0` -/
theorem assemblyQDot_sound (solve : Solver α) (m : ModelS α) (w : WS α) (st : QS α) (qd0 : VecN α)
    (C : CSet α) (wts : VecN α)
    (hsol : Solves (m.dofCount + C.size)
      (kktMatrix m.dofCount wts (calcAssemblyQDot solve m w st qd0 C wts).2.1)
      (qdotRhs m.dofCount wts qd0) (calcAssemblyQDot solve m w st qd0 C wts).2.2.1)
    (hw : ∀ i, i < m.dofCount → 0 ≤ wts i) :
    let G := (calcAssemblyQDot solve m w st qd0 C wts).2.1
    let qd := (calcAssemblyQDot solve m w st qd0 C wts).2.2.2
    (∀ r, r < C.size → sumTo m.dofCount (fun j => G r j * qd j) = 0) ∧
    (∀ y : VecN α, (∀ r, r < C.size → sumTo m.dofCount (fun j => G r j * y j) = 0) →
      wlsCost m.dofCount wts qd0 qd ≤ wlsCost m.dofCount wts qd0 y) := by
  intro G qd
  let x := (calcAssemblyQDot solve m w st qd0 C wts).2.2.1
  have hqd : ∀ i, i < m.dofCount → qd i = x i := fun i hi => if_pos hi
  have hfeas : ∀ r, r < C.size → sumTo m.dofCount (fun j => G r j * x j) = 0 := by
    intro r hr
    have := kkt_row_bottom m.dofCount C.size wts G _ x hsol r hr
    rw [this]; simp [qdotRhs]
  have hstat : ∀ i, i < m.dofCount →
      wts i * x i + sumTo C.size (fun k => G k i * x (m.dofCount + k)) = wts i * qd0 i := by
    intro i hi
    have := kkt_row_top m.dofCount C.size wts G _ x hsol i hi
    rw [this]; simp [qdotRhs, hi]
  refine ⟨fun r hr => ?_, fun y hy => ?_⟩
  · rw [sum_congr _ _ (fun j => G r j * x j) (fun j hj => by rw [hqd j hj])]
    exact hfeas r hr
  · have e : wlsCost m.dofCount wts qd0 qd = wlsCost m.dofCount wts qd0 x := by
      unfold wlsCost
      exact sum_congr _ _ _ (fun i hi => by rw [hqd i hi])
    rw [e]
    exact wls_sum m.dofCount C.size wts G qd0 x (fun k => x (m.dofCount + k)) hw hstat hfeas y hy
example := assemblyQDot_sound Ex.exactSolve Ex.m3 Ex.w3 (mkQS Ex.trig0 Ex.Q0) Ex.qd0 Ex.cs3 Ex.wts2
  (fun r hr => Ex.qdotRun_facts.2.2.2.2.2.1 r hr) Ex.qdotRun_facts.2.2.2.2.2.2

end qdot

section matrix
open Matrix
variable {K : Type*} {mm nn : Type*} [Fintype mm] [Fintype nn] [DecidableEq nn]
  [_root_.Field K] [LinearOrder K] [IsStrictOrderedRing K]

/-- **velocity assembly, pure linear algebra** (arbitrary dimensions, Mathlib matrices): a solution
    `(x, λ)` of `[W Gᵀ; G 0] [x; λ] = [W q̇₀; 0]` with `W = diag w`, `w ≥ 0`, satisfies `G x = 0` and
    minimises `Σ wᵢ (yᵢ − q̇₀ᵢ)²` over `{y | G y = 0}` -/
theorem velocity_assembly_wls (w : nn → K) (hw : ∀ i, 0 ≤ w i) (G : Matrix mm nn K) (q0 x : nn → K)
    (l : mm → K)
    (h : fromBlocks (diagonal w) Gᵀ G 0 *ᵥ Sum.elim x l = Sum.elim (diagonal w *ᵥ q0) 0) :
    G *ᵥ x = 0 ∧
    ∀ y, G *ᵥ y = 0 → ∑ i, w i * ((x i - q0 i) * (x i - q0 i)) ≤ ∑ i, w i * ((y i - q0 i) * (y i - q0 i)) :=
  wls_optimal_diagonal w hw G q0 x l h
example := velocity_assembly_wls KEx.w KEx.w_nonneg KEx.G KEx.q0 KEx.x KEx.l KEx.block

/-- … and for positive weights it is the only minimiser -/
theorem velocity_assembly_wls_unique (w : nn → K) (hw : ∀ i, 0 < w i) (G : Matrix mm nn K) (q0 x : nn → K)
    (l : mm → K)
    (h : fromBlocks (diagonal w) Gᵀ G 0 *ᵥ Sum.elim x l = Sum.elim (diagonal w *ᵥ q0) 0)
    (y : nn → K) (hy : G *ᵥ y = 0)
    (hc : (y - q0) ⬝ᵥ diagonal w *ᵥ (y - q0) = (x - q0) ⬝ᵥ diagonal w *ᵥ (x - q0)) : y = x := by
  obtain ⟨h1, h2⟩ := (wls_block _ G q0 x l).mp h
  refine wls_unique (diagonal w) (isSymm_diagonal w) ?_ G q0 x l h1 h2 y hy hc
  intro v hv
  rw [diagonal_quadratic] at hv
  have hnn : ∀ i ∈ Finset.univ, 0 ≤ w i * (v i * v i) :=
    fun i _ => mul_nonneg (le_of_lt (hw i)) (mul_self_nonneg (v i))
  have hz := (Finset.sum_eq_zero_iff_of_nonneg hnn).mp hv
  funext i
  have := hz i (Finset.mem_univ i)
  have h2 : v i * v i = 0 := by
    rcases mul_eq_zero.mp this with h | h
    · exact absurd h (ne_of_gt (hw i))
    · exact h
  exact mul_self_eq_zero.mp h2
example := velocity_assembly_wls_unique KEx.w KEx.w_pos KEx.G KEx.q0 KEx.x KEx.l KEx.block KEx.x KEx.feas rfl

end matrix

end Rbdl.C17
