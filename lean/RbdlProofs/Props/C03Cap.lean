import RbdlProofs.Lemmas.LDynCapH
import RbdlProofs.Lemmas.LDynCapCom4
import RbdlProofs.Lemmas.LDynCapFinal
import RbdlProofs.Lemmas.LDynCapBuild
import RbdlProofs.Lemmas.LDynCapOrder
import RbdlProofs.Lemmas.LDynCapEx
/-
  C03, capstone — **`NonlinearEffects`, `CompositeRigidBodyAlgorithm` equal their first-principles
  specifications.**

  Specification side (`Rbdl/Spec/Mech.lean`): `Spec.newtonEulerTau` (Newton–Euler balance of every body
  in the inertial frame, projected on the partial velocities) and `Spec.inertiaMatrix`
  (`H = Σ_bodies m ∂ċ/∂q̇_r·∂ċ/∂q̇_c + ∂ω/∂q̇_r·(R I Rᵀ ∂ω/∂q̇_c)`, partial velocities = first-order jets of
  the forward kinematics for the unit velocities), `Spec.kineticEnergy`.  Code side: `nonlinearEffects`,
  `crba` of `Rbdl/Dyn.lean`, `calcKineticEnergy` of `Rbdl/Utils.lean`, update flag `true`,
  zero-initialised `H`, every `WSFixed` workspace.

  (ii) `nonlinearEffects_eq_newtonEuler…`   (i) `crba_eq_inertiaMatrix…` (entries and whole list; all
  joint types incl. custom joints)   (iii) `calcKineticEnergy_eq_spec…`, `calcKineticEnergy_eq_quadratic`
  (`T = ½ q̇ᵀ H q̇` with the `crba` matrix), `kineticEnergy_eq_quadratic…` (the same on the specification).
  Proof of (i): `H(r,c) = Σ_k V_r[k]·I_k V_c[k]` on both sides (`LDynCap.crba_entry_sum` from the algebraic
  core of C03, `LDynCap.inertiaMatrix_entry` from the jets), `V_x[k]` the partial velocities.

  Notions: `Refines`, `RefinesF`, `ModelOK`, `StateOK`, `WSFixed`, `stateOf`, `fextSpec`, `goodRun`,
  `goodRunF`, `specOf` as in `Props/C01Cap.lean`; new (`RbdlProofs/Lemmas/LDynCap*.lean`):
  * `OrderOK m`   `mJointUpdateOrder` (without its leading 0) is a permutation of the movable bodies
                  (`NonlinearEffects` runs `jcalc` in that order; the C++ validates it at run time);
                  established by construction (`LDynCap.orderOK_by_construction(F)`), so the end-to-end
                  statements do not mention it;
  * `VirtZero m`  virtual bodies carry the zero spatial inertia (`inverseDynamics` skips the body force
                  of a virtual body, `crba` does not: C02 has the counterexample).  Part of `RefinesF`;
                  an explicit hypothesis for `Refines`.
-/
namespace Rbdl.C03Cap
open Lean.Grind Rbdl Rbdl.Spec Rbdl.L01Cap Rbdl.LDynCap
variable {α : Type} [Field α] [DecidableEq α]

/-! ### (ii) `NonlinearEffects` -/

/-- **`NonlinearEffects` = first-principles Newton–Euler forces at `q̈ = 0`** (arbitrary trees, all
    joint types, external forces, every `WSFixed` workspace) -/
theorem nonlinearEffects_eq_newtonEuler {m : ModelS α} {M : SModel α} (hm : ModelOK m)
    (hR : Refines m M) (hord : OrderOK m) (h2 : (2 : α) ≠ 0) (w : WS α) (hw : WSFixed m w)
    (st : QS α) (hst : StateOK m st) (qd tau : VecN α) (fext : Option (Nat → SV α)) (x : Nat)
    (hx : x < m.dofCount) :
    (nonlinearEffects m w st qd tau fext).2 x
      = (newtonEulerTau M (stateOf st qd (fun _ => 0)) (fextSpec fext)).getD x 0 := by
  rw [ne_eq_id0 hm hord w hw st qd tau fext x hx]
  exact id_eq_spec hm hR h2 w hw st hst qd _ tau fext x hx

/-- … with fixed bodies -/
theorem nonlinearEffects_eq_newtonEuler_fixed {m : ModelS α} {M : SModel α} {off : Nat → XT α}
    {nodeOf : Nat → Nat} (hm : ModelOK m) (hR : RefinesF m M off nodeOf) (hord : OrderOK m)
    (h2 : (2 : α) ≠ 0) (w : WS α) (hw : WSFixed m w) (st : QS α) (hst : StateOK m st)
    (qd tau : VecN α) (fext : Option (Nat → SV α)) (x : Nat) (hx : x < m.dofCount) :
    (nonlinearEffects m w st qd tau fext).2 x
      = (newtonEulerTau M (stateOf st qd (fun _ => 0)) (fextSpec fext)).getD x 0 := by
  rw [ne_eq_id0 hm hord w hw st qd tau fext x hx]
  exact id_eq_specF hm hR h2 w hw st hst qd _ tau fext x hx

/-- end to end: construction calls in, `NonlinearEffects` out (`OrderOK` holds by construction:
    `LDynCap.orderOK_by_constructionF`) -/
theorem nonlinearEffects_eq_newtonEuler_constructedF (ops : List (Op α))
    (hg : goodRunF (ModelS.init : ModelS α) ops) (h2 : (2 : α) ≠ 0) (w : WS α)
    (hw : WSFixed ((ModelS.init : ModelS α).run ops) w) (st : QS α)
    (hst : StateOK ((ModelS.init : ModelS α).run ops) st) (qd tau : VecN α)
    (fext : Option (Nat → SV α)) (x : Nat) (hx : x < ((ModelS.init : ModelS α).run ops).dofCount) :
    (nonlinearEffects ((ModelS.init : ModelS α).run ops) w st qd tau fext).2 x
      = (newtonEulerTau (specOf ops) (stateOf st qd (fun _ => 0)) (fextSpec fext)).getD x 0 :=
  have h := refinesF_by_construction ops hg
  nonlinearEffects_eq_newtonEuler_fixed h.1 h.2 (orderOK_by_constructionF ops hg) h2 w hw st hst qd
    tau fext x hx

theorem nonlinearEffects_eq_newtonEuler_constructed (ops : List (Op α))
    (hg : goodRun (ModelS.init : ModelS α) ops) (h2 : (2 : α) ≠ 0) (w : WS α)
    (hw : WSFixed ((ModelS.init : ModelS α).run ops) w) (st : QS α)
    (hst : StateOK ((ModelS.init : ModelS α).run ops) st) (qd tau : VecN α)
    (fext : Option (Nat → SV α)) (x : Nat) (hx : x < ((ModelS.init : ModelS α).run ops).dofCount) :
    (nonlinearEffects ((ModelS.init : ModelS α).run ops) w st qd tau fext).2 x
      = (newtonEulerTau (specOf ops) (stateOf st qd (fun _ => 0)) (fextSpec fext)).getD x 0 :=
  have h := refines_by_construction ops hg
  nonlinearEffects_eq_newtonEuler h.1 h.2 (orderOK_by_construction ops hg) h2 w hw st hst qd tau
    fext x hx

/-- the hypotheses on the branched tree `L01Cap.Ex` (Euler-ZYX, revolute, spherical, prismatic, helical
    joints) and on `L01Cap.ExF` (floating base, fixed bodies, custom joint); poisoned workspaces -/
example (x : Nat) (hx : x < Ex.m.dofCount) :=
  nonlinearEffects_eq_newtonEuler Ex.m_ok Ex.m_refines ex_order Ex.two_ne Ex.w1 Ex.w1_fixed Ex.st
    Ex.st_ok Ex.qd Ex.tau0 (some Ex.fe) x hx
example (x : Nat) (hx : x < ExF.m.dofCount) :=
  nonlinearEffects_eq_newtonEuler_fixed ExF.m_ok ExF.m_refines exF_order Ex.two_ne ExF.w1
    ExF.w1_fixed ExF.st ExF.st_ok Ex.qd Ex.tau0 (some Ex.fe) x hx
example (x : Nat) (hx : x < ExF.m.dofCount) :=
  nonlinearEffects_eq_newtonEuler_constructedF ExF.ops ExF.ops_good Ex.two_ne ExF.w1
    ExF.w1_fixed ExF.st ExF.st_ok Ex.qd Ex.tau0 none x hx
example (x : Nat) (hx : x < Ex.m.dofCount) :=
  nonlinearEffects_eq_newtonEuler_constructed Ex.ops Ex.ops_good Ex.two_ne Ex.w0
    Ex.w0_fixed Ex.st Ex.st_ok Ex.qd Ex.tau0 none x hx
/-- numerical sanity checks (kernel evaluation over `Rat`, both sides computed independently) -/
example : (nonlinearEffects Ex.m Ex.w1 Ex.st Ex.qd Ex.tau0 (some Ex.fe)).2 0
    = (newtonEulerTau Ex.M (stateOf Ex.st Ex.qd (fun _ => 0)) (fextSpec (some Ex.fe))).getD 0 0 := by
  decide +kernel
example : (nonlinearEffects Ex.m Ex.w1 Ex.st Ex.qd Ex.tau0 (some Ex.fe)).2 4
    = (newtonEulerTau Ex.M (stateOf Ex.st Ex.qd (fun _ => 0)) (fextSpec (some Ex.fe))).getD 4 0 := by
  decide +kernel
example : (nonlinearEffects ExF.m ExF.w1 ExF.st Ex.qd Ex.tau0 (some Ex.fe)).2 8
    = (newtonEulerTau ExF.M (stateOf ExF.st Ex.qd (fun _ => 0)) (fextSpec (some Ex.fe))).getD 8 0 := by
  decide +kernel
example : (nonlinearEffects ExF.m ExF.w0 ExF.st Ex.qd Ex.tau0 none).2 11
    = (newtonEulerTau ExF.M (stateOf ExF.st Ex.qd (fun _ => 0)) (fextSpec none)).getD 11 0 := by
  decide +kernel

/-! ### (i) `CompositeRigidBodyAlgorithm` -/

/-- **`CompositeRigidBodyAlgorithm` = first-principles joint-space inertia matrix**: entry `(r, c)` of
    the matrix `crba` computes from a zero matrix (with kinematics update, every `WSFixed` workspace)
    is entry `(r, c)` of `Spec.inertiaMatrix` (row-major list) — arbitrary trees with fixed bodies,
    every joint type `jcalc` handles incl. the custom joints; the specification does not read the
    velocity / acceleration part of the state. -/
theorem crba_eq_inertiaMatrix_fixed {m : ModelS α} {M : SModel α} {off : Nat → XT α}
    {nodeOf : Nat → Nat} (hm : ModelOK m) (hR : RefinesF m M off nodeOf) (h2 : (2 : α) ≠ 0)
    (w : WS α) (hw : WSFixed m w) (st : QS α) (hst : StateOK m st) (qd qdd : VecN α) (r c : Nat)
    (hr : r < m.dofCount) (hc : c < m.dofCount) :
    (crba m w st (fun _ _ => 0) true).2 r c
      = (inertiaMatrix M (stateOf st qd qdd)).getD (r * m.dofCount + c) 0 := by
  rw [crba_entry_sum hm w hw st hst r c hr hc,
    inertiaMatrix_entry hm (link_of_refinesF hm hR) h2 w hw st hst qd qdd r c hr hc]

/-- … without fixed bodies (`Refines`); virtual bodies must carry the zero inertia -/
theorem crba_eq_inertiaMatrix {m : ModelS α} {M : SModel α} (hm : ModelOK m) (hR : Refines m M)
    (hv : VirtZero m) (h2 : (2 : α) ≠ 0) (w : WS α) (hw : WSFixed m w) (st : QS α)
    (hst : StateOK m st) (qd qdd : VecN α) (r c : Nat) (hr : r < m.dofCount)
    (hc : c < m.dofCount) :
    (crba m w st (fun _ _ => 0) true).2 r c
      = (inertiaMatrix M (stateOf st qd qdd)).getD (r * m.dofCount + c) 0 := by
  rw [crba_entry_sum hm w hw st hst r c hr hc,
    inertiaMatrix_entry hm (link_of_refines hm hR hv) h2 w hw st hst qd qdd r c hr hc]

/-- end to end, with fixed bodies, floating bases and custom joints -/
theorem crba_eq_inertiaMatrix_constructedF (ops : List (Op α))
    (hg : goodRunF (ModelS.init : ModelS α) ops) (h2 : (2 : α) ≠ 0) (w : WS α)
    (hw : WSFixed ((ModelS.init : ModelS α).run ops) w) (st : QS α)
    (hst : StateOK ((ModelS.init : ModelS α).run ops) st) (qd qdd : VecN α) (r c : Nat)
    (hr : r < ((ModelS.init : ModelS α).run ops).dofCount)
    (hc : c < ((ModelS.init : ModelS α).run ops).dofCount) :
    (crba ((ModelS.init : ModelS α).run ops) w st (fun _ _ => 0) true).2 r c
      = (inertiaMatrix (specOf ops) (stateOf st qd qdd)).getD
          (r * ((ModelS.init : ModelS α).run ops).dofCount + c) 0 :=
  have h := refinesF_by_construction ops hg
  crba_eq_inertiaMatrix_fixed h.1 h.2 h2 w hw st hst qd qdd r c hr hc

theorem crba_eq_inertiaMatrix_constructed (ops : List (Op α))
    (hg : goodRun (ModelS.init : ModelS α) ops) (h2 : (2 : α) ≠ 0) (w : WS α)
    (hw : WSFixed ((ModelS.init : ModelS α).run ops) w) (st : QS α)
    (hst : StateOK ((ModelS.init : ModelS α).run ops) st) (qd qdd : VecN α) (r c : Nat)
    (hr : r < ((ModelS.init : ModelS α).run ops).dofCount)
    (hc : c < ((ModelS.init : ModelS α).run ops).dofCount) :
    (crba ((ModelS.init : ModelS α).run ops) w st (fun _ _ => 0) true).2 r c
      = (inertiaMatrix (specOf ops) (stateOf st qd qdd)).getD
          (r * ((ModelS.init : ModelS α).run ops).dofCount + c) 0 :=
  have h := refines_by_construction ops hg
  crba_eq_inertiaMatrix h.1 h.2 (virtZero_by_construction ops hg) h2 w hw st hst qd qdd r c hr hc


example (r c : Nat) (hr : r < ExF.m.dofCount) (hc : c < ExF.m.dofCount) :=
  crba_eq_inertiaMatrix_fixed ExF.m_ok ExF.m_refines Ex.two_ne ExF.w1 ExF.w1_fixed ExF.st ExF.st_ok
    Ex.qd Ex.qdd r c hr hc
example (r c : Nat) (hr : r < Ex.m.dofCount) (hc : c < Ex.m.dofCount) :=
  crba_eq_inertiaMatrix Ex.m_ok Ex.m_refines (virtZero_by_construction Ex.ops Ex.ops_good) Ex.two_ne
    Ex.w1 Ex.w1_fixed Ex.st Ex.st_ok Ex.qd Ex.qdd r c hr hc
example (r c : Nat) (hr : r < ExF.m.dofCount) (hc : c < ExF.m.dofCount) :=
  crba_eq_inertiaMatrix_constructedF ExF.ops ExF.ops_good Ex.two_ne ExF.w1 ExF.w1_fixed ExF.st
    ExF.st_ok Ex.qd Ex.qdd r c hr hc
example (r c : Nat) (hr : r < Ex.m.dofCount) (hc : c < Ex.m.dofCount) :=
  crba_eq_inertiaMatrix_constructed Ex.ops Ex.ops_good Ex.two_ne Ex.w0 Ex.w0_fixed Ex.st Ex.st_ok
    Ex.qd Ex.qdd r c hr hc
/-- numerical sanity checks: a diagonal entry, the coupling of the spherical joint with the Euler joint
    at the root (`Ex`: 9 DoF), and — with fixed bodies — the coupling of the floating base with the
    shank behind the fixed bodies and with the custom joint (`ExF`: 12 DoF) -/
example : (crba Ex.m Ex.w1 Ex.st (fun _ _ => 0) true).2 0 0
    = (inertiaMatrix Ex.M (stateOf Ex.st Ex.qd Ex.qdd)).getD (0 * 9 + 0) 0 := by decide +kernel
example : (crba Ex.m Ex.w1 Ex.st (fun _ _ => 0) true).2 5 1
    = (inertiaMatrix Ex.M (stateOf Ex.st Ex.qd Ex.qdd)).getD (5 * 9 + 1) 0 := by decide +kernel
example : (crba ExF.m ExF.w1 ExF.st (fun _ _ => 0) true).2 8 1
    = (inertiaMatrix ExF.M (stateOf ExF.st Ex.qd Ex.qdd)).getD (8 * 12 + 1) 0 := by decide +kernel
example : (crba ExF.m ExF.w1 ExF.st (fun _ _ => 0) true).2 4 11
    = (inertiaMatrix ExF.M (stateOf ExF.st Ex.qd Ex.qdd)).getD (4 * 12 + 11) 0 := by decide +kernel
/-- the value itself is not a trivial number -/
example : (crba ExF.m ExF.w1 ExF.st (fun _ _ => 0) true).2 4 11 ≠ 0 := by decide +kernel

/-- the whole matrix: the `dof_count × dof_count` block, row-major, is the list `Spec.inertiaMatrix`
    returns -/
theorem crba_eq_inertiaMatrix_list_fixed {m : ModelS α} {M : SModel α} {off : Nat → XT α}
    {nodeOf : Nat → Nat} (hm : ModelOK m) (hR : RefinesF m M off nodeOf) (h2 : (2 : α) ≠ 0)
    (w : WS α) (hw : WSFixed m w) (st : QS α) (hst : StateOK m st) (qd qdd : VecN α) :
    (List.range m.dofCount).flatMap (fun r => (List.range m.dofCount).map (fun c =>
        (crba m w st (fun _ _ => 0) true).2 r c))
      = inertiaMatrix M (stateOf st qd qdd) :=
  crba_list_eq_spec hm (link_of_refinesF hm hR) h2 w hw st hst qd qdd
example := crba_eq_inertiaMatrix_list_fixed ExF.m_ok ExF.m_refines Ex.two_ne ExF.w1 ExF.w1_fixed
  ExF.st ExF.st_ok Ex.qd Ex.qdd

theorem crba_eq_inertiaMatrix_list_constructedF (ops : List (Op α))
    (hg : goodRunF (ModelS.init : ModelS α) ops) (h2 : (2 : α) ≠ 0) (w : WS α)
    (hw : WSFixed ((ModelS.init : ModelS α).run ops) w) (st : QS α) (hst : StateOK ((ModelS.init : ModelS α).run ops) st) (qd qdd : VecN α) :
    (List.range ((ModelS.init : ModelS α).run ops).dofCount).flatMap (fun r => (List.range ((ModelS.init : ModelS α).run ops).dofCount).map (fun c =>
        (crba ((ModelS.init : ModelS α).run ops) w st (fun _ _ => 0) true).2 r c))
      = inertiaMatrix (specOf ops) (stateOf st qd qdd) :=
  have h := refinesF_by_construction ops hg
  crba_eq_inertiaMatrix_list_fixed h.1 h.2 h2 w hw st hst qd qdd
example := crba_eq_inertiaMatrix_list_constructedF ExF.ops ExF.ops_good Ex.two_ne ExF.w1 ExF.w1_fixed
  ExF.st ExF.st_ok Ex.qd Ex.qdd

/-! ### (iii) `CalcKineticEnergy` -/

/-- **`CalcKineticEnergy` = `Spec.kineticEnergy`** `= Σ_bodies ½ m |ċ|² + ½ ω·(R I Rᵀ ω)` with the
    velocities of the centres of mass and the angular velocities from the first-order jets of the
    forward kinematics (bodies fixed to the base included: they do not move) -/
theorem calcKineticEnergy_eq_spec_fixed {m : ModelS α} {M : SModel α} {off : Nat → XT α}
    {nodeOf : Nat → Nat} (hm : ModelOK m) (hR : RefinesF m M off nodeOf) (h2 : (2 : α) ≠ 0)
    (w : WS α) (hw : WSFixed m w) (st : QS α) (hst : StateOK m st) (qd qdd : VecN α) :
    (calcKineticEnergy m w st qd true).2 = kineticEnergy M (stateOf st qd qdd) :=
  ke_spec hm (link_of_refinesF hm hR) h2 w hw st hst qd qdd

theorem calcKineticEnergy_eq_spec {m : ModelS α} {M : SModel α} (hm : ModelOK m)
    (hR : Refines m M) (hv : VirtZero m) (h2 : (2 : α) ≠ 0) (w : WS α) (hw : WSFixed m w)
    (st : QS α) (hst : StateOK m st) (qd qdd : VecN α) :
    (calcKineticEnergy m w st qd true).2 = kineticEnergy M (stateOf st qd qdd) :=
  ke_spec hm (link_of_refines hm hR hv) h2 w hw st hst qd qdd

theorem calcKineticEnergy_eq_spec_constructedF (ops : List (Op α))
    (hg : goodRunF (ModelS.init : ModelS α) ops) (h2 : (2 : α) ≠ 0) (w : WS α)
    (hw : WSFixed ((ModelS.init : ModelS α).run ops) w) (st : QS α) (hst : StateOK ((ModelS.init : ModelS α).run ops) st) (qd qdd : VecN α) :
    (calcKineticEnergy ((ModelS.init : ModelS α).run ops) w st qd true).2 = kineticEnergy (specOf ops) (stateOf st qd qdd) :=
  have h := refinesF_by_construction ops hg
  calcKineticEnergy_eq_spec_fixed h.1 h.2 h2 w hw st hst qd qdd

theorem calcKineticEnergy_eq_spec_constructed (ops : List (Op α))
    (hg : goodRun (ModelS.init : ModelS α) ops) (h2 : (2 : α) ≠ 0) (w : WS α)
    (hw : WSFixed ((ModelS.init : ModelS α).run ops) w) (st : QS α) (hst : StateOK ((ModelS.init : ModelS α).run ops) st) (qd qdd : VecN α) :
    (calcKineticEnergy ((ModelS.init : ModelS α).run ops) w st qd true).2 = kineticEnergy (specOf ops) (stateOf st qd qdd) :=
  have h := refines_by_construction ops hg
  calcKineticEnergy_eq_spec h.1 h.2 (virtZero_by_construction ops hg) h2 w hw st hst qd qdd

example := calcKineticEnergy_eq_spec_fixed ExF.m_ok ExF.m_refines Ex.two_ne ExF.w1 ExF.w1_fixed ExF.st
  ExF.st_ok Ex.qd Ex.qdd
example := calcKineticEnergy_eq_spec Ex.m_ok Ex.m_refines (virtZero_by_construction Ex.ops Ex.ops_good)
  Ex.two_ne Ex.w1 Ex.w1_fixed Ex.st Ex.st_ok Ex.qd Ex.qdd
example := calcKineticEnergy_eq_spec_constructedF ExF.ops ExF.ops_good Ex.two_ne ExF.w1 ExF.w1_fixed
  ExF.st ExF.st_ok Ex.qd Ex.qdd
example := calcKineticEnergy_eq_spec_constructed Ex.ops Ex.ops_good Ex.two_ne Ex.w1 Ex.w1_fixed Ex.st
  Ex.st_ok Ex.qd Ex.qdd
example : (calcKineticEnergy ExF.m ExF.w1 ExF.st Ex.qd true).2
    = kineticEnergy ExF.M (stateOf ExF.st Ex.qd Ex.qdd) := by decide +kernel
example : (calcKineticEnergy Ex.m Ex.w1 Ex.st Ex.qd true).2
    = kineticEnergy Ex.M (stateOf Ex.st Ex.qd Ex.qdd) := by decide +kernel

/-- **`CalcKineticEnergy = ½ q̇ᵀ H q̇`** with the matrix `CompositeRigidBodyAlgorithm` computes (a statement
    about the two routines alone: `ModelOK`, admissible state, `WSFixed` workspace) -/
theorem calcKineticEnergy_eq_quadratic {m : ModelS α} (hm : ModelOK m) (h2 : (2 : α) ≠ 0)
    (w : WS α) (hw : WSFixed m w) (st : QS α) (hst : StateOK m st) (qd : VecN α) :
    (calcKineticEnergy m w st qd true).2
      = sumTo m.dofCount (fun r => sumTo m.dofCount (fun c =>
          qd r * (crba m w st (fun _ _ => 0) true).2 r c * qd c)) / 2 :=
  ke_eq_quadratic hm h2 w hw st hst qd
example := calcKineticEnergy_eq_quadratic ExF.m_ok Ex.two_ne ExF.w1 ExF.w1_fixed ExF.st ExF.st_ok
  Ex.qd

/-- … and on the specification side: **`Spec.kineticEnergy = ½ q̇ᵀ H_spec q̇`** for every specification
    model that describes a code-level model (`w`: any reachable workspace of that model) -/
theorem kineticEnergy_eq_quadratic_fixed {m : ModelS α} {M : SModel α} {off : Nat → XT α}
    {nodeOf : Nat → Nat} (hm : ModelOK m) (hR : RefinesF m M off nodeOf) (h2 : (2 : α) ≠ 0)
    (w : WS α) (hw : WSFixed m w) (st : QS α) (hst : StateOK m st) (qd qdd : VecN α) :
    kineticEnergy M (stateOf st qd qdd)
      = sumTo m.dofCount (fun r => sumTo m.dofCount (fun c =>
          qd r * (inertiaMatrix M (stateOf st qd qdd)).getD (r * m.dofCount + c) 0 * qd c)) / 2 :=
  ke_spec_quadratic hm (link_of_refinesF hm hR) h2 w hw st hst qd qdd
example := kineticEnergy_eq_quadratic_fixed ExF.m_ok ExF.m_refines Ex.two_ne ExF.w1 ExF.w1_fixed
  ExF.st ExF.st_ok Ex.qd Ex.qdd

theorem kineticEnergy_eq_quadratic {m : ModelS α} {M : SModel α} (hm : ModelOK m)
    (hR : Refines m M) (hv : VirtZero m) (h2 : (2 : α) ≠ 0) (w : WS α) (hw : WSFixed m w)
    (st : QS α) (hst : StateOK m st) (qd qdd : VecN α) :
    kineticEnergy M (stateOf st qd qdd)
      = sumTo m.dofCount (fun r => sumTo m.dofCount (fun c =>
          qd r * (inertiaMatrix M (stateOf st qd qdd)).getD (r * m.dofCount + c) 0 * qd c)) / 2 :=
  ke_spec_quadratic hm (link_of_refines hm hR hv) h2 w hw st hst qd qdd
example := kineticEnergy_eq_quadratic Ex.m_ok Ex.m_refines
  (virtZero_by_construction Ex.ops Ex.ops_good) Ex.two_ne Ex.w1 Ex.w1_fixed Ex.st Ex.st_ok Ex.qd
  Ex.qdd

end Rbdl.C03Cap
