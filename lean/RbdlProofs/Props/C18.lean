import RbdlProofs.Lemmas.L18Chain
import Rbdl.Geom.TorqueMuscle
/-
  C18 — muscle curves: the quintic Bezier toolkit and `SmoothSegmentedFunction`.

  Specification (`Rbdl/Geom/Spec.lean`): formal derivatives are Taylor coefficients in the truncated
  series ring α[ε]/(ε^7) (`Spec.taylor p u` = the Bernstein form evaluated at `u + ε`), and
  d^k y / dx^k is the chain rule applied recursively, `D f = (df/dε) / (dx/dε)` on series
  (`Spec.dydx`).  The code-shaped formulas (`Rbdl/Geom/BezierGen.lean`, generated from the C++ text)
  are proved equal to it.
-/
namespace Rbdl.C18
open Lean.Grind Rbdl.Geom Rbdl.L18

section ring
variable {α : Type} [CommRing α]

/-- 1 : `calcQuinticBezierCurveVal` is the Bernstein form -/
theorem bezVal_eq_bernstein (u : α) (p : P6 α) : bezVal u p = Spec.derivU p u 0 := by
  simp only [Spec.derivU, Spec.fact, T6.coeff, taylor_c0]; grind

/-- 2 : `calcQuinticBezierCurveDerivU(u, pts, k)` is the k-th formal derivative of the value
    polynomial for k = 1..5, and 0 (the `default:` branch) agrees with the 6th formal derivative -/
theorem derivU_eq_formal (u : α) (p : P6 α) (k : Nat) (h1 : 1 ≤ k) (h6 : k ≤ 6) :
    derivU u p k = Spec.derivU p u k := by
  have e1 := derivU_c1 u p; have e2 := derivU_c2 u p; have e3 := derivU_c3 u p
  have e4 := derivU_c4 u p; have e5 := derivU_c5 u p; have e6 := derivU_c6 u p
  match k, h1, h6 with
  | 1, _, _ => simp only [Spec.derivU, Spec.fact, T6.coeff, e1]
  | 2, _, _ => simp only [Spec.derivU, Spec.fact, T6.coeff, e2]
  | 3, _, _ => simp only [Spec.derivU, Spec.fact, T6.coeff, e3]
  | 4, _, _ => simp only [Spec.derivU, Spec.fact, T6.coeff, e4]
  | 5, _, _ => simp only [Spec.derivU, Spec.fact, T6.coeff, e5]
  | 6, _, _ => simp only [Spec.derivU, Spec.fact, T6.coeff, e6]

/-- 2b : orders above 5 return 0 -/
theorem derivU_high (u : α) (p : P6 α) (k : Nat) (h : 6 ≤ k) : derivU u p k = 0 := by
  match k, h with
  | n+6, _ => rfl

/-- 3 : shifting the control values shifts the value (partition of unity), scaling scales it -/
theorem bezVal_shift (u d : α) (p : P6 α) : bezVal u (p.map (· + d)) = bezVal u p + d := by
  simp only [bezVal, P6.map]; grind
theorem bezVal_scale (u s : α) (p : P6 α) : bezVal u (p.map (· * s)) = bezVal u p * s := by
  simp only [bezVal, P6.map]; grind
/-- 3b : reversing the control values mirrors the parameter (what `scale` does for a negative x scale:
    the mirrored section, traversed with `1 - u`, has the same points) -/
theorem bezVal_rev (u : α) (p : P6 α) : bezVal (1 - u) p.rev = bezVal u p := by
  simp only [bezVal, P6.rev]; grind
end ring

section field
variable {α : Type} [Field α]

/-- 4 : `calcQuinticBezierCurveDerivDYDX(u, xpts, ypts, k)`, k = 1..6, is the k-fold chain rule
    `((1/x') d/du)^k y` (on formal series) wherever dx/du ≠ 0 -/
theorem derivDYDX_eq_chainRule (u : α) (X Y : P6 α) (k : Nat) (h1 : 1 ≤ k) (h6 : k ≤ 6)
    (hx : derivU u X 1 ≠ 0) : derivDYDX u X Y k = Spec.dydx X Y u k := by
  have hx' : (Spec.taylor X u).c1 ≠ 0 := by
    intro h0; apply hx; rw [derivU_c1, h0]; grind
  simp only [Spec.dydx, dydxSeries_eq_chain]
  match k, h1, h6 with
  | 1, _, _ => rw [chain1 _ _ hx']; simp only [derivDYDX, derivDYDX1, derivU_c1]
  | 2, _, _ => rw [chain2 _ _ hx']; simp only [derivDYDX, derivDYDX2, derivU_c1, derivU_c2]
  | 3, _, _ => rw [chain3 _ _ hx']; simp only [derivDYDX, derivDYDX3, derivU_c1, derivU_c2, derivU_c3]
  | 4, _, _ =>
    rw [chain4 _ _ hx']; simp only [derivDYDX, derivDYDX4, derivU_c1, derivU_c2, derivU_c3, derivU_c4]
  | 5, _, _ =>
    rw [chain5 _ _ hx']
    simp only [derivDYDX, derivDYDX5, derivU_c1, derivU_c2, derivU_c3, derivU_c4, derivU_c5]
  | 6, _, _ =>
    rw [chain6 _ _ hx']
    simp only [derivDYDX, derivDYDX6, derivU_c1, derivU_c2, derivU_c3, derivU_c4, derivU_c5, derivU_c6]

/-- 4a : the familiar closed forms of the first two orders -/
theorem derivDYDX_one (u : α) (X Y : P6 α) : derivDYDX u X Y 1 = derivU u Y 1 / derivU u X 1 := by
  simp only [derivDYDX, derivDYDX1]
theorem derivDYDX_two (u : α) (X Y : P6 α) (hx : derivU u X 1 ≠ 0) :
    derivDYDX u X Y 2 =
      (derivU u Y 2 * derivU u X 1 - derivU u Y 1 * derivU u X 2) / (derivU u X 1 * derivU u X 1 * derivU u X 1) := by
  simp only [derivDYDX, derivDYDX2]; grind

example : derivU (1/3 : Rat) (⟨0, 1/10, 3/10, 6/10, 8/10, 1⟩ : P6 Rat) 1 ≠ 0 := by
  simp only [derivU, derivU1]; grind
end field

/-! ### corner sections (`calcQuinticBezierCornerControlPoints`) and their assembly -/
section corner
variable {α : Type} [Field α] [IsCharP α 0]

/-- 5 : in the non-degenerate branch the corner abscissa computed by the code lies on both end tangents -/
theorem cornerXC_on_tangents (x0 y0 m0 x1 y1 m1 : α) (h : m0 ≠ m1) :
    ((y1-y0-x1*m1+x0*m0)/(m0-m1) - x1)*m1 + y1 = y0 + m0*((y1-y0-x1*m1+x0*m0)/(m0-m1) - x0) := by
  grind

/-- 6 : start of a corner section built from (x0,y0,m0,x1,y1,m1,c): value y0 at x0, slope m0, zero
    second derivative; `hC`: the corner lies on the start tangent (5), `h0`: P1 ≠ P0 -/
theorem corner_start (xC x0 y0 m0 x1 y1 m1 c : α)
    (hC : (xC - x1)*m1 + y1 = y0 + m0*(xC - x0)) (h0 : c * (xC - x0) ≠ 0) :
    bezVal 0 (cornerPts xC x0 y0 m0 x1 y1 m1 c).1 = x0 ∧
    bezVal 0 (cornerPts xC x0 y0 m0 x1 y1 m1 c).2 = y0 ∧
    Spec.dydx (cornerPts xC x0 y0 m0 x1 y1 m1 c).1 (cornerPts xC x0 y0 m0 x1 y1 m1 c).2 0 1 = m0 ∧
    Spec.dydx (cornerPts xC x0 y0 m0 x1 y1 m1 c).1 (cornerPts xC x0 y0 m0 x1 y1 m1 c).2 0 2 = 0 := by
  have hx : derivU 0 (cornerPts xC x0 y0 m0 x1 y1 m1 c).1 1 ≠ 0 := by
    simp only [cornerPts, derivU, derivU1]; grind
  rw [← derivDYDX_eq_chainRule 0 _ _ 1 (by omega) (by omega) hx,
      ← derivDYDX_eq_chainRule 0 _ _ 2 (by omega) (by omega) hx]
  refine ⟨?_, ?_, ?_, ?_⟩
  · simp only [cornerPts, bezVal]; grind
  · simp only [cornerPts, bezVal]; grind
  · simp only [cornerPts, derivDYDX, derivDYDX1, derivU, derivU1]; grind
  · simp only [cornerPts, derivDYDX, derivDYDX2, derivU, derivU1, derivU2]; grind

/-- 7 : end of a corner section: value y1 at x1, slope m1, zero second derivative (`h1`: P4 ≠ P5) -/
theorem corner_end (xC x0 y0 m0 x1 y1 m1 c : α) (h1 : c * (xC - x1) ≠ 0) :
    bezVal 1 (cornerPts xC x0 y0 m0 x1 y1 m1 c).1 = x1 ∧
    bezVal 1 (cornerPts xC x0 y0 m0 x1 y1 m1 c).2 = y1 ∧
    Spec.dydx (cornerPts xC x0 y0 m0 x1 y1 m1 c).1 (cornerPts xC x0 y0 m0 x1 y1 m1 c).2 1 1 = m1 ∧
    Spec.dydx (cornerPts xC x0 y0 m0 x1 y1 m1 c).1 (cornerPts xC x0 y0 m0 x1 y1 m1 c).2 1 2 = 0 := by
  have hx : derivU 1 (cornerPts xC x0 y0 m0 x1 y1 m1 c).1 1 ≠ 0 := by
    simp only [cornerPts, derivU, derivU1]; grind
  rw [← derivDYDX_eq_chainRule 1 _ _ 1 (by omega) (by omega) hx,
      ← derivDYDX_eq_chainRule 1 _ _ 2 (by omega) (by omega) hx]
  refine ⟨?_, ?_, ?_, ?_⟩
  · simp only [cornerPts, bezVal]; grind
  · simp only [cornerPts, bezVal]; grind
  · simp only [cornerPts, derivDYDX, derivDYDX1, derivU, derivU1]; grind
  · simp only [cornerPts, derivDYDX, derivDYDX2, derivU, derivU1, derivU2]; grind

/-- 8 : `assemble_C2` — two consecutive corner sections sharing the knot (x1,y1,m1) agree there in
    x, y, dy/dx and d2y/dx2 (left section at u = 1, right section at u = 0) -/
theorem assemble_C2 (xCa x0 y0 m0 x1 y1 m1 ca xCb x2 y2 m2 cb : α)
    (hCb : (xCb - x2)*m2 + y2 = y1 + m1*(xCb - x1))
    (ha : ca * (xCa - x1) ≠ 0) (hb : cb * (xCb - x1) ≠ 0) :
    let A := cornerPts xCa x0 y0 m0 x1 y1 m1 ca
    let B := cornerPts xCb x1 y1 m1 x2 y2 m2 cb
    bezVal 1 A.1 = bezVal 0 B.1 ∧ bezVal 1 A.2 = bezVal 0 B.2 ∧
    Spec.dydx A.1 A.2 1 1 = Spec.dydx B.1 B.2 0 1 ∧ Spec.dydx A.1 A.2 1 2 = Spec.dydx B.1 B.2 0 2 := by
  obtain ⟨a1, a2, a3, a4⟩ := corner_end xCa x0 y0 m0 x1 y1 m1 ca ha
  obtain ⟨b1, b2, b3, b4⟩ := corner_start xCb x1 y1 m1 x2 y2 m2 cb hCb hb
  simp only [a1, a2, a3, a4, b1, b2, b3, b4]
  exact ⟨trivial, trivial, trivial, trivial⟩

/- 8' : hand-over to the linear extrapolation: the extrapolation y0 + m0 (x - x0) has value y0,
   slope m0 and second derivative 0 at x0, which is what (6) gives for the first section (and (7)
   for the last one). -/

/-- the hypotheses of (6)-(8) are satisfiable: sections (0,0,0)->(1,1,2) and (1,1,2)->(2,5/2,1) -/
example : ((1/2 : Rat) - 1)*2 + 1 = 0 + 0*((1/2 : Rat) - 0) ∧ (1/2 : Rat) * ((1/2 : Rat) - 0) ≠ 0
    ∧ (1/2 : Rat) * ((1/2 : Rat) - 1) ≠ 0 := by grind
example : ((3/2 : Rat) - 2)*1 + 5/2 = 1 + 2*((3/2 : Rat) - 1) ∧ (1/2 : Rat) * ((3/2 : Rat) - 1) ≠ 0 := by grind

/-- degenerate branch (equal end slopes): the code takes the midpoint as corner; unless the two knots
    are collinear with that slope the start-tangent hypothesis `hC` of (6) fails and the section does
    NOT have the requested start slope.  Machine-checked instance: knots (0,0) and (1,1), both slopes 0:
    the call is accepted and the section starts with slope 2. -/
example : (cornerCP (0:Rat) 0 0 1 1 0 (1/2)).isSome = true := by decide +kernel
example : cornerXC (0:Rat) 0 0 1 1 0 = 1/2 := by decide +kernel
example : derivDYDX 0 (cornerPts (1/2 : Rat) 0 0 0 1 1 0 (1/2)).1 (cornerPts (1/2 : Rat) 0 0 0 1 1 0 (1/2)).2 1 = 2 := by
  simp only [cornerPts, derivDYDX, derivDYDX1, derivU, derivU1]; grind
end corner

/-! ### shift / scale commute with the derivatives -/
section xform
variable {α : Type} [Field α]

/-- 9 : shifting both control polygons leaves dy/dx and d2y/dx2 unchanged -/
theorem derivDYDX_shift (u dx dy : α) (X Y : P6 α) :
    derivDYDX u (X.map (· + dx)) (Y.map (· + dy)) 1 = derivDYDX u X Y 1 ∧
    derivDYDX u (X.map (· + dx)) (Y.map (· + dy)) 2 = derivDYDX u X Y 2 := by
  constructor
  · simp only [derivDYDX, derivDYDX1, derivU1_shift]
  · simp only [derivDYDX, derivDYDX2, derivU1_shift, derivU2_shift]

/-- 10 : scaling x by sx ≠ 0 and y by sy scales dy/dx by sy/sx and d2y/dx2 by sy/sx^2 (either sign
    of sx: the polynomial algebra is indifferent to it — the defect of `scale` with a negative
    x factor is in the segment lookup, not here) -/
theorem derivDYDX_scale (u sx sy : α) (X Y : P6 α) (hs : sx ≠ 0) (hx : derivU u X 1 ≠ 0) :
    derivDYDX u (X.map (· * sx)) (Y.map (· * sy)) 1 = derivDYDX u X Y 1 * (sy / sx) ∧
    derivDYDX u (X.map (· * sx)) (Y.map (· * sy)) 2 = derivDYDX u X Y 2 * (sy / (sx * sx)) := by
  constructor
  · simp only [derivDYDX, derivDYDX1, derivU1_scale]
    generalize derivU u X 1 = a at hx ⊢
    generalize derivU u Y 1 = b
    grind
  · simp only [derivDYDX, derivDYDX2, derivU1_scale, derivU2_scale]
    generalize derivU u X 1 = a at hx ⊢
    generalize derivU u Y 1 = b
    generalize derivU u X 2 = a2
    generalize derivU u Y 2 = b2
    grind
example : (2 : Rat) ≠ 0 ∧ derivU (1/3 : Rat) (⟨0, 1/10, 3/10, 6/10, 8/10, 1⟩ : P6 Rat) 1 ≠ 0 := by
  simp only [derivU, derivU1]; grind
end xform

/-! ### Bernstein form: convex hull and monotonicity -/
section order
open Std
variable {α : Type} [CommRing α] [LE α] [LT α] [LawfulOrderLT α] [IsLinearOrder α] [OrderedRing α]

/-- 11 : on [0,1] the value stays within any bounds of the control values (convex combination) -/
theorem bezVal_bounds (u lo hi : α) (p : P6 α) (h0 : 0 ≤ u) (h1 : u ≤ 1)
    (l0 : lo ≤ p.p0) (l1 : lo ≤ p.p1) (l2 : lo ≤ p.p2) (l3 : lo ≤ p.p3) (l4 : lo ≤ p.p4) (l5 : lo ≤ p.p5)
    (g0 : p.p0 ≤ hi) (g1 : p.p1 ≤ hi) (g2 : p.p2 ≤ hi) (g3 : p.p3 ≤ hi) (g4 : p.p4 ≤ hi) (g5 : p.p5 ≤ hi) :
    lo ≤ bezVal u p ∧ bezVal u p ≤ hi := by
  have hv : 0 ≤ 1 - u := by grind
  have mn := @OrderedRing.mul_nonneg α _ _ _ _ _
  have uu := mn h0 h0
  have vv := mn hv hv
  have w0 := mn (mn vv vv) hv
  have w1 := mn h0 (mn vv vv)
  have w2 := mn uu (mn vv hv)
  have w3 := mn (mn uu h0) vv
  have w4 := mn (mn uu uu) hv
  have w5 := mn (mn uu uu) h0
  constructor
  · have e := bezVal_sub u lo p
    have a0 := mn (show 0 ≤ p.p0 - lo by grind) w0
    have a1 := mn (show 0 ≤ p.p1 - lo by grind) w1
    have a2 := mn (show 0 ≤ p.p2 - lo by grind) w2
    have a3 := mn (show 0 ≤ p.p3 - lo by grind) w3
    have a4 := mn (show 0 ≤ p.p4 - lo by grind) w4
    have a5 := mn (show 0 ≤ p.p5 - lo by grind) w5
    grind
  · have e := bezVal_sub u hi p
    have a0 := mn (show 0 ≤ hi - p.p0 by grind) w0
    have a1 := mn (show 0 ≤ hi - p.p1 by grind) w1
    have a2 := mn (show 0 ≤ hi - p.p2 by grind) w2
    have a3 := mn (show 0 ≤ hi - p.p3 by grind) w3
    have a4 := mn (show 0 ≤ hi - p.p4 by grind) w4
    have a5 := mn (show 0 ≤ hi - p.p5 by grind) w5
    grind

/-- 12 : a non-decreasing control polygon gives a non-negative derivative on [0,1]; applied to the x
    and to the y polygon: the parameterisation is monotone in both coordinates, so the curve is a
    monotone function wherever dx/du > 0 -/
theorem derivU1_nonneg (u : α) (p : P6 α) (h0 : 0 ≤ u) (h1 : u ≤ 1)
    (m0 : p.p0 ≤ p.p1) (m1 : p.p1 ≤ p.p2) (m2 : p.p2 ≤ p.p3) (m3 : p.p3 ≤ p.p4) (m4 : p.p4 ≤ p.p5) :
    0 ≤ derivU u p 1 := by
  rw [derivU1_bernstein]
  have hv : 0 ≤ 1 - u := by grind
  have mn := @OrderedRing.mul_nonneg α _ _ _ _ _
  have d0 : 0 ≤ p.p1 - p.p0 := by grind
  have d1 : 0 ≤ p.p2 - p.p1 := by grind
  have d2 : 0 ≤ p.p3 - p.p2 := by grind
  have d3 : 0 ≤ p.p4 - p.p3 := by grind
  have d4 : 0 ≤ p.p5 - p.p4 := by grind
  have uu := mn h0 h0
  have vv := mn hv hv
  have t0 := mn d0 (mn vv vv)
  have t1 := mn d1 (mn h0 (mn vv hv))
  have t2 := mn d2 (mn uu vv)
  have t3 := mn d3 (mn (mn uu h0) hv)
  have t4 := mn d4 (mn uu uu)
  grind
example : (0:Rat) ≤ 1/3 ∧ (1/3 : Rat) ≤ 1 ∧ (0:Rat) ≤ 1/10 ∧ (1/10:Rat) ≤ 3/10 ∧ (3/10:Rat) ≤ 6/10
    ∧ (6/10:Rat) ≤ 8/10 ∧ (8/10:Rat) ≤ 1 := by grind
end order

/-! ### torque muscle -/
section tm
variable {α : Type} [Field α]
open Rbdl.Geom.TorqueMuscle

/-- 13 : the activation recovered from a torque inverts the torque computed from that activation
    (`updInvertTorqueMuscleSummary` after `updTorqueMuscleSummary`), provided the torque sign is ±1,
    the maximum isometric torque is non-zero and the active multipliers tA, tV do not vanish -/
theorem activation_inverts_torque (sign iso a tA tV tP tD : α)
    (hs : sign * sign = 1) (hi : iso ≠ 0) (hA : tA ≠ 0) (hV : tV ≠ 0) :
    activation sign iso (jointTorque sign iso a tA tV tP tD) tA tV tP tD = a := by
  simp only [activation, jointTorque]; grind

/-- 14 : and conversely -/
theorem torque_of_activation (sign iso tau tA tV tP tD : α)
    (hs : sign * sign = 1) (hi : iso ≠ 0) (hA : tA ≠ 0) (hV : tV ≠ 0) :
    jointTorque sign iso (activation sign iso tau tA tV tP tD) tA tV tP tD = tau := by
  simp only [activation, jointTorque]; grind
example : (-1 : Rat) * (-1) = 1 ∧ (188 : Rat) ≠ 0 ∧ (9/10 : Rat) ≠ 0 ∧ (3/4 : Rat) ≠ 0 := by grind
end tm
end Rbdl.C18
