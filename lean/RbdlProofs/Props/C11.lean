import RbdlProofs.Lemmas.Kkt
import RbdlProofs.Lemmas.KktRank
import RbdlProofs.Lemmas.KktEx
/-
  C11 — constrained inverse dynamics (Constraints.cc: `ConstraintSet::SetActuationMap`,
  `InverseDynamicsConstraints`, `isConstrainedSystemFullyActuated`).

  `S` (rows = actuated coordinates in increasing order) and `P` (unactuated ones) are the selection
  matrices of the actuation map; the routine returns `qdd`, `tau`, `force` with

      G qdd = gamma,   P tau = 0,   H qdd + C = tau + Gᵀ force,   S qdd = S qdd_des.
-/
namespace Rbdl.C11
open Matrix Rbdl.Kkt

variable {K : Type*} {m n a u : Type*} [Fintype m] [Fintype n] [Fintype a] [Fintype u]

/-- **selection_partition**: the selection matrices `selS`, `selP` built from an actuation map
`act : Fin N → Bool` by the order-preserving enumerations of `{i | act i}` and `{i | ¬ act i}`
satisfy the four identities used below (and the row counts add up to `N`). -/
theorem selection_partition [CommRing K] {N : ℕ} (act : Fin N → Bool) :
    (selS K act)ᵀ * selS K act + (selP K act)ᵀ * selP K act = 1 ∧
    selS K act * (selS K act)ᵀ = 1 ∧
    selP K act * (selP K act)ᵀ = 1 ∧
    selS K act * (selP K act)ᵀ = 0 ∧
    (actSet act true).card + (actSet act false).card = N :=
  ⟨selS_selP_partition act, selS_mul_transpose act, selP_mul_transpose act,
    selS_mul_selP_transpose act, card_actSet act⟩

/-- The entries of `selS` / `selP` are those written by the loop of `SetActuationMap`
(`S(j,i) = 1` for the `i` with `act i` that has `j` actuated coordinates before it; all other
entries are `0`; likewise `P` with the unactuated coordinates). -/
theorem selection_entries [CommRing K] {N : ℕ} (act : Fin N → Bool) :
    (∀ (j : Fin (actSet act true).card) (i : Fin N), selS K act j i =
      if act i = true ∧ (Finset.univ.filter fun i' => act i' = true ∧ i' < i).card = j
      then 1 else 0) ∧
    (∀ (k : Fin (actSet act false).card) (i : Fin N), selP K act k i =
      if act i = false ∧ (Finset.univ.filter fun i' => act i' = false ∧ i' < i).card = k
      then 1 else 0) := by
  constructor <;> intro j i
  · rw [selS, selMat_apply_count]
    simp only [actSet, Finset.mem_filter, Finset.mem_univ, true_and, Finset.filter_filter]
  · rw [selP, selMat_apply_count]
    simp only [actSet, Finset.mem_filter, Finset.mem_univ, true_and, Finset.filter_filter]

set_option linter.unusedSimpArgs false in
/-- Concrete check: for `act = ![true, false, true]` the constructed `selS`, `selP` are the matrices
`!![1,0,0; 0,0,1]` and `!![0,1,0]` that the loop of `SetActuationMap` writes. -/
example : (∀ (j : Fin 2) (i : Fin 3),
      selS ℚ Ex.act (Fin.cast Ex.card_act_true.symm j) i = Ex.S j i) ∧
    (∀ (k : Fin 1) (i : Fin 3),
      selP ℚ Ex.act (Fin.cast Ex.card_act_false.symm k) i = Ex.P k i) := by
  constructor
  · intro j i
    rw [(selection_entries (K := ℚ) Ex.act).1]
    fin_cases j <;> fin_cases i <;> simp +decide [Ex.S, Ex.act]
  · intro k i
    rw [(selection_entries (K := ℚ) Ex.act).2]
    fin_cases k; fin_cases i <;> simp +decide [Ex.P, Ex.act]

/-- **idc_exact_sound** — algebra of `InverseDynamicsConstraints`, for any `S`, `P` with
`SᵀS + PᵀP = 1`, `S Sᵀ = 1`, `S Pᵀ = 0` (`P Pᵀ = 1` is not needed). -/
theorem idc_exact_sound [CommRing K] [DecidableEq n] [DecidableEq a]
    (H : Matrix n n K) (G : Matrix m n K) (S : Matrix a n K) (P : Matrix u n K)
    (hpart : Sᵀ * S + Pᵀ * P = 1) (hSS : S * Sᵀ = 1) (hSP : S * Pᵀ = 0)
    (N qdd_des qdd tau : n → K) (gamma lam : m → K) (uu : a → K) (v : u → K)
    (hu : uu = S *ᵥ qdd_des)
    (hv : (G * Pᵀ) *ᵥ v = gamma - (G * Sᵀ) *ᵥ uu)
    (hqdd : qdd = Sᵀ *ᵥ uu + Pᵀ *ᵥ v)
    (hlam : (P * Gᵀ) *ᵥ lam = P *ᵥ (H *ᵥ qdd + N))
    (htau : tau = Sᵀ *ᵥ (S *ᵥ (H *ᵥ qdd + N - Gᵀ *ᵥ lam))) :
    G *ᵥ qdd = gamma ∧ P *ᵥ tau = 0 ∧ H *ᵥ qdd + N = tau + Gᵀ *ᵥ lam ∧
      S *ᵥ qdd = S *ᵥ qdd_des :=
  idc_exact H G S P hpart hSS hSP N qdd_des qdd tau gamma lam uu v hu hv hqdd hlam htau

example : Ex.G1 *ᵥ Ex.qdd = Ex.gamma1 ∧ Ex.P *ᵥ Ex.tau1 = 0 ∧
    Ex.H *ᵥ Ex.qdd + Ex.N1 = Ex.tau1 + Ex.G1ᵀ *ᵥ Ex.lam1 ∧ Ex.S *ᵥ Ex.qdd = Ex.S *ᵥ Ex.qddDes :=
  idc_exact_sound Ex.H Ex.G1 Ex.S Ex.P Ex.SP_part Ex.S_St Ex.S_Pt Ex.N1 Ex.qddDes Ex.qdd Ex.tau1
    Ex.gamma1 Ex.lam1 Ex.uu Ex.vv Ex.idc_u Ex.idc_v Ex.idc_qdd Ex.idc_lam Ex.idc_tau

/-- **idc_exact_sound, with the expressions and signs of the code** (Constraints.cc 1846-1930):
`Ful = S H Sᵀ`, `Fur = S H Pᵀ`, `Fll = P H Sᵀ`, `Flr = P H Pᵀ`, `GTu = S Gᵀ`, `GTl = P Gᵀ`;
`v` solves `GTlᵀ v = gamma − GTuᵀ u`; `f0` solves `GTl f0 = −P C − Fll u − Flr v`; the stored
`force` is `−f0`; `tau = −Sᵀ(−S C − (Ful u + Fur v − GTu force))`. -/
theorem idc_code_sound [CommRing K] [DecidableEq n] [DecidableEq a]
    (H : Matrix n n K) (G : Matrix m n K) (S : Matrix a n K) (P : Matrix u n K)
    (hpart : Sᵀ * S + Pᵀ * P = 1) (hSS : S * Sᵀ = 1) (hSP : S * Pᵀ = 0)
    (C qdd_des qdd tau : n → K) (gamma f0 force : m → K) (uu : a → K) (v : u → K)
    (hu : uu = S *ᵥ qdd_des)
    (hv : (P * Gᵀ)ᵀ *ᵥ v = gamma - (S * Gᵀ)ᵀ *ᵥ uu)
    (hf0 : (P * Gᵀ) *ᵥ f0 = -(P *ᵥ C) - (P * H * Sᵀ) *ᵥ uu - (P * H * Pᵀ) *ᵥ v)
    (hforce : force = -f0)
    (hqdd : qdd = Sᵀ *ᵥ uu + Pᵀ *ᵥ v)
    (htau : tau = -(Sᵀ *ᵥ (-(S *ᵥ C) -
        ((S * H * Sᵀ) *ᵥ uu + (S * H * Pᵀ) *ᵥ v - (S * Gᵀ) *ᵥ force)))) :
    G *ᵥ qdd = gamma ∧ P *ᵥ tau = 0 ∧ H *ᵥ qdd + C = tau + Gᵀ *ᵥ force ∧
      S *ᵥ qdd = S *ᵥ qdd_des :=
  idc_code H G S P hpart hSS hSP C qdd_des qdd tau gamma f0 force uu v hu hv hf0 hforce hqdd htau

example : Ex.G1 *ᵥ Ex.qdd = Ex.gamma1 ∧ Ex.P *ᵥ Ex.tau1 = 0 ∧
    Ex.H *ᵥ Ex.qdd + Ex.N1 = Ex.tau1 + Ex.G1ᵀ *ᵥ Ex.lam1 ∧ Ex.S *ᵥ Ex.qdd = Ex.S *ᵥ Ex.qddDes :=
  idc_code_sound Ex.H Ex.G1 Ex.S Ex.P Ex.SP_part Ex.S_St Ex.S_Pt Ex.N1 Ex.qddDes Ex.qdd Ex.tau1
    Ex.gamma1 Ex.f0 Ex.lam1 Ex.uu Ex.vv Ex.idc_u Ex.idc_v_code Ex.idc_f0 Ex.idc_force Ex.idc_qdd
    Ex.idc_tau_code

/-- The same for the concrete selection matrices of an actuation map. -/
theorem idc_exact_sound_act [CommRing K] {N : ℕ} (act : Fin N → Bool)
    (H : Matrix (Fin N) (Fin N) K) (G : Matrix m (Fin N) K)
    (C qdd_des qdd tau : Fin N → K) (gamma lam : m → K)
    (uu : Fin (actSet act true).card → K) (v : Fin (actSet act false).card → K)
    (hu : uu = selS K act *ᵥ qdd_des)
    (hv : (G * (selP K act)ᵀ) *ᵥ v = gamma - (G * (selS K act)ᵀ) *ᵥ uu)
    (hqdd : qdd = (selS K act)ᵀ *ᵥ uu + (selP K act)ᵀ *ᵥ v)
    (hlam : (selP K act * Gᵀ) *ᵥ lam = selP K act *ᵥ (H *ᵥ qdd + C))
    (htau : tau = (selS K act)ᵀ *ᵥ (selS K act *ᵥ (H *ᵥ qdd + C - Gᵀ *ᵥ lam))) :
    G *ᵥ qdd = gamma ∧ selP K act *ᵥ tau = 0 ∧ H *ᵥ qdd + C = tau + Gᵀ *ᵥ lam ∧
      selS K act *ᵥ qdd = selS K act *ᵥ qdd_des :=
  idc_exact H G (selS K act) (selP K act) (selS_selP_partition act) (selS_mul_transpose act)
    (selS_mul_selP_transpose act) C qdd_des qdd tau gamma lam uu v hu hv hqdd hlam htau

omit [Fintype m] in
/-- **fully_actuated_iff**: `G Pᵀ` is injective (full column rank) ⇔ for every `gamma` and `u`
the system `(G Pᵀ) v = gamma − (G Sᵀ) u` of `idc_exact_sound` has at most one solution `v`. -/
theorem fully_actuated_iff [CommRing K] (G : Matrix m n K) (S : Matrix a n K) (P : Matrix u n K) :
    (∀ v : u → K, (G * Pᵀ) *ᵥ v = 0 → v = 0) ↔
      ∀ (gamma : m → K) (uu : a → K) (v v' : u → K),
        (G * Pᵀ) *ᵥ v = gamma - (G * Sᵀ) *ᵥ uu → (G * Pᵀ) *ᵥ v' = gamma - (G * Sᵀ) *ᵥ uu →
        v = v' := by
  rw [inj_iff_unique]
  constructor
  · intro h gamma uu v v' hv hv'
    exact h _ v v' hv hv'
  · intro h b v v' hv hv'
    exact h (b + (G * Sᵀ) *ᵥ 0) 0 v v' (by rw [hv]; abel) (by rw [hv']; abel)

omit [Fintype m] in
/-- For one fixed right-hand side that has a solution `v0` (without solvability "at most one
solution" would be vacuous): `G Pᵀ` injective ⇔ `v0` is the only solution. -/
theorem fully_actuated_iff_of_solvable [CommRing K] (G : Matrix m n K) (S : Matrix a n K)
    (P : Matrix u n K) (gamma : m → K) (uu : a → K) (v0 : u → K)
    (h0 : (G * Pᵀ) *ᵥ v0 = gamma - (G * Sᵀ) *ᵥ uu) :
    (∀ v : u → K, (G * Pᵀ) *ᵥ v = 0 → v = 0) ↔
      ∀ v : u → K, (G * Pᵀ) *ᵥ v = gamma - (G * Sᵀ) *ᵥ uu → v = v0 :=
  inj_iff_unique_of_solvable _ _ v0 h0

example : ∀ v : Fin 1 → ℚ, (Ex.G1 * Ex.Pᵀ) *ᵥ v = Ex.gamma1 - (Ex.G1 * Ex.Sᵀ) *ᵥ Ex.uu →
    v = Ex.vv :=
  (fully_actuated_iff_of_solvable Ex.G1 Ex.S Ex.P Ex.gamma1 Ex.uu Ex.vv Ex.idc_v).mp Ex.GPt_inj

/-- Over a field, the test of `isConstrainedSystemFullyActuated`, `rank (G Pᵀ) = n − na`
(= number of columns of `G Pᵀ`), is the injectivity above. -/
theorem fully_actuated_rank_iff [Field K] (G : Matrix m n K) (P : Matrix u n K) :
    (G * Pᵀ).rank = Fintype.card u ↔ ∀ v : u → K, (G * Pᵀ) *ᵥ v = 0 → v = 0 :=
  rank_eq_card_iff_inj _

end Rbdl.C11
