import RbdlProofs.Props.C16
/-
  C16, continued — `Quaternion::fromMatrix` as it is in the source now (four branches, chosen by
  comparisons; `Rbdl/Alg/QuatFrom.lean`, compared with the C++ on every run by the `alg` driver):

    for EVERY rotation matrix `M` — including the rotations by half a turn (trace −1), where the
    pinned formula divided by zero (D8) — `fromMatrix M` is a unit quaternion whose matrix is `M`,

  over any linearly ordered field and any function `sqrt` that is a square root on the non-negative
  elements (the only thing assumed about `std::sqrt`).  The proof shows that the branch conditions
  make the divisor's square at least 1: the four candidates `1 ± m00 ± m11 ± m22` sum to 4, the
  comparisons select the largest of them or one that exceeds 1.

  `C16.lean` (theorems 32/33) covers the `w`-branch formula alone under `w ≠ 0`; this file removes the
  side condition by following the code's case split.
-/
namespace Rbdl.C16
open Lean.Grind Rbdl Std

/-! ### the four branch formulas as field identities (no order needed) -/
section field
variable {α : Type} [Field α]

/-- branch 4 (`trace > 0`): divisor `w` -/
def fromW (M : M3 α) (w : α) : Quat α :=
  ⟨(M.m12 - M.m21) / (w * 4), (M.m20 - M.m02) / (w * 4), (M.m01 - M.m10) / (w * 4), w⟩
/-- branch 1: divisor `x` -/
def fromX (M : M3 α) (x : α) : Quat α :=
  ⟨x, (M.m01 + M.m10) / (x * 4), (M.m02 + M.m20) / (x * 4), (M.m12 - M.m21) / (x * 4)⟩
/-- branch 2: divisor `y` -/
def fromY (M : M3 α) (y : α) : Quat α :=
  ⟨(M.m01 + M.m10) / (y * 4), y, (M.m12 + M.m21) / (y * 4), (M.m20 - M.m02) / (y * 4)⟩
/-- branch 3: divisor `z` -/
def fromZ (M : M3 α) (z : α) : Quat α :=
  ⟨(M.m02 + M.m20) / (z * 4), (M.m12 + M.m21) / (z * 4), z, (M.m01 - M.m10) / (z * 4)⟩

theorem fromW_toMatrix (h4 : (4:α) ≠ 0) (M : M3 α) (w : α) (h : M.IsRot)
    (hw : 4*w*w = 1 + M.m00 + M.m11 + M.m22) (hw0 : w ≠ 0) : (fromW M w).toMatrix = M := by
  obtain ⟨n0,n1,n2,o01,o02,o12,c00,c01,c02,c10,c11,c12,c20,c21,c22⟩ := h
  have hw4 : w * 4 ≠ 0 := fun h => (Field.of_mul_eq_zero h).elim hw0 h4
  ext <;> simp only [fromW, alg] <;> grind
theorem fromX_toMatrix (h4 : (4:α) ≠ 0) (M : M3 α) (x : α) (h : M.IsRot)
    (hx : 4*x*x = 1 + M.m00 - M.m11 - M.m22) (hx0 : x ≠ 0) : (fromX M x).toMatrix = M := by
  obtain ⟨n0,n1,n2,o01,o02,o12,c00,c01,c02,c10,c11,c12,c20,c21,c22⟩ := h
  have hx4 : x * 4 ≠ 0 := fun h => (Field.of_mul_eq_zero h).elim hx0 h4
  ext <;> simp only [fromX, alg] <;> grind
theorem fromY_toMatrix (h4 : (4:α) ≠ 0) (M : M3 α) (y : α) (h : M.IsRot)
    (hy : 4*y*y = 1 - M.m00 + M.m11 - M.m22) (hy0 : y ≠ 0) : (fromY M y).toMatrix = M := by
  obtain ⟨n0,n1,n2,o01,o02,o12,c00,c01,c02,c10,c11,c12,c20,c21,c22⟩ := h
  have hy4 : y * 4 ≠ 0 := fun h => (Field.of_mul_eq_zero h).elim hy0 h4
  ext <;> simp only [fromY, alg] <;> grind
theorem fromZ_toMatrix (h4 : (4:α) ≠ 0) (M : M3 α) (z : α) (h : M.IsRot)
    (hz : 4*z*z = 1 - M.m00 - M.m11 + M.m22) (hz0 : z ≠ 0) : (fromZ M z).toMatrix = M := by
  obtain ⟨n0,n1,n2,o01,o02,o12,c00,c01,c02,c10,c11,c12,c20,c21,c22⟩ := h
  have hz4 : z * 4 ≠ 0 := fun h => (Field.of_mul_eq_zero h).elim hz0 h4
  ext <;> simp only [fromZ, alg] <;> grind

theorem fromW_unit (h4 : (4:α) ≠ 0) (M : M3 α) (w : α) (h : M.IsRot)
    (hw : 4*w*w = 1 + M.m00 + M.m11 + M.m22) (hw0 : w ≠ 0) : (fromW M w).nrm2 = 1 := by
  obtain ⟨n0,n1,n2,o01,o02,o12,c00,c01,c02,c10,c11,c12,c20,c21,c22⟩ := h
  have hw4 : w * 4 ≠ 0 := fun h => (Field.of_mul_eq_zero h).elim hw0 h4
  simp only [fromW, alg]; grind
theorem fromX_unit (h4 : (4:α) ≠ 0) (M : M3 α) (x : α) (h : M.IsRot)
    (hx : 4*x*x = 1 + M.m00 - M.m11 - M.m22) (hx0 : x ≠ 0) : (fromX M x).nrm2 = 1 := by
  obtain ⟨n0,n1,n2,o01,o02,o12,c00,c01,c02,c10,c11,c12,c20,c21,c22⟩ := h
  have hx4 : x * 4 ≠ 0 := fun h => (Field.of_mul_eq_zero h).elim hx0 h4
  simp only [fromX, alg]; grind
theorem fromY_unit (h4 : (4:α) ≠ 0) (M : M3 α) (y : α) (h : M.IsRot)
    (hy : 4*y*y = 1 - M.m00 + M.m11 - M.m22) (hy0 : y ≠ 0) : (fromY M y).nrm2 = 1 := by
  obtain ⟨n0,n1,n2,o01,o02,o12,c00,c01,c02,c10,c11,c12,c20,c21,c22⟩ := h
  have hy4 : y * 4 ≠ 0 := fun h => (Field.of_mul_eq_zero h).elim hy0 h4
  simp only [fromY, alg]; grind
theorem fromZ_unit (h4 : (4:α) ≠ 0) (M : M3 α) (z : α) (h : M.IsRot)
    (hz : 4*z*z = 1 - M.m00 - M.m11 + M.m22) (hz0 : z ≠ 0) : (fromZ M z).nrm2 = 1 := by
  obtain ⟨n0,n1,n2,o01,o02,o12,c00,c01,c02,c10,c11,c12,c20,c21,c22⟩ := h
  have hz4 : z * 4 ≠ 0 := fun h => (Field.of_mul_eq_zero h).elim hz0 h4
  simp only [fromZ, alg]; grind
end field

/-! ### the code's case split -/
section order
set_option linter.unusedSectionVars false
variable {α : Type} [Field α] [LE α] [LT α] [LawfulOrderLT α] [IsLinearOrder α] [OrderedRing α]
  [DecidableLT α] [DecidableLE α]

/-- what is assumed about `std::sqrt`: a square root on the non-negative elements -/
def IsSqrt (sqrt : α → α) : Prop := ∀ d : α, 0 ≤ d → sqrt d * sqrt d = d
/-- the same, required only at the four arguments `fromMatrix M` can pass (so that the hypothesis is
    satisfiable over `Rat`, where no total square root exists) -/
def IsSqrtFor (sqrt : α → α) (M : M3 α) : Prop :=
  ∀ d : α, 0 ≤ d →
    (d = 1 + M.m00 + M.m11 + M.m22 ∨ d = 1 + M.m00 - M.m11 - M.m22 ∨
     d = 1 - M.m00 + M.m11 - M.m22 ∨ d = 1 - M.m00 - M.m11 + M.m22) → sqrt d * sqrt d = d
theorem IsSqrt.for {sqrt : α → α} (h : IsSqrt sqrt) (M : M3 α) : IsSqrtFor sqrt M :=
  fun d h0 _ => h d h0

private theorem half_ne {s d : α} (hs : s * s = d) (hd : 1 ≤ d) : s / 2 ≠ 0 := by
  intro h
  have : s = 0 := by grind
  subst this
  grind
private theorem half_sq {s d : α} (hs : s * s = d) : 4 * (s / 2) * (s / 2) = d := by grind

/-- the branch taken by `fromMatrix` always has a divisor whose square is at least 1/4, and the
    result is that branch's formula -/
theorem fromMatrix_cases (sqrt : α → α) (M : M3 α) (hs : IsSqrtFor sqrt M) :
    (∃ w, Quat.fromMatrix sqrt M = fromW M w ∧ 4*w*w = 1 + M.m00 + M.m11 + M.m22 ∧ w ≠ 0) ∨
    (∃ x, Quat.fromMatrix sqrt M = fromX M x ∧ 4*x*x = 1 + M.m00 - M.m11 - M.m22 ∧ x ≠ 0) ∨
    (∃ y, Quat.fromMatrix sqrt M = fromY M y ∧ 4*y*y = 1 - M.m00 + M.m11 - M.m22 ∧ y ≠ 0) ∨
    (∃ z, Quat.fromMatrix sqrt M = fromZ M z ∧ 4*z*z = 1 - M.m00 - M.m11 + M.m22 ∧ z ≠ 0) := by
  unfold Quat.fromMatrix
  simp only []
  split
  · rename_i htr
    split
    · rename_i hx
      have hd : (1:α) ≤ 1 + M.m00 - M.m11 - M.m22 := by grind
      have h0 : (0:α) ≤ 1 + M.m00 - M.m11 - M.m22 := by grind
      have hq := hs _ h0 (Or.inr (Or.inl rfl))
      exact Or.inr (Or.inl ⟨_, rfl, half_sq hq, half_ne hq hd⟩)
    · rename_i hx
      split
      · rename_i hy
        have hd : (1:α) ≤ 1 - M.m00 + M.m11 - M.m22 := by grind
        have h0 : (0:α) ≤ 1 - M.m00 + M.m11 - M.m22 := by grind
        have hq := hs _ h0 (Or.inr (Or.inr (Or.inl rfl)))
        exact Or.inr (Or.inr (Or.inl ⟨_, rfl, half_sq hq, half_ne hq hd⟩))
      · rename_i hy
        have hd : (1:α) ≤ 1 - M.m00 - M.m11 + M.m22 := by grind
        have h0 : (0:α) ≤ 1 - M.m00 - M.m11 + M.m22 := by grind
        have hq := hs _ h0 (Or.inr (Or.inr (Or.inr rfl)))
        exact Or.inr (Or.inr (Or.inr ⟨_, rfl, half_sq hq, half_ne hq hd⟩))
  · rename_i htr
    have hd : (1:α) ≤ 1 + M.m00 + M.m11 + M.m22 := by grind
    have h0 : (0:α) ≤ 1 + M.m00 + M.m11 + M.m22 := by grind
    have hq := hs _ h0 (Or.inl rfl)
    exact Or.inl ⟨_, rfl, half_sq hq, half_ne hq hd⟩

private theorem four_ne : (4:α) ≠ 0 := by grind

/-- **matrix → quaternion → matrix is the identity on every rotation**, half-turns included:
    no hypothesis on the trace. -/
theorem toMatrix_fromMatrix_all (sqrt : α → α) (M : M3 α) (hs : IsSqrtFor sqrt M) (h : M.IsRot) :
    (Quat.fromMatrix sqrt M).toMatrix = M := by
  rcases fromMatrix_cases sqrt M hs with ⟨w, e, h1, h2⟩ | ⟨x, e, h1, h2⟩ | ⟨y, e, h1, h2⟩ | ⟨z, e, h1, h2⟩
  · rw [e]; exact fromW_toMatrix four_ne M w h h1 h2
  · rw [e]; exact fromX_toMatrix four_ne M x h h1 h2
  · rw [e]; exact fromY_toMatrix four_ne M y h h1 h2
  · rw [e]; exact fromZ_toMatrix four_ne M z h h1 h2

/-- the quaternion returned for a rotation matrix is a unit quaternion -/
theorem fromMatrix_unit (sqrt : α → α) (M : M3 α) (hs : IsSqrtFor sqrt M) (h : M.IsRot) :
    (Quat.fromMatrix sqrt M).nrm2 = 1 := by
  rcases fromMatrix_cases sqrt M hs with ⟨w, e, h1, h2⟩ | ⟨x, e, h1, h2⟩ | ⟨y, e, h1, h2⟩ | ⟨z, e, h1, h2⟩
  · rw [e]; exact fromW_unit four_ne M w h h1 h2
  · rw [e]; exact fromX_unit four_ne M x h h1 h2
  · rw [e]; exact fromY_unit four_ne M y h h1 h2
  · rw [e]; exact fromZ_unit four_ne M z h h1 h2

/-- quaternion → matrix → quaternion returns a unit quaternion with the same rotation matrix
    (i.e. `± q`), for every unit quaternion including `w = 0` -/
theorem fromMatrix_toMatrix_same_rotation (sqrt : α → α) (q : Quat α) (hs : IsSqrtFor sqrt q.toMatrix)
    (hq : q.nrm2 = 1) :
    (Quat.fromMatrix sqrt q.toMatrix).toMatrix = q.toMatrix ∧
    (Quat.fromMatrix sqrt q.toMatrix).nrm2 = 1 :=
  ⟨toMatrix_fromMatrix_all sqrt _ hs (quat_toMatrix_isRot q hq),
   fromMatrix_unit sqrt _ hs (quat_toMatrix_isRot q hq)⟩

end order

/-! ### non-vacuity: a half turn over `Rat` with an exact square root on the values that occur -/
namespace ExFrom
/-- rotation by π about `(1,2,2)/3`: `2 n nᵀ − 1`, trace −1 -/
def H : M3 Rat := ⟨-7/9, 4/9, 4/9,  4/9, -1/9, 8/9,  4/9, 8/9, -1/9⟩
theorem H_isRot : H.IsRot := by constructor <;> decide +kernel
example : H.m00 + H.m11 + H.m22 = -1 := by decide +kernel
/-- the pinned formula's divisor vanishes here -/
example : (1:Rat) + H.m00 + H.m11 + H.m22 = 0 := by decide +kernel
/-- a function that is a square root at the values the code can ask for -/
def sq (d : Rat) : Rat := if d = 16/9 then 4/3 else if d = 4/9 then 2/3 else 0
theorem sq_for : IsSqrtFor sq H := by
  intro d _ hc
  rcases hc with rfl | rfl | rfl | rfl <;> decide +kernel
example : (Quat.fromMatrix sq H).toMatrix = H := toMatrix_fromMatrix_all sq H sq_for H_isRot
example : Quat.fromMatrix sq H = ⟨1/3, 2/3, 2/3, 0⟩ := by decide +kernel
example : (Quat.fromMatrix sq H).toMatrix = H := by decide +kernel
end ExFrom

end Rbdl.C16
