import RbdlProofs.Props.C09
import RbdlProofs.Lemmas.L09FUpd
import RbdlProofs.Lemmas.L09FEx
/-
  C09F — C09 for constraints on fixed bodies, for `update_kinematics = true`, and for whole sets
  without restriction on the body ids.

  Notions (`RbdlProofs/Lemmas/L09F*.lean`, namespace `Rbdl.L09F`):
  * `resId m id`, `resPoint m id p`, `resFrame m id Xf` — the body that carries `id` (the movable parent
    of a fixed body, `id` itself below `fixedDisc`), a point and a constraint frame of `id` in its
    coordinates: with `parentTransform = (E_f, r_f)` the point `r_f + E_fᵀ p`, the frame
    `(E_fᵀ E, r_f + E_fᵀ r)` — the frame composed with the parent transform;
  * `onParents m c`, `onParentC m c` — the loop / contact constraint `c` moved to the carrying bodies;
  * `IdF m id` — an id `≥ fixedDisc` is a fixed-body id of the model whose movable parent is not again a
    fixed-body id; `IdJ m id` — in addition the carrying body is the base or a movable body of the model
    (`L09.BodyOK`).  Every id with `L13.IdOK` (the ids of C13CS) has both (`ids_covered`);
  * `OrthAt m w id` — for an id `≥ fixedDisc`: `X_base` of the movable parent is a rotation.  The point
    velocity / acceleration routines map a point of a fixed body to base coordinates and back with
    `X_base` of the parent, so the reduction of *gamma* (and of the velocity error of a contact) needs
    it; it holds in every workspace with `JacHyp` and `X_base[0]` a rotation, after `UpdateKinematics`
    and after `UpdateKinematicsCustom` (`Setup.orthAt`, `Setup.orthAt_ukc`).  It cannot be dropped
    (`orth_needed`);
  * `idPoseJet m st q̇ q̈ id` — world pose jet of a body: `bodyPoseJet` below `fixedDisc`, for a fixed
    body the jet of the movable parent composed with the constant pose `(E_fᵀ, r_f)`;
  * `FbEq w s` — `s` is `w` up to `mBaseTransform` of the fixed bodies; `KEq w s` (C09) — same
    `X_base`, `v`, `a` up to `v[0]`, `a[0]`; `KEq5` (C13CS) — same position-level entries;
  * examples (`Rbdl.FEx`, `RbdlProofs/Lemmas/L09FEx.lean`): `C04.Ex.m` (a fixed body on body 2) with a
    contact on the fixed body and loops fixed → body 4, base → fixed, fixed → fixed; `FEx.m0` with a
    second fixed body on the base and loops (fixed on base) → body 3, (fixed on body 2) → (fixed on base).

  Findings.
  * (i) **Reduction** (`loop_on_fixed_eq_loop_on_parent`, `contact_on_fixed_eq_contact_on_parent`): the
    rows a constraint on fixed bodies writes are those of the constraint on the movable parents with the
    composed frames — Jacobian and position error without further hypothesis, gamma under `OrthAt`.  All
    row and jet statements of C09 follow for every combination of fixed / movable predecessor and
    successor, with `φ` evaluated on the pose jets of the fixed bodies themselves and the gaps `velGap`,
    `accGap` with the angular velocity of the movable parent (that of the fixed body itself when its
    `parentTransform` is a rotation, `omega_on_fixed_body`).  The defect classes D5a / D5b / sine scaling
    are unchanged (the frame origin `r_A` in D5a is that of the composed frame).
  * (ii) **`update_kinematics = true`**: Jacobian and position error with the flag set are those with the
    flag cleared after `UpdateKinematicsCustom (Q)`, after `UpdateKinematicsCustom (Q, QDot)` and after
    `UpdateKinematics (Q, QDot, QDDot)` (tree order only: `uk_keq5`, `jacobian_true`), so the statements
    transfer verbatim; `calcGamma` has no flag; the velocity error of a loop is `G q̇` for either flag.
  * (iii) **Whole sets**: no hypothesis on the ids at all is needed for "the rows of every constraint
    hold what that constraint writes" — the only change against C09 is that the workspace is returned up
    to `mBaseTransform` of the fixed bodies (`FbEq`) instead of unchanged.
-/
set_option linter.unusedSectionVars false
namespace Rbdl.C09F
open Lean.Grind Rbdl Rbdl.L05 Rbdl.L09 Rbdl.L09F Rbdl.Spec

section
variable {α : Type} [Field α] [DecidableEq α]

/-! ### 0. ids, reduction -/

/-- the ids of C13CS (`refBody id < nBodies ≤ fixedDisc`: base, movable bodies, fixed bodies on them) and
    the ids of C09 (`BodyOK`) are covered -/
theorem ids_covered (m : ModelS α) (id : Nat) :
    (L13.IdOK m id → IdJ m id) ∧ (BodyOK m id → IdJ m id) ∧ (IdJ m id → IdF m id) :=
  ⟨IdJ.of_idOK, IdJ.of_bodyOK, fun h => h.idF⟩
example := ids_covered FEx.m fixedDisc

/-- **a loop constraint on fixed bodies is the loop constraint on the movable parents with the frames
    composed with the parent transforms** (any combination of fixed / movable predecessor and
    successor), at the level of the four per-constraint routines -/
theorem loop_on_fixed_eq_loop_on_parent (c : Constr α) (hc : c.ctype = .loop) (m : ModelS α)
    (w : WS α) (st : QS α) (qd : VecN α) (G : MatN α) (err errd gam : VecN α) (update : Bool)
    (hP : IdF m c.bodyP) (hS : IdF m c.bodyS) :
    (c.jacobian m w st G false).2 = ((onParents m c).jacobian m w st G false).2 ∧
    (c.positionError m w st err false).2 = ((onParents m c).positionError m w st err false).2 ∧
    c.velocityError m w st qd G errd update
      = (onParents m c).velocityError m w st qd G errd update ∧
    (OrthAt m w c.bodyP → OrthAt m w c.bodyS →
      (c.gamma m w st qd gam).2 = ((onParents m c).gamma m w st qd gam).2) :=
  L09F.loop_on_fixed_eq_loop_on_parent c hc m w st qd G err errd gam update hP hS
/-- predecessor fixed (fixed body → body 4), successor fixed (base → fixed body), both fixed; the
    `OrthAt` hypotheses of the gamma part hold after `UpdateKinematics` -/
example (G : MatN Rat) (err errd gam : VecN Rat) :=
  loop_on_fixed_eq_loop_on_parent FEx.cP FEx.cP_loop FEx.m FEx.w2 FEx.st FEx.qd G err errd gam false
    FEx.cP_P.idF FEx.cP_S.idF
example (G : MatN Rat) (err errd gam : VecN Rat) :=
  loop_on_fixed_eq_loop_on_parent FEx.cS FEx.cS_loop FEx.m FEx.w2 FEx.st FEx.qd G err errd gam true
    FEx.cS_P.idF FEx.cS_S.idF
example (G : MatN Rat) (err errd gam : VecN Rat) :=
  (loop_on_fixed_eq_loop_on_parent FEx.cB FEx.cB_loop FEx.m FEx.w2 FEx.st FEx.qd G err errd gam false
    FEx.cB_P.idF FEx.cB_S.idF).2.2.2 (FEx.orth_w2 _ FEx.cB_P.ok) (FEx.orth_w2 _ FEx.cB_S.ok)
/-- the constraint on the parents really is another constraint: body 2 instead of the fixed body, frame
    composed with `parentTransform` -/
example : FEx.cP.bodyP = fixedDisc ∧ (onParents FEx.m FEx.cP).bodyP = 2 ∧
    (onParents FEx.m FEx.cP).XP ≠ FEx.cP.XP ∧ (onParents FEx.m FEx.cP).bodyS = 4 ∧
    (onParents FEx.m FEx.cP).XS = FEx.cP.XS := by decide +kernel

/-- the constraint on the parents: same axes, rows, flags and stabilisation; ids and frames resolved -/
theorem onParents_fields (m : ModelS α) (c : Constr α) :
    (onParents m c).bodyP = resId m c.bodyP ∧ (onParents m c).bodyS = resId m c.bodyS ∧
    (onParents m c).XP = resFrame m c.bodyP c.XP ∧ (onParents m c).XS = resFrame m c.bodyS c.XS ∧
    (onParents m c).T = c.T ∧ (onParents m c).row = c.row ∧ (onParents m c).ctype = c.ctype ∧
    (onParents m c).baumgarte = c.baumgarte ∧ (onParents m c).bgA = c.bgA ∧
    (onParents m c).bgB = c.bgB ∧ (onParents m c).posC = c.posC ∧ (onParents m c).velC = c.velC :=
  ⟨rfl, rfl, rfl, rfl, rfl, rfl, rfl, rfl, rfl, rfl, rfl, rfl⟩

/-- `resFrame` is the frame composed with the parent transform; below `fixedDisc` nothing changes -/
theorem resFrame_formula (m : ModelS α) (id : Nat) (Xf : XT α) :
    (fixedDisc ≤ id → resId m id = (m.fixedBody (id - fixedDisc)).movableParent ∧
      resFrame m id Xf
        = ⟨(m.fixedBody (id - fixedDisc)).parentTransform.E.transpose * Xf.E,
           (m.fixedBody (id - fixedDisc)).parentTransform.r
             + (m.fixedBody (id - fixedDisc)).parentTransform.E.tmulVec Xf.r⟩) ∧
    (¬ fixedDisc ≤ id → resId m id = id ∧ resFrame m id Xf = Xf) := by
  refine ⟨fun h => ⟨if_pos h, ?_⟩, fun h => ⟨resId_movable m id h, resFrame_movable m id Xf h⟩⟩
  unfold resFrame resPoint
  rw [if_pos h, if_pos h]

/-- what the routines leave in the workspace: `mBaseTransform` of the fixed bodies (Jacobian, position
    error), and `v[0] = a[0] = 0` (gamma) -/
theorem loop_workspace (c : Constr α) (m : ModelS α) (w : WS α) (st : QS α) (qd : VecN α) (G : MatN α)
    (err gam : VecN α) :
    FbEq w (c.jacobian m w st G false).1 ∧ FbEq w (c.positionError m w st err false).1 ∧
    KEq w (c.gamma m w st qd gam).1 := loop_ws c m w st qd G err gam

/-- **a contact on a fixed body is the contact at the transformed point of the movable parent** -/
theorem contact_on_fixed_eq_contact_on_parent (c : Constr α) (hc : c.ctype = .contact) (m : ModelS α)
    (w : WS α) (st : QS α) (qd : VecN α) (G : MatN α) (err errd gam : VecN α)
    (hP : IdF m c.bodyP) :
    c.jacobian m w st G false = (onParentC m c).jacobian m w st G false ∧
    c.positionError m w st err false = (onParentC m c).positionError m w st err false ∧
    (OrthAt m w c.bodyP →
      c.velocityError m w st qd G errd false = (onParentC m c).velocityError m w st qd G errd false ∧
      c.gamma m w st qd gam = (onParentC m c).gamma m w st qd gam) :=
  L09F.contact_on_fixed_eq_contact_on_parent c hc m w st qd G err errd gam hP
example (G : MatN Rat) (err errd gam : VecN Rat) :=
  contact_on_fixed_eq_contact_on_parent FEx.cF FEx.cF_contact FEx.m FEx.w2 FEx.st FEx.qd G err errd gam
    FEx.cF_P.idF
example (G : MatN Rat) (err errd gam : VecN Rat) :=
  (contact_on_fixed_eq_contact_on_parent FEx.cF FEx.cF_contact FEx.m FEx.w2 FEx.st FEx.qd G err errd gam
    FEx.cF_P.idF).2.2 (FEx.orth_w2 _ FEx.cF_P.ok)

/-- the same on the specification side: a frame / a point of a fixed body is the composed frame / the
    transformed point on the pose jet of the movable parent -/
theorem frame_on_fixed_body (m : ModelS α) (st : QS α) (qd qdd : VecN α) (id : Nat) (Xf : XT α)
    (x n : V3 α) :
    framePlacement (idPoseJet m st qd qdd id) Xf
      = framePlacement (bodyPoseJet m st qd qdd (resId m id)) (resFrame m id Xf) ∧
    contactPhi (idPoseJet m st qd qdd id) x n
      = contactPhi (bodyPoseJet m st qd qdd (resId m id)) (resPoint m id x) n :=
  ⟨framePlacement_idPoseJet m st qd qdd id Xf, contactPhi_idPoseJet m st qd qdd id x n⟩

/-- the angular velocity / acceleration entering `velGap`, `accGap` are those of the fixed body itself
    when its `parentTransform` is a rotation -/
theorem omega_on_fixed_body (m : ModelS α) (st : QS α) (qd qdd : VecN α) (id : Nat)
    (hT : fixedDisc ≤ id → (m.fixedBody (id - fixedDisc)).parentTransform.E.IsRot) :
    (NodeKin.ofPose (idPoseJet m st qd qdd id)).omega
      = (NodeKin.ofPose (bodyPoseJet m st qd qdd (resId m id))).omega ∧
    (NodeKin.ofPose (idPoseJet m st qd qdd id)).omegaDot
      = (NodeKin.ofPose (bodyPoseJet m st qd qdd (resId m id))).omegaDot :=
  omega_idPoseJet m st qd qdd id hT
example := omega_on_fixed_body FEx.m FEx.st FEx.qd FEx.qdd fixedDisc
  (fun _ => by constructor <;> decide +kernel)

/-- `OrthAt` where the theorems below use it -/
theorem orthAt_holds (m : ModelS α) (w : WS α) (st : QS α) (qd qdd : VecN α) (id : Nat)
    (hid : BodyOK m (resId m id)) :
    (JacHyp m w qd → (w.X_base 0).E.IsRot → OrthAt m w id) ∧
    (Setup m w st → OrthAt m (updateKinematics m w st qd qdd) id ∧
      OrthAt m (updateKinematicsCustom m w (some st) (some qd) none) id) :=
  ⟨fun hJ h0 => orthAt_of_jacHyp hJ h0 hid, fun hS => ⟨hS.orthAt qd qdd hid, hS.orthAt_ukc qd hid⟩⟩
example :=
  (orthAt_holds FEx.m FEx.w2 FEx.st FEx.qd FEx.qdd fixedDisc FEx.idJ_fixed.ok).1
    L05.Ex.w2_jacHyp FEx.w2_rot0
example :=
  (orthAt_holds FEx.m FEx.w0 FEx.st FEx.qd FEx.qdd fixedDisc FEx.idJ_fixed.ok).2
    L09.Ex.setup

/-! ### 1. loops on any bodies: what is written (`update_kinematics = false`) -/

/-- `loop_jacobian_row` of C09 for every id: `A` is the world placement of the composed frame on the
    body that carries the predecessor -/
theorem loop_jacobian_row (c : Constr α) (hc : c.ctype = .loop) (m : ModelS α) (w : WS α)
    (st : QS α) (G : MatN α) (hP : IdF m c.bodyP) (hS : IdF m c.bodyS) (r col : Nat) :
    (c.jacobian m w st G false).2 r col
      = if hasRow c r ∧ col < m.qdotSize then
          dot6 (loopAxis (frameOf w (resId m c.bodyP) (resFrame m c.bodyP c.XP)) (axisAt c r))
            (fun q => (calcPointJacobian6D m w st c.bodyS c.XS.r zeroMat false).2 q col
                      - (calcPointJacobian6D m w st c.bodyP c.XP.r zeroMat false).2 q col)
        else G r col := by
  rw [loop_jacobian_red c hc m w st G hP hS, pointJacobian6D_res m w st c.bodyS c.XS.r zeroMat hS,
    pointJacobian6D_res m w st c.bodyP c.XP.r zeroMat hP]
  exact C09.loop_jacobian_row (onParents m c) hc m w st G hP.par r col
example (G : MatN Rat) (r col : Nat) :=
  loop_jacobian_row FEx.cP FEx.cP_loop FEx.m FEx.w2 FEx.st G FEx.cP_P.idF FEx.cP_S.idF r col
example (G : MatN Rat) (r col : Nat) :=
  loop_jacobian_row FEx.cB FEx.cB_loop FEx.m FEx.w2 FEx.st G FEx.cB_P.idF FEx.cB_S.idF r col

theorem loop_errors (c : Constr α) (hc : c.ctype = .loop) (hs : Shape c) (m : ModelS α) (w : WS α)
    (st : QS α) (qd : VecN α) (G : MatN α) (err errd : VecN α) (update : Bool)
    (hP : IdF m c.bodyP) (hS : IdF m c.bodyS) (r : Nat) (hr : hasRow c r) :
    (c.velocityError m w st qd G errd update).2 r = rowDot G m.qdotSize r qd ∧
    (c.positionError m w st err false).2 r
      = (axisAt c r).dot (loopError (frameOf w (resId m c.bodyP) (resFrame m c.bodyP c.XP))
          (frameOf w (resId m c.bodyS) (resFrame m c.bodyS c.XS))) ∧
    loopError (frameOf w (resId m c.bodyP) (resFrame m c.bodyP c.XP))
        (frameOf w (resId m c.bodyS) (resFrame m c.bodyS c.XS))
      = ⟨axial ((frameOf w (resId m c.bodyP) (resFrame m c.bodyP c.XP)).E.transpose
            * (frameOf w (resId m c.bodyS) (resFrame m c.bodyS c.XS)).E),
         (frameOf w (resId m c.bodyP) (resFrame m c.bodyP c.XP)).E.tmulVec
           ((frameOf w (resId m c.bodyS) (resFrame m c.bodyS c.XS)).r
             - (frameOf w (resId m c.bodyP) (resFrame m c.bodyP c.XP)).r)⟩ := by
  rw [loop_velocityError_red c hc m w st qd G errd update, loop_positionError_red c hc m w st err hP hS]
  exact C09.loop_errors (onParents m c) hc (shape_onParents hs hc) m w st qd G err errd update hP.par
    hS.par r hr
example (G : MatN Rat) (err errd : VecN Rat) :=
  loop_errors FEx.cS FEx.cS_loop FEx.cS_shape FEx.m FEx.w2 FEx.st FEx.qd G err errd false FEx.cS_P.idF
    FEx.cS_S.idF 7 (by decide +kernel)

theorem loop_gamma_row (c : Constr α) (hc : c.ctype = .loop) (m : ModelS α) (w : WS α) (st : QS α)
    (qd : VecN α) (gam : VecN α) (hP : IdF m c.bodyP) (hS : IdF m c.bodyS)
    (oP : OrthAt m w c.bodyP) (oS : OrthAt m w c.bodyS) (r : Nat) :
    (c.gamma m w st qd gam).2 r
      = if hasRow c r then
          -((loopAxis (frameOf w (resId m c.bodyP) (resFrame m c.bodyP c.XP)) (axisAt c r)).dot
              (acc6 w (resId m c.bodyS) (resPoint m c.bodyS c.XS.r)
                - acc6 w (resId m c.bodyP) (resPoint m c.bodyP c.XP.r)))
          - (crossm (vel6 w (resId m c.bodyP) (resPoint m c.bodyP c.XP.r))
                (loopAxis (frameOf w (resId m c.bodyP) (resFrame m c.bodyP c.XP)) (axisAt c r))).dot
              (vel6 w (resId m c.bodyS) (resPoint m c.bodyS c.XS.r)
                - vel6 w (resId m c.bodyP) (resPoint m c.bodyP c.XP.r))
        else gam r := by
  rw [loop_gamma_red c hc m w st qd gam hP hS oP oS]
  exact C09.loop_gamma_row (onParents m c) hc m w st qd gam hP.par hS.par r
example (gam : VecN Rat) (r : Nat) :=
  loop_gamma_row FEx.cP FEx.cP_loop FEx.m FEx.w2 FEx.st FEx.qd gam FEx.cP_P.idF FEx.cP_S.idF
    (FEx.orth_w2 _ FEx.cP_P.ok) (FEx.orth_w2 _ FEx.cP_S.ok) r

/-- what `vel6`, `acc6`, `frameOf` of the resolved ids are: the outputs of the routines for the ids of
    the constraint -/
theorem resolved_reads (m : ModelS α) (w : WS α) (st : QS α) (qd qdd : VecN α) (id : Nat)
    (Xf : XT α) (h : IdF m id) (ho : OrthAt m w id) :
    (loopFrame m w st id Xf false).2 = frameOf w (resId m id) (resFrame m id Xf) ∧
    (calcPointVelocity6D m w st qd id Xf.r false).2 = vel6 w (resId m id) (resPoint m id Xf.r) ∧
    (calcPointAcceleration6D m w st qd qdd id Xf.r false).2
      = acc6 w (resId m id) (resPoint m id Xf.r) := by
  rw [loopFrame_res m w st id Xf h, pointVelocity6D_res m w st qd id Xf.r h ho,
    pointAcceleration6D_res m w st qd qdd id Xf.r h ho]
  exact ⟨rfl, rfl, rfl⟩
example (Xf : XT Rat) :=
  resolved_reads FEx.m FEx.w2 FEx.st FEx.qd FEx.qdd fixedDisc Xf FEx.idJ_fixed.idF
    (FEx.orth_w2 _ FEx.idJ_fixed.ok)

/-! ### 2. contacts on any bodies -/

/-- `contact_row_velocity` of C09 for every id (fixed bodies on movable bodies and on the base) -/
theorem contact_row_velocity (c : Constr α) (hc : c.ctype = .contact) (hs : Shape c) (m : ModelS α)
    (w : WS α) (st : QS α) (qd : VecN α) (G G' : MatN α) (err errd : VecN α)
    (hJ : JacHyp m w qd) (h0 : (w.X_base 0).E.IsRot) (hP : IdJ m c.bodyP) (r : Nat)
    (hr : hasRow c r) :
    rowDot (c.jacobian m w st G false).2 m.qdotSize r qd
      = (axisAt c r).v.dot (calcPointVelocity m w st qd c.bodyP c.XP.r false).2 ∧
    (c.velocityError m w st qd G' errd false).2 r
      = (axisAt c r).v.dot (calcPointVelocity m w st qd c.bodyP c.XP.r false).2 ∧
    (c.positionError m w st err false).2 r = 0 := by
  have oP := orthAt_of_jacHyp hJ h0 hP.ok
  rw [contact_jacobian_red c hc m w st G hP.idF, contact_velocityError_red c hc m w st qd G' errd hP.idF oP,
    contact_positionError_red c hc m w st err hP.idF, pointVelocity_res m w st qd c.bodyP c.XP.r hP.idF oP]
  exact C09.contact_row_velocity (onParentC m c) hc (shape_onParentC hs) m w st qd G G' err errd hJ
    hP.ok r hr
example (G G' : MatN Rat) (err errd : VecN Rat) :=
  contact_row_velocity FEx.cF FEx.cF_contact FEx.cF_shape FEx.m FEx.w2 FEx.st FEx.qd G G' err errd
    L05.Ex.w2_jacHyp FEx.w2_rot0 FEx.cF_P 5 (by decide +kernel)

/-- **contacts on any body, `G q̇ = φ̇`**: `φ_k = n_k · (p + R x)` on the pose jet of the body itself -/
theorem contact_consistency (h2 : (2 : α) ≠ 0) (m : ModelS α) (w : WS α) (st : QS α)
    (qd qdd : VecN α) (hS : Setup m w st) (c : Constr α) (hc : c.ctype = .contact) (hs : Shape c)
    (hP : IdJ m c.bodyP) (G G' : MatN α) (err errd : VecN α) (r : Nat) (hr : hasRow c r) :
    rowDot (c.jacobian m (updateKinematics m w st qd qdd) st G false).2 m.qdotSize r qd
      = (contactPhi (idPoseJet m st qd qdd c.bodyP) c.XP.r (axisAt c r).v).d1 ∧
    (c.velocityError m (updateKinematics m w st qd qdd) st qd G' errd false).2 r
      = (contactPhi (idPoseJet m st qd qdd c.bodyP) c.XP.r (axisAt c r).v).d1 ∧
    (c.positionError m (updateKinematics m w st qd qdd) st err false).2 r = 0 := by
  rw [contact_jacobian_red c hc m _ st G hP.idF,
    contact_velocityError_red c hc m _ st qd G' errd hP.idF (hS.orthAt qd qdd hP.ok),
    contact_positionError_red c hc m _ st err hP.idF, contactPhi_idPoseJet]
  exact C09.contact_consistency h2 m w st qd qdd hS (onParentC m c) hc (shape_onParentC hs) hP.ok
    G G' err errd r hr
example (G G' : MatN Rat) (err errd : VecN Rat) :=
  contact_consistency L09.Ex.two_ne FEx.m FEx.w0 FEx.st FEx.qd FEx.qdd L09.Ex.setup FEx.cF
    FEx.cF_contact FEx.cF_shape FEx.cF_P G G' err errd 5 (by decide +kernel)
/-- a contact on a fixed body attached to the base (`FEx.m0`) -/
example (G G' : MatN Rat) (err errd : VecN Rat) :=
  contact_consistency L09.Ex.two_ne FEx.m0 FEx.w0 FEx.st FEx.qd FEx.qdd FEx.setup0 FEx.dC
    FEx.dC_contact FEx.dC_shape FEx.dC_P G G' err errd 2 (by decide +kernel)

theorem contact_gamma_is_phidd (h2 : (2 : α) ≠ 0) (m : ModelS α) (w : WS α) (st : QS α)
    (qd : VecN α) (hS : Setup m w st) (c : Constr α) (hc : c.ctype = .contact)
    (hP : IdJ m c.bodyP) (gam : VecN α) (r : Nat) (hr : hasRow c r) :
    (c.gamma m (updateKinematics m w st qd zeroVec) st qd gam).2 r
      = -(contactPhi (idPoseJet m st qd zeroVec c.bodyP) c.XP.r (axisAt c r).v).d2 := by
  rw [contact_gamma_red c hc m _ st qd gam hP.idF (hS.orthAt qd zeroVec hP.ok), contactPhi_idPoseJet]
  exact C09.contact_gamma_is_phidd h2 m w st qd hS (onParentC m c) hc hP.ok gam r hr
example (gam : VecN Rat) :=
  contact_gamma_is_phidd L09.Ex.two_ne FEx.m FEx.w0 FEx.st FEx.qd L09.Ex.setup FEx.cF FEx.cF_contact
    FEx.cF_P gam 5 (by decide +kernel)

theorem contact_Gqddot_minus_gamma (c : Constr α) (hc : c.ctype = .contact) (m : ModelS α)
    (w : WS α) (st : QS α) (qd qdd : VecN α) (G : MatN α) (gam : VecN α) (hJ : JacHyp m w qd)
    (h0 : (w.X_base 0).E.IsRot) (hP : IdJ m c.bodyP) (r : Nat) (hr : hasRow c r) :
    rowDot (c.jacobian m w st G false).2 m.qdotSize r qdd
        - (c.gamma m (updateKinematicsCustom m w none none (some zeroVec)) st qd gam).2 r
      = (axisAt c r).v.dot
          (calcPointAcceleration m (updateKinematicsCustom m w none none (some qdd)) st qd qdd
            c.bodyP c.XP.r false).2 := by
  have oP := orthAt_of_jacHyp hJ h0 hP.ok
  rw [contact_jacobian_red c hc m w st G hP.idF,
    contact_gamma_red c hc m _ st qd gam hP.idF (orthAt_ukcAcc oP zeroVec),
    pointAcceleration_res m _ st qd qdd c.bodyP c.XP.r hP.idF (orthAt_ukcAcc oP qdd)]
  exact C09.contact_Gqddot_minus_gamma (onParentC m c) hc m w st qd qdd G gam hJ hP.ok r hr
example (G : MatN Rat) (gam : VecN Rat) :=
  contact_Gqddot_minus_gamma FEx.cF FEx.cF_contact FEx.m FEx.w2 FEx.st FEx.qd FEx.qdd G gam
    L05.Ex.w2_jacHyp FEx.w2_rot0 FEx.cF_P 5 (by decide +kernel)
example (G : MatN Rat) (gam : VecN Rat) :=
  contact_Gqddot_minus_gamma FEx.dC FEx.dC_contact FEx.m0 FEx.w20 FEx.st FEx.qd FEx.qdd G gam
    FEx.w20_jacHyp FEx.w20_rot0 FEx.dC_P 2 (by decide +kernel)

/-! ### 3. loops on any bodies: `G q̇ = φ̇`, `γ = −φ̈|_{q̈=0}` -/

/-- **loops, exact**: `φ_k` is `loopPhi` of the two frames placed on the pose jets of the bodies of the
    constraint (fixed or not); the gap carries the angular velocities of the carrying bodies -/
theorem loop_velocity_gap (h2 : (2 : α) ≠ 0) (m : ModelS α) (w : WS α) (st : QS α)
    (qd qdd : VecN α) (hS : Setup m w st) (c : Constr α) (hc : c.ctype = .loop) (hs : Shape c)
    (hP : IdJ m c.bodyP) (hB : IdJ m c.bodyS) (G : MatN α) (err : VecN α) (r : Nat)
    (hr : hasRow c r) :
    rowDot (c.jacobian m (updateKinematics m w st qd qdd) st G false).2 m.qdotSize r qd
      = (loopPhi (framePlacement (idPoseJet m st qd qdd c.bodyP) c.XP)
            (framePlacement (idPoseJet m st qd qdd c.bodyS) c.XS) (axisAt c r)).d1
        + velGap (NodeKin.ofPose (framePlacement (idPoseJet m st qd qdd c.bodyP) c.XP))
            (NodeKin.ofPose (framePlacement (idPoseJet m st qd qdd c.bodyS) c.XS))
            (NodeKin.ofPose (bodyPoseJet m st qd qdd (resId m c.bodyP))).omega
            (NodeKin.ofPose (bodyPoseJet m st qd qdd (resId m c.bodyS))).omega (axisAt c r) ∧
    (c.positionError m (updateKinematics m w st qd qdd) st err false).2 r
      = (loopPhi (framePlacement (idPoseJet m st qd qdd c.bodyP) c.XP)
            (framePlacement (idPoseJet m st qd qdd c.bodyS) c.XS) (axisAt c r)).x := by
  rw [loop_jacobian_red c hc m _ st G hP.idF hB.idF, loop_positionError_red c hc m _ st err hP.idF hB.idF,
    framePlacement_idPoseJet, framePlacement_idPoseJet]
  exact C09.loop_velocity_gap h2 m w st qd qdd hS (onParents m c) hc (shape_onParents hs hc) hP.ok
    hB.ok G err r hr
/-- predecessor fixed / both fixed -/
example (G : MatN Rat) (err : VecN Rat) :=
  loop_velocity_gap L09.Ex.two_ne FEx.m FEx.w0 FEx.st FEx.qd FEx.qdd L09.Ex.setup FEx.cP FEx.cP_loop
    FEx.cP_shape FEx.cP_P FEx.cP_S G err 6 (by decide +kernel)
example (G : MatN Rat) (err : VecN Rat) :=
  loop_velocity_gap L09.Ex.two_ne FEx.m FEx.w0 FEx.st FEx.qd FEx.qdd L09.Ex.setup FEx.cB FEx.cB_loop
    FEx.cB_shape FEx.cB_P FEx.cB_S G err 8 (by decide +kernel)
/-- fixed body on body 2 → fixed body on the base (`FEx.m0`) -/
example (G : MatN Rat) (err : VecN Rat) :=
  loop_velocity_gap L09.Ex.two_ne FEx.m0 FEx.w0 FEx.st FEx.qd FEx.qdd FEx.setup0 FEx.dB FEx.dB_loop
    FEx.dB_shape FEx.dB_P FEx.dB_S G err 1 (by decide +kernel)

/-- **loops, the class in which `G q̇ = φ̇`** (conditions of C09 on the composed frames) -/
theorem loop_consistency (h2 : (2 : α) ≠ 0) (m : ModelS α) (w : WS α) (st : QS α)
    (qd qdd : VecN α) (hS : Setup m w st) (c : Constr α) (hc : c.ctype = .loop) (hs : Shape c)
    (hP : IdJ m c.bodyP) (hB : IdJ m c.bodyS) (G : MatN α) (errd : VecN α) (r : Nat)
    (hr : hasRow c r)
    (hrot : (axisAt c r).w = V3.zero ∨
      ((frameOf (updateKinematics m w st qd qdd) (resId m c.bodyS) (resFrame m c.bodyS c.XS)).E
          = (frameOf (updateKinematics m w st qd qdd) (resId m c.bodyP) (resFrame m c.bodyP c.XP)).E ∧
        (frameOf (updateKinematics m w st qd qdd) (resId m c.bodyP)
          (resFrame m c.bodyP c.XP)).E.IsRot))
    (ha : (frameOf (updateKinematics m w st qd qdd) (resId m c.bodyP)
        (resFrame m c.bodyP c.XP)).r.cross (axisAt c r).w = V3.zero)
    (hb : (axisAt c r).v = V3.zero ∨
      (vel6 (updateKinematics m w st qd qdd) (resId m c.bodyP) (resPoint m c.bodyP c.XP.r)).w
        = V3.zero ∨
      (frameOf (updateKinematics m w st qd qdd) (resId m c.bodyS) (resFrame m c.bodyS c.XS)).r
        = (frameOf (updateKinematics m w st qd qdd) (resId m c.bodyP) (resFrame m c.bodyP c.XP)).r) :
    rowDot (c.jacobian m (updateKinematics m w st qd qdd) st G false).2 m.qdotSize r qd
      = (loopPhi (framePlacement (idPoseJet m st qd qdd c.bodyP) c.XP)
            (framePlacement (idPoseJet m st qd qdd c.bodyS) c.XS) (axisAt c r)).d1 ∧
    (c.velocityError m (updateKinematics m w st qd qdd) st qd
        (c.jacobian m (updateKinematics m w st qd qdd) st G false).2 errd false).2 r
      = (loopPhi (framePlacement (idPoseJet m st qd qdd c.bodyP) c.XP)
            (framePlacement (idPoseJet m st qd qdd c.bodyS) c.XS) (axisAt c r)).d1 := by
  rw [loop_velocityError_red c hc m _ st qd _ errd false, loop_jacobian_red c hc m _ st G hP.idF hB.idF,
    framePlacement_idPoseJet, framePlacement_idPoseJet]
  exact C09.loop_consistency h2 m w st qd qdd hS (onParents m c) hc (shape_onParents hs hc) hP.ok
    hB.ok G errd r hr hrot ha hb
/-- row 7: a translation of the (non-rotating) base frame locked against a frame of the fixed body -/
example (G : MatN Rat) (errd : VecN Rat) :=
  loop_consistency L09.Ex.two_ne FEx.m FEx.w0 FEx.st FEx.qd FEx.qdd L09.Ex.setup FEx.cS FEx.cS_loop
    FEx.cS_shape FEx.cS_P FEx.cS_S G errd 7 (by decide +kernel) (Or.inl (by decide +kernel))
    (by decide +kernel) (Or.inr (Or.inl (by decide +kernel)))
/-- fixed body on the base → body 3, a translation locked (`FEx.m0`) -/
example (G : MatN Rat) (errd : VecN Rat) :=
  loop_consistency L09.Ex.two_ne FEx.m0 FEx.w0 FEx.st FEx.qd FEx.qdd FEx.setup0 FEx.dA FEx.dA_loop
    FEx.dA_shape FEx.dA_P FEx.dA_S G errd 0 (by decide +kernel) (Or.inl (by decide +kernel))
    (by decide +kernel) (Or.inr (Or.inl (by decide +kernel)))

theorem loop_gamma_gap (h2 : (2 : α) ≠ 0) (m : ModelS α) (w : WS α) (st : QS α)
    (qd : VecN α) (hS : Setup m w st) (c : Constr α) (hc : c.ctype = .loop)
    (hP : IdJ m c.bodyP) (hB : IdJ m c.bodyS) (gam : VecN α) (r : Nat) (hr : hasRow c r)
    (hrot : (axisAt c r).w = V3.zero ∨
      ((frameOf (updateKinematics m w st qd zeroVec) (resId m c.bodyS) (resFrame m c.bodyS c.XS)).E
          = (frameOf (updateKinematics m w st qd zeroVec) (resId m c.bodyP)
              (resFrame m c.bodyP c.XP)).E ∧
        (frameOf (updateKinematics m w st qd zeroVec) (resId m c.bodyP)
          (resFrame m c.bodyP c.XP)).E.IsRot)) :
    (c.gamma m (updateKinematics m w st qd zeroVec) st qd gam).2 r
      = -((loopPhi (framePlacement (idPoseJet m st qd zeroVec c.bodyP) c.XP)
            (framePlacement (idPoseJet m st qd zeroVec c.bodyS) c.XS) (axisAt c r)).d2
          + accGap (NodeKin.ofPose (framePlacement (idPoseJet m st qd zeroVec c.bodyP) c.XP))
              (NodeKin.ofPose (framePlacement (idPoseJet m st qd zeroVec c.bodyS) c.XS))
              (NodeKin.ofPose (bodyPoseJet m st qd zeroVec (resId m c.bodyP))).omega (axisAt c r)) := by
  rw [loop_gamma_red c hc m _ st qd gam hP.idF hB.idF (hS.orthAt qd zeroVec hP.ok)
      (hS.orthAt qd zeroVec hB.ok), framePlacement_idPoseJet, framePlacement_idPoseJet]
  exact C09.loop_gamma_gap h2 m w st qd hS (onParents m c) hc hP.ok hB.ok gam r hr hrot
/-- row 7 (translational axis); row 8: two frames of the same fixed body are aligned -/
example (gam : VecN Rat) :=
  loop_gamma_gap L09.Ex.two_ne FEx.m FEx.w0 FEx.st FEx.qd L09.Ex.setup FEx.cS FEx.cS_loop FEx.cS_P
    FEx.cS_S gam 7 (by decide +kernel) (Or.inl (by decide +kernel))
example (gam : VecN Rat) :=
  loop_gamma_gap L09.Ex.two_ne FEx.m FEx.w0 FEx.st FEx.qd L09.Ex.setup FEx.cB FEx.cB_loop FEx.cB_P
    FEx.cB_S gam 8 (by decide +kernel)
    (Or.inr ⟨by decide +kernel, by constructor <;> decide +kernel⟩)

/-- **loops, the class in which `γ = −φ̈|_{q̈=0}`** (conditions of C09 on the composed frames) -/
theorem loop_gamma_is_phidd (h2 : (2 : α) ≠ 0) (m : ModelS α) (w : WS α) (st : QS α)
    (qd : VecN α) (hS : Setup m w st) (c : Constr α) (hc : c.ctype = .loop)
    (hP : IdJ m c.bodyP) (hB : IdJ m c.bodyS) (gam : VecN α) (r : Nat) (hr : hasRow c r)
    (hrot : (axisAt c r).w = V3.zero ∨
      ((frameOf (updateKinematics m w st qd zeroVec) (resId m c.bodyS) (resFrame m c.bodyS c.XS)).E
          = (frameOf (updateKinematics m w st qd zeroVec) (resId m c.bodyP)
              (resFrame m c.bodyP c.XP)).E ∧
        (frameOf (updateKinematics m w st qd zeroVec) (resId m c.bodyP)
          (resFrame m c.bodyP c.XP)).E.IsRot))
    (ha : (frameOf (updateKinematics m w st qd zeroVec) (resId m c.bodyP)
        (resFrame m c.bodyP c.XP)).r.cross (axisAt c r).w = V3.zero)
    (hv : (axisAt c r).w = V3.zero ∨
      (vel6 (updateKinematics m w st qd zeroVec) (resId m c.bodyP) (resPoint m c.bodyP c.XP.r)).v
        = V3.zero ∨
      (vel6 (updateKinematics m w st qd zeroVec) (resId m c.bodyS) (resPoint m c.bodyS c.XS.r)).v
        = (vel6 (updateKinematics m w st qd zeroVec) (resId m c.bodyP)
            (resPoint m c.bodyP c.XP.r)).v)
    (hb : (axisAt c r).v = V3.zero ∨
      ((vel6 (updateKinematics m w st qd zeroVec) (resId m c.bodyP) (resPoint m c.bodyP c.XP.r)).w
          = V3.zero ∧
        (acc6 (updateKinematics m w st qd zeroVec) (resId m c.bodyP) (resPoint m c.bodyP c.XP.r)).w
          = V3.zero) ∨
      ((frameOf (updateKinematics m w st qd zeroVec) (resId m c.bodyS) (resFrame m c.bodyS c.XS)).r
          = (frameOf (updateKinematics m w st qd zeroVec) (resId m c.bodyP)
              (resFrame m c.bodyP c.XP)).r ∧
        (vel6 (updateKinematics m w st qd zeroVec) (resId m c.bodyS) (resPoint m c.bodyS c.XS.r)).v
          = (vel6 (updateKinematics m w st qd zeroVec) (resId m c.bodyP)
              (resPoint m c.bodyP c.XP.r)).v)) :
    (c.gamma m (updateKinematics m w st qd zeroVec) st qd gam).2 r
      = -(loopPhi (framePlacement (idPoseJet m st qd zeroVec c.bodyP) c.XP)
            (framePlacement (idPoseJet m st qd zeroVec c.bodyS) c.XS) (axisAt c r)).d2 := by
  rw [loop_gamma_red c hc m _ st qd gam hP.idF hB.idF (hS.orthAt qd zeroVec hP.ok)
      (hS.orthAt qd zeroVec hB.ok), framePlacement_idPoseJet, framePlacement_idPoseJet]
  exact C09.loop_gamma_is_phidd h2 m w st qd hS (onParents m c) hc hP.ok hB.ok gam r hr hrot ha hv hb
example (gam : VecN Rat) :=
  loop_gamma_is_phidd L09.Ex.two_ne FEx.m FEx.w0 FEx.st FEx.qd L09.Ex.setup FEx.cS FEx.cS_loop
    FEx.cS_P FEx.cS_S gam 7 (by decide +kernel) (Or.inl (by decide +kernel)) (by decide +kernel)
    (Or.inl (by decide +kernel)) (Or.inr (Or.inl ⟨by decide +kernel, by decide +kernel⟩))
example (gam : VecN Rat) :=
  loop_gamma_is_phidd L09.Ex.two_ne FEx.m0 FEx.w0 FEx.st FEx.qd FEx.setup0 FEx.dA FEx.dA_loop
    FEx.dA_P FEx.dA_S gam 0 (by decide +kernel) (Or.inl (by decide +kernel)) (by decide +kernel)
    (Or.inl (by decide +kernel)) (Or.inr (Or.inl ⟨by decide +kernel, by decide +kernel⟩))

theorem loop_Gqddot_minus_gamma (c : Constr α) (hc : c.ctype = .loop) (m : ModelS α) (w : WS α)
    (st : QS α) (qd qdd : VecN α) (G : MatN α) (gam : VecN α) (hJ : JacHyp m w qd)
    (h0 : (w.X_base 0).E.IsRot) (hP : IdJ m c.bodyP) (hS : IdJ m c.bodyS) (r : Nat)
    (hr : hasRow c r) :
    rowDot (c.jacobian m w st G false).2 m.qdotSize r qdd
        - (c.gamma m (updateKinematicsCustom m w none none (some zeroVec)) st qd gam).2 r
      = (loopAxis (frameOf w (resId m c.bodyP) (resFrame m c.bodyP c.XP)) (axisAt c r)).dot
          (acc6 (updateKinematicsCustom m w none none (some qdd)) (resId m c.bodyS)
              (resPoint m c.bodyS c.XS.r)
            - acc6 (updateKinematicsCustom m w none none (some qdd)) (resId m c.bodyP)
                (resPoint m c.bodyP c.XP.r))
        + (crossm (vel6 w (resId m c.bodyP) (resPoint m c.bodyP c.XP.r))
              (loopAxis (frameOf w (resId m c.bodyP) (resFrame m c.bodyP c.XP)) (axisAt c r))).dot
            (vel6 w (resId m c.bodyS) (resPoint m c.bodyS c.XS.r)
              - vel6 w (resId m c.bodyP) (resPoint m c.bodyP c.XP.r)) := by
  rw [loop_jacobian_red c hc m w st G hP.idF hS.idF,
    loop_gamma_red c hc m _ st qd gam hP.idF hS.idF
      (orthAt_ukcAcc (orthAt_of_jacHyp hJ h0 hP.ok) zeroVec)
      (orthAt_ukcAcc (orthAt_of_jacHyp hJ h0 hS.ok) zeroVec)]
  exact C09.loop_Gqddot_minus_gamma (onParents m c) hc m w st qd qdd G gam hJ hP.ok hS.ok r hr
example (G : MatN Rat) (gam : VecN Rat) :=
  loop_Gqddot_minus_gamma FEx.cP FEx.cP_loop FEx.m FEx.w2 FEx.st FEx.qd FEx.qdd G gam L05.Ex.w2_jacHyp
    FEx.w2_rot0 FEx.cP_P FEx.cP_S 6 (by decide +kernel)
example (G : MatN Rat) (gam : VecN Rat) :=
  loop_Gqddot_minus_gamma FEx.dB FEx.dB_loop FEx.m0 FEx.w20 FEx.st FEx.qd FEx.qdd G gam FEx.w20_jacHyp
    FEx.w20_rot0 FEx.dB_P FEx.dB_S 1 (by decide +kernel)

/-! ### 4. `update_kinematics = true` -/

/-- the flag-set results are the flag-cleared ones in any workspace with the position-level entries of
    `UpdateKinematicsCustom (Q)`; `UpdateKinematics (Q, QDot, QDDot)` and
    `UpdateKinematicsCustom (Q, QDot)` leave such workspaces (tree order is the only hypothesis) -/
theorem update_flag (m : ModelS α) (htree : L13.TreeOrder m) (c : Constr α) (w : WS α) (st : QS α)
    (qd qdd : VecN α) (G : MatN α) (err : VecN α) :
    L13CS.KEq5 (updateKinematics m w st qd qdd) (updateKinematicsCustom m w (some st) none none) ∧
    L13CS.KEq5 (updateKinematicsCustom m w (some st) (some qd) none)
      (updateKinematicsCustom m w (some st) none none) ∧
    (∀ s, L13CS.KEq5 s (updateKinematicsCustom m w (some st) none none) →
      (c.jacobian m s st G false).2 = (c.jacobian m w st G true).2 ∧
      (c.positionError m s st err false).2 = (c.positionError m w st err true).2) :=
  ⟨uk_keq5 m w st qd qdd, ukcqv_keq5 m w st qd,
    fun s hk => ⟨jacobian_true m htree c w s st G hk, positionError_true m htree c w s st err hk⟩⟩
example (G : MatN Rat) (err : VecN Rat) :=
  update_flag FEx.m FEx.tree FEx.cP FEx.w0 FEx.st FEx.qd FEx.qdd G err

theorem loop_jacobian_row_update (c : Constr α) (hc : c.ctype = .loop) (m : ModelS α)
    (htree : L13.TreeOrder m) (w : WS α) (st : QS α) (G : MatN α) (hP : IdF m c.bodyP)
    (hS : IdF m c.bodyS) (r col : Nat) :
    (c.jacobian m w st G true).2 r col
      = if hasRow c r ∧ col < m.qdotSize then
          dot6 (loopAxis (frameOf (updateKinematicsCustom m w (some st) none none) (resId m c.bodyP)
              (resFrame m c.bodyP c.XP)) (axisAt c r))
            (fun q => (calcPointJacobian6D m w st c.bodyS c.XS.r zeroMat true).2 q col
                      - (calcPointJacobian6D m w st c.bodyP c.XP.r zeroMat true).2 q col)
        else G r col := by
  rw [← jacobian_true m htree c w _ st G (L13CS.KEq5.rfl' _), pj6_true, pj6_true]
  exact loop_jacobian_row c hc m _ st G hP hS r col
example (G : MatN Rat) (r col : Nat) :=
  loop_jacobian_row_update FEx.cP FEx.cP_loop FEx.m FEx.tree FEx.w0 FEx.st G FEx.cP_P.idF FEx.cP_S.idF
    r col

theorem loop_errors_update (c : Constr α) (hc : c.ctype = .loop) (hs : Shape c) (m : ModelS α)
    (htree : L13.TreeOrder m) (w : WS α) (st : QS α) (qd : VecN α) (G : MatN α) (err errd : VecN α)
    (hP : IdF m c.bodyP) (hS : IdF m c.bodyS) (r : Nat) (hr : hasRow c r) :
    (c.velocityError m w st qd G errd true).2 r = rowDot G m.qdotSize r qd ∧
    (c.positionError m w st err true).2 r
      = (axisAt c r).dot
          (loopError (frameOf (updateKinematicsCustom m w (some st) none none) (resId m c.bodyP)
              (resFrame m c.bodyP c.XP))
            (frameOf (updateKinematicsCustom m w (some st) none none) (resId m c.bodyS)
              (resFrame m c.bodyS c.XS))) := by
  rw [← positionError_true m htree c w _ st err (L13CS.KEq5.rfl' _)]
  exact ⟨(loop_errors c hc hs m w st qd G err errd true hP hS r hr).1,
    (loop_errors c hc hs m _ st qd G err errd false hP hS r hr).2.1⟩
example (G : MatN Rat) (err errd : VecN Rat) :=
  loop_errors_update FEx.cS FEx.cS_loop FEx.cS_shape FEx.m FEx.tree FEx.w0 FEx.st FEx.qd G err errd
    FEx.cS_P.idF FEx.cS_S.idF 7 (by decide +kernel)

/-- **`G q̇ = φ̇ + velGap` for the matrix computed with the flag set** (whatever the workspace held) -/
theorem loop_velocity_gap_update (h2 : (2 : α) ≠ 0) (m : ModelS α) (w : WS α) (st : QS α)
    (qd qdd : VecN α) (hS : Setup m w st) (c : Constr α) (hc : c.ctype = .loop) (hs : Shape c)
    (hP : IdJ m c.bodyP) (hB : IdJ m c.bodyS) (G : MatN α) (err : VecN α) (r : Nat)
    (hr : hasRow c r) :
    rowDot (c.jacobian m w st G true).2 m.qdotSize r qd
      = (loopPhi (framePlacement (idPoseJet m st qd qdd c.bodyP) c.XP)
            (framePlacement (idPoseJet m st qd qdd c.bodyS) c.XS) (axisAt c r)).d1
        + velGap (NodeKin.ofPose (framePlacement (idPoseJet m st qd qdd c.bodyP) c.XP))
            (NodeKin.ofPose (framePlacement (idPoseJet m st qd qdd c.bodyS) c.XS))
            (NodeKin.ofPose (bodyPoseJet m st qd qdd (resId m c.bodyP))).omega
            (NodeKin.ofPose (bodyPoseJet m st qd qdd (resId m c.bodyS))).omega (axisAt c r) ∧
    (c.positionError m w st err true).2 r
      = (loopPhi (framePlacement (idPoseJet m st qd qdd c.bodyP) c.XP)
            (framePlacement (idPoseJet m st qd qdd c.bodyS) c.XS) (axisAt c r)).x := by
  rw [← jacobian_true m hS.kin.tree c w _ st G (uk_keq5 m w st qd qdd),
    ← positionError_true m hS.kin.tree c w _ st err (uk_keq5 m w st qd qdd)]
  exact loop_velocity_gap h2 m w st qd qdd hS c hc hs hP hB G err r hr
example (G : MatN Rat) (err : VecN Rat) :=
  loop_velocity_gap_update L09.Ex.two_ne FEx.m FEx.w0 FEx.st FEx.qd FEx.qdd L09.Ex.setup FEx.cP
    FEx.cP_loop FEx.cP_shape FEx.cP_P FEx.cP_S G err 6 (by decide +kernel)
/-- a loop on movable bodies (`L09.Ex.cM`, body 2 → body 3) -/
example (G : MatN Rat) (err : VecN Rat) :=
  loop_velocity_gap_update L09.Ex.two_ne FEx.m FEx.w0 FEx.st FEx.qd FEx.qdd L09.Ex.setup L09.Ex.cM
    L09.Ex.cM_loop L09.Ex.cM_shape (IdJ.of_bodyOK L09.Ex.cM_P) (IdJ.of_bodyOK L09.Ex.cM_S) G err 4
    (by decide +kernel)

theorem loop_consistency_update (h2 : (2 : α) ≠ 0) (m : ModelS α) (w : WS α) (st : QS α)
    (qd qdd : VecN α) (hS : Setup m w st) (c : Constr α) (hc : c.ctype = .loop) (hs : Shape c)
    (hP : IdJ m c.bodyP) (hB : IdJ m c.bodyS) (G : MatN α) (errd : VecN α) (r : Nat)
    (hr : hasRow c r)
    (hrot : (axisAt c r).w = V3.zero ∨
      ((frameOf (updateKinematics m w st qd qdd) (resId m c.bodyS) (resFrame m c.bodyS c.XS)).E
          = (frameOf (updateKinematics m w st qd qdd) (resId m c.bodyP) (resFrame m c.bodyP c.XP)).E ∧
        (frameOf (updateKinematics m w st qd qdd) (resId m c.bodyP)
          (resFrame m c.bodyP c.XP)).E.IsRot))
    (ha : (frameOf (updateKinematics m w st qd qdd) (resId m c.bodyP)
        (resFrame m c.bodyP c.XP)).r.cross (axisAt c r).w = V3.zero)
    (hb : (axisAt c r).v = V3.zero ∨
      (vel6 (updateKinematics m w st qd qdd) (resId m c.bodyP) (resPoint m c.bodyP c.XP.r)).w
        = V3.zero ∨
      (frameOf (updateKinematics m w st qd qdd) (resId m c.bodyS) (resFrame m c.bodyS c.XS)).r
        = (frameOf (updateKinematics m w st qd qdd) (resId m c.bodyP) (resFrame m c.bodyP c.XP)).r) :
    rowDot (c.jacobian m w st G true).2 m.qdotSize r qd
      = (loopPhi (framePlacement (idPoseJet m st qd qdd c.bodyP) c.XP)
            (framePlacement (idPoseJet m st qd qdd c.bodyS) c.XS) (axisAt c r)).d1 ∧
    (c.velocityError m w st qd (c.jacobian m w st G true).2 errd true).2 r
      = (loopPhi (framePlacement (idPoseJet m st qd qdd c.bodyP) c.XP)
            (framePlacement (idPoseJet m st qd qdd c.bodyS) c.XS) (axisAt c r)).d1 := by
  have e := (loop_consistency h2 m w st qd qdd hS c hc hs hP hB G errd r hr hrot ha hb).1
  rw [jacobian_true m hS.kin.tree c w _ st G (uk_keq5 m w st qd qdd)] at e
  exact ⟨e, by rw [(loop_errors c hc hs m w st qd _ errd errd true hP.idF hB.idF r hr).1, e]⟩
example (G : MatN Rat) (errd : VecN Rat) :=
  loop_consistency_update L09.Ex.two_ne FEx.m FEx.w0 FEx.st FEx.qd FEx.qdd L09.Ex.setup FEx.cS
    FEx.cS_loop FEx.cS_shape FEx.cS_P FEx.cS_S G errd 7 (by decide +kernel)
    (Or.inl (by decide +kernel)) (by decide +kernel) (Or.inr (Or.inl (by decide +kernel)))

/-- `G q̈ − γ` with `G` computed with the flag set and `γ` after `UpdateKinematicsCustom (Q, QDot)`,
    `UpdateKinematicsCustom (NULL, NULL, 0)` -/
theorem loop_Gqddot_minus_gamma_update (m : ModelS α) (w : WS α) (st : QS α) (qd qdd : VecN α)
    (hS : Setup m w st) (c : Constr α) (hc : c.ctype = .loop) (hP : IdJ m c.bodyP)
    (hB : IdJ m c.bodyS) (G : MatN α) (gam : VecN α) (r : Nat) (hr : hasRow c r) :
    rowDot (c.jacobian m w st G true).2 m.qdotSize r qdd
        - (c.gamma m (updateKinematicsCustom m
              (updateKinematicsCustom m w (some st) (some qd) none) none none (some zeroVec))
            st qd gam).2 r
      = (loopAxis (frameOf (updateKinematicsCustom m w (some st) (some qd) none) (resId m c.bodyP)
            (resFrame m c.bodyP c.XP)) (axisAt c r)).dot
          (acc6 (updateKinematicsCustom m (updateKinematicsCustom m w (some st) (some qd) none)
                none none (some qdd)) (resId m c.bodyS) (resPoint m c.bodyS c.XS.r)
            - acc6 (updateKinematicsCustom m (updateKinematicsCustom m w (some st) (some qd) none)
                none none (some qdd)) (resId m c.bodyP) (resPoint m c.bodyP c.XP.r))
        + (crossm (vel6 (updateKinematicsCustom m w (some st) (some qd) none) (resId m c.bodyP)
              (resPoint m c.bodyP c.XP.r))
              (loopAxis (frameOf (updateKinematicsCustom m w (some st) (some qd) none)
                (resId m c.bodyP) (resFrame m c.bodyP c.XP)) (axisAt c r))).dot
            (vel6 (updateKinematicsCustom m w (some st) (some qd) none) (resId m c.bodyS)
                (resPoint m c.bodyS c.XS.r)
              - vel6 (updateKinematicsCustom m w (some st) (some qd) none) (resId m c.bodyP)
                  (resPoint m c.bodyP c.XP.r)) := by
  rw [← jacobian_true m hS.kin.tree c w _ st G (ukcqv_keq5 m w st qd)]
  exact loop_Gqddot_minus_gamma c hc m _ st qd qdd G gam (hS.jacHyp_ukc qd)
    (by rw [(L13CS.ukcqv_fields m w st qd).1, ukc_X_base_zero, hS.x0]; exact xt_id_rot) hP hB r hr
example (G : MatN Rat) (gam : VecN Rat) :=
  loop_Gqddot_minus_gamma_update FEx.m FEx.w0 FEx.st FEx.qd FEx.qdd L09.Ex.setup FEx.cP FEx.cP_loop
    FEx.cP_P FEx.cP_S G gam 6 (by decide +kernel)
example (G : MatN Rat) (gam : VecN Rat) :=
  loop_Gqddot_minus_gamma_update FEx.m0 FEx.w0 FEx.st FEx.qd FEx.qdd FEx.setup0 FEx.dB FEx.dB_loop
    FEx.dB_P FEx.dB_S G gam 1 (by decide +kernel)

/-! ### 5. whole sets, any body ids -/

/-- `constraint_set_rows` of C09 **without the restriction on the ids**: the workspace is returned up to
    `mBaseTransform` of the fixed bodies -/
theorem constraint_set_rows (ops : List (L09.Op α)) (m : ModelS α) (w : WS α) (st : QS α)
    (qd : VecN α) (G : MatN α) (err errd : VecN α) :
    FbEq w (calcConstraintsJacobian m w st (run ops) G false).1 ∧
    (∀ c ∈ (run ops).cs, ∀ r, hasRow c r → ∀ col, col < m.qdotSize →
      (calcConstraintsJacobian m w st (run ops) G false).2 r col
        = (c.jacobian m w st zeroMat false).2 r col) ∧
    (∀ r col, (∀ c ∈ (run ops).cs, ¬ hasRow c r) ∨ ¬ col < m.qdotSize →
      (calcConstraintsJacobian m w st (run ops) G false).2 r col = G r col) ∧
    (∀ c ∈ (run ops).cs, ∀ r, hasRow c r →
      (calcConstraintsPositionError m w st (run ops) err false).2 r
        = (c.positionError m w st (fun _ => 0) false).2 r) ∧
    (calcConstraintsVelocityError m w st qd (run ops) G errd false).2.1
      = (calcConstraintsJacobian m w st (run ops) G false).2 ∧
    (∀ c ∈ (run ops).cs, ∀ r, hasRow c r →
      (calcConstraintsVelocityError m w st qd (run ops) G errd false).2.2 r
        = (c.velocityError m w st qd (calcConstraintsJacobian m w st (run ops) G false).2
            (fun _ => 0) false).2 r) := by
  have hI : Inv (run ops) := inv_foldl ops _ inv_empty
  have hC : Contig (run ops) := contig_foldl ops _ inv_empty contig_empty
  obtain ⟨j1, j2, j3⟩ := constraintsJacobian_rowsF (run ops) hI hC m w w st G (FbEq.rfl' w)
  refine ⟨j1, j2, j3,
    (constraintsPositionError_rowsF (run ops) hI hC m w w st err (FbEq.rfl' w)).2.1, rfl, ?_⟩
  intro c hc r hr
  exact (constraintsVelocityError_rowsF (run ops) hI hC m w _ st qd _ errd j1.keq).2.1 c hc r hr
example (G : MatN Rat) (err errd : VecN Rat) :=
  constraint_set_rows FEx.ops FEx.m FEx.w2 FEx.st FEx.qd G err errd

/-- **the reported velocity error is `G q̇`, row by row, for the whole set**, contacts on fixed bodies
    and loops on fixed bodies included -/
theorem velocity_error_is_G_qdot (ops : List (L09.Op α)) (m : ModelS α) (w : WS α) (st : QS α)
    (qd : VecN α) (G : MatN α) (errd : VecN α) (hJ : JacHyp m w qd) (h0 : (w.X_base 0).E.IsRot)
    (hP : ∀ c ∈ (run ops).cs, c.ctype = .contact → IdJ m c.bodyP) :
    ∀ c ∈ (run ops).cs, ∀ r, hasRow c r →
      (calcConstraintsVelocityError m w st qd (run ops) G errd false).2.2 r
        = rowDot (calcConstraintsVelocityError m w st qd (run ops) G errd false).2.1 m.qdotSize r
            qd := by
  intro c hc r hr
  obtain ⟨_, j2, _, _, v1, v2⟩ := constraint_set_rows ops m w st qd G errd errd
  have hs := C09.constraint_shape ops c hc
  have hk : r - c.row < c.T.length := by have := hr.1; have := hr.2; omega
  rw [v2 c hc r hr, v1]
  cases hct : c.ctype with
  | loop => rw [loop_velocityError_get c hct, if_pos hr, hs.velC_getD _ hk, if_pos rfl]
  | contact =>
    obtain ⟨e1, e2, _⟩ := contact_row_velocity c hct hs m w st qd zeroMat
      (calcConstraintsJacobian m w st (run ops) G false).2 errd (fun _ => 0) hJ h0 (hP c hc hct) r hr
    rw [e2, ← e1]
    exact sumTo_congr _ _ _ (fun j hj => by rw [j2 c hc r hr j hj])
example (G : MatN Rat) (errd : VecN Rat) :=
  velocity_error_is_G_qdot FEx.ops FEx.m FEx.w2 FEx.st FEx.qd G errd L05.Ex.w2_jacHyp FEx.w2_rot0
    FEx.ops_contactOK

theorem gamma_loop_rows (ops : List (L09.Op α)) (m : ModelS α) (w : WS α) (st : QS α) (qd : VecN α)
    (err errd : VecN α) :
    ∀ c ∈ (run ops).cs, ∀ r, hasRow c r →
      ((run ops).cs.foldl (fun (s : WS α × VecN α) c =>
          let (w, g) := c.gamma m s.1 st qd s.2
          (w, c.addBaumgarte err errd g)) (w, fun _ => 0)).2 r
        = (c.gamma m w st qd (fun _ => 0)).2 r
          + (if c.baumgarte = true then -(2 * c.bgA * errd r) - c.bgB * c.bgB * err r else 0) :=
  (gammaLoop_rowsF (run ops) (inv_foldl ops _ inv_empty)
    (contig_foldl ops _ inv_empty contig_empty) m w w st qd err errd (KEq.rfl' w)).1
example (err errd : VecN Rat) :=
  gamma_loop_rows FEx.ops FEx.m FEx.w2 FEx.st FEx.qd err errd

/-- **`CalcConstrainedSystemVariables`**, any body ids -/
theorem constrained_system_variables_rows (ops : List (L09.Op α))
    (m : ModelS α) (w : WS α) (st : QS α) (qd : VecN α) (update : Bool)
    (fext : Option (Nat → SV α)) :
    ∀ c ∈ (run ops).cs, ∀ r, hasRow c r →
      (∀ col, col < m.qdotSize →
        (calcConstrainedSystemVariables m w st qd (run ops) update fext).2.G r col
          = (c.jacobian m (csvWS m w st qd update fext) st zeroMat false).2 r col) ∧
      (calcConstrainedSystemVariables m w st qd (run ops) update fext).2.err r
        = (c.positionError m (csvWS m w st qd update fext) st (fun _ => 0) false).2 r ∧
      (calcConstrainedSystemVariables m w st qd (run ops) update fext).2.errd r
        = (c.velocityError m (csvWS m w st qd update fext) st qd
            (calcConstrainedSystemVariables m w st qd (run ops) update fext).2.G (fun _ => 0)
            false).2 r ∧
      (calcConstrainedSystemVariables m w st qd (run ops) update fext).2.gamma r
        = (c.gamma m (updateKinematicsCustom m (csvWS m w st qd update fext) none none
              (some zeroVec)) st qd (fun _ => 0)).2 r
          + (if c.baumgarte = true then
              -(2 * c.bgA * (calcConstrainedSystemVariables m w st qd (run ops) update fext).2.errd r)
                - c.bgB * c.bgB
                  * (calcConstrainedSystemVariables m w st qd (run ops) update fext).2.err r
             else 0) :=
  csv_rowsF (run ops) (inv_foldl ops _ inv_empty) (contig_foldl ops _ inv_empty contig_empty)
    m w st qd update fext
example :=
  constrained_system_variables_rows FEx.ops FEx.m FEx.w0 FEx.st FEx.qd true none

/-- the same with `update_kinematics = true` (tree order only): the rows of the set-level routines are
    those of the per-constraint routines called with the flag set -/
theorem constraint_set_rows_update (ops : List (L09.Op α)) (m : ModelS α) (htree : L13.TreeOrder m)
    (w : WS α) (st : QS α) (qd : VecN α) (G : MatN α) (err errd : VecN α) :
    (∀ c ∈ (run ops).cs, ∀ r, hasRow c r → ∀ col, col < m.qdotSize →
      (calcConstraintsJacobian m w st (run ops) G true).2 r col
        = (c.jacobian m w st zeroMat true).2 r col) ∧
    (∀ r col, (∀ c ∈ (run ops).cs, ¬ hasRow c r) ∨ ¬ col < m.qdotSize →
      (calcConstraintsJacobian m w st (run ops) G true).2 r col = G r col) ∧
    (∀ c ∈ (run ops).cs, ∀ r, hasRow c r →
      (calcConstraintsPositionError m w st (run ops) err true).2 r
        = (c.positionError m w st (fun _ => 0) true).2 r) ∧
    (calcConstraintsVelocityError m w st qd (run ops) G errd true).2.1
      = (calcConstraintsJacobian m w st (run ops) G true).2 ∧
    (∀ c ∈ (run ops).cs, ∀ r, hasRow c r →
      (calcConstraintsVelocityError m w st qd (run ops) G errd true).2.2 r
        = (c.velocityError m w st qd (calcConstraintsJacobian m w st (run ops) G true).2
            (fun _ => 0) true).2 r) := by
  obtain ⟨_, j2, j3, p1, _, _⟩ :=
    constraint_set_rows ops m (updateKinematicsCustom m w (some st) none none) st qd G err errd
  obtain ⟨_, _, _, _, v1, v2⟩ :=
    constraint_set_rows ops m (updateKinematicsCustom m w (some st) (some qd) none) st qd G err errd
  have eJ := L13CS.cj_flag_tree m htree w st (run ops) G
  have eP := L13CS.cp_flag_tree m htree w st (run ops) err
  have eV := L13CS.cv_flag_tree m htree w st qd (run ops) G errd
  have eJ1 := L13CS.cj_flag_tree_gen m htree w _ st (ukcqv_keq5 m w st qd) (run ops) G
  refine ⟨fun c hc r hr col hcol => ?_, fun r col h => ?_, fun c hc r hr => ?_, rfl,
    fun c hc r hr => ?_⟩
  · rw [← eJ, j2 c hc r hr col hcol, jacobian_true m htree c w _ st zeroMat (L13CS.KEq5.rfl' _)]
  · rw [← eJ]; exact j3 r col h
  · rw [← eP, p1 c hc r hr, positionError_true m htree c w _ st _ (L13CS.KEq5.rfl' _)]
  · rw [← eV, v2 c hc r hr, eJ1, L13CS.velocityError_flag]
example (G : MatN Rat) (err errd : VecN Rat) :=
  constraint_set_rows_update FEx.ops FEx.m FEx.tree FEx.w0 FEx.st FEx.qd G err errd

end

/-! ### 6. `OrthAt` cannot be dropped from the gamma part of the reduction -/

/-- a workspace whose `X_base` entries are not rotations (`FEx.wJunk`), the loop fixed body → body 4:
    Jacobian row and position error of the constraint and of the constraint on the parents agree (no
    hypothesis on the workspace), gamma does not -/
theorem orth_needed :
    ¬ OrthAt FEx.m FEx.wJunk FEx.cP.bodyP ∧
    (∀ col, col < 7 → (FEx.cP.jacobian FEx.m FEx.wJunk FEx.st zeroMat false).2 6 col
        = ((onParents FEx.m FEx.cP).jacobian FEx.m FEx.wJunk FEx.st zeroMat false).2 6 col) ∧
    (FEx.cP.positionError FEx.m FEx.wJunk FEx.st (fun _ => 0) false).2 6
      = ((onParents FEx.m FEx.cP).positionError FEx.m FEx.wJunk FEx.st (fun _ => 0) false).2 6 ∧
    (FEx.cP.gamma FEx.m FEx.wJunk FEx.st FEx.qd (fun _ => 0)).2 6
      ≠ ((onParents FEx.m FEx.cP).gamma FEx.m FEx.wJunk FEx.st FEx.qd (fun _ => 0)).2 6 := by
  refine ⟨fun h => absurd (h (by decide +kernel)).n0 (by decide +kernel), fun col _ => ?_, ?_,
    by decide +kernel⟩
  · rw [L09F.loop_jacobian_red FEx.cP FEx.cP_loop FEx.m FEx.wJunk FEx.st zeroMat FEx.cP_P.idF
      FEx.cP_S.idF]
  · rw [L09F.loop_positionError_red FEx.cP FEx.cP_loop FEx.m FEx.wJunk FEx.st (fun _ => 0) FEx.cP_P.idF
      FEx.cP_S.idF]

end Rbdl.C09F
